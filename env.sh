# Go environment for every /verif script. go.mod of zcrypto says go 1.25.0 while /usr/bin/go is older:
# the build relies on the go1.25.0 toolchain in the module cache, so GOTOOLCHAIN/GOSUMDB are left alone
# (GOSUMDB=off or GOTOOLCHAIN=local break the offline auto-switch); the cached toolchain is put first on PATH when present.
export GOFLAGS=-mod=mod GOPROXY=off
TC="$(ls -d /root/go/pkg/mod/golang.org/toolchain@v0.0.1-go1.25.0.linux-amd64/bin 2>/dev/null | head -1)"
[ -n "$TC" ] && export PATH="$TC:$PATH"
