package tlspaireng

// C27 — TLS peers authenticate each other as configured.
//
// A scenario table (credential scenario x version x key-exchange family x key
// kind x client-auth mode) is enumerated; every row states which side verifies
// and whether the handshake may complete. Bad credentials are produced at
// configuration level (wrong chains, certificates with a flipped signature
// bit, key shims that sign with another key or flip a signature byte — the
// transcript stays consistent, so only the authentication check stands between
// the liar and a completed handshake) and, for TLS <= 1.2, additionally by
// flipping a byte of the right plaintext handshake message on the wire.

import (
	gotls "crypto/tls"
	"fmt"
	"io"
	"strings"
	"time"

	ztls "github.com/zmap/zcrypto/tls"

	"verifharness/internal/core"
	"verifharness/internal/netx"
	"verifharness/internal/tlspair"
	"verifharness/internal/tlsscript"
)

func init() {
	core.RegisterMeta("C27", core.Meta{
		Rule: "enumerated scenario table: server-credential scenarios (trusted, untrusted root, expired / not-yet-valid leaf, expired or missing intermediate, wrong name, SAN/IP names, Config.Time shifted both ways, flipped certificate signature, substituted key, flipped ServerKeyExchange/CertificateVerify signature, wire flips of ServerKeyExchange / Certificate, InsecureSkipVerify) " +
			"x TLS1.0-1.3 x {RSA, ECDHE_RSA, ECDHE_ECDSA, DHE_RSA, TLS1.3} x key kinds; client-auth table: 5 ClientAuth modes x client credentials (none, trusted, untrusted, expired, wrong EKU, flipped certificate signature, substituted key, flipped CertificateVerify, wire flip) x versions x client key kinds; " +
			"look-alike-chain family: presented chains containing look-alike intermediates / roots (subject and key identifiers of the genuine ones, other key; signed under the real root's name or self-signed) in every position, with and without the genuine intermediate, leaf signed by the genuine or the look-alike key, as server credential and as client credential (expectation = harness ground truth: some path verifies link by link up to the configured root); " +
			"scripted-client family (internal/tlsscript, TLS 1.0-1.2, RSA and ECDHE): conforming and non-conforming client flights (Certificate omitted / empty / duplicated / after the ClientKeyExchange / unrequested, CertificateVerify omitted / corrupted / made with another key) x 5 ClientAuth modes x credential trusted/untrusted/none against the zcrypto server; " +
			"server-name-forms family: ServerName as DNS name / mixed case / trailing dot / IPv4 / IPv6 / bracketed / expanded / IPv4-mapped / zoned literal x trusted leaves whose SANs cover it by DNS, by IP, cover only other names, DNS only, CN only (expectation from the C09 matching rules; open readings recorded); " +
			"resumption family: connection 1 (config X, possibly InsecureSkipVerify, server trusted/untrusted/expired/misnamed/incomplete chain) fills a shared ClientSessionCache, connection 2 (Y = X.Clone() with verification on, optionally Config.Time past NotAfter or another ServerName) must not complete against a server that does not verify for Y, resumed or not; " +
			"peers zcrypto<->zcrypto, lying/honest Go server against the zcrypto client, lying/honest Go client against the zcrypto server. non-trivial = a row with an asserted expectation whose run reached a decision (verifying side returned); distinct by row description",
		MinNontrivial:         1200,
		MinNontrivialThorough: 4000,
		Shards:                16,
		Env:                   goDebug,
		Assumptions: []string{
			"expected outcomes derive from the property statement and the ClientAuthType / InsecureSkipVerify / Config.Time documentation; the oracle looks only at the verifying side's error and HandshakeComplete",
			"possession proof is asserted for RequireAnyClientCert and RequireAndVerifyClientCert (the statement's 'server requiring client certificates'); for RequestClientCert / VerifyClientCertIfGiven it is recorded only",
			"rows with InsecureSkipVerify and a lying key, and CN-only certificates, are recorded, not asserted",
			"a wire flip also breaks the Finished check, so those rows cannot by themselves detect a skipped signature check; the key-shim rows can",
		},
	}, runC27)
}

type c27Row struct {
	ID       string `json:"id"`
	Peer     string `json:"peer"` // zz | zg | gz
	Vers     uint16 `json:"vers"`
	KX       string `json:"kx"`
	Suite    uint16 `json:"suite"`
	Kind     string `json:"server_key"`
	Scenario string `json:"scenario"`
	Mode     string `json:"client_auth,omitempty"`
	Cred     string `json:"client_cred,omitempty"`
	CKind    string `json:"client_key,omitempty"`
	Seed     uint64 `json:"seed"`
	Mask     byte   `json:"mask,omitempty"`
}

func (r c27Row) sig() string {
	return fmt.Sprintf("%s|%s|%s|%04x|%s|%s|%s|%s|%s", r.Peer, vname(r.Vers), r.KX, r.Suite, r.Kind, r.Scenario, r.Mode, r.Cred, r.CKind)
}

type c27Cell struct {
	vers  uint16
	kx    string
	suite uint16
	kind  string
}

func c27Cells() []c27Cell {
	var out []c27Cell
	for _, v := range []uint16{v10, v11, v12} {
		out = append(out,
			c27Cell{v, "rsa", 0x002f, tlspair.RSA2048},
			c27Cell{v, "ecdhe_rsa", 0xc013, tlspair.RSA2048},
			c27Cell{v, "ecdhe_ecdsa", 0xc009, tlspair.P256},
			c27Cell{v, "dhe_rsa", 0x0033, tlspair.RSA2048},
		)
	}
	out = append(out,
		c27Cell{v12, "ecdhe_ecdsa", 0xc02b, tlspair.Ed25519},
		c27Cell{v12, "ecdhe_ecdsa", 0xc02c, tlspair.P384},
		c27Cell{v12, "ecdhe_rsa", 0xc02f, tlspair.RSA2048},
		c27Cell{v12, "rsa", 0x009c, tlspair.RSA2048},
		c27Cell{v12, "dhe_rsa", 0x009e, tlspair.RSA2048},
		c27Cell{v13, "tls13", 0x1301, tlspair.P256},
		c27Cell{v13, "tls13", 0x1301, tlspair.RSA2048},
		c27Cell{v13, "tls13", 0x1302, tlspair.Ed25519},
		c27Cell{v13, "tls13", 0x1303, tlspair.P521},
	)
	return out
}

var serverScenarios = []string{
	"trusted", "untrusted_root", "expired", "not_yet_valid", "wrong_name", "name_alt_san", "name_ip_san", "name_other",
	"client_time_future", "client_time_past", "expired_intermediate", "missing_intermediate", "bad_cert_signature",
	"subst_key", "flip_signature", "wire_flip_skx", "wire_flip_cert",
	"skipverify_untrusted", "skipverify_expired", "skipverify_wrong_name", "skipverify_subst_key", "cn_only",
}

var clientAuthModes = []string{"NoClientCert", "RequestClientCert", "RequireAnyClientCert", "VerifyClientCertIfGiven", "RequireAndVerifyClientCert"}
var clientCreds = []string{"none", "trusted", "untrusted", "expired", "wrong_eku", "bad_cert_signature", "subst_key", "flip_cv", "wire_flip_cv"}

func authMode(s string) ztls.ClientAuthType {
	for i, m := range clientAuthModes {
		if m == s {
			return ztls.ClientAuthType(i)
		}
	}
	return ztls.NoClientCert
}

// expectServerScenario: "ok" | "fail" | "" (recorded only) | "skip" (row not applicable)
func expectServerScenario(sc string, cell c27Cell, peer string) string {
	switch sc {
	case "trusted", "name_alt_san", "name_ip_san", "client_time_past":
		return "ok"
	case "untrusted_root", "expired", "not_yet_valid", "wrong_name", "name_other", "client_time_future",
		"expired_intermediate", "missing_intermediate", "bad_cert_signature", "subst_key":
		return "fail"
	case "flip_signature":
		if cell.kx == "rsa" || cell.kx == "dhe_rsa" {
			// the RSA key exchange has no server signature; the DHE server code insists on a concrete
			// *rsa.PrivateKey, so a signing shim cannot be configured (wire_flip_skx covers DHE)
			return "skip"
		}
		return "fail"
	case "wire_flip_skx":
		if cell.kx == "rsa" || cell.vers == v13 || peer != "zz" {
			return "skip"
		}
		return "fail"
	case "wire_flip_cert":
		if cell.vers == v13 || peer != "zz" {
			return "skip"
		}
		return "fail"
	case "skipverify_untrusted", "skipverify_expired", "skipverify_wrong_name":
		return "ok"
	case "skipverify_subst_key", "cn_only":
		return ""
	}
	return "skip"
}

// expectClientAuth gives the expected outcome at the server.
func expectClientAuth(mode, cred string, vers uint16) string {
	if cred == "wire_flip_cv" && vers == v13 {
		return "skip"
	}
	possessionBad := cred == "subst_key" || cred == "flip_cv" || cred == "wire_flip_cv"
	chainBad := cred == "untrusted" || cred == "expired" || cred == "wrong_eku" || cred == "bad_cert_signature"
	switch mode {
	case "NoClientCert":
		return "ok"
	case "RequestClientCert":
		if possessionBad {
			return ""
		}
		return "ok"
	case "RequireAnyClientCert":
		if cred == "none" || possessionBad {
			return "fail"
		}
		return "ok"
	case "VerifyClientCertIfGiven":
		if chainBad {
			return "fail"
		}
		if possessionBad {
			return ""
		}
		return "ok"
	case "RequireAndVerifyClientCert":
		if cred == "trusted" {
			return "ok"
		}
		return "fail"
	}
	return "skip"
}

// suiteAlternates: suites of the same key-exchange family and version range; later repetitions of the
// table (thorough tier) rotate through them.
var suiteAlternates = map[uint16][]uint16{
	0x002f: {0x002f, 0x0035, 0x000a, 0x0005},
	0xc013: {0xc013, 0xc014, 0xc012, 0xc011},
	0xc009: {0xc009, 0xc00a, 0xc007},
	0x0033: {0x0033, 0x0039, 0x0016},
	0xc02b: {0xc02b, 0xc02c, 0xcca9, 0xc023},
	0xc02c: {0xc02c, 0xc02b, 0xcca9, 0xc009},
	0xc02f: {0xc02f, 0xc030, 0xcca8, 0xc027},
	0x009c: {0x009c, 0x009d, 0x003c},
	0x009e: {0x009e, 0x009f, 0x0067, 0x006b, 0xccaa},
	0x1301: {0x1301, 0x1302, 0x1303},
	0x1302: {0x1302, 0x1303, 0x1301},
	0x1303: {0x1303, 0x1301, 0x1302},
}

func c27Table(c *core.Ctx) []c27Row {
	var rows []c27Row
	rep := 0
	add := func(r c27Row) {
		if alts := suiteAlternates[r.Suite]; len(alts) > 0 {
			alt := alts[rep%len(alts)]
			// the scripted endpoints implement a subset of the suites: only draw cells they can run
			if r.Scenario != "scripted_client" || scriptCanRun(r.Vers, alt) {
				r.Suite = alt
			}
		}
		if r.Scenario == "scripted_client" && !scriptCanRun(r.Vers, r.Suite) {
			return
		}
		r.ID = fmt.Sprintf("r%05d", len(rows))
		rows = append(rows, r)
	}
	reps := c.Pick(1, 24)
	for rep = 0; rep < reps; rep++ {
		for _, cell := range c27Cells() {
			for _, sc := range serverScenarios {
				if expectServerScenario(sc, cell, "zz") == "skip" {
					continue
				}
				add(c27Row{Peer: "zz", Vers: cell.vers, KX: cell.kx, Suite: cell.suite, Kind: cell.kind, Scenario: sc})
			}
			// Go's server as the honest or lying side (suites Go implements, TLS >= 1.2 keeps it in Go's default-supported range; 1.0/1.1 via GODEBUG)
			if cell.kx != "dhe_rsa" {
				for _, sc := range []string{"trusted", "untrusted_root", "expired", "wrong_name", "bad_cert_signature", "subst_key", "flip_signature", "missing_intermediate"} {
					if expectServerScenario(sc, cell, "zg") == "skip" {
						continue
					}
					add(c27Row{Peer: "zg", Vers: cell.vers, KX: cell.kx, Suite: cell.suite, Kind: cell.kind, Scenario: sc})
				}
			}
		}
		// client authentication
		for _, cell := range c27Cells() {
			if cell.kind == tlspair.P384 || cell.kind == tlspair.P521 || cell.suite == 0x009c || cell.suite == 0xc02f {
				continue
			}
			for _, ck := range []string{tlspair.P256, tlspair.RSA2048, tlspair.Ed25519} {
				if ck == tlspair.Ed25519 && cell.vers < v12 {
					continue // Ed25519 client certificates need TLS 1.2 signature algorithms
				}
				if ck != tlspair.P256 && (cell.kx == "dhe_rsa" || cell.kx == "rsa") && cell.vers != v12 {
					continue
				}
				for _, mode := range clientAuthModes {
					for _, cred := range clientCreds {
						if expectClientAuth(mode, cred, cell.vers) == "skip" {
							continue
						}
						add(c27Row{Peer: "zz", Vers: cell.vers, KX: cell.kx, Suite: cell.suite, Kind: cell.kind, Scenario: "client_auth", Mode: mode, Cred: cred, CKind: ck})
						if cell.kx != "dhe_rsa" && cred != "wire_flip_cv" && ck != tlspair.Ed25519 && (cell.vers >= v12 || ck == tlspair.P256) && mode != "NoClientCert" {
							add(c27Row{Peer: "gz", Vers: cell.vers, KX: cell.kx, Suite: cell.suite, Kind: cell.kind, Scenario: "client_auth", Mode: mode, Cred: cred, CKind: ck})
						}
					}
				}
			}
		}
		// look-alike chains: same subject / key identifiers as the genuine intermediate or root, other key
		for _, cell := range []c27Cell{
			{v12, "ecdhe_ecdsa", 0xc02b, tlspair.P256}, {v13, "tls13", 0x1301, tlspair.P256}, {v12, "ecdhe_rsa", 0xc02f, tlspair.RSA2048}, {v13, "tls13", 0x1302, tlspair.RSA2048},
			{v10, "ecdhe_ecdsa", 0xc009, tlspair.P256},
		} {
			for _, variant := range lookVariantNames {
				for _, peer := range []string{"zz", "zg"} {
					add(c27Row{Peer: peer, Vers: cell.vers, KX: cell.kx, Suite: cell.suite, Kind: cell.kind, Scenario: "lookalike_chain", Cred: variant})
				}
				for _, mode := range []string{"RequireAnyClientCert", "VerifyClientCertIfGiven", "RequireAndVerifyClientCert"} {
					for _, peer := range []string{"zz", "gz"} {
						if peer == "gz" && cell.vers < v12 {
							continue
						}
						add(c27Row{Peer: peer, Vers: cell.vers, KX: cell.kx, Suite: cell.suite, Kind: cell.kind, Scenario: "lookalike_chain", Cred: variant, Mode: mode, CKind: tlspair.P256})
					}
				}
			}
		}
		// scripted (possibly non-conforming) TLS <= 1.2 client against the zcrypto server
		for _, cell := range []c27Cell{
			{v10, "rsa", 0x002f, tlspair.RSA2048}, {v10, "ecdhe_rsa", 0xc013, tlspair.RSA2048}, {v10, "ecdhe_ecdsa", 0xc009, tlspair.P256},
			{v11, "rsa", 0x002f, tlspair.RSA2048}, {v11, "ecdhe_rsa", 0xc013, tlspair.RSA2048}, {v11, "ecdhe_ecdsa", 0xc009, tlspair.P256},
			{v12, "rsa", 0x002f, tlspair.RSA2048}, {v12, "ecdhe_rsa", 0xc02f, tlspair.RSA2048}, {v12, "ecdhe_ecdsa", 0xc02b, tlspair.P256},
			{v12, "rsa", 0x009c, tlspair.RSA2048}, {v12, "ecdhe_ecdsa", 0xc009, tlspair.P256},
		} {
			for _, mode := range clientAuthModes {
				for _, beh := range scriptBehaviours {
					for _, cred := range []string{"trusted", "untrusted", "none"} {
						if expectScripted(mode, beh, cred) == "skip" {
							continue
						}
						add(c27Row{Peer: "sz", Vers: cell.vers, KX: cell.kx, Suite: cell.suite, Kind: cell.kind, Scenario: "scripted_client", Mode: mode, Cred: cred, CKind: beh})
					}
				}
			}
		}
		// server name forms x SAN coverage (all chains trusted: only the name decides)
		for _, cell := range []c27Cell{
			{v12, "ecdhe_ecdsa", 0xc02b, tlspair.P256}, {v13, "tls13", 0x1301, tlspair.P256}, {v10, "ecdhe_ecdsa", 0xc009, tlspair.P256},
			{v12, "rsa", 0x002f, tlspair.RSA2048}, {v11, "ecdhe_rsa", 0xc013, tlspair.RSA2048},
		} {
			for _, nf := range nameForms {
				for _, lf := range nameLeaves {
					add(c27Row{Peer: "zz", Vers: cell.vers, KX: cell.kx, Suite: cell.suite, Kind: cell.kind, Scenario: "name_form", Cred: nf.Name, CKind: lf})
					if cell.vers >= v12 && cell.kind == tlspair.P256 {
						add(c27Row{Peer: "zg", Vers: cell.vers, KX: cell.kx, Suite: cell.suite, Kind: cell.kind, Scenario: "name_form", Cred: nf.Name, CKind: lf})
					}
				}
			}
		}
		// resumption must not bypass authentication: connection 1 (config X) fills a shared session cache,
		// connection 2 (config Y, verification enabled) goes through the same cache to the same server
		for _, cell := range []c27Cell{
			{v12, "ecdhe_ecdsa", 0xc02b, tlspair.P256}, {v12, "rsa", 0x002f, tlspair.RSA2048}, {v13, "tls13", 0x1301, tlspair.P256},
			{v10, "ecdhe_ecdsa", 0xc009, tlspair.P256}, {v13, "tls13", 0x1302, tlspair.Ed25519}, {v11, "ecdhe_rsa", 0xc013, tlspair.RSA2048},
		} {
			for _, v := range resumeVariants {
				for _, peer := range []string{"zz", "zg"} {
					add(c27Row{Peer: peer, Vers: cell.vers, KX: cell.kx, Suite: cell.suite, Kind: cell.kind, Scenario: "resume_bypass", Cred: v.Name})
				}
			}
		}
	}
	gr := c.GlobalRng("rows")
	for i := range rows {
		rows[i].Seed = gr.Uint64() | 1
		rows[i].Mask = byte(1 << gr.IntN(8))
	}
	return rows
}

// ---------------------------------------------------------------------------

type c27Obs struct {
	Row    c27Row `json:"row"`
	Expect string `json:"expect"`
	Client string `json:"client"`
	Server string `json:"server"`
	Plan   any    `json:"wire_plan,omitempty"`
}

func clientLeaf(cred, kind string) *tlspair.Leaf {
	p, e := tlspair.Get(), getExtra()
	switch cred {
	case "trusted", "subst_key", "flip_cv", "wire_flip_cv":
		return p.Client[kind]
	case "untrusted":
		return e.UntrustedClient[kind]
	case "expired":
		return e.ExpiredClient[kind]
	case "wrong_eku":
		return p.ServerAuthOnlyClient[kind]
	case "bad_cert_signature":
		return e.BadSigClient[kind]
	}
	return nil
}

// ---- look-alike chains ----------------------------------------------------------

func (row c27Row) runLookalike(c *core.Ctx) {
	p := tlspair.Get()
	now := tlspair.Now
	clientAuth := row.Mode != ""
	kind := row.Kind
	if clientAuth {
		kind = row.CKind
	}
	var lc *lookChain
	for _, v := range lookalikeChains(kind, clientAuth) {
		if v.Name == row.Cred {
			vv := v
			lc = &vv
		}
	}
	if lc == nil {
		return
	}
	suites := []uint16{row.Suite}
	serverLeaf := p.Server[row.Kind]
	if !clientAuth {
		serverLeaf = lc.Leaf
	}
	mkZS := func() *ztls.Config {
		zs := &ztls.Config{Time: func() time.Time { return now }, Rand: tlspair.NewDetRand(row.Seed ^ 0xabcdef), MinVersion: row.Vers, MaxVersion: row.Vers,
			Certificates: []ztls.Certificate{serverLeaf.Z()}}
		if row.Vers != v13 {
			zs.CipherSuites = suites
		}
		if clientAuth {
			zs.ClientAuth = authMode(row.Mode)
			zs.ClientCAs = p.ZRoots()
		}
		return zs
	}
	mkZC := func() *ztls.Config {
		cc := tlspair.BaseClient(row.Seed)
		cc.MinVersion, cc.MaxVersion = row.Vers, row.Vers
		if row.Vers != v13 {
			cc.CipherSuites = suites
		}
		if clientAuth {
			cert := lc.Leaf.Z()
			cc.GetClientCertificate = func(*ztls.CertificateRequestInfo) (*ztls.Certificate, error) { return &cert, nil }
		}
		return cc
	}
	var res *tlspair.Result
	switch row.Peer {
	case "zz":
		res = tlspair.RunZZ(mkZC(), mkZS(), guarded(tlspair.Options{}))
	case "zg":
		gs := &gotls.Config{Time: func() time.Time { return now }, Rand: tlspair.NewDetRand(row.Seed ^ 0xabcdef), MinVersion: row.Vers, MaxVersion: row.Vers,
			Certificates: []gotls.Certificate{serverLeaf.Go()}}
		if row.Vers != v13 {
			gs.CipherSuites = suites
		}
		res = tlspair.RunZG(mkZC(), gs, guarded(tlspair.Options{}))
	case "gz":
		gc := tlspair.GoClient(row.Seed)
		gc.MinVersion, gc.MaxVersion = row.Vers, row.Vers
		if row.Vers != v13 {
			gc.CipherSuites = suites
		}
		cert := lc.Leaf.Go()
		gc.GetClientCertificate = func(*gotls.CertificateRequestInfo) (*gotls.Certificate, error) { return &cert, nil }
		res = tlspair.RunGZ(gc, mkZS(), guarded(tlspair.Options{}))
	}
	defer res.Close()
	cs, ss := clientSide(res), serverSide(res)
	obs := map[string]any{"row": row, "chain_valid_by_ground_truth": lc.Valid, "client": cs.String(), "server": ss.String()}
	var chainHex []string
	for _, d := range lc.Leaf.Chain {
		chainHex = append(chainHex, core.FullHex(d))
	}
	obs["presented_chain"] = chainHex
	if reportPanics(c, res, row.ID, obs) {
		return
	}
	if res.TimedOut {
		noteWatchdog(c, "C27 "+row.ID)
		return
	}
	c.Eval(1)
	label := "lookalike_chain:" + row.Cred
	if clientAuth {
		label = "lookalike_chain:client_auth:" + row.Mode + ":" + row.Cred
	}
	cellKey := fmt.Sprintf("%s:%s:%s", row.Peer, vname(row.Vers), row.KX)
	verifier, other, who := cs, ss, "client"
	if clientAuth {
		verifier, other, who = ss, cs, "server"
	}
	expectOK := lc.Valid || row.Mode == "RequireAnyClientCert" // RequireAnyClientCert does not verify the chain
	outcome := "fail"
	if verifier.OK && verifier.Complete {
		outcome = "ok"
	}
	c.Count("outcome:"+label+":"+outcome, 1)
	if expectOK {
		if !(cs.OK && ss.OK && cs.Complete && ss.Complete) {
			c.Violation(fmt.Sprintf("good_credentials_rejected:%s:%s:c=%s:s=%s", label, cellKey, normErr(cs.Err), normErr(ss.Err)),
				fmt.Sprintf("every link of a path through the presented chain verifies up to the configured root (or the mode does not verify chains); client %v server %v", cs.Err, ss.Err), row.ID, obs)
			return
		}
	} else {
		if verifier.OK || verifier.Complete {
			c.Violation(fmt.Sprintf("bad_credentials_accepted:%s:%s", label, cellKey),
				fmt.Sprintf("the verifying %s completed although no path through the presented chain verifies link by link up to the configured root (other side: %v)", who, other.Err), row.ID, obs)
			return
		}
		if !localError(verifier.Err) {
			undecided(c, "refusal_not_raised_by_detector:"+label+":"+cellKey, fmt.Sprintf("%s error %v, peer error %v", who, verifier.Err, other.Err), row.ID, obs)
			return
		}
	}
	c.Nontrivial(row.sig())
	c.Count("cell:"+cellKey, 1)
}

// ---- scripted client ---------------------------------------------------------

var scriptBehaviours = []string{"conforming", "OmitCertificate", "EmptyCertificate", "OmitCertificateVerify", "BadCertificateVerify",
	"VerifyWithOtherKey", "CertificateAfterCKX", "DuplicateCertificate", "SendCertificateUnrequested"}

// scriptCanRun asks the scripted endpoints whether they implement (version, suite).
func scriptCanRun(vers, suite uint16) bool {
	su := tlsscript.SuiteByID(suite)
	if !tlsscript.CanSeal(su) {
		return false
	}
	return vers >= v10 && vers <= v12 && (!su.TLS12 || vers == v12)
}

// expectScripted: outcome at the server. "ok" | "fail" | "" (the statement does not decide: counted) | "skip".
// A client "proves possession" when it sends its chain and a correct CertificateVerify made with the chain's key.
func expectScripted(mode, beh, cred string) string {
	needsCred := beh != "conforming" && beh != "OmitCertificate" && beh != "EmptyCertificate"
	if needsCred && cred == "none" {
		return "skip"
	}
	if (beh == "OmitCertificate" || beh == "EmptyCertificate") && cred != "none" {
		return "skip" // the credential is not used by these scripts
	}
	noProof := cred == "none" || beh == "OmitCertificate" || beh == "EmptyCertificate" || beh == "OmitCertificateVerify" ||
		beh == "BadCertificateVerify" || beh == "VerifyWithOtherKey"
	deviation := beh != "conforming" && beh != "EmptyCertificate"
	switch mode {
	case "NoClientCert":
		switch beh {
		case "conforming":
			if cred == "none" {
				return "ok"
			}
			return "skip" // nothing is requested, nothing is sent: same run as with no credential
		case "SendCertificateUnrequested":
			return ""
		}
		return "skip" // the other flags only act on a CertificateRequest
	case "RequestClientCert":
		if !deviation {
			return "ok"
		}
		return ""
	case "RequireAnyClientCert":
		if noProof {
			return "fail"
		}
		if !deviation {
			return "ok"
		}
		return ""
	case "VerifyClientCertIfGiven":
		if !deviation {
			if cred == "untrusted" {
				return "fail"
			}
			return "ok"
		}
		return ""
	case "RequireAndVerifyClientCert":
		if noProof || cred == "untrusted" {
			return "fail"
		}
		if !deviation {
			return "ok"
		}
		return ""
	}
	return "skip"
}

func (row c27Row) runScripted(c *core.Ctx) {
	p, e := tlspair.Get(), getExtra()
	now := tlspair.Now
	mode, beh, cred := row.Mode, row.CKind, row.Cred
	expect := expectScripted(mode, beh, cred)
	if expect == "skip" {
		return
	}
	zs := &ztls.Config{Time: func() time.Time { return now }, Rand: tlspair.NewDetRand(row.Seed ^ 0xabcdef), MinVersion: row.Vers, MaxVersion: row.Vers,
		Certificates: []ztls.Certificate{p.Server[row.Kind].Z()}, CipherSuites: []uint16{row.Suite}, SessionTicketsDisabled: true,
		ClientAuth: authMode(mode), ClientCAs: p.ZRoots()}
	sc := &tlsscript.ClientScript{Version: row.Vers, Suite: row.Suite, Curve: 23, SNI: tlspair.ServerName, AppData: []byte("ping"), ReadReply: 4, Seed: row.Seed, Timeout: 20 * time.Second}
	switch cred {
	case "trusted":
		sc.Chain, sc.Key = p.Client[tlspair.P256].Chain, p.Client[tlspair.P256].Key
	case "untrusted":
		sc.Chain, sc.Key = e.UntrustedClient[tlspair.P256].Chain, e.UntrustedClient[tlspair.P256].Key
	}
	switch beh {
	case "OmitCertificate":
		sc.OmitCertificate = true
	case "EmptyCertificate":
		sc.EmptyCertificate = true
	case "OmitCertificateVerify":
		sc.OmitCertificateVerify = true
	case "BadCertificateVerify":
		sc.BadCertificateVerify = true
	case "VerifyWithOtherKey":
		sc.VerifyKey = tlspair.SecondSigner(tlspair.P256)
	case "CertificateAfterCKX":
		sc.CertificateAfterCKX = true
	case "DuplicateCertificate":
		sc.DuplicateCertificate = true
	case "SendCertificateUnrequested":
		sc.SendCertificateUnrequested = true
	}
	a, b, _ := netx.Pipe(netx.Options{}, netx.Options{})
	srv := ztls.Server(b, zs)
	b.SetDeadline(time.Now().Add(30 * time.Second)) // watchdog only
	type srvOut struct {
		err      error
		pi       *core.PanicInfo
		complete bool
		npeer    int
		echoed   bool
	}
	done := make(chan srvOut, 1)
	go func() {
		var o srvOut
		o.pi = core.Guard(func() {
			o.err = srv.Handshake()
			st := srv.ConnectionState()
			o.complete, o.npeer = st.HandshakeComplete, len(st.PeerCertificates)
			if o.err == nil {
				buf := make([]byte, 4)
				if _, err := io.ReadFull(srv, buf); err == nil && string(buf) == "ping" {
					if _, err := srv.Write([]byte("pong")); err == nil {
						o.echoed = true
					}
				}
			}
		})
		b.Close()
		done <- o
	}()
	res, serr := tlsscript.RunClient(a, sc)
	a.Close()
	var so srvOut
	select {
	case so = <-done:
	case <-time.After(40 * time.Second):
		noteWatchdog(c, "C27 "+row.ID)
		return
	}
	if serr != nil && !(expect == "fail" && so.err == nil && so.complete) {
		// the script could not be carried out for a local reason (unsupported cell, unexpected server message):
		// nothing was observed about the property, the case is not evaluated
		if strings.Contains(serr.Error(), "not implemented") || strings.Contains(serr.Error(), "not usable") {
			c.Count("script_unsupported", 1)
		} else {
			c.Count("script_error", 1)
			c.Note("scripted client could not run row %s: %v", row.ID, serr)
		}
		return
	}
	c.Eval(1)
	obs := map[string]any{"row": row, "expect": expect, "server_err": errStr(so.err), "server_complete": so.complete, "server_peer_certs": so.npeer, "server_echoed": so.echoed,
		"script_err": errStr(serr)}
	if res != nil {
		obs["client_stage"], obs["client_sent"], obs["client_complete"], obs["client_alerts"], obs["client_app_data"] = res.Stage, fmt.Sprintf("%v", res.Sent), res.HandshakeComplete, fmt.Sprintf("%v", res.Alerts), string(res.AppDataReceived)
	}
	if so.pi != nil {
		c.Violation(so.pi.Key, "server endpoint panicked: "+so.pi.Value+"\n"+so.pi.Stack, row.ID, obs)
		return
	}
	label := "scripted_client:" + mode + ":" + beh + ":" + cred
	cellKey := fmt.Sprintf("sz:%s:%s", vname(row.Vers), row.KX)
	serverOK := so.err == nil && so.complete
	outcome := "fail"
	if serverOK {
		outcome = "ok"
	}
	c.Count("outcome:"+label+":"+outcome, 1)
	if mode != "NoClientCert" && res != nil && !res.CertificateRequested && res.Stage != "hello" && res.Stage != "server-flight" {
		c.Violation("certificate_not_requested:"+mode, "the server's flight carried no CertificateRequest", row.ID, obs)
		return
	}
	switch expect {
	case "":
		c.Count("recorded_only:"+label+":"+outcome, 1)
		return
	case "ok":
		if serr != nil {
			undecided(c, "script_error:"+label+":"+cellKey, serr.Error(), row.ID, obs)
			return
		}
		if !serverOK || res == nil || !res.HandshakeComplete || !so.echoed || string(res.AppDataReceived) != "pong" {
			c.Violation(fmt.Sprintf("good_credentials_rejected:%s:%s:s=%s", label, cellKey, normErr(so.err)), "a conforming client with acceptable credentials must complete and exchange data", row.ID, obs)
			return
		}
		wantPeer := mode != "NoClientCert" && cred != "none" && beh != "EmptyCertificate"
		if (so.npeer > 0) != wantPeer {
			c.Violation("client_certificate_visibility:"+mode, fmt.Sprintf("server sees %d peer certificates, credential %s", so.npeer, cred), row.ID, obs)
			return
		}
	case "fail":
		if serverOK || so.echoed || (res != nil && len(res.AppDataReceived) > 0) {
			c.Violation(fmt.Sprintf("bad_credentials_accepted:%s:%s", label, cellKey),
				fmt.Sprintf("a server with ClientAuth=%s completed (err=%v, complete=%v, peer certificates=%d, application data echoed=%v) although the client did not prove possession of an acceptable key (script %s, credential %s)", mode, so.err, so.complete, so.npeer, so.echoed, beh, cred), row.ID, obs)
			return
		}
		if !localError(so.err) {
			undecided(c, "refusal_not_raised_by_detector:"+label+":"+cellKey, fmt.Sprintf("server error %v, script error %v", so.err, serr), row.ID, obs)
			return
		}
	}
	c.Nontrivial(row.sig())
	c.Count("cell:"+cellKey, 1)
}

// ---- server name forms -------------------------------------------------------
//
// Reference expectation written from the C09 matching rules: an IP literal (optionally bracketed) matches
// exactly the certificate's IP SANs; a DNS name matches a DNS SAN case-insensitively, label by label; the
// common name is considered only when there is no SAN. Forms the documentation leaves open (trailing dot,
// zone, IPv4-mapped IPv6 against an IPv4 SAN, CN fallback, IP in the CN) are recorded, not asserted —
// unless no reading can make them match.

type nameForm struct {
	Name string
	Host string // Config.ServerName
	Kind string // dns | ip
	IP   string // canonical address for ip forms
	Open string // non-empty: reading left open by the documentation
}

var nameForms = []nameForm{
	{Name: "dns", Host: "server.test", Kind: "dns"},
	{Name: "dns_mixed_case", Host: "SeRvEr.TEST", Kind: "dns"},
	{Name: "dns_trailing_dot", Host: "server.test.", Kind: "dns", Open: "trailing dot"},
	{Name: "dns_other", Host: "other.test", Kind: "dns"},
	{Name: "ipv4", Host: "127.0.0.1", Kind: "ip", IP: "127.0.0.1"},
	{Name: "ipv4_other", Host: "127.0.0.2", Kind: "ip", IP: "127.0.0.2"},
	{Name: "ipv6", Host: "::1", Kind: "ip", IP: "::1"},
	{Name: "ipv6_bracketed", Host: "[::1]", Kind: "ip", IP: "::1"},
	{Name: "ipv6_expanded", Host: "0:0:0:0:0:0:0:1", Kind: "ip", IP: "::1"},
	{Name: "ipv4_mapped_ipv6", Host: "::ffff:127.0.0.1", Kind: "ip", IP: "127.0.0.1", Open: "IPv4-mapped IPv6 vs IPv4 SAN"},
	{Name: "ipv6_zoned", Host: "::1%eth0", Kind: "ip", IP: "::1", Open: "zone"},
	{Name: "ipv6_other", Host: "::3", Kind: "ip", IP: "::3"},
}

// nameLeaves: SAN content of the (trusted) server leaf.
var nameLeaves = []string{"dns+ipv4", "dns+ipv4+ipv6", "other_dns+other_ips", "dns_only", "cn_only_dns", "cn_only_ip"}

type leafNames struct {
	dns []string
	ips []string
	cn  string // only when there is no SAN
}

func leafNamesOf(l string) leafNames {
	switch l {
	case "dns+ipv4":
		return leafNames{dns: []string{"server.test", "alt.server.test"}, ips: []string{"127.0.0.1"}}
	case "dns+ipv4+ipv6":
		return leafNames{dns: []string{"server.test"}, ips: []string{"127.0.0.1", "::1"}}
	case "other_dns+other_ips":
		return leafNames{dns: []string{"wrong.test"}, ips: []string{"10.0.0.1", "::2"}}
	case "dns_only":
		return leafNames{dns: []string{"server.test"}}
	case "cn_only_dns":
		return leafNames{cn: "server.test"}
	case "cn_only_ip":
		return leafNames{cn: "127.0.0.1"}
	}
	return leafNames{}
}

// expectName: "ok" | "fail" | "" (left open)
func expectName(f nameForm, l leafNames) string {
	lower := strings.ToLower
	if len(l.dns) == 0 && len(l.ips) == 0 {
		// no SAN: whether (and for what) the CN is consulted is left open, except that a CN which differs
		// from the host under every reading cannot match
		host := lower(strings.TrimSuffix(strings.Trim(f.Host, "[]"), "."))
		if lower(l.cn) == host || (f.Kind == "ip" && l.cn == f.IP) {
			return ""
		}
		return "fail"
	}
	if f.Kind == "dns" {
		host := lower(f.Host)
		for _, d := range l.dns {
			if lower(d) == host {
				return "ok"
			}
		}
		if f.Open != "" {
			for _, d := range l.dns {
				if lower(d) == strings.TrimSuffix(host, ".") {
					return "" // matches only if the trailing dot is ignored
				}
			}
		}
		return "fail"
	}
	for _, ip := range l.ips {
		if ip == f.IP {
			if f.Open != "" {
				return ""
			}
			return "ok"
		}
	}
	return "fail" // no IP SAN equals the address under any reading; DNS SANs never match an IP literal
}

func (row c27Row) runNameForm(c *core.Ctx) {
	p, e := tlspair.Get(), getExtra()
	now := tlspair.Now
	var f nameForm
	for _, x := range nameForms {
		if x.Name == row.Cred {
			f = x
		}
	}
	var leaf *tlspair.Leaf
	switch row.CKind {
	case "dns+ipv4":
		leaf = p.Server[row.Kind]
	case "dns+ipv4+ipv6":
		leaf = e.NameIP6[row.Kind]
	case "other_dns+other_ips":
		leaf = e.NameOtherIP[row.Kind]
	case "dns_only":
		leaf = e.NameDNSOnly[row.Kind]
	case "cn_only_dns":
		leaf = e.CNOnly[row.Kind]
	case "cn_only_ip":
		leaf = e.NameCNIP[row.Kind]
	}
	expect := expectName(f, leafNamesOf(row.CKind))
	suites := []uint16{row.Suite}
	cc := tlspair.BaseClient(row.Seed)
	cc.MinVersion, cc.MaxVersion = row.Vers, row.Vers
	cc.CipherSuites = suites
	cc.ServerName = f.Host
	var res *tlspair.Result
	if row.Peer == "zg" {
		gs := &gotls.Config{Time: func() time.Time { return now }, Rand: tlspair.NewDetRand(row.Seed ^ 0xabcdef), MinVersion: row.Vers, MaxVersion: row.Vers,
			Certificates: []gotls.Certificate{leaf.Go()}}
		if row.Vers != v13 {
			gs.CipherSuites = suites
		}
		res = tlspair.RunZG(cc, gs, guarded(tlspair.Options{}))
	} else {
		zs := &ztls.Config{Time: func() time.Time { return now }, Rand: tlspair.NewDetRand(row.Seed ^ 0xabcdef), MinVersion: row.Vers, MaxVersion: row.Vers,
			Certificates: []ztls.Certificate{leaf.Z()}}
		if row.Vers != v13 {
			zs.CipherSuites = suites
		}
		res = tlspair.RunZZ(cc, zs, guarded(tlspair.Options{}))
	}
	defer res.Close()
	c.Eval(1)
	cs, ss := clientSide(res), serverSide(res)
	obs := map[string]any{"row": row, "server_name": f.Host, "leaf_names": fmt.Sprintf("%+v", leafNamesOf(row.CKind)), "expect": expect, "client": cs.String(), "server": ss.String()}
	if reportPanics(c, res, row.ID, obs) {
		return
	}
	if res.TimedOut {
		noteWatchdog(c, "C27 "+row.ID)
		return
	}
	label := "name_form:" + f.Name + ":" + row.CKind
	cellKey := fmt.Sprintf("%s:%s:%s", row.Peer, vname(row.Vers), row.KX)
	outcome := "fail"
	if cs.OK && cs.Complete {
		outcome = "ok"
	}
	c.Count("outcome:"+label+":"+outcome, 1)
	switch expect {
	case "":
		c.Count("recorded_only:"+label+":"+outcome, 1)
		return
	case "ok":
		if !(cs.OK && ss.OK && cs.Complete && ss.Complete) {
			c.Violation(fmt.Sprintf("good_credentials_rejected:%s:%s:c=%s:s=%s", label, cellKey, normErr(cs.Err), normErr(ss.Err)),
				fmt.Sprintf("ServerName %q is covered by the certificate (%+v); client %v server %v", f.Host, leafNamesOf(row.CKind), cs.Err, ss.Err), row.ID, obs)
			return
		}
	case "fail":
		if cs.OK || cs.Complete {
			c.Violation(fmt.Sprintf("bad_credentials_accepted:%s:%s", label, cellKey),
				fmt.Sprintf("verifying client with ServerName %q completed against a certificate that names only %+v", f.Host, leafNamesOf(row.CKind)), row.ID, obs)
			return
		}
		if !localError(cs.Err) {
			undecided(c, "refusal_not_raised_by_detector:"+label+":"+cellKey, fmt.Sprintf("client error %v, server error %v", cs.Err, ss.Err), row.ID, obs)
			return
		}
	}
	c.Nontrivial(row.sig())
	c.Count("cell:"+cellKey, 1)
}

// resumeVariant: X = configuration of the connection that fills the cache, Y = the verifying configuration that reuses it.
type resumeVariant struct {
	Name    string
	Server  string // credential scenario of the server
	XSkip   bool   // X runs with InsecureSkipVerify
	YFuture bool   // Y's Config.Time is past the leaf's NotAfter
	YName   string // Y's ServerName ("" = unchanged)
	AnyKey  bool   // the shared cache answers every key with the stored session (a sloppy cache implementation)
	Expect  string // outcome of connection 2: ok | fail | "" (recorded)
}

var resumeVariants = []resumeVariant{
	{Name: "control:X_verifies,Y_verifies,good_server", Server: "trusted", Expect: "ok"},
	{Name: "control:X_skips,Y_verifies,good_server", Server: "trusted", XSkip: true, Expect: "ok"},
	{Name: "X_skips,untrusted_server,Y_verifies", Server: "untrusted_root", XSkip: true, Expect: "fail"},
	{Name: "X_skips,expired_server,Y_verifies", Server: "expired", XSkip: true, Expect: "fail"},
	{Name: "X_skips,wrong_name_server,Y_verifies", Server: "wrong_name", XSkip: true, Expect: "fail"},
	{Name: "X_skips,missing_intermediate,Y_verifies", Server: "missing_intermediate", XSkip: true, Expect: "fail"},
	{Name: "X_skips,bad_cert_signature,Y_verifies", Server: "bad_cert_signature", XSkip: true, Expect: "fail"},
	{Name: "X_verifies,Y_time_past_NotAfter", Server: "trusted", YFuture: true, Expect: "fail"},
	{Name: "X_verifies,Y_other_server_name", Server: "trusted", YName: "other.test", Expect: "fail"},
	{Name: "X_verifies,Y_other_server_name,any_key_cache", Server: "trusted", YName: "other.test", AnyKey: true, Expect: ""},
	{Name: "X_verifies,Y_alt_san_name,any_key_cache", Server: "trusted", YName: "alt.server.test", AnyKey: true, Expect: "ok"},
}

// anyKeyCache wraps a mapCache and answers every key with the stored session.
type anyKeyCache struct{ *mapCache }

func (a anyKeyCache) Get(string) (*ztls.ClientSessionState, bool) {
	s := a.mapCache.only()
	return s, s != nil
}

func (row c27Row) runResume(c *core.Ctx) {
	p, e := tlspair.Get(), getExtra()
	now := tlspair.Now
	var v resumeVariant
	for _, x := range resumeVariants {
		if x.Name == row.Cred {
			v = x
		}
	}
	leaf := p.Server[row.Kind]
	switch v.Server {
	case "untrusted_root":
		leaf = p.Untrusted[row.Kind]
	case "expired":
		leaf = p.Expired[row.Kind]
	case "wrong_name":
		leaf = p.WrongName[row.Kind]
	case "missing_intermediate":
		leaf = e.NoInterServer[row.Kind]
	case "bad_cert_signature":
		leaf = e.BadSigServer[row.Kind]
	}
	suites := []uint16{row.Suite}
	var zs *ztls.Config
	var gs *gotls.Config
	if row.Peer == "zg" {
		gs = &gotls.Config{Time: func() time.Time { return now }, Rand: tlspair.NewDetRand(row.Seed ^ 0xabcdef), MinVersion: row.Vers, MaxVersion: row.Vers,
			Certificates: []gotls.Certificate{leaf.Go()}}
		if row.Vers != v13 {
			gs.CipherSuites = suites
		}
	} else {
		zs = &ztls.Config{Time: func() time.Time { return now }, Rand: tlspair.NewDetRand(row.Seed ^ 0xabcdef), MinVersion: row.Vers, MaxVersion: row.Vers,
			Certificates: []ztls.Certificate{leaf.Z()}}
		if row.Vers != v13 {
			zs.CipherSuites = suites
		}
	}
	base := newMapCache()
	var cache ztls.ClientSessionCache = base
	if v.AnyKey {
		cache = anyKeyCache{base}
	}
	x := tlspair.BaseClient(row.Seed)
	x.MinVersion, x.MaxVersion = row.Vers, row.Vers
	x.CipherSuites = suites
	x.InsecureSkipVerify = v.XSkip
	x.ClientSessionCache = cache
	runPair := func(cc *ztls.Config) *tlspair.Result {
		if gs != nil {
			return tlspair.RunZG(cc, gs, guarded(tlspair.Options{}))
		}
		return tlspair.RunZZ(cc, zs, guarded(tlspair.Options{}))
	}
	label := "resume_bypass:" + v.Name
	cellKey := fmt.Sprintf("%s:%s:%s", row.Peer, vname(row.Vers), row.KX)
	r1 := runPair(x)
	c.Eval(1)
	cs1, ss1 := clientSide(r1), serverSide(r1)
	obs := map[string]any{"row": row, "variant": v, "conn1_client": cs1.String(), "conn1_server": ss1.String()}
	if reportPanics(c, r1, row.ID, obs) {
		r1.Close()
		return
	}
	if r1.TimedOut {
		r1.Close()
		noteWatchdog(c, "C27 "+row.ID)
		return
	}
	if !cs1.OK || !ss1.OK {
		r1.Close()
		c.Violation(fmt.Sprintf("good_credentials_rejected:%s:conn1:%s:c=%s:s=%s", label, cellKey, normErr(cs1.Err), normErr(ss1.Err)), "connection 1 (the one that fills the cache) must complete", row.ID, obs)
		return
	}
	if err := r1.PingPong([]byte("fill-cache"), []byte("ok")); err != nil {
		r1.Close()
		undecided(c, "conn1_data_exchange_failed:"+cellKey, err.Error(), row.ID, obs)
		return
	}
	r1.Close()
	if base.only() == nil {
		undecided(c, "no_session_cached_by_conn1:"+cellKey, "tickets are enabled on both sides but the shared cache is empty after connection 1", row.ID, obs)
		return
	}
	// Y: the documented way to derive a configuration — Clone shares the session cache
	y := x.Clone()
	y.InsecureSkipVerify = false
	y.Rand = tlspair.NewDetRand(row.Seed ^ 0x1234567)
	if v.YFuture {
		y.Time = func() time.Time { return now.Add(2 * 365 * 24 * time.Hour) }
	}
	if v.YName != "" {
		y.ServerName = v.YName
	}
	r2 := runPair(y)
	defer r2.Close()
	c.Eval(1)
	cs2, ss2 := clientSide(r2), serverSide(r2)
	nver := 0
	if r2.CZ != nil {
		nver = len(r2.CZ.ConnectionState().VerifiedChains)
	}
	offered := false
	if ch, ok := firstClientHello(r2.Tap); ok && ch.OK {
		offered = len(ch.Ticket) > 0 || len(ch.PSKIdentities) > 0
	}
	obs["conn2_client"], obs["conn2_server"] = cs2.String(), ss2.String()
	obs["conn2_verified_chains"], obs["conn2_offered_ticket"] = nver, offered
	if reportPanics(c, r2, row.ID, obs) {
		return
	}
	if r2.TimedOut {
		noteWatchdog(c, "C27 "+row.ID)
		return
	}
	outcome := "fail"
	if cs2.OK && cs2.Complete {
		outcome = "ok"
	}
	c.Count("outcome:"+label+":"+outcome, 1)
	if offered {
		c.Count("resume_offered:"+v.Name, 1)
	}
	if cs2.Resumed {
		c.Count("resumed:"+v.Name, 1)
	}
	switch v.Expect {
	case "":
		c.Count("recorded_only:"+label+":"+outcome, 1)
		return
	case "ok":
		if !(cs2.OK && ss2.OK && cs2.Complete && ss2.Complete) {
			c.Violation(fmt.Sprintf("good_credentials_rejected:%s:%s:c=%s:s=%s", label, cellKey, normErr(cs2.Err), normErr(ss2.Err)),
				fmt.Sprintf("connection 2 must complete; client %v server %v", cs2.Err, ss2.Err), row.ID, obs)
			return
		}
	case "fail":
		if cs2.OK || cs2.Complete {
			c.Violation(fmt.Sprintf("bad_credentials_accepted:%s:%s:%s", label, cellKey, row.Kind),
				fmt.Sprintf("a verifying client completed against a server whose chain does not verify for its name/time/roots (DidResume=%v, verified chains=%d, ticket offered=%v)", cs2.Resumed, nver, offered), row.ID, obs)
			return
		}
		if !localError(cs2.Err) {
			undecided(c, "refusal_not_raised_by_detector:"+label+":"+cellKey, fmt.Sprintf("client error %v, server error %v", cs2.Err, ss2.Err), row.ID, obs)
			return
		}
	}
	c.Nontrivial(row.sig())
	c.Count("cell:"+cellKey, 1)
}

func (row c27Row) run(c *core.Ctx) {
	if row.Scenario == "resume_bypass" {
		row.runResume(c)
		return
	}
	if row.Scenario == "lookalike_chain" {
		row.runLookalike(c)
		return
	}
	if row.Scenario == "scripted_client" {
		row.runScripted(c)
		return
	}
	if row.Scenario == "name_form" {
		row.runNameForm(c)
		return
	}
	p, e := tlspair.Get(), getExtra()
	now := tlspair.Now
	isClientAuth := row.Scenario == "client_auth"
	cell := c27Cell{row.Vers, row.KX, row.Suite, row.Kind}
	expect := ""
	if isClientAuth {
		expect = expectClientAuth(row.Mode, row.Cred, row.Vers)
	} else {
		expect = expectServerScenario(row.Scenario, cell, row.Peer)
	}
	if expect == "skip" {
		return
	}

	// ---- server credentials
	leaf := p.Server[row.Kind]
	lying := ""
	switch row.Scenario {
	case "untrusted_root", "skipverify_untrusted":
		leaf = p.Untrusted[row.Kind]
	case "expired", "client_time_past", "skipverify_expired":
		leaf = p.Expired[row.Kind]
	case "not_yet_valid":
		leaf = p.NotYet[row.Kind]
	case "wrong_name", "skipverify_wrong_name":
		leaf = p.WrongName[row.Kind]
	case "expired_intermediate":
		leaf = e.ExpiredInterChain[row.Kind]
	case "missing_intermediate":
		leaf = e.NoInterServer[row.Kind]
	case "bad_cert_signature":
		leaf = e.BadSigServer[row.Kind]
	case "cn_only":
		leaf = e.CNOnly[row.Kind]
	case "subst_key", "skipverify_subst_key":
		lying = "subst"
	case "flip_signature":
		lying = "flip"
	}

	// ---- client side settings
	serverName := tlspair.ServerName
	clientTime := now
	skip := strings.HasPrefix(row.Scenario, "skipverify_")
	switch row.Scenario {
	case "name_alt_san":
		serverName = "alt.server.test"
	case "name_ip_san":
		serverName = "127.0.0.1"
	case "name_other":
		serverName = "other.test"
	case "client_time_future":
		clientTime = now.Add(2 * 365 * 24 * time.Hour)
	case "client_time_past":
		clientTime = now.Add(-30 * 24 * time.Hour)
	}

	var opt tlspair.Options
	var flt *hsEditFilter
	switch {
	case row.Scenario == "wire_flip_skx":
		flt = &hsEditFilter{Edit: hsEdit{MsgType: hsServerKeyExch, Where: "last", Mask: row.Mask}}
		opt.BA = netx.Options{Filter: flt}
	case row.Scenario == "wire_flip_cert":
		// last byte of the leaf certificate (its signature) inside the Certificate message
		flt = &hsEditFilter{Edit: hsEdit{MsgType: hsCertificate, Where: "off", Off: 3 + 3 + len(leaf.DER) - 1, Mask: row.Mask}}
		opt.BA = netx.Options{Filter: flt}
	case isClientAuth && row.Cred == "wire_flip_cv":
		flt = &hsEditFilter{Edit: hsEdit{MsgType: hsCertVerify, Where: "last", Mask: row.Mask}}
		opt.AB = netx.Options{Filter: flt}
	}

	// ---- client credentials
	var cLeaf *tlspair.Leaf
	cLying := ""
	if isClientAuth && row.Cred != "none" {
		cLeaf = clientLeaf(row.Cred, row.CKind)
		switch row.Cred {
		case "subst_key":
			cLying = "subst"
		case "flip_cv":
			cLying = "flip"
		}
	}

	var res *tlspair.Result
	suites := []uint16{row.Suite}
	// zcrypto server
	mkZS := func() *ztls.Config {
		s := &ztls.Config{Time: func() time.Time { return now }, Rand: tlspair.NewDetRand(row.Seed ^ 0xabcdef), MinVersion: row.Vers, MaxVersion: row.Vers}
		if row.Vers != v13 {
			s.CipherSuites = suites
		}
		if lying != "" {
			s.Certificates = []ztls.Certificate{zLying(leaf, lying)}
		} else {
			s.Certificates = []ztls.Certificate{leaf.Z()}
		}
		if isClientAuth {
			s.ClientAuth = authMode(row.Mode)
			s.ClientCAs = p.ZRoots()
		}
		return s
	}
	mkZC := func() *ztls.Config {
		cc := tlspair.BaseClient(row.Seed)
		cc.MinVersion, cc.MaxVersion = row.Vers, row.Vers
		if row.Vers != v13 {
			cc.CipherSuites = suites
		}
		cc.ForceSuites = row.KX == "dhe_rsa"
		cc.ServerName = serverName
		cc.Time = func() time.Time { return clientTime }
		cc.InsecureSkipVerify = skip
		if cLeaf != nil {
			var cert ztls.Certificate
			if cLying != "" {
				cert = zLying(cLeaf, cLying)
			} else {
				cert = cLeaf.Z()
			}
			cc.GetClientCertificate = func(*ztls.CertificateRequestInfo) (*ztls.Certificate, error) { return &cert, nil }
		}
		return cc
	}
	switch row.Peer {
	case "zz":
		res = tlspair.RunZZ(mkZC(), mkZS(), guarded(opt))
	case "zg":
		gs := &gotls.Config{Time: func() time.Time { return now }, Rand: tlspair.NewDetRand(row.Seed ^ 0xabcdef), MinVersion: row.Vers, MaxVersion: row.Vers}
		if row.Vers != v13 {
			gs.CipherSuites = suites
		}
		if lying != "" {
			gs.Certificates = []gotls.Certificate{gLying(leaf, lying)}
		} else {
			gs.Certificates = []gotls.Certificate{leaf.Go()}
		}
		res = tlspair.RunZG(mkZC(), gs, guarded(opt))
	case "gz":
		gc := tlspair.GoClient(row.Seed)
		gc.MinVersion, gc.MaxVersion = row.Vers, row.Vers
		if row.Vers != v13 {
			gc.CipherSuites = suites
		}
		if cLeaf != nil {
			var cert gotls.Certificate
			if cLying != "" {
				cert = gLying(cLeaf, cLying)
			} else {
				cert = cLeaf.Go()
			}
			gc.GetClientCertificate = func(*gotls.CertificateRequestInfo) (*gotls.Certificate, error) { return &cert, nil }
		}
		res = tlspair.RunGZ(gc, mkZS(), guarded(opt))
	}
	// let a TLS 1.3 server finish reading the client's flight: both Handshake calls have returned already
	defer res.Close()
	c.Eval(1)
	cs, ss := clientSide(res), serverSide(res)
	obs := c27Obs{Row: row, Expect: expect, Client: cs.String(), Server: ss.String()}
	if flt != nil {
		obs.Plan = flt.Edit
	}
	if reportPanics(c, res, row.ID, obs) {
		return
	}
	if res.TimedOut {
		noteWatchdog(c, "C27 "+row.ID)
		return
	}
	if flt != nil && !flt.Applied {
		// the targeted message never crossed the wire (e.g. the client sent no CertificateVerify): nothing was corrupted
		c.Count("wire_fault_not_reached:"+row.Scenario+row.Cred, 1)
		if isClientAuth && row.Mode != "NoClientCert" {
			undecided(c, "harness:wire_fault_not_applied", "CertificateVerify expected on the wire but not seen before the CCS", row.ID, obs)
		}
		if !isClientAuth {
			undecided(c, "harness:wire_fault_not_applied", "target handshake message not seen", row.ID, obs)
		}
		return
	}
	label := row.Scenario
	if isClientAuth {
		label = "client_auth:" + row.Mode + ":" + row.Cred
	}
	cellKey := fmt.Sprintf("%s:%s:%s", row.Peer, vname(row.Vers), row.KX)
	verifier, other := cs, ss
	vname_ := "client"
	if isClientAuth {
		verifier, other = ss, cs
		vname_ = "server"
	}
	outcome := "fail"
	if verifier.OK && verifier.Complete {
		outcome = "ok"
	}
	c.Count("outcome:"+label+":"+outcome, 1)
	switch expect {
	case "":
		c.Count("recorded_only:"+label+":"+outcome, 1)
		return
	case "ok":
		if !(cs.OK && ss.OK && cs.Complete && ss.Complete) {
			c.Violation(fmt.Sprintf("good_credentials_rejected:%s:%s:c=%s:s=%s", label, cellKey, normErr(cs.Err), normErr(ss.Err)),
				fmt.Sprintf("expected both sides to complete; client %v server %v", cs.Err, ss.Err), row.ID, obs)
			return
		}
		if isClientAuth {
			// the server must see the certificate exactly when one was sent and requested
			wantPeer := row.Mode != "NoClientCert" && row.Cred != "none"
			if (ss.NPeer > 0) != wantPeer {
				c.Violation("client_certificate_visibility:"+row.Mode, fmt.Sprintf("server sees %d peer certificates, credential %s", ss.NPeer, row.Cred), row.ID, obs)
			}
		}
	case "fail":
		if verifier.OK || verifier.Complete {
			c.Violation(fmt.Sprintf("bad_credentials_accepted:%s:%s:%s", label, cellKey, row.Kind+"/"+row.CKind),
				fmt.Sprintf("the %s must refuse, but Handshake returned %v (complete=%v); other side %v", vname_, verifier.Err, verifier.Complete, other.Err), row.ID, obs)
			return
		}
		// the refusal must come from the side that is supposed to detect the problem, not from the liar giving up first
		detector, dname := verifier, vname_
		if !isClientAuth && row.KX == "rsa" && row.Scenario == "subst_key" {
			detector, dname = ss, "server (Finished check: the client encrypted to the presented key)"
		}
		if !localError(detector.Err) {
			undecided(c, "refusal_not_raised_by_detector:"+label+":"+cellKey, fmt.Sprintf("expected %s to detect; its error is %v, peer error %v", dname, detector.Err, other.Err), row.ID, obs)
			return
		}
		// TLS <= 1.2: a refused handshake cannot leave the other side believing it completed
		if row.Vers != v13 && other.OK && other.Complete {
			c.Violation("refused_handshake_completed_on_peer:"+label+":"+cellKey, fmt.Sprintf("verifier failed with %v but the peer completed", verifier.Err), row.ID, obs)
			return
		}
	}
	c.Nontrivial(row.sig())
	c.Count("cell:"+cellKey, 1)
	if c.WantSample() && expect == "fail" {
		c.Sample(obs)
	}
}

func runC27(c *core.Ctx) {
	loadSuites()
	rows := c27Table(c)
	c.Count("table_rows", 0)
	for i, row := range rows {
		if i%c.NShards != c.Shard {
			continue
		}
		if c.OnlyCase != "" && c.OnlyCase != row.ID {
			continue
		}
		c.Begin(row.ID, row)
		r := row
		if pi := core.Guard(func() { r.run(c) }); pi != nil {
			c.Violation(pi.Key, pi.Value+"\n"+pi.Stack, row.ID, row)
		}
		c.End(row.ID)
	}
	if c.Shard == 0 {
		c.Count("table_rows", len(rows))
	}
}
