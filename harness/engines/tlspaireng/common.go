package tlspaireng

import (
	"crypto"
	"crypto/ecdsa"
	"crypto/ed25519"
	"crypto/rand"
	gorsa "crypto/rsa"
	gotls "crypto/tls"
	gox509 "crypto/x509"
	"crypto/x509/pkix"
	"fmt"
	"io"
	"math/big"
	"net"
	"sort"
	"strings"
	"sync"
	"time"

	zrsa "github.com/zmap/zcrypto/rsa"
	ztls "github.com/zmap/zcrypto/tls"

	"verifharness/internal/core"
	"verifharness/internal/keys"
	"verifharness/internal/tlspair"
)

// goDebug enables Go's crypto/tls legacy features needed when it is the peer.
var goDebug = []string{"GODEBUG=tlsrsakex=1,tls3des=1,tls10server=1,tlsunsafeekm=1,tlssha1=1,x509sha1=1"}

const (
	v10 = 0x0301
	v11 = 0x0302
	v12 = 0x0303
	v13 = 0x0304
)

func vname(v uint16) string {
	switch v {
	case v10:
		return "1.0"
	case v11:
		return "1.1"
	case v12:
		return "1.2"
	case v13:
		return "1.3"
	case 0:
		return "-"
	}
	return fmt.Sprintf("%04x", v)
}

// ---------------------------------------------------------------------------
// suite table (implementation facts as data: which ids exist, which key exchange they use)

type suiteInfo struct {
	ID        uint16
	Name      string
	KX        string // rsa | ecdhe_rsa | ecdhe_ecdsa | dhe_rsa | dhe_dss
	TLS12Only bool
	Cipher    string
	Base      bool // in the table the server negotiates from and a default client advertises from
	GCM       bool
	ChaCha    bool
}

var (
	suiteOnce  sync.Once
	suiteByID  map[uint16]*suiteInfo
	baseSuites []uint16 // ids of the base table, table order
	dheSuites  []uint16
	tls13IDs   = []uint16{0x1301, 0x1302, 0x1303}
	suiteNotes []string
)

func kxOf(ka string) string {
	switch ka {
	case "rsaKA":
		return "rsa"
	case "ecdheRSAKA":
		return "ecdhe_rsa"
	case "ecdheECDSAKA":
		return "ecdhe_ecdsa"
	case "dheRSAKA":
		return "dhe_rsa"
	case "dheDSSKA":
		return "dhe_dss"
	}
	return ka
}

func loadSuites() {
	suiteOnce.Do(func() {
		suiteByID = map[uint16]*suiteInfo{}
		pub := map[uint16]*ztls.CipherSuite{}
		for _, s := range ztls.CipherSuites() {
			pub[s.ID] = s
		}
		for _, s := range ztls.InsecureCipherSuites() {
			pub[s.ID] = s
		}
		add := func(v ztls.VerifSuite, base bool) {
			if si, ok := suiteByID[v.ID]; ok {
				if base {
					si.Base = true
				}
				return
			}
			si := &suiteInfo{ID: v.ID, Name: ztls.CipherSuiteName(v.ID), KX: kxOf(v.KA), TLS12Only: v.TLS12Only, Cipher: v.Cipher, Base: base}
			if p, ok := pub[v.ID]; ok {
				only12 := len(p.SupportedVersions) == 1 && p.SupportedVersions[0] == v12
				if only12 != v.TLS12Only {
					suiteNotes = append(suiteNotes, fmt.Sprintf("suite %04x: public SupportedVersions says tls12only=%v, table flag says %v", v.ID, only12, v.TLS12Only))
				}
				si.TLS12Only = only12 || v.TLS12Only
			}
			n := strings.ToUpper(si.Name)
			si.GCM = strings.Contains(n, "GCM")
			si.ChaCha = strings.Contains(n, "CHACHA")
			suiteByID[v.ID] = si
		}
		// the client table is searched first-match by id, so register it in order
		for _, v := range ztls.VerifClientSuites() {
			add(v, false)
		}
		for _, v := range ztls.VerifServerSuites() {
			add(v, true)
			baseSuites = append(baseSuites, v.ID)
		}
		for _, v := range ztls.VerifClientSuites() {
			si := suiteByID[v.ID]
			if si.KX == "dhe_rsa" && !si.Base {
				dup := false
				for _, d := range dheSuites {
					if d == v.ID {
						dup = true
					}
				}
				if !dup {
					dheSuites = append(dheSuites, v.ID)
				}
			}
		}
	})
}

func is13Suite(id uint16) bool { return id == 0x1301 || id == 0x1302 || id == 0x1303 }

func isGCM(id uint16) bool {
	if id == 0x1301 || id == 0x1302 {
		return true
	}
	if si := suiteByID[id]; si != nil {
		return si.GCM
	}
	return false
}
func isChaCha(id uint16) bool {
	if id == 0x1303 {
		return true
	}
	if si := suiteByID[id]; si != nil {
		return si.ChaCha
	}
	return false
}

// aeadOrderAmbiguous reports whether a preference list contains both AES-GCM and
// ChaCha20 suites, in which case hardware-dependent reordering may apply.
func aeadOrderAmbiguous(list []uint16) bool {
	g, c := false, false
	for _, id := range list {
		if isGCM(id) {
			g = true
		}
		if isChaCha(id) {
			c = true
		}
	}
	return g && c
}

func has16(l []uint16, v uint16) bool {
	for _, x := range l {
		if x == v {
			return true
		}
	}
	return false
}

func hexList(l []uint16) string {
	if l == nil {
		return "nil"
	}
	var sb strings.Builder
	for i, v := range l {
		if i > 0 {
			sb.WriteByte(',')
		}
		fmt.Fprintf(&sb, "%04x", v)
	}
	return "[" + sb.String() + "]"
}

// ---------------------------------------------------------------------------
// endpoint observation

type side struct {
	Err      error
	OK       bool
	Complete bool
	Version  uint16
	Suite    uint16
	ALPN     string
	Resumed  bool
	NPeer    int
	ekm      func(label string, ctx []byte, n int) ([]byte, error)
}

func (s side) String() string {
	return fmt.Sprintf("{ok=%v complete=%v vers=%s suite=%04x alpn=%q resumed=%v err=%v}", s.OK, s.Complete, vname(s.Version), s.Suite, s.ALPN, s.Resumed, s.Err)
}

func clientSide(r *tlspair.Result) side {
	if r.CZ != nil {
		return zSide(r.CZ, r.CErr)
	}
	return gSide(r.CG, r.CErr)
}

func serverSide(r *tlspair.Result) side {
	if r.SZ != nil {
		return zSide(r.SZ, r.SErr)
	}
	return gSide(r.SG, r.SErr)
}

func zSide(c *ztls.Conn, err error) side {
	cs := c.ConnectionState()
	s := side{Err: err, OK: err == nil, Complete: cs.HandshakeComplete, Version: cs.Version, Suite: cs.CipherSuite, ALPN: cs.NegotiatedProtocol, Resumed: cs.DidResume, NPeer: len(cs.PeerCertificates)}
	if err == nil && cs.HandshakeComplete {
		s.ekm = func(l string, ctx []byte, n int) ([]byte, error) { return cs.ExportKeyingMaterial(l, ctx, n) }
	}
	return s
}

func gSide(c *gotls.Conn, err error) side {
	cs := c.ConnectionState()
	s := side{Err: err, OK: err == nil, Complete: cs.HandshakeComplete, Version: cs.Version, Suite: cs.CipherSuite, ALPN: cs.NegotiatedProtocol, Resumed: cs.DidResume, NPeer: len(cs.PeerCertificates)}
	if err == nil && cs.HandshakeComplete {
		s.ekm = func(l string, ctx []byte, n int) ([]byte, error) { return cs.ExportKeyingMaterial(l, ctx, n) }
	}
	return s
}

func errStr(e error) string {
	if e == nil {
		return ""
	}
	s := e.Error()
	if len(s) > 200 {
		s = s[:200]
	}
	return s
}

// ---------------------------------------------------------------------------
// client session caches

type mapCache struct {
	mu   sync.Mutex
	m    map[string]*ztls.ClientSessionState
	puts int
	last *ztls.ClientSessionState
}

func newMapCache() *mapCache { return &mapCache{m: map[string]*ztls.ClientSessionState{}} }

func (c *mapCache) Get(k string) (*ztls.ClientSessionState, bool) {
	c.mu.Lock()
	defer c.mu.Unlock()
	s, ok := c.m[k]
	return s, ok
}

func (c *mapCache) Put(k string, s *ztls.ClientSessionState) {
	c.mu.Lock()
	defer c.mu.Unlock()
	c.puts++
	if s == nil {
		delete(c.m, k)
		return
	}
	c.m[k] = s
	c.last = s
}

func (c *mapCache) only() *ztls.ClientSessionState {
	c.mu.Lock()
	defer c.mu.Unlock()
	for _, s := range c.m {
		return s
	}
	return nil
}

// ---------------------------------------------------------------------------
// lying key material (config-level faults: transcript stays consistent, only the proof of possession is wrong)

// shimSigner announces pub but signs with real (substituted key) and/or flips a signature byte.
type shimSigner struct {
	pub  crypto.PublicKey
	real crypto.Signer
	flip bool
}

func (s *shimSigner) Public() crypto.PublicKey { return s.pub }
func (s *shimSigner) Sign(r io.Reader, digest []byte, opts crypto.SignerOpts) ([]byte, error) {
	sig, err := s.real.Sign(r, digest, opts)
	if err != nil {
		return nil, err
	}
	if s.flip && len(sig) > 0 {
		sig = append([]byte(nil), sig...)
		sig[len(sig)-1] ^= 0x01
	}
	return sig, nil
}

// shimDecrypter additionally decrypts with the real key (RSA key exchange with a substituted key).
type shimDecrypter struct {
	shimSigner
	dec crypto.Decrypter
}

func (s *shimDecrypter) Decrypt(r io.Reader, msg []byte, opts crypto.DecrypterOpts) ([]byte, error) {
	return s.dec.Decrypt(r, msg, opts)
}

// zKey converts a pool signer to the key type zcrypto's TLS stack expects.
func zKey(k crypto.Signer) crypto.Signer {
	if rk, ok := k.(*gorsa.PrivateKey); ok {
		for _, pk := range keys.Get().RSA {
			if pk.N.Cmp(rk.N) == 0 {
				return pk.Z()
			}
		}
		panic("rsa key not in pool")
	}
	return k
}

// zLying builds a zcrypto certificate that presents leaf's chain but whose key operations are wrong.
// mode: "subst" = the private key of another key pair of the same kind; "flip" = right key, last signature byte flipped.
func zLying(leaf *tlspair.Leaf, mode string) ztls.Certificate {
	right := zKey(leaf.Key)
	if mode == "subst" {
		// the chain of one key with the private key of another: no shim needed
		return ztls.Certificate{Certificate: leaf.Chain, PrivateKey: zKey(tlspair.SecondSigner(leaf.Kind))}
	}
	sh := shimSigner{pub: right.Public(), real: right, flip: true}
	if d, ok := right.(crypto.Decrypter); ok && leaf.Kind == tlspair.RSA2048 {
		return ztls.Certificate{Certificate: leaf.Chain, PrivateKey: &shimDecrypter{shimSigner: sh, dec: d}}
	}
	return ztls.Certificate{Certificate: leaf.Chain, PrivateKey: &sh}
}

// gLying is the same for Go's crypto/tls.
func gLying(leaf *tlspair.Leaf, mode string) gotls.Certificate {
	if mode == "subst" {
		return gotls.Certificate{Certificate: leaf.Chain, PrivateKey: tlspair.SecondSigner(leaf.Kind)}
	}
	sh := shimSigner{pub: leaf.Key.Public(), real: leaf.Key, flip: true}
	if d, ok := leaf.Key.(crypto.Decrypter); ok && leaf.Kind == tlspair.RSA2048 {
		return gotls.Certificate{Certificate: leaf.Chain, PrivateKey: &shimDecrypter{shimSigner: sh, dec: d}}
	}
	return gotls.Certificate{Certificate: leaf.Chain, PrivateKey: &sh}
}

// localError reports whether a handshake error was raised by this endpoint itself
// (as opposed to an alert received from, or a connection closed by, the peer).
func localError(e error) bool {
	if e == nil {
		return false
	}
	s := e.Error()
	return !strings.HasPrefix(s, "remote error") && !strings.Contains(s, "EOF") && !strings.Contains(s, "closed pipe")
}

var _ = zrsa.PSSSaltLengthEqualsHash

// ---------------------------------------------------------------------------
// extra credentials (built once per process with Go's crypto/x509 from the fixed PKI keys)

type extraPKI struct {
	ExpiredClient     map[string]*tlspair.Leaf // client leaf, valid only in the past
	UntrustedClient   map[string]*tlspair.Leaf // client leaf under the other root
	ExpiredInterChain map[string]*tlspair.Leaf // server leaf (valid) under an expired intermediate
	BadSigServer      map[string]*tlspair.Leaf // trusted server leaf whose certificate signature has one flipped bit
	BadSigClient      map[string]*tlspair.Leaf
	NoInterServer     map[string]*tlspair.Leaf // trusted leaf presented without the intermediate
	CNOnly            map[string]*tlspair.Leaf // no SAN, CN = server name
	// trusted server leaves for the server-name-forms family (key kind -> leaf)
	NameIP6     map[string]*tlspair.Leaf // DNS server.test; IP 127.0.0.1, ::1
	NameOtherIP map[string]*tlspair.Leaf // DNS wrong.test; IP 10.0.0.1, ::2
	NameDNSOnly map[string]*tlspair.Leaf // DNS server.test; no IP SAN
	NameCNIP    map[string]*tlspair.Leaf // no SAN, CN = "127.0.0.1"
}

var (
	extraOnce sync.Once
	extra     *extraPKI
)

func getExtra() *extraPKI {
	extraOnce.Do(func() {
		p := tlspair.Get()
		e := &extraPKI{ExpiredClient: map[string]*tlspair.Leaf{}, UntrustedClient: map[string]*tlspair.Leaf{}, ExpiredInterChain: map[string]*tlspair.Leaf{},
			BadSigServer: map[string]*tlspair.Leaf{}, BadSigClient: map[string]*tlspair.Leaf{}, NoInterServer: map[string]*tlspair.Leaf{}, CNOnly: map[string]*tlspair.Leaf{},
			NameIP6: map[string]*tlspair.Leaf{}, NameOtherIP: map[string]*tlspair.Leaf{}, NameDNSOnly: map[string]*tlspair.Leaf{}, NameCNIP: map[string]*tlspair.Leaf{}}
		now := tlspair.Now
		nb, na := now.Add(-365*24*time.Hour), now.Add(365*24*time.Hour)
		inter, err := gox509.ParseCertificate(p.InterDER)
		if err != nil {
			panic(err)
		}
		root, _ := gox509.ParseCertificate(p.RootDER)
		other, _ := gox509.ParseCertificate(p.OtherRootDER)
		serial := int64(900000)
		mk := func(t, parent *gox509.Certificate, pub crypto.PublicKey, signer crypto.Signer) []byte {
			serial++
			t.SerialNumber = big.NewInt(serial)
			der, err := gox509.CreateCertificate(rand.Reader, t, parent, pub, signer)
			if err != nil {
				panic(err)
			}
			return der
		}
		// expired intermediate: same subject key as the good intermediate is not reused; a separate CA key
		eiKey := keys.Get().ECByCurve("P384")[3]
		eiT := &gox509.Certificate{Subject: pkix.Name{CommonName: "verif expired intermediate", Organization: []string{"verif"}},
			NotBefore: nb, NotAfter: now.Add(-time.Hour), IsCA: true, BasicConstraintsValid: true,
			KeyUsage: gox509.KeyUsageCertSign | gox509.KeyUsageDigitalSignature}
		eiDER := mk(eiT, root, &eiKey.PublicKey, p.RootKey)
		ei, _ := gox509.ParseCertificate(eiDER)
		sa := []gox509.ExtKeyUsage{gox509.ExtKeyUsageServerAuth}
		ca := []gox509.ExtKeyUsage{gox509.ExtKeyUsageClientAuth}
		leafT := func(cn string, dns []string, eku []gox509.ExtKeyUsage, nb, na time.Time) *gox509.Certificate {
			t := &gox509.Certificate{Subject: pkix.Name{CommonName: cn}, DNSNames: dns, NotBefore: nb, NotAfter: na,
				KeyUsage: gox509.KeyUsageDigitalSignature | gox509.KeyUsageKeyEncipherment, ExtKeyUsage: eku, BasicConstraintsValid: true}
			if dns != nil {
				t.IPAddresses = []net.IP{net.IPv4(127, 0, 0, 1)}
			}
			return t
		}
		flipLast := func(der []byte) []byte {
			d := append([]byte(nil), der...)
			d[len(d)-1] ^= 0x01
			return d
		}
		for _, k := range tlspair.Kinds {
			s := p.Server[k].Key
			d := mk(leafT("client.test", []string{"client.test"}, ca, nb, now.Add(-time.Hour)), inter, s.Public(), p.InterKey)
			e.ExpiredClient[k] = &tlspair.Leaf{Kind: k, DER: d, Key: s, Chain: [][]byte{d, p.InterDER}}
			d = mk(leafT("client.test", []string{"client.test"}, ca, nb, na), other, s.Public(), p.OtherKey)
			e.UntrustedClient[k] = &tlspair.Leaf{Kind: k, DER: d, Key: s, Chain: [][]byte{d}}
			d = mk(leafT(tlspair.ServerName, []string{tlspair.ServerName}, sa, nb, na), ei, s.Public(), eiKey)
			e.ExpiredInterChain[k] = &tlspair.Leaf{Kind: k, DER: d, Key: s, Chain: [][]byte{d, eiDER}}
			d = flipLast(p.Server[k].DER)
			e.BadSigServer[k] = &tlspair.Leaf{Kind: k, DER: d, Key: s, Chain: [][]byte{d, p.InterDER}}
			d = flipLast(p.Client[k].DER)
			e.BadSigClient[k] = &tlspair.Leaf{Kind: k, DER: d, Key: s, Chain: [][]byte{d, p.InterDER}}
			e.NoInterServer[k] = &tlspair.Leaf{Kind: k, DER: p.Server[k].DER, Key: s, Chain: [][]byte{p.Server[k].DER}}
			d = mk(leafT(tlspair.ServerName, nil, sa, nb, na), inter, s.Public(), p.InterKey)
			e.CNOnly[k] = &tlspair.Leaf{Kind: k, DER: d, Key: s, Chain: [][]byte{d, p.InterDER}}
			nameLeaf := func(cn string, dns []string, ips []net.IP) *tlspair.Leaf {
				t := &gox509.Certificate{Subject: pkix.Name{CommonName: cn}, DNSNames: dns, IPAddresses: ips, NotBefore: nb, NotAfter: na,
					KeyUsage: gox509.KeyUsageDigitalSignature | gox509.KeyUsageKeyEncipherment, ExtKeyUsage: sa, BasicConstraintsValid: true}
				d := mk(t, inter, s.Public(), p.InterKey)
				return &tlspair.Leaf{Kind: k, DER: d, Key: s, Chain: [][]byte{d, p.InterDER}}
			}
			e.NameIP6[k] = nameLeaf(tlspair.ServerName, []string{tlspair.ServerName}, []net.IP{net.IPv4(127, 0, 0, 1).To4(), net.ParseIP("::1")})
			e.NameOtherIP[k] = nameLeaf("wrong.test", []string{"wrong.test"}, []net.IP{net.IPv4(10, 0, 0, 1).To4(), net.ParseIP("::2")})
			e.NameDNSOnly[k] = nameLeaf(tlspair.ServerName, []string{tlspair.ServerName}, nil)
			e.NameCNIP[k] = nameLeaf("127.0.0.1", nil, nil)
		}
		extra = e
	})
	return extra
}

// ---------------------------------------------------------------------------
// look-alike chains: certificates that copy the subject and key identifiers of the genuine intermediate / root
// but carry another key. Ground truth comes from the harness's own check with Go's crypto/x509 signature
// verification: a presented chain is valid only if every link verifies under the next certificate's key up to
// the configured root.

type lookChain struct {
	Name  string
	Leaf  *tlspair.Leaf
	Valid bool
}

var (
	lookMu    sync.Mutex
	lookCache = map[string][]lookChain{}
)

// chainVerifies: is there a path from chain[0] through presented certificates to root in which every signature verifies?
func chainVerifies(chain [][]byte, root *gox509.Certificate) bool {
	var certs []*gox509.Certificate
	for _, der := range chain {
		c, err := gox509.ParseCertificate(der)
		if err != nil {
			return false
		}
		certs = append(certs, c)
	}
	var up func(c *gox509.Certificate, depth int) bool
	up = func(c *gox509.Certificate, depth int) bool {
		if depth > 6 {
			return false
		}
		if string(c.RawIssuer) == string(root.RawSubject) && c.CheckSignatureFrom(root) == nil {
			return true
		}
		for _, p := range certs[1:] {
			if string(p.RawSubject) == string(c.RawIssuer) && string(p.Raw) != string(c.Raw) && c.CheckSignatureFrom(p) == nil && up(p, depth+1) {
				return true
			}
		}
		return false
	}
	return up(certs[0], 0)
}

// lookalikeChains builds (once per kind and role) the presented-chain variants for a leaf key of the given kind.
func lookalikeChains(kind string, client bool) []lookChain {
	lookMu.Lock()
	defer lookMu.Unlock()
	ck := fmt.Sprintf("%s/%v", kind, client)
	if v, ok := lookCache[ck]; ok {
		return v
	}
	p := tlspair.Get()
	now := tlspair.Now
	nb, na := now.Add(-365*24*time.Hour), now.Add(365*24*time.Hour)
	root, _ := gox509.ParseCertificate(p.RootDER)
	inter, _ := gox509.ParseCertificate(p.InterDER)
	kA := keys.Get().ECByCurve("P521")[2] // look-alike intermediate key
	kF := keys.Get().ECByCurve("P521")[3] // look-alike root key
	serial := int64(700000)
	mk := func(t, parent *gox509.Certificate, pub crypto.PublicKey, signer crypto.Signer) []byte {
		serial++
		t.SerialNumber = big.NewInt(serial)
		der, err := gox509.CreateCertificate(rand.Reader, t, parent, pub, signer)
		if err != nil {
			panic(err)
		}
		return der
	}
	caT := func(like *gox509.Certificate) *gox509.Certificate {
		return &gox509.Certificate{Subject: like.Subject, RawSubject: like.RawSubject, SubjectKeyId: like.SubjectKeyId, NotBefore: nb, NotAfter: na,
			IsCA: true, BasicConstraintsValid: true, KeyUsage: gox509.KeyUsageCertSign | gox509.KeyUsageCRLSign | gox509.KeyUsageDigitalSignature}
	}
	// look-alike root: subject and SKI of the real root, own key, self-signed
	frT := caT(root)
	frDER := mk(frT, frT, &kF.PublicKey, kF)
	fr, _ := gox509.ParseCertificate(frDER)
	// look-alike intermediate A: subject and SKI of the genuine intermediate, issuer = the real root's name, signed by the look-alike root key
	aDER := mk(caT(inter), fr, &kA.PublicKey, kF)
	a, _ := gox509.ParseCertificate(aDER)
	// look-alike intermediate S: the same, self-signed
	sT := caT(inter)
	sDER := mk(sT, sT, &kA.PublicKey, kA)
	eku := []gox509.ExtKeyUsage{gox509.ExtKeyUsageServerAuth}
	cn, dns := tlspair.ServerName, []string{tlspair.ServerName}
	if client {
		eku = []gox509.ExtKeyUsage{gox509.ExtKeyUsageClientAuth}
		cn, dns = "client.test", []string{"client.test"}
	}
	leafT := func() *gox509.Certificate {
		return &gox509.Certificate{Subject: pkix.Name{CommonName: cn}, DNSNames: dns, IPAddresses: []net.IP{net.IPv4(127, 0, 0, 1)}, NotBefore: nb, NotAfter: na,
			KeyUsage: gox509.KeyUsageDigitalSignature | gox509.KeyUsageKeyEncipherment, ExtKeyUsage: eku, BasicConstraintsValid: true}
	}
	key := p.Server[kind].Key
	lBad := mk(leafT(), a, key.Public(), kA)              // leaf signed by the look-alike intermediate key
	lGood := mk(leafT(), inter, key.Public(), p.InterKey) // leaf signed by the genuine intermediate
	G, A, S, FR := p.InterDER, aDER, sDER, frDER
	variants := []struct {
		name  string
		chain [][]byte
	}{
		{"genuine_leaf+G", [][]byte{lGood, G}},
		{"genuine_leaf+A+G", [][]byte{lGood, A, G}},
		{"genuine_leaf+G+A", [][]byte{lGood, G, A}},
		{"genuine_leaf+S+G+FR", [][]byte{lGood, S, G, FR}},
		{"genuine_leaf+A", [][]byte{lGood, A}},
		{"lookalike_leaf+A", [][]byte{lBad, A}},
		{"lookalike_leaf+A+G", [][]byte{lBad, A, G}},
		{"lookalike_leaf+G+A", [][]byte{lBad, G, A}},
		{"lookalike_leaf+G", [][]byte{lBad, G}},
		{"lookalike_leaf+S", [][]byte{lBad, S}},
		{"lookalike_leaf+S+G", [][]byte{lBad, S, G}},
		{"lookalike_leaf+G+S", [][]byte{lBad, G, S}},
		{"lookalike_leaf+A+S+G", [][]byte{lBad, A, S, G}},
		{"lookalike_leaf+A+FR", [][]byte{lBad, A, FR}},
		{"lookalike_leaf+A+FR+G", [][]byte{lBad, A, FR, G}},
		{"lookalike_leaf+A+G+FR", [][]byte{lBad, A, G, FR}},
		{"lookalike_leaf+G+A+FR", [][]byte{lBad, G, A, FR}},
		{"lookalike_leaf+FR+A+G", [][]byte{lBad, FR, A, G}},
		{"lookalike_leaf+A+G+real_root", [][]byte{lBad, A, G, p.RootDER}},
		{"lookalike_leaf+A+A+G", [][]byte{lBad, A, A, G}},
	}
	var out []lookChain
	for _, v := range variants {
		out = append(out, lookChain{Name: v.name, Leaf: &tlspair.Leaf{Kind: kind, DER: v.chain[0], Key: key, Chain: v.chain}, Valid: chainVerifies(v.chain, root)})
	}
	lookCache[ck] = out
	return out
}

var lookVariantNames = []string{"genuine_leaf+G", "genuine_leaf+A+G", "genuine_leaf+G+A", "genuine_leaf+S+G+FR", "genuine_leaf+A", "lookalike_leaf+A", "lookalike_leaf+A+G",
	"lookalike_leaf+G+A", "lookalike_leaf+G", "lookalike_leaf+S", "lookalike_leaf+S+G", "lookalike_leaf+G+S", "lookalike_leaf+A+S+G", "lookalike_leaf+A+FR",
	"lookalike_leaf+A+FR+G", "lookalike_leaf+A+G+FR", "lookalike_leaf+G+A+FR", "lookalike_leaf+FR+A+G", "lookalike_leaf+A+G+real_root", "lookalike_leaf+A+A+G"}

// ---------------------------------------------------------------------------
// misc

func sortedKeys[M ~map[string]V, V any](m M) []string {
	var out []string
	for k := range m {
		out = append(out, k)
	}
	sort.Strings(out)
	return out
}

func pubKeyKind(k crypto.PublicKey) string {
	switch k.(type) {
	case *ecdsa.PublicKey:
		return "ecdsa"
	case ed25519.PublicKey:
		return "ed25519"
	case *gorsa.PublicKey, *zrsa.PublicKey:
		return "rsa"
	}
	return fmt.Sprintf("%T", k)
}

// guarded returns transport options with panic recovery switched on for both endpoint goroutines.
func guarded(opt tlspair.Options) tlspair.Options {
	opt.RecoverPanics = true
	return opt
}

// reportPanics turns a panic recovered on an endpoint goroutine into a violation whose key names the
// panic class and the first zcrypto frame. It reports whether there was one.
func reportPanics(c *core.Ctx, r *tlspair.Result, caseID string, input any) bool {
	found := false
	for _, x := range []struct {
		side string
		pi   *core.PanicInfo
	}{{"client", r.CPanic}, {"server", r.SPanic}} {
		if x.pi == nil {
			continue
		}
		found = true
		c.Violation(x.pi.Key, x.side+" endpoint panicked: "+x.pi.Value+"\n"+x.pi.Stack, caseID, input)
	}
	return found
}

// undecided records a case the harness could not decide (script could not run, fault not applied, the refusal was
// raised by the wrong side, ...). Such a case is not evaluated: it is counted and noted, never reported as a violation.
func undecided(c *core.Ctx, key, detail, caseID string, input any) {
	c.Count("undecided:"+key, 1)
	c.Count("undecided_total", 1)
	c.Note("undecided %s (%s): %s", key, caseID, detail)
}

// suppressWatchdogOnce: set when a run was already accounted for (panic reported) and the caller's generic
// "undecided" path must not also count a watchdog firing. The drivers are single-goroutine.
var suppressWatchdogOnce bool

// watchdog bookkeeping shared by the three monitors: a firing is inconclusive, never a verdict.
func noteWatchdog(c *core.Ctx, where string) {
	if suppressWatchdogOnce {
		suppressWatchdogOnce = false
		return
	}
	c.Count("watchdog_fired", 1)
	c.Note("watchdog fired (%s): case not decided", where)
}
