package tlspaireng

// Independent, minimal TLS wire parser (records, plaintext handshake messages,
// ClientHello / ServerHello) and a handshake-message edit filter for the
// in-memory transport. Shares no code with zcrypto's tls package.

import (
	"bytes"
	"encoding/binary"

	"verifharness/internal/netx"
)

const (
	recCCS       = 20
	recAlert     = 21
	recHandshake = 22
	recAppData   = 23

	hsClientHello      = 1
	hsServerHello      = 2
	hsNewSessionTicket = 4
	hsCertificate      = 11
	hsServerKeyExch    = 12
	hsCertRequest      = 13
	hsServerHelloDone  = 14
	hsCertVerify       = 15
	hsClientKeyExch    = 16
	hsFinished         = 20
)

var hrrRandom = []byte{
	0xCF, 0x21, 0xAD, 0x74, 0xE5, 0x9A, 0x61, 0x11, 0xBE, 0x1D, 0x8C, 0x02, 0x1E, 0x65, 0xB8, 0x91,
	0xC2, 0xA2, 0x11, 0x16, 0x7A, 0xBB, 0x8C, 0x5E, 0x07, 0x9E, 0x09, 0xE2, 0xC8, 0xA8, 0x33, 0x9C,
}

type hsMsg struct {
	Typ  byte
	Body []byte
	// position of the message header (4 bytes) in the direction's byte stream
	StreamOff int
}

type wireRec struct {
	Typ     byte
	Vers    uint16
	Payload []byte
	Off     int // offset of the record header in the stream
}

func splitRecs(stream []byte) []wireRec {
	var out []wireRec
	off := 0
	for len(stream)-off >= 5 {
		n := int(stream[off+3])<<8 | int(stream[off+4])
		if len(stream)-off < 5+n {
			break
		}
		out = append(out, wireRec{Typ: stream[off], Vers: uint16(stream[off+1])<<8 | uint16(stream[off+2]), Payload: stream[off+5 : off+5+n], Off: off})
		off += 5 + n
	}
	return out
}

// plainHandshake returns the handshake messages carried in handshake records
// before the first ChangeCipherSpec of the stream (those are in the clear in
// every TLS version). If afterCCS is true it additionally tries to parse the
// handshake records that follow the first CCS as plaintext (TLS 1.3 second
// ClientHello / ServerHello after a HelloRetryRequest) and stops at the first
// record that does not parse.
func plainHandshake(stream []byte, afterCCS bool) []hsMsg {
	var msgs []hsMsg
	var buf []byte
	var bufOff []int // stream offset of every buffered byte
	seenCCS := false
	for _, r := range splitRecs(stream) {
		if r.Typ == recCCS {
			if seenCCS || !afterCCS {
				break
			}
			seenCCS = true
			continue
		}
		if r.Typ != recHandshake {
			if r.Typ == recAlert {
				continue
			}
			break
		}
		if seenCCS {
			// only accept something that looks like a hello
			if len(r.Payload) < 4 || (r.Payload[0] != hsClientHello && r.Payload[0] != hsServerHello) {
				break
			}
		}
		for i := range r.Payload {
			buf = append(buf, r.Payload[i])
			bufOff = append(bufOff, r.Off+5+i)
		}
		for len(buf) >= 4 {
			n := int(buf[1])<<16 | int(buf[2])<<8 | int(buf[3])
			if len(buf) < 4+n {
				break
			}
			msgs = append(msgs, hsMsg{Typ: buf[0], Body: append([]byte(nil), buf[4:4+n]...), StreamOff: bufOff[0]})
			buf = buf[4+n:]
			bufOff = bufOff[4+n:]
		}
	}
	return msgs
}

type rd struct {
	b   []byte
	bad bool
}

func (r *rd) u8() byte {
	if len(r.b) < 1 {
		r.bad = true
		return 0
	}
	v := r.b[0]
	r.b = r.b[1:]
	return v
}
func (r *rd) u16() uint16 {
	if len(r.b) < 2 {
		r.bad = true
		r.b = nil
		return 0
	}
	v := binary.BigEndian.Uint16(r.b)
	r.b = r.b[2:]
	return v
}
func (r *rd) take(n int) []byte {
	if n < 0 || len(r.b) < n {
		r.bad = true
		r.b = nil
		return nil
	}
	v := r.b[:n]
	r.b = r.b[n:]
	return v
}
func (r *rd) vec8() []byte  { return r.take(int(r.u8())) }
func (r *rd) vec16() []byte { return r.take(int(r.u16())) }

type helloInfo struct {
	OK            bool
	LegacyVersion uint16
	Random        []byte
	SessionID     []byte
	Suites        []uint16 // ClientHello
	Suite         uint16   // ServerHello
	Exts          []uint16
	SupVersions   []uint16 // ClientHello supported_versions
	SelVersion    uint16   // ServerHello supported_versions
	ALPN          []string
	HasTicketExt  bool
	Ticket        []byte
	PSKIdentities [][]byte
	PSKSelected   bool
	Curves        []uint16
	IsHRR         bool
	// offsets inside the message body (for the man-in-the-middle rewrite)
	offLegacyVersion int
	offSupVersions   []int
}

func parseExtensions(r *rd, h *helloInfo, client bool) {
	if len(r.b) == 0 {
		return
	}
	exts := rd{b: r.vec16()}
	if r.bad {
		return
	}
	for len(exts.b) > 0 {
		typ := exts.u16()
		data := exts.vec16()
		if exts.bad {
			r.bad = true
			return
		}
		h.Exts = append(h.Exts, typ)
		e := rd{b: data}
		switch typ {
		case 43: // supported_versions
			if client {
				l := rd{b: e.vec8()}
				for len(l.b) >= 2 {
					h.SupVersions = append(h.SupVersions, l.u16())
				}
			} else {
				h.SelVersion = e.u16()
			}
		case 16: // ALPN
			l := rd{b: e.vec16()}
			for len(l.b) > 0 {
				h.ALPN = append(h.ALPN, string(l.vec8()))
			}
		case 35: // session ticket
			h.HasTicketExt = true
			h.Ticket = append([]byte(nil), data...)
		case 41: // pre_shared_key
			if client {
				ids := rd{b: e.vec16()}
				for len(ids.b) > 0 {
					id := ids.vec16()
					ids.take(4)
					if ids.bad {
						break
					}
					h.PSKIdentities = append(h.PSKIdentities, append([]byte(nil), id...))
				}
			} else {
				h.PSKSelected = true
			}
		case 10: // supported_groups
			l := rd{b: e.vec16()}
			for len(l.b) >= 2 {
				h.Curves = append(h.Curves, l.u16())
			}
		}
	}
}

func parseClientHello(body []byte) helloInfo {
	var h helloInfo
	r := rd{b: body}
	h.offLegacyVersion = 0
	h.LegacyVersion = r.u16()
	h.Random = append([]byte(nil), r.take(32)...)
	h.SessionID = append([]byte(nil), r.vec8()...)
	cs := rd{b: r.vec16()}
	for len(cs.b) >= 2 {
		h.Suites = append(h.Suites, cs.u16())
	}
	r.vec8() // compression
	if r.bad {
		return h
	}
	parseExtensions(&r, &h, true)
	h.OK = !r.bad
	// locate supported_versions entries by scanning (independent of the parse above)
	if h.OK {
		h.offSupVersions = locateSupportedVersions(body)
	}
	return h
}

// locateSupportedVersions returns the body offsets of the 2-byte entries of the
// supported_versions list of a ClientHello.
func locateSupportedVersions(body []byte) []int {
	p := 2 + 32
	if p >= len(body) {
		return nil
	}
	p += 1 + int(body[p])
	if p+2 > len(body) {
		return nil
	}
	p += 2 + (int(body[p])<<8 | int(body[p+1]))
	if p+1 > len(body) {
		return nil
	}
	p += 1 + int(body[p])
	if p+2 > len(body) {
		return nil
	}
	end := p + 2 + (int(body[p])<<8 | int(body[p+1]))
	p += 2
	if end > len(body) {
		return nil
	}
	for p+4 <= end {
		typ := int(body[p])<<8 | int(body[p+1])
		l := int(body[p+2])<<8 | int(body[p+3])
		if p+4+l > end {
			return nil
		}
		if typ == 43 && l >= 1 {
			n := int(body[p+4])
			var out []int
			for i := 0; i+1 < n && p+5+i+1 < p+4+l+1; i += 2 {
				out = append(out, p+5+i)
			}
			return out
		}
		p += 4 + l
	}
	return nil
}

func parseServerHello(body []byte) helloInfo {
	var h helloInfo
	r := rd{b: body}
	h.LegacyVersion = r.u16()
	h.Random = append([]byte(nil), r.take(32)...)
	h.SessionID = append([]byte(nil), r.vec8()...)
	h.Suite = r.u16()
	r.u8()
	if r.bad {
		return h
	}
	parseExtensions(&r, &h, false)
	h.OK = !r.bad
	h.IsHRR = bytes.Equal(h.Random, hrrRandom)
	return h
}

// negotiatedVersion is the version a ServerHello announces.
func (h helloInfo) negotiatedVersion() uint16 {
	if h.SelVersion != 0 {
		return h.SelVersion
	}
	return h.LegacyVersion
}

// firstClientHello / lastServerHello extract the hellos from a tap.
func firstClientHello(tap *netx.Tap) (helloInfo, bool) {
	for _, m := range plainHandshake(tap.Bytes(netx.AtoB), false) {
		if m.Typ == hsClientHello {
			return parseClientHello(m.Body), true
		}
	}
	return helloInfo{}, false
}

func serverHellos(tap *netx.Tap) []helloInfo {
	var out []helloInfo
	for _, m := range plainHandshake(tap.Bytes(netx.BtoA), true) {
		if m.Typ == hsServerHello {
			out = append(out, parseServerHello(m.Body))
		}
	}
	return out
}

// finalServerHello returns the non-HRR ServerHello, if any.
func finalServerHello(tap *netx.Tap) (helloInfo, bool) {
	for _, h := range serverHellos(tap) {
		if h.OK && !h.IsHRR {
			return h, true
		}
	}
	return helloInfo{}, false
}

// ---------------------------------------------------------------------------
// handshake-message edit filter

// hsEdit describes one in-place edit of a plaintext handshake message (a fault
// plan: data, so it can be replayed).
type hsEdit struct {
	MsgType byte   `json:"msg_type"` // handshake type to hit (first occurrence before the CCS)
	Where   string `json:"where"`    // "last" = last body byte, "off" = Off from body start, "endoff" = Off back from the end
	Off     int    `json:"off"`
	Mask    byte   `json:"mask"`
}

// hsEditFilter is a netx.Filter: it reassembles records, tracks plaintext
// handshake messages up to the first CCS and flips one byte of the chosen
// message. Lengths never change, so record framing is preserved.
type hsEditFilter struct {
	Edit    hsEdit
	Applied bool
	HitLen  int

	pend   []byte
	done   bool // CCS seen or edit applied
	hsLeft int  // bytes of the current handshake message still to come (body)
	hsTyp  byte
	hsLen  int
	hdr    []byte // partial handshake header
	target int    // index within body to hit, -1 none
	pos    int    // position within current body
}

func (f *hsEditFilter) Write(p []byte) [][]byte {
	f.pend = append(f.pend, p...)
	var out [][]byte
	for len(f.pend) >= 5 {
		n := 5 + int(f.pend[3])<<8 + int(f.pend[4])
		if len(f.pend) < n {
			break
		}
		rec := append([]byte(nil), f.pend[:n]...)
		f.pend = f.pend[n:]
		f.process(rec)
		out = append(out, rec)
	}
	return out
}

func (f *hsEditFilter) process(rec []byte) {
	if f.done {
		return
	}
	switch rec[0] {
	case recCCS:
		f.done = true
		return
	case recHandshake:
	default:
		return
	}
	pl := rec[5:]
	for i := 0; i < len(pl); i++ {
		if f.hsLeft == 0 && len(f.hdr) < 4 {
			f.hdr = append(f.hdr, pl[i])
			if len(f.hdr) == 4 {
				f.hsTyp = f.hdr[0]
				f.hsLen = int(f.hdr[1])<<16 | int(f.hdr[2])<<8 | int(f.hdr[3])
				f.hsLeft = f.hsLen
				f.pos = 0
				f.target = -1
				if f.hsTyp == f.Edit.MsgType && f.hsLen > 0 {
					switch f.Edit.Where {
					case "last":
						f.target = f.hsLen - 1
					case "off":
						f.target = f.Edit.Off
					case "endoff":
						f.target = f.hsLen - 1 - f.Edit.Off
					}
					if f.target < 0 || f.target >= f.hsLen {
						f.target = -1
					}
				}
				if f.hsLeft == 0 {
					f.hdr = f.hdr[:0]
				}
			}
			continue
		}
		// body byte
		if f.pos == f.target {
			m := f.Edit.Mask
			if m == 0 {
				m = 1
			}
			pl[i] ^= m
			f.Applied = true
			f.HitLen = f.hsLen
			f.done = true
			return
		}
		f.pos++
		f.hsLeft--
		if f.hsLeft == 0 {
			f.hdr = f.hdr[:0]
		}
	}
}

func (f *hsEditFilter) Flush() [][]byte {
	if len(f.pend) > 0 {
		p := f.pend
		f.pend = nil
		return [][]byte{p}
	}
	return nil
}
