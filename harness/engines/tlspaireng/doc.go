// Package tlspaireng holds property monitors (see /verif/DESIGN.md section 4).
package tlspaireng
