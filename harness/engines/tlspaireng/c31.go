package tlspaireng

// C31 — sessions resume only from authentic tickets.
//
// Genuine tickets are obtained from a zcrypto server; the harness then replaces
// the ticket bytes inside the client's cached session (hook zz_verif_ticket.go;
// the client keeps the genuine secrets, so the ClientHello — including TLS 1.3
// binders — is well-formed for the mutated ticket) and connects again. For
// TLS <= 1.2 the mutated tickets are additionally presented through the public
// ClientFingerprintConfiguration / SessionTicketExtension route. Expected:
// altered / foreign / rotated-out / expired ticket => the second handshake
// succeeds as a full (non-PSK) handshake with DidResume == false on both
// sides; unmodified ticket under a current key => both sides resume with the
// original version and suite and agree on exported keying material.

import (
	"bytes"
	"crypto/aes"
	"crypto/cipher"
	"crypto/hmac"
	"crypto/sha256"
	"crypto/sha512"
	"encoding/binary"
	"fmt"
	"math/rand/v2"
	"time"

	ztls "github.com/zmap/zcrypto/tls"

	"verifharness/internal/core"
	"verifharness/internal/tlspair"
)

func init() {
	core.RegisterMeta("C31", core.Meta{
		Rule: "base sessions (TLS 1.0/1.2/1.3 x suites x with/without client certificate in the ticket) from a zcrypto server with explicit ticket keys; per session every single-byte flip and every truncation of the ticket (exhaustive), extensions, zero ticket, foreign key name, foreign ticket, MAC recomputed under a foreign key (also with the foreign key installed), spliced IV/ciphertext/MAC of two tickets, cross-version tickets, " +
			"each presented through the client's session cache (hook) and, for TLS<=1.2, through ClientFingerprintConfiguration; SetSessionTicketKeys rotation histories, legacy SessionTicketKey, automatic rotation and the 7-day lifetime driven by Config.Time, tickets disabled, suite dropped by the server; Config.Clone histories (every Config owns its key list; tickets of each presented to each; key-name snapshots of all configs checked after every step); three-connection histories (authentic ticket refused for a non-key reason, the ticket issued by the following full handshake must describe that handshake); automatic-rotation histories under clock jumps (1 h ... 15 d) that make keys expire and be pruned: genuine tickets follow the documented schedule, tickets sealed by the harness (well-formed state created \"now\") under the zero-valued key, the all-0xff key, keys derived from all-zero / all-0xff seeds, a foreign server's key and a current key name with zero material never resume, and the hook's key-name snapshot is checked after every step (no zero name, no duplicates, count within the schedule). " +
			"non-trivial = a presentation whose ticket bytes were seen in the tapped ClientHello and whose handshake outcome was decided; distinct by (session, route, mutation) or (history, epoch, ticket)",
		MinNontrivial:         5000,
		MinNontrivialThorough: 40000,
		Shards:                16,
		Assumptions: []string{
			"ticket layout (key name 16 | IV 16 | ciphertext | HMAC-SHA256 32, key material = SHA-512 of the 32-byte key) is used only to build hostile tickets, never by the oracle",
			"the oracle's model of the server's current keys is the SetSessionTicketKeys history; the hook's key-name snapshot is compared with the ticket's key name as a cross-check",
			"an empty TLS 1.3 PSK identity is not representable (RFC 8446 identity<1..2^16-1>), so the zero-length truncation is presented for TLS <= 1.2 only",
			"times are Config.Time values; lifetime/rotation probes stay at least one hour away from the 24 h / 7 d boundaries",
		},
	}, runC31)
}

type c31Spec struct {
	Name       string `json:"name"`
	Vers       uint16 `json:"vers"`
	Suite      uint16 `json:"suite"`
	Kind       string `json:"server_key"`
	ClientCert bool   `json:"client_cert"`
	Public     bool   `json:"public_route"` // also present through ClientFingerprintConfiguration
}

var c31Specs = []c31Spec{
	{"tls12-ecdsa-gcm", v12, 0xc02b, tlspair.P256, false, false},
	{"tls13-aes128", v13, 0x1301, tlspair.P256, false, false},
	{"tls12-rsa-cbc", v12, 0x002f, tlspair.RSA2048, false, true},
	{"tls13-aes256-sha384", v13, 0x1302, tlspair.P256, false, false},
	{"tls10-ecdsa-cbc", v10, 0xc009, tlspair.P256, false, true},
	{"tls12-chacha-clientcert", v12, 0xcca9, tlspair.P256, true, false},
	{"tls13-chacha-clientcert", v13, 0x1303, tlspair.Ed25519, true, false},
	{"tls11-ecdhe-rsa", v11, 0xc013, tlspair.RSA2048, false, true},
}

type ticketKeyMat struct {
	Key  [32]byte
	Name [16]byte
	AES  [16]byte
	HMAC [16]byte
}

func mkTicketKey(r *rand.Rand) ticketKeyMat {
	var k ticketKeyMat
	for i := range k.Key {
		k.Key[i] = byte(r.Uint32())
	}
	if k.Key == [32]byte{} {
		k.Key[0] = 1
	}
	h := sha512.Sum512(k.Key[:])
	copy(k.Name[:], h[:16])
	copy(k.AES[:], h[16:32])
	copy(k.HMAC[:], h[32:48])
	return k
}

type c31Base struct {
	Spec    c31Spec
	Seed    uint64
	Keys    []ticketKeyMat // server keys at issue time (first = issuing)
	Server  *ztls.Config
	Session *ztls.ClientSessionState
	Ticket  []byte
	Vers    uint16
	Suite   uint16
	KeyVers string // version label used in witness keys ("" = the spec's version)
}

func (s c31Spec) serverConfig(seed uint64, now func() time.Time) *ztls.Config {
	p := tlspair.Get()
	zs := &ztls.Config{Time: now, Rand: tlspair.NewDetRand(seed ^ 0x5151), MinVersion: s.Vers, MaxVersion: s.Vers,
		Certificates: []ztls.Certificate{p.Server[s.Kind].Z()}}
	if s.Vers != v13 {
		zs.CipherSuites = []uint16{s.Suite}
	} else {
		zs.CipherSuites = []uint16{s.Suite}
	}
	if s.ClientCert {
		zs.ClientAuth = ztls.RequireAndVerifyClientCert
		zs.ClientCAs = p.ZRoots()
	}
	return zs
}

func (s c31Spec) clientConfig(seed uint64, cache ztls.ClientSessionCache) *ztls.Config {
	p := tlspair.Get()
	zc := tlspair.BaseClient(seed)
	zc.MinVersion, zc.MaxVersion = s.Vers, s.Vers
	zc.CipherSuites = []uint16{s.Suite}
	if cache != nil {
		zc.ClientSessionCache = cache
	}
	if s.ClientCert {
		zc.Certificates = []ztls.Certificate{p.Client[tlspair.P256].Z()}
	}
	return zc
}

func fixedNow() time.Time { return tlspair.Now }

// issue runs a full handshake against zs and returns the session the client cached.
var errPanicReported = fmt.Errorf("panic (reported)")

func (s c31Spec) issue(c *core.Ctx, zs *ztls.Config, seed uint64) (*ztls.ClientSessionState, side, side, error) {
	cache := newMapCache()
	zc := s.clientConfig(seed, cache)
	r := tlspair.RunZZ(zc, zs, guarded(tlspair.Options{}))
	defer r.Close()
	cs, ss := clientSide(r), serverSide(r)
	if reportPanics(c, r, "issue:"+s.Name, map[string]any{"session": s, "phase": "initial full handshake"}) {
		return nil, cs, ss, errPanicReported
	}
	if r.TimedOut {
		return nil, cs, ss, fmt.Errorf("watchdog")
	}
	if !cs.OK || !ss.OK {
		return nil, cs, ss, fmt.Errorf("initial handshake failed: client %v server %v", cs.Err, ss.Err)
	}
	if err := r.PingPong([]byte("ping"), []byte("pong")); err != nil {
		if reportPanics(c, r, "issue:"+s.Name, map[string]any{"session": s, "phase": "first application data"}) {
			return nil, cs, ss, errPanicReported
		}
		return nil, cs, ss, fmt.Errorf("initial ping-pong: %v", err)
	}
	sess := cache.only()
	if sess == nil {
		return nil, cs, ss, fmt.Errorf("no session cached after a full handshake with tickets enabled")
	}
	return sess, cs, ss, nil
}

var presentSeq int

type c31Obs struct {
	Session  string `json:"session"`
	Route    string `json:"route"`
	Mutation string `json:"mutation"`
	Orig     string `json:"orig_ticket,omitempty"`
	Ticket   string `json:"presented_ticket"`
	Expect   string `json:"expect"`
	Client   string `json:"client"`
	Server   string `json:"server"`
	Note     string `json:"note,omitempty"`
}

// present connects with the given ticket bytes. route "cache": via the client's session cache (hook);
// "public": ClientFingerprintConfiguration (TLS <= 1.2, bad tickets only).
// It returns whether the ticket was seen on the wire.
func (b *c31Base) present(c *core.Ctx, zs *ztls.Config, ticket []byte, route string, seed uint64) (cs, ss side, onWire, timedOut bool) {
	s := b.Spec
	var zc *ztls.Config
	switch route {
	case "cache":
		cache := newMapCache()
		cache.Put(tlspair.ServerName, ztls.VerifSessionWithTicket(b.Session, ticket))
		zc = s.clientConfig(seed, cache)
	case "public":
		zc = s.clientConfig(seed, nil)
		sid := make([]byte, 32)
		tlspair.NewDetRand(seed ^ 0x77).Read(sid)
		exts := []ztls.ClientExtension{&ztls.SessionTicketExtension{Ticket: append([]byte(nil), ticket...)}}
		if si := suiteByID[s.Suite]; si != nil && si.KX != "rsa" {
			exts = append(exts, &ztls.SupportedCurvesExtension{Curves: []ztls.CurveID{ztls.CurveP256, ztls.CurveP384}}, &ztls.PointFormatExtension{Formats: []uint8{0}})
		}
		// (TLS 1.2 ECDHE sessions are not presented through this route: the fingerprint API's
		// SignatureAlgorithmExtension refuses ECDSA pairs, and without the extension the client rejects the
		// server's SHA-256 signature; the RSA key exchange and TLS <= 1.1 need no signature_algorithms)
		zc.ClientFingerprintConfiguration = &ztls.ClientFingerprintConfiguration{HandshakeVersion: s.Vers, SessionID: sid,
			CipherSuites: []uint16{s.Suite}, CompressionMethods: []uint8{0}, Extensions: exts}
	}
	input := map[string]any{"session": s, "route": route, "version": vname(s.Vers), "presented_ticket": core.FullHex(ticket)}
	presentSeq++
	suppressWatchdogOnce = false
	caseID := fmt.Sprintf("%s/present#%d", s.Name, presentSeq)
	c.Begin(caseID, input) // flushed: a fatal error in the stack under test still leaves the ticket on disk
	defer c.End(caseID)
	r := tlspair.RunZZ(zc, zs, guarded(tlspair.Options{}))
	defer r.Close()
	cs, ss = clientSide(r), serverSide(r)
	if reportPanics(c, r, caseID, input) {
		suppressWatchdogOnce = true
		return cs, ss, false, true
	}
	if r.TimedOut {
		return cs, ss, false, true
	}
	if ch, ok := firstClientHello(r.Tap); ok && ch.OK {
		if s.Vers == v13 {
			onWire = len(ch.PSKIdentities) == 1 && bytes.Equal(ch.PSKIdentities[0], ticket)
		} else {
			onWire = ch.HasTicketExt && bytes.Equal(ch.Ticket, ticket)
		}
	}
	if cs.OK && ss.OK {
		// the connection must be usable either way
		if err := r.PingPong([]byte("data-after"), []byte("ok")); err != nil {
			if reportPanics(c, r, caseID, input) {
				suppressWatchdogOnce = true
				return cs, ss, false, true
			}
			c.Violation("application_data_failed_after_ticket_presentation:"+vname(s.Vers), err.Error(), b.Spec.Name, map[string]any{"session": b.Spec, "ticket": core.FullHex(ticket)})
		}
	}
	return
}

// judge applies the oracle. wantResume: whether the model says this ticket must be resumed.
func (b *c31Base) judge(c *core.Ctx, caseID, route, mut string, ticket []byte, wantResume bool, cs, ss side, onWire bool, sig ...any) {
	s := b.Spec
	c.Eval(1)
	obs := c31Obs{Session: s.Name, Route: route, Mutation: mut, Ticket: core.FullHex(ticket), Client: cs.String(), Server: ss.String(), Expect: map[bool]string{true: "resume", false: "full handshake, no resumption"}[wantResume]}
	if len(b.Ticket) <= 400 {
		obs.Orig = core.FullHex(b.Ticket)
	}
	vk := vname(s.Vers)
	if b.KeyVers != "" {
		vk = b.KeyVers
	}
	if !onWire {
		if len(ticket) == 0 && s.Vers != v13 && cs.OK && ss.OK && !cs.Resumed && !ss.Resumed {
			// an empty ticket extension is indistinguishable from "no ticket": fine
			c.Count("empty_ticket_full_handshake", 1)
			return
		}
		undecided(c, "harness:ticket_not_presented:"+route+":"+vk, "the ClientHello on the wire does not carry the prepared ticket", caseID, obs)
		return
	}
	mclass := mut
	if i := bytes.IndexByte([]byte(mut), '@'); i >= 0 {
		mclass = mut[:i]
	}
	if wantResume {
		if !cs.OK || !ss.OK {
			c.Violation(fmt.Sprintf("authentic_ticket_handshake_failed:%s:%s:c=%s:s=%s", vk, mclass, normErr(cs.Err), normErr(ss.Err)), fmt.Sprintf("client %v server %v", cs.Err, ss.Err), caseID, obs)
			return
		}
		if !ss.Resumed || !cs.Resumed {
			c.Violation(fmt.Sprintf("authentic_ticket_not_resumed:%s:%s", vk, mclass), fmt.Sprintf("client resumed=%v server resumed=%v", cs.Resumed, ss.Resumed), caseID, obs)
			return
		}
		if ss.Version != b.Vers || ss.Suite != b.Suite || cs.Version != b.Vers || cs.Suite != b.Suite {
			c.Violation("resumed_with_different_version_or_suite:"+vk, fmt.Sprintf("original %s/%04x, resumed client %s/%04x server %s/%04x", vname(b.Vers), b.Suite, vname(cs.Version), cs.Suite, vname(ss.Version), ss.Suite), caseID, obs)
			return
		}
		for _, l := range ekmLabels {
			x, e1 := cs.ekm(l.label, l.ctx, l.n)
			y, e2 := ss.ekm(l.label, l.ctx, l.n)
			if e1 != nil || e2 != nil || !bytes.Equal(x, y) {
				c.Violation("resumed_secrets_disagree:"+vk, fmt.Sprintf("EKM %q: client %x (%v) server %x (%v)", l.label, x, e1, y, e2), caseID, obs)
				return
			}
		}
		c.Count("resumed:"+vk+":"+mclass, 1)
	} else {
		if ss.Resumed || (ss.OK && cs.Resumed) {
			c.Violation(fmt.Sprintf("resumed_although_ticket_must_not_resume:%s:%s:%s", vk, route, mclass), fmt.Sprintf("server DidResume=%v client DidResume=%v (server err %v, client err %v)", ss.Resumed, cs.Resumed, ss.Err, cs.Err), caseID, obs)
			return
		}
		if !cs.OK || !ss.OK || !cs.Complete || !ss.Complete {
			c.Violation(fmt.Sprintf("bad_ticket_broke_handshake:%s:%s:%s:c=%s:s=%s", vk, route, mclass, normErr(cs.Err), normErr(ss.Err)),
				fmt.Sprintf("expected a full handshake; client %v server %v", cs.Err, ss.Err), caseID, obs)
			return
		}
		if cs.Resumed {
			c.Violation("client_reports_resumption_server_does_not:"+vk, "", caseID, obs)
			return
		}
		c.Count("fell_back:"+vk+":"+route+":"+mclass, 1)
	}
	c.Nontrivial(sig...)
	if c.WantSample() && !wantResume && mclass != "flip" && mclass != "trunc" {
		c.Sample(obs)
	}
}

type mutation struct {
	Name   string
	Ticket []byte
	Server string // "" = issuing server; "both" = server that also holds the foreign key
}

func reseal(t []byte, k ticketKeyMat, rename bool) []byte {
	out := append([]byte(nil), t...)
	if len(out) < 64 {
		return out
	}
	if rename {
		copy(out[:16], k.Name[:])
	}
	m := hmac.New(sha256.New, k.HMAC[:])
	m.Write(out[:len(out)-32])
	copy(out[len(out)-32:], m.Sum(nil))
	return out
}

func (b *c31Base) mutations(r *rand.Rand, second, foreignTicket, crossTicket []byte, foreign ticketKeyMat) []mutation {
	t := b.Ticket
	var out []mutation
	for i := range t {
		m := append([]byte(nil), t...)
		m[i] ^= byte(1 << r.IntN(8))
		out = append(out, mutation{Name: fmt.Sprintf("flip@%d", i), Ticket: m})
	}
	for n := 0; n < len(t); n++ {
		if n == 0 && b.Spec.Vers == v13 {
			continue
		}
		out = append(out, mutation{Name: fmt.Sprintf("trunc@%d", n), Ticket: append([]byte(nil), t[:n]...)})
	}
	for _, n := range []int{1, 2, 16, 32} {
		ext := make([]byte, n)
		for i := range ext {
			ext[i] = byte(r.Uint32())
		}
		out = append(out, mutation{Name: fmt.Sprintf("extend@%d", n), Ticket: append(append([]byte(nil), t...), ext...)})
		out = append(out, mutation{Name: fmt.Sprintf("prepend@%d", n), Ticket: append(append([]byte(nil), ext...), t...)})
	}
	out = append(out, mutation{Name: "zero", Ticket: make([]byte, len(t))})
	fn := append([]byte(nil), t...)
	copy(fn[:16], foreign.Name[:])
	out = append(out, mutation{Name: "foreign_key_name", Ticket: fn})
	out = append(out, mutation{Name: "foreign_key_name+both_keys", Ticket: fn, Server: "both"})
	if foreignTicket != nil {
		out = append(out, mutation{Name: "foreign_ticket", Ticket: foreignTicket})
	}
	out = append(out, mutation{Name: "mac_under_foreign_key", Ticket: reseal(t, foreign, false)})
	out = append(out, mutation{Name: "renamed_and_mac_under_foreign_key", Ticket: reseal(t, foreign, true)})
	out = append(out, mutation{Name: "renamed_and_mac_under_foreign_key+both_keys", Ticket: reseal(t, foreign, true), Server: "both"})
	if len(second) == len(t) && len(t) > 64 {
		n := len(t)
		sp := func(name string, parts ...[]byte) {
			var x []byte
			for _, p := range parts {
				x = append(x, p...)
			}
			out = append(out, mutation{Name: name, Ticket: x})
		}
		sp("splice:iv_of_other", t[:16], second[16:32], t[32:])
		sp("splice:mac_of_other", t[:n-32], second[n-32:])
		sp("splice:ciphertext_of_other", t[:32], second[32:n-32], t[n-32:])
		sp("splice:iv+mac_of_other", t[:16], second[16:32], t[32:n-32], second[n-32:])
	}
	if crossTicket != nil {
		out = append(out, mutation{Name: "cross_version_ticket", Ticket: crossTicket})
	}
	for k := 0; k < 8; k++ {
		m := append([]byte(nil), t...)
		for j := 0; j < 2+r.IntN(6); j++ {
			m[r.IntN(len(m))] ^= byte(1 + r.IntN(255))
		}
		out = append(out, mutation{Name: fmt.Sprintf("multiflip@%d", k), Ticket: m})
	}
	return out
}

func bytesEq16(a []byte, names [][16]byte) bool {
	if len(a) < 16 {
		return false
	}
	for _, n := range names {
		if bytes.Equal(a[:16], n[:]) {
			return true
		}
	}
	return false
}

func runC31(c *core.Ctx) {
	loadSuites()
	nspec := c.Pick(len(c31Specs), len(c31Specs))
	reps := c.Pick(1, 12)
	for rep := 0; rep < reps; rep++ {
		for si := 0; si < nspec; si++ {
			// unit of work = (session, half of its mutation list); a unit is never split, so the
			// enumerations over one ticket are complete even though certificates (and with them
			// ticket lengths) differ from process to process
			for part := 0; part < 2; part++ {
				if ((rep*nspec+si)*2+part)%c.NShards == c.Shard {
					c31Mutations(c, c31Specs[si], rep, si, part)
				}
			}
		}
	}
	c31Histories(c)
	c31Lifetimes(c)
	c31AutoRotation(c)
	c31ThreeConnections(c)
	c31CloneHistories(c)
}

// c31CloneHistories: Config.Clone and SetSessionTicketKeys. Model: every Config owns its key list; a clone starts
// with a copy of the list its source had at clone time; SetSessionTicketKeys replaces the list of that Config only.
func c31CloneHistories(c *core.Ctx) {
	total := c.Pick(32, 480)
	for h := 0; h < total; h++ {
		if h%c.NShards != c.Shard {
			continue
		}
		gr := c.GlobalRng(fmt.Sprintf("clone:%d", h))
		spec := c31Specs[[]int{0, 1, 4, 3}[h%4]]
		label := fmt.Sprintf("clone%04d:%s", h, spec.Name)
		seed := gr.Uint64() | 1
		pool := make([]ticketKeyMat, 7)
		for i := range pool {
			pool[i] = mkTicketKey(gr)
		}
		type cfgM struct {
			name string
			cfg  *ztls.Config
			keys []ticketKeyMat
		}
		var cfgs []*cfgM
		var hist []string
		type issued struct {
			base *c31Base
			key  [16]byte
			from string
		}
		var tickets []issued
		randKeys := func() []ticketKeyMat {
			n := 1 + gr.IntN(3)
			var out []ticketKeyMat
			for _, i := range gr.Perm(len(pool))[:n] {
				out = append(out, pool[i])
			}
			return out
		}
		setKeys := func(m *cfgM, ks []ticketKeyMat) {
			var raw [][32]byte
			d := ""
			for _, k := range ks {
				raw = append(raw, k.Key)
				d += fmt.Sprintf("%x ", k.Name[:3])
			}
			m.cfg.SetSessionTicketKeys(raw)
			m.keys = append([]ticketKeyMat(nil), ks...)
			hist = append(hist, fmt.Sprintf("%s.SetSessionTicketKeys([%s])", m.name, d))
		}
		clone := func(m *cfgM) *cfgM {
			n := &cfgM{name: string(rune('A' + len(cfgs))), cfg: m.cfg.Clone(), keys: append([]ticketKeyMat(nil), m.keys...)}
			cfgs = append(cfgs, n)
			hist = append(hist, fmt.Sprintf("%s := %s.Clone()", n.name, m.name))
			return n
		}
		broken := false
		crossCheck := func() {
			for _, m := range cfgs {
				names, _ := ztls.VerifTicketKeyNames(m.cfg)
				same := len(names) == len(m.keys)
				for i := 0; same && i < len(names); i++ {
					same = names[i] == m.keys[i].Name
				}
				if !same {
					var want [][16]byte
					for _, k := range m.keys {
						want = append(want, k.Name)
					}
					c.Violation("clone_history:config_key_list_differs_from_its_own_history", fmt.Sprintf("history %v: config %s holds %x, its own SetSessionTicketKeys/Clone history says %x", hist, m.name, names, want), label, hist)
					broken = true
				}
			}
			c.Eval(1)
		}
		issue := func(m *cfgM) bool {
			sess, _, ss, err := spec.issue(c, m.cfg, seed+uint64(100+len(tickets)))
			if err != nil {
				if err == errPanicReported {
				} else if err.Error() == "watchdog" {
					noteWatchdog(c, "C31 "+label)
				} else {
					c.Violation("initial_session_failed:"+spec.Name, err.Error(), label, hist)
				}
				return false
			}
			nb := &c31Base{Spec: spec, Seed: seed, Session: sess, Ticket: ztls.VerifSessionTicket(sess), Vers: ss.Version, Suite: ss.Suite}
			var name [16]byte
			copy(name[:], nb.Ticket)
			if name != m.keys[0].Name {
				c.Violation("ticket_not_issued_under_first_current_key", fmt.Sprintf("history %v: %s issued a ticket named %x, its first key is %x", hist, m.name, name, m.keys[0].Name), label, hist)
			}
			tickets = append(tickets, issued{nb, name, m.name})
			hist = append(hist, fmt.Sprintf("ticket#%d issued by %s", len(tickets)-1, m.name))
			return true
		}
		presentAll := func(step int) {
			first := 0
			if len(tickets) > 6 {
				first = len(tickets) - 6
			}
			for ti := first; ti < len(tickets); ti++ {
				tk := tickets[ti]
				for ci, m := range cfgs {
					want := false
					for _, k := range m.keys {
						if k.Name == tk.key {
							want = true
						}
					}
					cs, ss, onWire, to := tk.base.present(c, m.cfg, tk.base.Ticket, "cache", seed+uint64(10000*step+100*ti+ci))
					if to {
						noteWatchdog(c, "C31 "+label)
						continue
					}
					mut := "clone_history:key_not_in_this_configs_list"
					if want {
						mut = "clone_history:key_in_this_configs_list"
					}
					tk.base.judge(c, fmt.Sprintf("%s/step%d/ticket#%d(by %s)->%s", label, step, ti, tk.from, m.name), "cache", mut, tk.base.Ticket, want, cs, ss, onWire, label, step, ti, ci)
				}
			}
		}
		// fixed prefix: keys on A, clone, keys on the clone (and, every other history, on the original first)
		a := &cfgM{name: "A", cfg: spec.serverConfig(seed, fixedNow)}
		cfgs = append(cfgs, a)
		setKeys(a, []ticketKeyMat{pool[0]})
		crossCheck()
		ok := issue(a)
		b := clone(a)
		crossCheck()
		if h%2 == 0 {
			setKeys(b, []ticketKeyMat{pool[1]})
		} else {
			setKeys(a, []ticketKeyMat{pool[2], pool[0]})
		}
		crossCheck()
		ok = ok && issue(b) && issue(a)
		if ok {
			presentAll(0)
		}
		// random continuation
		steps := 4 + gr.IntN(4)
		for st := 1; ok && st <= steps && !broken; st++ {
			m := cfgs[gr.IntN(len(cfgs))]
			switch x := gr.IntN(10); {
			case x < 6:
				setKeys(m, randKeys())
			case x < 8 && len(cfgs) < 3:
				m = clone(m)
			default:
				setKeys(m, randKeys())
			}
			crossCheck()
			if !issue(m) {
				break
			}
			presentAll(st)
		}
		c.Count("clone_histories", 1)
	}
}

// ---------------------------------------------------------------------------
// three-connection histories: an authentic ticket is refused for a reason other than its key, the full
// handshake that follows issues a new ticket, and that new ticket must describe the connection that issued it.

type triBase struct {
	Name   string
	V1     uint16
	S1, S2 uint16
	Kind   string
}

var triBases = []triBase{
	{"tls12-ecdsa", v12, 0xc02b, 0xc02c, tlspair.P256},
	{"tls12-ecdsa-cbc", v12, 0xc009, 0xc00a, tlspair.P256},
	{"tls10-ecdsa", v10, 0xc009, 0xc00a, tlspair.P256},
	{"tls11-ecdhe-rsa", v11, 0xc013, 0xc014, tlspair.RSA2048},
	{"tls12-rsa", v12, 0x002f, 0x0035, tlspair.RSA2048},
	{"tls13", v13, 0x1301, 0x1302, tlspair.P256},
}

var triReasons = []string{"none", "server_drops_suite", "version_changed", "expired", "client_auth_policy"}

func c31ThreeConnections(c *core.Ctx) {
	reps := c.Pick(1, 10)
	p := tlspair.Get()
	idx := 0
	for rep := 0; rep < reps; rep++ {
		for _, tb := range triBases {
			for _, reason := range triReasons {
				for _, rotated := range []bool{true, false} {
					idx++
					if idx%c.NShards != c.Shard {
						continue
					}
					if reason == "version_changed" && (tb.V1 != v12 || suiteByID[tb.S1].TLS12Only) {
						continue // needs a lower version that can carry the same suites
					}
					label := fmt.Sprintf("tri:%s:%s:rotated=%v#%d", tb.Name, reason, rotated, rep)
					gr := c.GlobalRng(label)
					seed := gr.Uint64() | 1
					k1, k2 := mkTicketKey(gr), mkTicketKey(gr)
					var offset time.Duration
					now := func() time.Time { return tlspair.Now.Add(offset) }
					cache := newMapCache()
					mkClient := func(sd uint64, cc ztls.ClientSessionCache) *ztls.Config {
						zc := tlspair.BaseClient(sd)
						zc.MinVersion, zc.MaxVersion = tb.V1, tb.V1
						if reason == "version_changed" {
							zc.MinVersion = v10
						}
						zc.CipherSuites = []uint16{tb.S1, tb.S2}
						zc.ClientSessionCache = cc
						zc.Certificates = []ztls.Certificate{p.Client[tlspair.P256].Z()}
						return zc
					}
					mkServer := func(sd uint64, second bool, keys ...ticketKeyMat) *ztls.Config {
						zs := &ztls.Config{Time: now, Rand: tlspair.NewDetRand(sd ^ 0x5151), MinVersion: tb.V1, MaxVersion: tb.V1,
							Certificates: []ztls.Certificate{p.Server[tb.Kind].Z()}, CipherSuites: []uint16{tb.S1}}
						if second {
							switch reason {
							case "server_drops_suite":
								zs.CipherSuites = []uint16{tb.S2}
							case "version_changed":
								zs.MinVersion, zs.MaxVersion = v10, v11
								zs.CipherSuites = []uint16{tb.S1, tb.S2}
							case "client_auth_policy":
								zs.ClientAuth = ztls.RequireAndVerifyClientCert
								zs.ClientCAs = p.ZRoots()
							}
						}
						var ks [][32]byte
						for _, k := range keys {
							ks = append(ks, k.Key)
						}
						zs.SetSessionTicketKeys(ks)
						return zs
					}
					var hist []string
					// run one connection; returns sides, the ClientHello and whether the run is usable
					run := func(conn string, zc, zs *ztls.Config, ticket []byte) (cs, ss side, onWire, ok bool) {
						caseID := label + "/" + conn
						input := map[string]any{"base": tb, "reason": reason, "rotated": rotated, "conn": conn, "history": hist, "presented_ticket": core.FullHex(ticket)}
						c.Begin(caseID, input)
						defer c.End(caseID)
						r := tlspair.RunZZ(zc, zs, guarded(tlspair.Options{}))
						defer r.Close()
						cs, ss = clientSide(r), serverSide(r)
						if reportPanics(c, r, caseID, input) {
							return cs, ss, false, false
						}
						if r.TimedOut {
							noteWatchdog(c, "C31 "+caseID)
							return cs, ss, false, false
						}
						if ch, okc := firstClientHello(r.Tap); okc && ch.OK && ticket != nil {
							if ch.LegacyVersion >= v12 && len(ch.PSKIdentities) > 0 {
								onWire = bytes.Equal(ch.PSKIdentities[0], ticket)
							} else {
								onWire = ch.HasTicketExt && bytes.Equal(ch.Ticket, ticket)
							}
						}
						if cs.OK && ss.OK {
							if err := r.PingPong([]byte("tri-"+conn), []byte("ok")); err != nil {
								if !reportPanics(c, r, caseID, input) {
									c.Violation("application_data_failed_after_ticket_presentation:"+vname(ss.Version), err.Error(), caseID, input)
								}
								return cs, ss, onWire, false
							}
						}
						return cs, ss, onWire, true
					}
					// connection 1: full handshake under K1, suite S1
					zs1 := mkServer(seed, false, k1)
					cs1, ss1, _, ok := run("conn1", mkClient(seed+1, cache), zs1, nil)
					hist = append(hist, fmt.Sprintf("conn1: keys[K1] %s/%04x", vname(ss1.Version), ss1.Suite))
					if !ok || !cs1.OK || !ss1.OK || cache.only() == nil {
						if ok {
							c.Violation("initial_session_failed:"+tb.Name, fmt.Sprintf("client %v server %v", cs1.Err, ss1.Err), label, hist)
						}
						continue
					}
					sess1 := cache.only()
					t1 := ztls.VerifSessionTicket(sess1)
					// connection 2: the authentic ticket T1 is presented; the server refuses it for a non-key reason
					keys2 := []ticketKeyMat{k1}
					if rotated {
						keys2 = []ticketKeyMat{k2, k1}
					}
					if reason == "expired" {
						offset = 8 * 24 * time.Hour
					}
					zs2 := mkServer(seed+2, true, keys2...)
					cs2, ss2, onWire, ok := run("conn2", mkClient(seed+3, cache), zs2, t1)
					hist = append(hist, fmt.Sprintf("conn2: keys%v reason=%s -> %s/%04x resumed=%v", map[bool]string{true: "[K2,K1]", false: "[K1]"}[rotated], reason, vname(ss2.Version), ss2.Suite, ss2.Resumed))
					if !ok {
						continue
					}
					kv := "tls<=1.2"
					if tb.V1 == v13 {
						kv = "1.3"
					}
					b1 := &c31Base{Spec: c31Spec{Name: label, Vers: tb.V1}, Ticket: t1, Vers: ss1.Version, Suite: ss1.Suite, KeyVers: kv}
					b1.judge(c, label+"/conn2", "cache", "tri_conn2:"+reason, t1, reason == "none", cs2, ss2, onWire, label, "conn2")
					if !cs2.OK || !ss2.OK {
						continue
					}
					sess2 := cache.only()
					t2 := ztls.VerifSessionTicket(sess2)
					if sess2 == nil || bytes.Equal(t2, t1) {
						c.Count("tri_no_new_ticket_after_conn2:"+reason, 1)
						continue
					}
					if v, su := ztls.VerifSessionInfo(sess2); (v != cs2.Version || su != cs2.Suite) && !(cs2.Version == v13) {
						c.Violation("cached_session_records_other_parameters", fmt.Sprintf("cached %s/%04x, connection %s/%04x", vname(v), su, vname(cs2.Version), cs2.Suite), label, hist)
					}
					// connection 3a: the new ticket under the parameters of connection 2 must resume with connection 2's parameters
					b2 := &c31Base{Spec: c31Spec{Name: label, Vers: ss2.Version}, Ticket: t2, Vers: ss2.Version, Suite: ss2.Suite, KeyVers: kv}
					fresh := func() *mapCache { m := newMapCache(); m.Put(tlspair.ServerName, sess2); return m }
					if reason == "expired" {
						offset += time.Hour
					}
					cs3, ss3, onWire3, ok := run("conn3_same_parameters", mkClient(seed+4, fresh()), zs2, t2)
					hist = append(hist, fmt.Sprintf("conn3(same parameters): %s/%04x resumed=%v", vname(ss3.Version), ss3.Suite, ss3.Resumed))
					if ok {
						b2.judge(c, label+"/conn3_same_parameters", "cache", "tri_new_ticket_same_parameters:"+reason, t2, true, cs3, ss3, onWire3, label, "conn3a")
					}
					// connection 3b: the new ticket under the old parameters (both keys installed)
					if reason != "expired" {
						zs1b := mkServer(seed+5, false, k2, k1)
						want := reason == "none"
						cs4, ss4, onWire4, ok := run("conn3_old_parameters", mkClient(seed+6, fresh()), zs1b, t2)
						hist = append(hist, fmt.Sprintf("conn3(old parameters): %s/%04x resumed=%v", vname(ss4.Version), ss4.Suite, ss4.Resumed))
						if ok {
							b2.judge(c, label+"/conn3_old_parameters", "cache", "tri_new_ticket_old_parameters:"+reason, t2, want, cs4, ss4, onWire4, label, "conn3b")
						}
					}
					c.Count("three_connection_histories", 1)
				}
			}
		}
	}
}

// ---------------------------------------------------------------------------
// harness-side ticket sealing (hostile-input construction only; the oracle never opens a ticket)

func ctrXor(key [16]byte, iv, in []byte) []byte {
	blk, err := aes.NewCipher(key[:])
	if err != nil {
		panic(err)
	}
	out := make([]byte, len(in))
	cipher.NewCTR(blk, iv).XORKeyStream(out, in)
	return out
}

// openTicket decrypts a ticket sealed under k (nil if the name or MAC does not match).
func openTicket(t []byte, k ticketKeyMat) []byte {
	if len(t) < 64 || !bytes.Equal(t[:16], k.Name[:]) {
		return nil
	}
	m := hmac.New(sha256.New, k.HMAC[:])
	m.Write(t[:len(t)-32])
	if !hmac.Equal(m.Sum(nil), t[len(t)-32:]) {
		return nil
	}
	return ctrXor(k.AES, t[16:32], t[32:len(t)-32])
}

// sealTicket seals a session state under arbitrary key material.
func sealTicket(state []byte, k ticketKeyMat, iv []byte) []byte {
	out := append([]byte(nil), k.Name[:]...)
	out = append(out, iv[:16]...)
	out = append(out, ctrXor(k.AES, iv[:16], state)...)
	m := hmac.New(sha256.New, k.HMAC[:])
	m.Write(out)
	return m.Sum(out)
}

// derivedKey: the key material the library derives from a 32-byte seed.
func derivedKey(fill byte) ticketKeyMat {
	var k ticketKeyMat
	for i := range k.Key {
		k.Key[i] = fill
	}
	h := sha512.Sum512(k.Key[:])
	copy(k.Name[:], h[:16])
	copy(k.AES[:], h[16:32])
	copy(k.HMAC[:], h[32:48])
	return k
}

// rawKey: name, AES key and HMAC key all equal to fill (0x00 = the zero value of the key structure).
func rawKey(fill byte) ticketKeyMat {
	var k ticketKeyMat
	for i := range k.Name {
		k.Name[i], k.AES[i], k.HMAC[i] = fill, fill, fill
	}
	return k
}

// patchState rewrites the creation time of a plaintext session state and optionally scrambles its secret.
func patchState(state []byte, vers uint16, created time.Time, otherSecret bool) []byte {
	st := append([]byte(nil), state...)
	tOff, sOff := 4, 14 // TLS<=1.2: vers(2) suite(2) createdAt(8) secret<2>
	if vers == v13 {
		tOff, sOff = 5, 14 // 0x0304 revision(1) suite(2) createdAt(8) secret<1>
	}
	if len(st) < sOff+32 {
		return st
	}
	binary.BigEndian.PutUint64(st[tOff:], uint64(created.Unix()))
	if otherSecret {
		for i := 0; i < 32; i++ {
			st[sOff+i] ^= byte(0x5a + i)
		}
	}
	return st
}

// c31AutoRotation: automatic key rotation (no explicit keys) under clock jumps that make keys expire and be pruned;
// genuine tickets follow the documented lifetime, harness-sealed tickets under publicly computable or foreign keys never resume,
// and the hook's snapshot of the key list stays sane after every step.
func c31AutoRotation(c *core.Ctx) {
	total := c.Pick(32, 480)
	day := 24 * time.Hour
	hour := time.Hour
	for h := 0; h < total; h++ {
		if h%c.NShards != c.Shard {
			continue
		}
		gr := c.GlobalRng(fmt.Sprintf("autorot:%d", h))
		spec := c31Specs[[]int{0, 1, 4, 3}[h%4]]
		label := fmt.Sprintf("auto%04d:%s", h, spec.Name)
		seed := gr.Uint64() | 1
		var offset time.Duration
		now := func() time.Time { return tlspair.Now.Add(offset) }
		zs := spec.serverConfig(seed, now) // no SetSessionTicketKeys, no SessionTicketKey: automatic rotation

		// the attacker's session: issued by a sibling server whose key the harness knows, so its state can be re-sealed
		own, foreign := mkTicketKey(gr), mkTicketKey(gr)
		zk := spec.serverConfig(seed+1, fixedNow)
		zk.SetSessionTicketKeys([][32]byte{own.Key})
		as, _, ass, err := spec.issue(c, zk, seed+2)
		if err != nil {
			if err == errPanicReported {
				// already reported as a violation
			} else if err.Error() == "watchdog" {
				noteWatchdog(c, "C31 "+label)
			} else {
				c.Violation("initial_session_failed:"+spec.Name, err.Error(), label, spec)
			}
			continue
		}
		attacker := &c31Base{Spec: spec, Seed: seed, Session: as, Ticket: ztls.VerifSessionTicket(as), Vers: ass.Version, Suite: ass.Suite}
		plain := openTicket(attacker.Ticket, own)
		if plain == nil {
			undecided(c, "harness:cannot_open_own_ticket", "ticket layout assumption does not hold", label, spec)
			continue
		}
		hostile := []struct {
			name string
			key  ticketKeyMat
		}{
			{"forged_under_zero_value_key", rawKey(0x00)}, {"forged_under_all_ff_key", rawKey(0xff)},
			{"forged_under_key_derived_from_zero_seed", derivedKey(0x00)}, {"forged_under_key_derived_from_ff_seed", derivedKey(0xff)},
			{"forged_under_other_servers_key", foreign}, {"forged_under_issuing_sibling_key", own},
		}

		// clock: the fixed prefix makes a key expire and be pruned, the rest is random
		jumps := []time.Duration{hour, 25 * hour, 6 * day, 8 * day, hour, 25 * hour}
		pool := []time.Duration{hour, 25 * hour, 2 * day, 6 * day, 8 * day, 15 * day, 3 * hour}
		for i := 0; i < 2+gr.IntN(3); i++ {
			jumps = append(jumps, pool[gr.IntN(len(pool))])
		}
		if h%3 == 1 {
			gr.Shuffle(len(jumps), func(i, j int) { jumps[i], jumps[j] = jumps[j], jumps[i] })
		}
		type genuine struct {
			base       *c31Base
			issuedAt   time.Duration
			keyCreated time.Duration
		}
		var tickets []genuine
		var modelKeys []time.Duration // creation times of the keys the documented schedule keeps
		var everCreated []time.Duration
		connect := func() { // the documented schedule, applied at every connection
			if len(modelKeys) == 0 || offset-modelKeys[0] >= 24*hour {
				kept := []time.Duration{offset}
				for _, k := range modelKeys {
					if offset-k < 7*day {
						kept = append(kept, k)
					}
				}
				modelKeys = kept
				everCreated = append(everCreated, offset)
			}
		}
		var hist []string
		for step := 0; step <= len(jumps); step++ {
			if step > 0 {
				offset += jumps[step-1]
			}
			hist = append(hist, offset.String())
			// 1. a genuine full handshake (triggers rotation when due) and a genuine ticket
			connect()
			sess, _, ss, err := spec.issue(c, zs, seed+uint64(100+step))
			if err != nil {
				if err == errPanicReported {
					// already reported as a violation
				} else if err.Error() == "watchdog" {
					noteWatchdog(c, "C31 "+label)
				} else {
					c.Violation("initial_session_failed:"+spec.Name, err.Error(), label, hist)
				}
				break
			}
			nb := &c31Base{Spec: spec, Seed: seed, Server: zs, Session: sess, Ticket: ztls.VerifSessionTicket(sess), Vers: ss.Version, Suite: ss.Suite}
			// 2. the key list after this step
			_, names := ztls.VerifTicketKeyNames(zs)
			c.Max("auto_keys_held", len(names))
			bound := 0
			for _, t := range everCreated {
				if offset-t < 8*day { // dropped "after seven days", at the next daily rotation at the latest
					bound++
				}
			}
			seen := map[[16]byte]bool{}
			for _, n := range names {
				if n == [16]byte{} {
					c.Violation("auto_ticket_keys:zero_valued_key_in_list", fmt.Sprintf("clock history %v: key names %x", hist, names), label, hist)
				}
				if seen[n] {
					c.Violation("auto_ticket_keys:duplicate_key_names", fmt.Sprintf("clock history %v: key names %x", hist, names), label, hist)
				}
				seen[n] = true
			}
			if len(names) == 0 || len(names) > bound {
				c.Violation("auto_ticket_keys:count_outside_documented_bound", fmt.Sprintf("clock history %v: %d keys held, schedule allows 1..%d", hist, len(names), bound), label, hist)
			}
			if !bytesEq16(nb.Ticket, names[:min(1, len(names))]) {
				c.Violation("ticket_not_issued_under_first_current_key", fmt.Sprintf("auto rotation %v: ticket name %x, names %x", hist, nb.Ticket[:16], names), label, hist)
			}
			c.Eval(1)
			// 3. earlier genuine tickets
			first := 0
			if len(tickets) > 6 {
				first = len(tickets) - 6
			}
			for ti := first; ti < len(tickets); ti++ {
				tk := tickets[ti]
				var want, decided bool
				switch {
				case offset-tk.keyCreated < 7*day-hour:
					want, decided = true, true
				case offset-tk.issuedAt > 7*day+hour:
					want, decided = false, true
				}
				cs, ss, onWire, to := tk.base.present(c, zs, tk.base.Ticket, "cache", seed+uint64(1000*step+ti))
				if to {
					noteWatchdog(c, "C31 "+label)
					continue
				}
				if !decided {
					c.Count("auto_rotation_key_past_7d_ticket_younger:resumed="+fmt.Sprint(ss.Resumed), 1)
					continue
				}
				mut := "auto_rotation_genuine:expired"
				if want {
					mut = "auto_rotation_genuine:key_current"
				}
				tk.base.judge(c, fmt.Sprintf("%s/step%d(%s)/t%d(issued %s)", label, step, offset, ti, tk.issuedAt), "cache", mut, tk.base.Ticket, want, cs, ss, onWire, label, step, ti)
			}
			tickets = append(tickets, genuine{nb, offset, modelKeys[0]})
			// 4. harness-sealed tickets: a well-formed state (the attacker's own session, created "now") under keys anybody can compute
			iv := make([]byte, 16)
			for i := range iv {
				iv[i] = byte(gr.Uint32())
			}
			for hi, hk := range hostile {
				for variant := 0; variant < 2; variant++ {
					if variant == 1 && hi != 0 && hi != 4 {
						continue
					}
					forged := sealTicket(patchState(plain, spec.Vers, now(), variant == 1), hk.key, iv)
					mut := hk.name
					if variant == 1 {
						mut += "+other_secret"
					}
					cs, ss, onWire, to := attacker.present(c, zs, forged, "cache", seed+uint64(5000+100*step+10*hi+variant))
					if to {
						noteWatchdog(c, "C31 "+label)
						continue
					}
					attacker.judge(c, fmt.Sprintf("%s/step%d(%s)/%s", label, step, offset, mut), "cache", mut, forged, false, cs, ss, onWire, label, step, mut)
				}
			}
			// a current key name with zero key material
			if len(names) > 0 {
				k := rawKey(0)
				k.Name = names[len(names)-1]
				forged := sealTicket(patchState(plain, spec.Vers, now(), false), k, iv)
				cs, ss, onWire, to := attacker.present(c, zs, forged, "cache", seed+uint64(9000+step))
				if !to {
					attacker.judge(c, fmt.Sprintf("%s/step%d(%s)/current_name_zero_material", label, step, offset), "cache", "forged_current_key_name_zero_material", forged, false, cs, ss, onWire, label, step, "curname")
				}
			}
		}
		// sanity of the forging machinery: the re-sealed state is accepted by the server that really owns the key
		offset = 0
		resealed := sealTicket(patchState(plain, spec.Vers, tlspair.Now, false), own, make([]byte, 16))
		cs, ss, onWire, to := attacker.present(c, zk, resealed, "cache", seed+77)
		if !to {
			attacker.judge(c, label+"/resealed_under_real_key", "cache", "harness_resealed_state_under_the_servers_real_key", resealed, true, cs, ss, onWire, label, "resealed")
		}
		c.Count("auto_rotation_histories", 1)
	}
}

// c31Mutations: one base session, all ticket mutations (split over the shards by mutation index).
func c31Mutations(c *core.Ctx, spec c31Spec, rep, si, part int) {
	label := fmt.Sprintf("%s#%d", spec.Name, rep)
	gr := c.GlobalRng("session:" + label)
	seed := gr.Uint64() | 1
	own, foreign := mkTicketKey(gr), mkTicketKey(gr)
	zs := spec.serverConfig(seed, fixedNow)
	zs.SetSessionTicketKeys([][32]byte{own.Key})
	zsBoth := spec.serverConfig(seed+1, fixedNow)
	zsBoth.SetSessionTicketKeys([][32]byte{own.Key, foreign.Key})
	zsForeign := spec.serverConfig(seed+2, fixedNow)
	zsForeign.SetSessionTicketKeys([][32]byte{foreign.Key})

	fail := func(what string, err error, cs, ss side) {
		c.Violation("initial_session_failed:"+spec.Name, fmt.Sprintf("%s: %v (client %v, server %v)", what, err, cs.Err, ss.Err), label, spec)
	}
	sess, cs, ss, err := spec.issue(c, zs, seed+10)
	if err != nil {
		if err == errPanicReported {
			// already reported as a violation
		} else if err.Error() == "watchdog" {
			noteWatchdog(c, "C31 issue "+label)
			return
		}
		fail("base", err, cs, ss)
		return
	}
	b := &c31Base{Spec: spec, Seed: seed, Keys: []ticketKeyMat{own}, Server: zs, Session: sess, Ticket: ztls.VerifSessionTicket(sess), Vers: ss.Version, Suite: ss.Suite}
	if v, s := ztls.VerifSessionInfo(sess); v != ss.Version || s != ss.Suite {
		c.Violation("cached_session_records_other_parameters", fmt.Sprintf("cached %s/%04x, connection %s/%04x", vname(v), s, vname(ss.Version), ss.Suite), label, spec)
	}
	// the ticket must name the server's current first key (hook snapshot)
	explicit, _ := ztls.VerifTicketKeyNames(zs)
	if len(explicit) != 1 || explicit[0] != own.Name || !bytesEq16(b.Ticket, explicit) {
		c.Violation("ticket_not_issued_under_first_current_key", fmt.Sprintf("ticket name %x, server key names %x, expected %x", b.Ticket[:16], explicit, own.Name), label, spec)
	}
	sess2, _, _, err2 := spec.issue(c, zs, seed+11)
	var second []byte
	if err2 == nil {
		second = ztls.VerifSessionTicket(sess2)
	}
	var foreignTicket []byte
	if fs, _, _, e := spec.issue(c, zsForeign, seed+12); e == nil {
		foreignTicket = ztls.VerifSessionTicket(fs)
	}
	// a ticket of the other protocol generation sealed under the same key
	var crossTicket []byte
	cross := spec
	cross.ClientCert = false
	if spec.Vers == v13 {
		cross.Vers, cross.Suite, cross.Kind = v12, 0xc02b, tlspair.P256
	} else {
		cross.Vers, cross.Suite, cross.Kind = v13, 0x1301, tlspair.P256
	}
	zx := cross.serverConfig(seed+3, fixedNow)
	zx.SetSessionTicketKeys([][32]byte{own.Key})
	if xs, _, _, e := cross.issue(c, zx, seed+13); e == nil {
		crossTicket = ztls.VerifSessionTicket(xs)
	}

	muts := b.mutations(c.GlobalRng("mut:"+label), second, foreignTicket, crossTicket, foreign)
	c.Max("ticket_len:"+spec.Name, len(b.Ticket))

	// controls (every shard): the unmodified ticket resumes, also on the server that holds an extra key
	if part == 1 {
		for i, srv := range []*ztls.Config{zs, zsBoth} {
			cs, ss, onWire, to := b.present(c, srv, b.Ticket, "cache", seed+100+uint64(i))
			if to {
				noteWatchdog(c, "C31 control "+label)
				continue
			}
			b.judge(c, label+"/control", "cache", fmt.Sprintf("unmodified@%d", i), b.Ticket, true, cs, ss, onWire, label, "control", i)
		}
		if second != nil {
			// the second genuine ticket with the first session's secrets: authentic ticket, wrong secrets on the client.
			// TLS 1.2: the server resumes (ticket is authentic) and the client's Finished check fails; not a property case — recorded.
			c.Count("second_ticket_available", 1)
		}
	}
	nflip, ntrunc := 0, 0
	for mi, m := range muts {
		isFlip := len(m.Name) > 5 && m.Name[:5] == "flip@"
		if isFlip != (part == 0) {
			continue
		}
		if bytes.Equal(m.Ticket, b.Ticket) {
			continue
		}
		srv := zs
		if m.Server == "both" {
			srv = zsBoth
		}
		caseID := fmt.Sprintf("%s/%s", label, m.Name)
		routes := []string{"cache"}
		if spec.Public {
			routes = append(routes, "public")
		}
		for _, route := range routes {
			cs, ss, onWire, to := b.present(c, srv, m.Ticket, route, seed+1000+uint64(mi))
			if to {
				noteWatchdog(c, "C31 "+caseID)
				continue
			}
			b.judge(c, caseID, route, m.Name, m.Ticket, false, cs, ss, onWire, label, route, m.Name)
		}
		switch {
		case len(m.Name) > 5 && m.Name[:5] == "flip@":
			nflip++
		case len(m.Name) > 6 && m.Name[:6] == "trunc@":
			ntrunc++
		}
	}
	if part == 0 {
		if nflip != len(b.Ticket) {
			undecided(c, "harness:flip_enumeration_incomplete", fmt.Sprintf("%d of %d", nflip, len(b.Ticket)), label, spec)
		}
		c.Exhaustive(fmt.Sprintf("single_byte_flip_positions:%s(len %d)", label, len(b.Ticket)), int64(nflip))
	} else {
		c.Exhaustive(fmt.Sprintf("truncation_lengths:%s(len %d)", label, len(b.Ticket)), int64(ntrunc))
	}
}

// c31Histories: SetSessionTicketKeys rotation histories; every ticket issued so far is presented in every later epoch.
func c31Histories(c *core.Ctx) {
	total := c.Pick(48, 1200)
	for h := 0; h < total; h++ {
		if h%c.NShards != c.Shard {
			continue
		}
		gr := c.GlobalRng(fmt.Sprintf("history:%d", h))
		spec := c31Specs[h%4] // tls12-ecdsa, tls13-aes128, tls12-rsa, tls13-sha384
		if spec.Kind == tlspair.RSA2048 {
			spec = c31Specs[4]
		}
		label := fmt.Sprintf("hist%04d:%s", h, spec.Name)
		seed := gr.Uint64() | 1
		pool := make([]ticketKeyMat, 5)
		for i := range pool {
			pool[i] = mkTicketKey(gr)
		}
		zs := spec.serverConfig(seed, fixedNow)
		legacyFirst := h%6 == 5
		type issued struct {
			base  *c31Base
			key   [16]byte
			epoch int
		}
		var tickets []issued
		var histDesc []string
		epochs := 3 + gr.IntN(3)
		var current []ticketKeyMat
		for e := 0; e < epochs; e++ {
			switch {
			case h%6 == 0 && e < 4:
				// the canonical rotation [k1] -> [k2,k1] -> [k3,k2] -> [k3]
				current = [][]ticketKeyMat{{pool[0]}, {pool[1], pool[0]}, {pool[2], pool[1]}, {pool[2]}}[e]
			default:
				n := 1 + gr.IntN(3)
				p := gr.Perm(len(pool))
				current = nil
				for _, i := range p[:n] {
					current = append(current, pool[i])
				}
			}
			var ks [][32]byte
			desc := ""
			for _, k := range current {
				ks = append(ks, k.Key)
				desc += fmt.Sprintf("%x ", k.Name[:3])
			}
			if legacyFirst && e == 0 {
				// legacy single-key field instead of SetSessionTicketKeys
				zs.SessionTicketKey = current[0].Key
				current = current[:1]
				desc = fmt.Sprintf("legacy:%x ", current[0].Name[:3])
			} else {
				zs.SetSessionTicketKeys(ks)
			}
			histDesc = append(histDesc, "["+desc+"]")
			// present every earlier ticket
			for ti, tk := range tickets {
				want := false
				for _, k := range current {
					if k.Name == tk.key {
						want = true
					}
				}
				cs, ss, onWire, to := tk.base.present(c, zs, tk.base.Ticket, "cache", seed+uint64(1000*e+ti))
				if to {
					noteWatchdog(c, "C31 "+label)
					continue
				}
				names, _ := ztls.VerifTicketKeyNames(zs)
				if bytesEq16(tk.base.Ticket, names) != want {
					c.Violation("ticket_key_list_differs_from_configured_history", fmt.Sprintf("history %v: hook names %x, ticket name %x, model says current=%v", histDesc, names, tk.base.Ticket[:16], want), label, histDesc)
				}
				mut := "rotated_out_key"
				if want {
					mut = "key_still_current"
				}
				caseID := fmt.Sprintf("%s/e%d/t%d(from e%d)", label, e, ti, tk.epoch)
				tk.base.judge(c, caseID, "cache", mut, tk.base.Ticket, want, cs, ss, onWire, label, e, ti)
			}
			// issue a fresh ticket in this epoch
			sess, _, ss, err := spec.issue(c, zs, seed+uint64(7000+e))
			if err != nil {
				if err == errPanicReported {
					// already reported as a violation
				} else if err.Error() == "watchdog" {
					noteWatchdog(c, "C31 "+label)
				} else {
					c.Violation("initial_session_failed:"+spec.Name, err.Error(), label, histDesc)
				}
				break
			}
			nb := &c31Base{Spec: spec, Seed: seed, Server: zs, Session: sess, Ticket: ztls.VerifSessionTicket(sess), Vers: ss.Version, Suite: ss.Suite}
			var name [16]byte
			copy(name[:], nb.Ticket)
			if name != current[0].Name {
				c.Violation("ticket_not_issued_under_first_current_key", fmt.Sprintf("history %v: ticket name %x, first key %x", histDesc, name, current[0].Name), label, histDesc)
			}
			tickets = append(tickets, issued{nb, name, e})
		}
		c.Count("rotation_histories", 1)
	}
}

// c31Lifetimes: ticket lifetime and automatic key rotation driven by Config.Time; tickets disabled; suite dropped.
func c31Lifetimes(c *core.Ctx) {
	total := c.Pick(32, 400)
	day := 24 * time.Hour
	for i := 0; i < total; i++ {
		if i%c.NShards != c.Shard {
			continue
		}
		gr := c.GlobalRng(fmt.Sprintf("life:%d", i))
		spec := c31Specs[[]int{0, 1, 4, 3}[i%4]]
		label := fmt.Sprintf("life%04d:%s", i, spec.Name)
		seed := gr.Uint64() | 1
		auto := (i/4)%2 == 0 // automatic rotation (no explicit keys) vs explicit key
		var offset time.Duration
		now := func() time.Time { return tlspair.Now.Add(offset) }
		zs := spec.serverConfig(seed, now)
		key := mkTicketKey(gr)
		if !auto {
			zs.SetSessionTicketKeys([][32]byte{key.Key})
		}
		sess, _, ss, err := spec.issue(c, zs, seed+1)
		if err != nil {
			if err == errPanicReported {
				// already reported as a violation
			} else if err.Error() == "watchdog" {
				noteWatchdog(c, "C31 "+label)
			} else {
				c.Violation("initial_session_failed:"+spec.Name, err.Error(), label, spec)
			}
			continue
		}
		b := &c31Base{Spec: spec, Seed: seed, Server: zs, Session: sess, Ticket: ztls.VerifSessionTicket(sess), Vers: ss.Version, Suite: ss.Suite}
		// server-side clock moves forward; the client's clock stays (its own expiry rules are not under test)
		steps := []time.Duration{time.Hour, 25 * time.Hour, 3 * day, 6*day + 12*time.Hour, 7*day + 2*time.Hour, 9 * day}
		for si, d := range steps {
			offset = d
			want := d < 7*day
			cs, ss, onWire, to := b.present(c, zs, b.Ticket, "cache", seed+uint64(100+si))
			if to {
				noteWatchdog(c, "C31 "+label)
				continue
			}
			mode := "explicit_key"
			if auto {
				mode = "auto_rotation"
				_, names := ztls.VerifTicketKeyNames(zs)
				c.Max("auto_keys_held", len(names))
				if bytesEq16(b.Ticket, names) {
					c.Count("auto_key_still_held@"+d.String(), 1)
				} else {
					c.Count("auto_key_dropped@"+d.String(), 1)
				}
			}
			mut := fmt.Sprintf("%s:age=%s", mode, d)
			b.judge(c, label+"/"+mut, "cache", mut, b.Ticket, want, cs, ss, onWire, label, mut)
		}
		offset = time.Hour
		// tickets disabled on a server that shares the key
		if !auto {
			zd := spec.serverConfig(seed+5, now)
			zd.SetSessionTicketKeys([][32]byte{key.Key})
			zd.SessionTicketsDisabled = true
			cs, ss, onWire, to := b.present(c, zd, b.Ticket, "cache", seed+200)
			if !to {
				b.judge(c, label+"/tickets_disabled", "cache", "server_tickets_disabled", b.Ticket, false, cs, ss, onWire, label, "disabled")
			}
			// a second server sharing the key resumes (documented use of SetSessionTicketKeys for server pools)
			z2 := spec.serverConfig(seed+6, now)
			z2.SetSessionTicketKeys([][32]byte{key.Key})
			cs, ss, onWire, to = b.present(c, z2, b.Ticket, "cache", seed+201)
			if !to {
				b.judge(c, label+"/pool_member", "cache", "other_server_same_key", b.Ticket, true, cs, ss, onWire, label, "pool")
			}
			// the session's suite is no longer enabled on the server (TLS <= 1.2): full handshake with the other suite
			if spec.Vers != v13 && spec.Suite == 0xc02b {
				z3 := spec.serverConfig(seed+7, now)
				z3.SetSessionTicketKeys([][32]byte{key.Key})
				z3.CipherSuites = []uint16{0xc02c}
				alt := *b
				alt.Spec.Suite = 0 // client offers both suites
				cs, ss, onWire, to = alt.presentTwoSuites(c, z3, seed+202)
				if !to {
					b.judge(c, label+"/suite_dropped", "cache", "session_suite_disabled_on_server", b.Ticket, false, cs, ss, onWire, label, "suite_dropped")
				}
			}
		}
		// the client no longer offers the session's suite but still sends the genuine ticket (only the fingerprint
		// route can do that: the regular client drops the ticket itself): the server must not resume
		if !auto && spec.Name == "tls10-ecdsa-cbc" {
			z4 := spec.serverConfig(seed+8, now)
			z4.SetSessionTicketKeys([][32]byte{key.Key})
			z4.CipherSuites = []uint16{0xc009, 0xc00a}
			alt := *b
			alt.Spec.Suite = 0xc00a
			cs, ss, onWire, to := alt.present(c, z4, b.Ticket, "public", seed+203)
			if !to {
				nb := *b
				nb.Vers, nb.Suite = b.Vers, b.Suite
				nb.judge(c, label+"/suite_not_offered", "public", "session_suite_not_offered_by_client", b.Ticket, false, cs, ss, onWire, label, "suite_not_offered")
				if ss.OK && ss.Suite != 0xc00a {
					c.Violation("suite_not_offered_by_client_negotiated", fmt.Sprintf("server negotiated %04x, client offered only c00a", ss.Suite), label, spec)
				}
			}
		}
		c.Count("lifetime_probes", 1)
	}
}

// presentTwoSuites presents the genuine ticket from a client that offers the session's suite and c02c.
func (b *c31Base) presentTwoSuites(c *core.Ctx, zs *ztls.Config, seed uint64) (cs, ss side, onWire, timedOut bool) {
	cache := newMapCache()
	cache.Put(tlspair.ServerName, ztls.VerifSessionWithTicket(b.Session, b.Ticket))
	zc := tlspair.BaseClient(seed)
	zc.MinVersion, zc.MaxVersion = v12, v12
	zc.CipherSuites = []uint16{0xc02b, 0xc02c}
	zc.ClientSessionCache = cache
	r := tlspair.RunZZ(zc, zs, guarded(tlspair.Options{}))
	defer r.Close()
	cs, ss = clientSide(r), serverSide(r)
	if reportPanics(c, r, b.Spec.Name+"/two_suites", map[string]any{"session": b.Spec, "presented_ticket": core.FullHex(b.Ticket)}) {
		suppressWatchdogOnce = true
		return cs, ss, false, true
	}
	if r.TimedOut {
		return cs, ss, false, true
	}
	if ch, ok := firstClientHello(r.Tap); ok && ch.OK {
		onWire = ch.HasTicketExt && bytes.Equal(ch.Ticket, b.Ticket)
	}
	return
}
