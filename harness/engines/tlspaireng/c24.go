package tlspaireng

// C24 — TLS endpoints interoperate and negotiate correctly.
//
// A seed-determined generator draws (client config, server config) pairs; each
// pair is run over the in-memory transport (zcrypto<->zcrypto, zcrypto client
// <-> Go server, Go client <-> zcrypto server), optionally twice (resumption).
// The oracle is a compatibility predicate and a negotiation model written from
// the Config documentation; what the client offered is read from the tapped
// ClientHello with an independent parser, the downgrade sentinel from the
// tapped ServerHello. A man-in-the-middle leg rewrites the ClientHello's
// versions with a netx record filter.

import (
	"bytes"
	gotls "crypto/tls"
	"encoding/json"
	"fmt"
	"math/rand/v2"
	"regexp"
	"strings"

	ztls "github.com/zmap/zcrypto/tls"

	"verifharness/internal/core"
	"verifharness/internal/netx"
	"verifharness/internal/tlspair"
)

func init() {
	core.RegisterMeta("C24", core.Meta{
		Rule: "seed-determined (client config, server config) pairs over version ranges TLS1.0-1.3 x ordered suite subsets of the implemented table (+DHE leg with ForceSuites) x 1-2 server keys (RSA-2048, ECDSA P-256/384/521, Ed25519) x curve lists x ALPN lists x PreferServerCipherSuites x tickets on/off, " +
			"peers zcrypto<->zcrypto, zcrypto->Go crypto/tls, Go->zcrypto; second connection for resumption, under the same configurations or (45 % of the ticket-enabled pairs) under changed ones that keep the ticket key and the client cache (server/client suite list regenerated or stripped of the negotiated suite, version range or curve list changed) and are judged by the same oracle on the current configurations; man-in-the-middle version rewrite leg. " +
			"non-trivial = a connection whose handshake completed on both sides and was checked against the negotiation model; distinct by hash of the canonical pair description + connection index",
		MinNontrivial:         1900,
		MinNontrivialThorough: 60000,
		Shards:                16,
		Env:                   goDebug,
		Assumptions: []string{
			"compatibility predicate and preference rule written from the Config field documentation (MinVersion/MaxVersion, CipherSuites, PreferServerCipherSuites, CurvePreferences, NextProtos, Certificates, SessionTicketsDisabled/ClientSessionCache) and RFC 8446 4.1.3",
			"what the client offers is taken from the tapped ClientHello (independent parser); suite metadata (key exchange family, TLS1.2-only) from the hook table cross-checked with the public CipherSuites() list",
			"where hardware-dependent AEAD reordering may apply (both AES-GCM and ChaCha20 in the deciding preference list, or server default order) only membership in the mutual usable set is asserted",
			"pairs whose ECDSA server key curve is outside the curves both sides list (TLS<=1.2) are outside the predicate: only agreement is checked",
			"Go's crypto/tls is trusted as an independent peer; with a Go endpoint only agreement/membership is asserted for choices made by Go",
			"a watchdog firing is inconclusive for that case",
		},
	}, runC24)
}

type c24Case struct {
	ID           string   `json:"id"`
	Peer         string   `json:"peer"`
	CMin         uint16   `json:"cmin"`
	CMax         uint16   `json:"cmax"`
	SMin         uint16   `json:"smin"`
	SMax         uint16   `json:"smax"`
	CSuites      []uint16 `json:"c_suites"`
	SSuites      []uint16 `json:"s_suites"`
	CCurves      []uint16 `json:"c_curves"`
	SCurves      []uint16 `json:"s_curves"`
	CALPN        []string `json:"c_alpn"`
	SALPN        []string `json:"s_alpn"`
	PreferServer bool     `json:"prefer_server"`
	Certs        []string `json:"certs"`
	ClientCache  bool     `json:"client_cache"`
	CNoTickets   bool     `json:"c_no_tickets"`
	SNoTickets   bool     `json:"s_no_tickets"`
	Force        bool     `json:"force_suites"`
	Seed         uint64   `json:"seed"`
	MITM         uint16   `json:"mitm_target"`
	// Changes applied to the configurations of the second connection (same ticket keys, same client cache).
	// Entries: s_drop_negotiated, s_regen, s_versions, s_curves, c_drop_negotiated, c_regen, c_versions.
	KeySeed  uint64   `json:"ticket_key_seed"`
	Conn2    []string `json:"conn2_changes,omitempty"`
	SSuites2 []uint16 `json:"s_suites2,omitempty"`
	CSuites2 []uint16 `json:"c_suites2,omitempty"`
	SMin2    uint16   `json:"smin2,omitempty"`
	SMax2    uint16   `json:"smax2,omitempty"`
	CMin2    uint16   `json:"cmin2,omitempty"`
	CMax2    uint16   `json:"cmax2,omitempty"`
	SCurves2 []uint16 `json:"s_curves2,omitempty"`
}

func (k c24Case) canon() string {
	k.ID = ""
	k.Seed = 0
	k.KeySeed = 0
	b, _ := json.Marshal(k)
	return string(b)
}

var allVersions = []uint16{v10, v11, v12, v13}
var allCurves = []uint16{29, 23, 24, 25}
var alpnPool = []string{"h2", "http/1.1", "spdy/3", "verif"}

func certCurve(kind string) uint16 {
	switch kind {
	case tlspair.P256:
		return 23
	case tlspair.P384:
		return 24
	case tlspair.P521:
		return 25
	}
	return 0
}

func randSubset16(r *rand.Rand, pool []uint16, min, max int) []uint16 {
	if max > len(pool) {
		max = len(pool)
	}
	n := min
	if max > min {
		n += r.IntN(max - min + 1)
	}
	p := r.Perm(len(pool))
	out := make([]uint16, 0, n)
	for _, i := range p[:n] {
		out = append(out, pool[i])
	}
	return out
}

func randRange(r *rand.Rand) (uint16, uint16) {
	if r.IntN(100) < 45 {
		return v10, v13
	}
	a, b := r.IntN(4), r.IntN(4)
	if a > b {
		a, b = b, a
	}
	return allVersions[a], allVersions[b]
}

var (
	goKnownSuites map[uint16]bool
)

func goSuites() map[uint16]bool {
	if goKnownSuites == nil {
		m := map[uint16]bool{}
		for _, s := range gotls.CipherSuites() {
			if !is13Suite(s.ID) {
				m[s.ID] = true
			}
		}
		for _, s := range gotls.InsecureCipherSuites() {
			m[s.ID] = true
		}
		goKnownSuites = m
	}
	return goKnownSuites
}

func genSuites(r *rand.Rand, certs []string, goSide bool) []uint16 {
	loadSuites()
	if !goSide && r.IntN(100) < 22 {
		return nil
	}
	pool := baseSuites
	if goSide {
		pool = nil
		for _, id := range baseSuites {
			if goSuites()[id] {
				pool = append(pool, id)
			}
		}
	}
	out := randSubset16(r, pool, 2, 12)
	// bias towards suites that can work with the server keys
	if r.IntN(100) < 70 {
		var want string
		switch certs[0] {
		case tlspair.RSA2048:
			if r.IntN(2) == 0 {
				want = "ecdhe_rsa"
			} else {
				want = "rsa"
			}
		default:
			want = "ecdhe_ecdsa"
		}
		var cands []uint16
		for _, id := range pool {
			if suiteByID[id].KX == want && !has16(out, id) {
				cands = append(cands, id)
			}
		}
		if len(cands) > 0 {
			id := cands[r.IntN(len(cands))]
			pos := r.IntN(len(out) + 1)
			out = append(out[:pos], append([]uint16{id}, out[pos:]...)...)
		}
	}
	if !goSide && r.IntN(100) < 45 {
		for _, id := range randSubset16(r, tls13IDs, 1, 3) {
			pos := r.IntN(len(out) + 1)
			out = append(out[:pos], append([]uint16{id}, out[pos:]...)...)
		}
	}
	return out
}

func genALPN(r *rand.Rand) []string {
	if r.IntN(100) < 40 {
		return nil
	}
	n := 1 + r.IntN(3)
	p := r.Perm(len(alpnPool))
	var out []string
	for _, i := range p[:n] {
		out = append(out, alpnPool[i])
	}
	return out
}

func genC24(r *rand.Rand, id string) c24Case {
	loadSuites()
	k := c24Case{ID: id, Seed: r.Uint64() | 1}
	k.KeySeed = k.Seed
	switch x := r.IntN(100); {
	case x < 58:
		k.Peer = "zz"
	case x < 79:
		k.Peer = "zg"
	default:
		k.Peer = "gz"
	}
	k.CMin, k.CMax = randRange(r)
	k.SMin, k.SMax = randRange(r)
	if r.IntN(100) < 68 {
		k.Certs = []string{tlspair.P256}
	} else {
		p := r.Perm(len(tlspair.Kinds))
		n := 1 + r.IntN(2)
		for _, i := range p[:n] {
			k.Certs = append(k.Certs, tlspair.Kinds[i])
		}
	}
	k.CSuites = genSuites(r, k.Certs, k.Peer == "gz")
	k.SSuites = genSuites(r, k.Certs, k.Peer == "zg")
	if r.IntN(2) == 0 {
		k.CCurves = randSubset16(r, allCurves, 1, 4)
	}
	if r.IntN(2) == 0 {
		k.SCurves = randSubset16(r, allCurves, 1, 4)
	}
	if (k.Peer == "zg" && k.SCurves == nil) || (k.Peer == "gz" && k.CCurves == nil) {
		// Go's default curve list contains post-quantum hybrids; keep Go sides explicit
		c := randSubset16(r, allCurves, 2, 4)
		if k.Peer == "zg" {
			k.SCurves = c
		} else {
			k.CCurves = c
		}
	}
	// keep most ECDSA key curves inside the listed curves (otherwise the pair is outside the predicate)
	for _, cert := range k.Certs {
		if cc := certCurve(cert); cc != 0 && r.IntN(100) < 75 {
			if k.CCurves != nil && !has16(k.CCurves, cc) {
				k.CCurves = append(k.CCurves, cc)
			}
			if k.SCurves != nil && !has16(k.SCurves, cc) {
				k.SCurves = append(k.SCurves, cc)
			}
		}
	}
	// half of the explicit lists avoid mixing AES-GCM with ChaCha20, so that the preference rule is decidable exactly
	strip := func(l []uint16) []uint16 {
		if l == nil || r.IntN(100) >= 50 {
			return l
		}
		out := []uint16{}
		for _, id := range l {
			if !isChaCha(id) {
				out = append(out, id)
			}
		}
		if len(out) == 0 {
			return l
		}
		return out
	}
	k.CSuites, k.SSuites = strip(k.CSuites), strip(k.SSuites)
	k.CALPN, k.SALPN = genALPN(r), genALPN(r)
	if k.Peer == "zg" && len(k.CALPN) > 0 && len(k.SALPN) > 0 {
		// Go's server aborts when both sides list protocols and none is shared: outside the property's domain
		shared := false
		for _, a := range k.CALPN {
			for _, b := range k.SALPN {
				if a == b {
					shared = true
				}
			}
		}
		if !shared {
			k.SALPN = append(k.SALPN, k.CALPN[r.IntN(len(k.CALPN))])
		}
	}
	k.PreferServer = r.IntN(2) == 0
	k.ClientCache = r.IntN(100) < 60
	k.CNoTickets = r.IntN(100) < 10
	k.SNoTickets = r.IntN(100) < 15
	// DHE leg: zcrypto<->zcrypto only, client must force the suites into its hello
	if k.Peer == "zz" && r.IntN(100) < 12 {
		k.Force = true
		if k.CMax > v12 {
			k.CMax = v12
			if k.CMin > k.CMax {
				k.CMin = k.CMax
			}
		}
		if !has(k.Certs, tlspair.RSA2048) {
			k.Certs = append([]string{tlspair.RSA2048}, k.Certs[:1]...)
			if k.Certs[1] == tlspair.RSA2048 {
				k.Certs = k.Certs[:1]
			}
		}
		k.CSuites = append(randSubset16(r, dheSuites, 1, 4), randSubset16(r, baseSuites, 0, 3)...)
		r.Shuffle(len(k.CSuites), func(i, j int) { k.CSuites[i], k.CSuites[j] = k.CSuites[j], k.CSuites[i] })
		k.SSuites = append(randSubset16(r, dheSuites, 1, 4), randSubset16(r, baseSuites, 0, 3)...)
		r.Shuffle(len(k.SSuites), func(i, j int) { k.SSuites[i], k.SSuites[j] = k.SSuites[j], k.SSuites[i] })
	}
	// second connection under changed configurations (ticket keys and client cache are kept)
	if !k.Force && k.ClientCache && !k.CNoTickets && !k.SNoTickets && r.IntN(100) < 45 {
		sOpts := []string{"s_drop_negotiated", "s_drop_negotiated", "s_regen", "s_versions", "s_curves"}
		cOpts := []string{"c_drop_negotiated", "c_regen", "c_versions"}
		switch r.IntN(3) {
		case 0:
			k.Conn2 = []string{sOpts[r.IntN(len(sOpts))]}
		case 1:
			k.Conn2 = []string{cOpts[r.IntN(len(cOpts))]}
		default:
			k.Conn2 = []string{sOpts[r.IntN(len(sOpts))], cOpts[r.IntN(len(cOpts))]}
		}
		k.SSuites2 = genSuites(r, k.Certs, k.Peer == "zg")
		k.CSuites2 = genSuites(r, k.Certs, k.Peer == "gz")
		k.SMin2, k.SMax2 = randRange(r)
		k.CMin2, k.CMax2 = randRange(r)
		k.SCurves2 = randSubset16(r, allCurves, 1, 4)
	}
	// man-in-the-middle leg
	if k.Peer != "gz" && r.IntN(100) < 25 {
		hv := k.CMax
		if k.SMax < hv {
			hv = k.SMax
		}
		var cands []uint16
		for _, t := range allVersions {
			if t >= k.CMin && t >= k.SMin && t < hv {
				cands = append(cands, t)
			}
		}
		if len(cands) > 0 {
			k.MITM = cands[r.IntN(len(cands))]
		}
	}
	return k
}

func has(l []string, s string) bool {
	for _, x := range l {
		if x == s {
			return true
		}
	}
	return false
}

func curveIDsZ(l []uint16) []ztls.CurveID {
	if l == nil {
		return nil
	}
	out := make([]ztls.CurveID, len(l))
	for i, v := range l {
		out[i] = ztls.CurveID(v)
	}
	return out
}

func curveIDsG(l []uint16) []gotls.CurveID {
	if l == nil {
		return nil
	}
	out := make([]gotls.CurveID, len(l))
	for i, v := range l {
		out[i] = gotls.CurveID(v)
	}
	return out
}

type c24Configs struct {
	zc     *ztls.Config
	zs     *ztls.Config
	gc     *gotls.Config
	gs     *gotls.Config
	zcache *mapCache
}

func (k c24Case) build(withCache bool) *c24Configs {
	cf := &c24Configs{}
	cp := func(l []uint16) []uint16 {
		if l == nil {
			return nil
		}
		return append([]uint16{}, l...)
	}
	if k.Peer == "gz" {
		g := tlspair.GoClient(k.Seed)
		g.MinVersion, g.MaxVersion = k.CMin, k.CMax
		g.CipherSuites = cp(k.CSuites)
		g.CurvePreferences = curveIDsG(k.CCurves)
		g.NextProtos = k.CALPN
		g.SessionTicketsDisabled = k.CNoTickets
		if k.ClientCache && withCache {
			g.ClientSessionCache = gotls.NewLRUClientSessionCache(4)
		}
		cf.gc = g
	} else {
		z := tlspair.BaseClient(k.Seed)
		z.MinVersion, z.MaxVersion = k.CMin, k.CMax
		z.CipherSuites = cp(k.CSuites)
		z.CurvePreferences = curveIDsZ(k.CCurves)
		z.NextProtos = k.CALPN
		z.SessionTicketsDisabled = k.CNoTickets
		z.ForceSuites = k.Force
		if k.ClientCache && withCache {
			cf.zcache = newMapCache()
			z.ClientSessionCache = cf.zcache
		}
		cf.zc = z
	}
	if k.Peer == "zg" {
		g := tlspair.GoServer(k.Seed+7, k.Certs...)
		g.MinVersion, g.MaxVersion = k.SMin, k.SMax
		g.CipherSuites = cp(k.SSuites)
		g.CurvePreferences = curveIDsG(k.SCurves)
		g.NextProtos = k.SALPN
		g.SessionTicketsDisabled = k.SNoTickets
		g.PreferServerCipherSuites = k.PreferServer
		g.SetSessionTicketKeys([][32]byte{k.ticketKey()})
		cf.gs = g
	} else {
		z := tlspair.BaseServer(k.Seed+7, k.Certs...)
		z.MinVersion, z.MaxVersion = k.SMin, k.SMax
		z.CipherSuites = cp(k.SSuites)
		z.CurvePreferences = curveIDsZ(k.SCurves)
		z.NextProtos = k.SALPN
		z.SessionTicketsDisabled = k.SNoTickets
		z.PreferServerCipherSuites = k.PreferServer
		z.SetSessionTicketKeys([][32]byte{k.ticketKey()})
		cf.zs = z
	}
	return cf
}

// ticketKey is the explicit session-ticket key of every server configuration of the case
// (so that a changed configuration for the second connection still opens the first one's tickets).
func (k c24Case) ticketKey() [32]byte {
	var key [32]byte
	tlspair.NewDetRand(k.KeySeed ^ 0x7e57).Read(key[:])
	return key
}

// changed derives the second connection's case from the first connection's outcome.
func (k c24Case) changed(negotiated uint16) c24Case {
	k2 := k
	k2.Seed = k.Seed + 1000
	drop := func(list []uint16, def []uint16) []uint16 {
		if list == nil {
			list = def
		}
		out := []uint16{}
		for _, id := range list {
			if id != negotiated {
				out = append(out, id)
			}
		}
		legacy := 0
		for _, id := range out {
			if !is13Suite(id) {
				legacy++
			}
		}
		if legacy == 0 {
			return list // nothing sensible left: keep
		}
		return out
	}
	for _, ch := range k.Conn2 {
		switch ch {
		case "s_drop_negotiated":
			k2.SSuites = drop(k.SSuites, defaultServerLegacy())
		case "s_regen":
			k2.SSuites = k.SSuites2
		case "s_versions":
			k2.SMin, k2.SMax = k.SMin2, k.SMax2
		case "s_curves":
			k2.SCurves = k.SCurves2
		case "c_drop_negotiated":
			k2.CSuites = drop(k.CSuites, defaultServerLegacy())
		case "c_regen":
			k2.CSuites = k.CSuites2
		case "c_versions":
			k2.CMin, k2.CMax = k.CMin2, k.CMax2
		}
	}
	if k.Peer == "zg" && k2.SSuites == nil {
		k2.SSuites = k.SSuites
	}
	return k2
}

func (cf *c24Configs) run(k c24Case, opt tlspair.Options) *tlspair.Result {
	opt = guarded(opt)
	switch k.Peer {
	case "zz":
		return tlspair.RunZZ(cf.zc, cf.zs, opt)
	case "zg":
		return tlspair.RunZG(cf.zc, cf.gs, opt)
	default:
		return tlspair.RunGZ(cf.gc, cf.zs, opt)
	}
}

// ---------------------------------------------------------------------------
// model

type c24Model struct {
	Class        string // compatible | incompatible | unclear
	Why          string
	V            uint16
	Pred         []uint16 // predicted suites (one per usable server key); exact only if Exact
	Exact        bool
	Mutual       []uint16 // all mutual usable suites
	ALPN         string
	ServerLegacy []uint16 // server's enabled <=1.2 suites (nil = any default)
	Server13     []uint16
	Client13Cfg  []uint16
}

func versionsIn(min, max uint16) []uint16 {
	var out []uint16
	for _, v := range allVersions {
		if v >= min && v <= max {
			out = append(out, v)
		}
	}
	return out
}

func defaultServerLegacy() []uint16 {
	var out []uint16
	for _, v := range ztls.VerifServerSuites() {
		if !v.DefaultOff {
			out = append(out, v.ID)
		}
	}
	return out
}

func enabled13(cfg []uint16) (list []uint16, explicit bool) {
	for _, id := range cfg {
		if is13Suite(id) {
			list = append(list, id)
		}
	}
	if len(list) == 0 {
		return append([]uint16{}, tls13IDs...), false
	}
	return list, true
}

func sharedCurves(a, b []uint16) []uint16 {
	var out []uint16
	for _, x := range a {
		if has16(b, x) {
			out = append(out, x)
		}
	}
	return out
}

func usableWithCert(id uint16, cert string, V uint16, curvesOK bool, peer string) bool {
	si := suiteByID[id]
	if si == nil {
		return false
	}
	if si.TLS12Only && V != v12 {
		return false
	}
	switch si.KX {
	case "rsa":
		return cert == tlspair.RSA2048
	case "ecdhe_rsa":
		return cert == tlspair.RSA2048 && curvesOK
	case "ecdhe_ecdsa":
		if !curvesOK {
			return false
		}
		if cert == tlspair.Ed25519 {
			return V == v12
		}
		return cert == tlspair.P256 || cert == tlspair.P384 || cert == tlspair.P521
	case "dhe_rsa":
		return cert == tlspair.RSA2048 && peer == "zz"
	}
	return false
}

// model computes what the documentation prescribes for the pair, given what the client put on the wire.
func (k c24Case) model(ch helloInfo) c24Model {
	var m c24Model
	cv, sv := versionsIn(k.CMin, k.CMax), versionsIn(k.SMin, k.SMax)
	for _, v := range cv {
		if has16(sv, v) && v > m.V {
			m.V = v
		}
	}
	// ALPN: first of the server's preference that the client lists
	if len(k.CALPN) > 0 {
		for _, s := range k.SALPN {
			if has(k.CALPN, s) {
				m.ALPN = s
				break
			}
		}
	}
	if k.Peer == "zg" {
		m.Server13 = append([]uint16{}, tls13IDs...)
	} else {
		m.Server13, _ = enabled13(k.SSuites)
	}
	if k.Peer != "gz" && !k.Force {
		m.Client13Cfg, _ = enabled13(k.CSuites)
	}
	if k.SSuites == nil {
		m.ServerLegacy = defaultServerLegacy()
	} else {
		for _, id := range k.SSuites {
			if !is13Suite(id) {
				m.ServerLegacy = append(m.ServerLegacy, id)
			}
		}
	}
	if m.V == 0 {
		m.Class, m.Why = "incompatible", "no shared version"
		return m
	}
	sCurves := k.SCurves
	if sCurves == nil {
		sCurves = allCurves
	}
	curves := sharedCurves(ch.Curves, sCurves)
	var wire13, wireLegacy []uint16
	for _, id := range ch.Suites {
		if is13Suite(id) {
			wire13 = append(wire13, id)
		} else if suiteByID[id] != nil {
			wireLegacy = append(wireLegacy, id)
		}
	}
	m.Exact = true
	if m.V == v13 {
		for _, id := range wire13 {
			if has16(m.Server13, id) {
				m.Mutual = append(m.Mutual, id)
			}
		}
		if len(m.Mutual) == 0 {
			m.Class, m.Why = "incompatible", "no shared TLS 1.3 suite"
			return m
		}
		if len(curves) == 0 {
			m.Class, m.Why = "incompatible", "no shared curve"
			return m
		}
		m.Class = "compatible"
		_, sExplicit := enabled13(k.SSuites)
		if k.PreferServer {
			for _, id := range m.Server13 {
				if has16(wire13, id) {
					m.Pred = []uint16{id}
					break
				}
			}
			if !sExplicit || aeadOrderAmbiguous(m.Server13) || k.Peer == "zg" {
				m.Exact = false
			}
		} else {
			m.Pred = []uint16{m.Mutual[0]}
			if aeadOrderAmbiguous(wire13) || k.Peer == "zg" {
				m.Exact = false
			}
		}
		return m
	}
	// TLS <= 1.2
	for _, c := range k.Certs {
		if cc := certCurve(c); cc != 0 && !has16(curves, cc) {
			m.Class, m.Why = "unclear", "ECDSA server key curve not among the curves both sides list"
		}
	}
	pref, other := wireLegacy, m.ServerLegacy
	if k.PreferServer {
		pref, other = m.ServerLegacy, wireLegacy
	}
	seen := map[uint16]bool{}
	for _, cert := range k.Certs {
		first := true
		for _, id := range pref {
			if has16(other, id) && usableWithCert(id, cert, m.V, len(curves) > 0, k.Peer) {
				if first {
					first = false
					if !has16(m.Pred, id) {
						m.Pred = append(m.Pred, id)
					}
				}
				if !seen[id] {
					seen[id] = true
					m.Mutual = append(m.Mutual, id)
				}
			}
		}
	}
	if len(m.Mutual) == 0 {
		if m.Class == "" {
			m.Class, m.Why = "incompatible", "no mutual suite usable with the server key(s) at "+vname(m.V)
		}
		return m
	}
	if m.Class == "" {
		m.Class = "compatible"
	}
	if k.Peer == "zg" {
		m.Exact = false // Go's server orders suites by its own rules
	}
	if k.PreferServer && k.SSuites == nil {
		m.Exact = false
	}
	if !k.PreferServer && aeadOrderAmbiguous(wireLegacy) {
		m.Exact = false
	}
	if len(m.Pred) > 1 {
		m.Exact = false
	}
	return m
}

// ---------------------------------------------------------------------------
// oracle

var reNums = regexp.MustCompile(`\b(0x)?[0-9a-fA-F]*[0-9][0-9a-fA-F]*\b`)

func normErr(e error) string {
	if e == nil {
		return "nil"
	}
	s := e.Error()
	if i := strings.IndexByte(s, '\n'); i >= 0 {
		s = s[:i]
	}
	s = reNums.ReplaceAllString(s, "N")
	s = strings.Join(strings.Fields(s), "_")
	if len(s) > 90 {
		s = s[:90]
	}
	return s
}

var (
	sentinel12 = []byte("DOWNGRD\x01")
	sentinel11 = []byte("DOWNGRD\x00")
)

type c24Obs struct {
	Case   c24Case  `json:"case"`
	Conn   string   `json:"conn"`
	Model  c24Model `json:"model"`
	Client string   `json:"client"`
	Server string   `json:"server"`
	CHello string   `json:"client_hello_suites,omitempty"`
	Note   string   `json:"note,omitempty"`
}

func (k c24Case) checkSentinel(c *core.Ctx, r *tlspair.Result, conn string, mk func(note string) c24Obs) (present bool, vsh uint16, ok bool) {
	sh, found := finalServerHello(r.Tap)
	if !found || len(sh.Random) != 32 {
		return false, 0, false
	}
	vsh = sh.negotiatedVersion()
	tail := sh.Random[24:]
	has12, has11 := bytes.Equal(tail, sentinel12), bytes.Equal(tail, sentinel11)
	present = has12 || has11
	if k.Peer == "zg" {
		return present, vsh, true // Go's server: observed, not asserted
	}
	c.Count("sentinel_checked", 1)
	switch {
	case k.SMax >= v12 && vsh < k.SMax:
		want := sentinel11
		if vsh == v12 {
			want = sentinel12
		}
		if !bytes.Equal(tail, want) {
			c.Violation(fmt.Sprintf("downgrade_sentinel_missing:server_max=%s:negotiated=%s", vname(k.SMax), vname(vsh)),
				fmt.Sprintf("server max %s, ServerHello negotiates %s, random tail %x, want %x", vname(k.SMax), vname(vsh), tail, want), k.ID+"/"+conn, mk("server random "+fmt.Sprintf("%x", sh.Random)))
		} else {
			c.Count("sentinel_present_ok", 1)
		}
	case vsh == k.SMax:
		if present {
			c.Violation(fmt.Sprintf("downgrade_sentinel_spurious:server_max=%s", vname(k.SMax)),
				fmt.Sprintf("negotiated the server's maximum %s but random tail is %x", vname(vsh), tail), k.ID+"/"+conn, mk(""))
		} else {
			c.Count("sentinel_absent_ok", 1)
		}
	default:
		c.Count("sentinel_not_defined(server_max<1.2)", 1)
	}
	return present, vsh, true
}

var ekmLabels = []struct {
	label string
	ctx   []byte
	n     int
}{{"EXPORTER-verif-one", nil, 32}, {"EXPORTER-verif-two", []byte("context"), 48}}

// checkConn applies the oracle to one finished pair run. first is the first connection's outcome when this is the second.
func (k c24Case) checkConn(c *core.Ctx, r *tlspair.Result, conn string, expectResume int, first *side) (cs, ss side, decided bool) {
	id := k.ID + "/" + conn
	cs, ss = clientSide(r), serverSide(r)
	ch, chOK := firstClientHello(r.Tap)
	m := k.model(ch)
	mk := func(note string) c24Obs {
		return c24Obs{Case: k, Conn: conn, Model: m, Client: cs.String(), Server: ss.String(), CHello: hexList(ch.Suites), Note: note}
	}
	c.Eval(1)
	if reportPanics(c, r, id, mk("")) {
		return cs, ss, false
	}
	if r.TimedOut {
		noteWatchdog(c, "C24 "+id)
		return cs, ss, false
	}
	if !chOK || !ch.OK {
		if cs.Err != nil {
			c.Count("client_refused_config", 1)
			return cs, ss, false
		}
		undecided(c, "harness:clienthello_unparsable", "independent parser failed on the tapped ClientHello", id, mk(""))
		return cs, ss, false
	}
	c.Count("class:"+m.Class, 1)

	// what the zcrypto client offered must be enabled in its configuration, in configured order
	if k.Peer != "gz" && k.CSuites != nil && conn != "mitm" {
		var cfgLegacy []uint16
		for _, x := range k.CSuites {
			if !is13Suite(x) {
				cfgLegacy = append(cfgLegacy, x)
			}
		}
		pos := -1
		for _, x := range ch.Suites {
			if is13Suite(x) {
				if !k.Force && !has16(m.Client13Cfg, x) {
					c.Violation("client_offers_disabled_suite:tls13", fmt.Sprintf("ClientHello lists %04x, configured TLS 1.3 suites %s", x, hexList(m.Client13Cfg)), id, mk(""))
				}
				continue
			}
			if x == 0x00ff || x == 0x5600 {
				continue
			}
			p := -1
			for i, y := range cfgLegacy {
				if y == x && i > pos {
					p = i
					break
				}
			}
			if p < 0 {
				if has16(cfgLegacy, x) {
					c.Violation("client_offers_suites_out_of_configured_order", fmt.Sprintf("ClientHello %s vs CipherSuites %s", hexList(ch.Suites), hexList(k.CSuites)), id, mk(""))
				} else {
					c.Violation("client_offers_disabled_suite:legacy", fmt.Sprintf("ClientHello lists %04x, CipherSuites %s", x, hexList(k.CSuites)), id, mk(""))
				}
				break
			}
			pos = p
		}
	}
	// the client must offer exactly its version range
	if k.Peer != "gz" && conn != "mitm" {
		want := versionsIn(k.CMin, k.CMax)
		okv := len(ch.SupVersions) == len(want)
		for _, v := range want {
			if !has16(ch.SupVersions, v) {
				okv = false
			}
		}
		if !okv {
			c.Violation("client_offers_wrong_versions", fmt.Sprintf("supported_versions %s for range %s-%s", hexList(ch.SupVersions), vname(k.CMin), vname(k.CMax)), id, mk(""))
		}
	}

	if conn != "mitm" {
		k.checkSentinel(c, r, conn, mk)
	}

	both := cs.OK && ss.OK
	switch m.Class {
	case "compatible":
		if !both {
			c.Violation(fmt.Sprintf("compatible_pair_failed:%s:%s:c=%s:s=%s", k.Peer, vname(m.V), normErr(cs.Err), normErr(ss.Err)),
				fmt.Sprintf("pair shares %s and suites %s but the handshake failed: client %v / server %v", vname(m.V), hexList(m.Mutual), cs.Err, ss.Err), id, mk(""))
			return cs, ss, true
		}
	case "incompatible":
		if both {
			c.Count("incompatible_but_completed", 1)
		} else {
			c.Count("incompatible_failed_cleanly", 1)
		}
		if cs.OK != ss.OK && conn == "1" {
			// one side believes it completed: only possible in TLS 1.3 (client finishes first); recorded
			c.Count("incompatible_one_sided", 1)
		}
	case "unclear":
		c.Count("unclear:"+m.Why, 1)
	}
	if !both {
		return cs, ss, true
	}

	// ---- agreement and rule checks on a completed handshake
	if !cs.Complete || !ss.Complete {
		c.Violation("handshake_returned_nil_but_incomplete", fmt.Sprintf("client complete=%v server complete=%v", cs.Complete, ss.Complete), id, mk(""))
	}
	if cs.Version != ss.Version {
		c.Violation("version_disagreement:"+k.Peer, fmt.Sprintf("client %s server %s", vname(cs.Version), vname(ss.Version)), id, mk(""))
	}
	if m.V != 0 && conn != "mitm" && (cs.Version != m.V || ss.Version != m.V) {
		c.Violation(fmt.Sprintf("version_not_highest_shared:%s", k.Peer), fmt.Sprintf("negotiated %s/%s, highest shared %s", vname(cs.Version), vname(ss.Version), vname(m.V)), id, mk(""))
	}
	if cs.Suite != ss.Suite {
		c.Violation("suite_disagreement:"+k.Peer, fmt.Sprintf("client %04x server %04x", cs.Suite, ss.Suite), id, mk(""))
	}
	suite := ss.Suite
	vclass := "legacy"
	if ss.Version == v13 {
		vclass = "tls13"
	}
	if is13Suite(suite) != (ss.Version == v13) {
		c.Violation("suite_version_mismatch", fmt.Sprintf("suite %04x at %s", suite, vname(ss.Version)), id, mk(""))
	} else if si := suiteByID[suite]; si != nil && si.TLS12Only && ss.Version < v12 {
		c.Violation("tls12_only_suite_below_tls12", fmt.Sprintf("suite %04x at %s", suite, vname(ss.Version)), id, mk(""))
	}
	if !has16(ch.Suites, suite) {
		c.Violation("suite_not_offered_by_client:"+k.Peer, fmt.Sprintf("suite %04x, ClientHello %s", suite, hexList(ch.Suites)), id, mk(""))
	}
	if k.Peer != "zg" {
		en := m.ServerLegacy
		if vclass == "tls13" {
			en = m.Server13
		}
		if !has16(en, suite) {
			c.Violation(fmt.Sprintf("suite_not_enabled_on_server:%s:%s", vclass, k.Peer),
				fmt.Sprintf("negotiated %04x (%s); server CipherSuites %s enables %s for this version", suite, ztls.CipherSuiteName(suite), hexList(k.SSuites), hexList(en)), id, mk(""))
		}
	}
	if m.Class == "compatible" && conn != "mitm" {
		if !has16(m.Mutual, suite) {
			c.Violation(fmt.Sprintf("suite_outside_mutual_usable_set:%s:%s", vclass, k.Peer), fmt.Sprintf("negotiated %04x, mutual usable %s", suite, hexList(m.Mutual)), id, mk(""))
		} else if m.Exact && !ss.Resumed {
			c.Count("preference_rule_exact_checked", 1)
			if len(m.Pred) != 1 || m.Pred[0] != suite {
				who := "client"
				if k.PreferServer {
					who = "server"
				}
				c.Violation(fmt.Sprintf("preference_rule:%s_order:%s:%s", who, vclass, k.Peer),
					fmt.Sprintf("PreferServerCipherSuites=%v: expected %s, negotiated %04x; ClientHello %s, server %s", k.PreferServer, hexList(m.Pred), suite, hexList(ch.Suites), hexList(k.SSuites)), id, mk(""))
			}
		} else {
			c.Count("preference_rule_membership_only", 1)
		}
	}
	// ALPN
	if cs.ALPN != ss.ALPN {
		c.Violation("alpn_disagreement:"+k.Peer, fmt.Sprintf("client %q server %q", cs.ALPN, ss.ALPN), id, mk(""))
	}
	if k.Peer != "zg" && ss.ALPN != m.ALPN {
		c.Violation("alpn_not_first_server_preference:"+k.Peer, fmt.Sprintf("negotiated %q expected %q (client %v, server %v)", ss.ALPN, m.ALPN, k.CALPN, k.SALPN), id, mk(""))
	}
	// resumption
	if cs.Resumed != ss.Resumed {
		c.Violation("resumption_disagreement:"+k.Peer, fmt.Sprintf("client %v server %v", cs.Resumed, ss.Resumed), id, mk(""))
	}
	if expectResume == -2 && first != nil {
		// changed configurations: resuming is optional, unless the ticket's version (and, up to TLS 1.2, its
		// suite) is no longer enabled on both sides — then the connection must not resume
		expectResume = -1
		if first.Version != m.V {
			expectResume = 0
		} else if first.Version != v13 {
			if !has16(ch.Suites, first.Suite) || (k.Peer != "zg" && !has16(m.ServerLegacy, first.Suite)) || (k.Peer == "zg" && !has16(k.SSuites, first.Suite)) {
				expectResume = 0
			}
		}
		if expectResume == 0 {
			c.Count("conn2_changed_must_not_resume", 1)
		} else {
			c.Count("conn2_changed_may_resume", 1)
			if ss.Resumed {
				c.Count("conn2_changed_resumed", 1)
			}
		}
	}
	switch expectResume {
	case 0:
		if cs.Resumed || ss.Resumed {
			c.Violation("resumed_unexpectedly:"+k.Peer, fmt.Sprintf("client %v server %v", cs.Resumed, ss.Resumed), id, mk(""))
		}
	case 1:
		if !cs.Resumed || !ss.Resumed {
			c.Violation(fmt.Sprintf("did_not_resume:%s:%s", k.Peer, vname(ss.Version)), fmt.Sprintf("tickets enabled on both sides, same configuration, client %v server %v", cs.Resumed, ss.Resumed), id, mk(""))
		}
	}
	if first != nil && ss.Resumed && (ss.Version != first.Version || (ss.Suite != first.Suite && (ss.Version != v13 || len(k.Conn2) == 0))) {
		c.Violation("resumed_with_different_parameters:"+k.Peer, fmt.Sprintf("first %s/%04x resumed %s/%04x", vname(first.Version), first.Suite, vname(ss.Version), ss.Suite), id, mk(""))
	}
	if ss.Resumed {
		c.Count("resumed_connections", 1)
	}
	// exported keying material
	for _, l := range ekmLabels {
		a, ea := cs.ekm(l.label, l.ctx, l.n)
		b, eb := ss.ekm(l.label, l.ctx, l.n)
		if ea != nil || eb != nil {
			if (ea != nil && k.Peer != "gz") || (eb != nil && k.Peer != "zg") {
				c.Violation("ekm_error:"+k.Peer, fmt.Sprintf("client err %v server err %v", ea, eb), id, mk(""))
			} else {
				c.Count("ekm_error_on_go_side", 1)
			}
			continue
		}
		if !bytes.Equal(a, b) || len(a) != l.n {
			c.Violation(fmt.Sprintf("ekm_disagreement:%s:%s", k.Peer, vclass), fmt.Sprintf("label %q: client %x server %x", l.label, a, b), id, mk(""))
		}
	}
	c.Nontrivial(k.canon(), conn)
	c.Count(fmt.Sprintf("cell:%s:%s:%04x", k.Peer, vname(ss.Version), suite), 1)
	c.Count("keys:"+strings.Join(k.Certs, "+"), 1)
	if c.WantSample() && conn == "1" {
		c.Sample(mk(""))
	}
	return cs, ss, true
}

func (k c24Case) runCase(c *core.Ctx) {
	cf := k.build(true)
	r1 := cf.run(k, tlspair.Options{})
	cs1, ss1, decided := k.checkConn(c, r1, "1", 0, nil)
	if decided && cs1.OK && ss1.OK {
		if err := r1.PingPong([]byte("ping-c24"), []byte("pong-c24")); err != nil {
			if reportPanics(c, r1, k.ID+"/1", k) {
			} else if !r1.TimedOut {
				c.Violation("application_data_after_handshake_failed:"+k.Peer, err.Error(), k.ID+"/1", c24Obs{Case: k, Conn: "1", Client: cs1.String(), Server: ss1.String()})
			}
			r1.Close()
		} else {
			r1.Close()
			// second connection: fresh transport; same configurations, or changed ones that keep the
			// ticket keys and the client's session cache
			k2, cf2 := k, cf
			expect := -1
			if len(k.Conn2) > 0 {
				k2 = k.changed(ss1.Suite)
				cf2 = k2.build(true)
				if cf2.zc != nil && cf.zcache != nil {
					cf2.zcache = cf.zcache
					cf2.zc.ClientSessionCache = cf.zcache
				}
				if cf2.gc != nil && cf.gc != nil {
					cf2.gc.ClientSessionCache = cf.gc.ClientSessionCache
				}
				expect = -2 // decided by the oracle from the current configurations
				c.Count("conn2_changed:"+strings.Join(k.Conn2, "+"), 1)
			} else if k.Peer == "zz" {
				if k.ClientCache && !k.CNoTickets && !k.SNoTickets {
					expect = 1
				} else {
					expect = 0
				}
			}
			r2 := cf2.run(k2, tlspair.Options{})
			first := ss1
			cs2, ss2, _ := k2.checkConn(c, r2, "2", expect, &first)
			pp2 := false
			if cs2.OK && ss2.OK {
				if err := r2.PingPong([]byte("ping-2"), []byte("pong-2")); err != nil {
					if !reportPanics(c, r2, k.ID+"/2", k2) {
						c.Violation("application_data_after_handshake_failed:"+k.Peer, err.Error(), k.ID+"/2", c24Obs{Case: k, Conn: "2", Client: cs2.String(), Server: ss2.String()})
					}
				} else {
					pp2 = true
				}
			}
			r2.Close()
			// third connection: the second one ran under changed configurations and did a full handshake, so the
			// ticket it issued describes the second connection; under the same (changed) configurations it must
			// resume with the second connection's parameters (asserted for zcrypto<->zcrypto, agreement otherwise)
			if pp2 && len(k.Conn2) > 0 && !ss2.Resumed && !cs2.Resumed {
				r3 := cf2.run(k2, tlspair.Options{})
				expect3 := -1
				if k.Peer == "zz" {
					expect3 = 1
				}
				second := ss2
				k2.checkConn(c, r3, "3", expect3, &second)
				r3.Close()
				c.Count("conn3_after_full_conn2", 1)
			}
		}
	} else {
		r1.Close()
	}
	if k.MITM != 0 {
		k.runMITM(c)
	}
}

// runMITM: a dry run (no cache) yields the ClientHello layout; the second run rewrites every
// offered version above the target through a netx record filter (plan = data).
func (k c24Case) runMITM(c *core.Ctx) {
	id := k.ID + "/mitm"
	dry := k.build(false).run(k, tlspair.Options{})
	dry.Close()
	var chMsg *hsMsg
	for _, m := range plainHandshake(dry.Tap.Bytes(netx.AtoB), false) {
		if m.Typ == hsClientHello {
			mm := m
			chMsg = &mm
			break
		}
	}
	if chMsg == nil || chMsg.StreamOff != 5 {
		c.Count("mitm_skipped_no_clienthello", 1)
		return
	}
	ch := parseClientHello(chMsg.Body)
	if !ch.OK {
		c.Count("mitm_skipped_no_clienthello", 1)
		return
	}
	T := k.MITM
	var acts []netx.RecordAction
	set := func(bodyOff int) {
		acts = append(acts, netx.RecordAction{Index: 0, Kind: "set", Off: 5 + 4 + bodyOff, Data: []byte{byte(T >> 8), byte(T)}})
	}
	if ch.LegacyVersion > T {
		set(0)
	}
	for i, off := range ch.offSupVersions {
		if i < len(ch.SupVersions) && ch.SupVersions[i] > T {
			set(off)
		}
	}
	if len(acts) == 0 {
		c.Count("mitm_skipped_nothing_to_rewrite", 1)
		return
	}
	flt := &netx.RecordFilter{Actions: acts}
	r := k.build(false).run(k, tlspair.Options{AB: netx.Options{Filter: flt}})
	defer r.Close()
	c.Eval(1)
	cs, ss := clientSide(r), serverSide(r)
	obs := map[string]any{"case": k, "plan": acts, "client": cs.String(), "server": ss.String()}
	if reportPanics(c, r, id, obs) {
		return
	}
	if r.TimedOut {
		noteWatchdog(c, "C24 "+id)
		return
	}
	// sanity: the rewritten hello really offers at most T
	ch2, ok2 := firstClientHello(r.Tap)
	if !ok2 || !ch2.OK {
		undecided(c, "harness:mitm_rewrite_broke_clienthello", "rewritten ClientHello does not parse", id, obs)
		return
	}
	for _, v := range ch2.SupVersions {
		if v > T {
			undecided(c, "harness:mitm_rewrite_incomplete", fmt.Sprintf("supported_versions %s after rewrite to %s", hexList(ch2.SupVersions), vname(T)), id, obs)
			return
		}
	}
	mkObs := func(note string) c24Obs {
		return c24Obs{Case: k, Conn: "mitm", Client: cs.String(), Server: ss.String(), Note: note}
	}
	present, vsh, ok := k.checkSentinel(c, r, "mitm", mkObs)
	if !ok {
		c.Count("mitm_no_serverhello", 1)
		return
	}
	c.Count("mitm_runs_with_serverhello", 1)
	if vsh != T {
		c.Count("mitm_server_chose_other_version", 1)
		return
	}
	if !present {
		c.Count("mitm_no_sentinel(server_max<1.2)", 1)
		return
	}
	if cs.OK || cs.Complete {
		c.Violation(fmt.Sprintf("downgrade_not_detected_by_client:%s:client_max=%s:forced=%s", k.Peer, vname(k.CMax), vname(T)),
			fmt.Sprintf("ServerHello carried the downgrade sentinel, client max %s, forced version %s, client handshake returned %v", vname(k.CMax), vname(T), cs.Err), id, obs)
		return
	}
	// "aborts": the client must stop at the ServerHello, i.e. send no further handshake flight
	sentFlight := false
	for i, rec := range splitRecs(r.Tap.Bytes(netx.AtoB)) {
		if i == 0 {
			continue
		}
		if rec.Typ == recHandshake || rec.Typ == recCCS {
			sentFlight = true
		}
	}
	if k.CMax >= k.SMax {
		if sentFlight {
			c.Violation(fmt.Sprintf("downgrade_detected_late:%s:client_max=%s:forced=%s", k.Peer, vname(k.CMax), vname(T)),
				fmt.Sprintf("client continued the handshake after a ServerHello with the sentinel (error only later: %v)", cs.Err), id, obs)
		} else {
			c.Count("mitm_client_aborted_at_serverhello", 1)
			c.Nontrivial(k.canon(), "mitm")
		}
	} else {
		if sentFlight {
			c.Count("mitm_client_below_server_max_continued", 1)
		} else {
			c.Count("mitm_client_below_server_max_aborted", 1)
		}
	}
}

func runC24(c *core.Ctx) {
	loadSuites()
	for _, n := range suiteNotes {
		c.Note("%s", n)
	}
	c.Count("aes_gcm_hardware", map[bool]int{true: 1, false: 0}[ztls.VerifHasAESGCMHardwareSupport()])
	total := c.Pick(2600, 90000)
	gr := c.GlobalRng("cases")
	for i := 0; i < total; i++ {
		id := fmt.Sprintf("p%05d", i)
		k := genC24(gr, id)
		if i%c.NShards != c.Shard {
			continue
		}
		if c.OnlyCase != "" && !strings.HasPrefix(c.OnlyCase, id) {
			continue
		}
		c.Begin(id, k)
		if pi := core.Guard(func() { k.runCase(c) }); pi != nil {
			c.Violation(pi.Key, pi.Value+"\n"+pi.Stack, id, k)
		}
		c.End(id)
	}
}
