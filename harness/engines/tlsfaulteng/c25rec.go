package tlsfaulteng

// C25, record-level leg (hook /repo/tls/zz_verif_record.go): zcrypto's
// halfConn.encrypt / decrypt for every implemented suite and version against the
// independent reference of refrec.go.

import (
	"bytes"
	"fmt"
	"math/rand/v2"

	ztls "github.com/zmap/zcrypto/tls"

	"verifharness/internal/core"
	"verifharness/internal/tlspair"
)

type recKeys struct {
	mac, key, iv []byte
}

func drawKeys(rng *rand.Rand, p refParams) recKeys {
	r := func(n int) []byte {
		b := make([]byte, n)
		for i := range b {
			b[i] = byte(rng.IntN(256))
		}
		return b
	}
	return recKeys{r(p.macLen), r(p.keyLen), r(p.ivLen)}
}

func seqBytes(n uint64) (s [8]byte) {
	for i := 7; i >= 0; i-- {
		s[i] = byte(n)
		n >>= 8
	}
	return
}

// zPair builds a zcrypto writer and reader state for a cell.
func zHalf(cl cell, k recKeys, isRead bool, seq uint64) (*ztls.VerifHalfConn, error) {
	h, err := ztls.VerifNewHalfConn(cl.Version, cl.Suite, k.mac, k.key, k.iv, isRead)
	if err != nil {
		return nil, err
	}
	h.SetSeq(seqBytes(seq))
	return h, nil
}

func recVersionOf(v uint16) uint16 {
	if v == vTLS13 {
		return vTLS12
	}
	return v
}

// zSeal encrypts payload with zcrypto's halfConn.encrypt the way writeRecordLocked calls it.
func zSeal(h *ztls.VerifHalfConn, version uint16, typ byte, payload []byte, rnd *tlspair.DetRand) ([]byte, error) {
	rv := recVersionOf(version)
	hdr := []byte{typ, byte(rv >> 8), byte(rv), byte(len(payload) >> 8), byte(len(payload))}
	return h.Encrypt(hdr, payload, rnd)
}

func byteClass(cl cell, off, n int) string {
	explicit := 0
	switch {
	case cl.Ref.kind == kindGCM12:
		explicit = 8
	case cl.Ref.kind == kindCBC && cl.Version >= vTLS11:
		explicit = cl.Ref.blockSize()
	}
	switch {
	case off == 0:
		return "hdr-type"
	case off < 3:
		return "hdr-version"
	case off < 5:
		return "hdr-length"
	case off < 5+explicit:
		return "explicit-nonce-or-iv"
	}
	tail := 16
	if cl.Ref.kind == kindStream {
		tail = cl.Ref.macLen
	}
	if cl.Ref.kind == kindCBC {
		tail = cl.Ref.blockSize()
	}
	if off >= n-tail {
		if cl.Ref.kind == kindCBC {
			return "cbc-last-block"
		}
		return "tag-or-mac"
	}
	return "body"
}

func runRecordLevel(c *core.Ctx) {
	cells := recordCells()
	c.Count("record_cells", len(cells))
	rnd := tlspair.NewDetRand(uint64(c.Seed)*977 + uint64(c.Shard))
	sizesFixed := []int{0, 1, 2, 3, 7, 8, 15, 16, 17, 31, 32, 33, 47, 48, 63, 64, 255, 256, 1000, 16383, 16384}
	nRandSizes := c.Pick(6, 60)
	exhaustiveMax := c.Pick(17, 64)
	sampledFlips := c.Pick(24, 200)
	for ci, cl := range cells {
		if ci%c.NShards != c.Shard {
			continue
		}
		if c.OnlyCase != "" && c.OnlyCase != "rec/"+cl.String() {
			continue
		}
		rng := rngFor(c.Seed, "C25rec/"+cl.String())
		keys := drawKeys(rng, cl.Ref)
		cc := cipherClass(cl)
		caseID := "rec/" + cl.String()
		input := map[string]any{"cell": cl.String(), "mac_key": core.FullHex(keys.mac), "key": core.FullHex(keys.key), "iv": core.FullHex(keys.iv)}
		viol := func(key, detail string, extra map[string]any) {
			in := map[string]any{}
			for k, v := range input {
				in[k] = v
			}
			for k, v := range extra {
				in[k] = v
			}
			c.Violation(key, detail, caseID, in)
		}
		sizes := append([]int(nil), sizesFixed...)
		for i := 0; i < nRandSizes; i++ {
			sizes = append(sizes, rng.IntN(ztls.VerifMaxPlaintext+1))
		}
		pi := core.Guard(func() {
			// ---- 1. streams of records in both directions, zcrypto <-> zcrypto and zcrypto <-> reference ----
			zw, err := zHalf(cl, keys, false, 0)
			if err != nil {
				viol("record-hook:"+cc, err.Error(), nil)
				return
			}
			zr, _ := zHalf(cl, keys, true, 0)                                       // reads what zw wrote
			refR, _ := newRefState(cl.Ref, cl.Version, keys.mac, keys.key, keys.iv) // reads what zw wrote
			refW, _ := newRefState(cl.Ref, cl.Version, keys.mac, keys.key, keys.iv) // writes for zr2
			zr2, _ := zHalf(cl, keys, true, 0)
			for si, n := range sizes {
				typ := byte(23)
				if si%5 == 1 {
					typ = 22
				} else if si%11 == 3 {
					typ = 21
				}
				if cl.Version == vTLS13 && n == 0 && typ == 23 && si%2 == 0 {
					typ = 22 // keep some empty handshake-typed records too
				}
				payload := makeStream(uint64(n)*131+uint64(si), n)
				rec, err := zSeal(zw, cl.Version, typ, payload, rnd)
				c.Eval(1)
				if err != nil {
					viol("record-encrypt-error:"+cc, err.Error(), map[string]any{"size": n})
					return
				}
				if got := int(rec[3])<<8 | int(rec[4]); got != len(rec)-5 {
					viol("record-length-field:"+cc, fmt.Sprintf("header says %d, record payload is %d", got, len(rec)-5), map[string]any{"size": n})
				}
				// zcrypto -> reference
				rp, rt, rerr := refR.open(rec)
				if rerr != nil || rt != typ || !bytes.Equal(rp, payload) {
					viol(fmt.Sprintf("record-zcrypto-to-reference:%s:%s", versionName(cl.Version), cc),
						fmt.Sprintf("record %d (size %d, type %d) written by zcrypto: reference reader: err=%v type=%d equal=%v", si, n, typ, rerr, rt, bytes.Equal(rp, payload)),
						map[string]any{"size": n, "record": core.FullHex(rec)})
					return
				}
				// zcrypto -> zcrypto
				zp, zt, zerr := zr.Decrypt(append([]byte(nil), rec...))
				if zerr != nil || zt != typ || !bytes.Equal(zp, payload) {
					viol(fmt.Sprintf("record-roundtrip:%s:%s", versionName(cl.Version), cc),
						fmt.Sprintf("record %d (size %d, type %d): zcrypto reader: err=%v type=%d equal=%v", si, n, typ, zerr, zt, bytes.Equal(zp, payload)),
						map[string]any{"size": n, "record": core.FullHex(rec)})
					return
				}
				if zw.Seq() != seqBytes(uint64(si+1)) || zr.Seq() != seqBytes(uint64(si+1)) {
					viol("record-sequence-not-incremented:"+cc, fmt.Sprintf("after %d records writer seq=%x reader seq=%x", si+1, zw.Seq(), zr.Seq()), nil)
					return
				}
				// reference -> zcrypto (with what the RFCs allow: other explicit IVs, longer CBC padding, TLS 1.3 padding)
				o := sealOpts{padLen: -1}
				if cl.Ref.kind == kindCBC && si%3 == 0 {
					bs := cl.Ref.blockSize()
					minPad := bs - 1 - (n+cl.Ref.macLen)%bs
					o.padLen = minPad + bs*rng.IntN((255-minPad)/bs+1)
				}
				if cl.Ref.kind == kindAEAD13 && si%3 == 0 && n < ztls.VerifMaxPlaintext-300 {
					o.zeroPad13 = rng.IntN(200)
				}
				if cl.Ref.kind == kindGCM12 && si%2 == 0 {
					o.explicit = makeStream(uint64(si)+99, 8)
				}
				if cl.Ref.kind == kindCBC && cl.Version >= vTLS11 && si%2 == 0 {
					o.explicit = makeStream(uint64(si)+77, cl.Ref.blockSize())
				}
				rrec, err := refW.seal(typ, payload, o)
				if err != nil {
					viol("harness:reference-seal", err.Error(), nil)
					return
				}
				zp2, zt2, zerr2 := zr2.Decrypt(append([]byte(nil), rrec...))
				c.Eval(1)
				if zerr2 != nil || zt2 != typ || !bytes.Equal(zp2, payload) {
					viol(fmt.Sprintf("record-reference-to-zcrypto:%s:%s", versionName(cl.Version), cc),
						fmt.Sprintf("record %d (size %d, type %d, padLen %d, tls13 pad %d) written by the reference: zcrypto reader: err=%v type=%d equal=%v", si, n, typ, o.padLen, o.zeroPad13, zerr2, zt2, bytes.Equal(zp2, payload)),
						map[string]any{"size": n, "record": core.FullHex(rrec)})
					return
				}
				c.Nontrivial("rec", cl.String(), n, "roundtrip")
			}
			c.Count("record_roundtrips", 3*len(sizes))

			// ---- 2. tampering: every single-bit flip of short records, sampled flips of long ones; sequence +-1 ----
			for si, n := range sizes {
				seq := uint64(si + 3)
				payload := makeStream(uint64(n)*733+7, n)
				var rec []byte
				if si%2 == 0 {
					w, _ := zHalf(cl, keys, false, seq)
					rec, _ = zSeal(w, cl.Version, 23, payload, rnd)
				} else {
					w, _ := newRefState(cl.Ref, cl.Version, keys.mac, keys.key, keys.iv)
					w.seq = seq
					rec, _ = w.seal(23, payload, sealOpts{padLen: -1})
				}
				if rec == nil {
					continue
				}
				if cl.Ref.kind == kindStream || (cl.Ref.kind == kindCBC && cl.Version < vTLS11) {
					// cipher state is a function of everything sent before: test the first record of a connection
					if seq != 0 {
						seq = 0
						if si%2 == 0 {
							w, _ := zHalf(cl, keys, false, 0)
							rec, _ = zSeal(w, cl.Version, 23, payload, rnd)
						} else {
							w, _ := newRefState(cl.Ref, cl.Version, keys.mac, keys.key, keys.iv)
							rec, _ = w.seal(23, payload, sealOpts{padLen: -1})
						}
					}
				}
				try := func(mut []byte, s uint64) (accepted bool, same bool) {
					rd, _ := zHalf(cl, keys, true, s)
					p, t, err := rd.Decrypt(mut)
					c.Eval(1)
					if err != nil {
						return false, false
					}
					return true, t == 23 && bytes.Equal(p, payload)
				}
				// control: the untouched record is accepted under the right sequence number
				if acc, same := try(append([]byte(nil), rec...), seq); !acc || !same {
					viol(fmt.Sprintf("record-control-rejected:%s:%s", versionName(cl.Version), cc), fmt.Sprintf("untampered record of size %d under seq %d: accepted=%v same=%v", n, seq, acc, same), map[string]any{"size": n, "record": core.FullHex(rec)})
					continue
				}
				var positions []int
				if n <= exhaustiveMax {
					for b := 0; b < len(rec)*8; b++ {
						positions = append(positions, b)
					}
					c.Exhaustive(fmt.Sprintf("single-bit-flips:%s:size<=%d", cl.String(), exhaustiveMax), int64(len(rec)*8))
				} else {
					for i := 0; i < sampledFlips; i++ {
						switch i % 4 {
						case 0:
							positions = append(positions, rng.IntN(5*8)) // header
						case 1:
							positions = append(positions, len(rec)*8-1-rng.IntN(40*8)) // tail: tag / MAC / padding
						case 2:
							positions = append(positions, 5*8+rng.IntN(32*8)) // explicit part, first blocks
						default:
							positions = append(positions, rng.IntN(len(rec)*8))
						}
					}
				}
				for _, b := range positions {
					off := b / 8
					if off == 3 || off == 4 {
						// the length field frames the record; decrypt() is handed the framed record, so a flip here is an end-to-end matter
						continue
					}
					mut := append([]byte(nil), rec...)
					mut[off] ^= 1 << (b % 8)
					acc, same := try(mut, seq)
					c.Count("record_flips", 1)
					if acc {
						key := fmt.Sprintf("record-tamper-accepted:%s:%s:%s", versionName(cl.Version), cc, byteClass(cl, off, len(rec)))
						if same {
							key += ":same-data"
						}
						viol(key, fmt.Sprintf("record of size %d, bit %d of byte %d flipped: decrypt returned no error (data identical: %v)", n, b%8, off, same),
							map[string]any{"size": n, "record": core.FullHex(rec), "flip_byte": off, "flip_bit": b % 8, "seq": seq})
					}
				}
				// sequence continuity: the same record under a neighbouring sequence number must be refused
				{
					for _, s := range []uint64{seq + 1, seq - 1, seq + 255, seq - 255, seq + 256, seq - 256, seq + 510, seq ^ (1 << 40)} {
						if s == seq {
							continue
						}
						if acc, _ := try(append([]byte(nil), rec...), s); acc {
							viol(fmt.Sprintf("record-wrong-sequence-accepted:%s:%s", versionName(cl.Version), cc), fmt.Sprintf("record sealed under seq %d accepted under seq %d", seq, s), map[string]any{"size": n, "record": core.FullHex(rec)})
						}
						c.Count("record_wrong_seq", 1)
					}
				}
				c.Nontrivial("rec", cl.String(), n, "tamper")
			}

			// ---- 2b. the sequence number across byte boundaries: the reference keeps its own uint64 counter ----
			for _, start := range []uint64{0, 0xfe, 0xff, 0xfffe, 0xffff, 0xfffffe, 0xffffff, 0xfffffffe, 0xffffffffff, 0xfffffffffffffe} {
				steps := 4
				if start == 0 {
					steps = 600 // walk from zero through two carries into the second byte
				}
				w, _ := zHalf(cl, keys, false, start)
				rd, _ := zHalf(cl, keys, true, start)
				ref, _ := newRefState(cl.Ref, cl.Version, keys.mac, keys.key, keys.iv)
				ref.seq = start
				for i := 0; i < steps; i++ {
					payload := makeStream(start+uint64(i), 1+i%19)
					rec, err := zSeal(w, cl.Version, 23, payload, rnd)
					if err != nil {
						break
					}
					c.Eval(1)
					want := start + uint64(i)
					ref.seq = want // explicit: the n-th record is protected under sequence number start+n
					rp, rt, rerr := ref.open(rec)
					if rerr != nil || rt != 23 || !bytes.Equal(rp, payload) {
						viol(fmt.Sprintf("record-sequence-number:writer:%s:%s", versionName(cl.Version), cc),
							fmt.Sprintf("record %d after sequence number %#x does not open under sequence number %#x (reference): err=%v; zcrypto's counter now %x", i, start, want, rerr, w.Seq()),
							map[string]any{"start_seq": start, "record_index": i, "record": core.FullHex(rec)})
						break
					}
					if w.Seq() != seqBytes(want+1) {
						viol(fmt.Sprintf("record-sequence-number:counter:%s:%s", versionName(cl.Version), cc),
							fmt.Sprintf("after %d records from %#x the writer's counter is %x, expected %#x", i+1, start, w.Seq(), want+1), map[string]any{"start_seq": start, "record_index": i})
						break
					}
					// the reader side: a record sealed by the reference under start+i must open, and leave the counter at start+i+1
					refW, _ := newRefState(cl.Ref, cl.Version, keys.mac, keys.key, keys.iv)
					refW.seq = want
					if cl.Ref.kind == kindStream || (cl.Ref.kind == kindCBC && cl.Version < vTLS11) {
						continue // chained cipher state: the reader would need the whole history from the reference writer
					}
					rrec, _ := refW.seal(23, payload, sealOpts{padLen: -1})
					zp, _, zerr := rd.Decrypt(append([]byte(nil), rrec...))
					if zerr != nil || !bytes.Equal(zp, payload) || rd.Seq() != seqBytes(want+1) {
						viol(fmt.Sprintf("record-sequence-number:reader:%s:%s", versionName(cl.Version), cc),
							fmt.Sprintf("record %d after sequence number %#x sealed by the reference under %#x: zcrypto reader err=%v, counter now %x", i, start, want, zerr, rd.Seq()),
							map[string]any{"start_seq": start, "record_index": i, "record": core.FullHex(rrec)})
						break
					}
				}
				c.Count("record_sequence_walks", 1)
			}
			c.Nontrivial("rec", cl.String(), 0, "sequence-walk")

			// ---- 3. CBC: padding matrix ----
			if cl.Ref.kind == kindCBC {
				bs := cl.Ref.blockSize()
				for _, n := range []int{0, 1, 5, bs - 1, bs, 3*bs + 2, 200} {
					payload := makeStream(uint64(n)+5, n)
					minPad := bs - 1 - (n+cl.Ref.macLen)%bs
					for padLen := minPad; padLen <= 255; padLen += bs {
						for variant := 0; variant < 5; variant++ {
							o := sealOpts{padLen: padLen}
							want := true
							name := "good"
							switch variant {
							case 1:
								if padLen == 0 {
									continue
								}
								o.badPadAt, want, name = 1+rng.IntN(padLen), false, "bad-padding-byte"
							case 2:
								o.badMAC, want, name = true, false, "bad-mac"
							case 3:
								if padLen == 0 {
									continue
								}
								o.badPadAt, want, name = padLen, false, "bad-first-padding-byte"
							case 4:
								if padLen == 0 {
									continue
								}
								o.badPadAt, o.badMAC, want, name = 1, true, false, "bad-padding-and-mac"
							}
							w, _ := newRefState(cl.Ref, cl.Version, keys.mac, keys.key, keys.iv)
							rec, err := w.seal(23, payload, o)
							if err != nil {
								viol("harness:reference-seal", err.Error(), nil)
								return
							}
							rd, _ := zHalf(cl, keys, true, 0)
							p, t, derr := rd.Decrypt(append([]byte(nil), rec...))
							c.Eval(1)
							c.Count("cbc_padding_cases", 1)
							got := derr == nil
							if got != want || (got && (t != 23 || !bytes.Equal(p, payload))) {
								viol(fmt.Sprintf("cbc-padding:%s:%s:%s:accepted=%v", versionName(cl.Version), cc, name, got),
									fmt.Sprintf("payload %d bytes, padding length byte %d, variant %s: decrypt err=%v", n, padLen, name, derr), map[string]any{"size": n, "record": core.FullHex(rec)})
							}
						}
					}
					// padding length byte pointing beyond the record: flip the last plaintext byte to values >= record length by brute force on the last ciphertext block is not possible
					// without the key, so build it with the reference: MAC over a shorter fragment cannot make it valid; covered by extractPadding below.
					c.Nontrivial("rec", cl.String(), n, "cbc-padding")
				}
			}
		})
		if pi != nil {
			c.Violation("c25-record-"+panicKey(pi), pi.Value+"\n"+pi.Stack, caseID, input)
		}
	}

	// ---- 4. extractPadding against a reference written from RFC 5246 6.2.3.2 ----
	if c.OnlyCase == "" || c.OnlyCase == "rec/extractPadding" {
		rng := c.SubRng("extractPadding")
		n := c.PerShard(c.Pick(40000, 2000000))
		for i := 0; i < n; i++ {
			l := rng.IntN(300)
			if rng.IntN(8) == 0 {
				l = rng.IntN(4)
			}
			b := make([]byte, l)
			for j := range b {
				b[j] = byte(rng.IntN(256))
			}
			if l > 0 {
				// mostly well-formed padding, then perturbed
				p := rng.IntN(l + 3)
				if rng.IntN(5) == 0 {
					p = rng.IntN(256)
				}
				for j := 0; j <= p && j < l; j++ {
					b[l-1-j] = byte(p)
				}
				switch rng.IntN(4) {
				case 0:
					b[l-1-rng.IntN(min(l, p+2))] ^= byte(1 << rng.IntN(8))
				case 1:
					b[rng.IntN(l)] = byte(rng.IntN(256))
				}
			}
			wantGood := false
			wantRemove := 0
			if l >= 1 {
				p := int(b[l-1])
				if p+1 <= l {
					wantGood = true
					for _, x := range b[l-1-p:] {
						if int(x) != p {
							wantGood = false
						}
					}
				}
				if wantGood {
					wantRemove = p + 1
				}
			}
			var rm int
			var good byte
			if pi := core.Guard(func() { rm, good = ztls.VerifExtractPadding(append([]byte(nil), b...)) }); pi != nil {
				c.Violation("c25-extractPadding-"+panicKey(pi), pi.Value, "rec/extractPadding", map[string]any{"payload": core.FullHex(b)})
				continue
			}
			c.Eval(1)
			if (good == 255) != wantGood || (good != 255 && good != 0) || (wantGood && rm != wantRemove) {
				c.Violation(fmt.Sprintf("extractPadding:want-good=%v:got-good=%d", wantGood, good),
					fmt.Sprintf("payload %d bytes: extractPadding = (%d, %d), reference = (%d, %v)", l, rm, good, wantRemove, wantGood), "rec/extractPadding", map[string]any{"payload": core.FullHex(b)})
			}
			if wantGood {
				c.Count("extract_padding_good", 1)
			} else {
				c.Count("extract_padding_bad", 1)
			}
		}
	}
}
