package tlsfaulteng

// Structure map of TLS handshake messages for the scripted peer of C32: where the
// length fields, vector counts and identifiers sit inside a handshake byte
// stream, so that faults can be aimed at them. Lenient: whatever cannot be
// parsed is simply not annotated.

type hsField struct {
	Off  int    // offset in the handshake byte stream
	W    int    // width in bytes
	Kind string // msgtype | msglen | len | id | ver | opaque
	Name string
	Val  int
}

type hsMsg struct {
	Off  int // offset of the message header in the stream
	Len  int // body length
	Type byte
}

type walker struct {
	b      []byte
	pos    int
	end    int
	fields *[]hsField
	bad    bool
}

func (w *walker) left() int { return w.end - w.pos }

func (w *walker) u(n int, kind, name string) int {
	if w.bad || w.left() < n {
		w.bad = true
		return 0
	}
	v := 0
	for i := 0; i < n; i++ {
		v = v<<8 | int(w.b[w.pos+i])
	}
	*w.fields = append(*w.fields, hsField{Off: w.pos, W: n, Kind: kind, Name: name, Val: v})
	w.pos += n
	return v
}

func (w *walker) opaque(n int, name string) {
	if w.bad || w.left() < n {
		w.bad = true
		return
	}
	if n > 0 {
		*w.fields = append(*w.fields, hsField{Off: w.pos, W: n, Kind: "opaque", Name: name})
	}
	w.pos += n
}

// vec reads an n-byte length prefix and returns a walker over the vector body.
func (w *walker) vec(n int, name string) *walker {
	l := w.u(n, "len", name+".len")
	if w.bad || w.left() < l {
		w.bad = true
		return &walker{b: w.b, fields: w.fields, bad: true}
	}
	sub := &walker{b: w.b, pos: w.pos, end: w.pos + l, fields: w.fields}
	w.pos += l
	return sub
}

func (w *walker) extensions(msg string, tls13 bool) {
	if w.left() == 0 {
		return
	}
	exts := w.vec(2, msg+".extensions")
	for !exts.bad && exts.left() > 0 {
		id := exts.u(2, "id", msg+".ext.type")
		body := exts.vec(2, msg+".ext")
		if body.bad {
			return
		}
		switch id {
		case 0: // server_name
			if body.left() > 0 {
				l := body.vec(2, msg+".sni.list")
				for !l.bad && l.left() > 0 {
					l.u(1, "id", msg+".sni.type")
					l.vec(2, msg+".sni.name").opaque(0, "")
				}
			}
		case 10: // supported_groups
			l := body.vec(2, msg+".groups")
			for !l.bad && l.left() >= 2 {
				l.u(2, "id", msg+".group")
			}
		case 11:
			body.vec(1, msg+".point_formats")
		case 13, 50:
			l := body.vec(2, msg+".sigalgs")
			for !l.bad && l.left() >= 2 {
				l.u(2, "id", msg+".sigalg")
			}
		case 16:
			l := body.vec(2, msg+".alpn")
			for !l.bad && l.left() > 0 {
				l.vec(1, msg+".alpn.proto")
			}
		case 43: // supported_versions
			if msg == "ClientHello" {
				l := body.vec(1, msg+".versions")
				for !l.bad && l.left() >= 2 {
					l.u(2, "ver", msg+".version")
				}
			} else {
				body.u(2, "ver", msg+".selected_version")
			}
		case 51: // key_share
			switch {
			case msg == "ClientHello":
				l := body.vec(2, msg+".key_shares")
				for !l.bad && l.left() > 0 {
					l.u(2, "id", msg+".key_share.group")
					ks := l.vec(2, msg+".key_share.key")
					ks.opaque(ks.left(), msg+".key_share.key")
				}
			case body.left() == 2:
				body.u(2, "id", msg+".hrr.group")
			default:
				body.u(2, "id", msg+".key_share.group")
				ks := body.vec(2, msg+".key_share.key")
				ks.opaque(ks.left(), msg+".key_share.key")
			}
		case 45:
			body.vec(1, msg+".psk_modes")
		case 41: // pre_shared_key
			if msg == "ClientHello" {
				ids := body.vec(2, msg+".psk.identities")
				for !ids.bad && ids.left() > 0 {
					ids.vec(2, msg+".psk.identity")
					ids.u(4, "opaque4", msg+".psk.age")
				}
				bs := body.vec(2, msg+".psk.binders")
				for !bs.bad && bs.left() > 0 {
					bs.vec(1, msg+".psk.binder")
				}
			} else {
				body.u(2, "id", msg+".psk.selected")
			}
		case 0xff01:
			body.vec(1, msg+".reneg_info")
		case 18:
			if body.left() > 0 {
				l := body.vec(2, msg+".scts")
				for !l.bad && l.left() > 0 {
					l.vec(2, msg+".sct")
				}
			}
		case 5:
			if msg == "ClientHello" && body.left() >= 5 {
				body.u(1, "id", msg+".status.type")
				body.vec(2, msg+".status.responders")
				body.vec(2, msg+".status.exts")
			} else if body.left() >= 4 {
				body.u(1, "id", msg+".status.type")
				body.vec(3, msg+".status.response")
			}
		case 44:
			body.vec(2, msg+".cookie")
		default:
			body.opaque(body.left(), msg+".ext.body")
		}
	}
}

// annotate walks a handshake byte stream (concatenated handshake fragments of one
// direction). tls13 selects the TLS 1.3 message layouts; tls12sig says whether
// signatures carry a SignatureAndHashAlgorithm (TLS 1.2).
func annotate(stream []byte, tls13, tls12sig bool) (msgs []hsMsg, fields []hsField) {
	pos := 0
	for pos+4 <= len(stream) {
		typ := stream[pos]
		n := int(stream[pos+1])<<16 | int(stream[pos+2])<<8 | int(stream[pos+3])
		fields = append(fields, hsField{Off: pos, W: 1, Kind: "msgtype", Name: "msg.type", Val: int(typ)},
			hsField{Off: pos + 1, W: 3, Kind: "msglen", Name: "msg.len", Val: n})
		if pos+4+n > len(stream) {
			break
		}
		msgs = append(msgs, hsMsg{Off: pos, Len: n, Type: typ})
		w := &walker{b: stream, pos: pos + 4, end: pos + 4 + n, fields: &fields}
		switch typ {
		case 1:
			w.u(2, "ver", "ClientHello.version")
			w.opaque(32, "ClientHello.random")
			w.vec(1, "ClientHello.session_id")
			cs := w.vec(2, "ClientHello.cipher_suites")
			for i := 0; !cs.bad && cs.left() >= 2 && i < 6; i++ {
				cs.u(2, "id", "ClientHello.cipher_suite")
			}
			w.vec(1, "ClientHello.compression")
			w.extensions("ClientHello", tls13)
		case 2:
			w.u(2, "ver", "ServerHello.version")
			w.opaque(32, "ServerHello.random")
			w.vec(1, "ServerHello.session_id")
			w.u(2, "id", "ServerHello.cipher_suite")
			w.u(1, "id", "ServerHello.compression")
			w.extensions("ServerHello", tls13)
		case 4:
			w.u(4, "opaque4", "NewSessionTicket.lifetime")
			if tls13 {
				w.u(4, "opaque4", "NewSessionTicket.age_add")
				w.vec(1, "NewSessionTicket.nonce")
				w.vec(2, "NewSessionTicket.ticket")
				w.extensions("NewSessionTicket", true)
			} else {
				w.vec(2, "NewSessionTicket.ticket")
			}
		case 8:
			w.extensions("EncryptedExtensions", true)
		case 11:
			if tls13 {
				w.vec(1, "Certificate.context")
				l := w.vec(3, "Certificate.list")
				for !l.bad && l.left() > 0 {
					c := l.vec(3, "Certificate.cert")
					c.opaque(c.left(), "Certificate.cert.der")
					l.vec(2, "Certificate.cert.extensions")
				}
			} else {
				l := w.vec(3, "Certificate.list")
				for !l.bad && l.left() > 0 {
					c := l.vec(3, "Certificate.cert")
					c.opaque(c.left(), "Certificate.cert.der")
				}
			}
		case 12:
			if w.left() > 0 && stream[w.pos] == 3 {
				w.u(1, "id", "ServerKeyExchange.curve_type")
				w.u(2, "id", "ServerKeyExchange.curve")
				p := w.vec(1, "ServerKeyExchange.point")
				p.opaque(p.left(), "ServerKeyExchange.point")
			} else {
				w.vec(2, "ServerKeyExchange.dh_p")
				w.vec(2, "ServerKeyExchange.dh_g")
				w.vec(2, "ServerKeyExchange.dh_Ys")
			}
			if tls12sig {
				w.u(2, "id", "ServerKeyExchange.sigalg")
			}
			s := w.vec(2, "ServerKeyExchange.signature")
			s.opaque(s.left(), "ServerKeyExchange.signature")
		case 13:
			if tls13 {
				w.vec(1, "CertificateRequest.context")
				w.extensions("CertificateRequest", true)
			} else {
				w.vec(1, "CertificateRequest.types")
				if tls12sig {
					l := w.vec(2, "CertificateRequest.sigalgs")
					for !l.bad && l.left() >= 2 {
						l.u(2, "id", "CertificateRequest.sigalg")
					}
				}
				l := w.vec(2, "CertificateRequest.CAs")
				for !l.bad && l.left() > 0 {
					l.vec(2, "CertificateRequest.CA")
				}
			}
		case 15:
			if tls13 || tls12sig {
				w.u(2, "id", "CertificateVerify.sigalg")
			}
			s := w.vec(2, "CertificateVerify.signature")
			s.opaque(s.left(), "CertificateVerify.signature")
		case 16:
			if n >= 1 && int(stream[w.pos]) == n-1 {
				p := w.vec(1, "ClientKeyExchange.point")
				p.opaque(p.left(), "ClientKeyExchange.point")
			} else {
				p := w.vec(2, "ClientKeyExchange.encrypted")
				p.opaque(p.left(), "ClientKeyExchange.encrypted")
			}
		case 20:
			w.opaque(w.left(), "Finished.verify_data")
		case 22:
			w.u(1, "id", "CertificateStatus.type")
			w.vec(3, "CertificateStatus.response")
		case 24:
			w.u(1, "id", "KeyUpdate.request")
		}
		pos += 4 + n
	}
	return
}
