package tlsfaulteng

// Independent reference of TLS record protection, written from the RFC texts
// (RFC 2246 §6.2.3, RFC 4346 §6.2.3.2, RFC 5246 §6.2.3, RFC 5288, RFC 7905,
// RFC 8446 §5.2-5.3) on Go's standard primitives. It shares no code with
// zcrypto/tls and is used by C25 (record level) and by C32 (re-encrypting
// mutated handshake messages for the scripted peer).

import (
	"crypto/aes"
	"crypto/cipher"
	"crypto/des"
	"crypto/hmac"
	"crypto/rc4"
	"crypto/sha1"
	"crypto/sha256"
	"crypto/subtle"
	"encoding/binary"
	"errors"
	"hash"

	"golang.org/x/crypto/chacha20poly1305"
)

const (
	vTLS10 = 0x0301
	vTLS11 = 0x0302
	vTLS12 = 0x0303
	vTLS13 = 0x0304
)

// refKind classifies the record protection construction.
type refKind int

const (
	kindStream   refKind = iota // RC4 + HMAC
	kindCBC                     // block cipher in CBC mode + HMAC, implicit IV (1.0) or explicit IV (1.1+)
	kindGCM12                   // AES-GCM, 4-byte salt + 8-byte explicit nonce
	kindChaCha12                // ChaCha20-Poly1305, nonce = iv xor seq
	kindAEAD13                  // TLS 1.3 AEAD, nonce = iv xor seq, inner content type
)

func (k refKind) String() string {
	return [...]string{"stream", "cbc", "gcm12", "chacha12", "aead13"}[k]
}

// refParams describes one suite for the reference.
type refParams struct {
	kind                  refKind
	macLen, keyLen, ivLen int
	chacha                bool // for kindAEAD13: ChaCha20-Poly1305 instead of AES-GCM
	tdes                  bool // for kindCBC: 3DES instead of AES
}

func (p refParams) macHash() func() hash.Hash {
	if p.macLen == 32 {
		return sha256.New
	}
	return sha1.New
}

func (p refParams) blockSize() int {
	if p.tdes {
		return 8
	}
	return 16
}

// refState is one direction of a protected connection.
type refState struct {
	p       refParams
	version uint16
	macKey  []byte
	key, iv []byte
	seq     uint64
	rc4     *rc4.Cipher
	block   cipher.Block
	chainIV []byte // TLS 1.0 CBC: last ciphertext block
	aead    cipher.AEAD
}

func newRefState(p refParams, version uint16, macKey, key, iv []byte) (*refState, error) {
	s := &refState{p: p, version: version, macKey: append([]byte(nil), macKey...), key: append([]byte(nil), key...), iv: append([]byte(nil), iv...)}
	var err error
	switch p.kind {
	case kindStream:
		s.rc4, err = rc4.NewCipher(key)
	case kindCBC:
		if p.tdes {
			s.block, err = des.NewTripleDESCipher(key)
		} else {
			s.block, err = aes.NewCipher(key)
		}
		s.chainIV = append([]byte(nil), iv...)
	case kindGCM12:
		var b cipher.Block
		if b, err = aes.NewCipher(key); err == nil {
			s.aead, err = cipher.NewGCM(b)
		}
	case kindChaCha12:
		s.aead, err = chacha20poly1305.New(key)
	case kindAEAD13:
		if p.chacha {
			s.aead, err = chacha20poly1305.New(key)
		} else {
			var b cipher.Block
			if b, err = aes.NewCipher(key); err == nil {
				s.aead, err = cipher.NewGCM(b)
			}
		}
	}
	return s, err
}

// recVersion is the version carried in the record header.
func (s *refState) recVersion() uint16 {
	if s.version == vTLS13 {
		return vTLS12
	}
	return s.version
}

func (s *refState) mac(typ byte, fragment []byte) []byte {
	h := hmac.New(s.p.macHash(), s.macKey)
	var hdr [13]byte
	binary.BigEndian.PutUint64(hdr[:8], s.seq)
	hdr[8] = typ
	binary.BigEndian.PutUint16(hdr[9:], s.recVersion())
	binary.BigEndian.PutUint16(hdr[11:], uint16(len(fragment)))
	h.Write(hdr[:])
	h.Write(fragment)
	return h.Sum(nil)
}

func (s *refState) xorNonce() []byte {
	n := append([]byte(nil), s.iv...)
	var sq [8]byte
	binary.BigEndian.PutUint64(sq[:], s.seq)
	for i := 0; i < 8; i++ {
		n[len(n)-8+i] ^= sq[i]
	}
	return n
}

// sealOpts tune what the reference sender does within what the RFCs allow (or deliberately outside, for negative tests).
type sealOpts struct {
	explicit     []byte // explicit IV (CBC 1.1+, block size) or explicit nonce (GCM 1.2, 8 bytes); nil = derived from seq
	padLen       int    // CBC: value of the padding length byte; -1 = minimal
	badPadAt     int    // CBC: index (from the end, 1 = last padding byte before the length byte … ) of a padding byte to corrupt; 0 = none
	badMAC       bool   // corrupt the MAC before encryption
	zeroPad13    int    // TLS 1.3: number of zero padding bytes after the content type
	innerTypeOff bool   // TLS 1.3: omit the inner content type (all-zero inner plaintext)
}

func header(typ byte, vers uint16, n int) []byte {
	return []byte{typ, byte(vers >> 8), byte(vers), byte(n >> 8), byte(n)}
}

// seal protects one record and returns header||payload. It advances the sequence number.
func (s *refState) seal(typ byte, fragment []byte, o sealOpts) ([]byte, error) {
	defer func() { s.seq++ }()
	switch s.p.kind {
	case kindStream:
		m := s.mac(typ, fragment)
		if o.badMAC {
			m[0] ^= 0x80
		}
		pt := append(append([]byte(nil), fragment...), m...)
		s.rc4.XORKeyStream(pt, pt)
		return append(header(typ, s.recVersion(), len(pt)), pt...), nil
	case kindCBC:
		bs := s.p.blockSize()
		m := s.mac(typ, fragment)
		if o.badMAC {
			m[0] ^= 0x80
		}
		pt := append(append([]byte(nil), fragment...), m...)
		padLen := o.padLen
		if padLen < 0 {
			padLen = bs - 1 - len(pt)%bs
		}
		if (len(pt)+padLen+1)%bs != 0 {
			return nil, errors.New("ref: padding length does not complete a block")
		}
		for i := 0; i <= padLen; i++ {
			pt = append(pt, byte(padLen))
		}
		if o.badPadAt > 0 && o.badPadAt <= padLen {
			pt[len(pt)-1-o.badPadAt] ^= 0x01
		}
		iv := s.chainIV
		var out []byte
		if s.version >= vTLS11 {
			iv = o.explicit
			if iv == nil {
				iv = make([]byte, bs)
				binary.BigEndian.PutUint64(iv[bs-8:], s.seq^0x5555aaaa5555aaaa)
			}
			if len(iv) != bs {
				return nil, errors.New("ref: explicit IV length")
			}
			out = append(out, iv...)
		}
		ct := make([]byte, len(pt))
		cipher.NewCBCEncrypter(s.block, iv).CryptBlocks(ct, pt)
		if s.version < vTLS11 {
			s.chainIV = append([]byte(nil), ct[len(ct)-bs:]...)
		}
		out = append(out, ct...)
		return append(header(typ, s.recVersion(), len(out)), out...), nil
	case kindGCM12, kindChaCha12:
		var aad [13]byte
		binary.BigEndian.PutUint64(aad[:8], s.seq)
		aad[8] = typ
		binary.BigEndian.PutUint16(aad[9:], s.recVersion())
		binary.BigEndian.PutUint16(aad[11:], uint16(len(fragment)))
		var nonce, out []byte
		if s.p.kind == kindGCM12 {
			exp := o.explicit
			if exp == nil {
				exp = make([]byte, 8)
				binary.BigEndian.PutUint64(exp, s.seq)
			}
			if len(exp) != 8 {
				return nil, errors.New("ref: explicit nonce length")
			}
			nonce = append(append([]byte(nil), s.iv...), exp...)
			out = append(out, exp...)
		} else {
			nonce = s.xorNonce()
		}
		out = s.aead.Seal(out, nonce, fragment, aad[:])
		return append(header(typ, s.recVersion(), len(out)), out...), nil
	case kindAEAD13:
		inner := append([]byte(nil), fragment...)
		if !o.innerTypeOff {
			inner = append(inner, typ)
		}
		inner = append(inner, make([]byte, o.zeroPad13)...)
		n := len(inner) + s.aead.Overhead()
		hdr := header(23, vTLS12, n)
		out := s.aead.Seal(nil, s.xorNonce(), inner, hdr)
		return append(hdr, out...), nil
	}
	return nil, errors.New("ref: unknown kind")
}

var errRefBadRecord = errors.New("ref: bad record")

// open authenticates and decrypts one record (header||payload). The sequence
// number advances only on success. For stream and TLS 1.0 CBC suites the cipher
// state advances regardless, as it would on the wire.
func (s *refState) open(record []byte) (fragment []byte, typ byte, err error) {
	if len(record) < 5 {
		return nil, 0, errRefBadRecord
	}
	typ = record[0]
	payload := append([]byte(nil), record[5:]...)
	switch s.p.kind {
	case kindStream:
		s.rc4.XORKeyStream(payload, payload)
		if len(payload) < s.p.macLen {
			return nil, 0, errRefBadRecord
		}
		n := len(payload) - s.p.macLen
		if subtle.ConstantTimeCompare(s.mac(typ, payload[:n]), payload[n:]) != 1 {
			return nil, 0, errRefBadRecord
		}
		s.seq++
		return payload[:n], typ, nil
	case kindCBC:
		bs := s.p.blockSize()
		iv := s.chainIV
		if s.version >= vTLS11 {
			if len(payload) < bs {
				return nil, 0, errRefBadRecord
			}
			iv, payload = payload[:bs], payload[bs:]
		}
		if len(payload) == 0 || len(payload)%bs != 0 {
			return nil, 0, errRefBadRecord
		}
		last := append([]byte(nil), payload[len(payload)-bs:]...)
		cipher.NewCBCDecrypter(s.block, iv).CryptBlocks(payload, payload)
		if s.version < vTLS11 {
			s.chainIV = last
		}
		padLen := int(payload[len(payload)-1])
		if padLen+1+s.p.macLen > len(payload) {
			return nil, 0, errRefBadRecord
		}
		for _, b := range payload[len(payload)-1-padLen:] {
			if int(b) != padLen {
				return nil, 0, errRefBadRecord
			}
		}
		n := len(payload) - 1 - padLen - s.p.macLen
		if subtle.ConstantTimeCompare(s.mac(typ, payload[:n]), payload[n:n+s.p.macLen]) != 1 {
			return nil, 0, errRefBadRecord
		}
		s.seq++
		return payload[:n], typ, nil
	case kindGCM12, kindChaCha12:
		var nonce []byte
		if s.p.kind == kindGCM12 {
			if len(payload) < 8 {
				return nil, 0, errRefBadRecord
			}
			nonce = append(append([]byte(nil), s.iv...), payload[:8]...)
			payload = payload[8:]
		} else {
			nonce = s.xorNonce()
		}
		if len(payload) < s.aead.Overhead() {
			return nil, 0, errRefBadRecord
		}
		var aad [13]byte
		binary.BigEndian.PutUint64(aad[:8], s.seq)
		aad[8] = typ
		aad[9], aad[10] = record[1], record[2]
		binary.BigEndian.PutUint16(aad[11:], uint16(len(payload)-s.aead.Overhead()))
		pt, err := s.aead.Open(nil, nonce, payload, aad[:])
		if err != nil {
			return nil, 0, errRefBadRecord
		}
		s.seq++
		return pt, typ, nil
	case kindAEAD13:
		if typ != 23 {
			return nil, 0, errRefBadRecord
		}
		pt, err := s.aead.Open(nil, s.xorNonce(), payload, record[:5])
		if err != nil {
			return nil, 0, errRefBadRecord
		}
		i := len(pt) - 1
		for i >= 0 && pt[i] == 0 {
			i--
		}
		if i < 0 {
			return nil, 0, errRefBadRecord
		}
		s.seq++
		return pt[:i], pt[i], nil
	}
	return nil, 0, errors.New("ref: unknown kind")
}
