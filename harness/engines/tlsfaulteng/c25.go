// Package tlsfaulteng monitors C25 (application data arrives intact or not at all),
// C32 (endpoints survive arbitrary peer behaviour) and C34 (concurrent use of a
// connection is safe) of zcrypto/tls.
package tlsfaulteng

// C25, end-to-end leg: for every negotiable (version, suite) cell, real
// connections (zcrypto<->zcrypto, zcrypto<->Go crypto/tls) carry two
// position-dependent byte streams at once, under write-size sequences, read
// segmentation plans and wire faults on post-handshake records. The record-level
// leg lives in c25rec.go.

import (
	"bytes"
	"errors"
	"fmt"
	"io"
	"math/rand/v2"
	"strings"
	"sync"
	"time"

	ztls "github.com/zmap/zcrypto/tls"

	"verifharness/internal/core"
	"verifharness/internal/netx"
	"verifharness/internal/tlspair"
)

func init() {
	core.RegisterMeta("C25", core.Meta{
		Rule: "end-to-end: every negotiable (version, suite) cell of the zcrypto server table + TLS 1.3 suites, pairs zcrypto<->zcrypto and zcrypto<->Go crypto/tls, " +
			"both directions at once, write-size sequences x read segmentation x end-of-stream delivery (last bytes together with io.EOF, with and without close_notify) x TLS 1.3 mid-stream key updates (driver hook) x post-handshake record faults (flip per byte class, set header fields, truncate, drop, dup, swap, replay, insert, garbage, close); " +
			"non-trivial = handshake reached the cell's version and suite and (clean plan: both streams delivered completely and equal | fault plan: the faulted record was reached on the wire); distinct by (pair, cell, plan). " +
			"record level (hook zz_verif_record.go): every implemented suite x version, zcrypto encrypt/decrypt against an independent reference in both directions, " +
			"single-bit flips (exhaustive for short records), sequence number +-1, CBC padding matrix, extractPadding against a reference; non-trivial = (cell, payload size, test class)",
		MinNontrivial:         3000,
		MinNontrivialThorough: 20000,
		Shards:                16,
		Env:                   []string{godebug},
		Assumptions: []string{
			"the in-memory transport delivers bytes in order and unmodified except for the planned faults",
			"Go's crypto/tls is a correct peer for the cross-implementation cells; only the zcrypto side is judged",
			"reference record protection written from RFC 2246/4346/5246/5288/7905/8446 on Go's crypto primitives",
			"plaintext length of CBC records on the wire is only bounded (padding length is not visible); AEAD and stream records are measured exactly",
			"a fault on the last record of a stream (nothing follows) cannot be detected by any receiver before the close; only the prefix rule applies there",
		},
		ChildTimeoutQuick: 900,
	}, runC25)
}

// ---- plans --------------------------------------------------------------------

type segSpec struct {
	Mode string // all | dribble | random | small | hdrbody
	Seed uint64
}

func (s segSpec) fn() netx.Segmenter {
	st := s.Seed | 1
	next := func() uint64 { st = splitmix64(st); return st }
	flip := false
	switch s.Mode {
	case "dribble":
		return func(avail, want int) int { return 1 }
	case "random":
		return func(avail, want int) int {
			m := avail
			if want < m {
				m = want
			}
			return 1 + int(next()%uint64(m))
		}
	case "small":
		return func(avail, want int) int { return 1 + int(next()%17) }
	case "hdrbody":
		return func(avail, want int) int {
			flip = !flip
			if flip {
				return 5
			}
			return avail
		}
	}
	return nil
}

type faultSpec struct {
	Dir   string // AB (client->server) | BA
	Rel   int    // record index relative to the first record after the handshake in that direction
	Kind  string // flip | set | truncate | drop | dup | swapnext | replay | insert | replace_rest | close
	Class string // byte class the offset was chosen for
	Off   int
	Mask  byte
	Data  []byte
	Src   int // replay: relative index of the earlier record that is sent again after record Rel
}

type e2ePlan struct {
	Pair          string // ZZ | ZG | GZ
	Cell          string
	Idx           int
	DynOff        bool
	BeastOff      bool
	EOFHold       [2]int // per direction (client->server, server->client): > 0 = the transport hands the reader its last bytes together with io.EOF (n > 0, io.EOF), keeping that many bytes back until the writer has closed
	NoCloseNotify bool   // the writers end with a transport close only (no close_notify): the last segment is the tail of a data record
	Family        string // "" | many (>= 600 one-record writes per direction, clean) | pair (same, plus a fault that involves two records a fixed distance apart)
	KeyUpdate     int    // TLS 1.3, zcrypto writers: 0 none, 1 KeyUpdate(update_not_requested) between writes, 2 also update_requested (the peer's reader answers)
	Capacity      int
	WritesAB      []int
	WritesBA      []int
	SegAB         segSpec // how the server's transport reads are segmented
	SegBA         segSpec
	ReadSeed      uint64
	Faults        []faultSpec
}

func (p *e2ePlan) id() string { return fmt.Sprintf("e2e/%s/%s/%d", p.Pair, p.Cell, p.Idx) }

func writeSeq(rng *rand.Rand, small bool) []int {
	switch t := rng.IntN(7); {
	case small || t == 0:
		n := 5 + rng.IntN(40)
		out := make([]int, n)
		for i := range out {
			out[i] = rng.IntN(24)
		}
		out[rng.IntN(n)] = 300 + rng.IntN(3000)
		return out
	case t == 1:
		return []int{1, 2, 16383, 16384, 16385}
	case t == 2:
		return []int{100000}
	case t == 3:
		n := 3 + rng.IntN(8)
		out := make([]int, n)
		for i := range out {
			out[i] = rng.IntN(40000)
		}
		return out
	case t == 4:
		return []int{16384, 16384, 1, 16385, 0, 7, 32768, 3}
	case t == 5:
		return []int{150000 + rng.IntN(100000), 1, 16384}
	default:
		n := 2 + rng.IntN(30)
		out := make([]int, n)
		for i := range out {
			switch rng.IntN(4) {
			case 0:
				out[i] = 1 + rng.IntN(4)
			case 1:
				out[i] = 1000 + rng.IntN(3000)
			case 2:
				out[i] = 16380 + rng.IntN(10)
			default:
				out[i] = rng.IntN(9000)
			}
		}
		return out
	}
}

var segModes = []string{"all", "all", "random", "small", "hdrbody", "dribble"}

// genFault draws one fault for a cell.
func genFault(rng *rand.Rand, cl cell, dir string, maxRel int) faultSpec {
	f := faultSpec{Dir: dir, Rel: rng.IntN(maxRel)}
	explicit := 0
	switch {
	case cl.Ref.kind == kindGCM12:
		explicit = 8
	case cl.Ref.kind == kindCBC && cl.Version >= vTLS11:
		explicit = cl.Ref.blockSize()
	}
	tag := 16
	if cl.Ref.kind == kindStream || cl.Ref.kind == kindCBC {
		tag = cl.Ref.macLen
	}
	flipAt := func() {
		f.Mask = byte(1 << rng.IntN(8))
		if rng.IntN(3) == 0 {
			f.Mask = byte(1 + rng.IntN(255))
		}
		classes := []string{"hdr-type", "hdr-version", "hdr-length", "body", "body", "tag-or-mac", "last-byte"}
		if explicit > 0 {
			classes = append(classes, "explicit-nonce-or-iv", "explicit-nonce-or-iv")
		}
		if cl.Ref.kind == kindCBC {
			classes = append(classes, "cbc-last-block", "cbc-first-block")
		}
		f.Class = classes[rng.IntN(len(classes))]
		switch f.Class {
		case "hdr-type":
			f.Off = 0
		case "hdr-version":
			f.Off = 1 + rng.IntN(2)
		case "hdr-length":
			f.Off = 3 + rng.IntN(2)
		case "explicit-nonce-or-iv":
			f.Off = 5 + rng.IntN(explicit)
		case "body":
			f.Off = 5 + explicit + rng.IntN(64)
		case "tag-or-mac":
			f.Off = -1 - rng.IntN(tag)
		case "last-byte":
			f.Off = -1
		case "cbc-last-block":
			f.Off = -1 - rng.IntN(cl.Ref.blockSize())
		case "cbc-first-block":
			f.Off = 5 + explicit + rng.IntN(cl.Ref.blockSize())
		}
	}
	switch k := rng.IntN(20); {
	case k < 9:
		f.Kind = "flip"
		flipAt()
	case k < 11:
		f.Kind = "set"
		switch rng.IntN(4) {
		case 0:
			f.Class, f.Off, f.Data = "hdr-type", 0, []byte{[]byte{20, 21, 22, 24, 0, 0x80}[rng.IntN(6)]}
		case 1:
			f.Class, f.Off, f.Data = "hdr-version", 1, []byte{3, byte(rng.IntN(6))}
		case 2:
			f.Class, f.Off, f.Data = "hdr-length", 3, [][]byte{{0, 0}, {0xff, 0xff}, {0x48, 0x01}, {0, 1}, {0x40, 0x00}}[rng.IntN(5)]
		default:
			f.Class, f.Off, f.Data = "body", 5+explicit+rng.IntN(32), []byte{byte(rng.IntN(256)), byte(rng.IntN(256)), byte(rng.IntN(256))}
		}
	case k < 12:
		f.Kind, f.Off = "truncate", rng.IntN(60)
	case k < 14:
		f.Kind = "drop"
	case k < 16:
		f.Kind = "dup"
	case k < 17:
		f.Kind = "swapnext"
	case k < 18:
		f.Kind = "replay"
		f.Src = 0
		if f.Rel > 0 {
			f.Src = rng.IntN(f.Rel)
		} else {
			f.Rel = 1 + rng.IntN(3)
		}
		f.Off = 1 << 20 // clipped to the end of the record: the earlier record follows it
	case k < 19:
		f.Kind, f.Off = "insert", 5+rng.IntN(40)
		f.Data = make([]byte, 1+rng.IntN(20))
		for i := range f.Data {
			f.Data[i] = byte(rng.IntN(256))
		}
	default:
		if rng.IntN(2) == 0 {
			f.Kind = "close"
		} else {
			f.Kind = "replace_rest"
			f.Data = make([]byte, 1+rng.IntN(400))
			for i := range f.Data {
				f.Data[i] = byte(rng.IntN(256))
			}
		}
	}
	return f
}

// genPlan derives plan idx of a (pair, cell) from the run seed only, so every shard and a replay see the same plan.
// pairDeltas are the record distances of the pair faults: records 255 (or a multiple) apart would share a
// sequence number if the carry into the second byte were lost; 256 and the small ones are the neighbours.
var pairDeltas = []int{255, 256, 510, 1, 2}
var pairKinds = []string{"pair-replace", "pair-dup", "pair-swap"}

// genFamilyPlan builds the plans with several hundred records per direction under one key.
// idx >= 1000: clean "many" plan; idx >= 2000: "pair" plan number idx-2000 (ord selects distance and kind).
func genFamilyPlan(seed int64, pair string, cl cell, idx, ord int) *e2ePlan {
	rng := rngFor(seed, fmt.Sprintf("C25/%s/%s/%d", pair, cl, idx))
	p := &e2ePlan{Pair: pair, Cell: cl.String(), Idx: idx, Family: "many", BeastOff: true}
	p.SegAB = segSpec{[]string{"all", "random", "hdrbody"}[rng.IntN(3)], rng.Uint64()}
	p.SegBA = segSpec{[]string{"all", "random", "hdrbody"}[rng.IntN(3)], rng.Uint64()}
	p.ReadSeed = rng.Uint64()
	n := 620 + rng.IntN(60)
	size := 8 + rng.IntN(24)
	for i := 0; i < n; i++ {
		// one record per write, all of one size, so that a record can stand in for another byte for byte
		p.WritesAB = append(p.WritesAB, size)
		p.WritesBA = append(p.WritesBA, size)
	}
	if idx >= 2000 {
		p.Family = "pair"
		dir := []string{"AB", "BA"}[ord%2]
		delta := pairDeltas[(ord/2)%len(pairDeltas)]
		kind := pairKinds[(ord/10)%len(pairKinds)]
		j := 1 + rng.IntN(60)
		p.Faults = []faultSpec{{Dir: dir, Kind: kind, Src: j, Rel: j + delta, Class: fmt.Sprintf("distance-%d", delta)}}
		if kind == "pair-swap" {
			// the stream first deviates where the later record shows up in place of the earlier one
			p.Faults[0].Rel, p.Faults[0].Src = j, j+delta
		}
	}
	return p
}

func genPlan(seed int64, pair string, cl cell, idx int, clean bool) *e2ePlan {
	rng := rngFor(seed, fmt.Sprintf("C25/%s/%s/%d", pair, cl, idx))
	p := &e2ePlan{Pair: pair, Cell: cl.String(), Idx: idx}
	p.DynOff = rng.IntN(3) == 0
	p.BeastOff = rng.IntN(3) == 0
	if rng.IntN(3) == 0 {
		p.Capacity = []int{1024, 4096, 20000, 65536}[rng.IntN(4)]
	}
	p.SegAB = segSpec{segModes[rng.IntN(len(segModes))], rng.Uint64()}
	p.SegBA = segSpec{segModes[rng.IntN(len(segModes))], rng.Uint64()}
	p.WritesAB = writeSeq(rng, p.SegAB.Mode == "dribble")
	p.WritesBA = writeSeq(rng, p.SegBA.Mode == "dribble")
	p.ReadSeed = rng.Uint64()
	if !clean {
		nf := 1
		if rng.IntN(4) == 0 {
			nf = 2 + rng.IntN(2)
		}
		for i := 0; i < nf; i++ {
			dir := "AB"
			if rng.IntN(2) == 0 {
				dir = "BA"
			}
			// only the direction read by a zcrypto endpoint is judged
			if pair == "ZG" {
				dir = "BA"
			} else if pair == "GZ" {
				dir = "AB"
			}
			f := genFault(rng, cl, dir, 1+rng.IntN(12))
			for clash := true; clash; {
				clash = false
				for _, g := range p.Faults {
					// one fault per record: two actions on one record would override each other
					if g.Dir == f.Dir && (g.Rel == f.Rel || (g.Kind == "swapnext" && g.Rel+1 == f.Rel) || (f.Kind == "swapnext" && f.Rel+1 == g.Rel)) {
						clash = true
						f.Rel++
					}
				}
			}
			p.Faults = append(p.Faults, f)
		}
		// With a bounded pipe, faults in both directions can park both readers in sendAlert behind their own
		// side's writer, which is blocked on the full pipe that the other reader no longer drains: a property of
		// any blocking transport, not of the record layer. Such plans run over the unbounded pipe.
		ab, ba := false, false
		for _, f := range p.Faults {
			if f.Dir == "AB" {
				ab = true
			} else {
				ba = true
			}
		}
		if ab && ba {
			p.Capacity = 0
		}
	}
	if cl.Version == vTLS13 {
		p.KeyUpdate = rng.IntN(3)
		if p.KeyUpdate == 2 {
			p.Capacity = 0 // the answer is written from inside Read: needs a pipe that never blocks the peer's writer for good
		}
	}
	// transport dimension "EOF delivery" (own random stream, so the other draws of a plan do not depend on it)
	r2 := rngFor(seed, fmt.Sprintf("C25eof/%s/%s/%d", pair, cl, idx))
	if r2.IntN(5) < 2 {
		for d := 0; d < 2; d++ {
			switch r2.IntN(4) {
			case 0:
				p.EOFHold[d] = 1 + r2.IntN(8) // the last segment is the tail of a record
			case 1:
				p.EOFHold[d] = 20 + r2.IntN(60) // about one small record or the close_notify
			case 2:
				p.EOFHold[d] = 300 + r2.IntN(3000) // whole record(s) and the close_notify
			}
		}
		p.NoCloseNotify = r2.IntN(3) == 0
		if p.Capacity > 0 && (p.EOFHold[0]*2 > p.Capacity || p.EOFHold[1]*2 > p.Capacity) {
			p.Capacity = 0 // the held tail must fit the pipe
		}
	}
	return p
}

// ---- execution ------------------------------------------------------------------

type recInfo struct {
	typ   byte
	ctLen int
	write int // index of the Write call that emitted it; -1 = handshake / alert / other
}

// dirTrack observes the original records of one direction (before faults).
type dirTrack struct {
	mu       sync.Mutex
	recs     []recInfo
	curWrite int
	filter   *netx.RecordFilter
	replays  []int // indexes into filter.Actions of replay actions
	srcIdx   map[int]int
	saved    map[int][]byte
	effect   map[int]faultEffect // by record index: what the planned action really does to that record
}

// faultEffect says whether a planned action changes the wire at all (a "set" may write the bytes that are
// already there) and whether the record it is attached to still arrives intact (insert/truncate beyond its end).
type faultEffect struct {
	changes bool
	intact  bool
}

func newDirTrack() *dirTrack {
	t := &dirTrack{curWrite: -1, srcIdx: map[int]int{}, saved: map[int][]byte{}, effect: map[int]faultEffect{}}
	t.filter = &netx.RecordFilter{}
	t.filter.OnRecord = func(idx int, rec []byte) {
		t.mu.Lock()
		defer t.mu.Unlock()
		t.recs = append(t.recs, recInfo{typ: rec[0], ctLen: len(rec) - 5, write: t.curWrite})
		for _, a := range t.filter.Actions {
			if a.Index != idx {
				continue
			}
			e := faultEffect{changes: true}
			switch a.Kind {
			case "set":
				e.changes = false
				for j, b := range a.Data {
					if a.Off+j < len(rec) && rec[a.Off+j] != b {
						e.changes = true
					}
				}
			case "insert", "truncate":
				e.intact = a.Off >= len(rec)
			case "dup":
				e.intact = true
			}
			t.effect[idx] = e
		}
		for _, ai := range t.replays {
			a := &t.filter.Actions[ai]
			if idx == t.srcIdx[ai] {
				t.saved[ai] = append([]byte(nil), rec...)
			}
			if idx == a.Index {
				a.Data = t.saved[ai]
			}
		}
	}
	return t
}

// pairFilter sits behind a dirTrack's RecordFilter (which, without actions, hands over whole records) and applies one
// fault that involves two records: lo < hi are absolute record indexes.
//
//	pair-replace: record hi is replaced by a copy of record lo
//	pair-dup:     a copy of record lo is sent in front of record hi
//	pair-swap:    records lo..hi are held back; hi is sent in lo's place and lo in hi's place
type pairFilter struct {
	inner  *netx.RecordFilter
	t      *dirTrack
	kind   string
	lo, hi int
	n      int
	saved  []byte
	held   [][]byte
}

func (f *pairFilter) each(rec []byte) [][]byte {
	i := f.n
	f.n++
	mark := func(at int) {
		f.t.mu.Lock()
		f.t.effect[at] = faultEffect{changes: true}
		f.t.mu.Unlock()
	}
	switch f.kind {
	case "pair-replace", "pair-dup":
		if i == f.lo {
			f.saved = append([]byte(nil), rec...)
		}
		if i == f.hi && f.saved != nil {
			mark(f.hi)
			if f.kind == "pair-replace" {
				return [][]byte{f.saved}
			}
			return [][]byte{f.saved, rec}
		}
	case "pair-swap":
		if i >= f.lo && i < f.hi {
			f.held = append(f.held, append([]byte(nil), rec...))
			return nil
		}
		if i == f.hi && len(f.held) > 0 {
			mark(f.lo)
			out := [][]byte{rec}
			out = append(out, f.held[1:]...)
			out = append(out, f.held[0])
			f.held = nil
			return out
		}
	}
	return [][]byte{rec}
}

func (f *pairFilter) Write(p []byte) [][]byte {
	var out [][]byte
	for _, rec := range f.inner.Write(p) {
		out = append(out, f.each(rec)...)
	}
	return out
}

func (f *pairFilter) Flush() [][]byte {
	out := append([][]byte(nil), f.held...) // fewer records than planned: nothing was reordered
	f.held = nil
	return append(out, f.inner.Flush()...)
}

func (t *dirTrack) setWrite(i int) { t.mu.Lock(); t.curWrite = i; t.mu.Unlock() }
func (t *dirTrack) count() int     { t.mu.Lock(); defer t.mu.Unlock(); return len(t.recs) }

type appEndpoint interface {
	Read([]byte) (int, error)
	Write([]byte) (int, error)
	CloseWrite() error
}

type dirResult struct {
	sent       []byte
	written    int // bytes of Write calls that returned success
	writeErr   error
	closeErr   error
	got        []byte
	readErr    error
	reads      int
	panicked   *core.PanicInfo
	writeEnds  []int // cumulative end offset of each Write call
	keyUpdates int
}

// plaintextLen returns the exact plaintext length of an application data record, or (-1, lowerBound) for CBC.
func plaintextLen(ref refParams, version uint16, ct int) (exact, lower int) {
	switch ref.kind {
	case kindStream:
		return ct - ref.macLen, ct - ref.macLen
	case kindGCM12:
		return ct - 24, ct - 24
	case kindChaCha12:
		return ct - 16, ct - 16
	case kindAEAD13:
		return ct - 17, ct - 17 // zcrypto adds no TLS 1.3 padding; a padded record would only be over-estimated
	default:
		iv := 0
		if version >= vTLS11 {
			iv = ref.blockSize()
		}
		return -1, ct - iv - ref.macLen - 256
	}
}

func cipherClass(cl cell) string {
	s := cl.Ref.kind.String()
	if cl.Ref.kind == kindCBC {
		if cl.Version >= vTLS11 {
			s += "-explicit-iv"
		} else {
			s += "-implicit-iv"
		}
		if cl.Ref.tdes {
			s += "-3des"
		}
	}
	return s
}

func runE2E(c *core.Ctx, cl cell, p *e2ePlan) {
	id := p.id()
	c.Eval(1)
	c.Count("e2e_sessions_"+p.Pair, 1)
	tAB, tBA := newDirTrack(), newDirTrack()
	pfAB, pfBA := &pairFilter{inner: tAB.filter, t: tAB, lo: -1, hi: -1}, &pairFilter{inner: tBA.filter, t: tBA, lo: -1, hi: -1}
	opt := tlspair.Options{
		AB: netx.Options{Filter: pfAB, Segment: p.SegAB.fn(), Capacity: p.Capacity},
		BA: netx.Options{Filter: pfBA, Segment: p.SegBA.fn(), Capacity: p.Capacity},
	}
	seed := hash64(id)
	var r *tlspair.Result
	hsPanic := core.Guard(func() {
		switch p.Pair {
		case "ZZ":
			cc, sc := zClient(cl, seed), zServer(cl, seed+1)
			cc.DynamicRecordSizingDisabled, sc.DynamicRecordSizingDisabled = p.DynOff, p.DynOff
			cc.DisableTLS10BEASTMitigation, sc.DisableTLS10BEASTMitigation = p.BeastOff, p.BeastOff
			r = tlspair.RunZZ(cc, sc, opt)
		case "ZG":
			cc, sc := zClient(cl, seed), gServer(cl, seed+1)
			cc.DynamicRecordSizingDisabled, sc.DynamicRecordSizingDisabled = p.DynOff, p.DynOff
			cc.DisableTLS10BEASTMitigation = p.BeastOff
			r = tlspair.RunZG(cc, sc, opt)
		case "GZ":
			cc, sc := gClient(cl, seed), zServer(cl, seed+1)
			cc.DynamicRecordSizingDisabled, sc.DynamicRecordSizingDisabled = p.DynOff, p.DynOff
			sc.DisableTLS10BEASTMitigation = p.BeastOff
			r = tlspair.RunGZ(cc, sc, opt)
		}
	})
	if hsPanic != nil {
		c.Violation("c25-handshake-"+panicKey(hsPanic), hsPanic.Value+"\n"+hsPanic.Stack, id, p)
		return
	}
	defer r.Close()
	if r.TimedOut {
		c.Count("e2e_handshake_watchdog_inconclusive", 1)
		return
	}
	if r.CErr != nil || r.SErr != nil {
		c.Count("e2e_handshake_failed", 1)
		c.Note("C25 %s: handshake failed: client=%v server=%v", id, r.CErr, r.SErr)
		return
	}
	var vers, suite uint16
	if r.CZ != nil {
		st := r.CZ.ConnectionState()
		vers, suite = st.Version, st.CipherSuite
	} else {
		st := r.SZ.ConnectionState()
		vers, suite = st.Version, st.CipherSuite
	}
	if vers != cl.Version || (suite != cl.Suite && !(p.Pair == "GZ" && cl.Version == vTLS13)) {
		c.Count("e2e_other_cell_negotiated", 1)
		return
	}
	if suite != cl.Suite { // Go client chose among the TLS 1.3 suites: judge the records by what was negotiated
		cl.Suite = suite
		cl.Ref = refParams13(suite)
	}

	// install the faults relative to the first post-handshake record of each direction
	baseAB, baseBA := tAB.count(), tBA.count()
	// from here on no reply depends on the last bytes of a direction: the server's transport reads client->server
	r.B.SetEOFWithData(p.EOFHold[0])
	r.A.SetEOFWithData(p.EOFHold[1])
	for _, f := range p.Faults {
		t, base := tAB, baseAB
		if f.Dir == "BA" {
			t, base = tBA, baseBA
		}
		if strings.HasPrefix(f.Kind, "pair-") {
			pf := pfAB
			if f.Dir == "BA" {
				pf = pfBA
			}
			pf.kind, pf.lo, pf.hi = f.Kind, base+f.Rel, base+f.Src
			if pf.lo > pf.hi {
				pf.lo, pf.hi = pf.hi, pf.lo
			}
			continue
		}
		a := netx.RecordAction{Index: base + f.Rel, Kind: f.Kind, Off: f.Off, Mask: f.Mask, Data: f.Data}
		if f.Kind == "replay" {
			a.Kind = "insert"
			t.replays = append(t.replays, len(t.filter.Actions))
			t.srcIdx[len(t.filter.Actions)] = base + f.Src
		}
		t.filter.Actions = append(t.filter.Actions, a)
	}

	var cEP, sEP appEndpoint
	if r.CZ != nil {
		cEP = r.CZ
	} else {
		cEP = r.CG
	}
	if r.SZ != nil {
		sEP = r.SZ
	} else {
		sEP = r.SG
	}
	resAB := &dirResult{sent: makeStream(seed^0xA, sum(p.WritesAB))}
	resBA := &dirResult{sent: makeStream(seed^0xB, sum(p.WritesBA))}
	var wg sync.WaitGroup
	writer := func(ep appEndpoint, tr *dirTrack, sizes []int, res *dirResult, transport *netx.Conn) {
		defer wg.Done()
		res.panicked = core.Guard(func() {
			off := 0
			for i, n := range sizes {
				if zc, ok := ep.(*ztls.Conn); ok && p.KeyUpdate > 0 && splitmix64(seed^uint64(i)*31+uint64(len(sizes)))%3 == 0 {
					// mid-stream key update (driver hook); its record is not attributed to a Write call
					if err := zc.VerifSendKeyUpdate(p.KeyUpdate == 2 && i%2 == 0); err != nil {
						res.writeErr = fmt.Errorf("key update: %w", err)
						break
					}
					res.keyUpdates++
				}
				tr.setWrite(i)
				k, err := ep.Write(res.sent[off : off+n])
				tr.setWrite(-1)
				if err == nil && k != n {
					err = fmt.Errorf("short write %d of %d without error", k, n)
				}
				if err != nil {
					res.writeErr = err
					break
				}
				off += n
				res.written = off
				res.writeEnds = append(res.writeEnds, off)
			}
			if res.writeErr == nil && !p.NoCloseNotify {
				res.closeErr = ep.CloseWrite()
			}
		})
		// half-close the transport so that the peer's reader always terminates
		transport.CloseWrite()
	}
	reader := func(ep appEndpoint, res *dirResult, expect int, rs uint64) {
		defer wg.Done()
		pi := core.Guard(func() {
			st := rs | 1
			buf := make([]byte, 70000)
			for {
				st = splitmix64(st)
				k := 1 + int(st%70000)
				switch st >> 60 {
				case 0, 1, 2:
					k = 1 + int(st%64)
				case 3, 4:
					k = 1 + int(st%2048)
				}
				n, err := ep.Read(buf[:k])
				res.reads++
				res.got = append(res.got, buf[:n]...)
				if err != nil {
					res.readErr = err
					return
				}
				if len(res.got) > expect+(1<<20) {
					res.readErr = errors.New("harness: reader stopped, far more data than was sent")
					return
				}
			}
		})
		if pi != nil && res.panicked == nil {
			res.panicked = pi
		}
		if res.readErr != io.EOF {
			// the stream is broken: end the session so that every goroutine returns
			r.Close()
		}
	}
	wg.Add(4)
	// results per direction: the writer fills sent/written, the reader got/readErr; panics of either end up in panicked
	rdAB, rdBA := &dirResult{}, &dirResult{}
	go writer(cEP, tAB, p.WritesAB, resAB, r.A)
	go writer(sEP, tBA, p.WritesBA, resBA, r.B)
	go reader(sEP, rdAB, len(resAB.sent), p.ReadSeed)
	go reader(cEP, rdBA, len(resBA.sent), p.ReadSeed^0x77)
	done := make(chan struct{})
	go func() { wg.Wait(); close(done) }()
	if !waitTimeout(done, 120*time.Second) {
		dump := allStacks()
		r.Close()
		c.Count("e2e_watchdog_inconclusive", 1)
		c.Note("C25 %s: watchdog (120 s) fired; plan %+v; goroutines: %s", id, *p, summarizeDump(dump))
		if !waitTimeout(done, 20*time.Second) {
			c.Note("C25 %s: goroutines still running 20 s after the transport was closed (not judged here, see C32/C34)", id)
			return
		}
		return
	}
	resAB.got, resAB.readErr, resAB.reads = rdAB.got, rdAB.readErr, rdAB.reads
	resBA.got, resBA.readErr, resBA.reads = rdBA.got, rdBA.readErr, rdBA.reads
	for _, pi := range []*core.PanicInfo{resAB.panicked, resBA.panicked, rdAB.panicked, rdBA.panicked} {
		if pi != nil {
			c.Violation("c25-"+panicKey(pi), pi.Value+"\n"+pi.Stack, id, p)
			return
		}
	}

	cc := cipherClass(cl)
	reached := 0
	ok := true
	type dirCtx struct {
		name      string
		res       *dirResult
		tr        *dirTrack
		base      int
		zWriter   bool
		zReader   bool
		faultKind string
	}
	dirs := []dirCtx{
		{"client->server", resAB, tAB, baseAB, r.CZ != nil, r.SZ != nil, ""},
		{"server->client", resBA, tBA, baseBA, r.SZ != nil, r.CZ != nil, ""},
	}
	for di := range dirs {
		d := &dirs[di]
		// which fault was reached first in this direction
		firstRel, firstKind, firstClass := -1, "", ""
		for _, f := range p.Faults {
			if (f.Dir == "AB") != (di == 0) {
				continue
			}
			if e, hit := d.tr.effect[d.base+f.Rel]; hit && e.changes && (firstRel < 0 || f.Rel < firstRel) {
				firstRel, firstKind, firstClass = f.Rel, f.Kind, f.Class
			}
		}
		d.faultKind = firstKind
		role := p.Pair + ":" + d.name
		// 1. prefix rule (always)
		if d.zReader || d.zWriter {
			n := len(d.res.got)
			if n > len(d.res.sent) || !bytes.Equal(d.res.got, d.res.sent[:n]) {
				ok = false
				at := 0
				for at < n && at < len(d.res.sent) && d.res.got[at] == d.res.sent[at] {
					at++
				}
				kind := "clean"
				if firstKind != "" {
					kind = firstKind + ":" + firstClass
				}
				c.Violation(fmt.Sprintf("stream-differs:%s:%s:%s:%s", role, versionName(cl.Version), cc, kind),
					fmt.Sprintf("delivered %d bytes, sent %d; first difference at offset %d; reader error: %v; writer error: %v", n, len(d.res.sent), at, d.res.readErr, d.res.writeErr), id, p)
			}
		}
		// 2. clean direction of a clean plan: everything arrives, reader ends with EOF
		if len(p.Faults) == 0 && (d.zReader || d.zWriter) {
			if d.res.writeErr != nil || d.res.closeErr != nil || len(d.res.got) != len(d.res.sent) || d.res.readErr != io.EOF {
				ok = false
				c.Violation(fmt.Sprintf("clean-stream-incomplete:%s:%s:%s", role, versionName(cl.Version), cc),
					fmt.Sprintf("no fault planned; delivered %d of %d bytes; write error %v; CloseWrite error %v; reader error %v", len(d.res.got), len(d.res.sent), d.res.writeErr, d.res.closeErr, d.res.readErr), id, p)
			}
		}
		// 3. after a fault the reader stops in front of the faulted record
		if firstRel >= 0 && d.zReader {
			reached++
			k := d.base + firstRel
			limit, exact := 0, true
			intact := d.tr.effect[k].intact
			for j := d.base; j < len(d.tr.recs) && (j < k || (j == k && intact)); j++ {
				ri := d.tr.recs[j]
				if ri.write < 0 || ri.typ != 23 {
					continue
				}
				if e, _ := plaintextLen(cl.Ref, cl.Version, ri.ctLen); e >= 0 {
					limit += e
				} else {
					exact = false
				}
			}
			if !exact {
				// CBC: bound by the end of the Write call that emitted the faulted record (or the last one before it)
				limit = 0
				for j := k; j >= d.base; j-- {
					if w := d.tr.recs[j].write; w >= 0 {
						if w < len(d.res.writeEnds) {
							limit = d.res.writeEnds[w]
						} else {
							limit = len(d.res.sent)
						}
						break
					}
				}
			}
			if firstKind == "swapnext" && k+1 >= len(d.tr.recs) {
				limit = len(d.res.sent) // nothing followed: not a reordering
			}
			if len(d.res.got) > limit {
				ok = false
				c.Violation(fmt.Sprintf("delivered-past-fault:%s:%s:%s:%s:%s", role, versionName(cl.Version), cc, firstKind, firstClass),
					fmt.Sprintf("fault on post-handshake record %d (%s): at most %d bytes precede it, reader delivered %d before returning %v", firstRel, firstKind, limit, len(d.res.got), d.res.readErr), id, p)
			}
			if d.res.readErr == nil {
				ok = false
				c.Violation("no-error-after-fault:"+role, "reader returned no error", id, p)
			}
			c.Count("e2e_fault_reached_"+firstKind, 1)
			if len(d.res.got) == limit && exact {
				c.Count("e2e_prefix_complete_before_fault", 1)
			}
		}
		// 4. record sizes written by a zcrypto endpoint
		if d.zWriter {
			maxCT := ztls.VerifMaxCiphertext
			if cl.Version == vTLS13 {
				maxCT = ztls.VerifMaxCiphertextTLS13
			}
			total, allExact := 0, true
			for j := d.base; j < len(d.tr.recs); j++ {
				ri := d.tr.recs[j]
				c.Max("record_ciphertext_len", ri.ctLen)
				if ri.ctLen > maxCT {
					ok = false
					c.Violation(fmt.Sprintf("record-ciphertext-too-long:%s:%s", versionName(cl.Version), cc), fmt.Sprintf("record %d carries %d bytes of ciphertext (limit %d)", j, ri.ctLen, maxCT), id, p)
				}
				if ri.write < 0 || ri.typ != 23 {
					continue
				}
				e, lo := plaintextLen(cl.Ref, cl.Version, ri.ctLen)
				if e >= 0 {
					c.Max("record_plaintext_len_exact", e)
					total += e
				} else {
					allExact = false
				}
				if lo > ztls.VerifMaxPlaintext {
					ok = false
					c.Violation(fmt.Sprintf("record-plaintext-too-long:%s:%s", versionName(cl.Version), cc), fmt.Sprintf("application data record %d: ciphertext %d bytes means at least %d plaintext bytes (> 2^14)", j, ri.ctLen, lo), id, p)
				}
			}
			c.Count("records_observed", len(d.tr.recs)-d.base)
			if allExact && len(p.Faults) == 0 && p.KeyUpdate != 2 && d.res.writeErr == nil && total != d.res.written {
				ok = false
				c.Violation(fmt.Sprintf("record-framing-sum:%s:%s", versionName(cl.Version), cc), fmt.Sprintf("application data records carry %d plaintext bytes, Write calls accepted %d", total, d.res.written), id, p)
			}
		}
		c.Count("key_updates_sent", d.res.keyUpdates)
		c.Count("bytes_delivered", len(d.res.got))
		c.Count("read_calls", d.res.reads)
	}
	if len(p.Faults) == 0 {
		if ok {
			c.Nontrivial(id, "clean", fmt.Sprint(p.WritesAB, p.WritesBA, p.SegAB, p.SegBA, p.DynOff, p.Capacity))
			c.Count("e2e_clean_complete", 1)
		}
	} else if reached > 0 {
		var sb strings.Builder
		for _, f := range p.Faults {
			fmt.Fprintf(&sb, "%s%d%s%d/%d;", f.Dir, f.Rel, f.Kind, f.Off, f.Mask)
		}
		c.Nontrivial(id, sb.String())
	} else {
		c.Count("e2e_fault_not_reached", 1)
	}
	if c.WantSample() && c.Shard == 0 {
		c.Sample(map[string]any{"case": id, "writes_c2s": p.WritesAB, "seg_c2s": p.SegAB.Mode, "faults": fmt.Sprintf("%+v", p.Faults),
			"delivered_c2s": len(resAB.got), "err_c2s": errString(resAB.readErr), "delivered_s2c": len(resBA.got), "err_s2c": errString(resBA.readErr)})
	}
}

func sum(a []int) int {
	t := 0
	for _, x := range a {
		t += x
	}
	return t
}

type e2eCase struct {
	pair  string
	cl    cell
	idx   int
	clean bool
}

func runC25(c *core.Ctx) {
	cells := serverCells()
	var cases []e2eCase
	nClean, nFault := c.Pick(6, 200), c.Pick(18, 1300)
	xClean, xFault := c.Pick(2, 60), c.Pick(4, 200)
	for _, cl := range cells {
		for i := 0; i < nClean+nFault; i++ {
			cases = append(cases, e2eCase{"ZZ", cl, i, i < nClean})
		}
		for _, pair := range []string{"ZG", "GZ"} {
			for i := 0; i < xClean+xFault; i++ {
				cases = append(cases, e2eCase{pair, cl, i, i < xClean})
			}
		}
		// more than 600 records per direction under one key: clean (all pairs; a peer with a correct counter
		// notices a lost carry at record 256) and with two-record faults at distances 255, 256, 510, 1, 2
		for _, pair := range []string{"ZZ", "ZG", "GZ"} {
			for i := 0; i < c.Pick(1, 4); i++ {
				cases = append(cases, e2eCase{pair, cl, 1000 + i, true})
			}
		}
		for i := 0; i < c.Pick(3, 30); i++ {
			cases = append(cases, e2eCase{"ZZ", cl, 2000 + i, false})
		}
	}
	c.Count("e2e_cells", len(cells))
	for i, k := range cases {
		if i%c.NShards != c.Shard {
			continue
		}
		p := genPlan(c.Seed, k.pair, k.cl, k.idx, k.clean)
		if k.idx >= 1000 {
			p = genFamilyPlan(c.Seed, k.pair, k.cl, k.idx, i)
		}
		if c.OnlyCase != "" && c.OnlyCase != p.id() {
			continue
		}
		runE2E(c, k.cl, p)
	}
	runRecordLevel(c)
}
