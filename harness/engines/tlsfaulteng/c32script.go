package tlsfaulteng

// Script model of the C32 scripted peer. A recorded genuine transcript of the
// peer's direction is turned into a list of items (content type + plaintext
// fragment + protection epoch); items whose protection can be opened with the
// secrets of the key log are re-sealed after mutation, so that structure-aware
// faults reach the message handlers behind the record protection as well.

import (
	"fmt"
	"math/rand/v2"
)

// item is one record of the peer's script.
type item struct {
	Typ   byte   // content type (the inner one for protected records)
	Ver   uint16 // record header version of the original record
	Frag  []byte // plaintext fragment
	Epoch int    // 0 cleartext; 1 first protected epoch (<=1.2: after ChangeCipherSpec; 1.3: handshake traffic secret); 2+k: 1.3 application traffic secret after k key updates; -1 opaque (Raw is sent as is)
	Raw   []byte
}

// protection knows how to build the record protection states of the peer's direction.
type protection struct {
	version uint16
	suite   uint16
	ref     refParams
	ok      bool
	// <= 1.2
	mac, key, iv []byte
	// 1.3
	hsSecret, appSecret []byte
}

func (p *protection) state(epoch int) *refState {
	if !p.ok || epoch <= 0 {
		return nil
	}
	if p.version == vTLS13 {
		secret := p.hsSecret
		if epoch >= 2 {
			secret = p.appSecret
			for i := 2; i < epoch; i++ {
				secret = nextTrafficSecret13(p.suite, secret)
			}
		}
		k, iv := trafficKeys13(p.suite, secret)
		s, err := newRefState(p.ref, vTLS13, nil, k, iv)
		if err != nil {
			return nil
		}
		return s
	}
	if epoch != 1 {
		return nil
	}
	s, err := newRefState(p.ref, p.version, p.mac, p.key, p.iv)
	if err != nil {
		return nil
	}
	return s
}

// buildItems opens the recorded records of the peer's direction as far as possible.
func buildItems(recs [][]byte, prot *protection) (items []item, opened, opaque int) {
	epoch := 0
	var st1, st2 *refState
	if prot.ok {
		st1 = prot.state(1)
		if prot.version == vTLS13 {
			st2 = prot.state(2)
		}
	}
	dead := false
	for _, r := range recs {
		it := item{Typ: r[0], Ver: uint16(r[1])<<8 | uint16(r[2]), Raw: r}
		switch {
		case dead:
			it.Epoch = -1
		case prot.version == vTLS13:
			if r[0] != 23 {
				it.Frag = append([]byte(nil), r[5:]...)
				break
			}
			if !prot.ok {
				it.Epoch, dead = -1, true
				break
			}
			if epoch < 2 {
				if f, t, err := st1.open(r); err == nil {
					it.Frag, it.Typ, it.Epoch = f, t, 1
					epoch = 1
					break
				}
			}
			if f, t, err := st2.open(r); err == nil {
				it.Frag, it.Typ, it.Epoch = f, t, 2
				epoch = 2
				break
			}
			it.Epoch, dead = -1, true
		default:
			if epoch == 0 {
				it.Frag = append([]byte(nil), r[5:]...)
				if r[0] == 20 {
					epoch = 1
				}
				break
			}
			if !prot.ok {
				it.Epoch, dead = -1, true
				break
			}
			if f, t, err := st1.open(r); err == nil {
				it.Frag, it.Typ, it.Epoch = f, t, 1
				break
			}
			it.Epoch, dead = -1, true
		}
		if it.Epoch > 0 {
			opened++
		} else if it.Epoch < 0 {
			opaque++
		}
		items = append(items, it)
	}
	return
}

// wireRec is one serialised record together with the item it came from.
type wireRec struct {
	b    []byte
	item int
}

// serialise turns items into wire records, sealing protected items in order with fresh states.
func serialise(items []item, prot *protection) []wireRec {
	states := map[int]*refState{}
	var out []wireRec
	for i, it := range items {
		switch {
		case it.Epoch < 0:
			out = append(out, wireRec{append([]byte(nil), it.Raw...), i})
		case it.Epoch == 0:
			out = append(out, wireRec{append(header(it.Typ, it.Ver, len(it.Frag)), it.Frag...), i})
		default:
			st := states[it.Epoch]
			if st == nil {
				st = prot.state(it.Epoch)
				states[it.Epoch] = st
			}
			if st == nil {
				out = append(out, wireRec{append([]byte(nil), it.Raw...), i})
				continue
			}
			rec, err := st.seal(it.Typ, it.Frag, sealOpts{padLen: -1})
			if err != nil {
				out = append(out, wireRec{append([]byte(nil), it.Raw...), i})
				continue
			}
			out = append(out, wireRec{rec, i})
		}
	}
	return out
}

// mutation is the replayable description of one fault plan.
type mutation struct {
	Kind   string `json:"kind"`
	Item   int    `json:"item"`   // index of the first affected item of the original script
	Detail string `json:"detail"` // human readable
	Seed   uint64 `json:"seed"`
}

var (
	interestingU16 = []int{0, 1, 2, 0x0017, 0x0018, 0x0019, 0x001d, 0x001e, 0x0100, 0x0300, 0x0301, 0x0302, 0x0303, 0x0304, 0x0305, 0x7f1c, 0x0401, 0x0403, 0x0804, 0x0807, 0x0201, 0x0203,
		0x1301, 0x1302, 0x1303, 0xc02f, 0xc02b, 0x002f, 0x0005, 0x00ff, 0x5600, 0xff01, 0x002b, 0x0033, 0x0029, 0x000a, 0x000d, 0x0010, 0x0005, 0x0012, 0x0017, 0x0023, 0xffff, 0x8000}
	alertDescs = []byte{0, 10, 20, 21, 22, 30, 40, 41, 42, 43, 44, 45, 46, 47, 48, 49, 50, 51, 60, 70, 71, 80, 86, 90, 100, 109, 110, 112, 116, 120, 255}
)

func putUint(b []byte, v int) {
	for i := len(b) - 1; i >= 0; i-- {
		b[i] = byte(v)
		v >>= 8
	}
}

func randBytes(rng *rand.Rand, n int) []byte {
	b := make([]byte, n)
	for i := range b {
		b[i] = byte(rng.IntN(256))
	}
	return b
}

// mutate applies one randomly drawn fault plan to the script. It returns the new items,
// wire-level edits to apply after serialisation, the index (in the new item list) of the
// first affected record, and the description.
type wireEdit struct {
	rec  int    // index of the wire record (== index in the new item list)
	kind string // flip | set | truncate | oversize | insertraw | replace_rest
	off  int
	mask byte
	data []byte
}

func mutate(rng *rand.Rand, orig []item, prot *protection, tls13, tls12sig bool) (items []item, edits []wireEdit, first int, m mutation) {
	items = make([]item, len(orig))
	for i := range orig {
		items[i] = orig[i]
		items[i].Frag = append([]byte(nil), orig[i].Frag...)
	}
	n := len(items)
	k := rng.IntN(n)
	m.Item = k
	first = k
	mkItem := func(typ byte, frag []byte, like int) item {
		// a new record protected like item 'like' (or cleartext when that one is opaque)
		e, v := 0, uint16(vTLS12)
		if like >= 0 && like < len(orig) {
			e, v = orig[like].Epoch, orig[like].Ver
			if e < 0 {
				e = 0
			}
		}
		if rng.IntN(6) == 0 {
			e = 0 // sometimes in the clear even though protection is on
		}
		return item{Typ: typ, Ver: v, Frag: frag, Epoch: e}
	}
	insertAt := func(at int, its ...item) {
		items = append(items[:at], append(append([]item(nil), its...), items[at:]...)...)
	}
	switch kind := rng.IntN(100); {
	case kind < 8:
		m.Kind = "wire-flip"
		cls := rng.IntN(5)
		off := 0
		switch cls {
		case 0:
			off = 0
		case 1:
			off = 1 + rng.IntN(2)
		case 2:
			off = 3 + rng.IntN(2)
		default:
			off = 5 + rng.IntN(1<<14)
		}
		mask := byte(1 << rng.IntN(8))
		if rng.IntN(3) == 0 {
			mask = byte(1 + rng.IntN(255))
		}
		edits = append(edits, wireEdit{rec: k, kind: "flip", off: off, mask: mask})
		m.Detail = fmt.Sprintf("record %d byte %d xor %02x", k, off, mask)
	case kind < 13:
		m.Kind = "wire-set-header"
		var data []byte
		off := 0
		switch rng.IntN(3) {
		case 0:
			off, data = 0, []byte{[]byte{20, 21, 22, 23, 24, 25, 0, 0x80, 0xff, 1}[rng.IntN(10)]}
		case 1:
			off, data = 1, [][]byte{{3, 0}, {3, 1}, {3, 3}, {3, 4}, {3, 5}, {2, 0}, {0, 0}, {0xff, 0xff}, {0x10, 0}, {0x7f, 0x1c}}[rng.IntN(10)]
		default:
			l := len(items[k].Frag)
			off, data = 3, [][]byte{{0, 0}, {0, 1}, {byte((l - 1) >> 8), byte(l - 1)}, {byte((l + 1) >> 8), byte(l + 1)}, {0x40, 0x01}, {0x48, 0x00}, {0x48, 0x01}, {0xff, 0xff}, {0x80, 0x00}}[rng.IntN(9)]
		}
		edits = append(edits, wireEdit{rec: k, kind: "set", off: off, data: data})
		m.Detail = fmt.Sprintf("record %d header bytes at %d := %x", k, off, data)
	case kind < 17:
		m.Kind = "wire-truncate-close"
		off := rng.IntN(6)
		if rng.IntN(2) == 0 {
			off = rng.IntN(1 << 14)
		}
		edits = append(edits, wireEdit{rec: k, kind: "truncate", off: off})
		m.Detail = fmt.Sprintf("script ends inside record %d after %d bytes (mod length), then close", k, off)
	case kind < 19:
		m.Kind = "drop-record"
		items = append(items[:k], items[k+1:]...)
		m.Detail = fmt.Sprintf("record %d dropped", k)
		if k >= len(items) {
			first = len(items) - 1
		}
	case kind < 21:
		m.Kind = "dup-record"
		insertAt(k, items[k])
		first = k + 1
		m.Detail = fmt.Sprintf("record %d sent twice", k)
	case kind < 23:
		m.Kind = "swap-records"
		if k+1 < n {
			items[k], items[k+1] = items[k+1], items[k]
		}
		m.Detail = fmt.Sprintf("records %d and %d swapped", k, k+1)
	case kind < 25:
		m.Kind = "wire-insert-raw"
		data := randBytes(rng, 1+rng.IntN(60))
		if rng.IntN(2) == 0 {
			data = append([]byte{byte(20 + rng.IntN(4)), 3, byte(rng.IntN(5))}, data...)
		}
		edits = append(edits, wireEdit{rec: k, kind: "insertraw", data: data})
		m.Detail = fmt.Sprintf("%d raw bytes in front of record %d", len(data), k)
	case kind < 28:
		m.Kind = "wire-replace-rest"
		edits = append(edits, wireEdit{rec: k, kind: "replace_rest", data: randBytes(rng, 1+rng.IntN(3000))})
		m.Detail = fmt.Sprintf("everything from record %d on replaced by random bytes", k)
	case kind < 30:
		m.Kind = "wire-oversize"
		l := []int{16385, 16384 + 257, 16384 + 2049, 18433, 20000, 65535}[rng.IntN(6)]
		edits = append(edits, wireEdit{rec: k, kind: "oversize", off: l})
		m.Detail = fmt.Sprintf("record %d: length field %d with that many bytes", k, l)
	case kind < 37:
		m.Kind = "inject-alert"
		lvl := byte(1 + rng.IntN(2))
		if rng.IntN(8) == 0 {
			lvl = byte(rng.IntN(256))
		}
		frag := []byte{lvl, alertDescs[rng.IntN(len(alertDescs))]}
		switch rng.IntN(8) {
		case 0:
			frag = frag[:1]
		case 1:
			frag = append(frag, 0)
		}
		insertAt(k, mkItem(21, frag, k))
		m.Detail = fmt.Sprintf("alert %x in front of record %d", frag, k)
	case kind < 45:
		m.Kind = "inject-record"
		var it item
		var what string
		switch rng.IntN(9) {
		case 0:
			it, what = mkItem(20, []byte{1}, k), "ChangeCipherSpec"
		case 1:
			it, what = mkItem(20, []byte{byte(rng.IntN(256)), 1}, k), "malformed ChangeCipherSpec"
		case 2:
			it, what = mkItem(byte(20+rng.IntN(4)), nil, k), "zero-length record"
		case 3:
			it, what = mkItem(23, randBytes(rng, rng.IntN(40)), k), "application data"
		case 4:
			it, what = mkItem(22, []byte{0, 0, 0, 0}, k), "HelloRequest"
		case 5:
			it, what = mkItem(22, []byte{24, 0, 0, 1, byte(rng.IntN(3))}, k), "KeyUpdate"
		case 6:
			it, what = mkItem(22, append([]byte{byte(rng.IntN(256)), 0, 0, byte(rng.IntN(20))}, randBytes(rng, rng.IntN(20))...), k), "unknown/short handshake message"
		case 7:
			it, what = mkItem(22, []byte{byte(rng.IntN(25))}, k), "1-byte handshake fragment"
		default:
			it, what = mkItem(22, []byte{11, 0xff, 0xff, 0xff}, k), "handshake header announcing 16 MB"
		}
		insertAt(k, it)
		m.Detail = fmt.Sprintf("%s (epoch %d) in front of record %d", what, it.Epoch, k)
	case kind < 47:
		m.Kind = "inject-empty-flood"
		typ := byte(23)
		if rng.IntN(3) == 0 {
			typ = 21
		}
		var fl []item
		cnt := 10 + rng.IntN(30)
		for i := 0; i < cnt; i++ {
			it := mkItem(typ, nil, k)
			if typ == 21 {
				it.Frag = []byte{1, byte(rng.IntN(120))}
			}
			fl = append(fl, it)
		}
		insertAt(k, fl...)
		m.Detail = fmt.Sprintf("%d empty/warning records of type %d in front of record %d", cnt, typ, k)
	case kind < 51:
		m.Kind = "split-record"
		if it := items[k]; it.Epoch >= 0 && len(it.Frag) >= 2 {
			at := 1 + rng.IntN(len(it.Frag)-1)
			if rng.IntN(3) == 0 {
				at = 1 + rng.IntN(min(4, len(it.Frag)-1))
			}
			a, b := it, it
			a.Frag, b.Frag = it.Frag[:at], it.Frag[at:]
			items[k] = a
			insertAt(k+1, b)
			m.Detail = fmt.Sprintf("record %d split at %d", k, at)
		}
	case kind < 53:
		m.Kind = "coalesce-records"
		if k+1 < n && items[k].Epoch >= 0 && items[k].Epoch == items[k+1].Epoch && items[k].Typ == items[k+1].Typ {
			items[k].Frag = append(items[k].Frag, items[k+1].Frag...)
			items = append(items[:k+1], items[k+2:]...)
			m.Detail = fmt.Sprintf("records %d and %d merged", k, k+1)
		}
	default:
		// structure-aware edit inside a handshake item whose plaintext is available
		var cands []int
		for i, it := range items {
			if it.Typ == 22 && it.Epoch >= 0 && len(it.Frag) >= 4 {
				cands = append(cands, i)
			}
		}
		if len(cands) == 0 {
			m.Kind = "none"
			return
		}
		// key exchange, hello and certificate messages carry the peer-controlled lengths: prefer them over Finished etc.
		var weighted []int
		for _, i := range cands {
			w := 1
			switch items[i].Frag[0] {
			case 12, 16:
				w = 6
			case 1, 2, 11, 13:
				w = 4
			case 4, 8, 15:
				w = 3
			}
			for j := 0; j < w; j++ {
				weighted = append(weighted, i)
			}
		}
		k = weighted[rng.IntN(len(weighted))]
		m.Item, first = k, k
		frag := items[k].Frag
		msgs, fields := annotate(frag, tls13, tls12sig)
		if kind < 80 && len(fields) > 0 {
			var wf []int
			for i, f := range fields {
				w := 1
				switch f.Kind {
				case "len":
					w = 4
				case "id":
					w = 2
				}
				for j := 0; j < w; j++ {
					wf = append(wf, i)
				}
			}
			f := fields[wf[rng.IntN(len(wf))]]
			m.Kind = "hs-field:" + f.Kind
			switch f.Kind {
			case "len", "msglen":
				max := 1<<(8*f.W) - 1
				vals := []int{0, 1, f.Val - 1, f.Val + 1, max, f.Val / 2, f.Val ^ (1 << rng.IntN(8*f.W)), max - 1, f.Val * 2, len(frag) - f.Off, len(frag) - f.Off - f.W + 1, f.Val + 2 + rng.IntN(300)}
				v := vals[rng.IntN(len(vals))]
				if v < 0 {
					v = max
				}
				putUint(frag[f.Off:f.Off+f.W], v)
				m.Detail = fmt.Sprintf("record %d: %s %d -> %d", k, f.Name, f.Val, v&max)
			case "id", "ver", "msgtype":
				v := interestingU16[rng.IntN(len(interestingU16))]
				if f.W == 1 {
					v = rng.IntN(256)
					if f.Kind == "msgtype" {
						v = []int{0, 1, 2, 4, 5, 8, 11, 12, 13, 14, 15, 16, 20, 22, 24, 25, 254, 255}[rng.IntN(18)]
					}
				} else if rng.IntN(4) == 0 {
					v = rng.IntN(65536)
				}
				putUint(frag[f.Off:f.Off+f.W], v)
				m.Detail = fmt.Sprintf("record %d: %s %#x -> %#x", k, f.Name, f.Val, v)
			default:
				o := f.Off + rng.IntN(f.W)
				mask := byte(1 + rng.IntN(255))
				frag[o] ^= mask
				m.Detail = fmt.Sprintf("record %d: %s byte %d xor %02x", k, f.Name, o-f.Off, mask)
			}
		} else if len(msgs) > 0 {
			mi := msgs[rng.IntN(len(msgs))]
			body := append([]byte(nil), frag[mi.Off+4:mi.Off+4+mi.Len]...)
			pre, post := append([]byte(nil), frag[:mi.Off]...), append([]byte(nil), frag[mi.Off+4+mi.Len:]...)
			hdr := func(t byte, l int) []byte { return []byte{t, byte(l >> 16), byte(l >> 8), byte(l)} }
			var repl []byte
			switch rng.IntN(9) {
			case 6, 7, 8:
				m.Kind = "hs-msg-degenerate"
				alts := degenerateBodies(mi.Type, tls13, tls12sig, body)
				if len(alts) == 0 {
					alts = [][]byte{{}}
				}
				nb := alts[rng.IntN(len(alts))]
				repl = append(hdr(mi.Type, len(nb)), nb...)
			case 0:
				m.Kind, repl = "hs-msg-delete", nil
			case 1:
				m.Kind = "hs-msg-duplicate"
				repl = append(append(hdr(mi.Type, mi.Len), body...), append(hdr(mi.Type, mi.Len), body...)...)
			case 2:
				m.Kind = "hs-msg-truncate-consistent"
				cut := rng.IntN(mi.Len + 1)
				// mostly at or next to a field boundary of the message
				var bounds []int
				for _, f := range fields {
					if f.Off >= mi.Off+4 && f.Off+f.W <= mi.Off+4+mi.Len {
						bounds = append(bounds, f.Off-mi.Off-4, f.Off+f.W-mi.Off-4)
					}
				}
				if len(bounds) > 0 && rng.IntN(4) != 0 {
					cut = bounds[rng.IntN(len(bounds))] + rng.IntN(3) - 1
					if cut < 0 {
						cut = 0
					}
					if cut > mi.Len {
						cut = mi.Len
					}
				}
				repl = append(hdr(mi.Type, cut), body[:cut]...)
			case 3:
				m.Kind = "hs-msg-empty"
				repl = hdr(mi.Type, 0)
			case 4:
				m.Kind = "hs-msg-extend-consistent"
				extra := randBytes(rng, 1+rng.IntN(40))
				repl = append(hdr(mi.Type, mi.Len+len(extra)), append(body, extra...)...)
			default:
				m.Kind = "hs-msg-random-body"
				repl = append(hdr(mi.Type, mi.Len), randBytes(rng, mi.Len)...)
			}
			items[k].Frag = append(append(pre, repl...), post...)
			m.Detail = fmt.Sprintf("record %d: handshake message type %d (%d bytes): %s", k, mi.Type, mi.Len, m.Kind)
			if len(items[k].Frag) == 0 {
				items = append(items[:k], items[k+1:]...)
				if k >= len(items) {
					first = len(items) - 1
				}
			}
		} else {
			m.Kind = "none"
		}
	}
	if m.Detail == "" {
		m.Kind = "none"
	}
	if first < 0 {
		first = 0
	}
	return
}

// applyEdits applies the wire-level edits; it returns the chunks to send, the index of the
// chunk where the fault starts and whether the script ends with a cut record.
func applyEdits(w []wireRec, edits []wireEdit) (chunks [][]byte) {
	for _, r := range w {
		chunks = append(chunks, r.b)
	}
	for _, e := range edits {
		if e.rec >= len(chunks) {
			continue
		}
		b := chunks[e.rec]
		switch e.kind {
		case "flip":
			if len(b) > 0 {
				off := e.off
				if off >= 5 && len(b) > 5 {
					off = 5 + (off-5)%(len(b)-5)
				}
				b[off%len(b)] ^= e.mask
			}
		case "set":
			for j, x := range e.data {
				if e.off+j < len(b) {
					b[e.off+j] = x
				}
			}
		case "truncate":
			chunks[e.rec] = b[:e.off%(len(b)+1)]
			chunks = chunks[:e.rec+1]
		case "oversize":
			nb := append([]byte(nil), b...)
			for len(nb) < 5+e.off {
				nb = append(nb, byte(len(nb)*7))
			}
			nb = nb[:5+e.off]
			nb[3], nb[4] = byte(e.off>>8), byte(e.off)
			chunks[e.rec] = nb
		case "insertraw":
			chunks[e.rec] = append(append([]byte(nil), e.data...), b...)
		case "replace_rest":
			chunks[e.rec] = e.data
			chunks = chunks[:e.rec+1]
		}
	}
	return
}

// degenerateBodies returns well-formed but minimal / empty variants of a handshake message body:
// the framing is consistent, so the message handlers behind the parsers see them.
func degenerateBodies(typ byte, tls13, tls12sig bool, body []byte) [][]byte {
	switch typ {
	case 2: // ServerHello without extensions, with an empty extension block
		if len(body) >= 35 {
			n := 35 + int(body[34]) + 3
			if n <= len(body) {
				return [][]byte{append([]byte(nil), body[:n]...), append(append([]byte(nil), body[:n]...), 0, 0)}
			}
		}
	case 4:
		if tls13 {
			return [][]byte{{0, 0, 0, 0, 0, 0, 0, 0, 0, 0, 0, 0, 0}, {0, 0, 0, 1, 0, 0, 0, 0, 0, 0, 1, 7, 0, 0}, {0xff, 0xff, 0xff, 0xff, 0, 0, 0, 0, 1, 0, 0, 1, 7, 0, 0}}
		}
		return [][]byte{{0, 0, 0, 0, 0, 0}, {0, 0, 0, 1, 0, 1, 7}}
	case 8:
		return [][]byte{{0, 0}, {}}
	case 11:
		if tls13 {
			return [][]byte{{0, 0, 0, 0}, {0, 0, 0, 5, 0, 0, 0, 0, 0}, {1, 7, 0, 0, 0}, {0, 0, 0, 6, 0, 0, 1, 0x30, 0, 0}}
		}
		return [][]byte{{0, 0, 0}, {0, 0, 3, 0, 0, 0}, {0, 0, 4, 0, 0, 1, 0x30}}
	case 12:
		return [][]byte{{}, {3, 0, 23, 0, 0, 0}, {3, 0, 29, 0, 4, 1, 0, 0}, {3, 0, 23, 200, 4}, {3, 0, 29, 255}, {3, 0, 24, 97, 4, 1, 2}, {3, 0, 23, 1, 4, 4, 1, 0, 0}, {0, 0, 0, 0, 0, 0, 0, 0}, {0, 1, 2, 0, 1, 2, 0, 1, 1, 0, 0}, {0, 1, 0, 0, 1, 0, 0, 1, 0, 0, 0}}
	case 13:
		if tls13 {
			return [][]byte{{0, 0, 0}, {0, 0, 4, 0, 13, 0, 0}, {1, 9, 0, 0}}
		}
		if tls12sig {
			return [][]byte{{1, 1, 0, 2, 4, 1, 0, 0}, {0, 0, 0, 0, 0}, {1, 64, 0, 2, 8, 7, 0, 0}, {1, 1, 0, 0, 0, 0}}
		}
		return [][]byte{{1, 1, 0, 0}, {0, 0, 0}, {2, 1, 64, 0, 2, 0, 0}}
	case 15:
		return [][]byte{{4, 1, 0, 0}, {8, 4, 0, 0}, {0, 0}, {8, 7, 0, 1, 0}}
	case 16:
		return [][]byte{{0, 0}, {0}, {1, 4}, {0, 1, 0}, {}}
	case 20:
		return [][]byte{{}, make([]byte, 12), make([]byte, 32), make([]byte, 48)}
	case 22:
		return [][]byte{{1, 0, 0, 0}, {0, 0, 0, 0}, {1, 0, 0, 1, 0x30}}
	case 24:
		return [][]byte{{0}, {1}, {2}, {}}
	case 14, 0:
		return [][]byte{{}, {0}}
	}
	return nil
}

// truncCase is one well-framed truncation (or extension) of one handshake message of the script.
type truncCase struct {
	item, msg int
	typ       byte
	cut       int    // body bytes kept (or body length + appended bytes for the "extend" variant)
	variant   string // outer | nested | extend
	frag      []byte // the new plaintext fragment of the item
}

// truncationCases enumerates, for every handshake message whose plaintext is available, the cuts of its body with the
// handshake header length re-computed (the record length follows from serialisation). every=false skips the interior
// of large opaque fields (keys, signatures, certificates: any offset there is structurally the same), keeping their
// first and last two bytes. The "nested" variant also shrinks every enclosing vector to end at the cut.
func truncationCases(items []item, tls13, tls12sig, every bool) []truncCase {
	var out []truncCase
	for ii, it := range items {
		if it.Typ != 22 || it.Epoch < 0 || len(it.Frag) < 4 {
			continue
		}
		msgs, fields := annotate(it.Frag, tls13, tls12sig)
		for mi, m := range msgs {
			body0 := m.Off + 4
			skip := make([]bool, m.Len+1)
			if !every {
				for _, f := range fields {
					if f.Kind == "opaque" && f.W > 8 && f.Off >= body0 && f.Off+f.W <= body0+m.Len {
						for o := f.Off + 3; o < f.Off+f.W-2; o++ {
							skip[o-body0] = true
						}
					}
				}
				// unannotated tails (messages the walker does not understand) are sampled as well
				if m.Len > 96 {
					covered := 0
					for _, f := range fields {
						if f.Off >= body0 && f.Off+f.W <= body0+m.Len && f.Off+f.W-body0 > covered {
							covered = f.Off + f.W - body0
						}
					}
					for o := covered + 3; o < m.Len-2; o++ {
						skip[o] = true
					}
				}
			}
			build := func(body []byte) []byte {
				f := append([]byte(nil), it.Frag[:m.Off]...)
				f = append(f, m.Type, byte(len(body)>>16), byte(len(body)>>8), byte(len(body)))
				f = append(f, body...)
				return append(f, it.Frag[body0+m.Len:]...)
			}
			for cut := 0; cut < m.Len; cut++ {
				if skip[cut] {
					continue
				}
				body := append([]byte(nil), it.Frag[body0:body0+cut]...)
				out = append(out, truncCase{ii, mi, m.Type, cut, "outer", build(body)})
				// enclosing vectors: length fields whose body contains the cut
				nested := append([]byte(nil), body...)
				changed := false
				for _, f := range fields {
					if f.Kind != "len" || f.Off < body0 || f.Off+f.W > body0+cut {
						continue
					}
					start := f.Off + f.W
					if start+f.Val > body0+cut {
						putUint(nested[f.Off-body0:f.Off-body0+f.W], body0+cut-start)
						changed = true
					}
				}
				if changed && !every {
					// quick tier: the nested variant only where a field starts or ends
					changed = false
					for _, f := range fields {
						if f.Off == body0+cut || f.Off+f.W == body0+cut {
							changed = true
						}
					}
				}
				if changed {
					out = append(out, truncCase{ii, mi, m.Type, cut, "nested", build(nested)})
				}
			}
			for extra := 1; extra <= 2; extra++ {
				body := append(append([]byte(nil), it.Frag[body0:body0+m.Len]...), make([]byte, extra)...)
				out = append(out, truncCase{ii, mi, m.Type, m.Len + extra, "extend", build(body)})
			}
		}
	}
	return out
}

// handshakeEnd returns the index of the first application data record of the script (0 if there is none).
func handshakeEnd(items []item) int {
	for i, it := range items {
		if it.Typ == 23 && it.Epoch > 0 {
			return i
		}
	}
	return 0
}

// postHandshakeTail draws 1-6 records a peer may send once the handshake is over, protected with the keys the
// script has at that point (a KeyUpdate of the peer moves its later records to the next traffic secret).
func postHandshakeTail(rng *rand.Rand, hs []item, tls13 bool) (tail []item, desc string) {
	epoch, ver := 1, uint16(vTLS12)
	var ticket []byte
	for _, it := range hs {
		if it.Epoch > epoch {
			epoch = it.Epoch
		}
		if it.Epoch >= 0 {
			ver = it.Ver
		}
		if it.Typ == 22 && it.Epoch > 0 && len(it.Frag) > 4 && it.Frag[0] == 4 {
			ticket = it.Frag
		}
	}
	if tls13 && epoch < 2 {
		epoch = 2 // a client's first application record is the first one under its application traffic secret
	}
	n := 1 + rng.IntN(6)
	for i := 0; i < n; i++ {
		it := item{Ver: ver, Epoch: epoch}
		var what string
		k := rng.IntN(12)
		switch {
		case k < 2:
			it.Typ, it.Frag, what = 23, randBytes(rng, 1+rng.IntN(60)), "data"
		case k < 5 && tls13:
			it.Typ, it.Frag, what = 22, []byte{24, 0, 0, 1, 1}, "KeyUpdate(requested)"
		case k < 6 && tls13:
			it.Typ, it.Frag, what = 22, []byte{24, 0, 0, 1, 0}, "KeyUpdate(not-requested)"
		case k < 5:
			it.Typ, it.Frag, what = 22, []byte{0, 0, 0, 0}, "HelloRequest"
		case k < 6:
			it.Typ, it.Frag, what = 21, []byte{1, 100}, "alert(warning,no_renegotiation)"
		case k < 7:
			if ticket != nil {
				it.Typ, it.Frag, what = 22, append([]byte(nil), ticket...), "NewSessionTicket"
			} else {
				alts := degenerateBodies(4, tls13, false, nil)
				b := alts[rng.IntN(len(alts))]
				it.Typ, it.Frag, what = 22, append([]byte{4, 0, 0, byte(len(b))}, b...), "NewSessionTicket(minimal)"
			}
		case k < 9:
			lvl, d := byte(1+rng.IntN(2)), alertDescs[rng.IntN(len(alertDescs))]
			it.Typ, it.Frag, what = 21, []byte{lvl, d}, fmt.Sprintf("alert(%d,%d)", lvl, d)
		case k < 10:
			it.Typ, it.Frag, what = 23, nil, "empty-data"
		case k < 11:
			raw := randBytes(rng, 6+rng.IntN(80))
			raw[0], raw[1], raw[2], raw[3], raw[4] = byte(20+rng.IntN(4)), 3, 3, 0, byte(len(raw)-5)
			it = item{Epoch: -1, Raw: raw}
			what = "garbage-record"
		default:
			it.Typ, it.Frag, it.Epoch, what = 22, []byte{24, 0, 0, 1, 1}, 0, "cleartext-KeyUpdate"
		}
		tail = append(tail, it)
		desc += what + " "
		if tls13 && it.Typ == 22 && it.Epoch > 0 && len(it.Frag) == 5 && it.Frag[0] == 24 {
			epoch++ // the peer's own sending key moves on after its KeyUpdate
		}
	}
	return tail, desc + "close"
}

// helloCase is one in-place edit of an identifier / version field of a plaintext ServerHello or HelloRetryRequest.
type helloCase struct {
	item, off, val int
	name           string
	frag           []byte
}

func helloCases(items []item, tls13, tls12sig bool) []helloCase {
	var out []helloCase
	for ii, it := range items {
		if it.Typ != 22 || it.Epoch != 0 || len(it.Frag) < 4 || it.Frag[0] != 2 {
			continue
		}
		_, fields := annotate(it.Frag, tls13, tls12sig)
		for _, f := range fields {
			if f.W != 2 || (f.Kind != "id" && f.Kind != "ver") {
				continue
			}
			var vals []int
			switch {
			case f.Name == "ServerHello.cipher_suite":
				vals = []int{0x1301, 0x1302, 0x1303, 0x1304, 0xc02f, 0x002f, 0x00ff, 0}
			case f.Kind == "ver":
				vals = []int{0x0304, 0x0303, 0x0302, 0x0301, 0x0300, 0x0305, 0x7f1c, 0}
			case f.Name == "ServerHello.ext.type":
				vals = []int{0, 5, 10, 11, 16, 18, 23, 35, 41, 42, 43, 44, 45, 51, 0xff01, 0xffff}
			default: // groups, selected psk, ...
				vals = []int{0, 1, 23, 24, 25, 29, 30, 0x0100, 0xffff}
			}
			for _, v := range vals {
				if v == f.Val {
					continue
				}
				frag := append([]byte(nil), it.Frag...)
				putUint(frag[f.Off:f.Off+2], v)
				out = append(out, helloCase{ii, f.Off, v, f.Name, frag})
			}
		}
	}
	return out
}
