package tlsfaulteng

// C32: TLS endpoints survive arbitrary peer behaviour. A scripted peer replays
// genuine transcripts (recorded from real sessions of the same configuration and
// the same deterministic randomness) to a zcrypto client or server, with one
// fault plan per case: wire-level edits at every record index, injected records,
// structure-aware edits of handshake messages (re-sealed when the transcript's
// protection can be opened with the key log), and pure random streams.
// Oracle: no panic (totality guard; a fatal error leaves the case on disk), and
// once the transport is closed every outstanding call returns.

import (
	gotls "crypto/tls"
	"encoding/json"
	"fmt"
	"io"
	"math/rand/v2"
	"net"
	"runtime"
	"strings"
	"sync"
	"sync/atomic"
	"time"

	ztls "github.com/zmap/zcrypto/tls"

	"verifharness/internal/core"
	"verifharness/internal/netx"
	"verifharness/internal/tlspair"
)

func init() {
	core.RegisterMeta("C32", core.Meta{
		Rule: "genuine transcripts (zcrypto as client and as server; TLS 1.0-1.3; RSA / ECDHE key exchange, CBC / stream / AEAD; client auth; tickets and resumption; HelloRetryRequest; Go crypto/tls and zcrypto as recording peers) " +
			"replayed by a scripted peer with one fault plan each: wire flips / header edits / mid-record close / drop / dup / swap / raw insertion / random remainder / oversized record, injected alerts, CCS, empty records, HelloRequest, KeyUpdate, " +
			"record split / coalesce, and structure-aware edits of handshake messages (length fields, vector counts, ids, versions, whole-message delete / duplicate / truncate), re-sealed with the transcript's keys where the key log opens it; plus random byte streams. " +
			"Driver programs on the zcrypto side: Handshake / Read / Write first, ConnectionState, GetHandshakeLog + json.Marshal, Close, optional concurrent ConnectionState observer. " +
			"non-trivial = the endpoint was alive and waiting for input when the first faulted record was sent; distinct by (transcript, plan)",
		MinNontrivial:         25000,
		MinNontrivialThorough: 140000,
		Shards:                16,
		Env:                   []string{godebug},
		Assumptions: []string{
			"after Close every call on the in-memory transport returns immediately (netx), so a call still pending afterwards waits inside zcrypto",
			"blocking rule budget: 20 s of wall clock after the transport was closed (the calls involved need microseconds); expiry with a parked goroutine is the witness",
			"waiting for the endpoint to become idle is event-based (endpoint inside a transport Read with nothing buffered); a 60 s watchdog there is inconclusive, never a verdict",
			"allocation size is not part of the statement and is not judged",
		},
		ChildTimeoutQuick: 1200,
	}, runC32)
}

// ---- scenarios ------------------------------------------------------------------

type scenario struct {
	Name        string
	EUT         string // client | server  (which side is zcrypto under test)
	GoPeer      bool   // recording peer is Go's crypto/tls (otherwise zcrypto)
	Cell        cell
	Auth        bool // server requests a client certificate
	Resume      bool // transcript of a resumed session
	HRR         bool // TLS 1.3 HelloRetryRequest
	Reneg       bool // client under test allows renegotiation
	Staple      bool // server certificate carries OCSP staple and SCTs
	NoTicket    bool
	EMS         bool   // client under test offers the extended master secret
	AllSuites13 bool   // TLS 1.3 client under test offers all three suites (the cell's first), so that a HelloRetryRequest may name another one
	PrimeSuite  uint16 // with Resume: the ticket comes from a first server restricted to this suite, the transcript's server to the cell's (live suite change across an HRR)
	Insecure    bool   // client under test does not verify the server (scanner configuration)
	Synth       string // "dhe": the server flight is built by hand (no zcrypto or Go server negotiates DHE)
	SynthHash   int    // TLS 1.2 synthetic flights: HashAlgorithm of the ServerKeyExchange signature (0 = sha256)
}

type frozenCache struct {
	mu   sync.Mutex
	s    *ztls.ClientSessionState
	open bool
}

func (f *frozenCache) Get(string) (*ztls.ClientSessionState, bool) {
	f.mu.Lock()
	defer f.mu.Unlock()
	return f.s, f.s != nil
}
func (f *frozenCache) Put(_ string, s *ztls.ClientSessionState) {
	f.mu.Lock()
	defer f.mu.Unlock()
	if f.open && s != nil {
		f.s = s
	}
}

var fixedTicketKey = [32]byte{1, 2, 3, 4, 5, 6, 7, 8, 9, 10, 11, 12, 13, 14, 15, 16, 17, 18, 19, 20, 21, 22, 23, 24, 25, 26, 27, 28, 29, 30, 31, 32}

// eutClient / eutServer build the configuration of the endpoint under test; the same function
// (same seed) is used for recording and for every replay.
func (sc *scenario) eutClient(cache *frozenCache, keylog io.Writer) *ztls.Config {
	c := zClient(sc.Cell, hash64(sc.Name))
	c.KeyLogWriter = keylog
	c.NextProtos = []string{"h2", "http/1.1"}
	c.SignedCertificateTimestampExt = sc.Staple
	if sc.Auth {
		c.Certificates = []ztls.Certificate{tlspair.Get().Client[tlspair.P256].Z()}
	}
	if cache != nil {
		c.ClientSessionCache = cache
	}
	if sc.HRR {
		c.CurvePreferences = []ztls.CurveID{ztls.X25519, ztls.CurveP256}
	}
	if sc.Reneg {
		c.Renegotiation = ztls.RenegotiateFreelyAsClient
	}
	c.InsecureSkipVerify = sc.Insecure
	c.ExtendedMasterSecret = sc.EMS
	if sc.AllSuites13 {
		first := sc.Cell.Suite
		if sc.PrimeSuite != 0 {
			first = sc.PrimeSuite
		}
		c.CipherSuites = []uint16{first}
		for _, id := range ztls.VerifTLS13Suites() {
			if id != first {
				c.CipherSuites = append(c.CipherSuites, id)
			}
		}
	}
	c.ForceSuites = sc.Synth != "" // the client-only suites are offered only when forced
	return c
}

func (sc *scenario) eutServer(keylog io.Writer) *ztls.Config {
	c := zServer(sc.Cell, hash64(sc.Name))
	c.KeyLogWriter = keylog
	c.NextProtos = []string{"http/1.1", "h2"}
	c.SessionTicketKey = fixedTicketKey
	c.SessionTicketsDisabled = sc.NoTicket
	if sc.Auth {
		c.ClientAuth = ztls.RequireAnyClientCert
	}
	if sc.HRR {
		c.CurvePreferences = []ztls.CurveID{ztls.CurveP256}
	}
	if sc.Staple {
		c.Certificates[0].OCSPStaple = []byte("not really an OCSP response, only bytes on the wire")
		c.Certificates[0].SignedCertificateTimestamps = [][]byte{makeStream(1, 60), makeStream(2, 70)}
	}
	return c
}

func scenarios() []scenario {
	cells := map[string]cell{}
	for _, cl := range serverCells() {
		cells[fmt.Sprintf("%04x/%04x", cl.Version, cl.Suite)] = cl
	}
	var out []scenario
	add := func(sc scenario, key string) {
		cl, ok := cells[key]
		if !ok {
			return
		}
		sc.Cell = cl
		for _, eut := range []string{"client", "server"} {
			for _, gp := range []bool{false, true} {
				s := sc
				s.EUT, s.GoPeer = eut, gp
				if s.Reneg && eut == "server" {
					continue
				}
				s.Name = fmt.Sprintf("%s/%s/peer=%s%s", key, eut, map[bool]string{false: "zcrypto", true: "go"}[gp], sc.Name)
				out = append(out, s)
			}
		}
	}
	for _, key := range []string{"0303/c02f", "0303/c02b", "0303/cca8", "0303/c027", "0303/009c", "0303/002f", "0303/000a", "0303/0005", "0303/c009",
		"0302/c013", "0302/002f", "0302/c00a", "0301/c013", "0301/002f", "0301/0005", "0301/c00a", "0304/1301", "0304/1302", "0304/1303"} {
		add(scenario{}, key)
	}
	for _, key := range []string{"0303/c02f", "0303/002f", "0304/1301", "0304/1303", "0301/c013"} {
		add(scenario{Name: "+auth", Auth: true}, key)
		add(scenario{Name: "+resume", Resume: true}, key)
	}
	for _, key := range []string{"0303/c02b", "0304/1302", "0303/009c"} {
		add(scenario{Name: "+staple", Staple: true}, key)
		add(scenario{Name: "+noticket", NoTicket: true}, key)
	}
	for _, key := range []string{"0304/1301", "0304/1303"} {
		add(scenario{Name: "+hrr", HRR: true}, key)
	}
	for _, key := range []string{"0303/c02f", "0303/002f", "0302/c013"} {
		add(scenario{Name: "+reneg", Reneg: true}, key)
	}
	// scanner configuration: no verification, so that mutated certificates and signatures do not end the handshake
	n := len(out)
	for _, key := range []string{"0303/c02f", "0303/c02b", "0303/002f", "0301/c013", "0304/1301", "0304/1303"} {
		add(scenario{Name: "+insecure", Insecure: true}, key)
	}
	for _, key := range []string{"0303/c02f", "0303/002f", "0301/c013"} {
		add(scenario{Name: "+ems", EMS: true}, key)
	}
	// TLS 1.3 resumption answered with a HelloRetryRequest: the client holds a ticket from connection 1, connection 2's
	// server insists on a group the client sent no share for; the client offers all suites, so an HRR may name another one
	for _, key := range []string{"0304/1301", "0304/1302", "0304/1303"} {
		add(scenario{Name: "+resume+hrr", Resume: true, HRR: true, AllSuites13: true}, key)
	}
	// live variant: two servers share the ticket key, the first is restricted to one suite, the second to a suite with another hash
	add(scenario{Name: "+resume+hrr+ticket-from-1301", Resume: true, HRR: true, AllSuites13: true, PrimeSuite: ztls.TLS_AES_128_GCM_SHA256}, "0304/1302")
	add(scenario{Name: "+resume+hrr+ticket-from-1302", Resume: true, HRR: true, AllSuites13: true, PrimeSuite: ztls.TLS_AES_256_GCM_SHA384}, "0304/1301")
	kept := out[:n]
	for _, s := range out[n:] {
		if s.EUT == "client" && !(s.PrimeSuite != 0 && s.GoPeer) {
			kept = append(kept, s)
		}
	}
	out = kept
	// DHE key exchange exists on the client only: hand-built server flights
	for _, v := range []uint16{vTLS12, vTLS10} {
		for _, suite := range []uint16{ztls.TLS_DHE_RSA_WITH_AES_128_CBC_SHA, ztls.TLS_DHE_RSA_WITH_AES_128_GCM_SHA256} {
			if v != vTLS12 && suite == ztls.TLS_DHE_RSA_WITH_AES_128_GCM_SHA256 {
				continue
			}
			for _, insecure := range []bool{false, true} {
				ref := refParams{kind: kindCBC, macLen: 20, keyLen: 16, ivLen: 16}
				if suite == ztls.TLS_DHE_RSA_WITH_AES_128_GCM_SHA256 {
					ref = refParams{kind: kindGCM12, keyLen: 16, ivLen: 4}
				}
				sc := scenario{EUT: "client", Synth: "dhe", Insecure: insecure, Cell: cell{Version: v, Suite: suite, Kind: tlspair.RSA2048, Ref: ref}}
				sc.Name = fmt.Sprintf("%04x/%04x/client/peer=synthetic-dhe", v, suite)
				if insecure {
					sc.Name += "+insecure"
				}
				out = append(out, sc)
			}
		}
	}
	// the other hash / signature pairs a TLS 1.2 client accepts for the ServerKeyExchange signature
	for _, h := range []int{2, 5, 6} {
		sc := scenario{EUT: "client", Synth: "dhe", SynthHash: h, Cell: cell{Version: vTLS12, Suite: ztls.TLS_DHE_RSA_WITH_AES_128_CBC_SHA, Kind: tlspair.RSA2048, Ref: refParams{kind: kindCBC, macLen: 20, keyLen: 16, ivLen: 16}}}
		sc.Name = fmt.Sprintf("0303/0033/client/peer=synthetic-dhe+hash%d", h)
		out = append(out, sc)
	}
	return out
}

// transcript is a recorded genuine session, prepared for replay.
type transcript struct {
	sc       *scenario
	items    []item
	prot     *protection
	cache    *frozenCache
	opened   int
	opaque   int
	tls13    bool
	faithful bool
	hsItems  int // number of peer records the endpoint consumes until its handshake is complete (from the control replay: all of them are needed at most)
}

func firstHello(stream []byte) (random []byte) {
	recs, _ := netx.SplitRecords(stream)
	for _, r := range recs {
		if r[0] == 22 && len(r) >= 5+4+2+32 {
			return r[5+4+2 : 5+4+2+32]
		}
	}
	return nil
}

// record runs the genuine session(s) of a scenario and prepares the peer's script.
func (sc *scenario) record() (*transcript, error) {
	if sc.Synth == "dhe" {
		return sc.synthDHE()
	}
	t := &transcript{sc: sc, tls13: sc.Cell.Version == vTLS13}
	var cache *frozenCache
	if sc.Resume {
		cache = &frozenCache{open: true}
	}
	t.cache = cache
	primeRun := false
	run := func() (*tlspair.Result, *tlspair.SyncBuffer, error) {
		kl := &tlspair.SyncBuffer{}
		var r *tlspair.Result
		if sc.EUT == "client" {
			cc := sc.eutClient(cache, kl)
			if sc.GoPeer {
				gs := gServer(sc.Cell, hash64(sc.Name)+1)
				gs.NextProtos = []string{"http/1.1", "h2"}
				if sc.Auth {
					gs.ClientAuth = gotls.RequireAnyClientCert
				}
				if sc.HRR {
					gs.CurvePreferences = []gotls.CurveID{gotls.CurveP256}
				}
				gs.SessionTicketsDisabled = sc.NoTicket
				if sc.Staple {
					gs.Certificates[0].OCSPStaple = []byte("not really an OCSP response, only bytes on the wire")
					gs.Certificates[0].SignedCertificateTimestamps = [][]byte{makeStream(1, 60), makeStream(2, 70)}
				}
				r = tlspair.RunZG(cc, gs, tlspair.Options{})
			} else {
				peer := *sc
				ps := peer.eutServer(nil)
				if primeRun && sc.PrimeSuite != 0 {
					ps.CipherSuites = []uint16{sc.PrimeSuite}
				}
				r = tlspair.RunZZ(cc, ps, tlspair.Options{})
			}
		} else {
			scfg := sc.eutServer(kl)
			if sc.GoPeer {
				gc := gClient(sc.Cell, hash64(sc.Name)+1)
				gc.NextProtos = []string{"h2", "http/1.1"}
				if sc.Auth {
					gc.Certificates = []gotls.Certificate{tlspair.Get().Client[tlspair.P256].Go()}
				}
				if sc.HRR {
					gc.CurvePreferences = []gotls.CurveID{gotls.X25519, gotls.CurveP256}
				}
				if sc.Resume {
					gc.ClientSessionCache = goCache
				}
				r = tlspair.RunGZ(gc, scfg, tlspair.Options{})
			} else {
				peer := *sc
				var pc *frozenCache
				if sc.Resume {
					pc = peerCache
				}
				r = tlspair.RunZZ(peer.eutClient(pc, nil), scfg, tlspair.Options{})
			}
		}
		if r.TimedOut || r.CErr != nil || r.SErr != nil {
			r.Close()
			return nil, nil, fmt.Errorf("recording handshake: client=%v server=%v timeout=%v", r.CErr, r.SErr, r.TimedOut)
		}
		if err := r.PingPong(makeStream(7, 300), makeStream(8, 20000)); err != nil {
			r.Close()
			return nil, nil, fmt.Errorf("recording ping-pong: %v", err)
		}
		// orderly shutdown so that close_notify alerts are part of the transcript
		if cw, ok := r.Client().(interface{ CloseWrite() error }); ok {
			cw.CloseWrite()
		}
		if cw, ok := r.Server().(interface{ CloseWrite() error }); ok {
			cw.CloseWrite()
		}
		r.Close()
		return r, kl, nil
	}
	if sc.Resume {
		// first session primes the caches, the second one is the resumed transcript
		goCache = gotls.NewLRUClientSessionCache(4)
		peerCache = &frozenCache{open: true}
		primeRun = true
		_, _, err := run()
		primeRun = false
		if err != nil {
			return nil, err
		}
		if cache != nil {
			cache.mu.Lock()
			cache.open = false
			cache.mu.Unlock()
		}
		peerCache.mu.Lock()
		peerCache.open = false
		peerCache.mu.Unlock()
	}
	r, kl, err := run()
	if err != nil {
		return nil, err
	}
	peerDir, eutDir := netx.BtoA, netx.AtoB
	if sc.EUT == "server" {
		peerDir, eutDir = netx.AtoB, netx.BtoA
	}
	recs, rest := netx.SplitRecords(r.Tap.Bytes(peerDir))
	if len(rest) != 0 || len(recs) == 0 {
		return nil, fmt.Errorf("recording: tap does not split into records")
	}
	// protection of the peer's direction from the key log of the endpoint under test
	var st ztls.ConnectionState
	if r.CZ != nil && sc.EUT == "client" {
		st = r.CZ.ConnectionState()
	} else {
		st = r.SZ.ConnectionState()
	}
	prot := &protection{version: st.Version, suite: st.CipherSuite}
	secrets := parseKeyLog(kl.String())
	peerIsServer := sc.EUT == "client"
	if st.Version == vTLS13 {
		prot.ref = refParams13(st.CipherSuite)
		if peerIsServer {
			prot.hsSecret, prot.appSecret = secrets["SERVER_HANDSHAKE_TRAFFIC_SECRET"], secrets["SERVER_TRAFFIC_SECRET_0"]
		} else {
			prot.hsSecret, prot.appSecret = secrets["CLIENT_HANDSHAKE_TRAFFIC_SECRET"], secrets["CLIENT_TRAFFIC_SECRET_0"]
		}
		prot.ok = prot.hsSecret != nil && prot.appSecret != nil
	} else {
		prot.ref = sc.Cell.Ref
		sha384 := false
		for _, s := range ztls.VerifServerSuites() {
			if s.ID == st.CipherSuite {
				sha384 = s.SHA384
			}
		}
		master := secrets["CLIENT_RANDOM"]
		cr, sr := firstHello(r.Tap.Bytes(netx.AtoB)), firstHello(r.Tap.Bytes(netx.BtoA))
		if master != nil && cr != nil && sr != nil {
			cMAC, sMAC, cKey, sKey, cIV, sIV := keyBlock12(st.Version, sha384, master, cr, sr, prot.ref)
			if peerIsServer {
				prot.mac, prot.key, prot.iv = sMAC, sKey, sIV
			} else {
				prot.mac, prot.key, prot.iv = cMAC, cKey, cIV
			}
			prot.ok = true
		}
	}
	_ = eutDir
	t.prot = prot
	t.items, t.opened, t.opaque = buildItems(recs, prot)
	return t, nil
}

var (
	goCache   gotls.ClientSessionCache
	peerCache *frozenCache
)

// ---- endpoint under test ----------------------------------------------------------

// trackConn wraps the endpoint's side of the pipe and tells whether the endpoint is parked in a transport Read.
type trackConn struct {
	*netx.Conn
	reading atomic.Int32
}

func (t *trackConn) Read(p []byte) (int, error) {
	t.reading.Add(1)
	n, err := t.Conn.Read(p)
	t.reading.Add(-1)
	return n, err
}

var _ net.Conn = (*trackConn)(nil)

type callRec struct {
	Name string `json:"call"`
	Err  string `json:"result"`
}

type eutSession struct {
	conn      *ztls.Conn
	tc        *trackConn
	peer      *netx.Conn
	mu        sync.Mutex
	calls     []callRec
	panics    []*core.PanicInfo
	driverEnd chan struct{}
	obsEnd    chan struct{}
	current   atomic.Value // name of the call the driver is in
	appBytes  atomic.Int64 // bytes delivered by Read
	sentCKX   bool
}

func (e *eutSession) call(name string, f func() error) (err error) {
	e.current.Store(name)
	pi := core.Guard(func() { err = f() })
	e.mu.Lock()
	if pi != nil {
		e.panics = append(e.panics, pi)
		e.calls = append(e.calls, callRec{name, "PANIC " + pi.Value})
	} else if len(e.calls) < 40 {
		e.calls = append(e.calls, callRec{name, errString(err)})
	}
	e.mu.Unlock()
	if pi != nil {
		return fmt.Errorf("panic")
	}
	return err
}

// logCheck exercises the handshake log of a (possibly partial) handshake.
func (e *eutSession) logCheck(tag string) {
	e.call("GetHandshakeLog+json.Marshal"+tag, func() error {
		l := e.conn.GetHandshakeLog()
		_, err := json.Marshal(l)
		return err
	})
	e.call("ConnectionState"+tag, func() error {
		st := e.conn.ConnectionState()
		_ = st.Version
		return nil
	})
}

func (e *eutSession) readLoop(max int) {
	buf := make([]byte, 4096)
	for i := 0; i < max; i++ {
		var n int
		err := e.call("Read", func() error { var err error; n, err = e.conn.Read(buf); return err })
		e.appBytes.Add(int64(n))
		if err != nil {
			return
		}
	}
}

// drive runs one of the driver programs.
func (e *eutSession) drive(prog int) {
	defer close(e.driverEnd)
	switch prog {
	case 0:
		if e.call("Handshake", e.conn.Handshake) == nil {
			e.logCheck("")
			e.call("Write", func() error { _, err := e.conn.Write(makeStream(7, 300)); return err })
			e.readLoop(200)
		}
	case 1:
		e.readLoop(200)
		e.call("Write", func() error { _, err := e.conn.Write(makeStream(9, 100)); return err })
	case 2:
		if e.call("Write", func() error { _, err := e.conn.Write(makeStream(7, 300)); return err }) == nil {
			e.readLoop(200)
		}
	case 3:
		if e.call("Handshake", e.conn.Handshake) == nil {
			e.call("ConnectionState", func() error { e.conn.ConnectionState(); return nil })
			e.readLoop(200)
			e.call("CloseWrite", e.conn.CloseWrite)
		}
	}
	e.logCheck("/after")
	e.call("Close", e.conn.Close)
}

// waitIdle waits until the endpoint has consumed everything written so far and is parked in a
// transport Read, or the driver ended. It returns alive=true in the first case.
func (e *eutSession) waitIdle(written int64) (alive, ok bool) {
	deadline := time.Now().Add(60 * time.Second)
	for i := 0; ; i++ {
		select {
		case <-e.driverEnd:
			return false, true
		default:
		}
		if e.tc.reading.Load() > 0 && e.tc.PendingIn() == 0 && e.tc.BytesRead() == written {
			return true, true
		}
		if i < 200 {
			runtime.Gosched()
		} else {
			time.Sleep(50 * time.Microsecond)
		}
		if i%1000 == 999 && time.Now().After(deadline) {
			return false, false
		}
	}
}

type replayOutcome struct {
	reached     bool
	watchdog    bool
	handshakeOK bool
	appBytes    int
	blocked     string // non-empty: violation key suffix
	blockedDump string
	calls       []callRec
	panics      []*core.PanicInfo
	postPanics  []*core.PanicInfo
	postBlocked string
	consumed    int64
	eutWrote    int64
}

// replay feeds chunks to a fresh endpoint of the scenario. chunks[:first] are sent first; the rest
// only if the endpoint is then alive and waiting (that is what "the fault was reached" means).
func (t *transcript) replay(chunks [][]byte, first int, prog int, observer bool, closeBoth bool, failWrites bool) replayOutcome {
	var out replayOutcome
	a, b, _ := netx.Pipe(netx.Options{}, netx.Options{})
	var eutEnd, peerEnd *netx.Conn
	if t.sc.EUT == "client" {
		eutEnd, peerEnd = a, b
	} else {
		eutEnd, peerEnd = b, a
	}
	e := &eutSession{tc: &trackConn{Conn: eutEnd}, peer: peerEnd, driverEnd: make(chan struct{}), obsEnd: make(chan struct{})}
	if t.sc.EUT == "client" {
		e.conn = ztls.Client(e.tc, t.sc.eutClient(t.cache, nil))
	} else {
		e.conn = ztls.Server(e.tc, t.sc.eutServer(nil))
	}
	// the endpoint's own output is drained and discarded
	go io.Copy(io.Discard, peerEnd)
	go e.drive(prog)
	if observer {
		go func() {
			defer close(e.obsEnd)
			// legitimately blocks on the handshake mutex while the handshake waits for input
			e.call("ConnectionState/observer", func() error { e.conn.ConnectionState(); return nil })
		}()
	} else {
		close(e.obsEnd)
	}
	var written int64
	send := func(cs [][]byte) {
		for _, c := range cs {
			if len(c) > 0 {
				peerEnd.Write(c)
				written += int64(len(c))
			}
		}
	}
	if first > len(chunks) {
		first = len(chunks)
	}
	send(chunks[:first])
	alive, ok := e.waitIdle(written)
	if !ok {
		out.watchdog = true
	}
	if alive {
		out.reached = true
		if failWrites {
			// from now on every transport write of the endpoint fails at once, while its input stays open:
			// whatever it has to answer (KeyUpdate, alerts, ClientHello of a renegotiation) cannot be written
			peerEnd.CloseRead()
		}
		send(chunks[first:])
		if _, ok := e.waitIdle(written); !ok {
			out.watchdog = true
		}
	}
	out.consumed = e.tc.BytesRead()
	out.eutWrote = e.tc.BytesWritten()
	// the script is over: close the transport
	peerEnd.Close()
	if closeBoth {
		eutEnd.Close()
	}
	budget := 20 * time.Second
	done := make(chan struct{})
	go func() { <-e.driverEnd; <-e.obsEnd; close(done) }()
	if !waitTimeout(done, budget) {
		dump := allStacks()
		out.blockedDump = dump
		cur, _ := e.current.Load().(string)
		frame, state := "?", "?"
		for _, g := range splitDump(dump) {
			if strings.Contains(g.Text, "tlsfaulteng.(*eutSession).call") {
				frame, state = firstZFrame(g.Text), stateClass(g.State)
				break
			}
		}
		out.blocked = fmt.Sprintf("%s:%s@%s", strings.SplitN(cur, "/", 2)[0], state, frame)
		eutEnd.Close()
		return out
	}
	// calls on the dead connection must return too
	post := make(chan struct{})
	pe := &eutSession{conn: e.conn}
	go func() {
		defer close(post)
		buf := make([]byte, 16)
		pe.call("Read/post", func() error { _, err := e.conn.Read(buf); return err })
		pe.call("Write/post", func() error { _, err := e.conn.Write(buf); return err })
		pe.call("Handshake/post", e.conn.Handshake)
		pe.call("CloseWrite/post", e.conn.CloseWrite)
		pe.call("SetDeadline/post", func() error { return e.conn.SetDeadline(time.Time{}) })
		pe.logCheck("/post")
		pe.call("Close/post", e.conn.Close)
	}()
	if !waitTimeout(post, budget) {
		dump := allStacks()
		out.blockedDump = dump
		cur, _ := pe.current.Load().(string)
		frame, state := "?", "?"
		for _, g := range splitDump(dump) {
			if strings.Contains(g.Text, "tlsfaulteng.(*eutSession).call") {
				frame, state = firstZFrame(g.Text), stateClass(g.State)
				break
			}
		}
		out.postBlocked = fmt.Sprintf("%s:%s@%s", cur, state, frame)
	}
	eutEnd.Close()
	e.mu.Lock()
	out.calls, out.panics = e.calls, e.panics
	e.mu.Unlock()
	pe.mu.Lock()
	out.postPanics = pe.panics
	pe.mu.Unlock()
	for _, c := range out.calls {
		if c.Name == "Handshake" && c.Err == "<nil>" {
			out.handshakeOK = true
		}
	}
	out.appBytes = int(e.appBytes.Load())
	if e.conn.ConnectionState().HandshakeComplete {
		out.handshakeOK = true
	}
	return out
}

func chunksHex(chunks [][]byte) []string {
	var out []string
	total := 0
	for _, c := range chunks {
		total += len(c)
		if total > 200000 {
			out = append(out, fmt.Sprintf("…(%d more chunks)", len(chunks)-len(out)))
			break
		}
		out = append(out, core.FullHex(c))
	}
	return out
}

// blockedSeen counts blocking-rule witnesses of this child: each one costs the full budget and leaves
// goroutines parked forever, so the shard stops after a few (the witnesses are on disk by then).
var blockedSeen int

// judge turns an outcome into violations.
func judge(c *core.Ctx, caseID string, input map[string]any, chunks [][]byte, o replayOutcome) {
	if o.blocked != "" || o.postBlocked != "" {
		blockedSeen++
	}
	full := func() map[string]any {
		in := map[string]any{}
		for k, v := range input {
			in[k] = v
		}
		in["script_chunks_hex"] = chunksHex(chunks)
		in["calls"] = o.calls
		return in
	}
	for _, pi := range append(append([]*core.PanicInfo(nil), o.panics...), o.postPanics...) {
		c.Violation(panicKey(pi), pi.Value+"\n"+pi.Stack, caseID, full())
	}
	if o.blocked != "" {
		c.Violation("blocked-after-transport-close:"+o.blocked, "a call on the endpoint had not returned 20 s after the transport was closed\n"+o.blockedDump, caseID, full())
	}
	if o.postBlocked != "" {
		c.Violation("blocked-on-dead-connection:"+o.postBlocked, "a call on the already failed/closed connection did not return within 20 s\n"+o.blockedDump, caseID, full())
	}
	if o.watchdog {
		c.Count("idle_wait_watchdog_inconclusive", 1)
	}
}

func runC32(c *core.Ctx) {
	scs := scenarios()
	c.Count("scenarios", len(scs))
	plansPer := c.Pick(110, 3000)
	randomPer := c.Pick(15, 400)
	for si := range scs {
		sc := &scs[si]
		if si%c.NShards != c.Shard {
			continue
		}
		if c.OnlyCase != "" && !strings.HasPrefix(c.OnlyCase, sc.Name+"#") {
			continue
		}
		var t *transcript
		var err error
		// a panic inside the genuine sessions runs on the pair runner's goroutines and ends the process: the open case names the recording
		c.Begin(sc.Name+"#record", map[string]any{"scenario": sc.Name, "plan": "recording of the genuine session(s), no fault"})
		pi := core.Guard(func() { t, err = sc.record() })
		c.End(sc.Name + "#record")
		if pi != nil {
			c.Violation("recording-"+panicKey(pi), pi.Value+"\n"+pi.Stack, sc.Name+"#record", map[string]any{"scenario": sc.Name})
			continue
		}
		if err != nil {
			c.Count("recording_failed", 1)
			c.Note("C32 %s: %v", sc.Name, err)
			continue
		}
		c.Count("transcripts", 1)
		c.Count("script_records", len(t.items))
		c.Count("script_records_opened_with_keylog", t.opened)
		c.Count("script_records_opaque", t.opaque)
		tls12sig := sc.Cell.Version == vTLS12

		// control replay: the re-serialised (re-sealed) script must drive a fresh endpoint through the whole session
		ctrl := serialise(t.items, t.prot)
		var cchunks [][]byte
		for _, w := range ctrl {
			cchunks = append(cchunks, w.b)
		}
		id := sc.Name + "#control"
		c.Begin(id, map[string]any{"scenario": sc.Name})
		o := t.replay(cchunks, len(cchunks), 0, false, false, false)
		c.End(id)
		c.Eval(1)
		judge(c, id, map[string]any{"scenario": sc.Name, "plan": "control"}, cchunks, o)
		t.faithful = o.handshakeOK && o.appBytes > 0
		if sc.Synth != "" {
			// the hand-built flight ends with ServerHelloDone: faithful = the client answered with its key exchange flight
			t.faithful = o.reached && o.eutWrote > 450 // ClientHello (~200 bytes) + ClientKeyExchange with a 2048-bit share
		}
		if t.faithful {
			c.Count("transcripts_replayed_faithfully", 1)
		} else {
			c.Count("transcripts_not_faithful", 1)
			if c.WantSample() {
				c.Note("C32 %s: control replay not faithful: %+v", sc.Name, o.calls)
			}
		}

		for pi := 0; pi < plansPer+randomPer; pi++ {
			if blockedSeen >= 3 {
				c.Note("C32: shard stopped after %d blocked calls (each is reported as a violation)", blockedSeen)
				return
			}
			id := fmt.Sprintf("%s#%d", sc.Name, pi)
			if c.OnlyCase != "" && c.OnlyCase != id {
				continue
			}
			rng := rngFor(c.Seed, "C32/"+id)
			prog := rng.IntN(4)
			observer := rng.IntN(4) == 0
			closeBoth := rng.IntN(3) == 0
			var chunks [][]byte
			var first int
			var m mutation
			if pi >= plansPer {
				// pure random stream, optionally behind a prefix of the genuine script
				m.Kind = "random-stream"
				keep := 0
				if rng.IntN(2) == 0 {
					keep = rng.IntN(len(cchunks))
				}
				for _, ch := range cchunks[:keep] {
					chunks = append(chunks, ch)
				}
				first = keep
				junk := randBytes(rng, 1+rng.IntN(4000))
				if rng.IntN(2) == 0 && len(junk) > 5 {
					// plausible first header so that the body is read
					junk[0], junk[1], junk[2] = byte(20+rng.IntN(4)), 3, byte(rng.IntN(5))
					junk[3] &= 0x3f
				}
				chunks = append(chunks, junk)
				m.Item, m.Detail = keep, fmt.Sprintf("%d random bytes after %d genuine records", len(junk), keep)
			} else {
				var items []item
				var edits []wireEdit
				items, edits, first, m = mutate(rng, t.items, t.prot, t.tls13, tls12sig)
				if m.Kind == "none" {
					c.Count("plans_without_effect", 1)
					continue
				}
				chunks = applyEdits(serialise(items, t.prot), edits)
				if first > len(chunks) {
					first = len(chunks)
				}
			}
			input := map[string]any{"scenario": sc.Name, "plan": pi, "mutation": m, "program": prog, "observer": observer, "close_both": closeBoth, "seed": c.Seed}
			c.Begin(id, input)
			o := t.replay(chunks, first, prog, observer, closeBoth, false)
			c.End(id)
			c.Eval(1)
			c.Count("plan:"+strings.SplitN(m.Kind, ":", 2)[0], 1)
			judge(c, id, input, chunks, o)
			if o.reached {
				c.Nontrivial(id, m.Kind, m.Detail)
				c.Count("fault_reached", 1)
				if o.handshakeOK {
					c.Count("fault_reached_handshake_completed_anyway", 1)
				}
			} else {
				c.Count("fault_not_reached", 1)
			}
			if c.WantSample() && pi%37 == 5 {
				last := ""
				if len(o.calls) > 0 {
					last = o.calls[0].Name + " -> " + o.calls[0].Err
				}
				c.Sample(map[string]any{"case": id, "mutation": m, "reached": o.reached, "first_call": last, "bytes_consumed": o.consumed})
			}
		}

		// ServerHello / HelloRetryRequest sweep (client under test): every identifier and version field of the plaintext hello
		// set to each value of a small table (all TLS 1.3 suites, versions, groups, extension ids), framing untouched
		if sc.EUT == "client" {
			for _, hc := range helloCases(t.items, t.tls13, tls12sig) {
				if blockedSeen >= 3 {
					return
				}
				id := fmt.Sprintf("%s#hello/%d/%d/%04x", sc.Name, hc.item, hc.off, hc.val)
				if c.OnlyCase != "" && c.OnlyCase != id {
					continue
				}
				items := make([]item, len(t.items))
				copy(items, t.items)
				items[hc.item].Frag = hc.frag
				chunks := applyEdits(serialise(items, t.prot), nil)
				input := map[string]any{"scenario": sc.Name, "plan": "server hello field", "record": hc.item, "field": hc.name, "offset": hc.off, "value": fmt.Sprintf("%#x", hc.val), "seed": c.Seed}
				c.Begin(id, input)
				o := t.replay(chunks, hc.item, 0, false, false, false)
				c.End(id)
				c.Eval(1)
				c.Count("plan:server-hello-field-sweep", 1)
				judge(c, id, input, chunks, o)
				if o.reached {
					c.Nontrivial(id)
					c.Count("fault_reached", 1)
				} else {
					c.Count("fault_not_reached", 1)
				}
			}
		}

		// post-handshake family: the genuine script up to the end of the handshake, then a short sequence of records a
		// peer may send in the data phase, cut at every point, optionally with the endpoint's own writes failing
		if hsEnd := handshakeEnd(t.items); hsEnd > 0 && t.faithful && t.prot.ok {
			for pi := 0; pi < c.Pick(30, 400); pi++ {
				if blockedSeen >= 3 {
					return
				}
				id := fmt.Sprintf("%s#post/%d", sc.Name, pi)
				if c.OnlyCase != "" && c.OnlyCase != id {
					continue
				}
				rng := rngFor(c.Seed, "C32/"+id)
				tail, desc := postHandshakeTail(rng, t.items[:hsEnd], t.tls13)
				items := append(append([]item(nil), t.items[:hsEnd]...), tail...)
				chunks := applyEdits(serialise(items, t.prot), nil)
				prog := rng.IntN(4)
				failWrites := rng.IntN(2) == 0
				closeBoth := rng.IntN(2) == 0
				input := map[string]any{"scenario": sc.Name, "plan": "post-handshake sequence", "sequence": desc, "program": prog, "endpoint_writes_fail": failWrites, "close_both": closeBoth, "seed": c.Seed}
				c.Begin(id, input)
				o := t.replay(chunks, hsEnd, prog, false, closeBoth, failWrites)
				c.End(id)
				c.Eval(1)
				c.Count("plan:post-handshake-sequence", 1)
				judge(c, id, input, chunks, o)
				if o.reached {
					c.Nontrivial(id, desc)
					c.Count("fault_reached", 1)
				} else {
					c.Count("fault_not_reached", 1)
				}
			}
		}

		// systematic sweep: every handshake message of the script cut at (quick: every structurally distinct, thorough: every)
		// byte offset, and extended by 1-2 bytes, always well-framed (handshake header and record re-computed; a second
		// variant also shrinks the enclosing vectors)
		for _, tc := range truncationCases(t.items, t.tls13, tls12sig, c.Thorough()) {
			if blockedSeen >= 3 {
				return
			}
			id := fmt.Sprintf("%s#cut/%d/%d/%d/%s", sc.Name, tc.item, tc.msg, tc.cut, tc.variant)
			if c.OnlyCase != "" && c.OnlyCase != id {
				continue
			}
			items := make([]item, len(t.items))
			copy(items, t.items)
			items[tc.item].Frag = tc.frag
			chunks := applyEdits(serialise(items, t.prot), nil)
			input := map[string]any{"scenario": sc.Name, "plan": "well-framed truncation", "record": tc.item, "message_type": tc.typ, "message_index": tc.msg, "cut_at": tc.cut, "variant": tc.variant, "seed": c.Seed}
			c.Begin(id, input)
			o := t.replay(chunks, tc.item, tc.cut%2*3, false, false, false)
			c.End(id)
			c.Eval(1)
			c.Count("plan:framed-truncation-sweep", 1)
			judge(c, id, input, chunks, o)
			if o.reached {
				c.Nontrivial(id)
				c.Count("fault_reached", 1)
			} else {
				c.Count("fault_not_reached", 1)
			}
		}
	}
}

var _ = rand.IntN
