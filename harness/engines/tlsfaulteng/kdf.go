package tlsfaulteng

// Key derivation needed by the scripted peer of C32 to open and re-seal the
// protected part of a recorded transcript (from the secrets of the key log):
// TLS 1.0-1.2 key expansion (RFC 2246 §5/§6.3, RFC 5246 §5/§6.3) and the TLS 1.3
// traffic keys (RFC 8446 §7.1, §7.3). Written from the RFCs; nothing here decides a verdict.

import (
	"crypto/hmac"
	"crypto/md5"
	"crypto/sha1"
	"crypto/sha256"
	"crypto/sha512"
	"encoding/hex"
	"hash"
	"strings"
)

func pHash(h func() hash.Hash, secret, seed []byte, n int) []byte {
	var out []byte
	a := seed
	for len(out) < n {
		m := hmac.New(h, secret)
		m.Write(a)
		a = m.Sum(nil)
		m = hmac.New(h, secret)
		m.Write(a)
		m.Write(seed)
		out = m.Sum(out)
	}
	return out[:n]
}

// tlsPRF computes PRF(secret, label, seed) for the given version; sha384 selects the SHA-384 PRF of TLS 1.2.
func tlsPRF(version uint16, sha384 bool, secret []byte, label string, seed []byte, n int) []byte {
	ls := append([]byte(label), seed...)
	if version >= vTLS12 {
		if sha384 {
			return pHash(sha512.New384, secret, ls, n)
		}
		return pHash(sha256.New, secret, ls, n)
	}
	half := (len(secret) + 1) / 2
	a := pHash(md5.New, secret[:half], ls, n)
	b := pHash(sha1.New, secret[len(secret)-half:], ls, n)
	for i := range a {
		a[i] ^= b[i]
	}
	return a
}

// keyBlock12 cuts the TLS 1.0-1.2 key block.
func keyBlock12(version uint16, sha384 bool, master, clientRandom, serverRandom []byte, p refParams) (cMAC, sMAC, cKey, sKey, cIV, sIV []byte) {
	seed := append(append([]byte(nil), serverRandom...), clientRandom...)
	kb := tlsPRF(version, sha384, master, "key expansion", seed, 2*p.macLen+2*p.keyLen+2*p.ivLen)
	take := func(n int) []byte { b := kb[:n]; kb = kb[n:]; return b }
	cMAC, sMAC = take(p.macLen), take(p.macLen)
	cKey, sKey = take(p.keyLen), take(p.keyLen)
	cIV, sIV = take(p.ivLen), take(p.ivLen)
	return
}

func hkdfExpand(h func() hash.Hash, prk, info []byte, n int) []byte {
	var out, t []byte
	for i := byte(1); len(out) < n; i++ {
		m := hmac.New(h, prk)
		m.Write(t)
		m.Write(info)
		m.Write([]byte{i})
		t = m.Sum(nil)
		out = append(out, t...)
	}
	return out[:n]
}

func hkdfExpandLabel(h func() hash.Hash, secret []byte, label string, context []byte, n int) []byte {
	full := "tls13 " + label
	info := []byte{byte(n >> 8), byte(n), byte(len(full))}
	info = append(info, full...)
	info = append(info, byte(len(context)))
	info = append(info, context...)
	return hkdfExpand(h, secret, info, n)
}

// trafficKeys13 derives the record key and IV of a TLS 1.3 traffic secret.
func trafficKeys13(suite uint16, secret []byte) (key, iv []byte) {
	h := sha256.New
	keyLen := 16
	switch suite {
	case 0x1302:
		h, keyLen = sha512.New384, 32
	case 0x1303:
		keyLen = 32
	}
	return hkdfExpandLabel(h, secret, "key", nil, keyLen), hkdfExpandLabel(h, secret, "iv", nil, 12)
}

// nextTrafficSecret13 is the key update step of RFC 8446 §7.2.
func nextTrafficSecret13(suite uint16, secret []byte) []byte {
	h := sha256.New
	if suite == 0x1302 {
		h = sha512.New384
	}
	return hkdfExpandLabel(h, secret, "traffic upd", nil, len(secret))
}

// parseKeyLog returns label -> secret of an NSS key log.
func parseKeyLog(s string) map[string][]byte {
	out := map[string][]byte{}
	for _, l := range strings.Split(s, "\n") {
		f := strings.Fields(l)
		if len(f) != 3 {
			continue
		}
		if b, err := hex.DecodeString(f[2]); err == nil {
			out[f[0]] = b
		}
	}
	return out
}
