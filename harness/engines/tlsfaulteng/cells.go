package tlsfaulteng

import (
	gotls "crypto/tls"
	"fmt"
	"sort"

	ztls "github.com/zmap/zcrypto/tls"

	"verifharness/internal/tlspair"
)

// godebug enables the legacy features of Go's crypto/tls that the cross-implementation cells need.
const godebug = "GODEBUG=tlsrsakex=1,tls3des=1,tls10server=1,tlsunsafeekm=1,rsa1024min=0,tlssha1=1"

// cell is one negotiable (version, suite) pair together with the server key kind that makes it negotiable.
type cell struct {
	Version uint16
	Suite   uint16
	Kind    string // leaf key kind (tlspair.RSA2048, tlspair.P256, ...)
	Ref     refParams
	Cipher  string // aead | block | stream
}

func (c cell) String() string { return fmt.Sprintf("%04x/%04x/%s", c.Version, c.Suite, c.Kind) }

func refParamsOf(v uint16, s ztls.VerifSuite) refParams {
	p := refParams{macLen: s.MacLen, keyLen: s.KeyLen, ivLen: s.IVLen}
	switch s.Cipher {
	case "stream":
		p.kind = kindStream
	case "block":
		p.kind = kindCBC
		p.tdes = s.IVLen == 8
	default:
		if s.IVLen == 4 {
			p.kind = kindGCM12
		} else {
			p.kind = kindChaCha12
		}
	}
	return p
}

func refParams13(id uint16) refParams {
	switch id {
	case ztls.TLS_AES_128_GCM_SHA256:
		return refParams{kind: kindAEAD13, keyLen: 16, ivLen: 12}
	case ztls.TLS_AES_256_GCM_SHA384:
		return refParams{kind: kindAEAD13, keyLen: 32, ivLen: 12}
	default:
		return refParams{kind: kindAEAD13, keyLen: 32, ivLen: 12, chacha: true}
	}
}

// serverCells lists every (version, suite) cell a zcrypto server can negotiate
// (server suite table x versions the suite is allowed in, plus the TLS 1.3 suites).
func serverCells() []cell {
	var out []cell
	for _, v := range []uint16{ztls.VersionTLS10, ztls.VersionTLS11, ztls.VersionTLS12} {
		for _, s := range ztls.VerifServerSuites() {
			if s.TLS12Only && v != ztls.VersionTLS12 {
				continue
			}
			kind := tlspair.RSA2048
			if s.ECSign {
				kind = tlspair.P256
			}
			out = append(out, cell{Version: v, Suite: s.ID, Kind: kind, Ref: refParamsOf(v, s), Cipher: s.Cipher})
		}
	}
	for i, id := range ztls.VerifTLS13Suites() {
		kind := []string{tlspair.P256, tlspair.RSA2048, tlspair.Ed25519}[i%3]
		out = append(out, cell{Version: ztls.VersionTLS13, Suite: id, Kind: kind, Ref: refParams13(id), Cipher: "aead"})
	}
	return out
}

// recordCells lists every (version, suite) pair of the record layer: all implemented
// suite ids (client table included; its DHE/DSS suites reuse the same constructors) x allowed versions.
func recordCells() []cell {
	seen := map[uint16]bool{}
	var suites []ztls.VerifSuite
	for _, s := range append(ztls.VerifServerSuites(), ztls.VerifClientSuites()...) {
		if !seen[s.ID] {
			seen[s.ID] = true
			// cipherSuiteByID returns the first entry of the client table; describe that one
			suites = append(suites, s)
		}
	}
	// the handshake looks suites up in the client table (first match): take lengths from there
	first := map[uint16]ztls.VerifSuite{}
	for _, s := range ztls.VerifClientSuites() {
		if _, ok := first[s.ID]; !ok {
			first[s.ID] = s
		}
	}
	sort.Slice(suites, func(i, j int) bool { return suites[i].ID < suites[j].ID })
	var out []cell
	for _, v := range []uint16{ztls.VersionTLS10, ztls.VersionTLS11, ztls.VersionTLS12} {
		for _, s := range suites {
			if f, ok := first[s.ID]; ok {
				s = f
			}
			if s.TLS12Only && v != ztls.VersionTLS12 {
				continue
			}
			out = append(out, cell{Version: v, Suite: s.ID, Ref: refParamsOf(v, s), Cipher: s.Cipher})
		}
	}
	for _, id := range ztls.VerifTLS13Suites() {
		out = append(out, cell{Version: ztls.VersionTLS13, Suite: id, Ref: refParams13(id), Cipher: "aead"})
	}
	return out
}

// zClient / zServer / gClient / gServer build configs pinned to one cell.
func zClient(cl cell, seed uint64) *ztls.Config {
	c := tlspair.BaseClient(seed)
	c.MinVersion, c.MaxVersion = cl.Version, cl.Version
	c.CipherSuites = []uint16{cl.Suite}
	return c
}

func zServer(cl cell, seed uint64) *ztls.Config {
	c := tlspair.BaseServer(seed, cl.Kind)
	c.MinVersion, c.MaxVersion = cl.Version, cl.Version
	c.CipherSuites = []uint16{cl.Suite}
	return c
}

func gClient(cl cell, seed uint64) *gotls.Config {
	c := tlspair.GoClient(seed)
	c.MinVersion, c.MaxVersion = cl.Version, cl.Version
	c.CipherSuites = []uint16{cl.Suite}
	return c
}

func gServer(cl cell, seed uint64) *gotls.Config {
	c := tlspair.GoServer(seed, cl.Kind)
	c.MinVersion, c.MaxVersion = cl.Version, cl.Version
	c.CipherSuites = []uint16{cl.Suite}
	return c
}
