package tlsfaulteng

// C34: concurrent use of a TLS connection is safe. Connected zcrypto pairs are
// driven by several goroutines per side running random programs over the public
// methods; the race leg runs under the race detector (reports are collected and
// attributed by the supervisor), both legs check the byte stream of each
// direction and that every goroutine returns once the transports are closed.
//
// The harness deliberately adds no synchronisation between the goroutines while
// they run (no shared atomics, no shared locks besides the transport's own): a
// harness-side happens-before edge would hide exactly the races this looks for.
// Operation intervals are stamped with the monotonic clock, per goroutine, and
// merged after Wait.

import (
	"errors"
	"fmt"
	"io"
	"math/rand/v2"
	"net"
	"runtime"
	"sort"
	"strings"
	"sync"
	"time"

	ztls "github.com/zmap/zcrypto/tls"

	"verifharness/internal/core"
	"verifharness/internal/netx"
)

func init() {
	core.RegisterMeta("C34", core.Meta{
		Rule: "zcrypto<->zcrypto pairs (TLS 1.2 and 1.3; GCM, ChaCha20, CBC, RC4), 2..8 goroutines per side with random programs over Read / Write / Handshake (also racing into the first handshake) / ConnectionState / " +
			"GetHandshakeLog (after the caller's own Handshake returned) / SetDeadline, SetReadDeadline, SetWriteDeadline (zero, far, near, past) / CloseWrite / Close, optional mid-transfer CloseWrite, Close or transport cut; TLS 1.3 sessions also send KeyUpdate messages (driver hook VerifSendKeyUpdate), one family with a dedicated key-update goroutine per side against 3-4 small-write writers; one TLS 1.0-1.2 family where the client allows renegotiation, the server injects HelloRequests (exported WriteRecord) and 2-4 client goroutines poll ConnectionState; " +
			"writes are writer-tagged, sequence-numbered 8-byte cells so interleaved Write calls stay decodable; single-reader sessions check the exact stream, multi-reader sessions check per-fragment chunk structure, no duplicate / lost cell, per-reader order; " +
			"after both transports are closed every goroutine must return. non-trivial = both handshakes completed, data delivered, >= 4 distinct kinds of operation pairs overlapped in time; distinct by (plan, set of overlapping pairs). race leg: same sessions under -race",
		MinNontrivial:         200,
		MinNontrivialThorough: 1500,
		Shards:                8,
		RaceShards:            8,
		RacePkgs:              []string{"zcrypto/tls"},
		Assumptions: []string{
			"Go's race detector reports only races that occur in the executed schedules",
			"net.Conn semantics: methods may be called from several goroutines at once; concurrent Write calls are atomic per call (zcrypto holds the out lock for a whole Write)",
			"GetHandshakeLog is not in the property's list of calls: it is only invoked after the calling goroutine's own Handshake returned, and not at all in sessions with renegotiation (there it does race with the re-handshake on the unchanged tree: unsynchronised getter)",
			"the in-memory transport synchronises same-side callers through its own mutex, as a kernel socket does",
			"blocking rule budget: 20 s after both transports were closed; the 45 s watchdogs of the transfer phase is inconclusive, never a verdict",
		},
		ChildTimeoutQuick: 1500,
	}, runC34)
}

type c34Plan struct {
	Idx       int
	Cell      string
	NW, NR    [2]int // writers / readers per side (0 = client side)
	NM        [2]int // misc goroutines per side
	Chunks    int    // chunks per writer
	MaxCells  int    // cells per chunk (8 bytes each)
	Procs     int
	Capacity  int
	Seg       string
	Delay     bool
	Deadlines bool   // past / near deadlines are part of the misc programs
	Closer    string // none | closewrite | close | cut
	CloserAt  int    // microseconds after start
	CloserOn  int    // side
	EarlyHS   bool   // everybody starts with an explicit Handshake
	Reneg     int    // TLS 1.0-1.2: 0 no; 1 / 2 the client allows renegotiation (once / freely), the server injects HelloRequests, client goroutines poll ConnectionState
	RenegN    int
	KU        int // TLS 1.3 key updates: 0 none, 1 sprinkled into the misc programs, 2 dedicated goroutine per side against several small-write writers
	KUCount   int
	Seed      uint64
}

func (p *c34Plan) multiReader(side int) bool { return p.NR[side] > 1 }

type opEvent struct {
	kind   string
	t0, t1 int64
}

// gState is the private log of one goroutine (merged after Wait).
type gState struct {
	side    int
	role    string
	events  []opEvent
	panics  []*core.PanicInfo
	frags   [][]byte // reader: fragments in the order this goroutine received them
	readErr error
	// writer
	id       int
	cnts     []int // planned cells per chunk
	okChunks int   // chunks whose Write returned success
	tried    int
	writeErr error
	timeouts int
	gaveUp   bool
}

type c34Session struct {
	base time.Time
}

func (s *c34Session) now() int64 { return int64(time.Since(s.base)) }

func (s *c34Session) op(g *gState, kind string, f func()) {
	t0 := s.now()
	pi := core.Guard(f)
	g.events = append(g.events, opEvent{kind, t0, s.now()})
	if pi != nil {
		g.panics = append(g.panics, pi)
	}
}

func cell8(w, seq, idx, cnt int) [8]byte {
	return [8]byte{byte(w), byte(seq >> 16), byte(seq >> 8), byte(seq), byte(idx >> 8), byte(idx), byte(cnt >> 8), byte(cnt)}
}

func isTimeout(err error) bool {
	var ne net.Error
	return errors.As(err, &ne) && ne.Timeout()
}

var c34Cells = []string{"0303/c02f", "0303/cca8", "0303/c027", "0303/c02b", "0303/0005", "0303/002f", "0304/1301", "0304/1303", "0304/1302"}

func genC34Plan(seed int64, leg string, idx int) *c34Plan {
	rng := rngFor(seed, fmt.Sprintf("C34/%s/%d", leg, idx))
	p := &c34Plan{Idx: idx, Cell: c34Cells[idx%len(c34Cells)], Seed: rng.Uint64()}
	for s := 0; s < 2; s++ {
		p.NW[s] = 1 + rng.IntN(3)
		p.NR[s] = 1
		if rng.IntN(3) == 0 {
			p.NR[s] = 2 + rng.IntN(2)
		}
		p.NM[s] = rng.IntN(3)
		if p.NW[s]+p.NR[s]+p.NM[s] < 2 {
			p.NM[s]++
		}
	}
	p.Chunks = 6 + rng.IntN(30)
	p.MaxCells = []int{4, 64, 700, 3000}[rng.IntN(4)]
	p.Procs = []int{1, 2, 4, 16}[rng.IntN(4)]
	if rng.IntN(4) == 0 {
		p.Capacity = []int{2048, 30000}[rng.IntN(2)]
	}
	p.Seg = []string{"all", "all", "random", "hdrbody", "small"}[rng.IntN(5)]
	p.Delay = rng.IntN(2) == 0
	p.Deadlines = rng.IntN(3) == 0
	p.EarlyHS = rng.IntN(3) == 0
	switch rng.IntN(8) {
	case 0:
		p.Closer = "closewrite"
	case 1:
		p.Closer = "close"
	case 2:
		p.Closer = "cut"
	default:
		p.Closer = "none"
	}
	p.CloserAt = 200 + rng.IntN(20000)
	p.CloserOn = rng.IntN(2)
	tls13 := strings.HasPrefix(p.Cell, "0304/")
	if idx%4 == 3 {
		// key-update family: the peer keeps asking for key updates while several writers with small writes queue on the
		// same connection; nothing else disturbs the session, so every successful Write must arrive
		p.Cell = []string{"0304/1301", "0304/1303", "0304/1302"}[(idx/4)%3]
		for s := 0; s < 2; s++ {
			p.NW[s], p.NR[s], p.NM[s] = 3+rng.IntN(2), 1, rng.IntN(2)
		}
		p.Chunks = 60 + rng.IntN(70)
		p.MaxCells = 3
		p.Procs = []int{2, 4, 16}[rng.IntN(3)]
		p.Delay, p.Deadlines, p.Closer = true, false, "none"
		p.KU, p.KUCount = 2, 30+rng.IntN(50)
		tls13 = true
	} else if tls13 && rng.IntN(2) == 0 {
		p.KU = 1
	}
	if idx%8 == 5 {
		// renegotiation family: a HelloRequest makes the client's Read run the client handshake again (the zcrypto server
		// refuses, so the session ends there); meanwhile other client goroutines keep asking for the connection state
		p.Cell = []string{"0303/c02f", "0303/002f", "0302/c013", "0301/c013", "0303/cca8"}[(idx/8)%5]
		p.NW, p.NR, p.NM = [2]int{1 + rng.IntN(2), 1 + rng.IntN(2)}, [2]int{1, 1}, [2]int{2 + rng.IntN(3), rng.IntN(2)}
		p.Chunks, p.MaxCells = 40+rng.IntN(100), 8
		p.Procs = []int{2, 4, 16}[rng.IntN(3)]
		p.Deadlines, p.Closer, p.Capacity, p.KU = false, "none", 0, 0
		p.Reneg, p.RenegN = 1+rng.IntN(2), 1+rng.IntN(3)
	}
	if p.KU > 0 {
		// answering a key update needs the out lock inside Read; with a bounded pipe both sides can wait for each other's reader
		p.Capacity = 0
	}
	_ = tls13
	return p
}

var c34Blocked int

func runC34(c *core.Ctx) {
	total := c.Pick(320, 9000)
	if c.Leg == "race" {
		total = c.Pick(112, 3000)
	}
	cells := map[string]cell{}
	for _, cl := range serverCells() {
		cells[fmt.Sprintf("%04x/%04x", cl.Version, cl.Suite)] = cl
	}
	defer runtime.GOMAXPROCS(runtime.GOMAXPROCS(0))
	pairKinds := map[string]bool{}
	for i := 0; i < total; i++ {
		if i%c.NShards != c.Shard {
			continue
		}
		if c34Blocked >= 3 {
			c.Note("C34: shard stopped after %d sessions with blocked goroutines (each is reported as a violation)", c34Blocked)
			break
		}
		p := genC34Plan(c.Seed, c.Leg, i)
		id := fmt.Sprintf("conc/%s/%d", c.Leg, i)
		if c.OnlyCase != "" && c.OnlyCase != id {
			continue
		}
		c.Begin(id, p)
		runC34Session(c, id, cells[p.Cell], p, pairKinds)
		c.End(id)
	}
	c.Count("distinct_overlap_pair_kinds_in_shard", len(pairKinds))
}

func runC34Session(c *core.Ctx, id string, cl cell, p *c34Plan, pairKinds map[string]bool) {
	c.Eval(1)
	runtime.GOMAXPROCS(p.Procs)
	sess := &c34Session{base: time.Now()}
	delay := func() {
		// non-synchronising pseudo-randomness: the low bits of the monotonic clock
		switch t := time.Now().UnixNano() >> 3; t % 23 {
		case 0:
			time.Sleep(time.Duration(1+t%50) * time.Microsecond)
		case 1, 2, 3:
			runtime.Gosched()
		}
	}
	mkOpt := func(seed uint64) netx.Options {
		o := netx.Options{Capacity: p.Capacity, Segment: segSpec{p.Seg, seed}.fn()}
		if p.Delay {
			o.DelayHook = delay
		}
		return o
	}
	a, b, _ := netx.Pipe(mkOpt(p.Seed), mkOpt(p.Seed^0x55))
	seed := hash64(id)
	cc, sc := zClient(cl, seed), zServer(cl, seed+1)
	switch p.Reneg {
	case 1:
		cc.Renegotiation = ztls.RenegotiateOnceAsClient
	case 2:
		cc.Renegotiation = ztls.RenegotiateFreelyAsClient
	}
	for s := 0; s < 2; s++ {
		if p.multiReader(1 - s) {
			// the peer has several readers: keep records cell-aligned so that every fragment is decodable on its own
			if s == 0 {
				cc.DynamicRecordSizingDisabled = true
			} else {
				sc.DynamicRecordSizingDisabled = true
			}
		}
	}
	conns := [2]*ztls.Conn{ztls.Client(a, cc), ztls.Server(b, sc)}
	transports := [2]*netx.Conn{a, b}

	var all []*gState
	var wgWriters, wgReaders, wgMisc [2]sync.WaitGroup
	gate := make(chan struct{})
	prng := rand.New(rand.NewPCG(p.Seed, 34))

	hsFirst := func(g *gState, conn *ztls.Conn) bool {
		if !p.EarlyHS {
			return true
		}
		var err error
		sess.op(g, "Handshake", func() { err = conn.Handshake() })
		return err == nil
	}
	sprinkle := func(g *gState, conn *ztls.Conn, r *rand.Rand) {
		switch r.IntN(12) {
		case 0:
			sess.op(g, "ConnectionState", func() { _ = conn.ConnectionState().Version })
		case 1:
			sess.op(g, "Handshake", func() { conn.Handshake() })
		case 2:
			sess.op(g, "SetDeadline", func() { conn.SetDeadline(time.Time{}) })
		case 3:
			sess.op(g, "SetWriteDeadline", func() { conn.SetWriteDeadline(time.Now().Add(time.Hour)) })
		case 4:
			sess.op(g, "SetReadDeadline", func() { conn.SetReadDeadline(time.Now().Add(time.Hour)) })
		}
	}

	for side := 0; side < 2; side++ {
		conn := conns[side]
		for w := 0; w < p.NW[side]; w++ {
			g := &gState{side: side, role: "writer", id: w}
			for k := 0; k < p.Chunks; k++ {
				n := 1 + prng.IntN(p.MaxCells)
				if prng.IntN(4) == 0 {
					n = 1 + prng.IntN(4)
				}
				g.cnts = append(g.cnts, n)
			}
			all = append(all, g)
			r := rand.New(rand.NewPCG(p.Seed, uint64(100+side*10+w)))
			wgWriters[side].Add(1)
			go func() {
				defer wgWriters[side].Done()
				<-gate
				hsFirst(g, conn)
				for seq, n := range g.cnts {
					buf := make([]byte, 0, 8*n)
					for i := 0; i < n; i++ {
						cl := cell8(g.id, seq, i, n)
						buf = append(buf, cl[:]...)
					}
					var k int
					var err error
					g.tried++
					sess.op(g, "Write", func() { k, err = conn.Write(buf) })
					if err == nil && k != len(buf) {
						err = fmt.Errorf("short write %d/%d without error", k, len(buf))
					}
					if err != nil {
						g.writeErr = err
						return
					}
					g.okChunks++
					sprinkle(g, conn, r)
				}
			}()
		}
		for rd := 0; rd < p.NR[side]; rd++ {
			g := &gState{side: side, role: "reader", id: rd}
			all = append(all, g)
			r := rand.New(rand.NewPCG(p.Seed, uint64(200+side*10+rd)))
			aligned := p.multiReader(side)
			wgReaders[side].Add(1)
			go func() {
				defer wgReaders[side].Done()
				<-gate
				hsFirst(g, conn)
				buf := make([]byte, 40000)
				for {
					k := 1 + r.IntN(len(buf))
					if r.IntN(3) == 0 {
						k = 1 + r.IntN(100)
					}
					if aligned {
						k = 8 * (1 + k/8)
						if k > len(buf) {
							k = len(buf)
						}
					}
					var n int
					var err error
					sess.op(g, "Read", func() { n, err = conn.Read(buf[:k]) })
					if n > 0 {
						g.frags = append(g.frags, append([]byte(nil), buf[:n]...))
					}
					if err != nil {
						if isTimeout(err) && g.timeouts < 300 {
							g.timeouts++
							sess.op(g, "SetReadDeadline", func() { conn.SetReadDeadline(time.Time{}) })
							continue
						}
						if isTimeout(err) {
							g.gaveUp = true
						}
						g.readErr = err
						return
					}
					if r.IntN(6) == 0 {
						sprinkle(g, conn, r)
					}
				}
			}()
		}
		for m := 0; m < p.NM[side]; m++ {
			g := &gState{side: side, role: "misc", id: m}
			all = append(all, g)
			r := rand.New(rand.NewPCG(p.Seed, uint64(300+side*10+m)))
			wgMisc[side].Add(1)
			go func() {
				defer wgMisc[side].Done()
				<-gate
				hsOK := false
				iters := 20 + r.IntN(150)
				for i := 0; i < iters; i++ {
					switch k := r.IntN(16); {
					case k < 4:
						sess.op(g, "ConnectionState", func() { _ = conn.ConnectionState().CipherSuite })
					case k < 7:
						var err error
						sess.op(g, "Handshake", func() { err = conn.Handshake() })
						hsOK = err == nil
					case k < 9:
						// with renegotiation the log pointer is replaced by a later handshake, so "after my own Handshake
						// returned" no longer orders the unsynchronised getter (which is not in the statement's list): not called there
						if hsOK && p.Reneg == 0 {
							sess.op(g, "GetHandshakeLog", func() {
								if l := conn.GetHandshakeLog(); l != nil && l.ServerHello != nil {
									_ = l.ServerHello.Version
								}
							})
						}
					case k < 10 && p.KU == 1 && hsOK:
						sess.op(g, "KeyUpdate", func() { conn.VerifSendKeyUpdate(r.IntN(2) == 0) })
					case k < 11:
						sess.op(g, "SetDeadline", func() { conn.SetDeadline(time.Time{}) })
					case k < 12:
						sess.op(g, "SetReadDeadline", func() { conn.SetReadDeadline(time.Now().Add(time.Hour)) })
					case k < 13:
						sess.op(g, "SetWriteDeadline", func() { conn.SetWriteDeadline(time.Time{}) })
					default:
						if p.Deadlines && hsOK {
							switch r.IntN(4) {
							case 0:
								sess.op(g, "SetReadDeadline", func() { conn.SetReadDeadline(time.Now().Add(-time.Second)) })
							case 1:
								sess.op(g, "SetReadDeadline", func() { conn.SetReadDeadline(time.Now().Add(time.Duration(50+r.IntN(2000)) * time.Microsecond)) })
							case 2:
								sess.op(g, "SetDeadline", func() { conn.SetDeadline(time.Now().Add(time.Duration(200+r.IntN(3000)) * time.Microsecond)) })
							default:
								sess.op(g, "SetWriteDeadline", func() { conn.SetWriteDeadline(time.Now().Add(time.Duration(100+r.IntN(3000)) * time.Microsecond)) })
							}
						}
					}
					if r.IntN(3) == 0 {
						time.Sleep(time.Duration(r.IntN(300)) * time.Microsecond)
					} else {
						runtime.Gosched()
					}
				}
			}()
		}
	}
	if p.KU == 2 {
		for side := 0; side < 2; side++ {
			conn := conns[side]
			g := &gState{side: side, role: "keyupdate"}
			all = append(all, g)
			r := rand.New(rand.NewPCG(p.Seed, uint64(400+side)))
			wgMisc[side].Add(1)
			go func() {
				defer wgMisc[side].Done()
				<-gate
				var err error
				sess.op(g, "Handshake", func() { err = conn.Handshake() })
				if err != nil {
					return
				}
				for i := 0; i < p.KUCount; i++ {
					time.Sleep(time.Duration(r.IntN(400)) * time.Microsecond)
					sess.op(g, "KeyUpdate", func() { err = conn.VerifSendKeyUpdate(r.IntN(4) != 0) })
					if err != nil {
						return
					}
					g.okChunks++
				}
			}()
		}
	}
	var wgReneg sync.WaitGroup
	if p.Reneg > 0 {
		// the server asks for renegotiation through the exported WriteRecord (handshake record holding a HelloRequest)
		g := &gState{side: 1, role: "reneg"}
		all = append(all, g)
		r := rand.New(rand.NewPCG(p.Seed, 500))
		wgReneg.Add(1)
		wgMisc[1].Add(1)
		go func() {
			defer wgMisc[1].Done()
			defer wgReneg.Done()
			<-gate
			var err error
			sess.op(g, "Handshake", func() { err = conns[1].Handshake() })
			if err != nil {
				return
			}
			for i := 0; i < p.RenegN; i++ {
				time.Sleep(time.Duration(200+r.IntN(4000)) * time.Microsecond)
				sess.op(g, "WriteRecord(HelloRequest)", func() { conns[1].WriteRecord(22, []byte{0, 0, 0, 0}) })
			}
		}()
		// the client's misc goroutines become pure ConnectionState pollers for a while
		for m := 0; m < 2+int(p.Seed%3); m++ {
			g := &gState{side: 0, role: "poller", id: m}
			all = append(all, g)
			wgMisc[0].Add(1)
			go func() {
				defer wgMisc[0].Done()
				<-gate
				var err error
				sess.op(g, "Handshake", func() { err = conns[0].Handshake() })
				if err != nil {
					return
				}
				start := time.Now()
				for i := 0; time.Since(start) < 40*time.Millisecond; i++ {
					sess.op(g, "ConnectionState", func() { _ = conns[0].ConnectionState().ServerName })
					if i%8 == 7 {
						runtime.Gosched()
					}
				}
			}()
		}
	}
	// optional closer
	closerG := &gState{side: p.CloserOn, role: "closer"}
	var wgCloser sync.WaitGroup
	if p.Closer != "none" {
		all = append(all, closerG)
		wgCloser.Add(1)
		go func() {
			defer wgCloser.Done()
			<-gate
			for i := 0; i < 20000; i++ {
				done := false
				sess.op(closerG, "ConnectionState", func() { done = conns[p.CloserOn].ConnectionState().HandshakeComplete })
				if done {
					break
				}
				time.Sleep(200 * time.Microsecond)
			}
			time.Sleep(time.Duration(p.CloserAt) * time.Microsecond)
			switch p.Closer {
			case "closewrite":
				sess.op(closerG, "CloseWrite", func() { conns[p.CloserOn].CloseWrite() })
			case "close":
				sess.op(closerG, "Close", func() { conns[p.CloserOn].Close() })
			case "cut":
				transports[p.CloserOn].Close()
			}
		}()
	}
	allDone := make(chan struct{})
	go func() {
		for s := 0; s < 2; s++ {
			wgWriters[s].Wait()
			wgReaders[s].Wait()
			wgMisc[s].Wait()
		}
		wgCloser.Wait()
		close(allDone)
	}()
	close(gate)

	// phase 1: writers finish; then an orderly CloseWrite on each side lets the readers see EOF
	writersDone := make(chan struct{})
	go func() { wgWriters[0].Wait(); wgWriters[1].Wait(); wgCloser.Wait(); close(writersDone) }()
	watchdog := false
	coord := [2]*gState{{side: 0, role: "coordinator"}, {side: 1, role: "coordinator"}}
	if p.Reneg > 0 {
		// the refused renegotiation leaves the client inside its second handshake and its writers queued behind it:
		// nothing more will move; give the pollers their time, then go straight to the close (phase 2)
		renegDone := make(chan struct{})
		go func() { wgReneg.Wait(); close(renegDone) }()
		if !waitTimeout(renegDone, 45*time.Second) {
			watchdog = true
		}
		waitTimeout(allDone, 60*time.Millisecond)
	} else if waitTimeout(writersDone, 45*time.Second) {
		for s := 0; s < 2; s++ {
			sess.op(coord[s], "CloseWrite", func() { conns[s].CloseWrite() })
			// the transport's write side follows, so that the peer's readers end even if the alert could not be sent
			transports[s].CloseWrite()
		}
		if !waitTimeout(allDone, 45*time.Second) {
			watchdog = true
		}
	} else {
		watchdog = true
	}
	var dumpBefore string
	if watchdog {
		dumpBefore = allStacks()
		c.Count("transfer_watchdog_inconclusive", 1)
	}
	// phase 2: both transports closed: everybody must return
	a.Close()
	b.Close()
	if !waitTimeout(allDone, 20*time.Second) {
		dump := allStacks()
		frame, state := "?", "?"
		for _, g := range splitDump(dump) {
			if strings.Contains(g.Text, "tlsfaulteng.(*c34Session).op") && strings.Contains(g.Text, "zcrypto/tls") {
				frame, state = firstZFrame(g.Text), stateClass(g.State)
				break
			}
		}
		c34Blocked++
		c.Violation(fmt.Sprintf("blocked-after-close:%s@%s", state, frame), "goroutines still inside zcrypto calls 20 s after both transports were closed\n"+dump, id, p)
		return
	}
	if watchdog {
		c.Note("C34 %s: transfer watchdog fired (everything returned after the transports were closed); plan %+v; before close: %s", id, *p, summarizeDump(dumpBefore))
	}
	all = append(all, coord[0], coord[1])
	// calls after Close return errors, never panic
	for s := 0; s < 2; s++ {
		sess.op(coord[s], "Close", func() { conns[s].Close() })
		sess.op(coord[s], "Read", func() { conns[s].Read(make([]byte, 8)) })
		sess.op(coord[s], "Write", func() { conns[s].Write(make([]byte, 8)) })
		sess.op(coord[s], "ConnectionState", func() { conns[s].ConnectionState() })
	}
	for _, g := range all {
		for _, pi := range g.panics {
			c.Violation(panicKey(pi), pi.Value+"\n"+pi.Stack, id, p)
		}
	}

	// ---- stream oracle ----
	hsOK := conns[0].ConnectionState().HandshakeComplete && conns[1].ConnectionState().HandshakeComplete
	if p.Reneg > 0 && conns[1].ConnectionState().HandshakeComplete && !conns[0].ConnectionState().HandshakeComplete && conns[0].ConnectionState().Version != 0 {
		// the client went back into a handshake: the HelloRequest was processed
		hsOK = true
		c.Count("renegotiations_started", 1)
	}
	delivered := 0
	for from := 0; from < 2; from++ {
		to := 1 - from
		var writers, readers []*gState
		for _, g := range all {
			if g.role == "writer" && g.side == from {
				writers = append(writers, g)
			}
			if g.role == "reader" && g.side == to {
				readers = append(readers, g)
			}
		}
		sort.Slice(writers, func(i, j int) bool { return writers[i].id < writers[j].id })
		// an abrupt end on the sending side (Close with writes in flight, transport cut) legitimately truncates the stream
		// at a record boundary, which zcrypto reports as io.EOF just like an orderly close
		orderly := !((p.Closer == "close" || p.Closer == "cut") && p.CloserOn == from) && p.Reneg == 0
		key, detail, got := checkStream(writers, readers, orderly)
		delivered += got
		if key == "" && hsOK && p.Closer == "none" && !p.Deadlines && !watchdog && p.Reneg == 0 {
			// nothing disturbed this session (no close, no cut, no deadline): the direction must end in order,
			// every Write must have succeeded and every reader must see EOF after the last byte
			for _, w := range writers {
				if w.writeErr != nil {
					key, detail = "write-error-in-undisturbed-session", fmt.Sprintf("writer %d: chunk %d: %v", w.id, w.okChunks, w.writeErr)
				}
			}
			for _, r := range readers {
				if r.readErr != io.EOF {
					key, detail = "reader-error-in-undisturbed-session", fmt.Sprintf("reader %d ended with %v after %d fragments; the peer's writers had %d successful Write calls in total", r.id, r.readErr, len(r.frags), okTotal(writers))
				}
			}
		}
		if key != "" {
			dir := "client->server"
			if from == 1 {
				dir = "server->client"
			}
			c.Violation(fmt.Sprintf("stream:%s:%s:%s", key, dir, map[bool]string{false: "single-reader", true: "multi-reader"}[len(readers) > 1]), detail, id, p)
		}
	}
	c.Count("cells_delivered", delivered)

	// ---- overlap evidence ----
	pairs := overlapPairs(all)
	for k, n := range pairs {
		c.Count("overlap:"+k, n)
		pairKinds[k] = true
	}
	for _, g := range all {
		for _, e := range g.events {
			c.Count("op:"+e.kind, 1)
		}
	}
	if hsOK && delivered > 0 && len(pairs) >= 4 && !watchdog {
		ks := make([]string, 0, len(pairs))
		for k := range pairs {
			ks = append(ks, k)
		}
		sort.Strings(ks)
		c.Nontrivial(id, strings.Join(ks, ","))
		c.Count("sessions_nontrivial", 1)
	} else if !hsOK {
		c.Count("sessions_handshake_failed", 1)
	}
	if c.WantSample() {
		ks := make([]string, 0, len(pairs))
		for k, n := range pairs {
			ks = append(ks, fmt.Sprintf("%s=%d", k, n))
		}
		sort.Strings(ks)
		c.Sample(map[string]any{"case": id, "cell": p.Cell, "writers": p.NW, "readers": p.NR, "misc": p.NM, "closer": p.Closer, "gomaxprocs": p.Procs, "cells_delivered": delivered, "overlaps": ks})
	}
}

// overlapPairs counts, per side, the pairs of operations of different goroutines whose intervals intersect.
func overlapPairs(all []*gState) map[string]int {
	type iv struct {
		kind   string
		g      int
		t0, t1 int64
	}
	out := map[string]int{}
	for side := 0; side < 2; side++ {
		var ivs []iv
		for gi, g := range all {
			if g.side != side {
				continue
			}
			for _, e := range g.events {
				ivs = append(ivs, iv{e.kind, gi, e.t0, e.t1})
			}
		}
		sort.Slice(ivs, func(i, j int) bool { return ivs[i].t0 < ivs[j].t0 })
		// sweep: active list
		var active []iv
		for _, x := range ivs {
			k := 0
			for _, y := range active {
				if y.t1 > x.t0 {
					active[k] = y
					k++
					if y.g != x.g {
						a, b := x.kind, y.kind
						if a > b {
							a, b = b, a
						}
						out[a+"|"+b]++
					}
				}
			}
			active = append(active[:k], x)
			if len(active) > 64 {
				active = active[len(active)-64:]
			}
		}
	}
	return out
}

// checkStream validates what the readers of one direction received against what its writers sent.
func checkStream(writers, readers []*gState, orderly bool) (key, detail string, cells int) {
	nw := len(writers)
	type cellKey struct{ w, seq, idx int }
	clean := orderly // every reader ended with io.EOF and the sender did not end abruptly: the direction was closed in order
	for _, r := range readers {
		if r.readErr != io.EOF {
			clean = false
		}
	}
	parse := func(b []byte) (w, seq, idx, cnt int) {
		return int(b[0]), int(b[1])<<16 | int(b[2])<<8 | int(b[3]), int(b[4])<<8 | int(b[5]), int(b[6])<<8 | int(b[7])
	}
	valid := func(w, seq, idx, cnt int) bool {
		return w < nw && seq < len(writers[w].cnts) && cnt == writers[w].cnts[seq] && idx < cnt
	}
	complete := make([]int, nw) // complete chunks seen per writer
	if len(readers) == 1 {
		var stream []byte
		for _, f := range readers[0].frags {
			stream = append(stream, f...)
		}
		next := make([]int, nw)
		open := false
		var ow, os, oi, oc int
		for off := 0; off+8 <= len(stream); off += 8 {
			w, seq, idx, cnt := parse(stream[off:])
			cells++
			if !valid(w, seq, idx, cnt) {
				return "corrupt-cell", fmt.Sprintf("offset %d: cell (writer %d, chunk %d, index %d of %d) was never sent", off, w, seq, idx, cnt), cells
			}
			if open {
				if w != ow || seq != os || idx != oi {
					return "chunk-interleaved", fmt.Sprintf("offset %d: expected cell %d of chunk (%d,%d), got (writer %d, chunk %d, index %d): a single Write was split or reordered", off, oi, ow, os, w, seq, idx), cells
				}
			} else {
				if idx != 0 {
					return "chunk-start-missing", fmt.Sprintf("offset %d: chunk (%d,%d) starts at index %d", off, w, seq, idx), cells
				}
				if seq != next[w] {
					return "chunk-order", fmt.Sprintf("offset %d: writer %d: expected chunk %d, got %d (lost, duplicated or reordered Write)", off, w, next[w], seq), cells
				}
				ow, os, oc = w, seq, cnt
			}
			oi = idx + 1
			open = oi < oc
			if !open {
				next[w]++
				complete[w]++
			}
		}
		// only a chunk whose Write call failed (deadline, shutdown) may be incomplete at the end
		if clean && (open || len(stream)%8 != 0) && os < writers[ow].okChunks {
			return "truncated-before-eof", fmt.Sprintf("reader saw EOF inside chunk (%d,%d) at cell %d of %d (stream %d bytes)", ow, os, oi, oc, len(stream)), cells
		}
	} else {
		seen := map[cellKey]bool{}
		perChunk := map[[2]int]int{}
		for ri, r := range readers {
			last := make([][2]int, nw)
			for i := range last {
				last[i] = [2]int{-1, -1}
			}
			for fi, f := range r.frags {
				if len(f)%8 != 0 {
					// not decodable on its own (depends on record alignment, which is not part of the property)
					return "", "", cells
				}
				prev := [4]int{-1, 0, 0, 0}
				for off := 0; off+8 <= len(f); off += 8 {
					w, seq, idx, cnt := parse(f[off:])
					cells++
					if !valid(w, seq, idx, cnt) {
						return "corrupt-cell", fmt.Sprintf("reader %d fragment %d offset %d: cell (writer %d, chunk %d, index %d of %d) was never sent", ri, fi, off, w, seq, idx, cnt), cells
					}
					k := cellKey{w, seq, idx}
					if seen[k] {
						return "duplicate-cell", fmt.Sprintf("reader %d fragment %d: cell (writer %d, chunk %d, index %d) delivered twice", ri, fi, w, seq, idx), cells
					}
					seen[k] = true
					perChunk[[2]int{w, seq}]++
					if prev[0] >= 0 {
						if prev[2] < prev[3]-1 {
							if w != prev[0] || seq != prev[1] || idx != prev[2]+1 {
								return "chunk-interleaved", fmt.Sprintf("reader %d fragment %d offset %d: after cell %d of chunk (%d,%d) came (writer %d, chunk %d, index %d)", ri, fi, off, prev[2], prev[0], prev[1], w, seq, idx), cells
							}
						} else if idx != 0 {
							return "chunk-start-missing", fmt.Sprintf("reader %d fragment %d offset %d: chunk (%d,%d) continues at index %d after a complete chunk", ri, fi, off, w, seq, idx), cells
						}
					}
					if l := last[w]; seq < l[0] || (seq == l[0] && idx <= l[1]) {
						return "reader-order", fmt.Sprintf("reader %d: writer %d cell (%d,%d) received after (%d,%d)", ri, w, seq, idx, l[0], l[1]), cells
					}
					last[w] = [2]int{seq, idx}
					prev = [4]int{w, seq, idx, cnt}
				}
			}
		}
		for w := 0; w < nw; w++ {
			for seq := 0; seq < len(writers[w].cnts); seq++ {
				n := perChunk[[2]int{w, seq}]
				if n == writers[w].cnts[seq] {
					complete[w]++
				} else if n > 0 && clean && seq < writers[w].okChunks {
					return "truncated-before-eof", fmt.Sprintf("all readers saw EOF but chunk (%d,%d) arrived with %d of %d cells", w, seq, n, writers[w].cnts[seq]), cells
				} else if n == 0 && clean && seq < writers[w].okChunks {
					return "lost-chunk", fmt.Sprintf("all readers saw EOF but chunk (%d,%d), whose Write returned success, never arrived", w, seq), cells
				}
			}
		}
	}
	for w := 0; w < nw; w++ {
		if complete[w] > writers[w].tried {
			return "phantom-chunk", fmt.Sprintf("writer %d attempted %d chunks, %d arrived", w, writers[w].tried, complete[w]), cells
		}
		if clean && complete[w] < writers[w].okChunks {
			return "lost-chunk", fmt.Sprintf("the direction ended with EOF at every reader, writer %d had %d successful Write calls, only %d chunks arrived", w, writers[w].okChunks, complete[w]), cells
		}
	}
	return "", "", cells
}

func okTotal(ws []*gState) int {
	n := 0
	for _, w := range ws {
		n += w.okChunks
	}
	return n
}
