package tlsfaulteng

import (
	"fmt"

	"hash/fnv"
	"math/rand/v2"
	"regexp"
	"runtime"
	"strings"
	"time"
	"verifharness/internal/core"
)

// splitmix64 is the position-dependent byte source of the payload streams.
func splitmix64(x uint64) uint64 {
	x += 0x9e3779b97f4a7c15
	x = (x ^ (x >> 30)) * 0xbf58476d1ce4e5b9
	x = (x ^ (x >> 27)) * 0x94d049bb133111eb
	return x ^ (x >> 31)
}

// makeStream returns n bytes whose every 8-byte window depends on its position and on key,
// so that a duplicated, dropped or reordered piece cannot go unnoticed.
func makeStream(key uint64, n int) []byte {
	out := make([]byte, n)
	for i := 0; i < n; i += 8 {
		v := splitmix64(key ^ uint64(i/8)*0x9e3779b97f4a7c15)
		for j := 0; j < 8 && i+j < n; j++ {
			out[i+j] = byte(v >> (8 * j))
		}
	}
	return out
}

func rngFor(seed int64, label string) *rand.Rand {
	h := fnv.New64a()
	h.Write([]byte(label))
	return rand.New(rand.NewPCG(uint64(seed), h.Sum64()))
}

func hash64(s string) uint64 {
	h := fnv.New64a()
	h.Write([]byte(s))
	return h.Sum64()
}

// allStacks returns a dump of every goroutine.
func allStacks() string {
	buf := make([]byte, 1<<20)
	for {
		n := runtime.Stack(buf, true)
		if n < len(buf) {
			return string(buf[:n])
		}
		buf = make([]byte, 2*len(buf))
	}
}

var (
	reZFrame   = regexp.MustCompile(`(?m)^github\.com/zmap/zcrypto/([^\s(]+(?:\([^)]*\))?[^\s(]*)\(`)
	reGoHeader = regexp.MustCompile(`(?m)^goroutine (\d+) \[([^\]]+)\]:$`)
)

// goroutineBlock is one goroutine of a dump.
type goroutineBlock struct {
	ID    string
	State string
	Text  string
}

func splitDump(d string) []goroutineBlock {
	var out []goroutineBlock
	for _, blk := range strings.Split(d, "\n\n") {
		m := reGoHeader.FindStringSubmatch(blk)
		if m == nil {
			continue
		}
		out = append(out, goroutineBlock{ID: m[1], State: m[2], Text: blk})
	}
	return out
}

// firstZFrame returns the innermost zcrypto frame of a goroutine block (function name, no line numbers).
func firstZFrame(blk string) string {
	m := reZFrame.FindStringSubmatch(blk)
	if m == nil {
		return "?"
	}
	return m[1]
}

// stateClass strips durations from a goroutine state ("sync.Mutex.Lock, 2 minutes" -> "sync.Mutex.Lock").
func stateClass(s string) string {
	if i := strings.IndexByte(s, ','); i >= 0 {
		s = s[:i]
	}
	return strings.ReplaceAll(s, " ", "_")
}

// waitTimeout waits for done to be closed, at most d.
func waitTimeout(done <-chan struct{}, d time.Duration) bool {
	t := time.NewTimer(d)
	defer t.Stop()
	select {
	case <-done:
		return true
	case <-t.C:
		return false
	}
}

func versionName(v uint16) string {
	switch v {
	case vTLS10:
		return "tls10"
	case vTLS11:
		return "tls11"
	case vTLS12:
		return "tls12"
	case vTLS13:
		return "tls13"
	}
	return fmt.Sprintf("v%04x", v)
}

func errString(err error) string {
	if err == nil {
		return "<nil>"
	}
	return err.Error()
}

// summarizeDump lists, for every goroutine that has a frame of this package or of zcrypto/tls, its state and innermost frames.
func summarizeDump(d string) string {
	var sb strings.Builder
	for _, g := range splitDump(d) {
		if !strings.Contains(g.Text, "tlsfaulteng") && !strings.Contains(g.Text, "zcrypto/tls") {
			continue
		}
		lines := strings.Split(g.Text, "\n")
		var fr []string
		for _, l := range lines[1:] {
			if strings.HasPrefix(l, "\t") || strings.HasPrefix(l, "created by") {
				continue
			}
			if i := strings.IndexByte(l, '('); i > 0 {
				l = l[:i]
			}
			if j := strings.LastIndexByte(l, '/'); j >= 0 {
				l = l[j+1:]
			}
			fr = append(fr, l)
			if len(fr) >= 7 {
				break
			}
		}
		fmt.Fprintf(&sb, "[%s: %s] ", g.State, strings.Join(fr, " < "))
	}
	return sb.String()
}

// panicKey is the witness key of a recovered panic: value class @ innermost zcrypto function
// (core.Classify stops at the receiver parenthesis of methods, which would merge all methods of a package).
func panicKey(pi *core.PanicInfo) string {
	k := pi.Key
	if i := strings.LastIndexByte(k, '@'); i >= 0 {
		k = k[:i]
	}
	return k + "@" + firstZFrame(pi.Stack)
}
