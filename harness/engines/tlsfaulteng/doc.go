// Package tlsfaulteng holds property monitors (see /verif/DESIGN.md section 4).
package tlsfaulteng
