package tlsfaulteng

// Hand-built server flight for the DHE_RSA suites: zcrypto implements DHE on the
// client side only and Go's crypto/tls not at all, so no recording peer exists.
// The flight (ServerHello, Certificate, ServerKeyExchange, ServerHelloDone) is
// built from the wire formats of RFC 5246 §7.4 with a DH group taken from the
// key pool's DSA parameters and signed with the pool's RSA leaf key, so that a
// verifying client accepts it and answers with its ClientKeyExchange flight.

import (
	"crypto"
	"crypto/md5"
	gorsa "crypto/rsa"
	"crypto/sha1"
	_ "crypto/sha256"
	_ "crypto/sha512"
	"fmt"
	"io"
	"time"

	ztls "github.com/zmap/zcrypto/tls"

	"verifharness/internal/keys"
	"verifharness/internal/netx"
	"verifharness/internal/tlspair"
)

func u16(v int) []byte { return []byte{byte(v >> 8), byte(v)} }
func u24(v int) []byte { return []byte{byte(v >> 16), byte(v >> 8), byte(v)} }

func hsMessage(typ byte, body []byte) []byte {
	return append(append([]byte{typ}, u24(len(body))...), body...)
}

func (sc *scenario) synthDHE() (*transcript, error) {
	t := &transcript{sc: sc}
	// 1. learn the client's (deterministic) ClientHello random
	a, b, _ := netx.Pipe(netx.Options{}, netx.Options{})
	conn := ztls.Client(a, sc.eutClient(nil, nil))
	done := make(chan struct{})
	go func() { conn.Handshake(); close(done) }()
	hdr := make([]byte, 5)
	b.SetDeadline(time.Now().Add(20 * time.Second))
	if _, err := io.ReadFull(b, hdr); err != nil {
		a.Close()
		b.Close()
		return nil, fmt.Errorf("synthetic: reading ClientHello: %v", err)
	}
	body := make([]byte, int(hdr[3])<<8|int(hdr[4]))
	if _, err := io.ReadFull(b, body); err != nil || len(body) < 4+2+32 {
		a.Close()
		b.Close()
		return nil, fmt.Errorf("synthetic: reading ClientHello body: %v", err)
	}
	a.Close()
	b.Close()
	<-done
	clientRandom := body[6:38]
	offered := false
	// cipher suites follow the session id
	if p := 38 + 1 + int(body[38]); p+2 <= len(body) {
		n := int(body[p])<<8 | int(body[p+1])
		for i := p + 2; i+1 < p+2+n && i+1 < len(body); i += 2 {
			if uint16(body[i])<<8|uint16(body[i+1]) == sc.Cell.Suite {
				offered = true
			}
		}
	}
	if !offered {
		return nil, fmt.Errorf("synthetic: client does not offer %04x", sc.Cell.Suite)
	}
	// 2. the flight
	v := sc.Cell.Version
	serverRandom := makeStream(hash64(sc.Name), 32)
	sh := append(u16(int(v)), serverRandom...)
	sh = append(sh, 0)                          // empty session id
	sh = append(sh, u16(int(sc.Cell.Suite))...) // cipher suite
	sh = append(sh, 0)                          // null compression
	sh = append(sh, u16(5)...)                  // extensions: renegotiation_info (empty)
	sh = append(sh, 0xff, 0x01, 0x00, 0x01, 0x00)
	leaf := tlspair.Get().Server[tlspair.RSA2048]
	var list []byte
	for _, der := range leaf.Chain {
		list = append(list, u24(len(der))...)
		list = append(list, der...)
	}
	certMsg := append(u24(len(list)), list...)
	var dsaKey *keys.DSAKey
	for i := range keys.Get().DSA {
		if keys.Get().DSA[i].L == 2048 {
			dsaKey = &keys.Get().DSA[i]
		}
	}
	if dsaKey == nil && len(keys.Get().DSA) > 0 {
		dsaKey = &keys.Get().DSA[0]
	}
	if dsaKey == nil {
		return nil, fmt.Errorf("synthetic: no DSA parameters in the key pool")
	}
	p, g, ys := dsaKey.Priv.P.Bytes(), dsaKey.Priv.G.Bytes(), dsaKey.Priv.Y.Bytes()
	params := append(u16(len(p)), p...)
	params = append(params, u16(len(g))...)
	params = append(params, g...)
	params = append(params, u16(len(ys))...)
	params = append(params, ys...)
	signed := append(append(append([]byte(nil), clientRandom...), serverRandom...), params...)
	rsaKey, ok := leaf.Key.(*gorsa.PrivateKey)
	if !ok {
		return nil, fmt.Errorf("synthetic: RSA leaf key missing")
	}
	skx := append([]byte(nil), params...)
	var sig []byte
	var err error
	if v >= vTLS12 {
		hid, ch := byte(4), crypto.SHA256
		switch sc.SynthHash {
		case 2:
			hid, ch = 2, crypto.SHA1
		case 5:
			hid, ch = 5, crypto.SHA384
		case 6:
			hid, ch = 6, crypto.SHA512
		}
		h := ch.New()
		h.Write(signed)
		sig, err = gorsa.SignPKCS1v15(nil, rsaKey, ch, h.Sum(nil))
		skx = append(skx, hid, 1) // hash, rsa
	} else {
		m, s := md5.Sum(signed), sha1.Sum(signed)
		sig, err = gorsa.SignPKCS1v15(nil, rsaKey, crypto.MD5SHA1, append(m[:], s[:]...))
	}
	if err != nil {
		return nil, err
	}
	skx = append(skx, u16(len(sig))...)
	skx = append(skx, sig...)
	for _, m := range [][]byte{hsMessage(2, sh), hsMessage(11, certMsg), hsMessage(12, skx), hsMessage(14, nil)} {
		t.items = append(t.items, item{Typ: 22, Ver: v, Frag: m})
	}
	t.prot = &protection{version: v, suite: sc.Cell.Suite, ref: sc.Cell.Ref}
	return t, nil
}
