package tlslogeng

import (
	"math/rand/v2"
	"os"
	"strconv"
	"testing"
)

func TestDbg(t *testing.T) {
	idx, _ := strconv.Atoi(os.Getenv("C28_IDX"))
	cells := buildCells()
	perm := rand.New(rand.NewPCG(1, 2)).Perm(len(cells))
	rng := rand.New(rand.NewPCG(uint64(idx), 99))
	sp := makeSpec(cells[perm[idx%len(cells)]], idx, rng)
	t.Logf("%s", sp.String())
	cr := runCase(sp)
	for _, o := range cr.Obs {
		t.Logf("%s cerr=%v serr=%v note=%s", o.Label, o.CErr, o.SErr, cr.Note)
		recs, left := splitTap(o.Tap)
		w := interpret(recs)
		for i, r := range recs {
			n := len(r.Payload)
			if n > 24 {
				n = 24
			}
			t.Logf("  rec %d %s typ=%d ver=%04x len=%d %x", i, r.Dir, r.Typ, r.Ver, len(r.Payload), r.Payload[:n])
		}
		for _, m := range w.Msgs {
			t.Logf("  msg %s typ=%d len=%d rec=%d", m.Dir, m.Typ, len(m.Body), m.Rec)
		}
		t.Logf("  left=%v notes=%v tls13=%v", left, w.Notes, w.TLS13)
	}
}

func TestDbgUnknown(t *testing.T) {
	cells := buildCells()
	perm := rand.New(rand.NewPCG(1, 2)).Perm(len(cells))
	seen := map[string]int{}
	for idx := 0; idx < 120; idx++ {
		rng := rand.New(rand.NewPCG(uint64(idx), 99))
		sp := makeSpec(cells[perm[idx%len(cells)]], idx, rng)
		cr := runCase(sp)
		for _, o := range cr.Obs {
			if o.Log != nil && o.Log.ServerHello != nil {
				for _, e := range o.Log.ServerHello.UnknownExtensions {
					seen[sp.Cell.Peer+" "+hx(e)]++
				}
			}
		}
	}
	t.Logf("%v", seen)
}
