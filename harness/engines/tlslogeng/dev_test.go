package tlslogeng

import (
	"fmt"
	"math/rand/v2"
	"os"
	"sort"
	"strconv"
	"strings"
	"testing"

	"verifharness/internal/tlspair"
)

// TestDev runs a slice of the case list in-process and prints an overview (development aid, not a verdict).
func TestDev(t *testing.T) {
	if os.Getenv("C28_DEV") == "" {
		t.Skip("development aid; set C28_DEV=1 (and GODEBUG as in the engine's Meta.Env)")
	}
	n := 300
	if v := os.Getenv("C28_N"); v != "" {
		n, _ = strconv.Atoi(v)
	}
	cells := buildCells()
	t.Logf("%d cells", len(cells))
	perm := rand.New(rand.NewPCG(1, 2)).Perm(len(cells))
	pki := tlspair.Get()
	keys := map[string]int{}
	first := map[string]string{}
	counts := map[string]int{}
	sigs := map[string]bool{}
	outcomes := map[string]int{}
	for idx := 0; idx < n; idx++ {
		rng := rand.New(rand.NewPCG(uint64(idx), 99))
		sp := makeSpec(cells[perm[idx%len(cells)]], idx, rng)
		cr := runCase(sp)
		for _, o := range cr.Obs {
			var key any = pki.Server[sp.Cell.Kind].Key
			switch sp.LeafSet {
			case "Untrusted":
				key = pki.Untrusted[sp.Cell.Kind].Key
			case "Expired":
				key = pki.Expired[sp.Cell.Kind].Key
			case "WrongName":
				key = pki.WrongName[sp.Cell.Kind].Key
			}
			res := checkObs(sp, o, key)
			if res.Nontrivial {
				sigs[res.Sig] = true
			}
			oc := fmt.Sprintf("%s v%04x mode=%s cerr=%v serr=%v", sp.Cell.Peer, sp.Cell.Vers, sp.Mode, o.CErr, o.SErr)
			if o.CErr != nil || o.SErr != nil {
				outcomes[oc]++
				if os.Getenv("C28_FAILS") != "" {
					t.Logf("FAILCASE c%d/%s %s\n    cerr=%v serr=%v", idx, o.Label, sp.String(), o.CErr, o.SErr)
				}
			}
			for k, v := range res.K.counts {
				counts[k] += v
			}
			counts["fields"] += res.K.fields
			if e, ok := res.Summary["json_decode_error"].(string); ok {
				counts["jsonerr: "+e]++
			}
			for _, m := range res.K.mm {
				keys[m.Key]++
				if first[m.Key] == "" {
					first[m.Key] = fmt.Sprintf("c%d/%s %s\n      %s\n      %v", idx, o.Label, sp.String(), m.Detail, res.Summary)
				}
			}
		}
	}
	var ks []string
	for k := range keys {
		ks = append(ks, k)
	}
	sort.Strings(ks)
	for _, k := range ks {
		t.Logf("VIOL %4d %s\n    %s", keys[k], k, first[k])
	}
	ks = ks[:0]
	for k := range counts {
		ks = append(ks, k)
	}
	sort.Strings(ks)
	for _, k := range ks {
		t.Logf("count %6d %s", counts[k], k)
	}
	ks = ks[:0]
	for k := range outcomes {
		ks = append(ks, k)
	}
	sort.Strings(ks)
	for _, k := range ks {
		t.Logf("fail %4d %s", outcomes[k], k)
	}
	t.Logf("distinct nontrivial %d", len(sigs))
}

// TestDevScripted runs scripted-server cases in-process and prints an overview (development aid).
func TestDevScripted(t *testing.T) {
	if os.Getenv("C28_DEV") == "" {
		t.Skip("development aid")
	}
	n := 2 * numScriptCombos
	if v := os.Getenv("C28_N"); v != "" {
		n, _ = strconv.Atoi(v)
	}
	pki := tlspair.Get()
	keys := map[string]int{}
	first := map[string]string{}
	counts := map[string]int{}
	outcomes := map[string]int{}
	for idx := 0; idx < n; idx++ {
		sc := makeScriptedCase(idx, rand.New(rand.NewPCG(uint64(idx), 7)))
		obs := runScripted(sc)
		for i, o := range obs {
			sp := sc.Spec
			sp.Script = sc.Desc + " | " + sc.Conns[i].String()
			res := checkObs(sp, o, pki.Server[sc.Kind].Key)
			if o.CErr != nil || o.SErr != nil {
				outcomes[fmt.Sprintf("v%04x suite=%04x %s cerr=%v serr=%v", sc.Vers, sc.Suite, o.Label, o.CErr, o.SErr)]++
				if os.Getenv("C28_FAILS") != "" {
					t.Logf("FAILCASE s%d/%s %s", idx, o.Label, sp.Script)
				}
			} else {
				counts["ok"]++
				if o.DidResume {
					counts["resumed"]++
				}
			}
			for k, v := range res.K.counts {
				if !strings.HasPrefix(k, "cmp:") {
					counts[k] += v
				}
			}
			for _, m := range res.K.mm {
				keys[m.Key]++
				if first[m.Key] == "" {
					first[m.Key] = fmt.Sprintf("s%d/%s %s\n      %s", idx, o.Label, sp.Script, m.Detail)
				}
			}
		}
	}
	for k, v := range keys {
		t.Logf("VIOL %4d %s\n    %s", v, k, first[k])
	}
	var ks []string
	for k := range counts {
		ks = append(ks, k)
	}
	sort.Strings(ks)
	for _, k := range ks {
		t.Logf("count %6d %s", counts[k], k)
	}
	for k, v := range outcomes {
		t.Logf("fail %4d %s", v, k)
	}
}
