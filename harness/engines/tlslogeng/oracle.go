package tlslogeng

// The C28 oracle: every populated part of the client's handshake log is compared with the
// independently parsed transcript and with the secrets of the key logs.
//
// Interpretation (DESIGN 2.7): outside the hello messages "populated" = non-zero / non-empty / non-nil and
// a zero value is counted as unpopulated:<field> when the wire has a value. The ClientHello and ServerHello
// log structs are populated as a whole: a presence flag must equal "the extension is on the wire" in both
// directions and an empty list / string where the wire has a value is a mismatch (key suffix :missing),
// except for the fields listed in helloLenient, whose meaning is ambiguous or whose extension the message
// parser does not know (these stay counted). On a HelloRetryRequest the log
// keeps one ClientHello and one ServerHello slot; the oracle accepts either exchanged message for each
// slot (all fields against the same message) and counts which one was recorded.

import (
	"bytes"
	"crypto"
	"crypto/ecdh"
	"crypto/rsa"
	gox509 "crypto/x509"
	"encoding/json"
	"fmt"
	"math/big"
	"sort"
	"strings"

	"github.com/zmap/zcrypto/ct"
	ztls "github.com/zmap/zcrypto/tls"

	"verifharness/internal/netx"
)

type mismatch struct{ Key, Detail string }

type chk struct {
	mm     []mismatch
	counts map[string]int
	fields int
	strict bool // hello structs: a zero log value against a present wire value is a mismatch
}

// helloLenient lists the hello fields whose zero value is not asserted, with the reason.
var helloLenient = map[string]string{
	"client_hello.secure_renegotiation": "the flag is computed as 'renegotiation_info present AND its body non-empty'; on an initial handshake the body is empty by RFC 5746, so false may mean 'no renegotiation in progress'",
	"server_hello.secure_renegotiation": "same definition as the ClientHello flag",
	"client_hello.sct_enabled":          "echo of Config.SignedCertificateTimestampExt; the wire fact (extension 18) is the separate flag scts",
	"client_hello.heartbeat":            "clientHelloMsg has no heartbeat field and never writes the extension; nothing to assign",
	"server_hello.heartbeat":            "serverHelloMsg does not parse extension 15; it is logged among unknown_extensions / extension_identifiers",
	"server_hello.extended_random":      "serverHelloMsg does not parse extension 40; it is logged among unknown_extensions / extension_identifiers",
	"client_hello.unknown_extensions":   "clientHelloMsg never retains unknown extensions (source: 'TODO: populate') and the client cannot emit any",
	"client_hello.signature_and_hashes": "the log renders only the schemes zcrypto has a name for; an in-order subsequence is accepted",
	"client_hello.session_ticket":       "nil when the extension body is empty",
}

// zero handles a zero-valued log field whose wire counterpart is present.
func (k *chk) zero(field string) {
	if k.strict {
		if _, ok := helloLenient[field]; !ok {
			k.cmpf(field)
			k.fail("mismatch:"+field+":missing", "log has no value (zero / empty / false), the wire message has one")
			return
		}
	}
	k.count("unpopulated:" + field)
}

func newChk() *chk { return &chk{counts: map[string]int{}} }

func (k *chk) fail(key, format string, a ...any) {
	k.mm = append(k.mm, mismatch{key, fmt.Sprintf(format, a...)})
}
func (k *chk) count(name string) { k.counts[name]++ }
func (k *chk) cmp()              { k.fields++ }
func (k *chk) cmpf(f string) {
	k.fields++
	if i := strings.IndexByte(f, ':'); i >= 0 {
		f = f[:i]
	}
	k.counts["cmp:"+f]++
}

func hx(b []byte) string {
	if len(b) > 80 {
		return fmt.Sprintf("%x…(%d bytes)", b[:80], len(b))
	}
	return fmt.Sprintf("%x", b)
}

// bytesField compares a logged byte string with the wire value; an empty logged value is unpopulated.
func (k *chk) bytesField(field string, logv, wirev []byte, wirePresent bool) {
	if len(logv) == 0 {
		if len(wirev) > 0 {
			k.zero(field)
		}
		return
	}
	k.cmpf(field)
	if !wirePresent {
		k.fail("mismatch:"+field+":not-on-wire", "log has %s but the wire has no such value", hx(logv))
		return
	}
	if !bytes.Equal(logv, wirev) {
		what := "content"
		if len(logv) != len(wirev) {
			what = "length"
		}
		k.fail("mismatch:"+field+":"+what, "log %s (%d bytes) wire %s (%d bytes)", hx(logv), len(logv), hx(wirev), len(wirev))
	}
}

func (k *chk) boolField(field string, logv, wirev bool) {
	if !logv {
		if wirev {
			k.zero(field)
		}
		return
	}
	k.cmpf(field)
	if !wirev {
		k.fail("mismatch:"+field+":true-but-absent", "log says true, the extension is not on the wire")
	}
}

func (k *chk) u16List(field string, logv, wirev []uint16) {
	if len(logv) == 0 {
		if len(wirev) > 0 {
			k.zero(field)
		}
		return
	}
	k.cmpf(field)
	if fmt.Sprint(logv) != fmt.Sprint(wirev) {
		k.fail("mismatch:"+field, "log %04x wire %04x", logv, wirev)
	}
}

func (k *chk) numField(field string, logv, wirev uint64, assertZero bool) {
	if logv == 0 && !assertZero {
		if wirev != 0 {
			k.zero(field)
		}
		return
	}
	k.cmpf(field)
	if logv != wirev {
		k.fail("mismatch:"+field, "log %#x wire %#x", logv, wirev)
	}
}

func (k *chk) bigField(field string, logv, wirev *big.Int) {
	if logv == nil {
		if wirev != nil {
			k.zero(field)
		}
		return
	}
	k.cmpf(field)
	if wirev == nil || logv.Cmp(wirev) != 0 {
		k.fail("mismatch:"+field, "log %x wire %x", logv, wirev)
	}
}

func inList(v string, l []string) bool {
	for _, x := range l {
		if x == v {
			return true
		}
	}
	return false
}

// jsonPath walks a decoded JSON value.
func jsonPath(v any, path ...any) any {
	for _, p := range path {
		switch key := p.(type) {
		case string:
			m, ok := v.(map[string]any)
			if !ok {
				return nil
			}
			v = m[key]
		case int:
			a, ok := v.([]any)
			if !ok || key >= len(a) {
				return nil
			}
			v = a[key]
		}
	}
	return v
}

func jstr(v any) string { s, _ := v.(string); return s }

// ---- ClientHello -------------------------------------------------------------

func cmpClientHello(l *ztls.ClientHello, ch *clientHello, j any) *chk {
	k := newChk()
	k.strict = true
	k.numField("client_hello.version", uint64(l.Version), uint64(ch.Vers), true)
	k.bytesField("client_hello.random", l.Random, ch.Random, true)
	k.bytesField("client_hello.session_id", l.SessionID, ch.SessionID, true)
	var ls []uint16
	for _, s := range l.CipherSuites {
		ls = append(ls, uint16(s))
	}
	k.u16List("client_hello.cipher_suites", ls, ch.Suites)
	var lc []byte
	for _, c := range l.CompressionMethods {
		lc = append(lc, byte(c))
	}
	k.bytesField("client_hello.compression_methods", lc, ch.Comp, true)
	k.boolField("client_hello.ocsp_stapling", l.OcspStapling, ch.StatusRequest)
	k.boolField("client_hello.ticket", l.TicketSupported, ch.HasTicket)
	k.boolField("client_hello.secure_renegotiation", l.SecureRenegotiation, ch.HasReneg || ch.SCSV)
	k.boolField("client_hello.heartbeat", l.HeartbeatSupported, ch.Heartbeat)
	k.boolField("client_hello.extended_master_secret", l.ExtendedMasterSecret, ch.EMS)
	k.boolField("client_hello.scts", l.Scts, ch.SCT)
	k.boolField("client_hello.sct_enabled", l.SctEnabled, ch.SCT)
	k.bytesField("client_hello.extended_random", l.ExtendedRandom, ch.ExtRandom, ch.HasExtRandom)
	k.bytesField("client_hello.server_name", []byte(l.ServerName), []byte(ch.ServerName), ch.HasSNI)
	var lg []uint16
	for _, c := range l.SupportedCurves {
		lg = append(lg, uint16(c))
	}
	k.u16List("client_hello.supported_curves", lg, ch.Groups)
	var lp []byte
	for _, p := range l.SupportedPoints {
		lp = append(lp, byte(p))
	}
	k.bytesField("client_hello.supported_point_formats", lp, ch.Points, ch.HasPoints)
	var lv []uint16
	for _, v := range l.SupportedVersions {
		lv = append(lv, uint16(v))
	}
	k.u16List("client_hello.supported_versions", lv, ch.Versions)
	if l.SessionTicket != nil {
		k.cmpf("client_hello.session_ticket")
		t := l.SessionTicket
		if !ch.HasTicket {
			k.fail("mismatch:client_hello.session_ticket:not-on-wire", "log has a session ticket (length %d), the ClientHello has no session_ticket extension", t.Length)
		} else {
			if t.Length != len(ch.Ticket) {
				k.fail("mismatch:client_hello.session_ticket.length", "log length %d, wire ticket has %d bytes", t.Length, len(ch.Ticket))
			}
			if !bytes.Equal(t.Value, ch.Ticket) {
				what := "content"
				if len(t.Value) != len(ch.Ticket) {
					what = "incomplete"
				}
				k.fail("mismatch:client_hello.session_ticket.value:"+what, "log value %s (%d bytes, length field %d), wire ticket %s (%d bytes)", hx(t.Value), len(t.Value), t.Length, hx(ch.Ticket), len(ch.Ticket))
			}
			if t.LifetimeHint != 0 {
				k.fail("mismatch:client_hello.session_ticket.lifetime_hint", "log %d, a ClientHello carries no lifetime hint", t.LifetimeHint)
			}
		}
	} else if len(ch.Ticket) > 0 {
		k.cmpf("client_hello.session_ticket")
		k.fail("mismatch:client_hello.session_ticket:missing", "the ClientHello offers a ticket of %d bytes, the log has none", len(ch.Ticket))
	}
	// signature_algorithms: the logged pairs must be a subsequence of the wire list under the naming relation
	if len(l.SignatureAndHashes) > 0 {
		k.cmpf("client_hello.signature_and_hashes")
		wi := 0
		for i := range l.SignatureAndHashes {
			sn := jstr(jsonPath(j, "client_hello", "signature_and_hashes", i, "signature_algorithm"))
			hn := jstr(jsonPath(j, "client_hello", "signature_and_hashes", i, "hash_algorithm"))
			found := false
			for wi < len(ch.SigAlgs) {
				w := ch.SigAlgs[wi]
				wi++
				hns, sns, _ := wireSigNames(byte(w>>8), byte(w))
				if inList(sn, sns) && inList(hn, hns) {
					found = true
					break
				}
			}
			if !found {
				// classify: is there any wire scheme with this signature name whose hash differs?
				key := "mismatch:client_hello.signature_and_hashes"
				for _, w := range ch.SigAlgs {
					hns, sns, _ := wireSigNames(byte(w>>8), byte(w))
					if inList(sn, sns) && !inList(hn, hns) && byte(w>>8) == 8 && byte(w) == 7 && sn == "ed25519" {
						key += ":ed25519-hash"
						break
					}
				}
				k.fail(key, "log entry %d {%s,%s} does not name, in order, any scheme of the wire list %04x", i, sn, hn, ch.SigAlgs)
				break
			}
		}
		if len(l.SignatureAndHashes) < len(ch.SigAlgs) {
			k.count("partial:client_hello.signature_and_hashes")
		}
		if len(l.SignatureAndHashes) > len(ch.SigAlgs) {
			k.fail("mismatch:client_hello.signature_and_hashes:longer", "log has %d entries, wire %d", len(l.SignatureAndHashes), len(ch.SigAlgs))
		}
	} else if len(ch.SigAlgs) > 0 {
		k.zero("client_hello.signature_and_hashes")
	}
	if len(l.AlpnProtocols) > 0 {
		k.cmpf("client_hello.alpn_protocols")
		if strings.Join(l.AlpnProtocols, "\x00") != strings.Join(ch.ALPN, "\x00") {
			k.fail("mismatch:client_hello.alpn_protocols", "log %q wire %q", l.AlpnProtocols, ch.ALPN)
		}
	} else if len(ch.ALPN) > 0 {
		k.zero("client_hello.alpn_protocols")
	}
	cmpUnknownExts(k, "client_hello.unknown_extensions", l.UnknownExtensions, ch.Exts)
	return k
}

// cmpUnknownExts: every logged raw extension must be, in order, one of the wire extensions (type+length+data).
func cmpUnknownExts(k *chk, field string, logv [][]byte, exts []extn) {
	if len(logv) == 0 {
		return
	}
	k.cmpf(field)
	wi := 0
	for i, e := range logv {
		found := false
		for wi < len(exts) {
			w := exts[wi]
			wi++
			if bytes.Equal(w.Raw, e) {
				found = true
				break
			}
		}
		if !found {
			k.fail("mismatch:"+field, "log entry %d %s is not (in order) an extension of the wire message", i, hx(e))
			return
		}
	}
}

// ---- ServerHello -------------------------------------------------------------

func cmpServerHello(l *ztls.ServerHello, sh *serverHello, eeALPN string, tls13 bool) *chk {
	k := newChk()
	k.strict = true
	k.numField("server_hello.version", uint64(l.Version), uint64(sh.Vers), true)
	k.bytesField("server_hello.random", l.Random, sh.Random, true)
	k.bytesField("server_hello.session_id", l.SessionID, sh.SessionID, true)
	k.numField("server_hello.cipher_suite", uint64(l.CipherSuite), uint64(sh.Suite), true)
	k.numField("server_hello.compression_method", uint64(l.CompressionMethod), uint64(sh.Comp), true)
	k.boolField("server_hello.ocsp_stapling", l.OcspStapling, sh.StatusRequest)
	k.boolField("server_hello.ticket", l.TicketSupported, sh.Ticket)
	k.boolField("server_hello.secure_renegotiation", l.SecureRenegotiation, sh.HasReneg)
	k.boolField("server_hello.heartbeat", l.HeartbeatSupported, sh.Heartbeat)
	k.boolField("server_hello.extended_master_secret", l.ExtendedMasterSecret, sh.EMS)
	k.bytesField("server_hello.extended_random", l.ExtendedRandom, sh.ExtRandom, sh.ExtRandom != nil)
	if l.AlpnProtocol != "" {
		k.cmpf("server_hello.alpn_protocol")
		want := sh.ALPN
		if tls13 {
			want = eeALPN // RFC 8446: ALPN travels in EncryptedExtensions
		}
		if l.AlpnProtocol != want {
			k.fail("mismatch:server_hello.alpn_protocol", "log %q wire %q", l.AlpnProtocol, want)
		}
	} else if !tls13 && sh.ALPN != "" {
		k.zero("server_hello.alpn_protocol")
	} else if tls13 && eeALPN != "" {
		// TLS 1.3 carries ALPN in EncryptedExtensions; the log copies it into this slot only when the
		// handshake completes, so an aborted handshake legitimately leaves it empty
		k.count("unpopulated:server_hello.alpn_protocol(tls13,from EncryptedExtensions)")
	}
	if len(l.SignedCertificateTimestamps) > 0 {
		k.cmpf("server_hello.scts")
		if len(l.SignedCertificateTimestamps) != len(sh.SCTs) {
			k.fail("mismatch:server_hello.scts:count", "log has %d SCTs, wire %d", len(l.SignedCertificateTimestamps), len(sh.SCTs))
		} else {
			for i, s := range l.SignedCertificateTimestamps {
				w := sh.SCTs[i]
				if !bytes.Equal(s.Raw, w) {
					k.fail("mismatch:server_hello.scts.raw", "SCT %d: log %s wire %s", i, hx(s.Raw), hx(w))
				}
				// per entry, two-sided: the parsed form must be the independent RFC 6962 parse of THIS entry's
				// bytes, and an entry that does not deserialise must have no parsed form
				ref, class := parseSCT(w)
				k.count("sct_entry:" + class)
				switch class {
				case "valid":
					if s.Parsed == nil {
						k.fail("mismatch:server_hello.scts.parsed:missing", "SCT %d deserialises (RFC 6962 3.2), the log has no parsed form", i)
					} else {
						cmpSCT(k, i, s.Parsed, ref)
					}
				case "malformed":
					if s.Parsed != nil {
						k.fail("mismatch:server_hello.scts.parsed:not-on-wire", "SCT %d (%s) does not deserialise, the log shows a parsed SCT (log id %x, timestamp %d)", i, hx(w), s.Parsed.LogID[:], s.Parsed.Timestamp)
					}
				case "trailing": // a complete SCT followed by extra bytes: rejecting it or parsing the prefix are both defensible
					if s.Parsed != nil {
						cmpSCT(k, i, s.Parsed, ref)
					}
				}
			}
		}
	} else if len(sh.SCTs) > 0 {
		k.zero("server_hello.scts")
	}
	if l.SupportedVersions != nil {
		k.numField("server_hello.supported_versions.selected_version", uint64(l.SupportedVersions.SelectedVersion), uint64(sh.SelectedVersion), true)
	} else if sh.SelectedVersion != 0 {
		k.zero("server_hello.supported_versions")
	}
	if l.KeyShare != nil && l.KeyShare.KeyExchange != nil {
		k.numField("server_hello.key_share", uint64(*l.KeyShare.KeyExchange), uint64(sh.KeyShareGroup), true)
	} else if sh.KeyShareGroup != 0 {
		k.zero("server_hello.key_share")
	}
	if len(l.ExtensionIdentifiers) > 0 {
		var w []uint16
		for _, e := range sh.Exts {
			w = append(w, e.Typ)
		}
		k.u16List("server_hello.extension_identifiers", l.ExtensionIdentifiers, w)
	} else if len(sh.Exts) > 0 {
		k.zero("server_hello.extension_identifiers")
	}
	cmpUnknownExts(k, "server_hello.unknown_extensions", l.UnknownExtensions, sh.Exts)
	return k
}

// ---- the whole observation -----------------------------------------------------

type obsResult struct {
	K          *chk
	Nontrivial bool
	Sig        string
	Sections   []string
	Summary    map[string]any
}

func pointCoords(group uint16, pt []byte) (x, y *big.Int, ok bool) {
	if group == 29 { // RFC 7748 u-coordinate, 32 bytes; the log renders it as an integer of those bytes
		return new(big.Int).SetBytes(pt), nil, len(pt) == 32
	}
	if len(pt) < 3 || pt[0] != 4 || (len(pt)-1)%2 != 0 { // RFC 4492 5.4: uncompressed point
		return nil, nil, false
	}
	h := (len(pt) - 1) / 2
	return new(big.Int).SetBytes(pt[1 : 1+h]), new(big.Int).SetBytes(pt[1+h:]), true
}

func ecdhCurve(group uint16) ecdh.Curve {
	switch group {
	case 23:
		return ecdh.P256()
	case 24:
		return ecdh.P384()
	case 25:
		return ecdh.P521()
	case 29:
		return ecdh.X25519()
	}
	return nil
}

func checkObs(s spec, o *hsObs, serverKey crypto.PrivateKey) *obsResult {
	res := &obsResult{K: newChk(), Summary: map[string]any{}}
	k := res.K
	recs, _ := splitTap(o.Tap)
	w := interpret(recs)
	if o.Log == nil {
		k.count("no_log")
		return res
	}
	// JSON encoding of the log is an observation point
	jb, jerr := json.Marshal(o.Log)
	if jerr != nil {
		k.fail("json:marshal-error", "json.Marshal(handshake log): %v", jerr)
	}
	var j any
	if jerr == nil {
		if err := json.Unmarshal(jb, &j); err != nil {
			k.fail("json:invalid-output", "log JSON does not parse: %v", err)
		}
		// decode again (certificates excluded: zcrypto refuses to decode certificate JSON by design) and compare
		// the scalar enums; disagreements are evidence only, the statement does not speak about decoding
		if m, ok := j.(map[string]any); ok {
			cp := map[string]any{}
			for kk, v := range m {
				if kk != "server_certificates" {
					cp[kk] = v
				}
			}
			b2, _ := json.Marshal(cp)
			var back ztls.ServerHandshake
			var err error
			func() {
				// decoding an X25519 point panics at the pinned commit (C33's finding, not asserted here)
				defer func() {
					if r := recover(); r != nil {
						err = fmt.Errorf("panic: %v", r)
						k.count("json_roundtrip_decode_panic")
					}
				}()
				err = json.Unmarshal(b2, &back)
			}()
			if err != nil {
				k.count("json_roundtrip_decode_error")
				e := err.Error()
				if len(e) > 90 {
					e = e[:90]
				}
				res.Summary["json_decode_error"] = e
			} else {
				k.count("json_roundtrip_ok")
				if a, b := o.Log.ClientHello, back.ClientHello; a != nil && b != nil {
					if a.Version != b.Version || fmt.Sprint(a.CipherSuites) != fmt.Sprint(b.CipherSuites) || fmt.Sprint(a.SupportedCurves) != fmt.Sprint(b.SupportedCurves) ||
						fmt.Sprint(a.SignatureAndHashes) != fmt.Sprint(b.SignatureAndHashes) || fmt.Sprint(a.CompressionMethods) != fmt.Sprint(b.CompressionMethods) {
						k.count("json_roundtrip_enum_mismatch:client_hello")
					}
				}
				if a, b := o.Log.ServerHello, back.ServerHello; a != nil && b != nil {
					if a.Version != b.Version || a.CipherSuite != b.CipherSuite || a.CompressionMethod != b.CompressionMethod {
						k.count("json_roundtrip_enum_mismatch:server_hello")
					}
				}
				if a, b := o.Log.ServerKeyExchange, back.ServerKeyExchange; a != nil && b != nil && a.Signature != nil && b.Signature != nil {
					if a.Signature.Version != b.Signature.Version || (a.Signature.SigHashExtension != nil && (b.Signature.SigHashExtension == nil || *a.Signature.SigHashExtension != *b.Signature.SigHashExtension)) {
						k.count("json_roundtrip_enum_mismatch:server_key_exchange.signature")
					}
				}
			}
		}
	}

	var chs []*clientHello
	for _, m := range w.find(netx.AtoB, hsClientHello) {
		if ch, err := parseClientHello(m.Body); err == nil {
			chs = append(chs, ch)
		} else {
			k.count("wire_clienthello_unparsed")
		}
	}
	var shs []*serverHello
	for _, m := range w.find(netx.BtoA, hsServerHello) {
		if sh, err := parseServerHello(m.Body); err == nil {
			shs = append(shs, sh)
		} else {
			k.count("wire_serverhello_unparsed")
		}
	}
	merge := func(sub *chk) {
		k.mm = append(k.mm, sub.mm...)
		k.fields += sub.fields
		for n, c := range sub.counts {
			k.counts[n] += c
		}
	}
	best := func(cands []*chk) (int, *chk) {
		bi := -1
		for i, c := range cands {
			if bi < 0 || len(c.mm) < len(cands[bi].mm) {
				bi = i
			}
		}
		return bi, cands[bi]
	}

	// --- ClientHello
	if o.Log.ClientHello != nil {
		if len(chs) == 0 {
			k.fail("mismatch:client_hello:not-on-wire", "log has a ClientHello, none parsed from the transcript")
		} else {
			var cands []*chk
			for _, ch := range chs {
				cands = append(cands, cmpClientHello(o.Log.ClientHello, ch, j))
			}
			bi, b := best(cands)
			merge(b)
			res.Sections = append(res.Sections, "client_hello")
			if len(chs) > 1 {
				k.count(fmt.Sprintf("hrr_log_records_clienthello_%d_of_%d", bi+1, len(chs)))
			}
		}
	}
	var cr []byte
	if len(chs) > 0 {
		cr = chs[0].Random
	}

	var finalSH *serverHello
	for _, sh := range shs {
		if !sh.IsHRR {
			finalSH = sh
		}
	}
	tls13 := w.TLS13
	var negVers uint16
	var sd *suiteDesc
	if finalSH != nil {
		negVers = finalSH.Vers
		if finalSH.SelectedVersion != 0 {
			negVers = finalSH.SelectedVersion
		}
		sd = suiteByID(finalSH.Suite)
	}

	// --- TLS 1.3: open the server's handshake flight with the key-log secret
	var msgs13 []hsMsg
	var eeALPN string
	if tls13 && finalSH != nil && sd != nil && cr != nil {
		sec := keylogLookup(o.ServerKL, "SERVER_HANDSHAKE_TRAFFIC_SECRET", cr)
		src := "peer"
		if sec == nil {
			sec = keylogLookup(o.ClientKL, "SERVER_HANDSHAKE_TRAFFIC_SECRET", cr)
			src = "client"
		}
		if sec != nil {
			hb, _, err := open13(sd, sec, w.Enc[netx.BtoA])
			if err != nil {
				k.count("tls13_flight_open_error")
				res.Summary["tls13_open_error"] = err.Error()
			}
			msgs13 = splitHandshake(hb, 1)
			if len(msgs13) > 0 {
				k.count("tls13_flight_opened_with_" + src + "_keylog")
			}
			for _, m := range msgs13 {
				if m.Typ == hsEncryptedExts {
					if exts, err := parseEncryptedExtensions(m.Body); err == nil {
						for _, e := range exts {
							if e.Typ == extALPN {
								x := &rd{b: e.Data}
								l := &rd{b: x.vec16()}
								eeALPN = string(l.vec8())
							}
						}
					}
				}
			}
		} else {
			k.count("tls13_no_handshake_secret_in_keylogs")
		}
	}

	// --- ServerHello
	if o.Log.ServerHello != nil {
		if len(shs) == 0 {
			k.fail("mismatch:server_hello:not-on-wire", "log has a ServerHello, none parsed from the transcript")
		} else {
			var cands []*chk
			for _, sh := range shs {
				cands = append(cands, cmpServerHello(o.Log.ServerHello, sh, eeALPN, tls13))
			}
			bi, b := best(cands)
			merge(b)
			res.Sections = append(res.Sections, "server_hello")
			if len(shs) > 1 {
				k.count(fmt.Sprintf("hrr_log_records_serverhello_%d_of_%d", bi+1, len(shs)))
			}
		}
	}

	// --- server certificates
	var wireCerts [][]byte
	haveCertMsg := false
	if tls13 {
		for _, m := range msgs13 {
			if m.Typ == hsCertificate {
				if c, err := parseCertificate13(m.Body); err == nil {
					wireCerts, haveCertMsg = c, true
				}
			}
		}
	} else {
		for _, m := range w.find(netx.BtoA, hsCertificate) {
			if c, err := parseCertificate12(m.Body); err == nil {
				wireCerts, haveCertMsg = c, true
			}
			break
		}
	}
	var leaf *gox509.Certificate
	if len(wireCerts) > 0 {
		leaf, _ = gox509.ParseCertificate(wireCerts[0])
	}
	if lc := o.Log.ServerCertificates; lc != nil {
		if !haveCertMsg {
			if tls13 && len(msgs13) == 0 {
				k.count("tls13_certificates_not_comparable")
			} else {
				k.fail("mismatch:server_certificates:not-on-wire", "log has server certificates, the transcript has no Certificate message")
			}
		} else {
			res.Sections = append(res.Sections, "server_certificates")
			var first []byte
			if len(wireCerts) > 0 {
				first = wireCerts[0]
			}
			k.bytesField("server_certificates.certificate.raw", lc.Certificate.Raw, first, len(wireCerts) > 0)
			if len(lc.Chain) > 0 || len(wireCerts) > 1 {
				k.cmpf("server_certificates.chain")
				if len(wireCerts) == 0 || len(lc.Chain) != len(wireCerts)-1 {
					k.fail("mismatch:server_certificates.chain:count", "log chain has %d entries, wire has %d certificates after the leaf", len(lc.Chain), len(wireCerts)-1)
				} else {
					for i, c := range lc.Chain {
						if !bytes.Equal(c.Raw, wireCerts[i+1]) {
							k.fail("mismatch:server_certificates.chain.raw", "chain[%d]: log %s wire %s", i, hx(c.Raw), hx(wireCerts[i+1]))
						}
					}
				}
			}
			check := func(field string, idx int, parsedRaw []byte, serial *big.Int, spki []byte, nb, na int64) {
				if idx >= len(wireCerts) {
					return
				}
				k.cmpf(field)
				if !bytes.Equal(parsedRaw, wireCerts[idx]) {
					k.fail("mismatch:"+field+".parsed:other-certificate", "parsed.Raw differs from the wire certificate %d", idx)
					return
				}
				g, err := gox509.ParseCertificate(wireCerts[idx])
				if err != nil {
					k.count("wire_certificate_not_parsed_by_reference")
					return
				}
				if serial == nil || g.SerialNumber.Cmp(serial) != 0 {
					k.fail("mismatch:"+field+".parsed.serial_number", "log %v reference parse %v", serial, g.SerialNumber)
				}
				if !bytes.Equal(spki, g.RawSubjectPublicKeyInfo) {
					k.fail("mismatch:"+field+".parsed.spki", "log SPKI differs from the reference parse")
				}
				if nb != g.NotBefore.Unix() || na != g.NotAfter.Unix() {
					k.fail("mismatch:"+field+".parsed.validity", "log %d..%d reference %d..%d", nb, na, g.NotBefore.Unix(), g.NotAfter.Unix())
				}
			}
			if p := lc.Certificate.Parsed; p != nil {
				check("server_certificates.certificate", 0, p.Raw, p.SerialNumber, p.RawSubjectPublicKeyInfo, p.NotBefore.Unix(), p.NotAfter.Unix())
			}
			for i, c := range lc.Chain {
				if p := c.Parsed; p != nil {
					check("server_certificates.chain", i+1, p.Raw, p.SerialNumber, p.RawSubjectPublicKeyInfo, p.NotBefore.Unix(), p.NotAfter.Unix())
				}
			}
		}
	}

	// --- key exchange messages (TLS <= 1.2)
	var sr []byte
	if finalSH != nil {
		sr = finalSH.Random
	}
	var skx *skxWire
	kx := ""
	if sd != nil {
		kx = sd.Kx
	}
	if !tls13 {
		if ms := w.find(netx.BtoA, hsServerKeyExchange); len(ms) > 0 && (kx == "ecdhe" || kx == "dhe") {
			var err error
			if skx, err = parseSKX(ms[0].Body, kx, negVers >= 0x0303); err != nil {
				k.count("wire_skx_unparsed")
				skx = nil
			}
			if l := o.Log.ServerKeyExchange; l != nil {
				k.bytesField("server_key_exchange.raw", l.Raw, ms[0].Body, true)
			}
		}
	}
	if l := o.Log.ServerKeyExchange; l != nil {
		if skx == nil {
			if len(w.find(netx.BtoA, hsServerKeyExchange)) == 0 {
				k.fail("mismatch:server_key_exchange:not-on-wire", "log has a ServerKeyExchange, the transcript has none")
			}
		} else {
			res.Sections = append(res.Sections, "server_key_exchange")
			if p := l.ECDHParams; p != nil {
				if kx != "ecdhe" {
					k.fail("mismatch:server_key_exchange.ecdh_params:wrong-kx", "log has ECDH params, the suite's key exchange is %s", kx)
				} else {
					k.numField("server_key_exchange.ecdh_params.curve_id", uint64(p.TLSCurveID), uint64(skx.NamedCurve), true)
					x, y, ok := pointCoords(skx.NamedCurve, skx.Point)
					if ok && p.ServerPublic != nil {
						k.bigField("server_key_exchange.ecdh_params.server_public.x", p.ServerPublic.X, x)
						k.bigField("server_key_exchange.ecdh_params.server_public.y", p.ServerPublic.Y, y)
					}
					if p.ServerPrivate != nil {
						k.fail("mismatch:server_key_exchange.ecdh_params.server_private", "client log has a server private value")
					}
				}
			}
			if p := l.DHParams; p != nil {
				if kx != "dhe" {
					k.fail("mismatch:server_key_exchange.dh_params:wrong-kx", "log has DH params, the suite's key exchange is %s", kx)
				} else {
					k.bigField("server_key_exchange.dh_params.prime", p.Prime, skx.P)
					k.bigField("server_key_exchange.dh_params.generator", p.Generator, skx.G)
					k.bigField("server_key_exchange.dh_params.server_public", p.ServerPublic, skx.Ys)
				}
			}
			var refDigest []byte
			refValid, verNote := false, ""
			if leaf != nil && cr != nil && sr != nil {
				refDigest, refValid, verNote = skxDigestAndVerify(leaf, negVers, sd.Auth, skx, cr, sr)
			}
			if len(l.Digest) > 0 && refDigest != nil {
				k.bytesField("server_key_exchange.digest:"+kx, l.Digest, refDigest, true)
			}
			if sg := l.Signature; sg != nil {
				k.bytesField("server_key_exchange.signature.raw", sg.Raw, skx.Sig, true)
				k.numField("server_key_exchange.signature.tls_version", uint64(sg.Version), uint64(negVers), false)
				if leaf != nil && len(sg.Raw) > 0 {
					k.cmpf("server_key_exchange.signature.valid")
					if !sg.Valid {
						k.count("skx_signature_logged_invalid")
					}
					if sg.Valid != refValid {
						k.fail("mismatch:server_key_exchange.signature.valid:"+kx, "log valid=%v, independent verification (%s) says %v", sg.Valid, verNote, refValid)
					}
					if (l.SignatureError == "") != refValid {
						k.count("skx_signature_error_text_vs_reference_disagree")
					}
				}
				sn := jstr(jsonPath(j, "server_key_exchange", "signature", "signature_and_hash_type", "signature_algorithm"))
				hn := jstr(jsonPath(j, "server_key_exchange", "signature", "signature_and_hash_type", "hash_algorithm"))
				if sg.SigHashExtension != nil {
					k.cmpf("server_key_exchange.signature.signature_and_hash_type")
					if !skx.HasAlg {
						k.fail("mismatch:server_key_exchange.signature.signature_and_hash_type:not-on-wire:"+kx, "log names {%s,%s}; before TLS 1.2 the message carries no algorithm bytes", sn, hn)
					} else {
						hns, sns, known := wireSigNames(skx.HashB, skx.SigB)
						if !known {
							k.count("skx_unknown_algorithm_bytes")
						} else {
							if !inList(hn, hns) {
								k.fail("mismatch:server_key_exchange.signature.hash_algorithm:"+kx, "wire bytes %02x %02x name hash %v, log says %q", skx.HashB, skx.SigB, hns, hn)
							}
							if !inList(sn, sns) {
								k.fail("mismatch:server_key_exchange.signature.signature_algorithm:"+kx, "wire bytes %02x %02x name signature %v, log says %q", skx.HashB, skx.SigB, sns, sn)
							}
							if skx.HashB == 8 && hn != "intrinsic" {
								k.count("strict_reading:0x08xx_hash_rendered_as_scheme_hash")
							}
						}
					}
				} else if skx.HasAlg {
					k.count("unpopulated:server_key_exchange.signature.signature_and_hash_type")
				}
				if sg.Type != "" {
					k.cmpf("server_key_exchange.signature.type")
					ok := map[string][]string{"rsa": {"rsa", "pkcs1v15", "rsapss"}, "ecdsa": {"ecdsa", "ed25519"}}[sd.Auth]
					if skx.HasAlg {
						if _, sns, known := wireSigNames(skx.HashB, skx.SigB); known {
							if !inList(sg.Type, sns) {
								k.count("strict_reading:signature.type_names_suite_not_wire")
							}
							ok = append(ok, sns...)
						}
					}
					if !inList(sg.Type, ok) {
						k.fail("mismatch:server_key_exchange.signature.type:"+kx, "log type %q, suite authentication %s, wire bytes %02x%02x", sg.Type, sd.Auth, skx.HashB, skx.SigB)
					}
				}
			} else if skx.HasSig {
				k.count("unpopulated:server_key_exchange.signature")
			}
		}
	}

	// ClientKeyExchange
	var ckxBody []byte
	if ms := w.find(netx.AtoB, hsClientKeyExchange); len(ms) > 0 && !tls13 {
		ckxBody = ms[0].Body
	}
	var wirePMSFromRSA []byte
	if l := o.Log.ClientKeyExchange; l != nil {
		if ckxBody == nil {
			// the log entry is made before the message is written; a transport failure in between is possible
			if o.CErr == nil {
				k.fail("mismatch:client_key_exchange:not-on-wire", "log has a ClientKeyExchange, the transcript has none")
			} else {
				k.count("ckx_logged_not_sent")
			}
		} else {
			res.Sections = append(res.Sections, "client_key_exchange")
			k.bytesField("client_key_exchange.raw", l.Raw, ckxBody, true)
			if p := l.RSAParams; p != nil {
				r := &rd{b: ckxBody}
				enc := r.vec16() // RFC 5246 7.4.7.1: EncryptedPreMasterSecret is a 2-byte-length vector
				if r.bad || !r.empty() || kx != "rsa" {
					k.fail("mismatch:client_key_exchange.rsa_params:wrong-kx", "log has RSA params; wire message %s kx %s", hx(ckxBody), kx)
				} else {
					k.numField("client_key_exchange.rsa_params.length", uint64(p.Length), uint64(len(enc)), false)
					k.bytesField("client_key_exchange.rsa_params.encrypted_pre_master_secret", p.EncryptedPMS, enc, true)
					if rk, ok := serverKey.(*rsa.PrivateKey); ok {
						if pms, err := rsa.DecryptPKCS1v15(nil, rk, enc); err == nil {
							wirePMSFromRSA = pms
						}
					}
				}
			}
			if p := l.ECDHParams; p != nil {
				r := &rd{b: ckxBody}
				pt := r.vec8() // RFC 4492 5.7: ECPoint with a 1-byte length
				if r.bad || !r.empty() || kx != "ecdhe" || skx == nil {
					k.fail("mismatch:client_key_exchange.ecdh_params:wrong-kx", "log has ECDH params; wire message %s kx %s", hx(ckxBody), kx)
				} else {
					k.numField("client_key_exchange.ecdh_params.curve_id", uint64(p.TLSCurveID), uint64(skx.NamedCurve), true)
					x, y, ok := pointCoords(skx.NamedCurve, pt)
					if ok && p.ClientPublic != nil {
						k.bigField("client_key_exchange.ecdh_params.client_public.x", p.ClientPublic.X, x)
						k.bigField("client_key_exchange.ecdh_params.client_public.y", p.ClientPublic.Y, y)
					}
				}
			}
			if p := l.DHParams; p != nil {
				r := &rd{b: ckxBody}
				yc := r.vec16() // RFC 5246 7.4.7.2: dh_Yc<1..2^16-1>
				if r.bad || !r.empty() || kx != "dhe" || skx == nil {
					k.fail("mismatch:client_key_exchange.dh_params:wrong-kx", "log has DH params; wire message %s kx %s", hx(ckxBody), kx)
				} else {
					k.bigField("client_key_exchange.dh_params.client_public", p.ClientPublic, new(big.Int).SetBytes(yc))
					k.bigField("client_key_exchange.dh_params.prime", p.Prime, skx.P)
					k.bigField("client_key_exchange.dh_params.generator", p.Generator, skx.G)
				}
			}
		}
	}

	// --- secrets and Finished (TLS <= 1.2)
	// The master secret the connection actually used is established from the wire: a candidate from the key
	// logs (this connection's line of the peer, of the client, then any other line - a resumed session reuses
	// the secret logged under the original connection's client random) is "wire-verified" when the keys derived
	// from it by the reference PRF open the first protected record (the Finished message) of a direction.
	handshakeOK := o.CErr == nil && o.SErr == nil
	var master []byte
	masterSrc := ""
	var wireFin [2][]byte
	wireVerified := false
	if !tls13 && cr != nil && sd != nil && finalSH != nil {
		type cand struct {
			v   []byte
			src string
		}
		var cands []cand
		if v := keylogLookup(o.ServerKL, "CLIENT_RANDOM", cr); v != nil {
			cands = append(cands, cand{v, "peer"})
		}
		if v := keylogLookup(o.ClientKL, "CLIENT_RANDOM", cr); v != nil {
			cands = append(cands, cand{v, "client"})
		}
		for _, v := range keylogAll(o.ServerKL, "CLIENT_RANDOM") {
			cands = append(cands, cand{v, "peer-other-connection"})
		}
		for _, v := range keylogAll(o.ClientKL, "CLIENT_RANDOM") {
			cands = append(cands, cand{v, "client-other-connection"})
		}
		openFin := func(m []byte, d int) []byte {
			if len(w.Enc[d]) == 0 || w.Enc[d][0].Typ != recHandshake {
				return nil
			}
			kb := refKeyBlock(negVers, sd, m, cr, sr)
			key, iv, mk := kb.cKey, kb.cIV, kb.cMac
			if d == int(netx.BtoA) {
				key, iv, mk = kb.sKey, kb.sIV, kb.sMac
			}
			pt, err := openRecord12(negVers, sd, key, iv, mk, 0, w.Enc[d][0])
			if err != nil {
				return nil
			}
			if len(pt) >= 4 && pt[0] == hsFinished && int(pt[1])<<16|int(pt[2])<<8|int(pt[3]) == len(pt)-4 {
				return pt[4:]
			}
			return nil
		}
		for _, c := range cands {
			f0, f1 := openFin(c.v, 0), openFin(c.v, 1)
			if f0 != nil || f1 != nil {
				master, masterSrc, wireVerified = c.v, c.src, true
				wireFin[0], wireFin[1] = f0, f1
				break
			}
		}
		if !wireVerified && len(cands) > 0 {
			master, masterSrc = cands[0].v, cands[0].src
			if len(w.Enc[0]) > 0 || len(w.Enc[1]) > 0 {
				k.count("finished_record_not_opened_by_any_keylog_secret")
			}
		}
		if wireVerified {
			k.count("master_wire_verified_from_" + masterSrc + "_keylog")
			for d := 0; d < 2; d++ {
				if wireFin[d] != nil {
					k.count("finished_record_opened")
				}
			}
		}
	}
	emsBoth := len(chs) > 0 && chs[len(chs)-1].EMS && finalSH != nil && finalSH.EMS
	if km := o.Log.KeyMaterial; km != nil {
		res.Sections = append(res.Sections, "key_material")
		if ms := km.MasterSecret; ms != nil && (ms.Length != 0 || len(ms.Value) != 0) {
			k.cmpf("key_material.master_secret")
			if ms.Length != len(ms.Value) {
				k.fail("mismatch:key_material.master_secret.length", "length field %d, value has %d bytes", ms.Length, len(ms.Value))
			}
			peer := keylogLookup(o.ServerKL, "CLIENT_RANDOM", cr)
			if peer == nil {
				k.count("no_peer_keylog_line_for_this_connection")
			} else if !bytes.Equal(ms.Value, peer) {
				k.fail("mismatch:key_material.master_secret:peer-keylog", "log %x, peer's key log %x", ms.Value, peer)
			} else {
				k.count("master_secret_equals_peer_keylog")
			}
			if wireVerified {
				if !bytes.Equal(ms.Value, master) {
					k.fail("mismatch:key_material.master_secret:wire", "log %x; the secret that opens the Finished record on the wire is %x (%s key log)", ms.Value, master, masterSrc)
				} else {
					k.count("master_secret_equals_wire_verified_secret")
				}
			}
		}
		if ps := km.PreMasterSecret; ps != nil && (ps.Length != 0 || len(ps.Value) != 0) {
			k.cmpf("key_material.pre_master_secret")
			if ps.Length != len(ps.Value) {
				k.fail("mismatch:key_material.pre_master_secret.length", "length field %d, value has %d bytes", ps.Length, len(ps.Value))
			}
			if master != nil && sd != nil && cr != nil && sr != nil {
				var m []byte
				if emsBoth {
					// RFC 7627 4: session_hash covers the handshake up to and including the ClientKeyExchange
					var pre [][]byte
					seenCKX := false
					for _, hm := range w.Msgs {
						pre = append(pre, hm.Raw)
						if hm.Dir == netx.AtoB && hm.Typ == hsClientKeyExchange {
							seenCKX = true
							break
						}
					}
					if seenCKX {
						m = refEMS(negVers, sd.SHA384, ps.Value, transcriptHash(negVers, sd.SHA384, pre))
						k.count("extended_master_secret_derivations_checked")
					}
				} else {
					m = refMaster(negVers, sd.SHA384, ps.Value, cr, sr)
				}
				if m != nil {
					if !bytes.Equal(m, master) {
						k.fail("mismatch:key_material.pre_master_secret:"+kx, "PRF(pre-master from the log) = %x, master secret (%s key log, wire-verified=%v) = %x", m, masterSrc, wireVerified, master)
					} else {
						k.count("pre_master_consistent_with_master")
					}
				}
			}
			if wirePMSFromRSA != nil {
				k.cmpf("key_material.pre_master_secret.rsa")
				if !bytes.Equal(wirePMSFromRSA, ps.Value) {
					k.fail("mismatch:key_material.pre_master_secret:rsa-decrypt", "log %x, decryption of the wire ClientKeyExchange with the server key gives %x", ps.Value, wirePMSFromRSA)
				} else {
					k.count("pre_master_equals_rsa_decryption_of_wire")
				}
			}
			// (EC)DH: the logged client private value and the wire's server share give the same secret
			if l := o.Log.ClientKeyExchange; l != nil && skx != nil {
				if p := l.ECDHParams; p != nil && p.ClientPrivate != nil && len(p.ClientPrivate.Value) > 0 {
					if cv := ecdhCurve(skx.NamedCurve); cv != nil {
						priv, e1 := cv.NewPrivateKey(p.ClientPrivate.Value)
						pub, e2 := cv.NewPublicKey(skx.Point)
						if e1 == nil && e2 == nil {
							if z, err := priv.ECDH(pub); err == nil {
								k.cmpf("key_material.pre_master_secret.ecdh")
								if !bytes.Equal(z, ps.Value) {
									k.fail("mismatch:key_material.pre_master_secret:ecdh", "log %x, ECDH(logged client private, wire server share) = %x", ps.Value, z)
								} else {
									k.count("pre_master_equals_ecdh_of_wire_share")
								}
								r := &rd{b: ckxBody}
								if pt := r.vec8(); !bytes.Equal(priv.PublicKey().Bytes(), pt) {
									k.fail("mismatch:client_key_exchange.ecdh_params.client_private", "logged private value does not correspond to the public value on the wire")
								}
							}
						} else {
							k.count("ecdh_reference_rejected_values")
						}
					}
				}
				if p := l.DHParams; p != nil && p.ClientPrivate != nil && skx.P != nil && skx.P.Sign() > 0 {
					z := new(big.Int).Exp(skx.Ys, p.ClientPrivate, skx.P).Bytes()
					k.cmpf("key_material.pre_master_secret.dh")
					if !bytes.Equal(z, ps.Value) {
						k.fail("mismatch:key_material.pre_master_secret:dh", "log %x, Ys^x mod p = %x", ps.Value, z)
					} else {
						k.count("pre_master_equals_dh_of_wire_share")
					}
				}
			}
		}
	}

	// Finished: reference PRF over the transcript, and the opened wire records
	if !tls13 && sd != nil && master != nil && finalSH != nil && negVers >= 0x0301 {
		first, second := int(netx.AtoB), int(netx.BtoA)
		if w.CCSIdx[netx.BtoA] >= 0 && (w.CCSIdx[netx.AtoB] < 0 || w.CCSIdx[netx.BtoA] < w.CCSIdx[netx.AtoB]) {
			first, second = second, first
		}
		var refFin [2][]byte
		if w.CCSIdx[first] >= 0 {
			var pre [][]byte
			for _, m := range w.Msgs {
				if m.Rec < w.CCSIdx[first] {
					pre = append(pre, m.Raw)
				}
			}
			refFin[first] = refFinished(negVers, sd.SHA384, master, first == int(netx.AtoB), pre)
			if w.CCSIdx[second] >= 0 {
				fm := append([]byte{hsFinished, 0, 0, 12}, refFin[first]...)
				all := append(append([][]byte(nil), pre...), fm)
				for _, m := range w.Msgs {
					if m.Rec >= w.CCSIdx[first] && m.Rec < w.CCSIdx[second] {
						all = append(all, m.Raw)
					}
				}
				refFin[second] = refFinished(negVers, sd.SHA384, master, second == int(netx.AtoB), all)
			}
		}
		cmpFin := func(field string, l *ztls.Finished, d int) {
			if l == nil || len(l.VerifyData) == 0 {
				return
			}
			res.Sections = append(res.Sections, field)
			if wireFin[d] != nil {
				k.bytesField(field+".verify_data:wire", l.VerifyData, wireFin[d], true)
			} else if len(w.Enc[d]) == 0 && d == int(netx.AtoB) && o.CErr == nil {
				k.fail("mismatch:"+field+":not-on-wire", "log has a Finished, no protected record was sent")
			}
			// the reference PRF value is what the peer checks; the server's Finished is logged before the
			// client validates it, so a rewritten transcript legitimately differs there
			if refFin[d] != nil && (handshakeOK || d == int(netx.AtoB)) {
				k.bytesField(field+".verify_data:prf", l.VerifyData, refFin[d], true)
			}
		}
		cmpFin("client_finished", o.Log.ClientFinished, int(netx.AtoB))
		cmpFin("server_finished", o.Log.ServerFinished, int(netx.BtoA))
	}

	// --- session ticket (RFC 5077 NewSessionTicket, TLS <= 1.2)
	// When the wire carried a NewSessionTicket the log's ticket object is about that message, whatever its
	// content (a zero-length ticket with hint 0 is then a populated, all-zero object).
	var nst *nstWire
	if !tls13 {
		if ms := w.find(netx.BtoA, hsNewSessionTicket); len(ms) > 0 {
			nst, _ = parseNST(ms[len(ms)-1].Body)
		}
	}
	if o.Log.SessionTicket == nil && nst != nil && o.CErr == nil {
		k.count("unpopulated:session_ticket")
	}
	if st := o.Log.SessionTicket; st != nil && (nst != nil || st.Length != 0 || len(st.Value) != 0 || st.LifetimeHint != 0) {
		res.Sections = append(res.Sections, "session_ticket")
		k.cmpf("session_ticket")
		if st.Length != len(st.Value) {
			k.fail("mismatch:session_ticket.length", "length field %d, value has %d bytes", st.Length, len(st.Value))
		}
		switch {
		case nst != nil:
			if !bytes.Equal(st.Value, nst.Ticket) {
				k.fail("mismatch:session_ticket.value", "log %s (%d bytes), NewSessionTicket on the wire %s (%d bytes)", hx(st.Value), len(st.Value), hx(nst.Ticket), len(nst.Ticket))
			}
			if st.LifetimeHint != nst.Lifetime {
				k.fail("mismatch:session_ticket.lifetime_hint", "log %d wire %d", st.LifetimeHint, nst.Lifetime)
			}
			k.count("session_ticket_equals_wire_newsessionticket")
			if len(nst.Ticket) == 0 {
				k.count("session_ticket_zero_length_on_wire")
			}
		case len(chs) > 0 && chs[len(chs)-1].HasTicket && bytes.Equal(st.Value, chs[len(chs)-1].Ticket) && len(st.Value) > 0:
			// no new ticket in this connection: the log shows the ticket the session was resumed from, which
			// was on the wire in the ClientHello
			k.count("session_ticket_is_the_offered_ticket")
		default:
			k.fail("mismatch:session_ticket:not-on-wire", "log has a ticket of %d bytes, no NewSessionTicket and no matching offered ticket on the wire", len(st.Value))
		}
	}

	// --- non-triviality and signature
	if o.Log.ClientHello != nil && o.Log.ServerHello != nil && len(chs) > 0 && len(shs) > 0 && k.fields > 0 {
		res.Nontrivial = true
	}
	sort.Strings(res.Sections)
	sigScheme := "none"
	curve := uint16(0)
	if skx != nil {
		if skx.HasAlg {
			sigScheme = fmt.Sprintf("%02x%02x", skx.HashB, skx.SigB)
		} else {
			sigScheme = "legacy"
		}
		curve = skx.NamedCurve
	}
	if finalSH != nil && finalSH.KeyShareGroup != 0 {
		curve = finalSH.KeyShareGroup
	}
	var suite uint16
	if finalSH != nil {
		suite = finalSH.Suite
	}
	chTicket, nstSeen, certReq := false, len(w.find(netx.BtoA, hsNewSessionTicket)) > 0, len(w.find(netx.BtoA, hsCertificateRequest)) > 0
	if len(chs) > 0 {
		chTicket = len(chs[len(chs)-1].Ticket) > 0 || len(chs[len(chs)-1].PSKIdentities) > 0
	}
	res.Sig = fmt.Sprintf("%s|%04x|%04x|g%d|sig=%s|%s|%s|ok=%v|hrr=%v|tkt=%v|nst=%v|creq=%v|alpn=%v|scts=%v|ocsp=%v|ems=%v|shrw=%d|leaf=%s|resumed=%v|sections=%s",
		s.Cell.Peer, negVers, suite, curve, sigScheme, s.Cell.Kind, s.Mode, handshakeOK, len(shs) > 1, chTicket, nstSeen, certReq,
		finalSH != nil && (finalSH.ALPN != "" || eeALPN != ""), finalSH != nil && len(finalSH.SCTs) > 0, finalSH != nil && finalSH.StatusRequest,
		finalSH != nil && finalSH.EMS, s.SHRewrite, s.LeafSet, o.DidResume, strings.Join(res.Sections, ",")) + "|" + s.Script
	res.Summary["negotiated_version"] = fmt.Sprintf("%04x", negVers)
	res.Summary["suite"] = fmt.Sprintf("%04x", suite)
	res.Summary["sig_scheme"] = sigScheme
	res.Summary["group"] = curve
	res.Summary["sections"] = res.Sections
	res.Summary["fields_compared"] = k.fields
	if o.CErr != nil {
		res.Summary["client_error"] = o.CErr.Error()
	}
	if o.SErr != nil {
		res.Summary["server_error"] = o.SErr.Error()
	}
	return res
}

// refSCT is the independent decoding of an RFC 6962 3.2 SignedCertificateTimestamp (v1).
type refSCT struct {
	Version    byte
	LogID      []byte
	Timestamp  uint64
	Extensions []byte
	HashAlg    byte
	SigAlg     byte
	Signature  []byte
}

// parseSCT classifies the bytes of one SerializedSCT: "valid" (a complete v1 SCT and nothing else),
// "trailing" (a complete v1 SCT followed by extra bytes), "malformed" (anything else).
func parseSCT(b []byte) (*refSCT, string) {
	r := &rd{b: b}
	t := &refSCT{Version: byte(r.u8())}
	if r.bad || t.Version != 0 {
		return nil, "malformed"
	}
	t.LogID = r.take(32)
	for _, x := range r.take(8) {
		t.Timestamp = t.Timestamp<<8 | uint64(x)
	}
	t.Extensions = r.vec16()
	t.HashAlg = byte(r.u8())
	t.SigAlg = byte(r.u8())
	t.Signature = r.vec16()
	if r.bad {
		return nil, "malformed"
	}
	if !r.empty() {
		return t, "trailing"
	}
	return t, "valid"
}

func cmpSCT(k *chk, i int, p *ct.SignedCertificateTimestamp, ref *refSCT) {
	if byte(p.SCTVersion) != ref.Version {
		k.fail("mismatch:server_hello.scts.parsed.version", "SCT %d: parsed %d wire %d", i, p.SCTVersion, ref.Version)
	}
	if !bytes.Equal(p.LogID[:], ref.LogID) {
		k.fail("mismatch:server_hello.scts.parsed.log_id", "SCT %d: parsed log id %x wire %x", i, p.LogID[:], ref.LogID)
	}
	if p.Timestamp != ref.Timestamp {
		k.fail("mismatch:server_hello.scts.parsed.timestamp", "SCT %d: parsed %d wire %d", i, p.Timestamp, ref.Timestamp)
	}
	if !bytes.Equal([]byte(p.Extensions), ref.Extensions) {
		k.fail("mismatch:server_hello.scts.parsed.extensions", "SCT %d: parsed %x wire %x", i, []byte(p.Extensions), ref.Extensions)
	}
	if byte(p.Signature.HashAlgorithm) != ref.HashAlg || byte(p.Signature.SignatureAlgorithm) != ref.SigAlg {
		k.fail("mismatch:server_hello.scts.parsed.signature.algorithm", "SCT %d: parsed %d/%d wire %d/%d", i, p.Signature.HashAlgorithm, p.Signature.SignatureAlgorithm, ref.HashAlg, ref.SigAlg)
	}
	if !bytes.Equal(p.Signature.Signature, ref.Signature) {
		k.fail("mismatch:server_hello.scts.parsed.signature", "SCT %d: parsed %s wire %s", i, hx(p.Signature.Signature), hx(ref.Signature))
	}
}
