package tlslogeng

// Scenario generator and runner for C28: a case is one configuration cell (peer, version, server key,
// cipher suite, curve) plus seed-determined options (ALPN, SCT, OCSP staple, resumption, HelloRetryRequest,
// client authentication, ServerHello rewrite, ClientHello mode, transport segmentation). Every handshake a
// case performs yields one observation: the tapped transcript, both key logs and the client's handshake log.

import (
	gotls "crypto/tls"
	"encoding/binary"
	"fmt"
	"math/rand/v2"
	"net"
	"strings"

	ztls "github.com/zmap/zcrypto/tls"

	"verifharness/internal/netx"
	"verifharness/internal/tlspair"
)

type cell struct {
	Peer  string // Z = zcrypto server, G = Go crypto/tls server
	Vers  uint16
	Kind  string
	Suite uint16
	Curve uint16 // 0 when the key exchange uses none
}

type spec struct {
	Cell       cell
	Index      int
	Mode       string // default | external | fingerprint
	ClientMax  uint16
	ExtraSuite []uint16 // offered after the cell's suite
	Curves     []uint16 // client's curve preferences (cell's curve first unless HRR)
	HRR        bool
	ALPN       int // 0 none, 1 both (overlap), 2 client only
	Protos     []string
	SrvProtos  []string
	SCT        int // number of SCTs on the server certificate
	OCSP       int // staple length, 0 = none
	Resume     bool
	ClientAuth bool
	LeafSet    string // Server | Untrusted | Expired | WrongName
	SkipVerify bool
	SHRewrite  int // 0 none, otherwise extension type to append to the ServerHello
	SHRewData  []byte
	SKXFlip    bool     // flip one bit in the last byte of the ServerKeyExchange (its signature) in flight
	Seg        int      // 0 none, otherwise max read chunk
	NoBuffer   bool     // DontBufferHandshakes
	ForceTkt   bool     // ForceSessionTicketExt
	NoTickets  bool     // server SessionTicketsDisabled
	SigAlgs    []uint16 // external / fingerprint mode
	ExtEMS     bool
	ExtHB      bool
	ExtUnknown bool
	ExtNoSID   bool
	ExtXRandom int // external mode: length of an extended_random value (0 = none)
	// zcrypto-specific Config switches of the client, drawn per case whether or not the library reads them
	CfgSCTExt, CfgHeartbeat, CfgExtRandom, CfgEMS, CfgNoOCSP, CfgNoTickets, CfgExplicitCurves bool
	CfgClientRandom                                                                           bool
	CfgCompression                                                                            []uint8
	CfgPoints                                                                                 []uint8
	CfgSigHashes                                                                              []ztls.SigAndHash
	SrvSigHash                                                                                []ztls.SigAndHash // zcrypto server SignatureAndHashes (DHE signature variety)
	Seed                                                                                      uint64
	Script                                                                                    string // scripted-server cases: description of the script (part of the case signature)
}

func (s spec) String() string {
	return fmt.Sprintf("%s/%04x/%s/%04x/c%d mode=%s cmax=%04x hrr=%v alpn=%d sct=%d ocsp=%d resume=%v cauth=%v leaf=%s skip=%v shrw=%d skxflip=%v seg=%d nobuf=%v ftkt=%v notkt=%v sigalgs=%04x ems=%v hb=%v unk=%v xrand=%d cfg[sct=%v hb=%v xr=%v ems=%v noocsp=%v notkt=%v explcurves=%v crandom=%v comp=%v points=%v sighashes=%v]",
		s.Cell.Peer, s.Cell.Vers, s.Cell.Kind, s.Cell.Suite, s.Cell.Curve, s.Mode, s.ClientMax, s.HRR, s.ALPN, s.SCT, s.OCSP, s.Resume, s.ClientAuth,
		s.LeafSet, s.SkipVerify, s.SHRewrite, s.SKXFlip, s.Seg, s.NoBuffer, s.ForceTkt, s.NoTickets, s.SigAlgs, s.ExtEMS, s.ExtHB, s.ExtUnknown, s.ExtXRandom,
		s.CfgSCTExt, s.CfgHeartbeat, s.CfgExtRandom, s.CfgEMS, s.CfgNoOCSP, s.CfgNoTickets, s.CfgExplicitCurves, s.CfgClientRandom, s.CfgCompression, s.CfgPoints, s.CfgSigHashes)
}

var allCurves = []uint16{23, 24, 25, 29}

func authOfKind(kind string) string {
	if kind == tlspair.RSA2048 {
		return "rsa"
	}
	return "ecdsa"
}

// buildCells enumerates the configuration cells that the two peers can negotiate.
func buildCells() []cell {
	var out []cell
	for _, peer := range []string{"Z", "G"} {
		for _, v := range []uint16{0x0301, 0x0302, 0x0303, 0x0304} {
			for _, kind := range tlspair.Kinds {
				if kind == tlspair.Ed25519 && v < 0x0303 {
					continue
				}
				for i := range suiteTable {
					s := &suiteTable[i]
					if (s.Kx == "tls13") != (v == 0x0304) {
						continue
					}
					if v != 0x0304 {
						if s.Auth != authOfKind(kind) || (s.TLS12 && v < 0x0303) || (peer == "G" && !s.GoPeer) {
							continue
						}
					}
					if s.Kx == "ecdhe" || s.Kx == "tls13" {
						for _, cv := range allCurves {
							out = append(out, cell{peer, v, kind, s.ID, cv})
						}
					} else {
						// cells without a curve dimension are listed several times so that the RSA and DHE key
						// exchanges get a share of the cases comparable to one ECDHE suite
						w := 2
						if s.Kx == "dhe" {
							w = 4
						}
						for i := 0; i < w; i++ {
							out = append(out, cell{peer, v, kind, s.ID, 0})
						}
					}
				}
			}
		}
	}
	return out
}

func pick[T any](r *rand.Rand, v []T) T { return v[r.IntN(len(v))] }

func randBytes(r *rand.Rand, n int) []byte {
	b := make([]byte, n)
	for i := range b {
		b[i] = byte(r.Uint32())
	}
	return b
}

var protoPool = []string{"h2", "http/1.1", "spdy/3", "x", "verif-proto-with-a-long-name", "acme-tls/1"}

// wire signature schemes offered in external mode (RFC 8446 4.2.3 / RFC 5246 7.4.1.4.1 code points)
var sigPool = []uint16{0x0804, 0x0805, 0x0806, 0x0401, 0x0501, 0x0601, 0x0403, 0x0503, 0x0603, 0x0807, 0x0201, 0x0203, 0x0809, 0x0808, 0x0301, 0x0402}

func makeSpec(c cell, idx int, r *rand.Rand) spec {
	s := spec{Cell: c, Index: idx, Mode: "default", ClientMax: c.Vers, LeafSet: "Server", Seed: r.Uint64() | 1}
	p := func(pct int) bool { return r.IntN(100) < pct }
	if c.Vers <= 0x0303 {
		switch x := r.IntN(100); {
		case x < 22:
			s.Mode = "external"
		case x < 30:
			s.Mode = "fingerprint"
		}
	}
	if s.Mode == "fingerprint" && c.Vers == 0x0303 && c.Kind != tlspair.RSA2048 {
		// the fingerprint signature_algorithms extension only accepts RSA / DSA pairs, which an ECDSA / Ed25519 server cannot use
		s.Mode = "default"
	}
	if s.Mode == "default" && c.Vers < 0x0304 && p(40) {
		s.ClientMax = 0x0304
	}
	// curves
	if c.Curve != 0 {
		s.Curves = []uint16{c.Curve}
		for _, cv := range allCurves {
			if cv != c.Curve && p(40) {
				s.Curves = append(s.Curves, cv)
			}
		}
		if c.Vers == 0x0304 && p(25) {
			s.HRR = true
			other := pick(r, allCurves)
			for other == c.Curve {
				other = pick(r, allCurves)
			}
			s.Curves = []uint16{other, c.Curve} // server only supports c.Curve: HelloRetryRequest
		}
	}
	if c.Vers < 0x0304 && p(50) {
		for i := range suiteTable {
			x := &suiteTable[i]
			if x.ID != c.Suite && x.Kx != "tls13" && x.ZTable && p(20) && !(x.TLS12 && c.Vers < 0x0303) {
				s.ExtraSuite = append(s.ExtraSuite, x.ID)
			}
		}
	}
	switch x := r.IntN(100); {
	case x < 40:
		s.ALPN = 1
	case x < 50:
		s.ALPN = 2
	}
	if s.ALPN != 0 {
		n := 1 + r.IntN(3)
		perm := r.Perm(len(protoPool))
		for i := 0; i < n; i++ {
			s.Protos = append(s.Protos, protoPool[perm[i]])
		}
		if s.ALPN == 1 {
			s.SrvProtos = []string{pick(r, s.Protos)}
			if p(50) {
				s.SrvProtos = append([]string{"zz-unrelated"}, s.SrvProtos...)
			}
		}
	}
	if p(35) {
		s.SCT = 1 + r.IntN(5)
	}
	if p(35) {
		s.OCSP = 20 + r.IntN(400)
	}
	s.Resume = s.Mode != "external" && p(35)
	s.ClientAuth = p(15)
	if p(12) {
		s.LeafSet = pick(r, []string{"Untrusted", "Expired", "WrongName"})
		s.SkipVerify = p(75)
	}
	if p(12) {
		s.SHRewrite = pick(r, []int{0x5501, 0x0a0a, 65000, 23, 15, 0x3a3a})
		switch s.SHRewrite {
		case 23:
		case 15:
			s.SHRewData = []byte{1}
		default:
			s.SHRewData = randBytes(r, r.IntN(24))
		}
	}
	if c.Vers < 0x0304 && s.SHRewrite == 0 && p(8) {
		s.SKXFlip = true
		s.SkipVerify = s.SkipVerify || p(70)
	}
	if p(10) {
		s.Seg = pick(r, []int{1, 3, 17, 64, 500})
	}
	s.NoBuffer = p(15)
	s.ForceTkt = p(15)
	s.NoTickets = p(10)
	if s.Mode != "default" {
		perm := r.Perm(len(sigPool))
		n := 3 + r.IntN(len(sigPool)-2)
		for i := 0; i < n; i++ {
			s.SigAlgs = append(s.SigAlgs, sigPool[perm[i]])
		}
		if s.Mode == "fingerprint" {
			s.SigAlgs = nil
			for _, x := range []uint16{0x0401, 0x0501, 0x0601, 0x0201, 0x0301} {
				if p(70) {
					s.SigAlgs = append(s.SigAlgs, x)
				}
			}
			if len(s.SigAlgs) == 0 {
				s.SigAlgs = []uint16{0x0401}
			}
			r.Shuffle(len(s.SigAlgs), func(i, j int) { s.SigAlgs[i], s.SigAlgs[j] = s.SigAlgs[j], s.SigAlgs[i] })
		}
		s.ExtEMS = p(25)
		s.ExtHB = p(20)
		s.ExtUnknown = p(30)
		s.ExtNoSID = p(30)
		if p(20) {
			s.ExtXRandom = 1 + r.IntN(40)
		}
	}
	s.CfgSCTExt, s.CfgHeartbeat, s.CfgExtRandom, s.CfgEMS = p(25), p(20), p(15), p(20)
	s.CfgNoOCSP, s.CfgNoTickets, s.CfgClientRandom = p(15), p(12), p(15)
	s.CfgExplicitCurves = p(8) && len(s.Curves) > 0
	if p(15) {
		s.CfgCompression = []uint8{0}
	}
	if p(15) {
		s.CfgPoints = []uint8{0}
	}
	if p(15) {
		for _, h := range []uint8{6, 5, 4, 2} {
			for _, sg := range []uint8{1, 3} {
				if p(75) {
					s.CfgSigHashes = append(s.CfgSigHashes, ztls.SigAndHash{Signature: sg, Hash: h})
				}
			}
		}
	}
	if c.Peer == "Z" && p(50) {
		hashes := []uint8{2, 4, 5, 6}
		r.Shuffle(len(hashes), func(i, j int) { hashes[i], hashes[j] = hashes[j], hashes[i] })
		for _, h := range hashes[:1+r.IntN(3)] {
			s.SrvSigHash = append(s.SrvSigHash, ztls.SigAndHash{Signature: 1, Hash: h})
		}
	}
	return s
}

// makeSCT builds a syntactically valid RFC 6962 v1 SignedCertificateTimestamp with arbitrary content.
func makeSCT(r *rand.Rand) []byte {
	var w wr
	w.u8(0)
	w.raw(randBytes(r, 32))
	var ts [8]byte
	binary.BigEndian.PutUint64(ts[:], uint64(1700000000000)+uint64(r.IntN(1e9)))
	w.raw(ts[:])
	w.vec16(randBytes(r, r.IntN(6)))
	w.u8(4)
	w.u8(3)
	w.vec16(randBytes(r, 64+r.IntN(9)))
	return w.b
}

// ---- running ----------------------------------------------------------------

type hsObs struct {
	Label     string
	CErr      error
	SErr      error
	TimedOut  bool
	Log       *ztls.ServerHandshake
	Tap       []netx.TapRec
	ClientKL  string
	ServerKL  string
	Vers      uint16 // ConnectionState version of the client (0 if unknown)
	DidResume bool
	PingErr   error
	SentCH    []byte // external mode: the ClientHello handed to the client
}

type caseRun struct {
	Spec spec
	Obs  []*hsObs
	Note string
}

type shFilter struct {
	flipSKX bool // instead of rewriting the ServerHello, flip the last byte of the first ServerKeyExchange record
	typ     int
	data    []byte
	pend    []byte
	done    bool
	hit     bool
}

// Write reassembles records and appends one extension to the first ServerHello that is the first
// message of a handshake record, fixing the three enclosing lengths.
func (f *shFilter) Write(p []byte) [][]byte {
	if f.done {
		return [][]byte{p}
	}
	f.pend = append(f.pend, p...)
	var out [][]byte
	for len(f.pend) >= 5 {
		n := int(f.pend[3])<<8 | int(f.pend[4])
		if len(f.pend) < 5+n {
			break
		}
		rec := append([]byte(nil), f.pend[:5+n]...)
		f.pend = f.pend[5+n:]
		if !f.done && f.flipSKX && rec[0] == recHandshake && n >= 8 && rec[5] == hsServerKeyExchange {
			rec[len(rec)-1] ^= 0x04
			f.hit, f.done = true, true
		}
		if !f.done && !f.flipSKX && rec[0] == recHandshake && n >= 4 && rec[5] == hsServerHello {
			ml := int(rec[6])<<16 | int(rec[7])<<8 | int(rec[8])
			if 4+ml <= n {
				body := rec[9 : 9+ml]
				rest := rec[9+ml:]
				r := &rd{b: body}
				r.take(34)
				r.vec8()
				r.take(3)
				if !r.bad {
					fixed := body[:len(body)-len(r.b)]
					var exts []byte
					if !r.empty() {
						exts = r.vec16()
					}
					var e wr
					e.raw(exts)
					e.ext(f.typ, f.data)
					var nb wr
					nb.raw(fixed)
					nb.vec16(e.b)
					var m wr
					m.u8(hsServerHello)
					m.u24(len(nb.b))
					m.raw(nb.b)
					m.raw(rest)
					if len(m.b) <= 16384 {
						var nr wr
						nr.raw(rec[:3])
						nr.u16(len(m.b))
						nr.raw(m.b)
						rec = nr.b
						f.hit = true
					}
				}
				f.done = true
			}
		}
		out = append(out, rec)
	}
	if f.done && len(f.pend) > 0 {
		out = append(out, f.pend)
		f.pend = nil
	}
	return out
}

func (f *shFilter) Flush() [][]byte {
	if len(f.pend) > 0 {
		p := f.pend
		f.pend = nil
		return [][]byte{p}
	}
	return nil
}

type cacheKeyGen string

func (k cacheKeyGen) Key(net.Addr) string { return string(k) }

func segmenter(seed uint64, max int) netx.Segmenter {
	r := rand.New(rand.NewPCG(seed, 77))
	return func(avail, want int) int {
		n := 1 + r.IntN(max)
		if n > avail {
			n = avail
		}
		if n > want {
			n = want
		}
		return n
	}
}

func curveIDs(v []uint16) []ztls.CurveID {
	out := make([]ztls.CurveID, len(v))
	for i, x := range v {
		out[i] = ztls.CurveID(x)
	}
	return out
}

func goCurveIDs(v []uint16) []gotls.CurveID {
	out := make([]gotls.CurveID, len(v))
	for i, x := range v {
		out[i] = gotls.CurveID(x)
	}
	return out
}

// externalHello builds the ClientHello bytes for ExternalClientHello mode with the independent writer.
func externalHello(s spec, r *rand.Rand) []byte {
	var exts []extn
	add := func(t int, d []byte) { exts = append(exts, extn{Typ: uint16(t), Data: d}) }
	{
		var w, l wr
		l.u8(0)
		l.vec16([]byte(tlspair.ServerName))
		w.vec16(l.b)
		add(extServerName, w.b)
	}
	if r.IntN(100) < 70 {
		add(extStatusRequest, []byte{1, 0, 0, 0, 0})
	}
	if len(s.Curves) > 0 {
		add(extSupportedGroups, u16list16(s.Curves))
		add(extECPointFormats, []byte{1, 0})
	}
	if s.Cell.Vers >= 0x0303 {
		add(extSignatureAlgs, u16list16(s.SigAlgs))
	}
	if s.ForceTkt {
		add(extSessionTicket, nil)
	}
	add(extRenegotiationInfo, []byte{0})
	if len(s.Protos) > 0 {
		var w, l wr
		for _, p := range s.Protos {
			l.vec8([]byte(p))
		}
		w.vec16(l.b)
		add(extALPN, w.b)
	}
	if s.ExtEMS {
		add(extEMS, nil)
	}
	if s.ExtHB {
		add(extHeartbeat, []byte{1})
	}
	if r.IntN(100) < 70 {
		add(extSCT, nil)
	}
	if s.ExtUnknown {
		add(0x5599, randBytes(r, 1+r.IntN(12)))
	}
	if s.ExtXRandom > 0 {
		var w wr
		w.vec16(randBytes(r, s.ExtXRandom)) // draft-rescorla-tls-extended-random: opaque extended_random_value<0..2^16-1>
		add(extExtendedRandom, w.b)
	}
	suites := append([]uint16{s.Cell.Suite}, s.ExtraSuite...)
	sid := randBytes(r, 32)
	if s.ExtNoSID {
		sid = nil
	}
	return buildClientHello(s.Cell.Vers, randBytes(r, 32), sid, suites, exts)
}

func fingerprintConfig(s spec, cache ztls.ClientSessionCache) *ztls.ClientFingerprintConfiguration {
	f := &ztls.ClientFingerprintConfiguration{HandshakeVersion: s.Cell.Vers, CompressionMethods: []uint8{0},
		CipherSuites: append([]uint16{s.Cell.Suite}, s.ExtraSuite...)}
	if !s.ExtNoSID {
		f.SessionID = []byte("verif-fingerprint-session-id-32b")
	}
	f.Extensions = append(f.Extensions, &ztls.SNIExtension{Domains: []string{tlspair.ServerName}})
	if len(s.Curves) > 0 {
		f.Extensions = append(f.Extensions, &ztls.SupportedCurvesExtension{Curves: curveIDs(s.Curves)}, &ztls.PointFormatExtension{Formats: []uint8{0}})
	}
	if s.Cell.Vers >= 0x0303 {
		f.Extensions = append(f.Extensions, &ztls.SignatureAlgorithmExtension{SignatureAndHashes: s.SigAlgs})
	}
	f.Extensions = append(f.Extensions, &ztls.StatusRequestExtension{}, &ztls.SecureRenegotiationExtension{})
	if len(s.Protos) > 0 {
		f.Extensions = append(f.Extensions, &ztls.ALPNExtension{Protocols: s.Protos})
	}
	if s.ExtEMS {
		f.Extensions = append(f.Extensions, &ztls.ExtendedMasterSecretExtension{})
	}
	if s.ExtHB || s.SCT > 0 {
		f.Extensions = append(f.Extensions, &ztls.SCTExtension{})
	}
	if cache != nil {
		f.Extensions = append(f.Extensions, &ztls.SessionTicketExtension{Autopopulate: true})
		f.SessionCache = cache
		f.CacheKey = cacheKeyGen(tlspair.ServerName)
	} else if s.ForceTkt {
		f.Extensions = append(f.Extensions, &ztls.SessionTicketExtension{})
	}
	return f
}

// runCase executes the handshakes of one case.
func runCase(s spec) *caseRun {
	cr := &caseRun{Spec: s}
	r := rand.New(rand.NewPCG(s.Seed, 0xC28))
	pki := tlspair.Get()
	leafOf := func() *tlspair.Leaf {
		switch s.LeafSet {
		case "Untrusted":
			return pki.Untrusted[s.Cell.Kind]
		case "Expired":
			return pki.Expired[s.Cell.Kind]
		case "WrongName":
			return pki.WrongName[s.Cell.Kind]
		}
		return pki.Server[s.Cell.Kind]
	}
	leaf := leafOf()
	var scts [][]byte
	if s.SCT > 0 {
		scts = makeSCTList(r, s.SCT)
	}
	var staple []byte
	if s.OCSP > 0 {
		staple = randBytes(r, s.OCSP)
	}
	srvCurves := []uint16{}
	if s.Cell.Curve != 0 {
		srvCurves = []uint16{s.Cell.Curve}
	}
	sd := suiteByID(s.Cell.Suite)

	clientKL, serverKL := &tlspair.SyncBuffer{}, &tlspair.SyncBuffer{}

	// --- server configuration
	var zs *ztls.Config
	var gs *gotls.Config
	if s.Cell.Peer == "Z" {
		zs = tlspair.BaseServer(s.Seed+1, s.Cell.Kind)
		zc := leaf.Z()
		zc.OCSPStaple, zc.SignedCertificateTimestamps = staple, scts
		zs.Certificates = []ztls.Certificate{zc}
		zs.MinVersion, zs.MaxVersion = ztls.VersionTLS10, s.Cell.Vers
		if s.Cell.Vers < 0x0304 {
			zs.CipherSuites = append([]uint16{s.Cell.Suite}, s.ExtraSuite...)
			zs.PreferServerCipherSuites = true
		}
		if len(srvCurves) > 0 {
			zs.CurvePreferences = curveIDs(srvCurves)
		}
		zs.NextProtos = s.SrvProtos
		zs.SessionTicketsDisabled = s.NoTickets
		zs.KeyLogWriter = serverKL
		zs.SignatureAndHashes = s.SrvSigHash
		if s.ClientAuth {
			zs.ClientAuth = ztls.RequireAnyClientCert
		}
	} else {
		gs = tlspair.GoServer(s.Seed+1, s.Cell.Kind)
		gc := leaf.Go()
		gc.OCSPStaple, gc.SignedCertificateTimestamps = staple, scts
		gs.Certificates = []gotls.Certificate{gc}
		gs.MinVersion, gs.MaxVersion = gotls.VersionTLS10, s.Cell.Vers
		if s.Cell.Vers < 0x0304 {
			gs.CipherSuites = append([]uint16{s.Cell.Suite}, s.ExtraSuite...)
		}
		if len(srvCurves) > 0 {
			gs.CurvePreferences = goCurveIDs(srvCurves)
		}
		gs.NextProtos = s.SrvProtos
		gs.SessionTicketsDisabled = s.NoTickets
		gs.KeyLogWriter = serverKL
		if s.ClientAuth {
			gs.ClientAuth = gotls.RequireAnyClientCert
		}
	}

	// --- client configuration
	var cache ztls.ClientSessionCache
	if s.Resume {
		cache = ztls.NewLRUClientSessionCache(4)
	}
	mkClient := func(mode string, round int) (*ztls.Config, []byte) {
		cc := tlspair.BaseClient(s.Seed + 7 + uint64(round)*1000)
		cc.MinVersion, cc.MaxVersion = ztls.VersionTLS10, s.ClientMax
		cc.KeyLogWriter = clientKL
		cc.InsecureSkipVerify = s.SkipVerify
		cc.DontBufferHandshakes = s.NoBuffer
		cc.ForceSessionTicketExt = s.ForceTkt
		cc.SignedCertificateTimestampExt = s.CfgSCTExt
		cc.HeartbeatEnabled = s.CfgHeartbeat
		cc.ExtendedRandom = s.CfgExtRandom
		cc.ExtendedMasterSecret = s.CfgEMS
		cc.NoOcspStapling = s.CfgNoOCSP
		cc.SessionTicketsDisabled = s.CfgNoTickets
		cc.ExplicitCurvePreferences = s.CfgExplicitCurves
		cc.CompressionMethods = s.CfgCompression
		cc.SupportedPoints = s.CfgPoints
		cc.SignatureAndHashes = s.CfgSigHashes
		if s.CfgClientRandom {
			cc.ClientRandom = randBytes(r, 32)
		}
		if s.ClientAuth {
			cc.Certificates = []ztls.Certificate{pki.Client[s.Cell.Kind].Z()}
		}
		var sent []byte
		switch mode {
		case "default":
			cc.CipherSuites = append([]uint16{s.Cell.Suite}, s.ExtraSuite...)
			if sd != nil && !sd.ZTable {
				cc.ForceSuites = true
			}
			if len(s.Curves) > 0 {
				cc.CurvePreferences = curveIDs(s.Curves)
			}
			cc.NextProtos = s.Protos
			cc.ClientSessionCache = cache
		case "external":
			sent = externalHello(s, r)
			cc.ExternalClientHello = sent
		case "fingerprint":
			var fc ztls.ClientSessionCache
			if round > 0 {
				fc = cache
			}
			cc.ClientFingerprintConfiguration = fingerprintConfig(s, fc)
			if sd != nil && !sd.ZTable {
				cc.ForceSuites = true
			}
		}
		return cc, sent
	}

	rounds := 1
	if s.Resume {
		rounds = 2
	}
	for round := 0; round < rounds; round++ {
		mode := s.Mode
		if s.Mode == "fingerprint" && s.Resume && round == 0 {
			mode = "default" // the fingerprint path never stores sessions; the first round fills the cache
		}
		cc, sent := mkClient(mode, round)
		opt := tlspair.Options{}
		var flt *shFilter
		if s.SHRewrite != 0 && (round == rounds-1) {
			flt = &shFilter{typ: s.SHRewrite, data: s.SHRewData}
			opt.BA.Filter = flt
		} else if s.SKXFlip && round == 0 {
			flt = &shFilter{flipSKX: true}
			opt.BA.Filter = flt
		}
		if s.Seg > 0 {
			opt.AB.Segment = segmenter(s.Seed+uint64(round), s.Seg)
			opt.BA.Segment = segmenter(s.Seed+uint64(round)+99, s.Seg)
		}
		var res *tlspair.Result
		if zs != nil {
			res = tlspair.RunZZ(cc, zs, opt)
		} else {
			res = tlspair.RunZG(cc, gs, opt)
		}
		o := &hsObs{Label: fmt.Sprintf("hs%d/%s", round, mode), CErr: res.CErr, SErr: res.SErr, TimedOut: res.TimedOut, SentCH: sent}
		if res.CErr == nil && res.SErr == nil && !res.TimedOut {
			o.PingErr = res.PingPong([]byte("ping-c28"), []byte("pong-c28-reply"))
		}
		o.Log = res.CZ.GetHandshakeLog()
		if res.CErr == nil {
			st := res.CZ.ConnectionState()
			o.Vers, o.DidResume = st.Version, st.DidResume
		}
		res.Close()
		o.Tap = res.Tap.Records()
		o.ClientKL, o.ServerKL = clientKL.String(), serverKL.String()
		cr.Obs = append(cr.Obs, o)
		if flt != nil && !flt.hit {
			cr.Note += "sh-rewrite-not-applied;"
		}
	}
	return cr
}

// keylogLookup finds "<label> <client_random hex> <secret hex>" in an NSS key log.
func keylogLookup(kl, label string, clientRandom []byte) []byte {
	want := fmt.Sprintf("%x", clientRandom)
	for _, ln := range strings.Split(kl, "\n") {
		f := strings.Fields(ln)
		if len(f) == 3 && f[0] == label && strings.EqualFold(f[1], want) {
			var out []byte
			if _, err := fmt.Sscanf(f[2], "%x", &out); err == nil {
				return out
			}
		}
	}
	return nil
}

// keylogAll returns the secrets of every line with the given label.
func keylogAll(kl, label string) [][]byte {
	var out [][]byte
	for _, ln := range strings.Split(kl, "\n") {
		f := strings.Fields(ln)
		if len(f) == 3 && f[0] == label {
			var v []byte
			if _, err := fmt.Sscanf(f[2], "%x", &v); err == nil {
				out = append(out, v)
			}
		}
	}
	return out
}

// makeSCTList builds a SignedCertificateTimestampList of n entries mixing well-formed and malformed
// SerializedSCTs in a random order: valid, valid with a large signature, truncated, garbage, unknown version,
// valid followed by trailing bytes and (rarely, it makes zcrypto reject the ServerHello) empty.
func makeSCTList(r *rand.Rand, n int) [][]byte {
	var out [][]byte
	for i := 0; i < n; i++ {
		v := makeSCT(r)
		switch x := r.IntN(100); {
		case x < 40:
		case x < 50: // oversized but well-formed
			var w wr
			w.raw(v[:41])
			w.vec16(randBytes(r, r.IntN(300)))
			w.u8(4)
			w.u8(1)
			w.vec16(randBytes(r, 1500+r.IntN(3000)))
			v = w.b
		case x < 68: // truncated
			v = v[:1+r.IntN(len(v)-1)]
		case x < 82: // garbage
			v = randBytes(r, 1+r.IntN(90))
		case x < 89: // unknown version
			v[0] = byte(1 + r.IntN(255))
		case x < 97: // trailing bytes
			v = append(v, randBytes(r, 1+r.IntN(8))...)
		default:
			v = nil
		}
		out = append(out, v)
	}
	return out
}
