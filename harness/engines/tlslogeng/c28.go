// Package tlslogeng monitors C28: the client handshake log (Conn.GetHandshakeLog) records what was
// actually exchanged. A zcrypto client performs handshakes against a zcrypto or a Go crypto/tls server
// over the tapped in-memory transport; the tapped transcript is parsed by an independent wire parser
// (wire.go), secrets come from the NSS key logs of both sides and from reference derivations
// (refcrypto.go), and every populated field of the log is compared with them (oracle.go).
package tlslogeng

import (
	"crypto"
	"encoding/hex"
	"fmt"
	"strings"

	"verifharness/internal/core"
	"verifharness/internal/tlspair"
)

func init() {
	core.RegisterMeta("C28", core.Meta{
		Rule: "cases = configuration cells (peer zcrypto|Go server x TLS 1.0-1.3 x server key RSA/P-256/P-384/P-521/Ed25519 x cipher suite x curve P-256/384/521/X25519) visited in a seed-shuffled order, " +
			"each with seed-drawn options (ClientHello built by the library / ExternalClientHello / ClientFingerprintConfiguration, ALPN, SCT list, OCSP staple, ticket resumption, HelloRetryRequest, client auth, " +
			"untrusted/expired/misnamed leaf, the zcrypto-specific client Config switches (ForceSessionTicketExt, SignedCertificateTimestampExt, HeartbeatEnabled, ExtendedRandom, ExtendedMasterSecret, NoOcspStapling, SessionTicketsDisabled, ClientRandom, CompressionMethods, SupportedPoints, SignatureAndHashes, ExplicitCurvePreferences), ServerHello rewritten in flight with an extra extension, read segmentation, unbuffered handshakes, DHE via a zcrypto server); every handshake is one evaluation; " +
			"plus scripted-server cases: a TLS 1.0-1.2 server built on the package's own parser and reference derivations (RSA / ECDHE full and abbreviated handshakes, AES-GCM / AES-CBC sealing) enumerates NewSessionTicket length {0,1,16,200,65530,65535} x lifetime hint {0,300,2^32-1} x flow {single, resumed-with-refresh, resumption declined, resumed without refresh then refresh/decline, no ticket then ticket} with drawn session-id echo/fresh/empty, ALPN, unknown extensions, CertificateStatus, SCT list, fragmented / coalesced flights; " +
			"non-trivial = the log has ClientHello and ServerHello, the transcript parsed, and at least one populated field was compared; distinct by (peer, negotiated version, suite, group, wire signature bytes, key kind, " +
			"hello mode, outcome, HRR, ticket offered/issued, CertificateRequest, ALPN/SCT/OCSP/EMS on the wire, rewrite, leaf set, resumed, log sections present)",
		MinNontrivial:         1200,
		MinNontrivialThorough: 8000,
		Shards:                16,
		Env:                   []string{"GODEBUG=tlsrsakex=1,tls3des=1,tls10server=1,tlssha1=1"},
		Assumptions: []string{
			"the tap of internal/netx records exactly the bytes each endpoint received (filters run before the tap)",
			"wire parser, PRF / key block / Finished / record opening / HKDF are written from the RFCs on Go's hash and cipher primitives and share no code with zcrypto",
			"the scripted server's key-log line (CLIENT_RANDOM, master secret it derived itself) plays the role of the peer's key log",
			"Go's crypto/tls server, crypto/rsa, crypto/ecdsa, crypto/ed25519, crypto/ecdh and crypto/x509 are trusted as independent references",
			"the ClientHello / ServerHello log structs are populated as a whole: presence flags must equal 'extension on the wire' in both directions and empty lists / strings against a wire value are mismatches (:missing), except the fields of helloLenient in oracle.go (secure_renegotiation, sct_enabled, heartbeat, ServerHello extended_random, ClientHello unknown_extensions: ambiguous meaning or extension unknown to the message parser; counted as unpopulated:<field>)",
			"outside the hello structs populated = non-zero: a zero-valued field is counted as unpopulated:<field>, not asserted",
			"for 0x08xx signature schemes the hash may be rendered as intrinsic or as the scheme's hash, the signature as rsa or rsapss; signature.type may name the suite's or the wire's algorithm",
			"on HelloRetryRequest the single ClientHello / ServerHello slot may hold either exchanged message (counted in hrr_log_records_*)",
			"a top-level session_ticket without a NewSessionTicket in the same connection may be the ticket offered in the ClientHello",
		},
		ChildTimeoutQuick:    600,
		ChildTimeoutThorough: 3000,
	}, runC28)
}

func tapHex(o *hsObs) []string {
	var out []string
	for _, t := range o.Tap {
		out = append(out, fmt.Sprintf("%s %s", t.Dir, hex.EncodeToString(t.Data)))
	}
	return out
}

func runC28(c *core.Ctx) {
	cells := buildCells()
	perm := c.GlobalRng("cell-order").Perm(len(cells))
	total := c.Pick(2*len(cells)+160, 60*len(cells))
	pki := tlspair.Get()
	c.Count("cells", 0)
	if c.Shard == 0 {
		c.Count("cells", len(cells))
		c.Note("%d configuration cells; %d cases", len(cells), total)
	}
	report := func(sp spec, id string, idx int, o *hsObs, serverKey crypto.PrivateKey) {
		oid := id + "/" + o.Label
		c.Eval(1)
		var res *obsResult
		if pi := core.Guard(func() { res = checkObs(sp, o, serverKey) }); pi != nil {
			c.Violation("oracle-"+pi.Key, pi.Value+"\n"+pi.Stack, oid, map[string]any{"spec": sp.String(), "tap": tapHex(o)})
			return
		}
		if o.TimedOut {
			c.Count("handshake_watchdog", 1)
		}
		switch {
		case o.CErr == nil && o.SErr == nil:
			c.Count("handshake_ok", 1)
		case o.Log != nil && o.Log.ServerHello != nil:
			c.Count("handshake_failed_after_serverhello", 1)
		default:
			c.Count("handshake_failed_early", 1)
		}
		if o.PingErr != nil {
			c.Count("pingpong_failed", 1)
		}
		c.Count("mode_"+sp.Mode, 1)
		c.Count("fields_compared", res.K.fields)
		for n, v := range res.K.counts {
			c.Count(n, v)
		}
		for _, s := range res.Sections {
			c.Count("section:"+s, 1)
		}
		if v, ok := res.Summary["sig_scheme"].(string); ok && v != "none" {
			c.Count("skx_sig:"+v, 1)
		}
		if v, ok := res.Summary["negotiated_version"].(string); ok {
			c.Count("version:"+v, 1)
		}
		if res.Nontrivial {
			c.Nontrivial(res.Sig)
		}
		if c.WantSample() && res.Nontrivial && idx%7 == 0 {
			c.Sample(map[string]any{"case": oid, "spec": sp.String(), "summary": res.Summary, "mismatches": len(res.K.mm)})
		}
		seen := map[string]bool{}
		for _, m := range res.K.mm {
			if seen[m.Key] {
				continue
			}
			seen[m.Key] = true
			c.Violation(m.Key, m.Detail, oid, map[string]any{
				"spec": sp.String(), "script": sp.Script, "handshake": o.Label, "client_error": fmt.Sprint(o.CErr), "server_error": fmt.Sprint(o.SErr),
				"summary": res.Summary, "tap": tapHex(o), "client_keylog": o.ClientKL, "server_keylog": o.ServerKL,
			})
		}
	}
	for idx := c.Shard; idx < total; idx += c.NShards {
		id := fmt.Sprintf("c%d", idx)
		if c.OnlyCase != "" && !strings.HasPrefix(c.OnlyCase, id+"/") && c.OnlyCase != id {
			continue
		}
		rng := c.GlobalRng(fmt.Sprintf("case-%d", idx))
		sp := makeSpec(cells[perm[idx%len(cells)]], idx, rng)
		var cr *caseRun
		if pi := core.Guard(func() { cr = runCase(sp) }); pi != nil {
			c.Eval(1)
			c.Violation("harness-or-client-"+pi.Key, pi.Value+"\n"+pi.Stack, id, map[string]any{"spec": sp.String()})
			continue
		}
		var serverKey crypto.PrivateKey
		switch sp.LeafSet {
		case "Untrusted":
			serverKey = pki.Untrusted[sp.Cell.Kind].Key
		case "Expired":
			serverKey = pki.Expired[sp.Cell.Kind].Key
		case "WrongName":
			serverKey = pki.WrongName[sp.Cell.Kind].Key
		default:
			serverKey = pki.Server[sp.Cell.Kind].Key
		}
		for _, o := range cr.Obs {
			report(sp, id, idx, o, serverKey)
		}
	}
	// scripted-server cases: the (ticket length x lifetime hint x flow) grid is enumerated, everything else is drawn
	nScripted := c.Pick(4*numScriptCombos, 80*numScriptCombos)
	if c.Shard == 0 {
		c.Note("%d scripted-server cases over a grid of %d (ticket length, hint, flow) combinations", nScripted, numScriptCombos)
	}
	for idx := c.Shard; idx < nScripted; idx += c.NShards {
		id := fmt.Sprintf("s%d", idx)
		if c.OnlyCase != "" && !strings.HasPrefix(c.OnlyCase, id+"/") && c.OnlyCase != id {
			continue
		}
		sc := makeScriptedCase(idx, c.GlobalRng(fmt.Sprintf("scripted-%d", idx)))
		var obs []*hsObs
		if pi := core.Guard(func() { obs = runScripted(sc) }); pi != nil {
			c.Eval(1)
			c.Violation("harness-or-client-"+pi.Key, pi.Value+"\n"+pi.Stack, id, map[string]any{"script": sc.Desc})
			continue
		}
		for i, o := range obs {
			sp := sc.Spec
			sp.Script = sc.Desc + " | " + sc.Conns[i].String()
			if o.SErr != nil {
				c.Count("scripted_server_error", 1)
			}
			c.Count("scripted_handshakes", 1)
			report(sp, id, idx, o, pki.Server[sc.Kind].Key)
		}
	}
}
