package tlslogeng

// A minimal scripted TLS 1.0 - 1.2 server for the C28 workload, written on the package's own wire
// parser and reference derivations (RFC 5246 7.3/7.4, RFC 4492, RFC 5077 3.3/3.4, RFC 5288; no zcrypto,
// no crypto/tls). It makes server choices the real peers never make: NewSessionTicket of any length
// including zero, arbitrary lifetime hints, session-id echo / fresh / empty, unknown extensions,
// CertificateStatus, SCT list, handshake messages fragmented or coalesced across records. It performs
// full handshakes (RSA key transport or ECDHE with a signed ServerKeyExchange) and abbreviated ones, where
// it accepts a presented ticket by remembering the master secret it issued it for.

import (
	"crypto"
	"crypto/aes"
	"crypto/cipher"
	"crypto/ecdh"
	"crypto/hmac"
	"crypto/rsa"
	"crypto/sha1"
	"crypto/sha256"
	"encoding/binary"
	"errors"
	"fmt"
	"io"
	mrand "math/rand/v2"
	"net"
	"sync"
	"time"

	ztls "github.com/zmap/zcrypto/tls"

	"verifharness/internal/netx"
	"verifharness/internal/tlspair"
)

// ---- record protection (sealing side) -----------------------------------------

type cipherState struct {
	vers uint16
	s    *suiteDesc
	key  []byte
	iv   []byte // fixed IV (AEAD) or current CBC IV (TLS 1.0 chaining)
	mac  []byte
	seq  uint64
	rng  *mrand.Rand
}

func (cs *cipherState) aad(typ byte, recVers uint16, n int) []byte {
	var b [13]byte
	binary.BigEndian.PutUint64(b[:8], cs.seq)
	b[8], b[9], b[10], b[11], b[12] = typ, byte(recVers>>8), byte(recVers), byte(n>>8), byte(n)
	return b[:]
}

// seal protects one fragment and returns the record payload (RFC 5246 6.2.3).
func (cs *cipherState) seal(typ byte, recVers uint16, pt []byte) ([]byte, error) {
	defer func() { cs.seq++ }()
	switch cs.s.Cipher {
	case "aes-gcm":
		blk, err := aes.NewCipher(cs.key)
		if err != nil {
			return nil, err
		}
		g, err := cipher.NewGCM(blk)
		if err != nil {
			return nil, err
		}
		var explicit [8]byte
		binary.BigEndian.PutUint64(explicit[:], cs.seq)
		nonce := append(append([]byte(nil), cs.iv...), explicit[:]...)
		return g.Seal(explicit[:], nonce, pt, cs.aad(typ, recVers, len(pt))), nil
	case "aes-cbc":
		hf := sha1.New
		if cs.s.Mac == "sha256" {
			hf = sha256.New
		}
		m := hmac.New(hf, cs.mac)
		m.Write(cs.aad(typ, recVers, len(pt)))
		m.Write(pt)
		data := append(append([]byte(nil), pt...), m.Sum(nil)...)
		bs := 16
		pad := bs - (len(data)+1)%bs
		if pad == bs {
			pad = 0
		}
		for i := 0; i <= pad; i++ {
			data = append(data, byte(pad))
		}
		blk, err := aes.NewCipher(cs.key)
		if err != nil {
			return nil, err
		}
		var out []byte
		iv := cs.iv
		if cs.vers >= 0x0302 {
			iv = randBytes(cs.rng, bs)
			out = append(out, iv...)
		}
		ct := make([]byte, len(data))
		cipher.NewCBCEncrypter(blk, iv).CryptBlocks(ct, data)
		if cs.vers < 0x0302 {
			cs.iv = append([]byte(nil), ct[len(ct)-bs:]...)
		}
		return append(out, ct...), nil
	}
	return nil, fmt.Errorf("scripted server cannot seal %s", cs.s.Cipher)
}

func (cs *cipherState) open(rec wireRec) ([]byte, error) {
	pt, err := openRecord12(cs.vers, cs.s, cs.key, cs.iv, cs.mac, cs.seq, rec)
	if err != nil {
		return nil, err
	}
	cs.seq++
	if cs.s.Cipher == "aes-cbc" && cs.vers < 0x0302 {
		cs.iv = append([]byte(nil), rec.Payload[len(rec.Payload)-16:]...)
	}
	return pt, nil
}

// ---- script ---------------------------------------------------------------------

type nstScript struct {
	Ticket []byte
	Hint   uint32
}

type connScript struct {
	Flow       string // full | resume | decline
	SIDMode    string // echo | fresh | empty (full handshakes; a resumption always echoes)
	TicketExt  bool   // put the session_ticket extension in the ServerHello (only if the client offered it)
	NST        *nstScript
	ALPN       bool
	Unknown    []extn
	OCSP       []byte
	SCTs       [][]byte
	RenegInfo  bool
	PointFmt   bool
	Frag       int  // max handshake bytes per record (0 = one record per message)
	Coalesce   bool // all messages of a flight in one handshake stream cut only by Frag / 16384
	SigPrefPSS bool
}

type storedSession struct {
	master []byte
	vers   uint16
	suite  uint16
}

type scriptedServer struct {
	mu      sync.Mutex
	store   map[string]*storedSession
	keylog  tlspair.SyncBuffer
	leaf    *tlspair.Leaf
	vers    uint16
	suite   *suiteDesc
	curve   uint16
	protos  []string
	rng     *mrand.Rand
	entropy io.Reader // deterministic stream for the ephemeral key and randomised signatures
	lastErr error
}

type srvConn struct {
	c          net.Conn
	recVers    uint16
	in, out    *cipherState
	hsbuf      []byte
	transcript [][]byte
}

var errCCS = errors.New("change_cipher_spec")

func (sc *srvConn) readRecord() (wireRec, error) {
	var h [5]byte
	if _, err := io.ReadFull(sc.c, h[:]); err != nil {
		return wireRec{}, err
	}
	n := int(h[3])<<8 | int(h[4])
	p := make([]byte, n)
	if _, err := io.ReadFull(sc.c, p); err != nil {
		return wireRec{}, err
	}
	return wireRec{Typ: h[0], Ver: uint16(h[1])<<8 | uint16(h[2]), Header: h[:], Payload: p}, nil
}

// readMsg returns the next handshake message, or errCCS when a ChangeCipherSpec record arrives.
func (sc *srvConn) readMsg() (hsMsg, error) {
	for {
		if len(sc.hsbuf) >= 4 {
			n := int(sc.hsbuf[1])<<16 | int(sc.hsbuf[2])<<8 | int(sc.hsbuf[3])
			if len(sc.hsbuf) >= 4+n {
				m := hsMsg{Typ: sc.hsbuf[0], Raw: append([]byte(nil), sc.hsbuf[:4+n]...)}
				m.Body = m.Raw[4:]
				sc.hsbuf = sc.hsbuf[4+n:]
				return m, nil
			}
		}
		r, err := sc.readRecord()
		if err != nil {
			return hsMsg{}, err
		}
		p := r.Payload
		if sc.in != nil {
			if p, err = sc.in.open(r); err != nil {
				return hsMsg{}, fmt.Errorf("opening client record: %v", err)
			}
		}
		switch r.Typ {
		case recHandshake:
			sc.hsbuf = append(sc.hsbuf, p...)
		case recCCS:
			if len(sc.hsbuf) != 0 {
				return hsMsg{}, errors.New("ChangeCipherSpec inside a handshake message")
			}
			return hsMsg{}, errCCS
		case recAlert:
			return hsMsg{}, fmt.Errorf("client alert %x", p)
		default:
			return hsMsg{}, fmt.Errorf("unexpected record type %d", r.Typ)
		}
	}
}

func (sc *srvConn) writeRecord(typ byte, frag []byte) error {
	p := frag
	if sc.out != nil {
		var err error
		if p, err = sc.out.seal(typ, sc.recVers, frag); err != nil {
			return err
		}
	}
	var w wr
	w.u8(int(typ))
	w.u16(int(sc.recVers))
	w.vec16(p)
	_, err := sc.c.Write(w.b)
	return err
}

// writeFlight sends handshake messages, one record per message or as a coalesced stream, cut into
// fragments of at most frag bytes (RFC 5246 6.2.1: a message may span records, records may hold several).
func (sc *srvConn) writeFlight(msgs [][]byte, frag int, coalesce bool) error {
	if frag <= 0 || frag > 16384 {
		frag = 16384
	}
	var streams [][]byte
	if coalesce {
		var all []byte
		for _, m := range msgs {
			all = append(all, m...)
		}
		streams = [][]byte{all}
	} else {
		streams = msgs
	}
	for _, s := range streams {
		for len(s) > 0 {
			n := len(s)
			if n > frag {
				n = frag
			}
			if err := sc.writeRecord(recHandshake, s[:n]); err != nil {
				return err
			}
			s = s[n:]
		}
	}
	for _, m := range msgs {
		sc.transcript = append(sc.transcript, m)
	}
	return nil
}

func hsWrap(typ int, body []byte) []byte {
	var m wr
	m.u8(typ)
	m.u24(len(body))
	m.raw(body)
	return m.b
}

func (s *scriptedServer) fail(err error) error {
	s.mu.Lock()
	s.lastErr = err
	s.mu.Unlock()
	return err
}

// serve runs one connection according to the script.
func (s *scriptedServer) serve(conn net.Conn, sp connScript) (err error) {
	sc := &srvConn{c: conn, recVers: s.vers}
	m, err := sc.readMsg()
	if err != nil {
		return err
	}
	if m.Typ != hsClientHello {
		return fmt.Errorf("expected ClientHello, got %d", m.Typ)
	}
	sc.transcript = append(sc.transcript, m.Raw)
	ch, err := parseClientHello(m.Body)
	if err != nil {
		return err
	}
	offered := false
	for _, x := range ch.Suites {
		offered = offered || x == s.suite.ID
	}
	if !offered || ch.Vers < s.vers {
		return fmt.Errorf("client does not offer suite %04x / version %04x", s.suite.ID, s.vers)
	}
	sr := randBytes(s.rng, 32)
	var sess *storedSession
	if sp.Flow == "resume" && len(ch.Ticket) > 0 {
		s.mu.Lock()
		sess = s.store[string(ch.Ticket)]
		s.mu.Unlock()
		if sess != nil && (sess.vers != s.vers || sess.suite != s.suite.ID) {
			sess = nil
		}
	}
	// --- ServerHello
	var sid []byte
	switch {
	case sess != nil:
		sid = ch.SessionID
	case sp.SIDMode == "echo" && len(ch.Ticket) == 0:
		sid = ch.SessionID // legal but unusual: echoing the id of a client that holds no session
	case sp.SIDMode == "fresh":
		sid = randBytes(s.rng, 32)
	}
	ticketExt := sp.TicketExt && ch.HasTicket
	var exts wr
	if ch.HasReneg && sp.RenegInfo {
		exts.ext(extRenegotiationInfo, []byte{0})
	}
	alpn := ""
	if sp.ALPN && len(ch.ALPN) > 0 {
		alpn = ch.ALPN[s.rng.IntN(len(ch.ALPN))]
		var l, v wr
		l.vec8([]byte(alpn))
		v.vec16(l.b)
		exts.ext(extALPN, v.b)
	}
	if ticketExt {
		exts.ext(extSessionTicket, nil)
	}
	sendOCSP := len(sp.OCSP) > 0 && ch.StatusRequest && sess == nil
	if sendOCSP {
		exts.ext(extStatusRequest, nil)
	}
	if len(sp.SCTs) > 0 && ch.SCT {
		var l, v wr
		for _, t := range sp.SCTs {
			l.vec16(t)
		}
		v.vec16(l.b)
		exts.ext(extSCT, v.b)
	}
	if sp.PointFmt && s.suite.Kx == "ecdhe" {
		exts.ext(extECPointFormats, []byte{1, 0})
	}
	for _, u := range sp.Unknown {
		exts.ext(int(u.Typ), u.Data)
	}
	var sh wr
	sh.u16(int(s.vers))
	sh.raw(sr)
	sh.vec8(sid)
	sh.u16(int(s.suite.ID))
	sh.u8(0)
	if len(exts.b) > 0 {
		sh.vec16(exts.b)
	}
	flight := [][]byte{hsWrap(hsServerHello, sh.b)}

	nstMsg := func() []byte {
		var b wr
		b.raw([]byte{byte(sp.NST.Hint >> 24), byte(sp.NST.Hint >> 16), byte(sp.NST.Hint >> 8), byte(sp.NST.Hint)})
		b.vec16(sp.NST.Ticket)
		return hsWrap(hsNewSessionTicket, b.b)
	}
	sendNST := ticketExt && sp.NST != nil
	if ticketExt && sp.NST == nil {
		return errors.New("script error: session_ticket extension without a NewSessionTicket")
	}
	remember := func(master []byte) {
		if sendNST && len(sp.NST.Ticket) > 0 {
			s.mu.Lock()
			s.store[string(sp.NST.Ticket)] = &storedSession{master: master, vers: s.vers, suite: s.suite.ID}
			s.mu.Unlock()
		}
	}
	install := func(master []byte) (cIn, sOut *cipherState) {
		kb := refKeyBlock(s.vers, s.suite, master, ch.Random, sr)
		cIn = &cipherState{vers: s.vers, s: s.suite, key: kb.cKey, iv: kb.cIV, mac: kb.cMac, rng: s.rng}
		sOut = &cipherState{vers: s.vers, s: s.suite, key: kb.sKey, iv: kb.sIV, mac: kb.sMac, rng: s.rng}
		return
	}
	readClientFinished := func(master []byte, cIn *cipherState) error {
		if _, err := sc.readMsg(); err != errCCS {
			return fmt.Errorf("expected ChangeCipherSpec, got %v", err)
		}
		sc.in = cIn
		fm, err := sc.readMsg()
		if err != nil {
			return err
		}
		want := refFinished(s.vers, s.suite.SHA384, master, true, sc.transcript)
		if fm.Typ != hsFinished || !hmac.Equal(fm.Body, want) {
			sc.writeRecord(recAlert, []byte{2, 51})
			return fmt.Errorf("client Finished %x, expected %x", fm.Body, want)
		}
		sc.transcript = append(sc.transcript, fm.Raw)
		return nil
	}
	sendServerFinished := func(master []byte, sOut *cipherState) error {
		if err := sc.writeRecord(recCCS, []byte{1}); err != nil {
			return err
		}
		sc.out = sOut
		fin := hsWrap(hsFinished, refFinished(s.vers, s.suite.SHA384, master, false, sc.transcript))
		return sc.writeFlight([][]byte{fin}, 0, false)
	}
	logKey := func(master []byte) {
		fmt.Fprintf(&s.keylog, "CLIENT_RANDOM %x %x\n", ch.Random, master)
	}

	// --- abbreviated handshake (RFC 5077 3.1 figure 2)
	if sess != nil {
		if sendNST {
			flight = append(flight, nstMsg())
		}
		if err := sc.writeFlight(flight, sp.Frag, sp.Coalesce); err != nil {
			return err
		}
		logKey(sess.master)
		cIn, sOut := install(sess.master)
		if err := sendServerFinished(sess.master, sOut); err != nil {
			return err
		}
		if err := readClientFinished(sess.master, cIn); err != nil {
			return err
		}
		remember(sess.master)
		return nil
	}

	// --- full handshake
	var cl wr
	var certs wr
	for _, der := range s.leaf.Chain {
		certs.u24(len(der))
		certs.raw(der)
	}
	cl.u24(len(certs.b))
	cl.raw(certs.b)
	flight = append(flight, hsWrap(hsCertificate, cl.b))
	if sendOCSP {
		var st wr
		st.u8(1)
		st.u24(len(sp.OCSP))
		st.raw(sp.OCSP)
		flight = append(flight, hsWrap(hsCertificateStatus, st.b))
	}
	var eph *ecdh.PrivateKey
	if s.suite.Kx == "ecdhe" {
		cv := ecdhCurve(s.curve)
		if cv == nil {
			return fmt.Errorf("curve %d not supported by the scripted server", s.curve)
		}
		if eph, err = cv.GenerateKey(s.entropy); err != nil {
			return err
		}
		var p wr
		p.u8(3)
		p.u16(int(s.curve))
		p.vec8(eph.PublicKey().Bytes())
		signed := append(append(append([]byte(nil), ch.Random...), sr...), p.b...)
		var alg []byte
		var digest []byte
		var opts crypto.SignerOpts
		_, isRSA := s.leaf.Key.(*rsa.PrivateKey)
		if s.vers >= 0x0303 {
			var cands []uint16
			if isRSA {
				cands = []uint16{0x0401, 0x0501, 0x0601, 0x0201}
				if sp.SigPrefPSS {
					cands = []uint16{0x0804, 0x0805, 0x0806, 0x0401}
				}
			} else {
				cands = []uint16{0x0403, 0x0503, 0x0603, 0x0203}
			}
			var pickd uint16
			var usable []uint16
			for _, c := range cands {
				for _, o := range ch.SigAlgs {
					if o == c {
						usable = append(usable, c)
					}
				}
			}
			if len(usable) == 0 {
				return errors.New("no common signature algorithm")
			}
			pickd = usable[s.rng.IntN(len(usable))]
			alg = []byte{byte(pickd >> 8), byte(pickd)}
			var h crypto.Hash
			switch pickd {
			case 0x0401, 0x0403, 0x0804:
				h = crypto.SHA256
			case 0x0501, 0x0503, 0x0805:
				h = crypto.SHA384
			case 0x0601, 0x0603, 0x0806:
				h = crypto.SHA512
			default:
				h = crypto.SHA1
			}
			x := h.New()
			x.Write(signed)
			digest, opts = x.Sum(nil), h
			if pickd>>8 == 8 {
				opts = &rsa.PSSOptions{SaltLength: rsa.PSSSaltLengthEqualsHash, Hash: h}
			}
		} else if isRSA {
			m5, s1 := crypto.MD5.New(), crypto.SHA1.New()
			m5.Write(signed)
			s1.Write(signed)
			digest, opts = s1.Sum(m5.Sum(nil)), crypto.MD5SHA1
		} else {
			s1 := crypto.SHA1.New()
			s1.Write(signed)
			digest, opts = s1.Sum(nil), crypto.SHA1
		}
		sig, err := s.leaf.Key.Sign(s.entropy, digest, opts)
		if err != nil {
			return err
		}
		p.raw(alg)
		p.vec16(sig)
		flight = append(flight, hsWrap(hsServerKeyExchange, p.b))
	}
	flight = append(flight, hsWrap(hsServerHelloDone, nil))
	if err := sc.writeFlight(flight, sp.Frag, sp.Coalesce); err != nil {
		return err
	}
	ckx, err := sc.readMsg()
	if err != nil {
		return err
	}
	if ckx.Typ != hsClientKeyExchange {
		return fmt.Errorf("expected ClientKeyExchange, got %d", ckx.Typ)
	}
	sc.transcript = append(sc.transcript, ckx.Raw)
	var pms []byte
	r := &rd{b: ckx.Body}
	if s.suite.Kx == "rsa" {
		enc := r.vec16()
		rk, ok := s.leaf.Key.(*rsa.PrivateKey)
		if r.bad || !ok {
			return errors.New("bad RSA ClientKeyExchange")
		}
		if pms, err = rsa.DecryptPKCS1v15(nil, rk, enc); err != nil || len(pms) != 48 {
			return fmt.Errorf("pre-master decryption: %v", err)
		}
	} else {
		pt := r.vec8()
		pub, err := eph.Curve().NewPublicKey(pt)
		if r.bad || err != nil {
			return fmt.Errorf("bad ECDHE ClientKeyExchange: %v", err)
		}
		if pms, err = eph.ECDH(pub); err != nil {
			return err
		}
	}
	master := refMaster(s.vers, s.suite.SHA384, pms, ch.Random, sr)
	logKey(master)
	cIn, sOut := install(master)
	if err := readClientFinished(master, cIn); err != nil {
		return err
	}
	if sendNST {
		if err := sc.writeFlight([][]byte{nstMsg()}, sp.Frag, false); err != nil {
			return err
		}
	}
	if err := sendServerFinished(master, sOut); err != nil {
		return err
	}
	remember(master)
	return nil
}

// ---- scripted cases ---------------------------------------------------------------

type scriptedCase struct {
	Spec  spec
	Conns []connScript
	Vers  uint16
	Suite uint16
	Kind  string
	Curve uint16
	Desc  string
}

var (
	scriptTicketLens = []int{0, 1, 16, 200, 65530, 65535} // 65530 is the largest NewSessionTicket zcrypto (like Go) reads: handshake bodies are capped at 65536 bytes
	scriptHints      = []uint32{0, 300, 1<<32 - 1}
	scriptFlows      = []string{"single", "refresh", "decline", "resume-no-refresh", "no-ticket"}
)

type scriptSuite struct {
	id   uint16
	kind string
	min  uint16
}

var scriptSuites = []scriptSuite{
	{0x002f, tlspair.RSA2048, 0x0301}, {0x003c, tlspair.RSA2048, 0x0303}, {0x009c, tlspair.RSA2048, 0x0303},
	{0xc013, tlspair.RSA2048, 0x0301}, {0xc027, tlspair.RSA2048, 0x0303}, {0xc02f, tlspair.RSA2048, 0x0303},
	{0xc009, tlspair.P256, 0x0301}, {0xc02b, tlspair.P256, 0x0303}, {0xc02b, tlspair.P384, 0x0303}, {0xc023, tlspair.P521, 0x0303},
}

// NumScriptCombos is the size of the enumerated (ticket length x hint x flow) grid.
var numScriptCombos = len(scriptTicketLens) * len(scriptHints) * len(scriptFlows)

func makeScriptedCase(idx int, r *mrand.Rand) scriptedCase {
	combo := idx % numScriptCombos
	tl := scriptTicketLens[combo%len(scriptTicketLens)]
	hint := scriptHints[(combo/len(scriptTicketLens))%len(scriptHints)]
	flow := scriptFlows[combo/(len(scriptTicketLens)*len(scriptHints))]
	ss := scriptSuites[r.IntN(len(scriptSuites))]
	vers := []uint16{0x0301, 0x0302, 0x0303}[r.IntN(3)]
	if vers < ss.min {
		vers = ss.min
	}
	sc := scriptedCase{Vers: vers, Suite: ss.id, Kind: ss.kind, Curve: pick(r, allCurves)}
	p := func(pct int) bool { return r.IntN(100) < pct }
	opts := func(cs *connScript) {
		cs.SIDMode = pick(r, []string{"echo", "fresh", "fresh", "empty"})
		cs.ALPN = p(40)
		cs.RenegInfo = p(60)
		cs.PointFmt = p(50)
		cs.SigPrefPSS = p(40)
		if p(30) {
			cs.OCSP = randBytes(r, 10+r.IntN(300))
		}
		if p(45) {
			cs.SCTs = makeSCTList(r, 1+r.IntN(5))
		}
		if p(35) {
			cs.Unknown = append(cs.Unknown, extn{Typ: uint16(pick(r, []int{0x5501, 0x0a0a, 65000, 0})), Data: nil})
			if cs.Unknown[0].Typ != 0 {
				cs.Unknown[0].Data = randBytes(r, r.IntN(20))
			}
		}
		switch r.IntN(5) {
		case 0:
			cs.Frag = 1 + r.IntN(64)
		case 1:
			cs.Frag = 200 + r.IntN(2000)
		}
		cs.Coalesce = p(35)
	}
	final := &nstScript{Ticket: randBytes(r, tl), Hint: hint}
	first := func() connScript {
		c := connScript{Flow: "full", TicketExt: true, NST: &nstScript{Ticket: randBytes(r, pick(r, []int{1, 16, 48, 200, 3000})), Hint: pick(r, scriptHints)}}
		opts(&c)
		return c
	}
	switch flow {
	case "single":
		c := connScript{Flow: "full", TicketExt: true, NST: final}
		opts(&c)
		sc.Conns = []connScript{c}
	case "refresh":
		c2 := connScript{Flow: "resume", TicketExt: true, NST: final}
		opts(&c2)
		sc.Conns = []connScript{first(), c2}
	case "decline":
		c2 := connScript{Flow: "decline", TicketExt: true, NST: final}
		opts(&c2)
		sc.Conns = []connScript{first(), c2}
	case "resume-no-refresh":
		c2 := connScript{Flow: "resume"}
		opts(&c2)
		c3 := connScript{Flow: pick(r, []string{"resume", "decline"}), TicketExt: true, NST: final}
		opts(&c3)
		sc.Conns = []connScript{first(), c2, c3}
	case "no-ticket":
		c := connScript{Flow: "full"}
		opts(&c)
		c2 := connScript{Flow: "full", TicketExt: true, NST: final}
		opts(&c2)
		sc.Conns = []connScript{c, c2}
	}
	sc.Desc = fmt.Sprintf("scripted flow=%s ticket=%d hint=%d", flow, tl, hint)
	sc.Spec = spec{Cell: cell{Peer: "S", Vers: vers, Kind: ss.kind, Suite: ss.id, Curve: sc.Curve}, Index: idx, Mode: "default",
		ClientMax: vers, LeafSet: "Server", Seed: r.Uint64() | 1}
	if suiteByID(ss.id).Kx != "ecdhe" {
		sc.Spec.Cell.Curve = 0
	}
	return sc
}

func (c connScript) String() string {
	nst := "none"
	if c.NST != nil {
		nst = fmt.Sprintf("%d/%d", len(c.NST.Ticket), c.NST.Hint)
	}
	return fmt.Sprintf("%s sid=%s tktext=%v nst=%s alpn=%v unk=%d ocsp=%d scts=%d reneg=%v frag=%d coalesce=%v pss=%v",
		c.Flow, c.SIDMode, c.TicketExt, nst, c.ALPN, len(c.Unknown), len(c.OCSP), len(c.SCTs), c.RenegInfo, c.Frag, c.Coalesce, c.SigPrefPSS)
}

// runScripted drives the zcrypto client through the connections of one scripted case.
func runScripted(sc scriptedCase) []*hsObs {
	r := mrand.New(mrand.NewPCG(sc.Spec.Seed, 0x5C))
	pki := tlspair.Get()
	srv := &scriptedServer{store: map[string]*storedSession{}, leaf: pki.Server[sc.Kind], vers: sc.Vers, suite: suiteByID(sc.Suite),
		curve: sc.Curve, rng: r, entropy: tlspair.NewDetRand(sc.Spec.Seed ^ 0x5c5c)}
	cache := ztls.NewLRUClientSessionCache(4)
	clientKL := &tlspair.SyncBuffer{}
	var out []*hsObs
	for i, cs := range sc.Conns {
		cc := tlspair.BaseClient(sc.Spec.Seed + uint64(i)*31)
		cc.MinVersion, cc.MaxVersion = ztls.VersionTLS10, sc.Vers
		cc.CipherSuites = []uint16{sc.Suite}
		cc.CurvePreferences = []ztls.CurveID{ztls.CurveID(sc.Curve)}
		cc.NextProtos = []string{"h2", "verif/1"}
		cc.ClientSessionCache = cache
		cc.KeyLogWriter = clientKL
		a, b, tap := netx.Pipe(netx.Options{}, netx.Options{})
		cz := ztls.Client(a, cc)
		o := &hsObs{Label: fmt.Sprintf("hs%d/%s", i, cs.Flow)}
		var wg sync.WaitGroup
		wg.Add(2)
		go func() {
			defer wg.Done()
			o.CErr = cz.Handshake()
			if o.CErr != nil {
				a.Close()
			}
		}()
		go func() {
			defer wg.Done()
			if pi := recoverTo(func() { o.SErr = srv.serve(b, cs) }); pi != nil {
				o.SErr = pi
			}
			if o.SErr != nil {
				b.Close()
			}
		}()
		done := make(chan struct{})
		go func() { wg.Wait(); close(done) }()
		select {
		case <-done:
		case <-time.After(30 * time.Second):
			o.TimedOut = true
			a.Close()
			b.Close()
			<-done
		}
		o.Log = cz.GetHandshakeLog()
		if o.CErr == nil {
			st := cz.ConnectionState()
			o.Vers, o.DidResume = st.Version, st.DidResume
		}
		a.Close()
		b.Close()
		o.Tap = tap.Records()
		o.ClientKL, o.ServerKL = clientKL.String(), srv.keylog.String()
		out = append(out, o)
	}
	return out
}

func recoverTo(f func()) (err error) {
	defer func() {
		if r := recover(); r != nil {
			err = fmt.Errorf("scripted server panic: %v", r)
		}
	}()
	f()
	return nil
}
