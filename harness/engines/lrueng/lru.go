// Package lrueng monitors C35: the LRU client session cache behaves as a bounded LRU map.
//
// Sequential leg: every operation history up to a bounded length over a small
// key set, capacities 1..4, plus random longer histories; each Get inside the
// history is an observation compared with a reference LRU as it happens, and a
// final Get sweep compares the remaining content.
// Concurrent leg (race binary): short concurrent histories recorded at the call
// boundary, checked for linearizability against the same model with porcupine.
package lrueng

import (
	"fmt"
	"math/rand/v2"
	"strings"
	"sync"
	"sync/atomic"
	"time"

	"github.com/anishathalye/porcupine"
	"github.com/zmap/zcrypto/tls"

	"verifharness/internal/core"
)

func init() {
	core.RegisterMeta("C35", core.Meta{
		Rule: "histories over keys {a,b,c[,d]} and operations Get / Put(v1) / Put(v2) / Put(nil) on tls.NewLRUClientSessionCache(cap), cap 1..4 (+64 and the <1 default in random histories); " +
			"every history up to the tier's length bound is enumerated (distinct by construction), longer ones are random; non-trivial = history contains at least one Get " +
			"observation after a Put (enumerated histories are all counted, they are distinct by construction; random ones by hash of the op string); " +
			"race leg: concurrent histories at the call boundary checked with porcupine against the same sequential model",
		MinNontrivial: 100000,
		Shards:        16,
		RaceShards:    4,
		RacePkgs:      []string{"zcrypto/tls"},
		Assumptions: []string{
			"reference LRU written from the property statement and the NewLRUClientSessionCache / Put doc comments",
			"session values are compared by pointer identity",
			"porcupine v1.3.0 is trusted as the linearizability checker; a checker timeout is inconclusive for that history",
		},
	}, Run)
}

// ---- reference model --------------------------------------------------------

type refLRU struct {
	cap  int
	keys []string // most recent first
	vals map[string]int
}

func newRef(capacity int) *refLRU {
	if capacity < 1 {
		capacity = 64
	}
	return &refLRU{cap: capacity, vals: map[string]int{}}
}

func (r *refLRU) touch(k string) {
	for i, x := range r.keys {
		if x == k {
			copy(r.keys[1:i+1], r.keys[:i])
			r.keys[0] = k
			return
		}
	}
}

func (r *refLRU) remove(k string) {
	for i, x := range r.keys {
		if x == k {
			r.keys = append(r.keys[:i], r.keys[i+1:]...)
			break
		}
	}
	delete(r.vals, k)
}

func (r *refLRU) Put(k string, v int) {
	_, present := r.vals[k]
	if v == 0 { // nil session: remove, otherwise no effect
		if present {
			r.remove(k)
		}
		return
	}
	if present {
		r.vals[k] = v
		r.touch(k)
		return
	}
	if len(r.keys) >= r.cap {
		last := r.keys[len(r.keys)-1]
		r.remove(last)
	}
	r.keys = append([]string{k}, r.keys...)
	r.vals[k] = v
}

func (r *refLRU) Get(k string) (int, bool) {
	v, ok := r.vals[k]
	if ok {
		r.touch(k)
	}
	return v, ok
}

// ---- sequential leg ---------------------------------------------------------

type op struct {
	key int // index into keys
	v   int // -1 = Get, 0 = Put nil, n>0 = Put value n
}

var keyNames = []string{"a", "b", "c", "d", "e", "f", "g", "h"}

func (o op) String() string {
	if o.v < 0 {
		return "G" + keyNames[o.key]
	}
	return fmt.Sprintf("P%s%d", keyNames[o.key], o.v)
}

func histString(capacity int, h []op) string {
	var sb strings.Builder
	fmt.Fprintf(&sb, "cap=%d:", capacity)
	for _, o := range h {
		sb.WriteByte(' ')
		sb.WriteString(o.String())
	}
	return sb.String()
}

// runHistory executes h on a fresh cache and the model; it returns a divergence description or "".
func runHistory(capacity int, nkeys int, h []op, vals []*tls.ClientSessionState) (key, detail string) {
	cache := tls.NewLRUClientSessionCache(capacity)
	ref := newRef(capacity)
	idOf := func(p *tls.ClientSessionState) int {
		if p == nil {
			return 0
		}
		for i, v := range vals {
			if v == p {
				return i
			}
		}
		return -99
	}
	check := func(step int, k string) (string, string) {
		gv, gok := cache.Get(k)
		ev, eok := ref.Get(k)
		if gok != eok || idOf(gv) != ev {
			exp, got := "absent", "absent"
			if eok {
				exp = "present"
			}
			if gok {
				got = "present"
				if gv == nil {
					got = "present-nil"
				} else if eok && idOf(gv) != ev {
					got = "present-wrong-value"
				}
			}
			return "lru-get:expected=" + exp + ",got=" + got,
				fmt.Sprintf("step %d Get(%s): cache=(%d,%v) reference=(%d,%v)", step, k, idOf(gv), gok, ev, eok)
		}
		return "", ""
	}
	for i, o := range h {
		k := keyNames[o.key]
		if o.v < 0 {
			if key, d := check(i, k); key != "" {
				return key, d
			}
		} else {
			cache.Put(k, vals[o.v])
			ref.Put(k, o.v)
		}
	}
	// final sweep in fixed order; the model performs the same sweep
	for ki := 0; ki < nkeys; ki++ {
		if key, d := check(len(h)+ki, keyNames[ki]); key != "" {
			return key, "final sweep: " + d
		}
	}
	return "", ""
}

func Run(c *core.Ctx) {
	if c.Leg == "race" {
		runConcurrent(c)
		return
	}
	vals := []*tls.ClientSessionState{nil, {}, {}, {}}
	// force distinct pointers (zero-size structs could share an address)
	if vals[1] == vals[2] {
		c.Violation("harness:session-values-not-distinct", "", "", nil)
		return
	}
	report := func(capacity int, h []op, key, detail string) {
		hs := histString(capacity, h)
		c.Violation(key, detail+"\nhistory: "+hs, hs, map[string]any{"cap": capacity, "history": hs})
	}
	maxLen := c.Pick(5, 7)
	for capacity := 1; capacity <= 4; capacity++ {
		nkeys := 3
		if capacity == 4 {
			nkeys = 4
		}
		L := maxLen
		if capacity == 4 && c.Thorough() {
			L = 6
		}
		alpha := make([]op, 0, nkeys*4)
		for k := 0; k < nkeys; k++ {
			alpha = append(alpha, op{k, -1}, op{k, 0}, op{k, 1}, op{k, 2})
		}
		A := len(alpha)
		for l := 1; l <= L; l++ {
			total := int64(1)
			for i := 0; i < l; i++ {
				total *= int64(A)
			}
			h := make([]op, l)
			var mine int64
			for idx := int64(c.Shard); idx < total; idx += int64(c.NShards) {
				x := idx
				for i := 0; i < l; i++ {
					h[i] = alpha[x%int64(A)]
					x /= int64(A)
				}
				mine++
				if key, d := runHistory(capacity, nkeys, h, vals); key != "" {
					report(capacity, h, key, d)
				}
				if idx == int64(c.Shard) && l == 4 && c.WantSample() {
					c.Sample(histString(capacity, h))
				}
			}
			c.Eval(int(mine))
			c.NontrivialEnumerated(mine)
			c.Exhaustive(fmt.Sprintf("cap=%d,keys=%d,len=%d", capacity, nkeys, l), mine)
			c.Count("enumerated_histories", int(mine))
		}
	}
	// random longer histories, larger capacities and the capacity<1 default
	n := c.PerShard(c.Pick(200000, 5000000))
	rng := c.Rng
	caps := []int{1, 2, 3, 4, 4, 5, 8, 64, 0, -3}
	for i := 0; i < n; i++ {
		capacity := caps[rng.IntN(len(caps))]
		nkeys := 3 + rng.IntN(3)
		if capacity == 64 || capacity < 1 {
			nkeys = 8
		}
		l := 6 + rng.IntN(c.Pick(35, 195))
		if capacity == 64 || capacity < 1 {
			// need > 64 distinct keys to observe eviction: extend key names virtually by cycling values
			l = 100 + rng.IntN(100)
		}
		h := make([]op, l)
		for j := range h {
			k := rng.IntN(nkeys)
			switch r := rng.IntN(10); {
			case r < 4:
				h[j] = op{k, -1}
			case r < 5:
				h[j] = op{k, 0}
			default:
				h[j] = op{k, 1 + rng.IntN(3)}
			}
		}
		c.Eval(1)
		if key, d := runHistory(capacity, nkeys, h, vals); key != "" {
			report(capacity, h, key, d)
		}
		c.Nontrivial(histString(capacity, h))
		c.Count("random_histories", 1)
	}
	// capacity-64 eviction needs many keys: dedicated histories with generated key names
	for i := 0; i < c.PerShard(c.Pick(200, 5000)); i++ {
		capacity := []int{64, 0, -1}[rng.IntN(3)]
		if key, d, hs := runManyKeys(rng, capacity, vals); key != "" {
			c.Violation(key, d+"\nhistory: "+hs, hs, map[string]any{"cap": capacity, "history": hs})
		}
		c.Eval(1)
		c.Count("default_capacity_histories", 1)
	}
}

func runManyKeys(rng *rand.Rand, capacity int, vals []*tls.ClientSessionState) (string, string, string) {
	cache := tls.NewLRUClientSessionCache(capacity)
	ref := newRef(capacity)
	var sb strings.Builder
	fmt.Fprintf(&sb, "cap=%d:", capacity)
	nk := 60 + rng.IntN(20)
	for step := 0; step < 400; step++ {
		k := fmt.Sprintf("k%d", rng.IntN(nk))
		if rng.IntN(3) == 0 {
			fmt.Fprintf(&sb, " G%s", k)
			gv, gok := cache.Get(k)
			ev, eok := ref.Get(k)
			gid := 0
			for i, v := range vals {
				if v == gv && v != nil {
					gid = i
				}
			}
			if gok != eok || gid != ev {
				return "lru-get:many-keys-divergence", fmt.Sprintf("step %d Get(%s): cache=(%d,%v) reference=(%d,%v)", step, k, gid, gok, ev, eok), sb.String()
			}
		} else {
			v := rng.IntN(4)
			fmt.Fprintf(&sb, " P%s%d", k, v)
			cache.Put(k, vals[v])
			ref.Put(k, v)
		}
	}
	return "", "", ""
}

// ---- concurrent leg ---------------------------------------------------------

type lin struct {
	Key string
	Put bool
	Val int // put value id (0 = nil)
}
type linOut struct {
	Val int
	Ok  bool
}

func lruModel(capacity int) porcupine.Model {
	type st = string // "k=v,k=v" most recent first
	return porcupine.Model{
		Init: func() any { return "" },
		Step: func(state, input, output any) (bool, any) {
			r := decode(state.(string), capacity)
			in := input.(lin)
			if in.Put {
				r.Put(in.Key, in.Val)
				return true, encode(r)
			}
			v, ok := r.Get(in.Key)
			out := output.(linOut)
			return out.Ok == ok && out.Val == v, encode(r)
		},
		DescribeOperation: func(input, output any) string {
			in := input.(lin)
			if in.Put {
				return fmt.Sprintf("Put(%s,%d)", in.Key, in.Val)
			}
			o := output.(linOut)
			return fmt.Sprintf("Get(%s)->(%d,%v)", in.Key, o.Val, o.Ok)
		},
	}
}

func encode(r *refLRU) string {
	var sb strings.Builder
	for _, k := range r.keys {
		fmt.Fprintf(&sb, "%s=%d,", k, r.vals[k])
	}
	return sb.String()
}

func decode(s string, capacity int) *refLRU {
	r := newRef(capacity)
	for _, kv := range strings.Split(s, ",") {
		if kv == "" {
			continue
		}
		var k string
		var v int
		i := strings.IndexByte(kv, '=')
		k = kv[:i]
		fmt.Sscanf(kv[i+1:], "%d", &v)
		r.keys = append(r.keys, k)
		r.vals[k] = v
	}
	return r
}

func runConcurrent(c *core.Ctx) {
	nhist := c.PerShard(c.Pick(400, 20000))
	rng := c.Rng
	var clock int64
	overlapShapes := map[string]bool{}
	for hi := 0; hi < nhist; hi++ {
		capacity := 1 + rng.IntN(3)
		ng := 2 + rng.IntN(5)
		perG := 4 + rng.IntN(6)
		cache := tls.NewLRUClientSessionCache(capacity)
		// unique non-nil values: value id = 1 + goroutine*100 + i
		vals := map[int]*tls.ClientSessionState{}
		byPtr := map[*tls.ClientSessionState]int{}
		plans := make([][]lin, ng)
		for g := 0; g < ng; g++ {
			for i := 0; i < perG; i++ {
				k := keyNames[rng.IntN(3)]
				switch r := rng.IntN(10); {
				case r < 5:
					plans[g] = append(plans[g], lin{Key: k})
				case r < 6:
					plans[g] = append(plans[g], lin{Key: k, Put: true, Val: 0})
				default:
					id := 1 + g*100 + i
					p := &tls.ClientSessionState{}
					vals[id] = p
					byPtr[p] = id
					plans[g] = append(plans[g], lin{Key: k, Put: true, Val: id})
				}
			}
		}
		opsPer := make([][]porcupine.Operation, ng)
		var wg sync.WaitGroup
		startGate := make(chan struct{})
		for g := 0; g < ng; g++ {
			wg.Add(1)
			yield := rng.IntN(3)
			go func(g int) {
				defer wg.Done()
				<-startGate
				for _, in := range plans[g] {
					if yield == 1 {
						time.Sleep(time.Microsecond)
					}
					call := atomic.AddInt64(&clock, 1)
					var out linOut
					if in.Put {
						cache.Put(in.Key, vals[in.Val])
					} else {
						v, ok := cache.Get(in.Key)
						out = linOut{Val: byPtr[v], Ok: ok}
						if ok && v == nil {
							out.Val = -1 // present with nil state: never a legal observation
						}
					}
					ret := atomic.AddInt64(&clock, 1)
					opsPer[g] = append(opsPer[g], porcupine.Operation{ClientId: g, Input: in, Call: call, Output: out, Return: ret})
				}
			}(g)
		}
		close(startGate)
		wg.Wait()
		var ops []porcupine.Operation
		overlaps := 0
		for _, o := range opsPer {
			ops = append(ops, o...)
		}
		for i := range ops {
			for j := range ops {
				if i < j && ops[i].Call < ops[j].Return && ops[j].Call < ops[i].Return {
					overlaps++
				}
			}
		}
		res := porcupine.CheckOperationsTimeout(lruModel(capacity), ops, 20*time.Second)
		c.Eval(1)
		c.Count("concurrent_histories", 1)
		c.Count("concurrent_ops", len(ops))
		c.Count("overlapping_op_pairs", overlaps)
		var sb strings.Builder
		for _, o := range ops {
			fmt.Fprintf(&sb, "%d:%d-%d;", o.ClientId, o.Call, o.Return)
		}
		if overlaps > 0 {
			// distinct interleaving shape = relative order of call/return stamps
			c.Nontrivial("conc", shape(ops))
			overlapShapes[shape(ops)] = true
		}
		switch res {
		case porcupine.Illegal:
			desc := describe(capacity, ops)
			c.Violation("lru-not-linearizable", desc, fmt.Sprintf("conc-%d", hi), map[string]any{"cap": capacity, "ops": desc})
		case porcupine.Unknown:
			c.Count("checker_timeouts_inconclusive", 1)
		default:
			c.Count("linearizable", 1)
			if c.WantSample() {
				c.Sample(describe(capacity, ops))
			}
		}
	}
	c.Count("distinct_interleaving_shapes", len(overlapShapes))
}

func shape(ops []porcupine.Operation) string {
	type ev struct {
		t    int64
		g    int
		call bool
	}
	var evs []ev
	for _, o := range ops {
		evs = append(evs, ev{o.Call, o.ClientId, true}, ev{o.Return, o.ClientId, false})
	}
	// sort by time
	for i := 1; i < len(evs); i++ {
		for j := i; j > 0 && evs[j].t < evs[j-1].t; j-- {
			evs[j], evs[j-1] = evs[j-1], evs[j]
		}
	}
	var sb strings.Builder
	for _, e := range evs {
		if e.call {
			fmt.Fprintf(&sb, "c%d", e.g)
		} else {
			fmt.Fprintf(&sb, "r%d", e.g)
		}
	}
	return sb.String()
}

func describe(capacity int, ops []porcupine.Operation) string {
	var sb strings.Builder
	fmt.Fprintf(&sb, "cap=%d ", capacity)
	for _, o := range ops {
		in := o.Input.(lin)
		out := o.Output.(linOut)
		if in.Put {
			fmt.Fprintf(&sb, "[g%d %d-%d Put(%s,%d)] ", o.ClientId, o.Call, o.Return, in.Key, in.Val)
		} else {
			fmt.Fprintf(&sb, "[g%d %d-%d Get(%s)=(%d,%v)] ", o.ClientId, o.Call, o.Return, in.Key, out.Val, out.Ok)
		}
	}
	return sb.String()
}
