package revoceng

import (
	"encoding/base64"
	"crypto"
	"fmt"
	"math/big"
	"testing"
	"time"

	zx509 "github.com/zmap/zcrypto/x509"
	"github.com/zmap/zcrypto/x509/pkix"
	zocsp "github.com/zmap/zcrypto/x509/revocation/ocsp"
	"github.com/zmap/zcrypto/x509/revocation/mozilla"
	xocsp "golang.org/x/crypto/ocsp"
	"math/rand/v2"
)

func TestProbe(t *testing.T) {
	r := rand.New(rand.NewPCG(1, 2))
	k := ecKeys("P256")[0]
	n := randomDN(r, "probe-root")
	ca := &party{label: "root", name: n, ec: k}
	ca.der = buildCert(certSpec{serial: big.NewInt(1), issuer: n.der, subject: n.der, spki: spkiOf(&k.PublicKey), ca: true}, k)
	if err := ca.finish(); err != nil {
		t.Fatal(err)
	}
	fmt.Println("root ok; std nil?", ca.std == nil, ca.z.Subject.String(), "|", ca.std.Subject.String())
	for _, s := range []*big.Int{big.NewInt(0), big.NewInt(-5), new(big.Int).Lsh(big.NewInt(1), 159), new(big.Int).Lsh(big.NewInt(1), 170)} {
		ln := randomDN(r, "leaf")
		der := buildCert(certSpec{serial: s, issuer: n.der, subject: ln.der, spki: spkiOf(&k.PublicKey)}, k)
		zc, err := zx509.ParseCertificate(der)
		fmt.Println("serial", s, "zerr", err)
		if err == nil {
			fmt.Println("  parsed serial", zc.SerialNumber)
		}
	}
	// OCSP
	tm := time.Date(2024, 3, 4, 5, 6, 7, 123456789, time.FixedZone("x", 3600*5))
	tmpl := zocsp.Response{Status: zocsp.Revoked, SerialNumber: big.NewInt(77), ThisUpdate: tm, RevokedAt: tm.Add(-time.Hour), RevocationReason: 7}
	resp, err := zocsp.CreateResponse(ca.z, ca.z, tmpl, ca.signer())
	fmt.Println("create", len(resp), err)
	pr, err := zocsp.ParseResponse(resp, ca.z)
	fmt.Println("parse", err)
	if err == nil {
		fmt.Println(pr.Status, pr.SerialNumber, pr.ThisUpdate, pr.NextUpdate.IsZero(), pr.RevokedAt, pr.RevocationReason, pr.IssuerHash == crypto.SHA1)
	}
	xr, err := xocsp.ParseResponse(resp, ca.std)
	fmt.Println("x parse", err, xr != nil)
	resp2, _ := zocsp.CreateResponse(ca.z, ca.z, tmpl, ca.signer())
	fmt.Println("deterministic sig:", string(resp) == string(resp2))
	// sig||garbage
	root, _ := readAll(resp)
	_ = root
	// mozilla created
	doc := `{"data":[{"schema":1527680137883,"details":{"bug":"b","who":"","why":"","name":"","created":"2018-05-30T12:35:03Z"},"enabled":true,"issuerName":"` + b64(n.der) + `","serialNumber":"AQ8=","id":"x","last_modified":1527680138898}]}`
	oc, err := mozilla.Parse([]byte(doc))
	fmt.Println("moz", err)
	if err == nil {
		for k, v := range oc.IssuerLists {
			fmt.Println(k, v.Entries[0].Details.Created, v.Entries[0].SerialNumber, v.Entries[0].Schema.UTC())
		}
	}
	// CRL with non-minimal serial
	for _, sc := range [][]byte{{0x05}, {0x00, 0x05}, {0xff, 0x80}, {0x80}, {}} {
		entry := dSeq(tlv(0x02, sc), dUTCTime(tm))
		tbs := dSeq(dInt64(1), dSeq(dOID(ecdsaSigOID(crypto.SHA256)...)), n.der, dUTCTime(tm), dUTCTime(tm.Add(time.Hour)), dSeq(entry))
		alg, sig := signECDSA(k, crypto.SHA256, tbs)
		crl := dSeq(tbs, alg, dBitString(sig))
		cl, err := zx509.ParseDERCRL(crl)
		fmt.Printf("crl serial %x err %v\n", sc, err)
		if err == nil {
			fmt.Println("  ", cl.TBSCertList.RevokedCertificates[0].SerialNumber, cl.TBSCertList.Version)
			var nm pkix.Name
			nm.FillFromRDNSequence(&cl.TBSCertList.Issuer)
			fmt.Println("  ", nm.String())
		}
	}
}

func b64(b []byte) string { return base64.StdEncoding.EncodeToString(b) }
