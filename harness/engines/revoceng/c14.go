package revoceng

// C14 — CRL revocation lookup reports exactly the listed serials.
//
// A CRL model (version, issuer, update times, ordered entry list with
// duplicates / negative / zero / 2^159-sized serials, list extensions) is
// encoded with the package's own DER writer (or, for a share of the cases,
// produced by zcrypto's Certificate.CreateCRL from the same model), parsed with
// x509.ParseDERCRL and queried with certificates built by the independent
// writer. The expected answer comes from the model, never from the parsed list:
//   revoked  <=> some entry has the certificate's serial
//   time      =  revocation time of the first such entry
//   copied    =  issuer attributes, thisUpdate/nextUpdate, version, CRL number,
//                the non-CRL-number extensions partitioned by their critical flag
//   cache     :  a map serial.String() -> first parsed entry gives the same flag and time.

import (
	"bytes"
	"crypto"
	"crypto/ecdsa"
	"encoding/hex"
	"fmt"
	"math/big"
	"math/rand/v2"
	"strings"
	"time"

	zx509 "github.com/zmap/zcrypto/x509"
	"github.com/zmap/zcrypto/x509/pkix"
	zcrl "github.com/zmap/zcrypto/x509/revocation/crl"

	"verifharness/internal/core"
)

func init() {
	core.RegisterMeta("C14", core.Meta{
		Rule: "CRL models (0–300 entries; duplicate serials with different times; serials 0, negative, up to 2^159 and beyond; v1/v2; optional nextUpdate; CRL number 0…2^62, " +
			"AKID, unknown critical and non-critical list extensions; entry extensions; issuer names of their own for 3 in 4 hand-written CRLs: multi-valued RDNs, sorted and unsorted SETs, repeated types, unknown OIDs, Printable/UTF8/IA5/T61/BMP strings, INTEGER and OCTET STRING values, empty SETs) encoded by the harness's own DER writer (≈80 %) or by zcrypto's CreateCRL (≈20 %), " +
			"parsed by x509.ParseDERCRL, each queried with 8 certificates (first/last/duplicated/middle listed serial, negated twin, neighbour, absent, zero) " +
			"through CheckCRLForCert with and without a first-occurrence cache; non-trivial = CRL parsed and the query was decided by both paths; " +
			"distinct = hash of (CRL bytes, query serial)",
		MinNontrivial:         3500,
		MinNontrivialThorough: 200000,
		Shards:                16,
		Assumptions: []string{
			"expected answers are computed from the generator's model of the CRL, not from zcrypto's parse of it",
			"\"first such entry\" = lowest index in revokedCertificates; the cache is built by the harness, first occurrence wins, keyed by SerialNumber.String() as CheckCRLForCert looks it up",
			"revocation time of a certificate that is not listed is not constrained by the statement (counted, not asserted)",
			"CRL numbers above the int range are outside the field's domain: only absence of a crash is observed for them",
			"signature algorithm / value copies and AuthKeyID are not part of the statement: mismatches are counted as soft_* counters only",
			"issuer copy: the RDNSequence handed out by the result (ToRDNSequence and OriginalRDNS) must have the CRL's RDN count and, per RDN, the same multiset of (type, value); its re-marshalled bytes must equal the issuer bytes written when every value is in a reproducible form and every SET was written in DER order; reordering by DER SET sorting and string types a re-marshal cannot reproduce (IA5, T61, BMP, ASCII in UTF8String) are counted only",
		},
	}, runC14)
}

type crlEntry struct {
	serial *big.Int
	when   time.Time
	reason int // -1 = no entry extension
}

type crlExt struct {
	oid      []int
	critical bool
	value    []byte
}

type crlModel struct {
	v2         bool
	issuer     *dn
	isp        *issuerSpec // generated issuer of an independent-writer CRL (nil: the CA's own name)
	thisUpdate time.Time
	nextUpdate time.Time // zero = absent
	entries    []crlEntry
	exts       []crlExt // in encoding order, including the CRL number extension
	crlNumber  *big.Int // nil = absent
	viaZcrypto bool
	sig        []byte // set by encode
	sigHash    crypto.Hash
}

var oidCRLNumber = []int{2, 5, 29, 20}
var oidAKID = []int{2, 5, 29, 35}

func sameOID(a, b []int) bool {
	if len(a) != len(b) {
		return false
	}
	for i := range a {
		if a[i] != b[i] {
			return false
		}
	}
	return true
}

func (m *crlModel) tbs(sigAlg []byte) []byte {
	var parts [][]byte
	if m.v2 {
		parts = append(parts, dInt64(1))
	}
	parts = append(parts, sigAlg, m.issuer.der, dTime(m.thisUpdate))
	if !m.nextUpdate.IsZero() {
		parts = append(parts, dTime(m.nextUpdate))
	}
	if len(m.entries) > 0 {
		var es [][]byte
		for _, e := range m.entries {
			p := [][]byte{dInt(e.serial), dTime(e.when)}
			if e.reason >= 0 {
				p = append(p, dSeq(dSeq(dOID(2, 5, 29, 21), dOctet(dEnum(int64(e.reason))))))
			}
			es = append(es, dSeq(p...))
		}
		parts = append(parts, dSeq(es...))
	}
	if len(m.exts) > 0 {
		var xs [][]byte
		for _, x := range m.exts {
			p := [][]byte{dOID(x.oid...)}
			if x.critical {
				p = append(p, dBool(true))
			}
			p = append(p, dOctet(x.value))
			xs = append(xs, dSeq(p...))
		}
		parts = append(parts, dCtx(0, dSeq(xs...)))
	}
	return dSeq(parts...)
}

func (m *crlModel) encode(k *ecdsa.PrivateKey) []byte {
	h := ecHashFor(k)
	alg := dSeq(dOID(ecdsaSigOID(h)...))
	tbs := m.tbs(alg)
	_, sig := signECDSA(k, h, tbs)
	m.sig, m.sigHash = sig, h
	return dSeq(tbs, alg, dBitString(sig))
}

func randTime(r *rand.Rand) time.Time {
	// 1971 … 2069, so that both UTCTime and GeneralizedTime occur
	sec := int64(31536000) + r.Int64N(99*31557600)
	return time.Unix(sec, 0).UTC()
}

func randSerial(r *rand.Rand) *big.Int {
	switch r.IntN(12) {
	case 0:
		return big.NewInt(0)
	case 1:
		return big.NewInt(int64(r.IntN(256)))
	case 2:
		return new(big.Int).Lsh(big.NewInt(1), 159)
	case 3:
		v := new(big.Int).Lsh(big.NewInt(1), 159)
		return v.Sub(v, big.NewInt(1))
	case 4: // negative
		return big.NewInt(-int64(r.IntN(70000)) - 1)
	case 5: // beyond 20 octets
		b := make([]byte, 21+r.IntN(12))
		for i := range b {
			b[i] = byte(r.UintN(256))
		}
		b[0] |= 1
		return new(big.Int).SetBytes(b)
	case 6: // boundary values of the two's-complement encoding
		vals := []int64{127, 128, 255, 256, -128, -129, 32767, 32768, -32768, -32769}
		return big.NewInt(vals[r.IntN(len(vals))])
	default:
		b := make([]byte, 1+r.IntN(20))
		for i := range b {
			b[i] = byte(r.UintN(256))
		}
		return new(big.Int).SetBytes(b)
	}
}

func genCRLModel(r *rand.Rand, issuer *dn, viaZcrypto bool) *crlModel {
	m := &crlModel{v2: true, issuer: issuer, viaZcrypto: viaZcrypto}
	m.thisUpdate = randTime(r)
	if viaZcrypto || r.IntN(5) != 0 {
		m.nextUpdate = m.thisUpdate.Add(time.Duration(1+r.IntN(30*24)) * time.Hour)
	}
	if !viaZcrypto && r.IntN(10) == 0 {
		m.v2 = false
	}
	var n int
	switch r.IntN(10) {
	case 0:
		n = 0
	case 1:
		n = 1
	case 2:
		n = 100 + r.IntN(201)
	default:
		n = 2 + r.IntN(30)
	}
	for i := 0; i < n; i++ {
		e := crlEntry{serial: randSerial(r), when: randTime(r), reason: -1}
		if m.v2 && r.IntN(4) == 0 {
			rs := []int{0, 1, 2, 3, 4, 5, 6, 8, 9, 10}
			e.reason = rs[r.IntN(len(rs))]
		}
		if len(m.entries) > 0 && r.IntN(5) == 0 { // duplicate of an earlier serial, different time
			e.serial = new(big.Int).Set(m.entries[r.IntN(len(m.entries))].serial)
		}
		m.entries = append(m.entries, e)
	}
	if m.v2 && !viaZcrypto {
		var xs []crlExt
		if r.IntN(3) != 0 {
			switch r.IntN(6) {
			case 0:
				m.crlNumber = big.NewInt(0)
			case 1:
				m.crlNumber = new(big.Int).Lsh(big.NewInt(1), 62)
			case 2: // outside the int range: totality only
				m.crlNumber = new(big.Int).Lsh(big.NewInt(1), uint(63+r.IntN(100)))
			default:
				m.crlNumber = big.NewInt(r.Int64N(1 << 40))
			}
			xs = append(xs, crlExt{oid: oidCRLNumber, critical: r.IntN(8) == 0, value: dInt(m.crlNumber)})
		}
		if r.IntN(2) == 0 {
			kid := make([]byte, 20)
			for i := range kid {
				kid[i] = byte(r.UintN(256))
			}
			xs = append(xs, crlExt{oid: oidAKID, value: dSeq(dCtxPrim(0, kid))})
		}
		for k := r.IntN(4); k > 0; k-- {
			v := make([]byte, r.IntN(12))
			for i := range v {
				v[i] = byte(r.UintN(256))
			}
			var oid []int
			switch r.IntN(4) {
			case 0:
				oid = []int{2, 5, 29, 28} // issuingDistributionPoint, not interpreted by the package
			case 1:
				oid = []int{2, 5, 29, 27} // deltaCRLIndicator
			default:
				oid = []int{1, 3, 6, 1, 4, 1, 55555, 1 + r.IntN(30)}
			}
			xs = append(xs, crlExt{oid: oid, critical: r.IntN(2) == 0, value: dOctet(v)})
		}
		r.Shuffle(len(xs), func(i, j int) { xs[i], xs[j] = xs[j], xs[i] })
		m.exts = xs
	}
	return m
}

// expected lookup result straight from the model
func (m *crlModel) lookup(s *big.Int) (bool, time.Time, int) {
	for i, e := range m.entries {
		if e.serial.Cmp(s) == 0 {
			return true, e.when, i
		}
	}
	return false, time.Time{}, -1
}

func (m *crlModel) queries(r *rand.Rand) []*big.Int {
	var qs []*big.Int
	add := func(v *big.Int) { qs = append(qs, new(big.Int).Set(v)) }
	if n := len(m.entries); n > 0 {
		add(m.entries[0].serial)
		add(m.entries[n-1].serial)
		add(m.entries[r.IntN(n)].serial)
		// a duplicated serial if there is one: take its *later* occurrence
		seen := map[string]bool{}
		dup := m.entries[r.IntN(n)].serial
		for _, e := range m.entries {
			if seen[e.serial.String()] {
				dup = e.serial
			}
			seen[e.serial.String()] = true
		}
		add(dup)
		add(new(big.Int).Neg(m.entries[r.IntN(n)].serial))
		add(new(big.Int).Add(m.entries[r.IntN(n)].serial, big.NewInt(1)))
	} else {
		add(big.NewInt(1))
		add(big.NewInt(-1))
		add(randSerial(r))
		add(randSerial(r))
		add(randSerial(r))
		add(randSerial(r))
	}
	add(randSerial(r))
	add(big.NewInt(0))
	return qs
}

type c14env struct {
	c      *core.Ctx
	cas    []*party
	leafK  *ecdsa.PrivateKey
	leafSP []byte
	leafDN *dn
	certs  map[string]*zx509.Certificate // issuer index | serial -> parsed query certificate
}

func (e *c14env) queryCert(ci int, s *big.Int) (*zx509.Certificate, []byte, error) {
	key := fmt.Sprintf("%d|%s", ci, s.String())
	if c, ok := e.certs[key]; ok {
		return c, c.Raw, nil
	}
	ca := e.cas[ci]
	der := buildCert(certSpec{serial: s, issuer: ca.name.der, subject: e.leafDN.der, spki: e.leafSP}, ca.ec)
	c, err := zx509.ParseCertificate(der)
	if err != nil {
		return nil, der, err
	}
	if len(e.certs) < 20000 {
		e.certs[key] = c
	}
	return c, der, nil
}

func runC14(c *core.Ctx) {
	total := c.Pick(1200, 70000)
	n := c.PerShard(total)
	r := c.Rng
	env := &c14env{c: c, certs: map[string]*zx509.Certificate{}}
	curves := []string{"P256", "P256", "P384", "P521"}
	for i := 0; i < 4; i++ {
		k := ecKeys(curves[i])[i%4]
		name := randomDN(r, fmt.Sprintf("C14 CA %d-%d", c.Shard, i))
		p := &party{label: "ca", name: name, ec: k}
		p.der = buildCert(certSpec{serial: big.NewInt(int64(1 + i)), issuer: name.der, subject: name.der, spki: spkiOf(&k.PublicKey), ca: true}, k)
		if err := p.finish(); err != nil {
			c.Violation("harness:ca-certificate-rejected", err.Error(), "", core.FullHex(p.der))
			return
		}
		env.cas = append(env.cas, p)
	}
	env.leafK = ecKeys("P256")[3]
	env.leafSP = spkiOf(&env.leafK.PublicKey)
	env.leafDN = randomDN(r, "C14 leaf")

	for i := 0; i < n; i++ {
		ci := r.IntN(len(env.cas))
		ca := env.cas[ci]
		via := r.IntN(5) == 0
		m := genCRLModel(r, ca.name, via)
		if !via && r.IntN(4) != 0 {
			// CheckCRLForCert does not tie the CRL issuer to the certificate: the CRL carries a name of its own
			m.isp = genIssuer(r, fmt.Sprintf("CRL issuer %d-%d", c.Shard, i))
			m.issuer = m.isp.name
			for _, t := range m.isp.traits {
				c.Count("issuer_trait_"+t, 1)
			}
		}
		caseID := fmt.Sprintf("C14/s%d/%d/%d", c.Seed, c.Shard, i)
		var der []byte
		if via {
			var rcs []pkix.RevokedCertificate
			for _, e := range m.entries {
				rc := pkix.RevokedCertificate{SerialNumber: e.serial, RevocationTime: e.when}
				if e.reason >= 0 {
					rc.Extensions = []pkix.Extension{{Id: []int{2, 5, 29, 21}, Value: dEnum(int64(e.reason))}}
				}
				rcs = append(rcs, rc)
			}
			var err error
			pi := core.Guard(func() { der, err = ca.z.CreateCRL(nil, detSigner{ca.ec}, rcs, m.thisUpdate, m.nextUpdate) })
			if pi != nil || err != nil {
				// creation failures belong to C05; here the case is merely unusable
				c.Count("createcrl_failed", 1)
				c.Eval(1)
				continue
			}
			c.Count("crl_via_CreateCRL", 1)
		} else {
			der = m.encode(ca.ec)
			c.Count("crl_via_independent_writer", 1)
		}
		c.Eval(1)
		var cl *pkix.CertificateList
		var perr error
		if pi := core.Guard(func() { cl, perr = zx509.ParseDERCRL(der) }); pi != nil {
			c.Violation(pi.Key, "ParseDERCRL panicked on a well-formed CRL\n"+pi.Stack, caseID, map[string]any{"crl": core.FullHex(der)})
			continue
		}
		if perr != nil && m.isp != nil && m.isp.exotic {
			c.Count("crl_with_exotic_issuer_refused_by_parser", 1) // empty SET / T61 / BMP / non-string value: the parser may say no
			continue
		}
		if perr != nil {
			// a well-formed CRL from the model must be parsable, otherwise nothing can be looked up
			c.Violation("crl-parse:well-formed-CRL-rejected", perr.Error(), caseID, map[string]any{"crl": core.FullHex(der)})
			continue
		}
		checkCRLCase(env, m, ci, cl, der, caseID)
	}
}

func extString(x pkix.Extension) string {
	return fmt.Sprintf("%s/%v/%s", x.Id.String(), x.Critical, hex.EncodeToString(x.Value))
}

func checkCRLCase(env *c14env, m *crlModel, ci int, cl *pkix.CertificateList, der []byte, caseID string) {
	c := env.c
	r := c.Rng
	input := func(q *big.Int, qder []byte) map[string]any {
		return map[string]any{"crl": core.FullHex(der), "query_serial": q.String(), "query_cert": core.FullHex(qder), "entries": len(m.entries)}
	}
	// cache from the parsed entries, first occurrence wins
	cache := map[string]*pkix.RevokedCertificate{}
	rcs := cl.TBSCertList.RevokedCertificates
	for i := range rcs {
		k := rcs[i].SerialNumber.String()
		if _, ok := cache[k]; !ok {
			cache[k] = &rcs[i]
		}
	}
	c.Max("entries", len(m.entries))
	if len(cache) < len(rcs) {
		c.Count("crls_with_duplicate_serials", 1)
	}
	intRange := m.crlNumber == nil || m.crlNumber.IsInt64()
	for qi, q := range m.queries(r) {
		cert, qder, err := env.queryCert(ci, q)
		if err != nil {
			c.Count("query_cert_unparsable", 1)
			continue
		}
		c.Eval(1)
		var lin, cac *zcrl.RevocationData
		var e1, e2 error
		if pi := core.Guard(func() {
			lin, e1 = zcrl.CheckCRLForCert(cl, cert, nil)
			cac, e2 = zcrl.CheckCRLForCert(cl, cert, cache)
		}); pi != nil {
			c.Violation(pi.Key, "CheckCRLForCert panicked\n"+pi.Stack, caseID, input(q, qder))
			return
		}
		if e1 != nil || e2 != nil || lin == nil || cac == nil {
			c.Violation("lookup:error-or-nil-result", fmt.Sprintf("linear err=%v cache err=%v", e1, e2), caseID, input(q, qder))
			return
		}
		wantRev, wantTime, idx := m.lookup(q)
		for _, leg := range []struct {
			name string
			d    *zcrl.RevocationData
		}{{"linear", lin}, {"cache", cac}} {
			d := leg.d
			if d.IsRevoked != wantRev {
				c.Violation(fmt.Sprintf("lookup:%s:revoked-flag:want=%v", leg.name, wantRev),
					fmt.Sprintf("serial %s: IsRevoked=%v, model says %v (first index %d of %d entries)", q, d.IsRevoked, wantRev, idx, len(m.entries)), caseID, input(q, qder))
				return
			}
			if wantRev && !d.RevocationTime.Equal(wantTime) {
				c.Violation(fmt.Sprintf("lookup:%s:revocation-time-not-first-entry", leg.name),
					fmt.Sprintf("serial %s: RevocationTime=%v, first listed entry (index %d) has %v", q, d.RevocationTime.UTC(), idx, wantTime), caseID, input(q, qder))
				return
			}
			if !wantRev && !d.RevocationTime.IsZero() {
				c.Count("soft_nonzero_time_when_not_revoked", 1)
			}
		}
		if lin.IsRevoked != cac.IsRevoked || !lin.RevocationTime.Equal(cac.RevocationTime) {
			c.Violation("lookup:cache-vs-linear-disagree", fmt.Sprintf("serial %s: linear=(%v,%v) cache=(%v,%v)", q, lin.IsRevoked, lin.RevocationTime, cac.IsRevoked, cac.RevocationTime), caseID, input(q, qder))
			return
		}
		if wantRev {
			c.Count("queries_revoked", 1)
			if idx > 0 {
				c.Count("queries_revoked_not_first_entry", 1)
			}
		} else {
			c.Count("queries_not_revoked", 1)
		}
		c.Nontrivial(der, q.String())
		if qi == 0 {
			// copied fields: once per CRL and path is enough, they do not depend on the query
			for _, leg := range []struct {
				name string
				d    *zcrl.RevocationData
			}{{"linear", lin}, {"cache", cac}} {
				if key, detail := checkCopied(c, m, leg.d, intRange); key != "" {
					c.Violation("copied:"+leg.name+":"+key, detail, caseID, input(q, qder))
					return
				}
			}
			if c.WantSample() && len(m.entries) > 0 && len(m.entries) < 6 {
				c.Sample(map[string]any{"crl": core.Hex(der), "entries": len(m.entries), "query": q.String(), "revoked": wantRev, "crl_number": fmt.Sprint(m.crlNumber)})
			}
		}
	}
}

func checkCopied(c *core.Ctx, m *crlModel, d *zcrl.RevocationData, intRange bool) (string, string) {
	if key, detail := checkIssuerCopy(c, m, d); key != "" {
		return key, detail
	}
	if !d.ThisUpdate.Equal(m.thisUpdate) {
		return "thisUpdate", fmt.Sprintf("ThisUpdate=%v want %v", d.ThisUpdate.UTC(), m.thisUpdate)
	}
	if m.nextUpdate.IsZero() != d.NextUpdate.IsZero() || (!m.nextUpdate.IsZero() && !d.NextUpdate.Equal(m.nextUpdate)) {
		return "nextUpdate", fmt.Sprintf("NextUpdate=%v want %v", d.NextUpdate.UTC(), m.nextUpdate)
	}
	wantV := 0
	if m.v2 {
		wantV = 1
	}
	if d.Version != wantV {
		c.Count("soft_version_mismatch", 1) // version is not named by the statement
	}
	if intRange {
		var wn int64
		if m.crlNumber != nil {
			wn = m.crlNumber.Int64()
			c.Count("crl_number_checked", 1)
		}
		if int64(d.CRLExtensions.CRLNumber) != wn {
			return "crl-number", fmt.Sprintf("CRLNumber=%d want %d", d.CRLExtensions.CRLNumber, wn)
		}
	} else {
		c.Count("crl_number_beyond_int_totality_only", 1)
	}
	var wantCrit, wantNon []string
	for _, x := range m.exts {
		if sameOID(x.oid, oidCRLNumber) {
			continue
		}
		s := fmt.Sprintf("%s/%v/%s", oidString(x.oid), x.critical, hex.EncodeToString(x.value))
		if x.critical {
			wantCrit = append(wantCrit, s)
		} else {
			wantNon = append(wantNon, s)
		}
	}
	var gotCrit, gotNon []string
	for _, x := range d.UnknownCriticalCRLExtensions {
		gotCrit = append(gotCrit, extString(x))
	}
	for _, x := range d.UnknownCRLExtensions {
		gotNon = append(gotNon, extString(x))
	}
	if strings.Join(gotCrit, "|") != strings.Join(wantCrit, "|") {
		return "critical-extensions", fmt.Sprintf("UnknownCriticalCRLExtensions=%q want %q", gotCrit, wantCrit)
	}
	if strings.Join(gotNon, "|") != strings.Join(wantNon, "|") {
		return "non-critical-extensions", fmt.Sprintf("UnknownCRLExtensions=%q want %q", gotNon, wantNon)
	}
	c.Count("extensions_classified", len(wantCrit)+len(wantNon))
	// not in the statement: signature copies (AuthKeyID is never filled in by the package)
	if m.sig != nil {
		wantAlg := map[crypto.Hash]zx509.SignatureAlgorithm{crypto.SHA256: zx509.ECDSAWithSHA256, crypto.SHA384: zx509.ECDSAWithSHA384, crypto.SHA512: zx509.ECDSAWithSHA512}[m.sigHash]
		if d.CRLSignatureAlgorithm != wantAlg || !bytes.Equal(d.CRLSignatureValue, m.sig) {
			c.Count("soft_signature_copy_mismatch", 1)
		} else {
			c.Count("soft_signature_copy_ok", 1)
		}
	}
	return "", ""
}

// checkIssuerCopy compares the Issuer of a result with the issuer the harness wrote into the CRL:
// (type, value, RDN index) of the sequence the result hands out, its re-marshalled bytes, and the flat attribute list.
func checkIssuerCopy(c *core.Ctx, m *crlModel, d *zcrl.RevocationData) (string, string) {
	sp := m.isp
	if sp == nil { // CA names: single-valued RDNs, ASCII sometimes inside UTF8String (not reproduced by a re-marshal)
		sp = &issuerSpec{name: m.issuer, sorted: true, sortedDER: m.issuer.der}
	}
	undecodable := false
	for _, v := range []struct {
		name string
		seq  pkix.RDNSequence
	}{{"ToRDNSequence", d.Issuer.ToRDNSequence()}, {"OriginalRDNS", d.Issuer.OriginalRDNS}} {
		ok, undec, detail := compareRDNs(v.seq, sp.name)
		if !ok {
			return "issuer-rdn-structure:" + v.name, detail
		}
		if undec {
			undecodable = true
			c.Count("issuer_value_of_unexpected_go_type", 1)
			continue
		}
		var b []byte
		var err error
		if pi := core.Guard(func() { b, err = marshalRDNs(v.seq) }); pi != nil {
			return pi.Key, "re-marshalling the result's issuer panicked\n" + pi.Stack
		}
		switch {
		case err != nil && sp.stable && !sp.exotic:
			return "issuer-remarshal-error:" + v.name, err.Error()
		case err != nil:
			c.Count("issuer_remarshal_error_exotic_or_unstable", 1)
		case bytes.Equal(b, sp.name.der):
			c.Count("issuer_remarshal_identical", 1)
		case !sp.sorted && bytes.Equal(b, sp.sortedDER):
			c.Count("issuer_remarshal_reordered_by_der_set_sorting", 1)
		case sp.stable && sp.sorted:
			return "issuer-remarshal:" + v.name, fmt.Sprintf("re-marshalled issuer %x, the CRL carries %x", b, sp.name.der)
		case sp.stable:
			c.Count("issuer_remarshal_differs_unsorted_set", 1)
		default:
			c.Count("issuer_remarshal_differs_string_type_not_reproducible", 1)
		}
	}
	if !undecodable {
		// the flattened attribute list, in encoding order
		var got []string
		for _, a := range d.Issuer.Names {
			k, _ := attrKey(a)
			got = append(got, k)
		}
		var want []string
		for _, rdn := range sp.name.rdns {
			for _, a := range rdn {
				want = append(want, modelAttrKey(a))
			}
		}
		if strings.Join(got, "|") != strings.Join(want, "|") {
			return "issuer", fmt.Sprintf("issuer attributes %q, CRL has %q", got, want)
		}
	}
	return "", ""
}
