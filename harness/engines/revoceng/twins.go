package revoceng

// Sign / width twins of a listed serial number, used by the C15 queries: certificates whose serial is *not* the
// listed one but would be mistaken for it by a comparison on magnitudes, on low-order bytes or on raw content bytes.

import (
	"bytes"
	"math/big"
)

type serialTwin struct {
	kind string
	v    *big.Int
}

func pow256(k int) *big.Int { return new(big.Int).Lsh(big.NewInt(1), uint(8*k)) }

// serialTwins returns the twins of s (kinds are stable names that end up in violation keys).
func serialTwins(s *big.Int) []serialTwin {
	k := len(new(big.Int).Abs(s).Bytes())
	if k == 0 {
		k = 1
	}
	var out []serialTwin
	seen := map[string]bool{s.String(): true}
	add := func(kind string, v *big.Int) {
		if !seen[v.String()] {
			seen[v.String()] = true
			out = append(out, serialTwin{kind, v})
		}
	}
	add("negated-twin", new(big.Int).Neg(s))
	add("plus-256^k", new(big.Int).Add(s, pow256(k)))
	add("plus-256^(k+1)", new(big.Int).Add(s, pow256(k+1)))
	add("minus-256^k", new(big.Int).Sub(s, pow256(k))) // same low-order content bytes, other sign
	if k >= 2 {
		m := new(big.Int).Mod(new(big.Int).Abs(s), pow256(k-1))
		if s.Sign() < 0 {
			m.Neg(m)
		}
		add("top-byte-dropped", m)
	}
	// the value whose DER content octets are the unsigned bytes of s read as two's complement, and vice versa
	c := intContent(s)
	if s.Sign() < 0 {
		add("content-bytes-read-unsigned", new(big.Int).SetBytes(c))
	} else if b := s.Bytes(); len(b) > 0 && b[0]&0x80 != 0 {
		add("magnitude-bytes-read-signed", contentToBigInt(b))
	}
	add("minus-128", big.NewInt(-128)) // 02 01 80: what a sign-and-magnitude reader would call negative zero
	add("zero", big.NewInt(0))
	return out
}

func stripZeros(b []byte) []byte {
	for len(b) > 0 && b[0] == 0 {
		b = b[1:]
	}
	return b
}

// contentEqualsListed reports whether the DER content octets of the (negative) serial q equal the bytes of a listed
// unsigned serial. Chromium and Firefox match serials on those octets, zcrypto on integer values: for such a query the
// two readings of "the set lists this serial" disagree, so it is counted and not asserted.
func contentEqualsListed(q *big.Int, listed [][]byte) bool {
	if q.Sign() >= 0 {
		return false
	}
	c := intContent(q)
	for _, l := range listed {
		if bytes.Equal(stripZeros(l), c) {
			return true
		}
	}
	return false
}
