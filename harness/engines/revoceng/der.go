package revoceng

// Minimal DER writer and a lenient TLV reader, written for the C13–C15 monitors.
// Nothing here shares code with zcrypto's encoding/asn1 or cryptobyte forks:
// the writer produces the hand-built encodings (multi-response OCSP, CRLs,
// certificates with unusual serials) and the reader is what the independent
// OCSP signature oracle uses to find the signed regions of a (mutated) response.

import (
	"errors"
	"fmt"
	"math/big"
	"time"
)

// ---- writer -----------------------------------------------------------------

func derLen(n int) []byte {
	switch {
	case n < 0x80:
		return []byte{byte(n)}
	case n < 0x100:
		return []byte{0x81, byte(n)}
	case n < 0x10000:
		return []byte{0x82, byte(n >> 8), byte(n)}
	case n < 0x1000000:
		return []byte{0x83, byte(n >> 16), byte(n >> 8), byte(n)}
	default:
		return []byte{0x84, byte(n >> 24), byte(n >> 16), byte(n >> 8), byte(n)}
	}
}

// tlv builds one element with a single-byte identifier octet.
func tlv(tag byte, parts ...[]byte) []byte {
	n := 0
	for _, p := range parts {
		n += len(p)
	}
	out := make([]byte, 0, n+6)
	out = append(out, tag)
	out = append(out, derLen(n)...)
	for _, p := range parts {
		out = append(out, p...)
	}
	return out
}

func dSeq(parts ...[]byte) []byte { return tlv(0x30, parts...) }
func dSet(parts ...[]byte) []byte { return tlv(0x31, parts...) }

// dCtx is a constructed context-specific element [n] (explicit tagging).
func dCtx(n int, parts ...[]byte) []byte { return tlv(0xa0|byte(n), parts...) }

// dCtxPrim is a primitive context-specific element [n] (implicit tagging of a primitive).
func dCtxPrim(n int, content []byte) []byte { return tlv(0x80|byte(n), content) }

// intContent is the minimal two's-complement content of an INTEGER.
func intContent(v *big.Int) []byte {
	switch v.Sign() {
	case 0:
		return []byte{0}
	case 1:
		b := v.Bytes()
		if b[0]&0x80 != 0 {
			b = append([]byte{0}, b...)
		}
		return b
	default:
		// two's complement of a negative value: -(|v|) = ^(|v|-1)
		m := new(big.Int).Neg(v)
		m.Sub(m, big.NewInt(1))
		b := m.Bytes()
		for i := range b {
			b[i] = ^b[i]
		}
		if len(b) == 0 || b[0]&0x80 == 0 {
			b = append([]byte{0xff}, b...)
		}
		return b
	}
}

func dInt(v *big.Int) []byte     { return tlv(0x02, intContent(v)) }
func dInt64(v int64) []byte      { return dInt(big.NewInt(v)) }
func dEnum(v int64) []byte       { return tlv(0x0a, intContent(big.NewInt(v))) }
func dOctet(b []byte) []byte     { return tlv(0x04, b) }
func dNull() []byte              { return []byte{0x05, 0x00} }
func dBitString(b []byte) []byte { return tlv(0x03, []byte{0}, b) }
func dBool(v bool) []byte {
	if v {
		return []byte{0x01, 0x01, 0xff}
	}
	return []byte{0x01, 0x01, 0x00}
}

func base128(v int) []byte {
	if v == 0 {
		return []byte{0}
	}
	var tmp []byte
	for v > 0 {
		tmp = append([]byte{byte(v & 0x7f)}, tmp...)
		v >>= 7
	}
	for i := 0; i < len(tmp)-1; i++ {
		tmp[i] |= 0x80
	}
	return tmp
}

func dOID(arcs ...int) []byte {
	if len(arcs) < 2 {
		panic("oid too short")
	}
	c := base128(arcs[0]*40 + arcs[1])
	for _, a := range arcs[2:] {
		c = append(c, base128(a)...)
	}
	return tlv(0x06, c)
}

func dGenTime(t time.Time) []byte { return tlv(0x18, []byte(t.UTC().Format("20060102150405Z"))) }
func dUTCTime(t time.Time) []byte { return tlv(0x17, []byte(t.UTC().Format("060102150405Z"))) }

// dTime follows RFC 5280: UTCTime through 2049, GeneralizedTime from 2050.
func dTime(t time.Time) []byte {
	y := t.UTC().Year()
	if y >= 1950 && y < 2050 {
		return dUTCTime(t)
	}
	return dGenTime(t)
}

func dString(tag byte, s string) []byte { return tlv(tag, []byte(s)) }

const (
	tagUTF8      = 0x0c
	tagPrintable = 0x13
	tagIA5       = 0x16
)

// ---- reader -----------------------------------------------------------------

// node is one TLV of a parsed encoding. Offsets are relative to the buffer
// handed to the top-level parse call.
type node struct {
	class       int
	tag         int
	constructed bool
	off         int // offset of the identifier octet
	hdrLen      int
	full        []byte
	content     []byte
	kids        []*node
}

var errDER = errors.New("der: malformed")

// readTLV reads one element at b[0:]. It is lenient about length encodings
// (non-minimal long forms are accepted) and rejects only what cannot be
// delimited: indefinite lengths, truncation, lengths over 4 octets.
func readTLV(b []byte, base int) (*node, []byte, error) {
	if len(b) < 2 {
		return nil, nil, errDER
	}
	n := &node{off: base}
	id := b[0]
	n.class = int(id >> 6)
	n.constructed = id&0x20 != 0
	n.tag = int(id & 0x1f)
	p := 1
	if n.tag == 0x1f {
		n.tag = 0
		for {
			if p >= len(b) || p > 5 {
				return nil, nil, errDER
			}
			c := b[p]
			p++
			n.tag = n.tag<<7 | int(c&0x7f)
			if c&0x80 == 0 {
				break
			}
		}
	}
	if p >= len(b) {
		return nil, nil, errDER
	}
	l := int(b[p])
	p++
	if l&0x80 != 0 {
		k := l & 0x7f
		if k == 0 || k > 4 || p+k > len(b) {
			return nil, nil, errDER
		}
		l = 0
		for i := 0; i < k; i++ {
			l = l<<8 | int(b[p+i])
		}
		p += k
	}
	if l < 0 || p+l > len(b) {
		return nil, nil, errDER
	}
	n.hdrLen = p
	n.full = b[:p+l]
	n.content = b[p : p+l]
	return n, b[p+l:], nil
}

// readAll parses exactly one element covering all of b.
func readAll(b []byte) (*node, error) {
	n, rest, err := readTLV(b, 0)
	if err != nil {
		return nil, err
	}
	if len(rest) != 0 {
		return nil, fmt.Errorf("der: %d trailing bytes", len(rest))
	}
	return n, nil
}

// children parses the content of a constructed element (one level).
func (n *node) children() ([]*node, error) {
	if n.kids != nil {
		return n.kids, nil
	}
	b := n.content
	base := n.off + n.hdrLen
	var out []*node
	for len(b) > 0 {
		k, rest, err := readTLV(b, base)
		if err != nil {
			return nil, err
		}
		out = append(out, k)
		base += len(k.full)
		b = rest
	}
	n.kids = out
	return out, nil
}

func (n *node) is(class, tag int) bool { return n != nil && n.class == class && n.tag == tag }

// asBigInt decodes INTEGER content (two's complement), without minimality checks.
func contentToBigInt(c []byte) *big.Int {
	v := new(big.Int).SetBytes(c)
	if len(c) > 0 && c[0]&0x80 != 0 {
		v.Sub(v, new(big.Int).Lsh(big.NewInt(1), uint(8*len(c))))
	}
	return v
}

func oidEqual(content []byte, arcs ...int) bool {
	want := dOID(arcs...)
	got := tlv(0x06, content)
	return string(want) == string(got)
}
