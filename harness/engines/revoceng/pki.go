package revoceng

// Key access, distinguished names and certificates for the C13–C15 monitors.
// Certificates are assembled with the package's own DER writer and signed with
// Go's crypto/ecdsa (deterministically, RFC 6979), so that what zcrypto parses
// was not produced by zcrypto.

import (
	"crypto"
	"crypto/ecdsa"
	stdrsa "crypto/rsa"
	"crypto/sha1"
	"crypto/sha256"
	"crypto/sha512"
	stdx509 "crypto/x509"
	"fmt"
	"hash"
	"io"
	"math/big"
	"math/rand/v2"
	"strings"
	"time"

	zrsa "github.com/zmap/zcrypto/rsa"
	zx509 "github.com/zmap/zcrypto/x509"

	"verifharness/internal/keys"
)

// detSigner signs deterministically (RFC 6979) whatever random source the caller passes.
type detSigner struct{ k *ecdsa.PrivateKey }

func (d detSigner) Public() crypto.PublicKey { return &d.k.PublicKey }
func (d detSigner) Sign(_ io.Reader, digest []byte, opts crypto.SignerOpts) ([]byte, error) {
	return d.k.Sign(nil, digest, opts)
}

func newHash(h crypto.Hash) hash.Hash {
	switch h {
	case crypto.SHA1:
		return sha1.New()
	case crypto.SHA256:
		return sha256.New()
	case crypto.SHA384:
		return sha512.New384()
	case crypto.SHA512:
		return sha512.New()
	}
	panic(fmt.Sprintf("hash %d", h))
}

func digestOf(h crypto.Hash, b []byte) []byte {
	x := newHash(h)
	x.Write(b)
	return x.Sum(nil)
}

// ecdsaSigOID returns ecdsa-with-<hash>.
func ecdsaSigOID(h crypto.Hash) []int {
	switch h {
	case crypto.SHA1:
		return []int{1, 2, 840, 10045, 4, 1}
	case crypto.SHA256:
		return []int{1, 2, 840, 10045, 4, 3, 2}
	case crypto.SHA384:
		return []int{1, 2, 840, 10045, 4, 3, 3}
	case crypto.SHA512:
		return []int{1, 2, 840, 10045, 4, 3, 4}
	}
	panic("hash")
}

func ecHashFor(k *ecdsa.PrivateKey) crypto.Hash {
	switch k.Curve.Params().BitSize {
	case 384:
		return crypto.SHA384
	case 521:
		return crypto.SHA512
	}
	return crypto.SHA256
}

// signECDSA returns AlgorithmIdentifier DER and the DER signature over tbs.
func signECDSA(k *ecdsa.PrivateKey, h crypto.Hash, tbs []byte) (algID, sig []byte) {
	s, err := k.Sign(nil, digestOf(h, tbs), h)
	if err != nil {
		panic(err)
	}
	return dSeq(dOID(ecdsaSigOID(h)...)), s
}

// ---- names ------------------------------------------------------------------

type nameAttr struct {
	oid []int
	tag byte   // string type (or another universal tag for non-string values)
	val string // content octets
}

// text is the decoded string value (differs from the content octets for BMPString).
func (a nameAttr) text() string {
	if a.tag == 0x1e {
		var rs []rune
		for i := 0; i+1 < len(a.val); i += 2 {
			rs = append(rs, rune(a.val[i])<<8|rune(a.val[i+1]))
		}
		return string(rs)
	}
	return a.val
}

// dn is a distinguished name: a sequence of RDNs, each a set of attributes.
type dn struct {
	rdns [][]nameAttr
	der  []byte
}

var (
	oidCN = []int{2, 5, 4, 3}
	oidC  = []int{2, 5, 4, 6}
	oidL  = []int{2, 5, 4, 7}
	oidST = []int{2, 5, 4, 8}
	oidO  = []int{2, 5, 4, 10}
	oidOU = []int{2, 5, 4, 11}
)

func (n *dn) encode() []byte {
	var rs [][]byte
	for _, rdn := range n.rdns {
		var as [][]byte
		for _, a := range rdn {
			as = append(as, dSeq(dOID(a.oid...), dString(a.tag, a.val)))
		}
		rs = append(rs, dSet(as...))
	}
	n.der = dSeq(rs...)
	return n.der
}

// flat lists (dotted oid, value) in encoding order.
func (n *dn) flat() []string {
	var out []string
	for _, rdn := range n.rdns {
		for _, a := range rdn {
			out = append(out, oidString(a.oid)+"="+a.text())
		}
	}
	return out
}

func oidString(o []int) string {
	parts := make([]string, len(o))
	for i, a := range o {
		parts[i] = fmt.Sprint(a)
	}
	return strings.Join(parts, ".")
}

var (
	orgWords  = []string{"Acme", "Globex", "Initech", "Umbrella Corp", "Hooli", "Soylent", "Stark, Inc.", "Wayne + Sons", "Tyrell", "Cyberdyne"}
	countries = []string{"US", "DE", "JP", "BR", "ZA", "NL", "IN", "FR"}
	unitWords = []string{"PKI", "Trust Services", "Ops", "R&D", "Security"}
)

// randomDN makes a name that is unique by construction: the common name carries uniq.
// Other attributes vary freely (order, string types, characters needing RFC 2253 escapes).
func randomDN(r *rand.Rand, uniq string) *dn {
	n := &dn{}
	str := func() byte {
		if r.IntN(3) == 0 {
			return tagUTF8
		}
		return tagPrintable
	}
	var attrs []nameAttr
	if r.IntN(4) != 0 {
		attrs = append(attrs, nameAttr{oidC, tagPrintable, countries[r.IntN(len(countries))]})
	}
	if r.IntN(3) != 0 {
		attrs = append(attrs, nameAttr{oidO, tagUTF8, orgWords[r.IntN(len(orgWords))]})
	}
	if r.IntN(3) == 0 {
		attrs = append(attrs, nameAttr{oidOU, str(), unitWords[r.IntN(len(unitWords))]})
	}
	if r.IntN(6) == 0 {
		attrs = append(attrs, nameAttr{oidL, str(), "Springfield"})
	}
	cn := nameAttr{oidCN, str(), uniq}
	switch r.IntN(6) {
	case 0:
		cn.val = uniq + " CA"
	case 1:
		cn.val = "Root " + uniq
	}
	if r.IntN(5) == 0 { // common name first (reverse-ordered names exist in the wild)
		attrs = append([]nameAttr{cn}, attrs...)
	} else {
		attrs = append(attrs, cn)
	}
	for _, a := range attrs {
		n.rdns = append(n.rdns, []nameAttr{a})
	}
	n.encode()
	return n
}

// ---- certificates -----------------------------------------------------------

type certSpec struct {
	serial     *big.Int
	serialRaw  []byte // if set: INTEGER content octets written as they are (non-minimal encodings)
	issuer     []byte // name DER
	subject    []byte
	notBefore  time.Time
	notAfter   time.Time
	spki       []byte // SubjectPublicKeyInfo DER
	ca         bool
	ocspSigner bool
	v1         bool
	ski        []byte // subjectKeyIdentifier extension value (nil = no extension)
}

var (
	tNotBefore = time.Date(2020, 1, 1, 0, 0, 0, 0, time.UTC)
	tNotAfter  = time.Date(2040, 1, 1, 0, 0, 0, 0, time.UTC)
)

func spkiOf(pub any) []byte {
	b, err := stdx509.MarshalPKIXPublicKey(pub)
	if err != nil {
		panic(err)
	}
	return b
}

// signKey signs hand-built structures: ECDSA (deterministic) or RSA PKCS#1 v1.5 with SHA-256, both from Go's crypto.
type signKey struct {
	ec  *ecdsa.PrivateKey
	rsa *stdrsa.PrivateKey
}

func (k signKey) algID() []byte {
	if k.ec != nil {
		return dSeq(dOID(ecdsaSigOID(ecHashFor(k.ec))...))
	}
	return dSeq(dOID(1, 2, 840, 113549, 1, 1, 11), dNull())
}

func (k signKey) sign(tbs []byte) []byte {
	if k.ec != nil {
		_, sig := signECDSA(k.ec, ecHashFor(k.ec), tbs)
		return sig
	}
	sig, err := stdrsa.SignPKCS1v15(nil, k.rsa, crypto.SHA256, digestOf(crypto.SHA256, tbs))
	if err != nil {
		panic(err)
	}
	return sig
}

// buildCert assembles and signs a certificate with the independent writer.
func buildCert(s certSpec, signer *ecdsa.PrivateKey) []byte {
	return buildCertWith(s, signKey{ec: signer})
}

func buildCertWith(s certSpec, signer signKey) []byte {
	alg := signer.algID()
	nb, na := s.notBefore, s.notAfter
	if nb.IsZero() {
		nb, na = tNotBefore, tNotAfter
	}
	var parts [][]byte
	if !s.v1 {
		parts = append(parts, dCtx(0, dInt64(2)))
	}
	serialDER := []byte(nil)
	if s.serialRaw != nil {
		serialDER = tlv(0x02, s.serialRaw)
	} else {
		serialDER = dInt(s.serial)
	}
	parts = append(parts, serialDER, alg, s.issuer, dSeq(dTime(nb), dTime(na)), s.subject, s.spki)
	if !s.v1 {
		var exts [][]byte
		if s.ca {
			exts = append(exts, dSeq(dOID(2, 5, 29, 19), dBool(true), dOctet(dSeq(dBool(true)))))
			exts = append(exts, dSeq(dOID(2, 5, 29, 15), dBool(true), dOctet(tlv(0x03, []byte{1, 0x06})))) // keyCertSign|cRLSign
		} else {
			exts = append(exts, dSeq(dOID(2, 5, 29, 15), dBool(true), dOctet(tlv(0x03, []byte{7, 0x80})))) // digitalSignature
		}
		if s.ski != nil {
			exts = append(exts, dSeq(dOID(2, 5, 29, 14), dOctet(dOctet(s.ski))))
		}
		if s.ocspSigner {
			exts = append(exts, dSeq(dOID(2, 5, 29, 37), dOctet(dSeq(dOID(1, 3, 6, 1, 5, 5, 7, 3, 9)))))
		}
		parts = append(parts, dCtx(3, dSeq(exts...)))
	}
	tbs := dSeq(parts...)
	return dSeq(tbs, alg, dBitString(signer.sign(tbs)))
}

// party is a key with a name and (for CAs / responders) a certificate in both parsed forms.
type party struct {
	label string
	ski   string // subjectKeyIdentifier style of the certificate (issuers of the C13 universe)
	name  *dn
	ec    *ecdsa.PrivateKey // nil for RSA parties
	rsa   *stdrsa.PrivateKey
	zrsa  *zrsa.PrivateKey
	der   []byte
	z     *zx509.Certificate
	std   *stdx509.Certificate
}

func (p *party) pub() any {
	if p.ec != nil {
		return &p.ec.PublicKey
	}
	return &p.rsa.PublicKey
}

func (p *party) signKey() signKey { return signKey{ec: p.ec, rsa: p.rsa} }

// signer is what zcrypto's creation APIs get.
func (p *party) signer() crypto.Signer {
	if p.ec != nil {
		return detSigner{p.ec}
	}
	return p.zrsa
}

func zrsaKey(k keys.RSAKey) *zrsa.PrivateKey {
	pk := &zrsa.PrivateKey{PublicKey: zrsa.PublicKey{N: new(big.Int).Set(k.N), E: big.NewInt(int64(k.E))}, D: new(big.Int).Set(k.D)}
	for _, q := range k.Primes {
		pk.Primes = append(pk.Primes, new(big.Int).Set(q))
	}
	pk.Precompute()
	return pk
}

// finish parses p.der with both libraries.
func (p *party) finish() error {
	var err error
	if p.z, err = zx509.ParseCertificate(p.der); err != nil {
		return fmt.Errorf("zcrypto parse of %s: %v", p.label, err)
	}
	// stdlib refuses some shapes on purpose (negative serials, …); callers that need std check for nil
	p.std, _ = stdx509.ParseCertificate(p.der)
	return nil
}

func ecKeys(curve string) []*ecdsa.PrivateKey { return keys.Get().ECByCurve(curve) }
