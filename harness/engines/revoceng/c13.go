package revoceng

// C13 — OCSP messages round-trip and bind to the issuer's signature.
//
// Legs (all inside one shard's universe of issuers / responders / leaves):
//   rt      CreateResponse over random templates → ParseResponse (with and without issuer): listed fields come back;
//           responder modes that are not vouched for by the issuer must be refused when an issuer is supplied.
//   req     CreateRequest → ParseRequest: hashes recomputed with Go's crypto over the issuer name / key bits, serial.
//   forcert multi-response encodings from the independent writer → ParseResponseForCert returns the first matching single.
//   flip    every byte of short signed responses flipped (all 8 single-bit flips for the "full" seeds, one mask per
//           byte for the others): ParseResponse(…, issuer) may accept only what the independent oracle verifies.
//   mut     structural mutations (signature padding, swapped parts, dropped / replaced / added certificates, …).

import (
	"bytes"
	"crypto"
	stdx509 "crypto/x509"
	"fmt"
	"math/big"
	"math/rand/v2"
	"time"

	"github.com/zmap/zcrypto/encoding/asn1"
	zx509 "github.com/zmap/zcrypto/x509"
	"github.com/zmap/zcrypto/x509/pkix"
	zcrl "github.com/zmap/zcrypto/x509/revocation/crl"
	zocsp "github.com/zmap/zcrypto/x509/revocation/ocsp"
	xocsp "golang.org/x/crypto/ocsp"

	"verifharness/internal/core"
	"verifharness/internal/keys"
)

func init() {
	core.RegisterMeta("C13", core.Meta{
		Rule: "templates (status × reason 0–10 × serial 1…2^159 × times with sub-second parts and zones, zero nextUpdate × issuer hash {0,SHA1,SHA256,SHA384,SHA512} × extensions × " +
			"signature algorithm {0, each valid} × responder {issuer, issuer embedded, delegated embedded, delegated not embedded, delegated certified by another CA, impostors whose certificate carries the issuer's or a trusted responder's exact subject but another key — self-signed or certified by another CA}) × issuer keys " +
			"{ECDSA P-256/384/521, RSA-2048} × issuer subjectKeyIdentifier styles {absent, SHA-1 of key bits, RFC 7093 truncated SHA-256, random 20 bytes, SHA-1 of another CA key, 4 bytes, 32 bytes} through CreateResponse/ParseResponse; CreateRequest/ParseRequest with every hash; multi-response encodings (2–4 singles, duplicate serials) from the " +
			"harness's DER writer through ParseResponseForCert; every byte of short signed responses flipped (all 8 bits for the full seeds) and structural mutations, judged by an independent " +
			"verifier (own TLV reader + crypto/ecdsa, crypto/rsa) with golang.org/x/crypto/ocsp as second opinion; non-trivial = the untampered message was accepted and every listed field " +
			"was compared / the tampered message was decided by zcrypto; distinct = hash of the template description or of (seed response, mutation); enumerated flips are distinct by construction",
		MinNontrivial:         150000,
		MinNontrivialThorough: 1800000,
		Shards:                16,
		Assumptions: []string{
			"\"to the second\": |parsed − template| < 1 s; ProducedAt is read from the wall clock by CreateResponse and never compared",
			"a response is acceptable iff the independent verifier accepts it: the signature over the tbsResponseData bytes present in the message verifies under the issuer key, or under the key of any embedded certificate that is itself signed by the issuer key (most permissive reading of \"directly or through an embedded responder certificate\"); signatures are strict DER as crypto/ecdsa.VerifyASN1 defines them",
			"bytes outside the signed regions (outer wrappers, certificates after the first) are not protected by any signature: a mutation there that zcrypto accepts is a violation only if the parsed result's signed parts differ from the seed's",
			"ECDSA signatures are made deterministic (RFC 6979) by a crypto.Signer wrapper, so case lists are reproducible; no equality oracle involves a signature value",
			"golang.org/x/crypto/ocsp with the crypto/x509 form of the same issuer is a second opinion; SHA-1 based signatures are excluded from it (crypto/x509 refuses them)",
			"critical singleExtensions are refused by ParseResponse by design; counted, not asserted",
			"CreateResponse writes the wall-clock minute into ProducedAt, so the signed bytes and the DER length of ECDSA signatures (±2 bytes) differ between runs of the same seed: every flip enumeration is complete for the response actually produced, evaluation totals vary by a few cases, verdict keys do not",
		},
	}, runC13)
}

// ---- universe ---------------------------------------------------------------

type c13issuer struct {
	*party
	delegates []*party // responder certificates signed by this issuer
	rogue     *party   // delegates[0]'s name and key, certified by another CA
	// impostors carry a subject that collides with a trusted name but their own key, and are not certified by the issuer:
	// [0] issuer's exact subject, self-signed   [1] issuer's exact subject, certified by the other CA
	// [2] delegates[1]'s subject, self-signed   [3] delegates[1]'s subject, issuer field naming this issuer, signed by the other CA
	impostors []*party
	leaves    []*zx509.Certificate
}

type c13env struct {
	c       *core.Ctx
	r       *rand.Rand
	sample  *rand.Rand
	issuers []*c13issuer
	other   *party
}

// skiStyles: how an issuer certificate's subjectKeyIdentifier relates to its key. Only "sha1-of-key-bits" equals the
// OCSP issuerKeyHash for SHA-1; nothing in OCSP may take the extension's word for it.
var skiStyles = []string{"absent", "sha1-of-key-bits", "rfc7093-sha256-truncated-20", "random-20-bytes", "sha1-of-another-ca-key", "4-bytes", "sha256-32-bytes"}

func skiFor(style string, bits, otherBits, random []byte) []byte {
	switch style {
	case "sha1-of-key-bits":
		return digestOf(crypto.SHA1, bits)
	case "rfc7093-sha256-truncated-20":
		return digestOf(crypto.SHA256, bits)[:20]
	case "random-20-bytes":
		return random[:20]
	case "sha1-of-another-ca-key":
		return digestOf(crypto.SHA1, otherBits)
	case "4-bytes":
		return random[:4]
	case "sha256-32-bytes":
		return digestOf(crypto.SHA256, bits)
	}
	return nil
}

func (e *c13env) mkParty(label string, name *dn, ecIdx int, rsaKey *keys.RSAKey, signer *party, spec certSpec) (*party, error) {
	return e.mkPartySKI(label, name, ecIdx, rsaKey, signer, spec, "absent", nil)
}

func (e *c13env) mkPartySKI(label string, name *dn, ecIdx int, rsaKey *keys.RSAKey, signer *party, spec certSpec, skiStyle string, random []byte) (*party, error) {
	p := &party{label: label, name: name, ski: skiStyle}
	if rsaKey != nil {
		p.rsa = rsaKey.Std()
		p.zrsa = zrsaKey(*rsaKey)
	} else {
		p.ec = keys.Get().EC[ecIdx].Priv
	}
	if skiStyle != "absent" {
		spec.ski = skiFor(skiStyle, keyBits(p), keyBits(e.other), random)
	}
	spec.subject = name.der
	spec.spki = spkiOf(p.pub())
	sk := p.signKey()
	spec.issuer = name.der
	if signer != nil {
		sk = signer.signKey()
		spec.issuer = signer.name.der
	}
	p.der = buildCertWith(spec, sk)
	if err := p.finish(); err != nil {
		return nil, err
	}
	if p.std == nil {
		return nil, fmt.Errorf("crypto/x509 cannot parse %s", label)
	}
	return p, nil
}

func newC13env(c *core.Ctx) (*c13env, error) {
	e := &c13env{c: c, r: c.Rng, sample: c.SubRng("oracle-sampling")}
	r := c.SubRng("universe")
	tag := fmt.Sprintf("%d", c.Shard)
	var err error
	e.other, err = e.mkParty("other-ca", randomDN(r, "Other CA "+tag), 6, nil, nil, certSpec{serial: big.NewInt(900), ca: true})
	if err != nil {
		return nil, err
	}
	type idef struct {
		label string
		ec    int
		rsa   bool
	}
	defs := []idef{{"p256-a", 4, false}, {"p256-b", 5, false}, {"p384", 8, false}, {"p521", 12, false}, {"rsa2048", 0, true}}
	for i, d := range defs {
		var root *party
		var rk *keys.RSAKey
		if d.rsa {
			k := keys.Get().RSAByBits(2048, 2)[c.Shard%4]
			rk = &k
			root = e.issuers[0].party // the RSA issuer is an intermediate under the first root
		}
		// every shard gives its five issuers five consecutive styles; over the shards each issuer kind meets each style
		style := skiStyles[(i+c.Shard)%len(skiStyles)]
		p, err := e.mkPartySKI("issuer-"+d.label, randomDN(r, "Issuer "+d.label+" "+tag), d.ec, rk, root, certSpec{serial: big.NewInt(int64(10 + i)), ca: true}, style, randBytes(r, 20))
		if err != nil {
			return nil, err
		}
		is := &c13issuer{party: p}
		for j, ek := range []int{7, 9} {
			dp, err := e.mkParty(fmt.Sprintf("responder-%s-%d", d.label, j), randomDN(r, fmt.Sprintf("OCSP Responder %s %d %s", d.label, j, tag)), ek, nil, p,
				certSpec{serial: big.NewInt(int64(100 + 10*i + j)), ocspSigner: true})
			if err != nil {
				return nil, err
			}
			is.delegates = append(is.delegates, dp)
		}
		// rogue: same subject and key as delegates[0], certified by the other CA, but naming this issuer
		rg := &party{label: "rogue-" + d.label, name: is.delegates[0].name, ec: is.delegates[0].ec}
		rg.der = buildCertWith(certSpec{serial: big.NewInt(int64(500 + i)), issuer: p.name.der, subject: rg.name.der, spki: spkiOf(rg.pub()), ocspSigner: true}, e.other.signKey())
		if err := rg.finish(); err != nil {
			return nil, err
		}
		is.rogue = rg
		type impDef struct {
			label   string
			name    *dn
			ec      int
			issuer  []byte // issuer field; nil = self-issued
			byOther bool
			ca      bool
		}
		for j, id := range []impDef{
			{"impostor-issuer-name-self-signed", p.name, 11, nil, false, true},
			{"impostor-issuer-name-other-ca", p.name, 13, e.other.name.der, true, true},
			{"impostor-responder-name-self-signed", is.delegates[1].name, 14, nil, false, false},
			{"impostor-responder-name-other-ca", is.delegates[1].name, 15, p.name.der, true, false},
		} {
			ip := &party{label: id.label + "-" + d.label, name: id.name, ec: keys.Get().EC[id.ec].Priv}
			spec := certSpec{serial: big.NewInt(int64(700 + 10*i + j)), issuer: id.issuer, subject: id.name.der, spki: spkiOf(ip.pub()), ca: id.ca, ocspSigner: !id.ca}
			sk := ip.signKey()
			if id.issuer == nil {
				spec.issuer = id.name.der
			}
			if id.byOther {
				sk = e.other.signKey()
			}
			ip.der = buildCertWith(spec, sk)
			if err := ip.finish(); err != nil {
				return nil, err
			}
			is.impostors = append(is.impostors, ip)
		}
		leafDN := randomDN(r, "leaf "+d.label+" "+tag)
		leafSPKI := spkiOf(&keys.Get().EC[10].Priv.PublicKey)
		for j := 0; j < 6; j++ {
			s := randPosSerial(r)
			if j == 0 {
				s = big.NewInt(1)
			}
			lder := buildCertWith(certSpec{serial: s, issuer: p.name.der, subject: leafDN.der, spki: leafSPKI}, p.signKey())
			lc, err := zx509.ParseCertificate(lder)
			if err != nil {
				return nil, err
			}
			is.leaves = append(is.leaves, lc)
		}
		e.issuers = append(e.issuers, is)
	}
	return e, nil
}

func randPosSerial(r *rand.Rand) *big.Int {
	switch r.IntN(8) {
	case 0:
		return big.NewInt(int64(1 + r.IntN(255)))
	case 1:
		return new(big.Int).Lsh(big.NewInt(1), 159)
	case 2:
		v := new(big.Int).Lsh(big.NewInt(1), 159)
		return v.Sub(v, big.NewInt(1))
	case 3:
		return big.NewInt(int64([]int{127, 128, 255, 256, 32767, 32768}[r.IntN(6)]))
	}
	b := randBytes(r, 1+r.IntN(20))
	b[0] &= 0x7f
	v := new(big.Int).SetBytes(b)
	if v.Sign() == 0 {
		v.SetInt64(1)
	}
	return v
}

func randOCSPTime(r *rand.Rand) time.Time {
	sec := int64(31536000) + r.Int64N(128*31557600) // 1971 … 2098
	var ns int64
	if r.IntN(2) == 0 {
		ns = r.Int64N(1e9)
	}
	t := time.Unix(sec, ns)
	switch r.IntN(4) {
	case 0:
		return t.UTC()
	case 1:
		return t.In(time.FixedZone("east", 3600*(1+r.IntN(13))+60*r.IntN(60)))
	case 2:
		return t.In(time.FixedZone("west", -3600*(1+r.IntN(11))-1800*r.IntN(2)))
	}
	return t.In(time.FixedZone("", 0))
}

// keyBits is the content of the subjectPublicKey BIT STRING, computed without zcrypto.
func keyBits(p *party) []byte {
	if p.ec != nil {
		b, err := p.ec.PublicKey.Bytes()
		if err != nil {
			panic(err)
		}
		return b
	}
	return stdx509.MarshalPKCS1PublicKey(&p.rsa.PublicKey)
}

// ---- run --------------------------------------------------------------------

func runC13(c *core.Ctx) {
	e, err := newC13env(c)
	if err != nil {
		c.Violation("harness:universe-construction-failed", err.Error(), "", nil)
		return
	}
	nrt := c.PerShard(c.Pick(3200, 120000))
	for i := 0; i < nrt; i++ {
		e.roundTrip(fmt.Sprintf("C13/s%d/%d/rt%d", c.Seed, c.Shard, i))
	}
	nreq := c.PerShard(c.Pick(1600, 40000))
	for i := 0; i < nreq; i++ {
		e.request(fmt.Sprintf("C13/s%d/%d/req%d", c.Seed, c.Shard, i))
	}
	nfc := c.PerShard(c.Pick(1600, 40000))
	for i := 0; i < nfc; i++ {
		e.forCert(fmt.Sprintf("C13/s%d/%d/fc%d", c.Seed, c.Shard, i))
	}
	e.tamper()
}

// ---- rt ---------------------------------------------------------------------

const (
	modeSelf = iota
	modeSelfEmbedded
	modeDelegatedEmbedded
	modeDelegatedBare
	modeRogueEmbedded
	modeImpostor0 // … modeImpostor0+3: response signed by is.impostors[k], its certificate embedded
	modeImpostor1
	modeImpostor2
	modeImpostor3
	nModes
)

var modeNames = []string{"issuer-signs", "issuer-signs-cert-embedded", "delegated-embedded", "delegated-not-embedded", "delegated-certified-by-other-ca",
	"impostor-issuer-name-self-signed", "impostor-issuer-name-other-ca", "impostor-responder-name-self-signed", "impostor-responder-name-other-ca"}

type rtCase struct {
	issuer int
	mode   int
	tmpl   zocsp.Response
	desc   string
	signer *party
	resp   *party // responder certificate passed to CreateResponse
}

var ecAlgs = []zx509.SignatureAlgorithm{zx509.ECDSAWithSHA1, zx509.ECDSAWithSHA256, zx509.ECDSAWithSHA384, zx509.ECDSAWithSHA512}
var rsaAlgs = []zx509.SignatureAlgorithm{zx509.SHA1WithRSA, zx509.SHA256WithRSA, zx509.SHA384WithRSA, zx509.SHA512WithRSA}

func (e *c13env) genRT(r *rand.Rand, issuer, mode int, plain bool) *rtCase {
	is := e.issuers[issuer]
	rc := &rtCase{issuer: issuer, mode: mode}
	t := zocsp.Response{}
	t.Status = []int{zocsp.Good, zocsp.Revoked, zocsp.Unknown}[r.IntN(3)]
	if r.IntN(2) == 0 {
		t.Status = zocsp.Revoked
	}
	t.SerialNumber = randPosSerial(r)
	t.ThisUpdate = randOCSPTime(r)
	if r.IntN(4) != 0 {
		t.NextUpdate = t.ThisUpdate.Add(time.Duration(1+r.IntN(1000000)) * time.Second)
	}
	if t.Status == zocsp.Revoked || r.IntN(8) == 0 {
		t.RevokedAt = randOCSPTime(r)
		t.RevocationReason = 0
		if r.IntN(4) != 0 {
			t.RevocationReason = zcrl.RevocationReasonCode(r.IntN(11))
		}
	}
	t.IssuerHash = []crypto.Hash{0, crypto.SHA1, crypto.SHA256, crypto.SHA384, crypto.SHA512}[r.IntN(5)]
	crit := false
	if !plain && r.IntN(10) < 3 {
		for k := 1 + r.IntN(2); k > 0; k-- {
			x := pkix.Extension{Id: asn1.ObjectIdentifier{1, 3, 6, 1, 4, 1, 55555, 2, 1 + r.IntN(20)}, Value: randBytes(r, r.IntN(10))}
			if r.IntN(6) == 0 {
				x.Critical = true
				crit = true
			}
			t.ExtraExtensions = append(t.ExtraExtensions, x)
		}
	}
	switch mode {
	case modeSelf:
		rc.signer, rc.resp = is.party, is.party
	case modeSelfEmbedded:
		rc.signer, rc.resp = is.party, is.party
		t.Certificate = is.z
	case modeDelegatedEmbedded:
		d := is.delegates[r.IntN(len(is.delegates))]
		rc.signer, rc.resp = d, d
		t.Certificate = d.z
	case modeDelegatedBare:
		d := is.delegates[r.IntN(len(is.delegates))]
		rc.signer, rc.resp = d, d
	case modeRogueEmbedded:
		rc.signer, rc.resp = is.rogue, is.rogue
		t.Certificate = is.rogue.z
	case modeImpostor0, modeImpostor1, modeImpostor2, modeImpostor3:
		ip := is.impostors[mode-modeImpostor0]
		rc.signer, rc.resp = ip, ip
		t.Certificate = ip.z
	}
	if !plain && r.IntN(5) < 2 {
		if rc.signer.ec != nil {
			t.SignatureAlgorithm = ecAlgs[r.IntN(len(ecAlgs))]
		} else {
			t.SignatureAlgorithm = rsaAlgs[r.IntN(len(rsaAlgs))]
		}
	}
	rc.tmpl = t
	rc.desc = fmt.Sprintf("issuer=%s mode=%s status=%d serial=%s this=%s next=%s revokedAt=%s reason=%d hash=%d sigalg=%d exts=%d crit=%v",
		is.label, modeNames[mode], t.Status, t.SerialNumber, t.ThisUpdate.Format(time.RFC3339Nano), t.NextUpdate.Format(time.RFC3339Nano),
		t.RevokedAt.Format(time.RFC3339Nano), t.RevocationReason, t.IssuerHash, t.SignatureAlgorithm, len(t.ExtraExtensions), crit)
	return rc
}

func closeToSecond(got, want time.Time) bool {
	d := got.Sub(want)
	return d > -time.Second && d < time.Second
}

// compareRT checks the listed fields of a parsed response against the template.
func compareRT(p *zocsp.Response, rc *rtCase) (string, string) {
	t := rc.tmpl
	if p.Status != t.Status {
		return "status", fmt.Sprintf("Status=%d want %d", p.Status, t.Status)
	}
	if p.SerialNumber == nil || p.SerialNumber.Cmp(t.SerialNumber) != 0 {
		return "serial", fmt.Sprintf("SerialNumber=%v want %s", p.SerialNumber, t.SerialNumber)
	}
	if !closeToSecond(p.ThisUpdate, t.ThisUpdate) {
		return "thisUpdate", fmt.Sprintf("ThisUpdate=%v want %v", p.ThisUpdate.UTC(), t.ThisUpdate.UTC())
	}
	if t.NextUpdate.IsZero() != p.NextUpdate.IsZero() || (!t.NextUpdate.IsZero() && !closeToSecond(p.NextUpdate, t.NextUpdate)) {
		return "nextUpdate", fmt.Sprintf("NextUpdate=%v want %v", p.NextUpdate.UTC(), t.NextUpdate.UTC())
	}
	if t.Status == zocsp.Revoked {
		if !closeToSecond(p.RevokedAt, t.RevokedAt) {
			return "revokedAt", fmt.Sprintf("RevokedAt=%v want %v", p.RevokedAt.UTC(), t.RevokedAt.UTC())
		}
		if p.RevocationReason != t.RevocationReason {
			return "reason", fmt.Sprintf("RevocationReason=%d want %d", p.RevocationReason, t.RevocationReason)
		}
	}
	wantHash := t.IssuerHash
	if wantHash == 0 {
		wantHash = crypto.SHA1
	}
	if p.IssuerHash != wantHash {
		return "issuerHash", fmt.Sprintf("IssuerHash=%d want %d", p.IssuerHash, wantHash)
	}
	if !bytes.Equal(p.RawResponderName, rc.resp.name.der) {
		return "responderName", fmt.Sprintf("RawResponderName=%x want %x", p.RawResponderName, rc.resp.name.der)
	}
	return "", ""
}

func (e *c13env) create(rc *rtCase) ([]byte, error, *core.PanicInfo) {
	var out []byte
	var err error
	pi := core.Guard(func() {
		out, err = zocsp.CreateResponse(e.issuers[rc.issuer].z, rc.resp.z, rc.tmpl, rc.signer.signer())
	})
	return out, err, pi
}

func hasCritical(t zocsp.Response) bool {
	for _, x := range t.ExtraExtensions {
		if x.Critical {
			return true
		}
	}
	return false
}

func (e *c13env) roundTrip(caseID string) {
	c, r := e.c, e.r
	issuer := r.IntN(len(e.issuers))
	mode := r.IntN(nModes)
	if r.IntN(3) == 0 {
		mode = modeSelf
	}
	rc := e.genRT(r, issuer, mode, false)
	is := e.issuers[issuer]
	c.Eval(1)
	der, err, pi := e.create(rc)
	input := func() map[string]any {
		return map[string]any{"template": rc.desc, "response": core.FullHex(der), "issuer_cert": core.FullHex(is.der), "responder_cert": core.FullHex(rc.resp.der)}
	}
	if pi != nil {
		c.Violation(pi.Key, "CreateResponse panicked\n"+pi.Stack, caseID, input())
		return
	}
	if err != nil {
		c.Violation("roundtrip:create-failed:"+modeNames[mode], err.Error(), caseID, input())
		return
	}
	c.Count("created_"+modeNames[mode], 1)
	c.Count("created_with_"+is.label, 1)
	c.Count("created_issuer_ski_"+is.ski, 1)
	var pNil, pIss *zocsp.Response
	var eNil, eIss error
	if pi := core.Guard(func() {
		pNil, eNil = zocsp.ParseResponse(der, nil)
		pIss, eIss = zocsp.ParseResponse(der, is.z)
	}); pi != nil {
		c.Violation(pi.Key, "ParseResponse panicked on CreateResponse output\n"+pi.Stack, caseID, input())
		return
	}
	if hasCritical(rc.tmpl) {
		if eNil != nil {
			c.Count("critical_extension_refused", 1)
		} else {
			c.Count("critical_extension_accepted", 1)
		}
		return
	}
	if eNil != nil {
		c.Violation("roundtrip:own-output-rejected:"+modeNames[mode], "ParseResponse(resp, nil): "+eNil.Error(), caseID, input())
		return
	}
	if k, d := compareRT(pNil, rc); k != "" {
		c.Violation("roundtrip:field:"+k, "parse without issuer: "+d, caseID, input())
		return
	}
	legit := mode == modeSelf || mode == modeSelfEmbedded || mode == modeDelegatedEmbedded
	v := verifyOCSP(der, is.pub())
	if v.ok != legit {
		c.Violation("harness:independent-verifier-disagrees-with-construction", fmt.Sprintf("mode %s legit=%v verifier=%+v", modeNames[mode], legit, v), caseID, input())
		return
	}
	if legit && mode == modeSelfEmbedded && is.rsa != nil {
		// The RSA issuer is an intermediate, so its own certificate is not signed by its own key. The response is
		// signed by the issuer directly, but ParseResponse insists on the embedded certificate's signature; the
		// statement is one-directional ("accepts only if"), so either answer is fine here.
		if eIss != nil {
			c.Count("directly_signed_but_refused_because_embedded_issuer_cert_is_not_self_signed", 1)
		}
		c.Nontrivial("rt", rc.desc)
		return
	}
	if legit {
		if eIss != nil {
			c.Violation("roundtrip:genuine-response-rejected-with-issuer:"+modeNames[mode], eIss.Error(), caseID, input())
			return
		}
		if k, d := compareRT(pIss, rc); k != "" {
			c.Violation("roundtrip:field:"+k, "parse with issuer: "+d, caseID, input())
			return
		}
		if !v.usesSHA1 {
			if _, xerr := xocsp.ParseResponse(der, is.std); xerr != nil {
				c.Count("soft_xcrypto_rejects_genuine", 1)
			} else {
				c.Count("xcrypto_accepts_genuine", 1)
			}
		}
		c.Count("accepted_genuine_"+modeNames[mode], 1)
	} else {
		if eIss == nil {
			c.Violation("binding:accepted-without-issuer-signature:"+modeNames[mode],
				"ParseResponse(resp, issuer) accepted a response whose signer is not vouched for by the issuer; independent verifier: "+v.reason, caseID, input())
			return
		}
		c.Count("refused_not_vouched_"+modeNames[mode], 1)
	}
	// soft observations outside the statement
	if pNil.IsRevoked != (rc.tmpl.Status == zocsp.Revoked) || (pNil.Certificate != nil) != (rc.tmpl.Certificate != nil) {
		c.Count("soft_isrevoked_or_certificate_field_mismatch", 1)
	}
	if len(pNil.Extensions) != len(rc.tmpl.ExtraExtensions) {
		c.Count("soft_extension_count_mismatch", 1)
	}
	if p, err := splitOCSP(der); err == nil { // certID hashes as seen by the independent reader
		if !certIDHashesOK(p.tbs, rc.tmpl.IssuerHash, is) {
			c.Count("soft_certid_hashes_mismatch", 1)
		} else {
			c.Count("soft_certid_hashes_ok", 1)
		}
	}
	c.Nontrivial("rt", rc.desc)
	if c.WantSample() && mode == modeSelf && len(der) < 300 {
		c.Sample(map[string]any{"leg": "rt", "template": rc.desc, "response": core.Hex(der)})
	}
}

func certIDHashesOK(tbs *node, h crypto.Hash, is *c13issuer) bool {
	if h == 0 {
		h = crypto.SHA1
	}
	k, err := tbs.children()
	if err != nil || len(k) < 3 {
		return false
	}
	singles, err := k[len(k)-1].children()
	if err != nil || len(singles) != 1 {
		// responses is the last element unless responseExtensions follow (CreateResponse never writes them)
		return false
	}
	sk, err := singles[0].children()
	if err != nil || len(sk) < 3 {
		return false
	}
	ck, err := sk[0].children()
	if err != nil || len(ck) != 4 {
		return false
	}
	return bytes.Equal(ck[1].content, digestOf(h, is.name.der)) && bytes.Equal(ck[2].content, digestOf(h, keyBits(is.party)))
}

// ---- req --------------------------------------------------------------------

func (e *c13env) request(caseID string) {
	c, r := e.c, e.r
	issuer := r.IntN(len(e.issuers))
	is := e.issuers[issuer]
	leaf := is.leaves[r.IntN(len(is.leaves))]
	var opts *zocsp.RequestOptions
	want := crypto.SHA1
	switch r.IntN(6) {
	case 0:
	case 1:
		opts = &zocsp.RequestOptions{}
	default:
		want = []crypto.Hash{crypto.SHA1, crypto.SHA256, crypto.SHA384, crypto.SHA512}[r.IntN(4)]
		opts = &zocsp.RequestOptions{Hash: want}
	}
	if r.IntN(12) == 0 { // a request for a certificate with an unusual serial, built in memory
		leaf = &zx509.Certificate{SerialNumber: randSerial(r)}
	}
	c.Eval(1)
	var der []byte
	var err error
	input := func() map[string]any {
		return map[string]any{"issuer_cert": core.FullHex(is.der), "serial": leaf.SerialNumber.String(), "hash": int(want), "opts_nil": opts == nil, "request": core.FullHex(der)}
	}
	if pi := core.Guard(func() { der, err = zocsp.CreateRequest(leaf, is.z, opts) }); pi != nil {
		c.Violation(pi.Key, "CreateRequest panicked\n"+pi.Stack, caseID, input())
		return
	}
	if err != nil {
		c.Violation("request:create-failed", err.Error(), caseID, input())
		return
	}
	var rq *zocsp.Request
	if pi := core.Guard(func() { rq, err = zocsp.ParseRequest(der) }); pi != nil {
		c.Violation(pi.Key, "ParseRequest panicked\n"+pi.Stack, caseID, input())
		return
	}
	if err != nil || rq == nil {
		c.Violation("request:own-output-rejected", fmt.Sprint(err), caseID, input())
		return
	}
	switch {
	case rq.HashAlgorithm != want:
		c.Violation("request:field:hashAlgorithm", fmt.Sprintf("HashAlgorithm=%d want %d", rq.HashAlgorithm, want), caseID, input())
	case !bytes.Equal(rq.IssuerNameHash, digestOf(want, is.name.der)):
		c.Violation("request:field:issuerNameHash", fmt.Sprintf("IssuerNameHash=%x want %x", rq.IssuerNameHash, digestOf(want, is.name.der)), caseID, input())
	case !bytes.Equal(rq.IssuerKeyHash, digestOf(want, keyBits(is.party))):
		c.Violation("request:field:issuerKeyHash", fmt.Sprintf("IssuerKeyHash=%x want %x", rq.IssuerKeyHash, digestOf(want, keyBits(is.party))), caseID, input())
	case rq.SerialNumber == nil || rq.SerialNumber.Cmp(leaf.SerialNumber) != 0:
		c.Violation("request:field:serial", fmt.Sprintf("SerialNumber=%v want %s", rq.SerialNumber, leaf.SerialNumber), caseID, input())
	default:
		if xr, xerr := xocsp.ParseRequest(der); xerr != nil || xr.HashAlgorithm != want || !bytes.Equal(xr.IssuerKeyHash, rq.IssuerKeyHash) || xr.SerialNumber.Cmp(rq.SerialNumber) != 0 {
			c.Count("soft_xcrypto_request_disagrees", 1)
		} else {
			c.Count("xcrypto_request_agrees", 1)
		}
		c.Count(fmt.Sprintf("request_hash_%d", want), 1)
		c.Count("request_issuer_ski_"+is.ski, 1)
		c.Nontrivial("req", is.label, is.ski, leaf.SerialNumber.String(), int(want), opts == nil)
	}
}

// ---- forcert ----------------------------------------------------------------

func (e *c13env) randSingle(r *rand.Rand, is *c13issuer, serial *big.Int) ocspSingle {
	h := []crypto.Hash{crypto.SHA1, crypto.SHA1, crypto.SHA256, crypto.SHA384, crypto.SHA512}[r.IntN(5)]
	s := ocspSingle{hash: h, nameHash: digestOf(h, is.name.der), keyHash: digestOf(h, keyBits(is.party)), serial: serial,
		status: r.IntN(3), reason: -1, thisUpdate: randOCSPTime(r).Truncate(time.Second)}
	if s.status == 1 {
		s.revokedAt = randOCSPTime(r).Truncate(time.Second)
		if r.IntN(3) != 0 {
			s.reason = []int{0, 1, 2, 3, 4, 5, 6, 8, 9, 10}[r.IntN(10)]
		}
	}
	if r.IntN(3) != 0 {
		s.nextUpdate = s.thisUpdate.Add(time.Duration(1+r.IntN(100000)) * time.Second)
	}
	return s
}

// buildSigned signs spec with signer and embeds certs.
func buildSigned(spec ocspSpec, signer *party, certs [][]byte) []byte {
	tbs := spec.tbs()
	sk := signer.signKey()
	return assembleOCSP(tbs, sk.algID(), dBitString(sk.sign(tbs)), certs)
}

func (s ocspSingle) String() string {
	return fmt.Sprintf("{serial=%s status=%d this=%s next=%s revokedAt=%s reason=%d hash=%d}", s.serial, s.status,
		s.thisUpdate.UTC().Format(time.RFC3339), s.nextUpdate.UTC().Format(time.RFC3339), s.revokedAt.UTC().Format(time.RFC3339), s.reason, s.hash)
}

func compareSingle(p *zocsp.Response, s ocspSingle) string {
	switch {
	case p.SerialNumber == nil || p.SerialNumber.Cmp(s.serial) != 0:
		return "serial"
	case p.Status != s.status:
		return "status"
	case !p.ThisUpdate.Equal(s.thisUpdate):
		return "thisUpdate"
	case p.NextUpdate.IsZero() != s.nextUpdate.IsZero() || (!s.nextUpdate.IsZero() && !p.NextUpdate.Equal(s.nextUpdate)):
		return "nextUpdate"
	case p.IssuerHash != s.hash:
		return "issuerHash"
	}
	if s.status == 1 {
		wantReason := s.reason
		if wantReason < 0 {
			wantReason = 0
		}
		if !p.RevokedAt.Equal(s.revokedAt) {
			return "revokedAt"
		}
		if int(p.RevocationReason) != wantReason {
			return "reason"
		}
	}
	return ""
}

func (e *c13env) forCert(caseID string) {
	c, r := e.c, e.r
	is := e.issuers[r.IntN(len(e.issuers))]
	n := 2 + r.IntN(3)
	if r.IntN(8) == 0 {
		n = 1
	}
	var singles []ocspSingle
	for i := 0; i < n; i++ {
		var serial *big.Int
		switch {
		case i > 0 && r.IntN(3) == 0:
			serial = singles[r.IntN(i)].serial // duplicate serial, different content
		case r.IntN(2) == 0:
			serial = is.leaves[r.IntN(len(is.leaves))].SerialNumber
		default:
			serial = randPosSerial(r)
		}
		singles = append(singles, e.randSingle(r, is, serial))
	}
	spec := ocspSpec{producedAt: time.Date(2030, 1, 2, 3, 4, 5, 0, time.UTC), singles: singles}
	signer := is.party
	var certs [][]byte
	if r.IntN(3) == 0 {
		signer = is.delegates[r.IntN(2)]
		certs = [][]byte{signer.der}
	}
	if r.IntN(2) == 0 {
		spec.responderName = signer.name.der
	} else {
		spec.responderKey = digestOf(crypto.SHA1, keyBits(signer))
	}
	der := buildSigned(spec, signer, certs)
	// queries: a leaf of the issuer (may or may not be listed), a certificate carrying a listed serial, one that is absent
	var queries []*zx509.Certificate
	queries = append(queries, is.leaves[r.IntN(len(is.leaves))])
	queries = append(queries, &zx509.Certificate{SerialNumber: new(big.Int).Set(singles[r.IntN(n)].serial)})
	queries = append(queries, &zx509.Certificate{SerialNumber: new(big.Int).Set(singles[n-1].serial)})
	queries = append(queries, &zx509.Certificate{SerialNumber: new(big.Int).Add(singles[0].serial, big.NewInt(1))})
	var descs []string
	for _, s := range singles {
		descs = append(descs, s.String())
	}
	for _, q := range queries {
		c.Eval(1)
		input := map[string]any{"response": core.FullHex(der), "singles": descs, "query_serial": q.SerialNumber.String(), "issuer_cert": core.FullHex(is.der)}
		var p *zocsp.Response
		var err error
		if pi := core.Guard(func() { p, err = zocsp.ParseResponseForCert(der, q, is.z) }); pi != nil {
			c.Violation(pi.Key, "ParseResponseForCert panicked\n"+pi.Stack, caseID, input)
			return
		}
		first := -1
		for i, s := range singles {
			if s.serial.Cmp(q.SerialNumber) == 0 {
				first = i
				break
			}
		}
		if first < 0 {
			if err == nil {
				c.Violation("forcert:no-matching-serial-but-response-returned", fmt.Sprintf("returned serial %v status %d", p.SerialNumber, p.Status), caseID, input)
				return
			}
			c.Count("forcert_absent_refused", 1)
			c.Nontrivial("fc", der, q.SerialNumber.String())
			continue
		}
		if err != nil {
			c.Violation("forcert:matching-single-not-returned", fmt.Sprintf("single #%d matches serial %s but: %v", first, q.SerialNumber, err), caseID, input)
			return
		}
		if f := compareSingle(p, singles[first]); f != "" {
			other := -1
			for i := range singles {
				if i != first && compareSingle(p, singles[i]) == "" {
					other = i
				}
			}
			c.Violation("forcert:not-the-first-matching-single:"+f,
				fmt.Sprintf("first single with serial %s is #%d %s; returned fields differ in %s (they equal single #%d; -1 = none)", q.SerialNumber, first, singles[first], f, other), caseID, input)
			return
		}
		dups := 0
		for _, s := range singles {
			if s.serial.Cmp(q.SerialNumber) == 0 {
				dups++
			}
		}
		if dups > 1 {
			c.Count("forcert_first_of_duplicates", 1)
		}
		if first > 0 {
			c.Count("forcert_match_not_at_index_0", 1)
		}
		c.Count("forcert_matched", 1)
		c.Nontrivial("fc", der, q.SerialNumber.String())
	}
	// ParseResponse on a multi-response: documented to require exactly one status
	if n > 1 {
		if _, err := zocsp.ParseResponse(der, is.z); err == nil {
			c.Count("soft_parseresponse_accepts_multi", 1)
		} else {
			c.Count("parseresponse_refuses_multi", 1)
		}
	}
}

// ---- flip / mut -------------------------------------------------------------

type seed struct {
	name   string
	issuer *c13issuer
	der    []byte
	parts  *ocspParts
	z      *zocsp.Response // zcrypto's parse of the seed with the issuer
	spec   *ocspSpec       // for independent-writer seeds
	signer *party
	certs  [][]byte
}

func (e *c13env) mkSeed(name string, is *c13issuer, der []byte) (*seed, string) {
	s := &seed{name: name, issuer: is, der: der}
	var err error
	if s.parts, err = splitOCSP(der); err != nil {
		return nil, "independent reader: " + err.Error()
	}
	if v := verifyOCSP(der, is.pub()); !v.ok {
		return nil, "independent verifier: " + v.reason
	}
	if s.z, err = zocsp.ParseResponse(der, is.z); err != nil {
		return nil, "zcrypto: " + err.Error()
	}
	return s, ""
}

func (s *seed) region(pos int) string {
	in := func(n *node) bool { return n != nil && pos >= n.off && pos < n.off+len(n.full) }
	switch {
	case in(s.parts.tbs):
		return "tbsResponseData"
	case in(s.parts.sigAlg):
		return "signatureAlgorithm"
	case in(s.parts.sigBits):
		return "signature"
	}
	for i, c := range s.parts.certs {
		if in(c) {
			if i == 0 {
				return "embedded-certificate"
			}
			return "later-certificate"
		}
	}
	return "wrapper"
}

// judge applies the oracle to one mutated message. kind names the mutation (stable, goes into the key).
func (e *c13env) judge(s *seed, m []byte, kind, caseID string, detail func() map[string]any) {
	c := e.c
	c.Eval(1)
	var zr *zocsp.Response
	var zerr error
	if pi := core.Guard(func() { zr, zerr = zocsp.ParseResponse(m, s.issuer.z) }); pi != nil {
		in := detail()
		in["mutated"] = core.FullHex(m)
		c.Violation(pi.Key, "ParseResponse panicked on a tampered response ("+kind+")\n"+pi.Stack, caseID, in)
		return
	}
	if zerr != nil {
		c.Count("tampered_refused", 1)
		if e.sample.IntN(16) == 0 { // keep an eye on the oracle itself (own stream: outcomes must not steer case generation): it must not accept what zcrypto refuses too often
			if v := verifyOCSP(m, s.issuer.pub()); v.ok {
				c.Count("refused_by_zcrypto_but_independently_valid:"+kind, 1)
			} else {
				c.Count("refused_by_both_sampled", 1)
			}
		}
		return
	}
	v := verifyOCSP(m, s.issuer.pub())
	_, xerr := xocsp.ParseResponse(m, s.issuer.std)
	xs := "accepts"
	if xerr != nil {
		xs = "rejects: " + xerr.Error()
	}
	if v.ok {
		// still a properly signed message (e.g. an ignored extra certificate, the issuer's own certificate embedded)
		c.Count("tampered_accepted_but_independently_valid:"+kind, 1)
		return
	}
	same := bytes.Equal(zr.TBSResponseData, s.z.TBSResponseData) && bytes.Equal(zr.Signature, s.z.Signature) && zr.SignatureAlgorithm == s.z.SignatureAlgorithm &&
		(zr.Certificate == nil) == (s.z.Certificate == nil) && (zr.Certificate == nil || bytes.Equal(zr.Certificate.Raw, s.z.Certificate.Raw))
	if v.structural && same {
		// the mutation is outside everything a signature covers and the reader of the oracle is stricter about the wrapper than zcrypto
		c.Count("lenient_unsigned_wrapper_mutation_accepted:"+kind, 1)
		return
	}
	in := detail()
	in["mutated"] = core.FullHex(m)
	in["seed"] = core.FullHex(s.der)
	in["issuer_cert"] = core.FullHex(s.issuer.der)
	c.Violation("tamper:accepted:"+kind,
		fmt.Sprintf("ParseResponse(tampered, issuer) returned no error; independent verifier: %s (structural=%v); golang.org/x/crypto/ocsp %s; seed %s", v.reason, v.structural, xs, s.name),
		caseID, in)
}

func (e *c13env) tamper() {
	c, r := e.c, e.r
	// seeds: CreateResponse outputs and independent-writer outputs, mostly P-256 (short), some P-384 / P-521 / RSA
	var seeds []*seed
	add := func(name string, is *c13issuer, der []byte, spec *ocspSpec, signer *party, certs [][]byte) *seed {
		s, why := e.mkSeed(name, is, der)
		if s == nil {
			c.Violation("harness:seed-not-accepted", name+": "+why, "", map[string]any{"response": core.FullHex(der)})
			return nil
		}
		s.spec, s.signer, s.certs = spec, signer, certs
		seeds = append(seeds, s)
		return s
	}
	mk := func(issuer, mode int) *seed {
		rc := e.genRT(r, issuer, mode, true)
		der, err, pi := e.create(rc)
		if err != nil || pi != nil {
			c.Violation("harness:seed-creation-failed", fmt.Sprint(err, pi), "", nil)
			return nil
		}
		return add(fmt.Sprintf("CreateResponse/%s/%s", e.issuers[issuer].label, modeNames[mode]), e.issuers[issuer], der, nil, rc.signer, nil)
	}
	mkIndep := func(issuer int, delegated, byKey bool) *seed {
		is := e.issuers[issuer]
		signer := is.party
		var certs [][]byte
		if delegated {
			signer = is.delegates[r.IntN(2)]
			certs = [][]byte{signer.der}
		}
		spec := &ocspSpec{producedAt: time.Date(2031, 5, 6, 7, 8, 9, 0, time.UTC), singles: []ocspSingle{e.randSingle(r, is, randPosSerial(r))}}
		if byKey {
			spec.responderKey = digestOf(crypto.SHA1, keyBits(signer))
		} else {
			spec.responderName = signer.name.der
		}
		return add(fmt.Sprintf("writer/%s/delegated=%v/byKey=%v", is.label, delegated, byKey), is, buildSigned(*spec, signer, certs), spec, signer, certs)
	}

	// --- exhaustive flips
	full := []*seed{mk(0, modeSelf), mkIndep(1, false, true)}
	if c.Shard%2 == 0 {
		full = append(full, mk(1, modeDelegatedEmbedded))
	} else {
		full = append(full, mkIndep(0, true, false))
	}
	if c.Thorough() {
		full = append(full, mk(2, modeSelf), mk(3, modeSelf), mk(4, modeSelf), mk(2, modeDelegatedEmbedded), mkIndep(3, true, true), mk(0, modeSelfEmbedded))
		for k := 0; k < 14; k++ {
			full = append(full, mk(r.IntN(2), []int{modeSelf, modeDelegatedEmbedded}[r.IntN(2)]))
		}
	}
	for si, s := range full {
		if s == nil {
			return
		}
		caseID := fmt.Sprintf("C13/s%d/%d/flipfull%d", c.Seed, c.Shard, si)
		for pos := range s.der {
			for bit := 0; bit < 8; bit++ {
				m := append([]byte(nil), s.der...)
				m[pos] ^= 1 << bit
				reg := s.region(pos)
				e.judge(s, m, "flip-in-"+reg, caseID, func() map[string]any { return map[string]any{"position": pos, "mask": 1 << bit, "region": reg} })
			}
			c.Count("flips_in_"+s.region(pos), 8)
		}
		c.NontrivialEnumerated(int64(8 * len(s.der)))
		c.Exhaustive("single-bit flips of a signed response (all positions × 8 bits)", int64(8*len(s.der)))
		c.Max("flipped_response_bytes", len(s.der))
	}
	// --- one mask per byte on a wider set of seeds
	var wide []*seed
	nw := c.Pick(10, 160)
	for k := 0; k < nw; k++ {
		issuer := r.IntN(len(e.issuers))
		switch r.IntN(4) {
		case 0:
			wide = append(wide, mk(issuer, modeSelf))
		case 1:
			wide = append(wide, mk(issuer, modeDelegatedEmbedded))
		case 2:
			wide = append(wide, mkIndep(issuer, r.IntN(2) == 0, r.IntN(2) == 0))
		default:
			m := modeSelfEmbedded
			if e.issuers[issuer].rsa != nil {
				m = modeSelf
			}
			wide = append(wide, mk(issuer, m))
		}
	}
	for si, s := range wide {
		if s == nil {
			return
		}
		caseID := fmt.Sprintf("C13/s%d/%d/flipbyte%d", c.Seed, c.Shard, si)
		for pos := range s.der {
			mask := byte(1 + r.IntN(255))
			m := append([]byte(nil), s.der...)
			m[pos] ^= mask
			reg := s.region(pos)
			e.judge(s, m, "flip-in-"+reg, caseID, func() map[string]any { return map[string]any{"position": pos, "mask": int(mask), "region": reg} })
			c.Count("flips_in_"+reg, 1)
		}
		c.NontrivialEnumerated(int64(len(s.der)))
		c.Exhaustive("every byte of a signed response changed once", int64(len(s.der)))
	}
	// --- structural mutations
	all := append(append([]*seed{}, full...), wide...)
	nm := c.PerShard(c.Pick(16000, 500000))
	for i := 0; i < nm; i++ {
		s := all[r.IntN(len(all))]
		o := all[r.IntN(len(all))]
		caseID := fmt.Sprintf("C13/s%d/%d/mut%d", c.Seed, c.Shard, i)
		kind, m := e.mutate(r, s, o)
		if m == nil || bytes.Equal(m, s.der) {
			c.Count("mutation_not_applicable", 1)
			continue
		}
		e.judge(s, m, kind, caseID, func() map[string]any { return map[string]any{"mutation": kind} })
		c.Count("mut_"+kind, 1)
		c.Nontrivial("mut", s.der, m)
	}
	if c.WantSample() && len(seeds) > 0 {
		c.Sample(map[string]any{"leg": "flip", "seed": seeds[0].name, "bytes": len(seeds[0].der), "response": core.Hex(seeds[0].der)})
	}
}

func fulls(ns []*node) [][]byte {
	var out [][]byte
	for _, n := range ns {
		out = append(out, n.full)
	}
	return out
}

// lenNonMinimal re-encodes the header of one element with a length in long form that is one octet longer than needed.
func lenNonMinimal(n *node) []byte {
	l := len(n.content)
	var hdr []byte
	switch {
	case l < 0x80:
		hdr = []byte{n.full[0], 0x81, byte(l)}
	case l < 0x100:
		hdr = []byte{n.full[0], 0x82, 0, byte(l)}
	default:
		hdr = []byte{n.full[0], 0x83, 0, byte(l >> 8), byte(l)}
	}
	return append(hdr, n.content...)
}

// mutate builds one structural mutation of s (o is another seed to borrow parts from).
func (e *c13env) mutate(r *rand.Rand, s, o *seed) (string, []byte) {
	p := s.parts
	tbs, alg, sig, certs := p.tbs.full, p.sigAlg.full, p.sigBits.full, fulls(p.certs)
	sigBytes := p.sigBits.content[1:]
	is := s.issuer
	switch r.IntN(23) {
	case 20, 21:
		// the whole signed part re-signed by a key whose certificate only *names* a trusted party
		ip := is.impostors[r.IntN(len(is.impostors))]
		sk := ip.signKey()
		kind := "resigned-by-" + ip.label[:len(ip.label)-len(is.label)+len("issuer-")-1]
		cs := [][]byte{ip.der}
		if r.IntN(3) == 0 { // … with the genuine issuer / responder certificate trailing behind
			cs = append(cs, is.der)
			kind += "+genuine-cert-second"
		}
		return kind, assembleOCSP(tbs, sk.algID(), dBitString(sk.sign(tbs)), cs)
	case 22:
		// issuer's own certificate embedded, then edited outside subject and key (validity, extensions, signature)
		if len(certs) != 0 || is.rsa != nil {
			return "", nil
		}
		c0 := append([]byte{}, is.der...)
		cn, err := readAll(c0)
		if err != nil {
			return "", nil
		}
		k, _ := cn.children()
		kt, _ := k[0].children()
		targets := []*node{kt[4], kt[len(kt)-1], k[2]} // validity, extensions, signature value
		t := targets[r.IntN(len(targets))]
		c0[t.off+t.hdrLen+r.IntN(len(t.content))] ^= byte(1 << r.IntN(8))
		return "issuer-certificate-embedded-and-edited", assembleOCSP(tbs, alg, sig, [][]byte{c0})
	case 0:
		return "signature-with-trailing-bytes", assembleOCSP(tbs, alg, dBitString(append(append([]byte{}, sigBytes...), randBytes(r, 1+r.IntN(4))...)), certs)
	case 1:
		if o.issuer != s.issuer || bytes.Equal(o.parts.sigBits.full, sig) {
			return "", nil
		}
		return "signature-from-another-response", assembleOCSP(tbs, alg, o.parts.sigBits.full, certs)
	case 2:
		if o.issuer != s.issuer || bytes.Equal(o.parts.tbs.full, tbs) {
			return "", nil
		}
		return "tbs-from-another-response", assembleOCSP(o.parts.tbs.full, alg, sig, certs)
	case 3:
		a, ok := sigAlgOf(p.sigAlg)
		if !ok {
			return "", nil
		}
		hs := []crypto.Hash{crypto.SHA1, crypto.SHA256, crypto.SHA384, crypto.SHA512}
		h := hs[(r.IntN(3)+1+indexOfHash(hs, a.hash))%4]
		var na []byte
		if a.rsa {
			na = dSeq(dOID(1, 2, 840, 113549, 1, 1, map[crypto.Hash]int{crypto.SHA1: 5, crypto.SHA256: 11, crypto.SHA384: 12, crypto.SHA512: 13}[h]), dNull())
		} else {
			na = dSeq(dOID(ecdsaSigOID(h)...))
		}
		return "signature-algorithm-swapped", assembleOCSP(tbs, na, sig, certs)
	case 4:
		if len(certs) == 0 || s.signer == nil || s.signer == is.party {
			return "", nil
		}
		return "embedded-certificate-dropped", assembleOCSP(tbs, alg, sig, nil)
	case 5:
		if len(certs) == 0 || s.signer == nil || s.signer == is.party {
			return "", nil
		}
		for _, d := range is.delegates {
			if d != s.signer {
				return "embedded-certificate-replaced-by-other-responder", assembleOCSP(tbs, alg, sig, [][]byte{d.der})
			}
		}
		return "", nil
	case 6:
		if len(certs) == 0 || s.signer != is.delegates[0] {
			return "", nil
		}
		return "embedded-certificate-replaced-by-other-ca-twin", assembleOCSP(tbs, alg, sig, [][]byte{is.rogue.der})
	case 7:
		if len(certs) != 0 {
			return "", nil
		}
		return "issuer-certificate-embedded", assembleOCSP(tbs, alg, sig, [][]byte{is.der})
	case 8:
		if len(certs) != 0 {
			return "", nil
		}
		return "unrelated-responder-certificate-embedded", assembleOCSP(tbs, alg, sig, [][]byte{is.delegates[r.IntN(2)].der})
	case 9:
		if len(certs) == 0 {
			return "", nil
		}
		return "second-certificate-appended", assembleOCSP(tbs, alg, sig, append(append([][]byte{}, certs...), e.other.der))
	case 10:
		if len(certs) == 0 {
			return "", nil
		}
		return "certificate-prepended", assembleOCSP(tbs, alg, sig, append([][]byte{e.other.der}, certs...))
	case 11:
		if s.spec == nil {
			return "", nil
		}
		ns := *s.spec
		ns.singles = append([]ocspSingle{}, s.spec.singles...)
		x := ns.singles[0]
		kind := ""
		switch r.IntN(5) {
		case 0:
			x.serial = new(big.Int).Add(x.serial, big.NewInt(1))
			kind = "serial"
		case 1:
			x.status = (x.status + 1 + r.IntN(2)) % 3
			if x.status == 1 {
				x.revokedAt = x.thisUpdate
			}
			kind = "status"
		case 2:
			x.thisUpdate = x.thisUpdate.Add(time.Second)
			kind = "thisUpdate"
		case 3:
			if x.nextUpdate.IsZero() {
				x.nextUpdate = x.thisUpdate.Add(time.Hour)
			} else {
				x.nextUpdate = time.Time{}
			}
			kind = "nextUpdate"
		default:
			ns.producedAt = ns.producedAt.Add(time.Minute)
			kind = "producedAt"
		}
		ns.singles[0] = x
		return "tbs-field-re-encoded:" + kind, assembleOCSP(ns.tbs(), alg, sig, certs)
	case 12:
		return "tbs-length-non-minimal", assembleOCSP(lenNonMinimal(p.tbs), alg, sig, certs)
	case 13:
		a, ok := sigAlgOf(p.sigAlg)
		if !ok || a.rsa {
			return "", nil
		}
		sn, err := readAll(sigBytes)
		if err != nil {
			return "", nil
		}
		k, err := sn.children()
		if err != nil || len(k) != 2 {
			return "", nil
		}
		which := r.IntN(2)
		padded := tlv(0x02, append([]byte{0}, k[which].content...))
		var ns []byte
		if which == 0 {
			ns = dSeq(padded, k[1].full)
		} else {
			ns = dSeq(k[0].full, padded)
		}
		return "ecdsa-signature-integer-zero-padded", assembleOCSP(tbs, alg, dBitString(ns), certs)
	case 14:
		nb := append([]byte{byte(1 + r.IntN(7))}, sigBytes...)
		nb[len(nb)-1] &^= byte(1<<nb[0]) - 1
		return "signature-bit-string-unused-bits", assembleOCSP(tbs, alg, tlv(0x03, nb), certs)
	case 15:
		return "trailing-bytes-after-response", append(append([]byte{}, s.der...), randBytes(r, 1+r.IntN(4))...)
	case 16:
		m := append([]byte{}, s.der...)
		for k := 2 + r.IntN(3); k > 0; k-- {
			m[r.IntN(len(m))] ^= byte(1 + r.IntN(255))
		}
		return "several-bytes-changed", m
	case 17:
		m := append([]byte{}, s.der...)
		a := r.IntN(len(m))
		b := a + 1 + r.IntN(8)
		if b > len(m) {
			b = len(m)
		}
		if r.IntN(2) == 0 {
			return "bytes-deleted", append(m[:a:a], m[b:]...)
		}
		return "bytes-duplicated", append(append(append([]byte{}, m[:b]...), m[a:b]...), m[b:]...)
	case 18:
		a, ok := sigAlgOf(p.sigAlg)
		if !ok || a.rsa {
			return "", nil
		}
		// zero out the signature: r = s = 0 / 1
		v := int64(r.IntN(2))
		return "ecdsa-signature-trivial-values", assembleOCSP(tbs, alg, dBitString(dSeq(dInt64(v), dInt64(v))), certs)
	default:
		if len(certs) == 0 {
			return "", nil
		}
		c0 := append([]byte{}, certs[0]...)
		c0[r.IntN(len(c0))] ^= byte(1 << r.IntN(8))
		return "embedded-certificate-bit-flipped", assembleOCSP(tbs, alg, sig, append([][]byte{c0}, certs[1:]...))
	}
}

func indexOfHash(hs []crypto.Hash, h crypto.Hash) int {
	for i, x := range hs {
		if x == h {
			return i
		}
	}
	return 0
}
