package revoceng

// Independent OCSP encoder (RFC 6960 §4.2.1) and independent signature oracle.
//
//   OCSPResponse      ::= SEQUENCE { responseStatus ENUMERATED, responseBytes [0] EXPLICIT SEQUENCE { OID id-pkix-ocsp-basic, OCTET STRING } }
//   BasicOCSPResponse ::= SEQUENCE { tbsResponseData, signatureAlgorithm, signature BIT STRING, certs [0] EXPLICIT SEQUENCE OF Certificate OPTIONAL }
//   ResponseData      ::= SEQUENCE { version [0] DEFAULT v1, responderID ([1] EXPLICIT Name | [2] EXPLICIT OCTET STRING), producedAt, SEQUENCE OF SingleResponse, … }
//   SingleResponse    ::= SEQUENCE { CertID, certStatus ([0] IMPLICIT NULL | [1] IMPLICIT RevokedInfo | [2] IMPLICIT NULL), thisUpdate, nextUpdate [0] EXPLICIT OPTIONAL, … }
//
// The oracle (verifyOCSP) locates tbsResponseData / signatureAlgorithm / signature / certs[0] with the
// lenient reader of der.go and verifies with crypto/ecdsa and crypto/rsa; it shares no code with zcrypto.

import (
	"crypto"
	"crypto/ecdsa"
	stdrsa "crypto/rsa"
	stdx509 "crypto/x509"
	"fmt"
	"math/big"
	"time"
)

var oidOCSPBasic = []int{1, 3, 6, 1, 5, 5, 7, 48, 1, 1}

func hashOID(h crypto.Hash) []int {
	switch h {
	case crypto.SHA1:
		return []int{1, 3, 14, 3, 2, 26}
	case crypto.SHA256:
		return []int{2, 16, 840, 1, 101, 3, 4, 2, 1}
	case crypto.SHA384:
		return []int{2, 16, 840, 1, 101, 3, 4, 2, 2}
	case crypto.SHA512:
		return []int{2, 16, 840, 1, 101, 3, 4, 2, 3}
	}
	panic("hash")
}

type ocspSingle struct {
	hash       crypto.Hash
	nameHash   []byte
	keyHash    []byte
	serial     *big.Int
	status     int // 0 good, 1 revoked, 2 unknown
	revokedAt  time.Time
	reason     int // -1 absent
	thisUpdate time.Time
	nextUpdate time.Time // zero = absent
}

func (s ocspSingle) der() []byte {
	certID := dSeq(dSeq(dOID(hashOID(s.hash)...), dNull()), dOctet(s.nameHash), dOctet(s.keyHash), dInt(s.serial))
	var st []byte
	switch s.status {
	case 0:
		st = dCtxPrim(0, nil)
	case 2:
		st = dCtxPrim(2, nil)
	default:
		p := [][]byte{dGenTime(s.revokedAt)}
		if s.reason >= 0 {
			p = append(p, dCtx(0, dEnum(int64(s.reason))))
		}
		st = dCtx(1, p...)
	}
	parts := [][]byte{certID, st, dGenTime(s.thisUpdate)}
	if !s.nextUpdate.IsZero() {
		parts = append(parts, dCtx(0, dGenTime(s.nextUpdate)))
	}
	return dSeq(parts...)
}

type ocspSpec struct {
	responderName []byte // name DER; nil = by key hash
	responderKey  []byte // SHA-1 of the responder key bits
	producedAt    time.Time
	singles       []ocspSingle
}

func (o ocspSpec) tbs() []byte {
	var rid []byte
	if o.responderName != nil {
		rid = dCtx(1, o.responderName)
	} else {
		rid = dCtx(2, dOctet(o.responderKey))
	}
	var ss [][]byte
	for _, s := range o.singles {
		ss = append(ss, s.der())
	}
	return dSeq(rid, dGenTime(o.producedAt), dSeq(ss...))
}

// assembleOCSP wraps the four parts of a BasicOCSPResponse into a successful OCSPResponse.
// sigBits is the complete BIT STRING element; certs are complete Certificate elements.
func assembleOCSP(tbs, sigAlg, sigBits []byte, certs [][]byte) []byte {
	parts := [][]byte{tbs, sigAlg, sigBits}
	if len(certs) > 0 {
		parts = append(parts, dCtx(0, dSeq(certs...)))
	}
	basic := dSeq(parts...)
	return dSeq(dEnum(0), dCtx(0, dSeq(dOID(oidOCSPBasic...), dOctet(basic))))
}

// ocspParts are the signed regions of a response as located by the independent reader.
type ocspParts struct {
	tbs, sigAlg, sigBits *node
	certs                []*node
	basicOff             int  // offset of the BasicOCSPResponse inside the whole response
	tailPresent          bool // bytes follow the signature that the reader could not understand as certs
}

// explicitHeaderLen returns the size of the identifier+length octets at b[0:] if the identifier is id, without
// validating the length value; 0 if b does not start with such a header.
func explicitHeaderLen(b []byte, id byte) int {
	if len(b) < 2 || b[0] != id {
		return 0
	}
	if b[1]&0x80 == 0 {
		return 2
	}
	k := int(b[1] & 0x7f)
	if k == 0 || k > 4 || 2+k > len(b) {
		return 0
	}
	return 2 + k
}

// splitOCSP delimits the parts of a successful response. Like Go's ASN.1 decoders (and zcrypto's fork of them) it
// ignores surplus elements at the end of a SEQUENCE and treats a fourth BasicOCSPResponse element that is not a
// well-formed [0] { SEQUENCE OF } as "no certificates": none of that is covered by a signature.
func splitOCSP(resp []byte) (*ocspParts, error) {
	root, _, err := readTLV(resp, 0)
	if err != nil {
		return nil, err
	}
	if !root.is(0, 16) || !root.constructed {
		return nil, fmt.Errorf("outer element is not a SEQUENCE")
	}
	k, err := root.children()
	if err != nil || len(k) < 2 {
		return nil, fmt.Errorf("outer sequence: want status and responseBytes")
	}
	if !k[0].is(0, 10) || len(k[0].content) != 1 || k[0].content[0] != 0 {
		return nil, fmt.Errorf("response status is not successful")
	}
	if !k[1].is(2, 0) || !k[1].constructed {
		return nil, fmt.Errorf("responseBytes is not [0]")
	}
	k2, err := k[1].children()
	if err != nil || len(k2) < 1 || !k2[0].is(0, 16) {
		return nil, fmt.Errorf("responseBytes content")
	}
	k3, err := k2[0].children()
	if err != nil || len(k3) < 2 || !k3[0].is(0, 6) || !k3[1].is(0, 4) || k3[1].constructed {
		return nil, fmt.Errorf("ResponseBytes fields")
	}
	if !oidEqual(k3[0].content, oidOCSPBasic...) {
		return nil, fmt.Errorf("response type is not basic")
	}
	basicOff := k3[1].off + k3[1].hdrLen
	b, _, err := readTLV(k3[1].content, basicOff)
	if err != nil || !b.is(0, 16) {
		return nil, fmt.Errorf("BasicOCSPResponse framing")
	}
	// only the first three elements have to be delimitable
	var kb []*node
	rest, base := b.content, b.off+b.hdrLen
	for len(rest) > 0 && len(kb) < 3 {
		n, r2, err := readTLV(rest, base)
		if err != nil {
			break
		}
		kb = append(kb, n)
		base += len(n.full)
		rest = r2
	}
	if len(kb) < 3 {
		return nil, fmt.Errorf("BasicOCSPResponse fields")
	}
	p := &ocspParts{tbs: kb[0], sigAlg: kb[1], sigBits: kb[2], basicOff: basicOff}
	if !p.tbs.is(0, 16) || !p.sigAlg.is(0, 16) || !p.sigBits.is(0, 3) || p.sigBits.constructed {
		return nil, fmt.Errorf("BasicOCSPResponse field types")
	}
	if len(rest) > 0 {
		// certs [0] EXPLICIT: Go-style decoders do not check the length of an explicit wrapper against its
		// content, so only the identifier octet is looked at and the inner SEQUENCE OF is delimited on its own.
		p.tailPresent = true
		if h := explicitHeaderLen(rest, 0xa0); h > 0 {
			if c, _, err := readTLV(rest[h:], base+h); err == nil && c.is(0, 16) {
				p.tailPresent = false
				r3, b3 := c.content, c.off+c.hdrLen
				for len(r3) > 0 {
					n, r4, err := readTLV(r3, b3)
					if err != nil {
						break
					}
					p.certs = append(p.certs, n)
					b3 += len(n.full)
					r3 = r4
				}
			}
		}
	}
	return p, nil
}

type sigAlgInfo struct {
	hash crypto.Hash
	rsa  bool
	sha1 bool
}

func sigAlgOf(algID *node) (sigAlgInfo, bool) {
	k, err := algID.children()
	if err != nil || len(k) == 0 || !k[0].is(0, 6) {
		return sigAlgInfo{}, false
	}
	for _, h := range []crypto.Hash{crypto.SHA1, crypto.SHA256, crypto.SHA384, crypto.SHA512} {
		if oidEqual(k[0].content, ecdsaSigOID(h)...) {
			return sigAlgInfo{hash: h, sha1: h == crypto.SHA1}, true
		}
	}
	rsaOIDs := map[crypto.Hash]int{crypto.SHA1: 5, crypto.SHA256: 11, crypto.SHA384: 12, crypto.SHA512: 13}
	for h, last := range rsaOIDs {
		if oidEqual(k[0].content, 1, 2, 840, 113549, 1, 1, last) {
			return sigAlgInfo{hash: h, rsa: true, sha1: h == crypto.SHA1}, true
		}
	}
	return sigAlgInfo{}, false
}

func bitStringBytes(n *node) ([]byte, bool) {
	if len(n.content) < 1 || n.content[0] != 0 {
		return nil, false
	}
	return n.content[1:], true
}

func verifyRaw(pub any, alg sigAlgInfo, signed, sig []byte) bool {
	d := digestOf(alg.hash, signed)
	switch k := pub.(type) {
	case *ecdsa.PublicKey:
		return !alg.rsa && ecdsa.VerifyASN1(k, d, sig)
	case *stdrsa.PublicKey:
		return alg.rsa && stdrsa.VerifyPKCS1v15(k, alg.hash, d, sig) == nil
	}
	return false
}

// ocspVerdict is what the independent oracle says about a response.
type ocspVerdict struct {
	ok         bool   // the response signature verifies under the issuer key, directly or through an embedded certificate signed by that key
	direct     bool   // … directly
	structural bool   // the reader could not delimit the signed regions (nothing was verified)
	reason     string // why not ok
	usesSHA1   bool   // some signature involved is SHA-1 based (Go's crypto/x509 refuses those)
}

// certVouched reports whether the embedded certificate c is signed by issuerPub, and returns its public key.
func certVouched(c *node, issuerPub any) (key any, sha1 bool, why string) {
	kc, err := c.children()
	if err != nil || !c.is(0, 16) || len(kc) < 3 || !kc[0].is(0, 16) || !kc[2].is(0, 3) {
		return nil, false, "embedded certificate framing"
	}
	kt, err := kc[0].children()
	if err != nil {
		return nil, false, "embedded tbsCertificate framing"
	}
	idx := 5
	if len(kt) > 0 && kt[0].is(2, 0) {
		idx = 6
	}
	if len(kt) <= idx {
		return nil, false, "embedded tbsCertificate too short"
	}
	csig, ok := bitStringBytes(kc[2])
	if !ok {
		return nil, false, "certificate signature has unused bits"
	}
	// The algorithm identifier appears twice: outside (unsigned) and inside the tbsCertificate (signed). RFC 5280 wants
	// them equal; zcrypto uses the signed one. The certificate counts as vouched for if its signature verifies under
	// either identifier.
	var calg sigAlgInfo
	vouched := false
	for _, a := range []*node{kc[1], kt[idx-4]} {
		if x, ok := sigAlgOf(a); ok && verifyRaw(issuerPub, x, kc[0].full, csig) {
			calg, vouched = x, true
			break
		}
	}
	if !vouched {
		return nil, false, "embedded certificate is not signed by the issuer"
	}
	key, err = stdx509.ParsePKIXPublicKey(kt[idx].full)
	if err != nil {
		return nil, calg.sha1, "embedded certificate key: " + err.Error()
	}
	return key, calg.sha1, ""
}

// verifyOCSP decides independently, and under the most permissive reading of the statement, whether resp
// is signed by issuerPub: directly, or through any embedded certificate that is itself signed by issuerPub.
func verifyOCSP(resp []byte, issuerPub any) ocspVerdict {
	p, err := splitOCSP(resp)
	if err != nil {
		return ocspVerdict{structural: true, reason: err.Error()}
	}
	alg, ok := sigAlgOf(p.sigAlg)
	if !ok {
		return ocspVerdict{reason: "unknown response signature algorithm"}
	}
	sig, ok := bitStringBytes(p.sigBits)
	if !ok {
		return ocspVerdict{reason: "signature bit string has unused bits"}
	}
	v := ocspVerdict{usesSHA1: alg.sha1}
	if verifyRaw(issuerPub, alg, p.tbs.full, sig) {
		v.ok, v.direct = true, true
		return v
	}
	v.reason = "response signature does not verify under the issuer key"
	for i, c := range p.certs {
		key, sha1, why := certVouched(c, issuerPub)
		if key == nil {
			v.reason += fmt.Sprintf("; certificate %d: %s", i, why)
			continue
		}
		if verifyRaw(key, alg, p.tbs.full, sig) {
			v.ok = true
			v.usesSHA1 = v.usesSHA1 || sha1
			v.reason = ""
			return v
		}
		v.reason += fmt.Sprintf("; certificate %d is signed by the issuer but the response signature does not verify under its key", i)
	}
	if p.tailPresent {
		// something follows the signature that this reader cannot interpret as certificates while zcrypto might
		v.structural = true
		v.reason += "; bytes after the signature are not a readable certs field"
	}
	return v
}
