package revoceng

// C15 — browser revocation sets parse faithfully and decide membership exactly.
//
// Small models of the three set kinds are encoded by the harness's own encoders
// (formats below), parsed by zcrypto and queried with certificates built by the
// independent DER writer. Expected parse contents and Check answers come from
// the model.
//
// CRLSet (Chromium, crlset-tools):  uint16-LE header length | JSON header
//   {"Version":0,"ContentType":"CRLSet","Sequence":n,"DeltaFrom":0,"NumParents":k,"BlockedSPKIs":[…],…} |
//   k × ( 32-byte SHA-256 of the issuer SPKI | uint32-LE number of serials | serials × ( uint8 length | big-endian bytes ) ).
// OneCRL (Kinto records):  {"data":[ {"id","schema"(ms),"last_modified"(ms),"enabled","details":{who,why,name,bug,created},
//   and either "issuerName"(std base64 of the DER Name)+"serialNumber"(std base64 of the serial bytes)
//   or "subject"(std base64 DER Name)+"pubKeyHash"(std base64 SHA-256 of the DER SPKI)} … ]}.
// SST (MS-OSHARED serialized certificate store, as described in microsoft.go):  uint32-LE version 0 | "CERT" |
//   elements ( uint32-LE id | uint32-LE encoding type 1 | uint32-LE length | value ), id 32 = certificate, other ids =
//   properties attached to the next certificate | end marker: uint32 id 0 + uint64 0.

import (
	"bytes"
	"crypto/sha256"
	"encoding/base64"
	"encoding/binary"
	"encoding/hex"
	"encoding/json"
	"fmt"
	"math/big"
	"math/rand/v2"
	"strings"
	"time"

	zx509 "github.com/zmap/zcrypto/x509"
	"github.com/zmap/zcrypto/x509/pkix"
	"github.com/zmap/zcrypto/x509/revocation/google"
	"github.com/zmap/zcrypto/x509/revocation/microsoft"
	"github.com/zmap/zcrypto/x509/revocation/mozilla"

	"verifharness/internal/core"
	"verifharness/internal/keys"
)

func init() {
	core.RegisterMeta("C15", core.Meta{
		Rule: "models of CRLSets (sequence, parents, 0–4 blocked-SPKI strings, 0–6 distinct issuer hashes with 0–40 serials of 0–20 bytes incl. empty and leading zeros), " +
			"OneCRL documents (0–12 records: issuer+serial or subject+pubKeyHash, metadata) and SST stores (0–10 certificates with shared/distinct issuers, zero/negative/large serials, " +
			"interleaved property elements) encoded by the harness; each parsed set is compared with the model and queried with 6–9 certificates " +
			"(listed, same issuer other serial, other issuer same serial, blocked key/subject, blocked subject other key, unrelated) plus sign/width twins of a listed serial; " +
			"non-trivial = the set parsed and the query was decided; distinct = hash of (format, encoded set, query)",
		MinNontrivial:         25000,
		MinNontrivialThorough: 250000,
		Shards:                16,
		Assumptions: []string{
			"serials inside CRLSets and OneCRL records are unsigned big-endian integers; a certificate is listed iff its serial, as the integer zcrypto's parser reports (DER top bit set = negative), equals one of them; SST lists the signed serials of its certificates",
			"sign / width twins of listed serials (-s, s±256^k, dropped top byte, -128, 0, 20-byte ±2^160) must not be reported unless the model lists exactly that value; one exception is counted and not asserted: a negative certificate serial whose DER content octets equal a listed byte string (browsers match octets, zcrypto integers — either answer is accepted)",
			"CRLSet: the blocked-SPKI test applies to the hash string the caller passes (the API takes one hash argument); issuer lists are keyed by the lowercase hex of the 32-byte hash",
			"issuer names inside one model are pairwise distinct as attribute lists, so keying by Name.String() is unambiguous (twins that differ only by an escaped separator are included on purpose)",
			"OneCRL pubKeyHash = SHA-256 of the certificate's SubjectPublicKeyInfo DER (named-curve ECDSA and RSA keys from the fixed pool)",
			"entry metadata (id, enabled, schema, last_modified, details) is not named by the statement: mismatches are counted as soft_* counters, not asserted",
		},
	}, runC15)
}

type c15env struct {
	c      *core.Ctx
	r      *rand.Rand
	signer int
	names  []*dn // pool of pairwise distinct names
	spkis  [][]byte
	certs  map[string]*zx509.Certificate
}

func (e *c15env) cert(issuer, subject *dn, serial *big.Int, spki int) (*zx509.Certificate, error) {
	key := fmt.Sprintf("%x|%x|%s|%d", sha256.Sum256(issuer.der), sha256.Sum256(subject.der), serial, spki)
	if c, ok := e.certs[key]; ok {
		return c, nil
	}
	der := buildCert(certSpec{serial: serial, issuer: issuer.der, subject: subject.der, spki: e.spkis[spki]}, ecKeys("P256")[e.signer])
	c, err := zx509.ParseCertificate(der)
	if err != nil {
		return nil, fmt.Errorf("%v (cert %x)", err, der)
	}
	if len(e.certs) < 30000 {
		e.certs[key] = c
	}
	return c, nil
}

// certPadded builds a certificate whose serial INTEGER carries pad extra leading zero octets (not DER).
func (e *c15env) certPadded(issuer, subject *dn, serial *big.Int, pad, spki int) (*zx509.Certificate, error) {
	raw := append(make([]byte, pad), intContent(serial)...)
	der := buildCert(certSpec{serialRaw: raw, issuer: issuer.der, subject: subject.der, spki: e.spkis[spki]}, ecKeys("P256")[e.signer])
	return zx509.ParseCertificate(der)
}

func newC15env(c *core.Ctx) *c15env {
	e := &c15env{c: c, r: c.Rng, certs: map[string]*zx509.Certificate{}, signer: c.Shard % 4}
	r := e.r
	// name pool: unique tokens, plus separator twins
	for i := 0; i < 14; i++ {
		e.names = append(e.names, randomDN(r, fmt.Sprintf("Name%d-%d", c.Shard, i)))
	}
	// twin pair: [O=Y][CN=X]  vs  [CN="X, O=Y"] — equal only if escaping were dropped
	tw1 := &dn{rdns: [][]nameAttr{{{oidO, tagUTF8, "Twin Org"}}, {{oidCN, tagUTF8, "Twin"}}}}
	tw2 := &dn{rdns: [][]nameAttr{{{oidCN, tagUTF8, "Twin, O=Twin Org"}}}}
	tw1.encode()
	tw2.encode()
	// same attributes, opposite order
	ro1 := &dn{rdns: [][]nameAttr{{{oidC, tagPrintable, "US"}}, {{oidO, tagPrintable, "Order"}}, {{oidCN, tagPrintable, "Order CA"}}}}
	ro2 := &dn{rdns: [][]nameAttr{{{oidCN, tagPrintable, "Order CA"}}, {{oidO, tagPrintable, "Order"}}, {{oidC, tagPrintable, "US"}}}}
	ro1.encode()
	ro2.encode()
	e.names = append(e.names, tw1, tw2, ro1, ro2)
	p := keys.Get()
	for _, k := range p.EC {
		e.spkis = append(e.spkis, spkiOf(&k.Priv.PublicKey))
	}
	for _, k := range p.RSAByBits(2048, 2)[:2] {
		e.spkis = append(e.spkis, spkiOf(&k.Std().PublicKey))
	}
	e.spkis = append(e.spkis, spkiOf(&p.RSAByBits(1024, 2)[0].Std().PublicKey))
	return e
}

func randBytes(r *rand.Rand, n int) []byte {
	b := make([]byte, n)
	for i := range b {
		b[i] = byte(r.UintN(256))
	}
	return b
}

// posSerial: a non-negative serial as raw big-endian bytes (possibly empty / with leading zeros).
func rawSerial(r *rand.Rand) []byte {
	switch r.IntN(10) {
	case 0:
		return nil
	case 1:
		return []byte{0}
	case 2:
		return append([]byte{0}, randBytes(r, 1+r.IntN(8))...)
	case 3:
		return append([]byte{0, 0}, randBytes(r, 1+r.IntN(4))...)
	case 4:
		return randBytes(r, 20)
	case 5:
		b := randBytes(r, 1+r.IntN(3))
		b[0] |= 0x80
		return b
	default:
		return randBytes(r, 1+r.IntN(16))
	}
}

func ub(b []byte) *big.Int { return new(big.Int).SetBytes(b) }

func runC15(c *core.Ctx) {
	e := newC15env(c)
	n := c.PerShard(c.Pick(2400, 36000))
	for i := 0; i < n; i++ {
		id := fmt.Sprintf("C15/s%d/%d/%d", c.Seed, c.Shard, i)
		runCRLSet(e, id+"/crlset")
		runOneCRL(e, id+"/onecrl")
		runSST(e, id+"/sst")
	}
}

// ---- CRLSet -----------------------------------------------------------------

type crlsetIssuer struct {
	hash    [32]byte
	serials [][]byte
}

type crlsetModel struct {
	version    string
	sequence   int
	numParents int
	blocked    []string
	issuers    []crlsetIssuer
}

func (m *crlsetModel) encode() []byte {
	hdr := map[string]any{
		"Version": 0, "ContentType": "CRLSet", "Sequence": m.sequence, "DeltaFrom": 0, "NumParents": m.numParents,
		"BlockedSPKIs": m.blocked, "KnownInterceptionSPKIs": []string{}, "BlockedInterceptionSPKIs": []string{}, "NotAfter": 1700000000,
	}
	if m.blocked == nil {
		hdr["BlockedSPKIs"] = []string{}
	}
	hb, err := json.Marshal(hdr)
	if err != nil {
		panic(err)
	}
	var out bytes.Buffer
	binary.Write(&out, binary.LittleEndian, uint16(len(hb)))
	out.Write(hb)
	for _, is := range m.issuers {
		out.Write(is.hash[:])
		binary.Write(&out, binary.LittleEndian, uint32(len(is.serials)))
		for _, s := range is.serials {
			out.WriteByte(byte(len(s)))
			out.Write(s)
		}
	}
	return out.Bytes()
}

func (m *crlsetModel) revoked(h string, serial *big.Int) bool {
	for _, b := range m.blocked {
		if b == h {
			return true
		}
	}
	for _, is := range m.issuers {
		if hex.EncodeToString(is.hash[:]) == h {
			for _, s := range is.serials {
				if ub(s).Cmp(serial) == 0 {
					return true
				}
			}
		}
	}
	return false
}

func runCRLSet(e *c15env, caseID string) {
	c, r := e.c, e.r
	m := &crlsetModel{version: fmt.Sprint(1000 + r.IntN(9000)), sequence: r.IntN(1 << 20)}
	var b64Raw [][]byte // raw hashes of the blocked entries written in base64
	for k := r.IntN(5); k > 0; k-- {
		raw := randBytes(r, 32)
		if r.IntN(2) == 0 {
			m.blocked = append(m.blocked, base64.StdEncoding.EncodeToString(raw)) // the form Chromium ships
			b64Raw = append(b64Raw, raw)
		} else {
			m.blocked = append(m.blocked, hex.EncodeToString(raw)) // the form IssuerLists is keyed by
		}
	}
	ni := r.IntN(7)
	for i := 0; i < ni; i++ {
		var is crlsetIssuer
		copy(is.hash[:], randBytes(r, 32))
		if i > 0 && r.IntN(4) == 0 { // near-twin of the previous hash: differs in the last byte only
			is.hash = m.issuers[i-1].hash
			is.hash[31] ^= byte(1 + r.IntN(255))
		}
		dup := false
		for _, o := range m.issuers { // the model has distinct issuer hashes (a twin of a twin can fall back on its grandparent)
			dup = dup || o.hash == is.hash
		}
		if dup {
			is.hash[0] ^= 0x55
			is.hash[1] = byte(i)
		}
		ns := r.IntN(41)
		if r.IntN(3) == 0 {
			ns = r.IntN(4)
		}
		for j := 0; j < ns; j++ {
			is.serials = append(is.serials, rawSerial(r))
		}
		m.issuers = append(m.issuers, is)
	}
	m.numParents = ni
	if r.IntN(5) == 0 {
		m.numParents = r.IntN(100)
	}
	enc := m.encode()
	input := func(extra map[string]any) map[string]any {
		o := map[string]any{"format": "crlset", "set": core.FullHex(enc), "version": m.version}
		for k, v := range extra {
			o[k] = v
		}
		return o
	}
	c.Eval(1)
	var set *google.CRLSet
	var err error
	if pi := core.Guard(func() { set, err = google.Parse(enc, m.version) }); pi != nil {
		c.Violation(pi.Key, "google.Parse panicked on a well-formed CRLSet\n"+pi.Stack, caseID, input(nil))
		return
	}
	if err != nil || set == nil {
		c.Violation("crlset:parse:well-formed-set-rejected", fmt.Sprint(err), caseID, input(nil))
		return
	}
	// fidelity
	fail := func(key, detail string) { c.Violation("crlset:parse:"+key, detail, caseID, input(nil)) }
	if set.Version != m.version || set.Sequence != m.sequence || set.NumParents != m.numParents {
		fail("header", fmt.Sprintf("got version=%q sequence=%d parents=%d want %q %d %d", set.Version, set.Sequence, set.NumParents, m.version, m.sequence, m.numParents))
		return
	}
	if strings.Join(set.BlockedSPKIs, "|") != strings.Join(m.blocked, "|") || len(set.BlockedSPKIs) != len(m.blocked) {
		fail("blocked-spkis", fmt.Sprintf("got %q want %q", set.BlockedSPKIs, m.blocked))
		return
	}
	if len(set.IssuerLists) != len(m.issuers) {
		fail("issuer-count", fmt.Sprintf("got %d issuer lists want %d", len(set.IssuerLists), len(m.issuers)))
		return
	}
	for _, is := range m.issuers {
		h := hex.EncodeToString(is.hash[:])
		l := set.IssuerLists[h]
		if l == nil {
			fail("issuer-missing", "no list for issuer hash "+h)
			return
		}
		if l.SPKIHash != h {
			fail("issuer-hash-field", fmt.Sprintf("list %s carries SPKIHash %s", h, l.SPKIHash))
			return
		}
		if len(l.Entries) != len(is.serials) {
			fail("serial-count", fmt.Sprintf("issuer %s: %d entries want %d", h, len(l.Entries), len(is.serials)))
			return
		}
		for j, s := range is.serials {
			if l.Entries[j] == nil || l.Entries[j].SerialNumber == nil || l.Entries[j].SerialNumber.Cmp(ub(s)) != 0 {
				fail("serial-value", fmt.Sprintf("issuer %s entry %d: got %v want %s (bytes %x)", h, j, l.Entries[j], ub(s), s))
				return
			}
		}
	}
	c.Count("crlset_parsed", 1)
	// queries
	type q struct {
		kind   string
		h      string
		serial *big.Int
		pad    int      // extra leading zero octets in the certificate's serial INTEGER
		listed [][]byte // serial bytes listed under h (for the content-octet reading)
	}
	var qs []q
	hexOf := func(i int) string { return hex.EncodeToString(m.issuers[i].hash[:]) }
	if ni > 0 {
		i := r.IntN(ni)
		if len(m.issuers[i].serials) > 0 {
			s := m.issuers[i].serials[r.IntN(len(m.issuers[i].serials))]
			qs = append(qs, q{kind: "listed", h: hexOf(i), serial: ub(s)})
			qs = append(qs, q{kind: "same-issuer-neighbour-serial", h: hexOf(i), serial: new(big.Int).Add(ub(s), big.NewInt(1))})
			j := r.IntN(ni)
			qs = append(qs, q{kind: "other-issuer-same-serial", h: hexOf(j), serial: ub(s)})
			qs = append(qs, q{kind: "unknown-issuer-listed-serial", h: hex.EncodeToString(randBytes(r, 32)), serial: ub(s)})
			last := m.issuers[i].serials[len(m.issuers[i].serials)-1]
			qs = append(qs, q{kind: "listed-last", h: hexOf(i), serial: ub(last)})
			// sign / width twins of a listed serial: none of them is the listed certificate
			for _, t := range serialTwins(ub(s)) {
				qs = append(qs, q{kind: "twin:" + t.kind, h: hexOf(i), serial: t.v, listed: m.issuers[i].serials})
			}
			qs = append(qs, q{kind: "listed-with-zero-padded-der-serial", h: hexOf(i), serial: ub(s), pad: 1 + r.IntN(2)})
			for _, l := range m.issuers[i].serials { // widest serials: 20 bytes listed = 20 or 21 content octets in the certificate
				if len(l) == 20 {
					qs = append(qs, q{kind: "listed-20-byte-serial", h: hexOf(i), serial: ub(l)})
					qs = append(qs, q{kind: "twin:20-byte-plus-2^160", h: hexOf(i), serial: new(big.Int).Add(ub(l), pow256(20)), listed: m.issuers[i].serials})
					qs = append(qs, q{kind: "twin:20-byte-minus-2^160", h: hexOf(i), serial: new(big.Int).Sub(ub(l), pow256(20)), listed: m.issuers[i].serials})
					break
				}
			}
		}
		qs = append(qs, q{kind: "same-issuer-other-serial", h: hexOf(i), serial: ub(randBytes(r, 1+r.IntN(12)))})
		qs = append(qs, q{kind: "issuer-zero-serial", h: hexOf(i), serial: big.NewInt(0)})
	}
	if len(m.blocked) > 0 {
		qs = append(qs, q{kind: "blocked-spki", h: m.blocked[r.IntN(len(m.blocked))], serial: ub(randBytes(r, 1+r.IntN(12)))})
	}
	qs = append(qs, q{kind: "unrelated", h: hex.EncodeToString(randBytes(r, 32)), serial: ub(randBytes(r, 1+r.IntN(12)))})
	if len(b64Raw) > 0 {
		// Other reading of "blocked SPKI" (not asserted): the header carries base64 strings, callers such as
		// zcrypto's verifier pass the lowercase hex of the parent's SPKI hash. Under the adopted reading the two
		// strings differ, so the model says "not blocked"; the disagreement with the hash-level reading is counted.
		qs = append(qs, q{kind: "blocked-spki-base64-entry-queried-by-hex", h: hex.EncodeToString(b64Raw[r.IntN(len(b64Raw))]), serial: ub(randBytes(r, 1+r.IntN(12)))})
	}
	for _, qu := range qs {
		var cert *zx509.Certificate
		var err error
		if qu.pad > 0 {
			if cert, err = e.certPadded(e.names[0], e.names[1], qu.serial, qu.pad, 4); err != nil {
				c.Count("padded_serial_certificate_refused_by_parser", 1)
				continue
			}
			qu.serial = cert.SerialNumber // whatever the parser made of it is the certificate's serial
		} else if cert, err = e.cert(e.names[0], e.names[1], qu.serial, 4); err != nil {
			c.Count("query_cert_unparsable", 1)
			continue
		}
		c.Eval(1)
		var got *google.Entry
		if pi := core.Guard(func() { got = set.Check(cert, qu.h) }); pi != nil {
			c.Violation(pi.Key, "CRLSet.Check panicked\n"+pi.Stack, caseID, input(map[string]any{"hash": qu.h, "serial": qu.serial.String()}))
			return
		}
		want := m.revoked(qu.h, qu.serial)
		if contentEqualsListed(qu.serial, qu.listed) {
			// negative certificate serial whose content octets are a listed byte string: revoked for a matcher on
			// octets (Chromium), not revoked for a matcher on integers; neither reading is asserted
			c.Count(fmt.Sprintf("ambiguous_negative_serial_content_equals_listed_bytes:crlset:reported=%v", got != nil), 1)
			continue
		}
		if (got != nil) != want {
			c.Violation(fmt.Sprintf("crlset:check:%s:want-revoked=%v", qu.kind, want),
				fmt.Sprintf("Check(serial %s, %q) = %v, the model says revoked=%v", qu.serial, qu.h, got, want), caseID,
				input(map[string]any{"hash": qu.h, "serial": qu.serial.String(), "cert": core.FullHex(cert.Raw)}))
			return
		}
		if got != nil && (got.SerialNumber == nil || got.SerialNumber.Cmp(qu.serial) != 0) {
			c.Count("soft_crlset_entry_serial_differs", 1)
		}
		c.Count("crlset_q_"+qu.kind, 1)
		if qu.kind == "blocked-spki-base64-entry-queried-by-hex" && got == nil {
			c.Count("other_reading_blocked_spki_hash_listed_in_base64_not_matched_by_hex_argument", 1)
		}
		if want {
			c.Count("crlset_revoked", 1)
		} else {
			c.Count("crlset_not_revoked", 1)
		}
		c.Nontrivial("crlset", enc, qu.h, qu.serial.String())
	}
	if c.WantSample() && ni > 0 && len(enc) < 400 {
		c.Sample(map[string]any{"format": "crlset", "set": core.Hex(enc), "issuers": ni, "blocked": len(m.blocked), "queries": len(qs)})
	}
}

// ---- OneCRL -----------------------------------------------------------------

type onecrlRecord struct {
	// issuer+serial form
	issuer int // index into env.names, -1 for the subject form
	serial []byte
	// subject+key form
	subject int
	spki    int
	// metadata
	id           string
	enabled      bool
	schema       int64
	lastModified int64
	who, why     string
	name, bug    string
	created      string
}

func (e *c15env) encodeOneCRL(recs []onecrlRecord) []byte {
	var data []map[string]any
	for _, rc := range recs {
		det := map[string]any{"who": rc.who, "why": rc.why, "name": rc.name, "bug": rc.bug}
		if rc.created != "" {
			det["created"] = rc.created
		}
		o := map[string]any{"id": rc.id, "enabled": rc.enabled, "schema": rc.schema, "last_modified": rc.lastModified, "details": det}
		if rc.issuer >= 0 {
			o["issuerName"] = base64.StdEncoding.EncodeToString(e.names[rc.issuer].der)
			o["serialNumber"] = base64.StdEncoding.EncodeToString(rc.serial)
		} else {
			o["subject"] = base64.StdEncoding.EncodeToString(e.names[rc.subject].der)
			h := sha256.Sum256(e.spkis[rc.spki])
			o["pubKeyHash"] = base64.StdEncoding.EncodeToString(h[:])
		}
		data = append(data, o)
	}
	if data == nil {
		data = []map[string]any{}
	}
	b, err := json.Marshal(map[string]any{"data": data})
	if err != nil {
		panic(err)
	}
	return b
}

func nameAttrs(n *pkix.Name) string {
	if n == nil {
		return "<nil>"
	}
	var got []string
	for _, a := range n.Names {
		got = append(got, a.Type.String()+"="+fmt.Sprint(a.Value))
	}
	return strings.Join(got, "|")
}

func runOneCRL(e *c15env, caseID string) {
	c, r := e.c, e.r
	nrec := r.IntN(13)
	// this model's issuer and subject sub-pools
	perm := r.Perm(len(e.names))
	issuers := perm[:1+r.IntN(4)]
	subjects := perm[5 : 5+1+r.IntN(3)]
	if r.IntN(4) == 0 { // use the twins as issuers together
		issuers = []int{14, 15, 16, 17}
	}
	var recs []onecrlRecord
	for i := 0; i < nrec; i++ {
		rc := onecrlRecord{issuer: -1, id: fmt.Sprintf("%08x-%04x-4000-8000-%012x", r.Uint32(), r.UintN(1<<16), r.Uint64N(1<<48)),
			enabled: r.IntN(4) != 0, schema: 1400000000000 + r.Int64N(300000000000), lastModified: 1400000000000 + r.Int64N(300000000000),
			who: []string{"", ".", "someone"}[r.IntN(3)], why: []string{"", "key compromise"}[r.IntN(2)], name: []string{"", "GlobalSign \"test\""}[r.IntN(2)],
			bug: fmt.Sprintf("https://bugzilla.mozilla.org/show_bug.cgi?id=%d", 1000000+r.IntN(900000))}
		if r.IntN(2) == 0 {
			rc.created = time.Unix(1400000000+r.Int64N(300000000), 0).UTC().Format(time.RFC3339)
		}
		if r.IntN(4) == 0 {
			rc.subject = subjects[r.IntN(len(subjects))]
			rc.spki = r.IntN(len(e.spkis))
		} else {
			rc.issuer = issuers[r.IntN(len(issuers))]
			rc.serial = rawSerial(r)
			if len(rc.serial) == 0 {
				rc.serial = []byte{0}
			}
			if len(recs) > 0 && r.IntN(6) == 0 && recs[len(recs)-1].issuer >= 0 { // same serial under another (or the same) issuer
				rc.serial = recs[len(recs)-1].serial
			}
		}
		recs = append(recs, rc)
	}
	enc := e.encodeOneCRL(recs)
	input := func(extra map[string]any) map[string]any {
		o := map[string]any{"format": "onecrl", "set": string(enc)}
		for k, v := range extra {
			o[k] = v
		}
		return o
	}
	c.Eval(1)
	var set *mozilla.OneCRL
	var err error
	if pi := core.Guard(func() { set, err = mozilla.Parse(enc) }); pi != nil {
		c.Violation(pi.Key, "mozilla.Parse panicked on a well-formed OneCRL document\n"+pi.Stack, caseID, input(nil))
		return
	}
	if err != nil || set == nil {
		c.Violation("onecrl:parse:well-formed-set-rejected", fmt.Sprint(err), caseID, input(nil))
		return
	}
	fail := func(key, detail string) { c.Violation("onecrl:parse:"+key, detail, caseID, input(nil)) }
	// model view
	byIssuer := map[int][]onecrlRecord{}
	var order []int
	var blocked []onecrlRecord
	for _, rc := range recs {
		if rc.issuer < 0 {
			blocked = append(blocked, rc)
			continue
		}
		if _, ok := byIssuer[rc.issuer]; !ok {
			order = append(order, rc.issuer)
		}
		byIssuer[rc.issuer] = append(byIssuer[rc.issuer], rc)
	}
	if len(set.IssuerLists) != len(order) {
		fail("issuer-count", fmt.Sprintf("got %d issuer lists want %d", len(set.IssuerLists), len(order)))
		return
	}
	matched := map[int]bool{}
	for key, l := range set.IssuerLists {
		if l == nil {
			fail("nil-list", key)
			return
		}
		got := nameAttrs(l.Issuer)
		idx := -1
		for _, i := range order {
			if strings.Join(e.names[i].flat(), "|") == got {
				idx = i
			}
		}
		if idx < 0 || matched[idx] {
			fail("issuer-name", fmt.Sprintf("list %q has issuer attributes %q which is not exactly one issuer of the document", key, got))
			return
		}
		matched[idx] = true
		want := byIssuer[idx]
		if len(l.Entries) != len(want) {
			fail("serial-count", fmt.Sprintf("issuer %q: %d entries want %d", key, len(l.Entries), len(want)))
			return
		}
		for j, w := range want {
			g := l.Entries[j]
			if g == nil || g.SerialNumber == nil || g.SerialNumber.Cmp(ub(w.serial)) != 0 {
				fail("serial-value", fmt.Sprintf("issuer %q entry %d: got %v want %s", key, j, g, ub(w.serial)))
				return
			}
			if nameAttrs(g.Issuer) != got {
				fail("entry-issuer", fmt.Sprintf("issuer %q entry %d carries issuer %q", key, j, nameAttrs(g.Issuer)))
				return
			}
			softMeta(c, g, w)
		}
	}
	if len(set.Blocked) != len(blocked) {
		fail("blocked-count", fmt.Sprintf("got %d blocked entries want %d", len(set.Blocked), len(blocked)))
		return
	}
	for j, w := range blocked {
		g := set.Blocked[j]
		h := sha256.Sum256(e.spkis[w.spki])
		if g == nil || !bytes.Equal(g.RawSubject, e.names[w.subject].der) || !bytes.Equal(g.PubKeyHash, h[:]) {
			fail("blocked-value", fmt.Sprintf("blocked entry %d: got %+v want subject %x hash %x", j, g, e.names[w.subject].der, h))
			return
		}
		if nameAttrs(g.Subject) != strings.Join(e.names[w.subject].flat(), "|") {
			fail("blocked-subject-name", fmt.Sprintf("blocked entry %d: subject attributes %q", j, nameAttrs(g.Subject)))
			return
		}
	}
	c.Count("onecrl_parsed", 1)

	revoked := func(issuer, subject int, serial *big.Int, spki int) bool {
		for _, b := range blocked {
			if b.subject == subject && bytes.Equal(e.spkis[b.spki], e.spkis[spki]) {
				return true
			}
		}
		for _, rc := range byIssuer[issuer] {
			if ub(rc.serial).Cmp(serial) == 0 {
				return true
			}
		}
		return false
	}
	type q struct {
		kind            string
		issuer, subject int
		serial          *big.Int
		spki            int
		pad             int
		listed          [][]byte
	}
	var qs []q
	freeSubject := perm[9]
	freeIssuer := perm[10]
	rs := func() *big.Int { return ub(randBytes(r, 1+r.IntN(12))) }
	if len(order) > 0 {
		i := order[r.IntN(len(order))]
		l := byIssuer[i]
		s := ub(l[r.IntN(len(l))].serial)
		qs = append(qs, q{"listed", i, freeSubject, s, r.IntN(len(e.spkis)), 0, nil})
		qs = append(qs, q{"listed-last", i, freeSubject, ub(l[len(l)-1].serial), r.IntN(len(e.spkis)), 0, nil})
		qs = append(qs, q{"same-issuer-other-serial", i, freeSubject, new(big.Int).Add(s, big.NewInt(1)), r.IntN(len(e.spkis)), 0, nil})
		qs = append(qs, q{"other-listed-issuer-same-serial", order[r.IntN(len(order))], freeSubject, s, r.IntN(len(e.spkis)), 0, nil})
		qs = append(qs, q{"unlisted-issuer-same-serial", freeIssuer, freeSubject, s, r.IntN(len(e.spkis)), 0, nil})
		qs = append(qs, q{"subject-is-listed-issuer", freeIssuer, i, s, r.IntN(len(e.spkis)), 0, nil})
		var listed [][]byte
		for _, rc := range l {
			listed = append(listed, rc.serial)
		}
		for _, t := range serialTwins(s) {
			qs = append(qs, q{"twin:" + t.kind, i, freeSubject, t.v, r.IntN(len(e.spkis)), 0, listed})
		}
		qs = append(qs, q{"listed-with-zero-padded-der-serial", i, freeSubject, s, r.IntN(len(e.spkis)), 1 + r.IntN(2), nil})
		for _, rc := range l {
			if len(rc.serial) == 20 {
				qs = append(qs, q{"listed-20-byte-serial", i, freeSubject, ub(rc.serial), r.IntN(len(e.spkis)), 0, nil})
				qs = append(qs, q{"twin:20-byte-plus-2^160", i, freeSubject, new(big.Int).Add(ub(rc.serial), pow256(20)), r.IntN(len(e.spkis)), 0, listed})
				qs = append(qs, q{"twin:20-byte-minus-2^160", i, freeSubject, new(big.Int).Sub(ub(rc.serial), pow256(20)), r.IntN(len(e.spkis)), 0, listed})
				break
			}
		}
	}
	if len(blocked) > 0 {
		b := blocked[r.IntN(len(blocked))]
		qs = append(qs, q{"blocked-subject-and-key", freeIssuer, b.subject, rs(), b.spki, 0, nil})
		qs = append(qs, q{"blocked-subject-other-key", freeIssuer, b.subject, rs(), (b.spki + 1 + r.IntN(len(e.spkis)-1)) % len(e.spkis), 0, nil})
		qs = append(qs, q{"other-subject-blocked-key", freeIssuer, freeSubject, rs(), b.spki, 0, nil})
	}
	qs = append(qs, q{"unrelated", freeIssuer, freeSubject, rs(), r.IntN(len(e.spkis)), 0, nil})
	for _, qu := range qs {
		var cert *zx509.Certificate
		var err error
		if qu.pad > 0 {
			if cert, err = e.certPadded(e.names[qu.issuer], e.names[qu.subject], qu.serial, qu.pad, qu.spki); err != nil {
				c.Count("padded_serial_certificate_refused_by_parser", 1)
				continue
			}
			qu.serial = cert.SerialNumber
		} else if cert, err = e.cert(e.names[qu.issuer], e.names[qu.subject], qu.serial, qu.spki); err != nil {
			c.Count("query_cert_unparsable", 1)
			c.Note("query certificate unparsable: %v", err)
			continue
		}
		c.Eval(1)
		var got *mozilla.Entry
		if pi := core.Guard(func() { got = set.Check(cert) }); pi != nil {
			c.Violation(pi.Key, "OneCRL.Check panicked\n"+pi.Stack, caseID, input(map[string]any{"cert": core.FullHex(cert.Raw)}))
			return
		}
		want := revoked(qu.issuer, qu.subject, qu.serial, qu.spki)
		if contentEqualsListed(qu.serial, qu.listed) {
			// OneCRL's serialNumber is the base64 of the serial's content octets: Firefox matches octets, zcrypto integers
			c.Count(fmt.Sprintf("ambiguous_negative_serial_content_equals_listed_bytes:onecrl:reported=%v", got != nil), 1)
			continue
		}
		if (got != nil) != want {
			c.Violation(fmt.Sprintf("onecrl:check:%s:want-revoked=%v", qu.kind, want),
				fmt.Sprintf("Check(issuer %q, subject %q, serial %s, key #%d) = %v, the model says revoked=%v", e.names[qu.issuer].flat(), e.names[qu.subject].flat(), qu.serial, qu.spki, got, want),
				caseID, input(map[string]any{"cert": core.FullHex(cert.Raw)}))
			return
		}
		c.Count("onecrl_q_"+qu.kind, 1)
		if want {
			c.Count("onecrl_revoked", 1)
		} else {
			c.Count("onecrl_not_revoked", 1)
		}
		c.Nontrivial("onecrl", enc, cert.Raw)
	}
	if c.WantSample() && nrec > 0 && nrec < 3 {
		c.Sample(map[string]any{"format": "onecrl", "set": string(enc), "queries": len(qs)})
	}
}

func softMeta(c *core.Ctx, g *mozilla.Entry, w onecrlRecord) {
	if g.ID != w.id || g.Enabled != w.enabled || g.Schema.Unix() != w.schema/1000 || g.LastModified.Unix() != w.lastModified/1000 ||
		g.Details.Who != w.who || g.Details.Why != w.why || g.Details.Name != w.name || g.Details.Bug != w.bug {
		c.Count("soft_onecrl_metadata_mismatch", 1)
	} else {
		c.Count("soft_onecrl_metadata_ok", 1)
	}
	if w.created != "" {
		if g.Details.Created == nil {
			c.Count("soft_onecrl_created_present_in_document_but_nil_after_parse", 1)
		} else if g.Details.Created.UTC().Format(time.RFC3339) == w.created {
			c.Count("soft_onecrl_created_ok", 1)
		} else {
			c.Count("soft_onecrl_created_wrong", 1)
		}
	}
}

// ---- SST --------------------------------------------------------------------

type sstCert struct {
	issuer int
	serial *big.Int
	der    []byte
	props  [][2]any // (id uint32, value []byte) written before the certificate element
}

func runSST(e *c15env, caseID string) {
	c, r := e.c, e.r
	ncert := r.IntN(11)
	perm := r.Perm(len(e.names))
	issuers := perm[:1+r.IntN(4)]
	if r.IntN(4) == 0 {
		issuers = []int{14, 15, 16, 17}
	}
	var certs []sstCert
	var out bytes.Buffer
	binary.Write(&out, binary.LittleEndian, uint32(0))
	out.WriteString("CERT")
	writeEl := func(id uint32, val []byte) {
		binary.Write(&out, binary.LittleEndian, id)
		binary.Write(&out, binary.LittleEndian, uint32(1))
		binary.Write(&out, binary.LittleEndian, uint32(len(val)))
		out.Write(val)
	}
	propID := func() uint32 {
		for {
			var id uint32
			switch r.IntN(3) {
			case 0:
				id = []uint32{3, 4, 11, 15, 20, 25, 104, 126}[r.IntN(8)] // property ids seen in real stores
			default:
				id = 1 + uint32(r.IntN(0xffff))
			}
			if id != 32 {
				return id
			}
		}
	}
	nprops := 0
	for i := 0; i < ncert; i++ {
		sc := sstCert{issuer: issuers[r.IntN(len(issuers))]}
		switch r.IntN(8) {
		case 0:
			sc.serial = big.NewInt(0)
		case 1:
			sc.serial = big.NewInt(-int64(1 + r.IntN(1000)))
		default:
			sc.serial = ub(randBytes(r, 1+r.IntN(20)))
		}
		if len(certs) > 0 && r.IntN(5) == 0 {
			sc.serial = certs[len(certs)-1].serial // same serial, possibly under another issuer
		}
		zc, err := e.cert(e.names[sc.issuer], e.names[perm[6+r.IntN(3)]], sc.serial, r.IntN(len(e.spkis)))
		if err != nil {
			c.Count("set_cert_unparsable", 1)
			c.Note("store certificate unparsable: %v", err)
			return
		}
		sc.der = zc.Raw
		for k := r.IntN(4); k > 0; k-- {
			writeEl(propID(), randBytes(r, r.IntN(41)))
			nprops++
		}
		writeEl(32, sc.der)
		certs = append(certs, sc)
	}
	binary.Write(&out, binary.LittleEndian, uint32(0))
	binary.Write(&out, binary.LittleEndian, uint64(0))
	enc := out.Bytes()
	input := func(extra map[string]any) map[string]any {
		o := map[string]any{"format": "sst", "set": core.FullHex(enc)}
		for k, v := range extra {
			o[k] = v
		}
		return o
	}
	c.Eval(1)
	var set *microsoft.DisallowedCerts
	var err error
	if pi := core.Guard(func() { set, err = microsoft.Parse(enc) }); pi != nil {
		c.Violation(pi.Key, "microsoft.Parse panicked on a well-formed store\n"+pi.Stack, caseID, input(nil))
		return
	}
	if err != nil || set == nil {
		c.Violation("sst:parse:well-formed-set-rejected", fmt.Sprint(err), caseID, input(nil))
		return
	}
	fail := func(key, detail string) { c.Violation("sst:parse:"+key, detail, caseID, input(nil)) }
	byIssuer := map[int][]*big.Int{}
	var order []int
	for _, sc := range certs {
		if _, ok := byIssuer[sc.issuer]; !ok {
			order = append(order, sc.issuer)
		}
		byIssuer[sc.issuer] = append(byIssuer[sc.issuer], sc.serial)
	}
	if len(set.IssuerLists) != len(order) {
		fail("issuer-count", fmt.Sprintf("got %d issuer lists want %d (%d certificates, %d property elements)", len(set.IssuerLists), len(order), ncert, nprops))
		return
	}
	matched := map[int]bool{}
	for key, l := range set.IssuerLists {
		if l == nil {
			fail("nil-list", key)
			return
		}
		got := nameAttrs(&l.Issuer)
		idx := -1
		for _, i := range order {
			if strings.Join(e.names[i].flat(), "|") == got {
				idx = i
			}
		}
		if idx < 0 || matched[idx] {
			fail("issuer-name", fmt.Sprintf("list %q has issuer attributes %q which is not exactly one issuer of the store", key, got))
			return
		}
		matched[idx] = true
		want := byIssuer[idx]
		if len(l.Entries) != len(want) {
			fail("serial-count", fmt.Sprintf("issuer %q: %d entries want %d", key, len(l.Entries), len(want)))
			return
		}
		for j, w := range want {
			if l.Entries[j] == nil || l.Entries[j].SerialNumber == nil || l.Entries[j].SerialNumber.Cmp(w) != 0 {
				fail("serial-value", fmt.Sprintf("issuer %q entry %d: got %v want %s", key, j, l.Entries[j], w))
				return
			}
		}
	}
	c.Count("sst_parsed", 1)
	c.Count("sst_property_elements", nprops)

	type q struct {
		kind   string
		issuer int
		serial *big.Int
		pad    int
		listed [][]byte // unused for SST: the store lists certificates, the model compares signed integers
	}
	var qs []q
	freeIssuer := perm[10]
	if len(certs) > 0 {
		sc := certs[r.IntN(len(certs))]
		qs = append(qs, q{"listed", sc.issuer, sc.serial, 0, nil})
		qs = append(qs, q{"listed-last", certs[len(certs)-1].issuer, certs[len(certs)-1].serial, 0, nil})
		qs = append(qs, q{"same-issuer-other-serial", sc.issuer, new(big.Int).Add(sc.serial, big.NewInt(1)), 0, nil})
		qs = append(qs, q{"same-issuer-negated-serial", sc.issuer, new(big.Int).Neg(sc.serial), 0, nil})
		qs = append(qs, q{"other-listed-issuer-same-serial", order[r.IntN(len(order))], sc.serial, 0, nil})
		qs = append(qs, q{"unlisted-issuer-same-serial", freeIssuer, sc.serial, 0, nil})
		for _, t := range serialTwins(sc.serial) {
			qs = append(qs, q{"twin:" + t.kind, sc.issuer, t.v, 0, nil})
		}
		qs = append(qs, q{"listed-with-zero-padded-der-serial", sc.issuer, sc.serial, 1 + r.IntN(2), nil})
	}
	qs = append(qs, q{"unrelated", freeIssuer, ub(randBytes(r, 1+r.IntN(12))), 0, nil})
	for _, qu := range qs {
		var cert *zx509.Certificate
		var err error
		if qu.pad > 0 {
			if cert, err = e.certPadded(e.names[qu.issuer], e.names[perm[11]], qu.serial, qu.pad, r.IntN(len(e.spkis))); err != nil {
				c.Count("padded_serial_certificate_refused_by_parser", 1)
				continue
			}
			qu.serial = cert.SerialNumber
		} else if cert, err = e.cert(e.names[qu.issuer], e.names[perm[11]], qu.serial, r.IntN(len(e.spkis))); err != nil {
			c.Count("query_cert_unparsable", 1)
			continue
		}
		c.Eval(1)
		var got *microsoft.Entry
		if pi := core.Guard(func() { got = microsoft.Check(set, cert) }); pi != nil {
			c.Violation(pi.Key, "microsoft.Check panicked\n"+pi.Stack, caseID, input(map[string]any{"cert": core.FullHex(cert.Raw)}))
			return
		}
		want := false
		for _, s := range byIssuer[qu.issuer] {
			if s.Cmp(qu.serial) == 0 {
				want = true
			}
		}
		if (got != nil) != want {
			c.Violation(fmt.Sprintf("sst:check:%s:want-revoked=%v", qu.kind, want),
				fmt.Sprintf("Check(issuer %q, serial %s) = %v, the model says revoked=%v", e.names[qu.issuer].flat(), qu.serial, got, want),
				caseID, input(map[string]any{"cert": core.FullHex(cert.Raw)}))
			return
		}
		c.Count("sst_q_"+qu.kind, 1)
		if want {
			c.Count("sst_revoked", 1)
		} else {
			c.Count("sst_not_revoked", 1)
		}
		c.Nontrivial("sst", enc, cert.Raw)
	}
	if c.WantSample() && ncert == 1 {
		c.Sample(map[string]any{"format": "sst", "set": core.Hex(enc), "certificates": ncert, "property_elements": nprops, "queries": len(qs)})
	}
}
