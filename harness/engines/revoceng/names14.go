package revoceng

// CRL issuer names with the full variety of X.501 names, written by the package's own DER writer, and the
// comparison of CheckCRLForCert's Issuer copy with what was written. The comparison does not go through
// zcrypto's Name fields: it walks the RDNSequence the result hands out (ToRDNSequence / OriginalRDNS) and
// re-marshals it.

import (
	"bytes"
	"encoding/hex"
	"fmt"
	"math/big"
	"math/rand/v2"
	"sort"
	"strings"

	"github.com/zmap/zcrypto/encoding/asn1"
	"github.com/zmap/zcrypto/x509/pkix"
)

// issuerSpec is a generated CRL issuer.
type issuerSpec struct {
	name *dn
	// stable: every value is written in the form a re-marshal of its decoded Go value must reproduce
	// (PrintableString over [A-Za-z0-9 ], UTF8String with a non-ASCII rune, small INTEGER, OCTET STRING)
	stable bool
	// sorted: every SET was written in DER order; sortedDER is the encoding with all SETs in DER order
	sorted    bool
	sortedDER []byte
	// exotic: contains something a parser may legitimately refuse (empty SET, T61/BMP strings, non-string values)
	exotic bool
	traits []string
}

func (n *dn) encodeSorted() []byte {
	var rs [][]byte
	for _, rdn := range n.rdns {
		var as [][]byte
		for _, a := range rdn {
			as = append(as, dSeq(dOID(a.oid...), dString(a.tag, a.val)))
		}
		sort.Slice(as, func(i, j int) bool { return bytes.Compare(as[i], as[j]) < 0 })
		rs = append(rs, dSet(as...))
	}
	return dSeq(rs...)
}

const (
	tagT61 = 0x14
	tagBMP = 0x1e
)

func bmp(s string) string {
	var b []byte
	for _, r := range s {
		b = append(b, byte(r>>8), byte(r))
	}
	return string(b)
}

var plainWords = []string{"Alpha", "Bravo 7", "Charlie Trust", "Delta", "Echo 2 Root", "Foxtrot", "Golf CA", "Hotel"}

// genIssuer builds one CRL issuer name.
func genIssuer(r *rand.Rand, uniq string) *issuerSpec {
	sp := &issuerSpec{name: &dn{}, stable: true, sorted: true}
	trait := func(t string) { sp.traits = append(sp.traits, t) }
	knownOIDs := [][]int{oidC, oidO, oidOU, oidL, oidST, oidCN, {2, 5, 4, 5}, {2, 5, 4, 9}, {2, 5, 4, 17}, {0, 9, 2342, 19200300, 100, 1, 25}, {1, 2, 840, 113549, 1, 9, 1}}
	allowUnstable := r.IntN(3) == 0
	attr := func() nameAttr {
		a := nameAttr{oid: knownOIDs[r.IntN(len(knownOIDs))]}
		if r.IntN(6) == 0 {
			a.oid = []int{1, 3, 6, 1, 4, 1, 55555, 7, 1 + r.IntN(9)}
			trait("unknown-oid")
		}
		w := plainWords[r.IntN(len(plainWords))]
		k := r.IntN(20)
		if !allowUnstable && k >= 13 && k < 18 { // two names in three use only reproducible value forms
			k = r.IntN(13)
		}
		switch {
		case k < 9:
			a.tag, a.val = tagPrintable, w
		case k < 13:
			a.tag, a.val = tagUTF8, w+" é"
		case k < 15: // a string type a re-marshal will not reproduce
			a.tag, a.val = tagIA5, w
			sp.stable = false
			trait("ia5string")
		case k == 15:
			a.tag, a.val = tagUTF8, w // ASCII in a UTF8String: re-marshals as PrintableString
			sp.stable = false
			trait("utf8-ascii")
		case k == 16:
			a.tag, a.val = tagT61, w
			sp.stable, sp.exotic = false, true
			trait("t61string")
		case k == 17:
			a.tag, a.val = tagBMP, bmp(w)
			sp.stable, sp.exotic = false, true
			trait("bmpstring")
		case k == 18:
			a.tag, a.val = 0x02, string(intContent(big.NewInt(int64(r.IntN(100000)))))
			sp.exotic = true
			trait("integer-value")
		default:
			a.tag, a.val = 0x04, string(randBytes(r, 1+r.IntN(6)))
			sp.exotic = true
			trait("octet-string-value")
		}
		return a
	}
	nrdn := 1 + r.IntN(5)
	for i := 0; i < nrdn; i++ {
		var rdn []nameAttr
		switch k := r.IntN(10); {
		case k < 5:
			rdn = []nameAttr{attr()}
		case k < 9: // multi-valued
			for j := 2 + r.IntN(2); j > 0; j-- {
				rdn = append(rdn, attr())
			}
			trait("multi-valued-rdn")
		default:
			if r.IntN(3) == 0 {
				sp.exotic = true
				trait("empty-set") // rdn stays empty
			} else {
				rdn = []nameAttr{attr()}
			}
		}
		if len(rdn) > 1 && len(sp.name.rdns) > 0 && r.IntN(4) == 0 { // repeat an attribute type of the previous RDN
			if prev := sp.name.rdns[len(sp.name.rdns)-1]; len(prev) > 0 {
				rdn[0].oid = prev[0].oid
				trait("repeated-type")
			}
		}
		sp.name.rdns = append(sp.name.rdns, rdn)
	}
	// the unique common name, sometimes inside a multi-valued RDN
	cn := nameAttr{oid: oidCN, tag: tagPrintable, val: uniq}
	if r.IntN(3) == 0 {
		sp.name.rdns = append(sp.name.rdns, []nameAttr{cn, {oid: oidOU, tag: tagPrintable, val: plainWords[r.IntN(len(plainWords))]}})
		trait("multi-valued-rdn")
	} else {
		sp.name.rdns = append(sp.name.rdns, []nameAttr{cn})
	}
	// SET order: DER order mostly, the generator's order otherwise
	if r.IntN(4) != 0 {
		for _, rdn := range sp.name.rdns {
			enc := func(a nameAttr) []byte { return dSeq(dOID(a.oid...), dString(a.tag, a.val)) }
			sort.SliceStable(rdn, func(i, j int) bool { return bytes.Compare(enc(rdn[i]), enc(rdn[j])) < 0 })
		}
	}
	sp.name.encode()
	sp.sortedDER = sp.name.encodeSorted()
	sp.sorted = bytes.Equal(sp.sortedDER, sp.name.der)
	if !sp.sorted {
		trait("unsorted-set")
	}
	return sp
}

// attrKey renders one decoded attribute the way the model renders what it wrote.
func attrKey(a pkix.AttributeTypeAndValue) (string, bool) {
	switch v := a.Value.(type) {
	case string:
		return a.Type.String() + "=s:" + v, true
	case int64:
		return a.Type.String() + "=i:" + fmt.Sprint(v), true
	case int:
		return a.Type.String() + "=i:" + fmt.Sprint(v), true
	case *big.Int:
		return a.Type.String() + "=i:" + v.String(), true
	case []byte:
		return a.Type.String() + "=o:" + hex.EncodeToString(v), true
	}
	return a.Type.String() + fmt.Sprintf("=?:%T", a.Value), false
}

func modelAttrKey(a nameAttr) string {
	switch a.tag {
	case 0x02:
		return oidString(a.oid) + "=i:" + contentToBigInt([]byte(a.val)).String()
	case 0x04:
		return oidString(a.oid) + "=o:" + hex.EncodeToString([]byte(a.val))
	}
	return oidString(a.oid) + "=s:" + a.text()
}

// compareRDNs checks (type, value, RDN index) of seq against the model; attributes inside one SET are compared as a multiset.
func compareRDNs(seq pkix.RDNSequence, n *dn) (ok bool, undecodable bool, detail string) {
	render := func() string {
		var parts []string
		for _, rdn := range seq {
			var as []string
			for _, a := range rdn {
				k, _ := attrKey(a)
				as = append(as, k)
			}
			parts = append(parts, "{"+strings.Join(as, " + ")+"}")
		}
		return strings.Join(parts, " ")
	}
	model := func() string {
		var parts []string
		for _, rdn := range n.rdns {
			var as []string
			for _, a := range rdn {
				as = append(as, modelAttrKey(a))
			}
			parts = append(parts, "{"+strings.Join(as, " + ")+"}")
		}
		return strings.Join(parts, " ")
	}
	if len(seq) != len(n.rdns) {
		return false, false, fmt.Sprintf("%d RDNs, the CRL issuer has %d: got %s want %s", len(seq), len(n.rdns), render(), model())
	}
	for i := range seq {
		var got, want []string
		for _, a := range seq[i] {
			k, dec := attrKey(a)
			if !dec {
				return true, true, ""
			}
			got = append(got, k)
		}
		for _, a := range n.rdns[i] {
			want = append(want, modelAttrKey(a))
		}
		sort.Strings(got)
		sort.Strings(want)
		if strings.Join(got, "\x00") != strings.Join(want, "\x00") {
			return false, false, fmt.Sprintf("RDN %d differs: got %s want %s", i, render(), model())
		}
	}
	return true, false, ""
}

func marshalRDNs(seq pkix.RDNSequence) ([]byte, error) {
	if seq == nil {
		seq = pkix.RDNSequence{}
	}
	return asn1.Marshal(seq)
}
