package pkieng

import (
	"bytes"
	"crypto/sha256"
	"fmt"
	"strings"
	"time"

	"github.com/zmap/zcrypto/x509"

	"verifharness/internal/core"
	"verifharness/internal/pki"
)

func init() {
	core.RegisterMeta("C07", core.Meta{
		Rule: "random PKIs from internal/pki (1-3 roots, 0-6 intermediate entities with 1-2 certificates each, cross-signs incl. A<->B loops, self-issued roll-overs, " +
			"1-3 leaves; random CA flags / v1 / missing basicConstraints, pathLen 0..2, keyUsage, EKU sets incl. Any, SGC, unknown; validity windows around an explicit CurrentTime incl. " +
			"touching at the second, single-instant and inverted; name and key collisions; AKID/SKID correct, absent, misleading; signatures by the wrong key, bit-flipped, over a different TBS, zeroed, with trailing bytes) " +
			"x option sets (random Roots/Intermediates split incl. leaf in Roots and intermediates in Roots, KeyUsages in {nil,[Any],[ServerAuth],[ClientAuth,EmailProtection],[CodeSigning]}, DNSName in {\"\",matching,non-matching}); " +
			"every chain returned by Verify and ValidateWithStupidDetail is checked against the generator's ground truth; soundness only; " +
			"non-trivial = a call that returned at least one chain of length >= 3; distinct by (returned chains, options)",
		MinNontrivial:         5000,
		MinNontrivialThorough: 60000,
		Assumptions: []string{
			"ground truth of the PKI factory (who signed what, corruption, CA flag, pathLen, EKUs, validity) — each link is additionally re-verified with Go's crypto/ecdsa / crypto/ed25519",
			"completeness is not part of the statement: chains the builder misses or duplicates (memoisation) are counted, never asserted",
			"date buckets: the statement does not say whether the window is open or closed; a chain exactly on a boundary (t == max NotBefore, t == min NotAfter, max NotBefore == min NotAfter) may be in the bucket of either reading; such cases are counted",
			"path length: self-issued intermediates are not counted against a pathLenConstraint (RFC 5280 reading, the more permissive one); the root's own pathLenConstraint is counted in evidence, not asserted (the statement speaks of intermediates)",
			"EKU nesting rule from the VerifyOptions.KeyUsages doc comment: some requested usage must be allowed by every certificate of the chain; no EKU extension or anyExtendedKeyUsage allows all; the two SGC usages count as ServerAuth",
			"DNS name check uses the C09 reference (all readings)",
		},
	}, runC07)
}

type c07Universe struct {
	pk     *pki.PKI
	parsed map[*pki.Cert]*x509.Certificate
}

type c07Opts struct {
	roots, inters []*pki.Cert
	nilInters     bool
	usages        []x509.ExtKeyUsage
	usageName     string
	dns           string
	target        *pki.Cert
	t             time.Time
}

func (o *c07Opts) describe(u *c07Universe) string {
	idx := func(cs []*pki.Cert) string {
		var s []string
		for _, c := range cs {
			s = append(s, c.Spec.Label)
		}
		return strings.Join(s, ",")
	}
	return fmt.Sprintf("target=%s roots=[%s] intermediates=[%s] nilIntermediates=%v KeyUsages=%s DNSName=%q CurrentTime=%s",
		o.target.Spec.Label, idx(o.roots), idx(o.inters), o.nilInters, o.usageName, o.dns, o.t.UTC().Format(time.RFC3339Nano))
}

var ekuOIDOf = map[x509.ExtKeyUsage][]int{
	x509.ExtKeyUsageServerAuth:      pki.OIDEKUServerAuth,
	x509.ExtKeyUsageClientAuth:      pki.OIDEKUClientAuth,
	x509.ExtKeyUsageEmailProtection: pki.OIDEKUEmail,
	x509.ExtKeyUsageCodeSigning:     pki.OIDEKUCodeSigning,
}

func oidEq(a, b []int) bool {
	if len(a) != len(b) {
		return false
	}
	for i := range a {
		if a[i] != b[i] {
			return false
		}
	}
	return true
}

// permits: does the certificate's EKU extension (ground truth) allow the requested usage?
func permits(c *pki.Cert, u x509.ExtKeyUsage) bool {
	if c.Spec.EKU == nil {
		return true
	}
	want := ekuOIDOf[u]
	for _, o := range c.Spec.EKU {
		if oidEq(o, pki.OIDEKUAny) || oidEq(o, want) {
			return true
		}
		if u == x509.ExtKeyUsageServerAuth && (oidEq(o, pki.OIDEKUNetscapeSGC) || oidEq(o, pki.OIDEKUMicrosoftSGC)) {
			return true
		}
	}
	return false
}

func ekuSatisfied(chain []*pki.Cert, requested []x509.ExtKeyUsage) bool {
	if len(requested) == 0 {
		requested = []x509.ExtKeyUsage{x509.ExtKeyUsageServerAuth}
	}
	for _, u := range requested {
		if u == x509.ExtKeyUsageAny {
			return true
		}
	}
next:
	for _, u := range requested {
		for _, c := range chain {
			if !permits(c, u) {
				continue next
			}
		}
		return true
	}
	return false
}

const (
	bCurrent = 1 << iota
	bExpired
	bNever
)

func bucketName(b int) string {
	switch b {
	case bCurrent:
		return "current"
	case bExpired:
		return "expired"
	case bNever:
		return "never"
	}
	return "?"
}

// allowedBuckets returns the bucket under the open-window reading and the set allowed under either reading.
func allowedBuckets(chain []*pki.Cert, t time.Time) (strict int, allowed int) {
	lb, ub := chain[0].Spec.NotBefore, chain[0].Spec.NotAfter
	for _, c := range chain[1:] {
		if c.Spec.NotBefore.After(lb) {
			lb = c.Spec.NotBefore
		}
		if c.Spec.NotAfter.Before(ub) {
			ub = c.Spec.NotAfter
		}
	}
	// open window (lb, ub)
	switch {
	case lb.Before(t) && t.Before(ub):
		strict = bCurrent
	case !lb.Before(ub):
		strict = bNever
	default:
		strict = bExpired
	}
	// closed window [lb, ub]
	var incl int
	switch {
	case !t.Before(lb) && !t.After(ub):
		incl = bCurrent
	case lb.After(ub):
		incl = bNever
	default:
		incl = bExpired
	}
	return strict, strict | incl
}

type c07Run struct {
	c  *core.Ctx
	u  *c07Universe
	o  *c07Opts
	id string
}

func (r *c07Run) input() map[string]any {
	var ders []string
	for _, c := range r.u.pk.Certs {
		ders = append(ders, c.Spec.Label+":"+core.FullHex(c.DER))
	}
	return map[string]any{"options": r.o.describe(r.u), "certificates": ders, "ground_truth": r.u.pk.Describe()}
}

func (r *c07Run) viol(key, detail string) {
	r.c.Violation(key, detail+"\n"+r.o.describe(r.u)+"\n"+r.u.pk.Describe(), r.id, r.input())
}

// checkChain applies the structural conditions of the statement to one returned chain.
// It returns the ground-truth chain (nil if it could not be mapped).
func (r *c07Run) checkChain(api string, zchain x509.CertificateChain, rootSet map[[32]byte]bool) []*pki.Cert {
	if len(zchain) == 0 {
		r.viol("c07:empty-chain-returned@"+api, "a returned chain has no elements")
		return nil
	}
	chain := make([]*pki.Cert, len(zchain))
	for i, zc := range zchain {
		if zc == nil {
			r.viol("c07:nil-certificate-in-chain@"+api, fmt.Sprintf("chain element %d is nil", i))
			return nil
		}
		chain[i] = r.u.pk.ByRaw(zc.Raw)
		if chain[i] == nil {
			r.viol("c07:unknown-certificate-in-chain@"+api, fmt.Sprintf("chain element %d is not one of the supplied certificates: %x", i, zc.Raw))
			return nil
		}
	}
	labels := make([]string, len(chain))
	for i, c := range chain {
		labels[i] = c.Spec.Label
	}
	desc := "chain " + strings.Join(labels, " <- ")
	if chain[0] != r.o.target {
		r.viol("c07:chain-does-not-start-at-verified-certificate@"+api, desc)
	}
	last := chain[len(chain)-1]
	if !rootSet[last.FP] {
		r.viol("c07:chain-does-not-end-in-roots@"+api, desc)
	}
	seen := map[[32]byte]bool{}
	for _, c := range chain {
		if seen[c.FP] {
			r.viol("c07:certificate-repeated@"+api, desc)
			break
		}
		seen[c.FP] = true
	}
	for i := 0; i+1 < len(chain); i++ {
		child, parent := chain[i], chain[i+1]
		if !bytes.Equal(child.IssuerDER, parent.SubjectDER) {
			r.viol("c07:link-issuer-name-mismatch@"+api, fmt.Sprintf("%s: issuer of %s is not the subject of %s", desc, child.Spec.Label, parent.Spec.Label))
		}
		gt := child.SignedByKey(parent.Spec.Key)
		std := child.VerifyStd(parent.Spec.Key)
		if gt != std {
			r.viol("harness:ground-truth-disagrees-with-stdlib", fmt.Sprintf("%s child %s parent %s gt=%v std=%v", desc, child.Spec.Label, parent.Spec.Label, gt, std))
		}
		if !gt || !std {
			why := child.Spec.Corrupt.String()
			if child.Spec.Corrupt == pki.CorruptNone {
				why = "signed-by-another-key"
			}
			r.viol("c07:link-signature-invalid:"+why+"@"+api,
				fmt.Sprintf("%s: the signature on %s does not verify under the key of %s (signer key %d, parent key %d, corruption %s)",
					desc, child.Spec.Label, parent.Spec.Label, child.Spec.Signer.ID, parent.Spec.Key.ID, child.Spec.Corrupt))
		}
	}
	// intermediates: CA and path length
	for i := 1; i < len(chain); i++ {
		c := chain[i]
		isRoot := i == len(chain)-1
		if !isRoot && !c.IsCAGroundTruth() {
			why := "ca-false"
			if c.Spec.Version == 1 {
				why = "v1"
			} else if !c.Spec.HasBC {
				why = "no-basic-constraints"
			}
			r.viol("c07:intermediate-not-ca:"+why+"@"+api, fmt.Sprintf("%s: %s is used as an intermediate", desc, c.Spec.Label))
		}
		if lim, ok := c.PathLimit(); ok {
			below, belowNonSelfIssued := 0, 0
			for j := 1; j < i; j++ {
				below++
				if !chain[j].SelfIssued() {
					belowNonSelfIssued++
				}
			}
			if isRoot {
				if below > lim {
					r.c.Count("root_pathlen_exceeded(not asserted)", 1)
				}
				continue
			}
			if belowNonSelfIssued > lim {
				r.viol("c07:path-length-exceeded@"+api, fmt.Sprintf("%s: %s has pathLenConstraint %d but %d non-self-issued intermediates follow it", desc, c.Spec.Label, lim, belowNonSelfIssued))
			} else if below > lim {
				r.c.Count("pathlen_exceeded_only_when_counting_self_issued(not asserted)", 1)
			}
		}
	}
	return chain
}

func chainKey(chain []*pki.Cert) string {
	var sb strings.Builder
	for _, c := range chain {
		sb.Write(c.FP[:8])
	}
	return sb.String()
}

// refChains enumerates the chains the statement permits (for completeness statistics only).
func refChains(u *c07Universe, o *c07Opts, rootSet map[[32]byte]bool) map[string]bool {
	out := map[string]bool{}
	interSet := map[[32]byte]bool{}
	for _, c := range o.inters {
		interSet[c.FP] = true
	}
	var walk func(chain []*pki.Cert)
	walk = func(chain []*pki.Cert) {
		if len(chain) > 8 {
			return
		}
		tip := chain[len(chain)-1]
		if len(chain) == 1 && rootSet[tip.FP] {
			out[chainKey(chain)] = true
		}
	next:
		for _, p := range u.pk.Certs {
			if !bytes.Equal(tip.IssuerDER, p.SubjectDER) || !tip.SignedByKey(p.Spec.Key) {
				continue
			}
			for _, c := range chain {
				if c == p {
					continue next
				}
			}
			nonSelf := 0
			for _, c := range chain[1:] {
				if !c.SelfIssued() {
					nonSelf++
				}
			}
			if rootSet[p.FP] {
				out[chainKey(append(append([]*pki.Cert{}, chain...), p))] = true
				continue
			}
			if interSet[p.FP] && p.IsCAGroundTruth() {
				if lim, ok := p.PathLimit(); ok && nonSelf > lim {
					continue
				}
				walk(append(append([]*pki.Cert{}, chain...), p))
			}
		}
	}
	walk([]*pki.Cert{o.target})
	return out
}

func (r *c07Run) verifyOnce() {
	c, u, o := r.c, r.u, r.o
	roots := x509.NewCertPool()
	rootSet := map[[32]byte]bool{}
	for _, pc := range o.roots {
		roots.AddCert(u.parsed[pc])
		rootSet[pc.FP] = true
	}
	var inters *x509.CertPool
	if !o.nilInters {
		inters = x509.NewCertPool()
		for _, pc := range o.inters {
			inters.AddCert(u.parsed[pc])
		}
	}
	leaf := u.parsed[o.target]
	opts := x509.VerifyOptions{DNSName: o.dns, Intermediates: inters, Roots: roots, CurrentTime: o.t, KeyUsages: o.usages}

	// names of the target for the DNS check
	names := &hostNames{HasSAN: o.target.Spec.SAN != nil, CN: string(o.target.Spec.Subject.CN)}
	if s := o.target.Spec.SAN; s != nil {
		for _, d := range s.DNS {
			names.DNS = append(names.DNS, string(d))
		}
		names.IPs = s.IPs
	}

	// ---- Verify ----
	var current, expired, never []x509.CertificateChain
	var err error
	c.Eval(1)
	if pi := core.Guard(func() { current, expired, never, err = leaf.Verify(opts) }); pi != nil {
		r.viol(pi.Key+"@Verify", pi.Stack)
		return
	}
	maxLen := 0
	var sigParts []string
	inBucket := map[string]int{}
	ref := refChains(u, o, rootSet)
	returned := map[string]bool{}
	for bi, list := range [][]x509.CertificateChain{current, expired, never} {
		bucket := 1 << bi
		for _, zchain := range list {
			chain := r.checkChain("Verify", zchain, rootSet)
			if chain == nil {
				continue
			}
			if len(chain) > maxLen {
				maxLen = len(chain)
			}
			k := chainKey(chain)
			if returned[k] {
				c.Count("duplicate_chains_returned(not asserted)", 1)
			}
			returned[k] = true
			sigParts = append(sigParts, bucketName(bucket)+":"+k)
			if !ekuSatisfied(chain, o.usages) {
				r.viol("c07:eku-not-satisfied@Verify", fmt.Sprintf("chain %s returned for KeyUsages=%s", labelsOfChain(chain), o.usageName))
			}
			strict, allowed := allowedBuckets(chain, o.t)
			if allowed&(allowed-1) != 0 {
				c.Count("date_boundary_chains(either bucket accepted)", 1)
				if bucket == strict {
					c.Count("date_boundary_code_follows_open_window", 1)
				}
			}
			if bucket&allowed == 0 {
				r.viol("c07:bucket:"+bucketName(bucket)+"-but-window-says-"+bucketName(strict)+"@Verify",
					fmt.Sprintf("chain %s is in the %s list; common window vs t=%s says %s", labelsOfChain(chain), bucketName(bucket), o.t.UTC().Format(time.RFC3339Nano), bucketName(strict)))
			}
			if prev, ok := inBucket[k]; ok && prev != bucket {
				r.viol("c07:buckets-not-disjoint@Verify", fmt.Sprintf("chain %s is in both %s and %s", labelsOfChain(chain), bucketName(prev), bucketName(bucket)))
			}
			inBucket[k] = bucket
			c.Count("chains_"+bucketName(bucket), 1)
			c.Count(fmt.Sprintf("chains_len_%d", len(chain)), 1)
		}
	}
	for k := range ref {
		if !returned[k] {
			c.Count("reference_chains_not_returned(completeness, not asserted)", 1)
		}
	}
	c.Count("reference_chains_total", len(ref))
	if err == nil {
		c.Count("verify_nil_error", 1)
		if len(current) == 0 {
			r.viol("c07:nil-error-without-current-chain@Verify", fmt.Sprintf("err == nil, current=%d expired=%d never=%d", len(current), len(expired), len(never)))
		}
		if o.dns != "" {
			if v := refHostVerdict(names, o.dns); !v.MayAccept {
				r.viol("c07:nil-error-dns-name-mismatch@Verify", fmt.Sprintf("err == nil but DNSName %q does not match the certificate (SAN present=%v DNS=%q CN=%q)", o.dns, names.HasSAN, names.DNS, names.CN))
			} else {
				c.Count("dns_name_requested_and_matched", 1)
			}
		}
	} else {
		c.Count("verify_error:"+errClass(err), 1)
	}
	if maxLen >= 3 {
		c.Nontrivial(strings.Join(sigParts, "|"), o.usageName, o.dns, chainKey(o.roots), o.t.UnixNano())
	}
	c.Max("chain_length", maxLen)

	// ---- ValidateWithStupidDetail ----
	var chains []x509.CertificateChain
	var val *x509.Validation
	var verr error
	c.Eval(1)
	if pi := core.Guard(func() { chains, val, verr = leaf.ValidateWithStupidDetail(opts) }); pi != nil {
		r.viol(pi.Key+"@ValidateWithStupidDetail", pi.Stack)
		return
	}
	for _, zchain := range chains {
		chain := r.checkChain("ValidateWithStupidDetail", zchain, rootSet)
		if chain == nil {
			continue
		}
		if !ekuSatisfied(chain, nil) { // the function documents that it drops the caller's KeyUsages: default ServerAuth
			r.viol("c07:eku-not-satisfied@ValidateWithStupidDetail", "chain "+labelsOfChain(chain))
		}
		if _, allowed := allowedBuckets(chain, o.t); allowed&bCurrent == 0 {
			r.viol("c07:bucket:current-but-window-says-otherwise@ValidateWithStupidDetail", "chain "+labelsOfChain(chain))
		}
	}
	if verr == nil {
		if len(chains) == 0 {
			r.viol("c07:nil-error-without-current-chain@ValidateWithStupidDetail", "err == nil and no chain")
		}
		if o.dns != "" {
			if v := refHostVerdict(names, o.dns); !v.MayAccept {
				r.viol("c07:nil-error-dns-name-mismatch@ValidateWithStupidDetail", fmt.Sprintf("DNSName %q", o.dns))
			}
		}
		c.Count("validate_nil_error", 1)
	}
	if val != nil && o.dns != "" {
		v := refHostVerdict(names, o.dns)
		if (val.MatchesDomain && !v.MayAccept) || (!val.MatchesDomain && !v.MayReject) {
			r.viol("c07:matches-domain-disagrees-with-reference@ValidateWithStupidDetail", fmt.Sprintf("MatchesDomain=%v for %q", val.MatchesDomain, o.dns))
		}
	}
	if val != nil && val.BrowserTrusted && len(chains) == 0 {
		r.viol("c07:browser-trusted-without-chain@ValidateWithStupidDetail", "")
	}
}

func labelsOfChain(chain []*pki.Cert) string {
	l := make([]string, len(chain))
	for i, c := range chain {
		l[i] = c.Spec.Label
	}
	return strings.Join(l, " <- ")
}

func errClass(err error) string {
	switch e := err.(type) {
	case x509.CertificateInvalidError:
		return fmt.Sprintf("invalid-%d", int(e.Reason))
	case x509.UnknownAuthorityError:
		return "unknown-authority"
	case x509.HostnameError:
		return "hostname"
	default:
		return fmt.Sprintf("%T", err)
	}
}

var c07UsageSets = []struct {
	name string
	u    []x509.ExtKeyUsage
}{
	{"nil", nil},
	{"[Any]", []x509.ExtKeyUsage{x509.ExtKeyUsageAny}},
	{"[ServerAuth]", []x509.ExtKeyUsage{x509.ExtKeyUsageServerAuth}},
	{"[ClientAuth,EmailProtection]", []x509.ExtKeyUsage{x509.ExtKeyUsageClientAuth, x509.ExtKeyUsageEmailProtection}},
	{"[CodeSigning]", []x509.ExtKeyUsage{x509.ExtKeyUsageCodeSigning}},
	{"[ClientAuth,Any]", []x509.ExtKeyUsage{x509.ExtKeyUsageClientAuth, x509.ExtKeyUsageAny}},
}

func runC07(c *core.Ctx) {
	rng := c.Rng
	npki := c.PerShard(c.Pick(16000, 150000))
	nopts := c.Pick(4, 6)
	base := time.Date(2024, 3, 1, 0, 0, 0, 0, time.UTC)
	for i := 0; i < npki; i++ {
		t := base.Add(time.Duration(rng.IntN(400*86400)) * time.Second)
		if rng.IntN(4) == 0 {
			t = t.Add(time.Duration(rng.IntN(1e9)))
		}
		pk := pki.GenPKI(rng, t, pki.GenParams{Clean: 0.15})
		u := &c07Universe{pk: pk, parsed: map[*pki.Cert]*x509.Certificate{}}
		ok := true
		for _, pc := range pk.Certs {
			zc, err := x509.ParseCertificate(pc.DER)
			if err != nil {
				c.Count("generated_certificate_rejected_by_parser", 1)
				ok = false
				break
			}
			u.parsed[pc] = zc
		}
		if !ok {
			continue
		}
		c.Count("pkis", 1)
		c.Count("certificates", len(pk.Certs))
		for j := 0; j < nopts; j++ {
			o := &c07Opts{t: t}
			p := func(x float64) bool { return rng.Float64() < x }
			for _, r := range pk.Roots {
				if p(0.85) {
					o.roots = append(o.roots, r)
				}
				if p(0.2) {
					o.inters = append(o.inters, r)
				}
			}
			for _, ic := range pk.Inters {
				if p(0.9) {
					o.inters = append(o.inters, ic)
				}
				if p(0.07) {
					o.roots = append(o.roots, ic)
				}
			}
			for _, l := range pk.Leaves {
				if p(0.04) {
					o.roots = append(o.roots, l)
				}
				if p(0.08) {
					o.inters = append(o.inters, l)
				}
			}
			rng.Shuffle(len(o.inters), func(a, b int) { o.inters[a], o.inters[b] = o.inters[b], o.inters[a] })
			rng.Shuffle(len(o.roots), func(a, b int) { o.roots[a], o.roots[b] = o.roots[b], o.roots[a] })
			o.nilInters = len(o.inters) == 0 && p(0.5)
			us := c07UsageSets[rng.IntN(len(c07UsageSets))]
			o.usages, o.usageName = us.u, us.name
			switch r := rng.Float64(); {
			case r < 0.86:
				o.target = pk.Leaves[rng.IntN(len(pk.Leaves))]
			case r < 0.95 && len(pk.Inters) > 0:
				o.target = pk.Inters[rng.IntN(len(pk.Inters))]
			default:
				o.target = pk.Roots[rng.IntN(len(pk.Roots))]
			}
			switch rng.IntN(3) {
			case 1:
				o.dns = pk.LeafDNS[o.target]
				if o.dns != "" && p(0.3) {
					o.dns = strings.ToUpper(o.dns[:1]) + o.dns[1:] + "."
				}
			case 2:
				o.dns = []string{"other.verif.test", "verif.test", "x.l0.verif.test", "l0.verif.test.."}[rng.IntN(4)]
				if cn := string(o.target.Spec.Subject.CN); cn != "" && p(0.4) {
					o.dns = cn // matches only if the certificate has no SAN extension
				}
			}
			h := sha256.Sum256([]byte(o.describe(u)))
			run := &c07Run{c: c, u: u, o: o, id: fmt.Sprintf("s%d-pki%d-opt%d-%x", c.Shard, i, j, h[:4])}
			run.verifyOnce()
			if i == 0 && j == 0 && c.WantSample() {
				c.Sample(map[string]any{"options": o.describe(u), "pki": pk.Describe()})
			}
		}
	}
}
