package pkieng

import (
	"bytes"
	"crypto/sha256"
	"encoding/pem"
	"fmt"
	"math/rand/v2"
	"strings"
	"sync"

	"github.com/zmap/zcrypto/x509"

	"verifharness/internal/core"
	"verifharness/internal/pki"
)

func init() {
	core.RegisterMeta("C08", core.Meta{
		Rule: "operation histories of 1..60 steps over three pool variables (nil or NewCertPool) and a universe of 8..12 certificates engineered to collide " +
			"(same subject/different key, same key/different subject, shared subject key ids, re-issues, byte-identical duplicates parsed twice, AKID right/absent/misleading, damaged signatures, wrong signer); " +
			"operations AddCert, AppendCertsFromPEM (CERTIFICATE blocks, blocks with headers, other block types, unparsable DER, junk between blocks), Sum (nil receiver/argument, self-sum), " +
			"writing into the slice returned by Certificates(); after every step Size, Contains(every universe member), Covers(every pair incl. nil), Certificates, Subjects of every pool are compared with an " +
			"insertion-ordered set keyed by SHA-256; the parent lookup (hook VerifFindVerifiedParents) is called for every (pool, child) at sampled steps and at the end; " +
			"non-trivial = history with at least one duplicate insertion and a final pool of >= 2 members; distinct by operation string; race leg: concurrent read-only observers on quiescent pools",
		MinNontrivial:         2000,
		MinNontrivialThorough: 35000,
		RaceShards:            2,
		RacePkgs:              []string{"zcrypto/x509"},
		Assumptions: []string{
			"reference = insertion-ordered list keyed by SHA-256 of the DER bytes",
			"encoding/pem of the Go standard library defines which PEM blocks a text contains; a CERTIFICATE block carrying headers may or may not count as a certificate (the pool's doc comment does not say): both readings are accepted, the one followed is counted",
			"a nil *CertPool is the empty pool for Size, Contains, Covers, Sum and the parent lookup (Verify is documented with an optional Intermediates pool); Certificates/Subjects/AddCert are not called on nil",
			"parent lookup soundness only: every returned index is < Size and that member's key made the child's signature and the signature was not damaged (generator ground truth, re-verified with Go's crypto/ecdsa / ed25519); members that signed but are not returned are counted, not asserted",
			"race leg: observers only (Size, Contains, Covers, Certificates, Subjects, Sum, parent lookup with a per-goroutine child object); the pool is not modified while they run",
		},
	}, runC08)
}

type c08Ref struct {
	isNil bool
	order []*pki.Cert
	has   map[[32]byte]bool
}

func newC08Ref(isNil bool) *c08Ref { return &c08Ref{isNil: isNil, has: map[[32]byte]bool{}} }

func (r *c08Ref) add(c *pki.Cert) (dup bool) {
	if r.has[c.FP] {
		return true
	}
	r.has[c.FP] = true
	r.order = append(r.order, c)
	return false
}

func (r *c08Ref) clone() *c08Ref {
	n := newC08Ref(r.isNil)
	for _, c := range r.order {
		n.add(c)
	}
	return n
}

func (r *c08Ref) labels() string {
	if r.isNil {
		return "nil"
	}
	l := make([]string, len(r.order))
	for i, c := range r.order {
		l[i] = c.Spec.Label
	}
	return "[" + strings.Join(l, " ") + "]"
}

type c08State struct {
	c      *core.Ctx
	u      *pki.Universe
	copies [2][]*x509.Certificate // every universe certificate parsed twice (distinct objects, identical bytes)
	pools  [3]*x509.CertPool
	refs   [3]*c08Ref
	ops    []string
	lastOp string
	failed bool
	dups   int
	id     string
}

func (s *c08State) input() map[string]any {
	var ders []string
	for _, c := range s.u.Certs {
		ders = append(ders, c.Spec.Label+":"+core.FullHex(c.DER))
	}
	return map[string]any{"history": strings.Join(s.ops, "; "), "certificates": ders, "ground_truth": s.u.Describe()}
}

func (s *c08State) viol(key, detail string) {
	s.failed = true
	s.c.Violation(key+"@after-"+s.lastOp, detail+"\nhistory: "+strings.Join(s.ops, "; ")+"\n"+s.u.Describe(), s.id, s.input())
}

func fpOf(raw []byte) [32]byte { return sha256.Sum256(raw) }

// observe compares every observer of every pool with the reference.
func (s *c08State) observe() {
	for i := 0; i < 3; i++ {
		p, r := s.pools[i], s.refs[i]
		if got := p.Size(); got != len(r.order) {
			s.viol("c08:size-mismatch", fmt.Sprintf("pool %d: Size()=%d, reference has %d %s", i, got, len(r.order), r.labels()))
		}
		for ci, uc := range s.u.Certs {
			zc := s.copies[(ci+len(s.ops))%2][ci]
			got := p.Contains(zc)
			if got != r.has[uc.FP] {
				k := "c08:contains-true-for-non-member"
				if !got {
					k = "c08:contains-false-for-member"
				}
				s.viol(k, fmt.Sprintf("pool %d %s: Contains(%s)=%v", i, r.labels(), uc.Spec.Label, got))
			}
		}
		for j := 0; j < 3; j++ {
			want := true
			for _, c := range s.refs[j].order {
				if !r.has[c.FP] {
					want = false
				}
			}
			if got := p.Covers(s.pools[j]); got != want {
				s.viol("c08:covers-mismatch", fmt.Sprintf("pool %d %s .Covers(pool %d %s) = %v, want %v", i, r.labels(), j, s.refs[j].labels(), got, want))
			}
		}
		if r.isNil {
			continue
		}
		certs := p.Certificates()
		okSeq := len(certs) == len(r.order)
		for k := 0; okSeq && k < len(certs); k++ {
			if certs[k] == nil || fpOf(certs[k].Raw) != r.order[k].FP {
				okSeq = false
			}
		}
		if !okSeq {
			var got []string
			for _, zc := range certs {
				if zc == nil {
					got = append(got, "<nil>")
				} else if uc := s.u.ByRaw(zc.Raw); uc != nil {
					got = append(got, uc.Spec.Label)
				} else {
					got = append(got, "<not in universe>")
				}
			}
			s.viol("c08:certificates-differ-from-ordered-set", fmt.Sprintf("pool %d: Certificates()=[%s], reference %s", i, strings.Join(got, " "), r.labels()))
		}
		subj := p.Subjects()
		okSub := len(subj) == len(r.order)
		for k := 0; okSub && k < len(subj); k++ {
			if !bytes.Equal(subj[k], r.order[k].SubjectDER) {
				okSub = false
			}
		}
		if !okSub {
			s.viol("c08:subjects-differ-from-certificates", fmt.Sprintf("pool %d: Subjects() has %d entries, reference %s", i, len(subj), r.labels()))
		}
	}
}

// checkLookup calls the parent lookup for every child against pool i.
func (s *c08State) checkLookup(i int) {
	p, r := s.pools[i], s.refs[i]
	for ci, child := range s.u.Certs {
		zchild := s.copies[ci%2][ci]
		var idx []int
		if pi := core.Guard(func() { idx, _, _ = p.VerifFindVerifiedParents(zchild) }); pi != nil {
			s.viol(pi.Key, pi.Stack)
			return
		}
		s.c.Count("lookups", 1)
		returned := map[int]bool{}
		for _, k := range idx {
			if k < 0 || k >= len(r.order) {
				s.viol("c08:lookup-index-out-of-range", fmt.Sprintf("pool %d %s child %s: index %d", i, r.labels(), child.Spec.Label, k))
				continue
			}
			if returned[k] {
				s.c.Count("lookup_index_returned_twice(not asserted)", 1)
			}
			returned[k] = true
			// which member is at that index according to the pool itself
			certs := p.Certificates()
			member := s.u.ByRaw(certs[k].Raw)
			if member == nil {
				s.viol("c08:lookup-returned-non-member", fmt.Sprintf("pool %d child %s: index %d is not a universe certificate", i, child.Spec.Label, k))
				continue
			}
			if !r.has[member.FP] {
				s.viol("c08:lookup-returned-non-member", fmt.Sprintf("pool %d %s child %s: returned %s", i, r.labels(), child.Spec.Label, member.Spec.Label))
			}
			gt, std := child.SignedByKey(member.Spec.Key), child.VerifyStd(member.Spec.Key)
			if gt != std {
				s.viol("harness:ground-truth-disagrees-with-stdlib", fmt.Sprintf("child %s member %s gt=%v std=%v", child.Spec.Label, member.Spec.Label, gt, std))
			}
			if !gt || !std {
				why := child.Spec.Corrupt.String()
				if child.Spec.Corrupt == pki.CorruptNone {
					why = "signed-by-another-key"
				}
				s.viol("c08:lookup-returned-non-signer:"+why, fmt.Sprintf("pool %d %s: lookup for child %s returned %s whose key (%d) did not make a valid signature (signer key %d, corruption %s)",
					i, r.labels(), child.Spec.Label, member.Spec.Label, member.Spec.Key.ID, child.Spec.Signer.ID, child.Spec.Corrupt))
			} else {
				s.c.Count("lookup_parents_returned_and_confirmed", 1)
			}
		}
		for k, m := range r.order {
			if !returned[k] && child.SignedByKey(m.Spec.Key) {
				s.c.Count("lookup_true_signer_not_returned(completeness, not asserted)", 1)
			}
		}
	}
}

var pemHeaders = []map[string]string{{"Proc-Type": "4,ENCRYPTED"}, {"X-Verif": "1"}}
var otherPEMTypes = []string{"X509 CRL", "PRIVATE KEY", "TRUSTED CERTIFICATE", "certificate", "CERTIFICATE REQUEST", "NEW CERTIFICATE"}

// genPEM draws a PEM text; the reference re-reads it with encoding/pem.
func (s *c08State) genPEM(rng *rand.Rand) ([]byte, string) {
	var buf bytes.Buffer
	var desc []string
	n := rng.IntN(6)
	for k := 0; k < n; k++ {
		ci := rng.IntN(len(s.u.Certs))
		der := s.u.Certs[ci].DER
		label := s.u.Certs[ci].Spec.Label
		switch r := rng.IntN(20); {
		case r < 9:
			pem.Encode(&buf, &pem.Block{Type: "CERTIFICATE", Bytes: der})
			desc = append(desc, label)
		case r < 11:
			pem.Encode(&buf, &pem.Block{Type: "CERTIFICATE", Headers: pemHeaders[rng.IntN(len(pemHeaders))], Bytes: der})
			desc = append(desc, "hdr:"+label)
		case r < 13:
			t := otherPEMTypes[rng.IntN(len(otherPEMTypes))]
			pem.Encode(&buf, &pem.Block{Type: t, Bytes: der})
			desc = append(desc, t+":"+label)
		case r < 14:
			pem.Encode(&buf, &pem.Block{Type: "CERTIFICATE", Bytes: der[:len(der)/2]})
			desc = append(desc, "trunc:"+label)
		case r < 15:
			junk := make([]byte, 10+rng.IntN(60))
			for i := range junk {
				junk[i] = byte(rng.IntN(256))
			}
			pem.Encode(&buf, &pem.Block{Type: "CERTIFICATE", Bytes: junk})
			desc = append(desc, "junkder")
		case r < 16:
			pem.Encode(&buf, &pem.Block{Type: "CERTIFICATE", Bytes: append(append([]byte{}, der...), 0)})
			desc = append(desc, "trail:"+label)
		case r < 17:
			pem.Encode(&buf, &pem.Block{Type: "CERTIFICATE", Bytes: nil})
			desc = append(desc, "emptyblock")
		case r < 18:
			buf.WriteString("-----BEGIN CERTIFICATE-----\n")
			desc = append(desc, "openbegin")
		case r < 19:
			buf.WriteString("some text, not pem\n\n  indented -----BEGIN nothing\n")
			desc = append(desc, "text")
		default:
			buf.WriteString("-----END CERTIFICATE-----\nMIIB\n")
			desc = append(desc, "strayend")
		}
	}
	return buf.Bytes(), "[" + strings.Join(desc, " ") + "]"
}

// refPEM: the certificates a PEM text contributes, without and with header-carrying blocks.
func (s *c08State) refPEM(text []byte) (plain, withHdr []*pki.Cert) {
	rest := text
	for len(rest) > 0 {
		var b *pem.Block
		b, rest = pem.Decode(rest)
		if b == nil {
			break
		}
		if b.Type != "CERTIFICATE" {
			continue
		}
		uc := s.u.ByRaw(b.Bytes)
		if uc == nil {
			continue // not a certificate of the universe: truncated / junk / trailing byte => must not parse
		}
		withHdr = append(withHdr, uc)
		if len(b.Headers) == 0 {
			plain = append(plain, uc)
		}
	}
	return
}

func (s *c08State) sameOrder(p *x509.CertPool, r *c08Ref) bool {
	certs := p.Certificates()
	if len(certs) != len(r.order) {
		return false
	}
	for k := range certs {
		if certs[k] == nil || fpOf(certs[k].Raw) != r.order[k].FP {
			return false
		}
	}
	return true
}

func (s *c08State) step(rng *rand.Rand) {
	slot := rng.IntN(3)
	nonNil := func() int {
		for k := 0; k < 3; k++ {
			if !s.refs[(slot+k)%3].isNil {
				return (slot + k) % 3
			}
		}
		return -1
	}
	switch r := rng.IntN(100); {
	case r < 45: // AddCert
		t := nonNil()
		if t < 0 {
			s.pools[slot], s.refs[slot] = x509.NewCertPool(), newC08Ref(false)
			s.lastOp = "new"
			s.ops = append(s.ops, fmt.Sprintf("new %d", slot))
			return
		}
		ci := rng.IntN(len(s.u.Certs))
		cp := rng.IntN(2)
		s.lastOp = "add"
		s.ops = append(s.ops, fmt.Sprintf("add %d %s#%d", t, s.u.Certs[ci].Spec.Label, cp))
		s.pools[t].AddCert(s.copies[cp][ci])
		if s.refs[t].add(s.u.Certs[ci]) {
			s.dups++
		}
	case r < 60: // AppendCertsFromPEM
		t := nonNil()
		if t < 0 {
			return
		}
		text, desc := s.genPEM(rng)
		s.lastOp = "pem"
		s.ops = append(s.ops, fmt.Sprintf("pem %d %s", t, desc))
		plain, withHdr := s.refPEM(text)
		got := s.pools[t].AppendCertsFromPEM(text)
		a, b := s.refs[t].clone(), s.refs[t].clone()
		for _, c := range plain {
			if a.add(c) {
				s.dups++
			}
		}
		for _, c := range withHdr {
			b.add(c)
		}
		switch {
		case s.sameOrder(s.pools[t], a):
			s.refs[t] = a
			if got != (len(plain) > 0) {
				s.viol("c08:append-pem-return-value", fmt.Sprintf("AppendCertsFromPEM returned %v, %d certificate blocks parsed; pem %s", got, len(plain), desc))
			}
			if len(withHdr) != len(plain) {
				s.c.Count("pem_blocks_with_headers_skipped", 1)
			}
		case s.sameOrder(s.pools[t], b):
			s.refs[t] = b
			s.c.Count("pem_blocks_with_headers_added", 1)
			if got != (len(withHdr) > 0) {
				s.viol("c08:append-pem-return-value", fmt.Sprintf("AppendCertsFromPEM returned %v, %d certificate blocks parsed; pem %s", got, len(withHdr), desc))
			}
		default:
			s.refs[t] = a
			// observe() reports the difference
		}
		s.c.Count("pem_ops", 1)
	case r < 75: // Sum
		a, b := rng.IntN(3), rng.IntN(3)
		s.lastOp = "sum"
		s.ops = append(s.ops, fmt.Sprintf("sum %d=%d+%d", slot, a, b))
		sum := s.pools[a].Sum(s.pools[b])
		ref := newC08Ref(false)
		for _, c := range s.refs[a].order {
			ref.add(c)
		}
		for _, c := range s.refs[b].order {
			if ref.add(c) {
				s.dups++
			}
		}
		if sum == nil {
			s.viol("c08:sum-returned-nil", "")
			return
		}
		s.pools[slot], s.refs[slot] = sum, ref
		s.c.Count("sum_ops", 1)
	case r < 80:
		s.lastOp = "new"
		s.ops = append(s.ops, fmt.Sprintf("new %d", slot))
		s.pools[slot], s.refs[slot] = x509.NewCertPool(), newC08Ref(false)
	case r < 83:
		s.lastOp = "nil"
		s.ops = append(s.ops, fmt.Sprintf("nil %d", slot))
		s.pools[slot], s.refs[slot] = nil, newC08Ref(true)
	case r < 90: // write into the returned slice
		t := nonNil()
		if t < 0 {
			return
		}
		s.lastOp = "mutate-returned-slice"
		s.ops = append(s.ops, fmt.Sprintf("mut %d", t))
		certs := s.pools[t].Certificates()
		for k := range certs {
			certs[k] = s.copies[0][rng.IntN(len(s.u.Certs))]
		}
		if len(certs) > 0 && rng.IntN(2) == 0 {
			certs[0] = nil
		}
		certs = append(certs, s.copies[1][0])
		_ = certs
		subj := s.pools[t].Subjects()
		for k := range subj {
			subj[k] = nil
		}
	default:
		s.lastOp = "lookup"
		s.ops = append(s.ops, fmt.Sprintf("lookup %d", slot))
		s.checkLookup(slot)
	}
}

func runC08(c *core.Ctx) {
	if c.Leg == "race" {
		runC08Race(c)
		return
	}
	rng := c.Rng
	n := c.PerShard(c.Pick(6000, 100000))
	for h := 0; h < n; h++ {
		s := &c08State{c: c, u: pki.GenCollisionUniverse(rng), id: fmt.Sprintf("s%d-h%d", c.Shard, h)}
		ok := true
		for k := 0; k < 2 && ok; k++ {
			for _, uc := range s.u.Certs {
				zc, err := x509.ParseCertificate(uc.DER)
				if err != nil {
					c.Count("generated_certificate_rejected_by_parser", 1)
					ok = false
					break
				}
				s.copies[k] = append(s.copies[k], zc)
			}
		}
		if !ok {
			continue
		}
		s.pools[0], s.refs[0] = x509.NewCertPool(), newC08Ref(false)
		if rng.IntN(2) == 0 {
			s.pools[1], s.refs[1] = x509.NewCertPool(), newC08Ref(false)
		} else {
			s.refs[1] = newC08Ref(true)
		}
		s.refs[2] = newC08Ref(true)
		nops := 1 + rng.IntN(60)
		c.Eval(1)
		pi := core.Guard(func() {
			for k := 0; k < nops && !s.failed; k++ {
				s.step(rng)
				s.observe()
			}
			if !s.failed {
				s.lastOp = "final-lookup"
				for i := 0; i < 3; i++ {
					s.checkLookup(i)
				}
			}
		})
		if pi != nil {
			s.viol(pi.Key, pi.Stack)
		}
		c.Count("operations", len(s.ops))
		c.Count("duplicate_insertions", s.dups)
		big := 0
		for i := 0; i < 3; i++ {
			if len(s.refs[i].order) > big {
				big = len(s.refs[i].order)
			}
		}
		c.Max("pool_size", big)
		if s.dups > 0 && big >= 2 {
			c.Nontrivial(strings.Join(s.ops, ";"))
		}
		if h == 0 && c.WantSample() {
			c.Sample(map[string]any{"history": strings.Join(s.ops, "; "), "final": []string{s.refs[0].labels(), s.refs[1].labels(), s.refs[2].labels()}})
		}
	}
}

// ---- race leg: concurrent read-only observers on quiescent pools -------------------------

func runC08Race(c *core.Ctx) {
	rng := c.Rng
	rounds := c.PerShard(c.Pick(60, 1200))
	for round := 0; round < rounds; round++ {
		u := pki.GenCollisionUniverse(rng)
		parse := func() []*x509.Certificate {
			var out []*x509.Certificate
			for _, uc := range u.Certs {
				zc, err := x509.ParseCertificate(uc.DER)
				if err != nil {
					return nil
				}
				out = append(out, zc)
			}
			return out
		}
		own := parse()
		if own == nil {
			c.Count("generated_certificate_rejected_by_parser", 1)
			continue
		}
		// two quiescent pools built before the observers start
		var pools [2]*x509.CertPool
		var refs [2]*c08Ref
		for i := range pools {
			pools[i], refs[i] = x509.NewCertPool(), newC08Ref(false)
			for k := 0; k < 4+rng.IntN(8); k++ {
				ci := rng.IntN(len(u.Certs))
				pools[i].AddCert(own[ci])
				refs[i].add(u.Certs[ci])
			}
		}
		ng := 3 + rng.IntN(6)
		iters := 20 + rng.IntN(40)
		type report struct{ key, detail string }
		reports := make([][]report, ng)
		counts := make([]int, ng)
		mine := make([][]*x509.Certificate, ng)
		for g := range mine {
			mine[g] = parse() // per-goroutine argument objects: only the pools are shared
		}
		id := fmt.Sprintf("race-s%d-r%d", c.Shard, round)
		c.Begin(id, map[string]any{"universe": u.Describe(), "pool0": refs[0].labels(), "pool1": refs[1].labels()})
		var wg sync.WaitGroup
		gate := make(chan struct{})
		for g := 0; g < ng; g++ {
			wg.Add(1)
			go func(g int) {
				defer wg.Done()
				<-gate
				add := func(k, d string) { reports[g] = append(reports[g], report{k, d}) }
				for it := 0; it < iters; it++ {
					i := (g + it) % 2
					p, r := pools[i], refs[i]
					switch (g*7 + it) % 7 {
					case 0:
						if p.Size() != len(r.order) {
							add("c08:concurrent:size-mismatch", "")
						}
					case 1:
						for ci, uc := range u.Certs {
							if p.Contains(mine[g][ci]) != r.has[uc.FP] {
								add("c08:concurrent:contains-mismatch", uc.Spec.Label)
							}
						}
					case 2:
						want := true
						for _, m := range refs[1-i].order {
							if !r.has[m.FP] {
								want = false
							}
						}
						if p.Covers(pools[1-i]) != want {
							add("c08:concurrent:covers-mismatch", "")
						}
					case 3:
						certs := p.Certificates()
						ok := len(certs) == len(r.order)
						for k := 0; ok && k < len(certs); k++ {
							ok = fpOf(certs[k].Raw) == r.order[k].FP
						}
						if !ok {
							add("c08:concurrent:certificates-mismatch", "")
						}
						for k := range certs { // writing into the returned copy must stay private
							certs[k] = nil
						}
					case 4:
						subj := p.Subjects()
						ok := len(subj) == len(r.order)
						for k := 0; ok && k < len(subj); k++ {
							ok = bytes.Equal(subj[k], r.order[k].SubjectDER)
						}
						if !ok {
							add("c08:concurrent:subjects-mismatch", "")
						}
					case 5:
						sum := p.Sum(pools[1-i])
						want := r.clone()
						for _, m := range refs[1-i].order {
							want.add(m)
						}
						if sum.Size() != len(want.order) {
							add("c08:concurrent:sum-size-mismatch", "")
						}
					default:
						for ci, child := range u.Certs {
							idx, _, _ := p.VerifFindVerifiedParents(mine[g][ci])
							for _, k := range idx {
								if k < 0 || k >= len(r.order) || !child.SignedByKey(r.order[k].Spec.Key) {
									add("c08:concurrent:lookup-returned-non-signer:"+child.Spec.Corrupt.String(), child.Spec.Label)
								}
							}
						}
					}
					counts[g]++
				}
			}(g)
		}
		close(gate)
		wg.Wait()
		c.End(id)
		c.Eval(1)
		total := 0
		for g := 0; g < ng; g++ {
			total += counts[g]
			for _, rp := range reports[g] {
				c.Violation(rp.key, rp.detail+"\n"+u.Describe(), id, map[string]any{"universe": u.Describe()})
			}
		}
		c.Count("concurrent_observer_calls", total)
		c.Count("concurrent_rounds", 1)
		c.Max("concurrent_goroutines", ng)
		c.Nontrivial("race", refs[0].labels(), refs[1].labels(), ng, iters)
	}
}
