package pkieng

import (
	"bytes"
	"net"
	"net/netip"
	"strings"
	"unicode/utf8"
)

// Reference hostname matcher written from the C09 statement:
//
//	VerifyHostname accepts a host exactly when it is an IP literal (optionally
//	bracketed) equal to one of the certificate's IP SANs, or a DNS name that
//	case-insensitively matches a DNS SAN label by label (ignoring one trailing
//	dot, '*' matching any single label), falling back to the subject common
//	name only when the certificate has no SAN extension.
//
// The statement leaves room in a few places. Each such place is a "reading
// dimension"; the primary reading (all flags false) is the one the zcrypto doc
// comments describe. A case is asserted only when the observed result is
// outside the set of results of *all* combinations of readings; the number of
// cases on which readings differ is reported in evidence.
type hostNames struct {
	HasSAN bool     // subjectAltName extension present (with whatever content)
	DNS    []string // dNSName entries, raw bytes
	IPs    [][]byte // iPAddress entries, raw octets (4 or 16)
	CN     string   // subject common name ("" when absent)
}

type reading struct {
	// ipStrict: brackets are only meaningful around IPv6 literals ("[1.2.3.4]" is not an IP literal),
	// and an IPv6 literal with a zone ("fe80::1%eth0") is an IP literal. Primary: an IP literal is
	// whatever net.ParseIP accepts after stripping one pair of brackets from a host of length >= 3.
	ipStrict bool
	// zoneIgnore (only with ipStrict): compare a zoned literal ignoring the zone; otherwise it equals no SAN.
	zoneIgnore bool
	// ipExact: an IPv4 address and its IPv4-mapped IPv6 form are different addresses. Primary: they are equal.
	ipExact bool
	// foldUnicode: case-insensitive means Unicode simple folding on valid UTF-8. Primary: ASCII only.
	foldUnicode bool
	// dotHostOnly: the trailing dot is ignored on the host only. Primary: on host and pattern.
	dotHostOnly bool
	// emptyInvalid: a name with an empty label matches nothing. Primary: empty labels compare like any other label.
	emptyInvalid bool
	// partialNever: a pattern label containing '*' next to other bytes matches nothing. Primary: it is a literal label.
	partialNever bool
}

var readingDims = []struct {
	name string
	set  func(*reading)
}{
	{"ip-literal-definition", func(r *reading) { r.ipStrict = true }},
	{"zone-ignored", func(r *reading) { r.ipStrict = true; r.zoneIgnore = true }},
	{"v4-mapped-distinct", func(r *reading) { r.ipExact = true }},
	{"unicode-case-folding", func(r *reading) { r.foldUnicode = true }},
	{"trailing-dot-host-only", func(r *reading) { r.dotHostOnly = true }},
	{"empty-label-invalid", func(r *reading) { r.emptyInvalid = true }},
	{"partial-wildcard-never-matches", func(r *reading) { r.partialNever = true }},
}

func asciiLower(s string) string {
	b := []byte(s)
	for i, c := range b {
		if 'A' <= c && c <= 'Z' {
			b[i] = c + ('a' - 'A')
		}
	}
	return string(b)
}

func labelEqual(p, h string, rd reading) bool {
	if rd.foldUnicode && utf8.ValidString(p) && utf8.ValidString(h) {
		return strings.EqualFold(p, h)
	}
	return asciiLower(p) == asciiLower(h)
}

// refMatchName: does pattern (a DNS SAN or the CN) match the DNS-name host?
func refMatchName(pattern, host string, rd reading) bool {
	host = strings.TrimSuffix(host, ".")
	if !rd.dotHostOnly {
		pattern = strings.TrimSuffix(pattern, ".")
	}
	if len(pattern) == 0 || len(host) == 0 {
		return false // an empty name names nothing
	}
	pl := strings.Split(pattern, ".")
	hl := strings.Split(host, ".")
	if rd.emptyInvalid {
		for _, l := range pl {
			if l == "" {
				return false
			}
		}
		for _, l := range hl {
			if l == "" {
				return false
			}
		}
	}
	if len(pl) != len(hl) {
		return false
	}
	for i := range pl {
		if pl[i] == "*" {
			continue
		}
		if rd.partialNever && strings.Contains(pl[i], "*") {
			return false
		}
		if !labelEqual(pl[i], hl[i], rd) {
			return false
		}
	}
	return true
}

// classifyIP decides whether host is an IP literal under the reading.
// isIP=true with ip=nil means "an IP literal that equals no SAN" (zoned literal, zone significant).
func classifyIP(host string, rd reading) (ip []byte, isIP bool) {
	bracketed := len(host) >= 3 && host[0] == '[' && host[len(host)-1] == ']'
	if !rd.ipStrict {
		cand := host
		if bracketed {
			cand = host[1 : len(host)-1]
		}
		p := net.ParseIP(cand)
		if p == nil {
			return nil, false
		}
		if p4 := p.To4(); p4 != nil && !strings.Contains(cand, ":") {
			return []byte(p4), true
		}
		return []byte(p.To16()), true
	}
	cand := host
	if bracketed {
		cand = host[1 : len(host)-1]
	}
	a, err := netip.ParseAddr(cand)
	if err != nil {
		return nil, false
	}
	if bracketed && a.Is4() {
		return nil, false // brackets belong to IPv6 literals only
	}
	if a.Zone() != "" {
		if !rd.zoneIgnore {
			return nil, true
		}
		a = a.WithZone("")
	}
	if a.Is4() {
		b := a.As4()
		return b[:], true
	}
	b := a.As16()
	return b[:], true
}

var v4InV6Prefix = []byte{0, 0, 0, 0, 0, 0, 0, 0, 0, 0, 0xff, 0xff}

func to16(ip []byte) []byte {
	if len(ip) == 4 {
		return append(append([]byte(nil), v4InV6Prefix...), ip...)
	}
	return ip
}

func refIPEqual(a, b []byte, rd reading) bool {
	if rd.ipExact {
		return bytes.Equal(a, b)
	}
	return bytes.Equal(to16(a), to16(b))
}

// refVerifyHostname is the reference decision under one reading.
func refVerifyHostname(n *hostNames, host string, rd reading) bool {
	if ip, isIP := classifyIP(host, rd); isIP {
		if ip == nil {
			return false
		}
		for _, san := range n.IPs {
			if refIPEqual(ip, san, rd) {
				return true
			}
		}
		return false
	}
	if n.HasSAN {
		for _, d := range n.DNS {
			if refMatchName(d, host, rd) {
				return true
			}
		}
		return false
	}
	return refMatchName(n.CN, host, rd)
}

// hostVerdict is the reference result over all readings.
type hostVerdict struct {
	Primary   bool
	MayAccept bool
	MayReject bool
	Divergent uint32 // bit i set: flipping reading dimension i alone changes the result
}

func hasHigh(s string) bool {
	for i := 0; i < len(s); i++ {
		if s[i] >= 0x80 {
			return true
		}
	}
	return false
}

func dotty(s string) bool {
	return strings.HasPrefix(s, ".") || strings.HasSuffix(s, ".") || strings.Contains(s, "..")
}

// refHostVerdict evaluates every combination of the reading dimensions that can matter for this case.
func refHostVerdict(n *hostNames, host string) hostVerdict {
	var v hostVerdict
	v.Primary = refVerifyHostname(n, host, reading{})
	// which dimensions can matter at all
	var dims []int
	cands := n.DNS
	if !n.HasSAN {
		cands = []string{n.CN}
	}
	if strings.HasPrefix(host, "[") || strings.Contains(host, "%") {
		dims = append(dims, 0)
	}
	if strings.Contains(host, "%") {
		dims = append(dims, 1)
	}
	if len(n.IPs) > 0 {
		dims = append(dims, 2)
	}
	high, dot, star, trail := hasHigh(host), dotty(host), false, false
	for _, c := range cands {
		high = high || hasHigh(c)
		dot = dot || dotty(c)
		star = star || strings.Contains(c, "*")
		trail = trail || strings.HasSuffix(c, ".")
	}
	if high {
		dims = append(dims, 3)
	}
	if trail {
		dims = append(dims, 4)
	}
	if dot {
		dims = append(dims, 5)
	}
	if star {
		dims = append(dims, 6)
	}
	if v.Primary {
		v.MayAccept = true
	} else {
		v.MayReject = true
	}
	for mask := 1; mask < 1<<len(dims); mask++ {
		var rd reading
		for i, d := range dims {
			if mask&(1<<i) != 0 {
				readingDims[d].set(&rd)
			}
		}
		r := refVerifyHostname(n, host, rd)
		if r {
			v.MayAccept = true
		} else {
			v.MayReject = true
		}
		if mask&(mask-1) == 0 && r != v.Primary { // single dimension flipped
			for i, d := range dims {
				if mask == 1<<i {
					v.Divergent |= 1 << uint(d)
				}
			}
		}
	}
	return v
}
