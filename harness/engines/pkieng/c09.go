package pkieng

import (
	"bytes"
	"fmt"
	"math/big"
	"math/rand/v2"
	"strings"
	"time"

	"github.com/zmap/zcrypto/x509"

	"verifharness/internal/core"
	"verifharness/internal/pki"
)

func init() {
	core.RegisterMeta("C09", core.Meta{
		Rule: "certificates written by the harness' own DER writer (SAN with DNS names / only IP / empty / absent; CN set or absent) and hosts; " +
			"(a) every (pattern, host) pair of strings up to the tier's length over {a A . *} (thorough: also {a A b . *}) in six certificate modes (SAN with the DNS name; CN only; SAN with only an IP / an unrelated DNS name / empty / only an e-mail, each with CN = pattern), enumerated completely; " +
			"(b) a fixed grid of IP-literal spellings x IP SAN sets x modes, enumerated completely; " +
			"(b2) every (pattern, host) pair of labels of <= 2 units over {a A 0x80 0xfe 0xff 0xc3 0xa9 U+FFFD}; (c) random names over {a b A B k K s i I 1 . * [ ] : % and the non-ASCII units 0x80 0xc3 0xa9 0xfe 0xff U+FFFD e-acute E-acute Kelvin-sign long-s dotted-I} with hosts derived by near-miss edits (incl. replacing exactly one non-ASCII unit by another); " +
			"non-trivial = reference accepts, or host is an IP literal with IP SANs present, or host and some candidate name have the same number of labels; distinct by (names, host); " +
			"enumerated pairs are distinct by construction",
		MinNontrivial:         150000,
		MinNontrivialThorough: 5000000,
		Assumptions: []string{
			"reference matcher written from the property statement; where the statement leaves room (what is an IP literal, brackets around IPv4, zones, IPv4-mapped equality, ASCII vs Unicode folding, trailing dot on the pattern, empty labels, partial-label '*') a case is a violation only if the observed result differs from every reading; divergent readings are counted in evidence",
			"an IP-literal host is decided by IP SANs only (never by a textually equal DNS SAN or CN)",
			"'*' is a wildcard in any label position (the statement does not restrict the position)",
			"net.ParseIP / netip.ParseAddr (Go standard library) define IP literals",
			"certificate names are taken from the generator (ground truth); a certificate whose parsed DNSNames/IPAddresses/CommonName differ from it is skipped and counted (fidelity of parsing is C06)",
		},
	}, runC09)
}

var c09Signer, c09Subject *pki.Key

// buildHostCert builds and parses a certificate carrying the given names. CN nil = no CN attribute.
func buildHostCert(n *hostNames, cn []byte, extraSAN func(*pki.SAN)) (*x509.Certificate, *pki.Cert, error) {
	if c09Signer == nil {
		ks := pki.Keys()
		c09Signer, c09Subject = ks[0], ks[1]
	}
	t0 := time.Date(2024, 1, 1, 0, 0, 0, 0, time.UTC)
	s := pki.Spec{Label: "host", Serial: big.NewInt(77), Subject: pki.Name{O: "verif", CN: cn}, Issuer: pki.Name{O: "verif", CN: []byte("issuer")},
		Key: c09Subject, Signer: c09Signer, NotBefore: t0, NotAfter: t0.Add(24 * time.Hour), PathLen: -1}
	if n.HasSAN {
		san := &pki.SAN{}
		for _, d := range n.DNS {
			san.DNS = append(san.DNS, []byte(d))
		}
		san.IPs = n.IPs
		if extraSAN != nil {
			extraSAN(san)
		}
		s.SAN = san
	}
	pc := pki.Build(s)
	zc, err := x509.ParseCertificate(pc.DER)
	return zc, pc, err
}

// faithful reports whether zcrypto's parsed names equal the ground truth.
func faithful(zc *x509.Certificate, n *hostNames) bool {
	if len(zc.DNSNames) != len(n.DNS) || len(zc.IPAddresses) != len(n.IPs) || zc.Subject.CommonName != n.CN {
		return false
	}
	for i := range n.DNS {
		if zc.DNSNames[i] != n.DNS[i] {
			return false
		}
	}
	for i := range n.IPs {
		if !bytes.Equal([]byte(zc.IPAddresses[i]), n.IPs[i]) {
			return false
		}
	}
	return true
}

type c09Stats struct {
	c                                *core.Ctx
	accept, reject, divergent, nontr int
	followsPrimary                   int
	perDim                           [16]int
}

func (st *c09Stats) flush() {
	c := st.c
	c.Count("observed_accept", st.accept)
	c.Count("observed_reject", st.reject)
	c.Count("readings_divergent_cases(not asserted)", st.divergent)
	c.Count("readings_divergent_code_follows_primary", st.followsPrimary)
	for i, d := range readingDims {
		if st.perDim[i] > 0 {
			c.Count("reading_differs:"+d.name, st.perDim[i])
		}
	}
}

func modeOf(n *hostNames, host string) string {
	if _, isIP := classifyIP(host, reading{}); isIP {
		return "ip-host"
	}
	switch {
	case !n.HasSAN:
		return "cn-fallback"
	case len(n.DNS) == 0:
		return "san-without-dns"
	default:
		return "dns-san"
	}
}

func labelsOf(s string) int { return strings.Count(strings.TrimSuffix(s, "."), ".") + 1 }

func nontrivialHost(n *hostNames, host string, v hostVerdict) bool {
	if v.Primary {
		return true
	}
	if _, isIP := classifyIP(host, reading{}); isIP {
		return len(n.IPs) > 0
	}
	if host == "" {
		return false
	}
	cands := n.DNS
	if !n.HasSAN {
		cands = []string{n.CN}
	}
	for _, c := range cands {
		if c != "" && labelsOf(c) == labelsOf(host) {
			return true
		}
	}
	return false
}

// checkHost runs one (certificate, host) case. It returns whether the case was non-trivial.
func (st *c09Stats) checkHost(zc *x509.Certificate, pc *pki.Cert, n *hostNames, host, space string) bool {
	c := st.c
	var err error
	if pi := core.Guard(func() { err = zc.VerifyHostname(host) }); pi != nil {
		c.Violation(pi.Key, pi.Stack, space, map[string]any{"cert": core.FullHex(pc.DER), "host_hex": core.FullHex([]byte(host))})
		return false
	}
	got := err == nil
	if got {
		st.accept++
	} else {
		st.reject++
	}
	v := refHostVerdict(n, host)
	if v.MayAccept && v.MayReject {
		st.divergent++
		if got == v.Primary {
			st.followsPrimary++
		}
		for i := range readingDims {
			if v.Divergent&(1<<uint(i)) != 0 {
				st.perDim[i]++
			}
		}
	}
	if (got && !v.MayAccept) || (!got && !v.MayReject) {
		what := "rejects-but-every-reading-accepts"
		if got {
			what = "accepts-but-every-reading-rejects"
		}
		c.Violation("hostname:"+what+":"+modeOf(n, host),
			fmt.Sprintf("VerifyHostname(%q) = %v; reference (all readings) = %v\nSAN extension present=%v DNS=%q IPs=%x CN=%q", host, err, v.Primary, n.HasSAN, n.DNS, n.IPs, n.CN),
			space, map[string]any{"cert": core.FullHex(pc.DER), "host": host, "host_hex": core.FullHex([]byte(host)),
				"has_san": n.HasSAN, "dns": n.DNS, "ips": fmt.Sprintf("%x", n.IPs), "cn": n.CN})
	}
	nt := nontrivialHost(n, host, v)
	if nt {
		st.nontr++
	}
	return nt
}

func allStrings(alpha string, maxLen int) []string {
	out := []string{""}
	prev := []string{""}
	for l := 1; l <= maxLen; l++ {
		var cur []string
		for _, p := range prev {
			for i := 0; i < len(alpha); i++ {
				cur = append(cur, p+alpha[i:i+1])
			}
		}
		out = append(out, cur...)
		prev = cur
	}
	return out
}

// certificate modes of the exhaustive part
const (
	modeSANDNS     = iota // SAN extension with the pattern as its DNS name, no CN
	modeCNOnly            // no SAN extension, CN = pattern
	modeSANIPOnly         // SAN extension with one IP only, CN = pattern (CN must be ignored)
	modeSANOtherCN        // SAN extension with an unrelated DNS name, CN = pattern (CN must be ignored)
	modeSANEmpty          // SAN extension with an empty GeneralNames, CN = pattern (CN must be ignored)
	modeSANEmail          // SAN extension with only an rfc822Name, CN = pattern (CN must be ignored)
	numModes
)

func namesForMode(mode int, pattern string) (*hostNames, []byte, func(*pki.SAN)) {
	switch mode {
	case modeSANDNS:
		return &hostNames{HasSAN: true, DNS: []string{pattern}}, nil, nil
	case modeCNOnly:
		return &hostNames{CN: pattern}, []byte(pattern), nil
	case modeSANIPOnly:
		return &hostNames{HasSAN: true, IPs: [][]byte{{10, 1, 1, 1}}, CN: pattern}, []byte(pattern), nil
	case modeSANOtherCN:
		return &hostNames{HasSAN: true, DNS: []string{"zz.zz.zz.zz.zz.zz"}, CN: pattern}, []byte(pattern), nil
	case modeSANEmpty:
		return &hostNames{HasSAN: true, CN: pattern}, []byte(pattern), nil
	default:
		return &hostNames{HasSAN: true, CN: pattern}, []byte(pattern), func(s *pki.SAN) { s.Emails = []string{"a@a"} }
	}
}

func runC09(c *core.Ctx) {
	st := &c09Stats{c: c}
	defer st.flush()

	// ---- (a) exhaustive small sub-space --------------------------------------------------
	type space struct {
		alpha  string
		maxLen int
		modes  []int
	}
	spaces := []space{{"aA.*", c.Pick(4, 5), []int{modeSANDNS, modeCNOnly, modeSANIPOnly, modeSANOtherCN, modeSANEmpty, modeSANEmail}}}
	if c.Thorough() {
		spaces = append(spaces, space{"aAb.*", 5, []int{modeSANDNS, modeCNOnly}})
	}
	for _, sp := range spaces {
		strs := allStrings(sp.alpha, sp.maxLen)
		var pairs, nontr int64
		for pi := c.Shard; pi < len(strs); pi += c.NShards {
			pattern := strs[pi]
			for _, mode := range sp.modes {
				n, cn, extra := namesForMode(mode, pattern)
				zc, pc, err := buildHostCert(n, cn, extra)
				if err != nil {
					c.Count("cert_rejected_by_parser", 1)
					continue
				}
				if !faithful(zc, n) {
					c.Count("parsed_names_differ_from_ground_truth(skipped)", 1)
					continue
				}
				label := fmt.Sprintf("exh:%s<=%d", sp.alpha, sp.maxLen)
				for _, host := range strs {
					if st.checkHost(zc, pc, n, host, label) {
						nontr++
					}
					pairs++
				}
				if pi == c.Shard && mode == modeSANDNS && c.WantSample() {
					c.Sample(map[string]any{"space": label, "pattern": pattern, "hosts": len(strs)})
				}
			}
		}
		c.Eval(int(pairs))
		c.NontrivialEnumerated(nontr)
		c.Exhaustive(fmt.Sprintf("pattern,host in strings<=%d over {%s} x %d certificate modes", sp.maxLen, sp.alpha, len(sp.modes)), pairs)
		c.Count("exhaustive_pairs", int(pairs))
	}

	// ---- (b) IP literal grid -----------------------------------------------------------
	ipHosts := []string{"1.1.1.1", "[1.1.1.1]", "::1", "[::1]", "::ffff:1.1.1.1", "[::ffff:1.1.1.1]", "::ffff:101:101", "0:0:0:0:0:0:0:1",
		"::1%eth0", "[::1%eth0]", "[::1%25eth0]", "1.1.1.1.", "1.1.1", "[::1", "::1]", "[]", "[[::1]]", "a::b", "A::B", "[a::b]", "[A::b]",
		"1.1.1.1:1", "[::1]:1", "::", "[::]", "1::", "[1::]", "1.1.1.1%a", "0:0:0:0:0:ffff:101:101", "::1.1.1.1", "[1.1.1.1", " 1.1.1.1", "1.1.1.1 ", "::ffff:1.1.1.1.", "[:]", "[a]", "[1]", "[.]"}
	ipSANs := [][]byte{{1, 1, 1, 1}, to16([]byte{1, 1, 1, 1}), append(make([]byte, 15), 1), {0, 0xa, 0, 0, 0, 0, 0, 0, 0, 0, 0, 0, 0, 0, 0, 0xb}, make([]byte, 16),
		append(make([]byte, 12), 1, 1, 1, 1)}
	var gridCases, gridNT int64
	idx := 0
	for mask := 0; mask < 1<<len(ipSANs); mask++ {
		for textual := 0; textual < 3; textual++ { // 0: no textual name; 1: DNS SAN == host; 2: no SAN, CN == host
			for hi, host := range ipHosts {
				idx++
				if idx%c.NShards != c.Shard {
					continue
				}
				n := &hostNames{}
				for i := range ipSANs {
					if mask&(1<<i) != 0 {
						n.IPs = append(n.IPs, ipSANs[i])
					}
				}
				n.HasSAN = len(n.IPs) > 0
				var cn []byte
				switch textual {
				case 1:
					n.HasSAN = true
					n.DNS = []string{host}
				case 2:
					if n.HasSAN {
						continue
					}
					n.CN = host
					cn = []byte(host)
				}
				zc, pc, err := buildHostCert(n, cn, nil)
				if err != nil {
					c.Count("cert_rejected_by_parser", 1)
					continue
				}
				if !faithful(zc, n) {
					c.Count("parsed_names_differ_from_ground_truth(skipped)", 1)
					continue
				}
				if st.checkHost(zc, pc, n, host, "ip-grid") {
					gridNT++
				}
				// and every other spelling against the same certificate
				for hj, other := range ipHosts {
					if hj != hi {
						if st.checkHost(zc, pc, n, other, "ip-grid") {
							gridNT++
						}
						gridCases++
					}
				}
				gridCases++
			}
		}
	}
	c.Eval(int(gridCases))
	c.NontrivialEnumerated(gridNT)
	c.Exhaustive("ip-literal spellings x IP SAN subsets x textual-name modes", gridCases)
	c.Count("ip_grid_cases", int(gridCases))

	// ---- (b2) labels of <= 2 units over ASCII letters, stray bytes, U+FFFD: every (pattern, host) pair ----
	{
		units := []string{"a", "A", "\x80", "\xfe", "\xff", "\xc3", "\xa9", "\xef\xbf\xbd"}
		labels := []string{""}
		for _, x := range units {
			labels = append(labels, x)
			for _, y := range units {
				labels = append(labels, x+y)
			}
		}
		var n2, nt2 int64
		idx := 0
		for _, shape := range []struct{ psuf, hsuf string }{{"", ""}, {".A", ".a"}, {".a\xfe", ".A\xfe"}} {
			for _, pl := range labels {
				for _, mode := range []int{modeSANDNS, modeCNOnly, modeSANOtherCN} {
					idx++
					if idx%c.NShards != c.Shard {
						continue
					}
					pattern := pl + shape.psuf
					n, cn, extra := namesForMode(mode, pattern)
					zc, pc, err := buildHostCert(n, cn, extra)
					if err != nil {
						c.Count("cert_rejected_by_parser", 1)
						continue
					}
					if !faithful(zc, n) {
						c.Count("parsed_names_differ_from_ground_truth(skipped)", 1)
						continue
					}
					for _, hl := range labels {
						if st.checkHost(zc, pc, n, hl+shape.hsuf, "exh:non-ascii-units<=2") {
							nt2++
						}
						n2++
					}
				}
			}
		}
		c.Eval(int(n2))
		c.NontrivialEnumerated(nt2)
		c.Exhaustive("pattern,host labels of <=2 units over {a A 80 fe ff c3 a9 U+FFFD} x 3 shapes x 3 certificate modes", n2)
		c.Count("non_ascii_unit_pairs", int(n2))
	}

	// ---- (c) random near-misses --------------------------------------------------------
	rng := c.Rng
	ncert := c.PerShard(c.Pick(40000, 1500000))
	for i := 0; i < ncert; i++ {
		n, cn, extra := randomNames(rng)
		zc, pc, err := buildHostCert(n, cn, extra)
		if err != nil {
			c.Count("cert_rejected_by_parser", 1)
			continue
		}
		if !faithful(zc, n) {
			c.Count("parsed_names_differ_from_ground_truth(skipped)", 1)
			continue
		}
		nh := 6 + rng.IntN(6)
		for j := 0; j < nh; j++ {
			host := randomHost(rng, n)
			c.Eval(1)
			if st.checkHost(zc, pc, n, host, "random") {
				c.Nontrivial("r", n.HasSAN, strings.Join(n.DNS, "\x00"), fmt.Sprintf("%x", n.IPs), n.CN, host)
			}
			if i == 0 && j < 2 && c.WantSample() {
				c.Sample(map[string]any{"has_san": n.HasSAN, "dns": fmt.Sprintf("%q", n.DNS), "ips": fmt.Sprintf("%x", n.IPs), "cn": fmt.Sprintf("%q", n.CN), "host": fmt.Sprintf("%q", host)})
			}
		}
		c.Count("random_certificates", 1)
	}
}

var c09Alphabet = []string{"a", "b", "A", "B", "1", ".", ".", "*", "[", "]", ":", "\x80", "\xc3\xa9", "\xc3\x89", "%",
	"\xfe", "\xff", "\xc3", "\xef\xbf\xbd", "\xe2\x84\xaa", "\xc5\xbf", "\xc4\xb0", "k", "K", "s", "i", "I"}

// c09NonASCII are the non-ASCII units of the alphabet: several distinct bytes that are invalid UTF-8 on their own
// (0x80, 0xc3, 0xfe, 0xff, 0xa9), U+FFFD itself, and valid runes with ASCII-looking case partners (e-acute pair, Kelvin sign, long s, dotted I).
var c09NonASCII = []string{"\x80", "\xfe", "\xff", "\xc3", "\xa9", "\xef\xbf\xbd", "\xc3\xa9", "\xc3\x89", "\xe2\x84\xaa", "\xc5\xbf", "\xc4\xb0"}

func randomName(rng *rand.Rand) string {
	switch rng.IntN(10) {
	case 0, 1, 2, 3, 4: // label-structured
		nl := 1 + rng.IntN(4)
		var ls []string
		for i := 0; i < nl; i++ {
			switch rng.IntN(12) {
			case 0:
				ls = append(ls, "*")
			case 1:
				ls = append(ls, "")
			case 2:
				ls = append(ls, "a*")
			case 3:
				ls = append(ls, "\xc3\xa9")
			case 4:
				ls = append(ls, "\xc3\x89b")
			case 5:
				ls = append(ls, "\x80")
			case 6: // a label mixing ASCII of both cases with one non-ASCII unit
				l := []string{"a", "A", "b", "B", "k", "K", "s", "I"}[rng.IntN(8)] + c09NonASCII[rng.IntN(len(c09NonASCII))]
				if rng.IntN(2) == 0 {
					l += []string{"a", "B", "1"}[rng.IntN(3)]
				}
				ls = append(ls, l)
			default:
				l := 1 + rng.IntN(2)
				s := ""
				for k := 0; k < l; k++ {
					s += []string{"a", "b", "A", "B", "1"}[rng.IntN(5)]
				}
				ls = append(ls, s)
			}
		}
		s := strings.Join(ls, ".")
		if rng.IntN(6) == 0 {
			s += "."
		}
		return s
	case 5: // something that looks like an IP literal
		return []string{"1.1.1.1", "::1", "[::1]", "1::1", "a::b", "[1.1.1.1]", "::ffff:1.1.1.1", "1.1.1", "1.1.1.1.", "::1%a"}[rng.IntN(10)]
	default: // free string over the alphabet
		l := rng.IntN(13)
		s := ""
		for len(s) < l {
			s += c09Alphabet[rng.IntN(len(c09Alphabet))]
		}
		return s
	}
}

var randomIPs = [][]byte{{1, 1, 1, 1}, {1, 1, 1, 2}, to16([]byte{1, 1, 1, 1}), append(make([]byte, 15), 1), make([]byte, 16),
	{0, 0xa, 0, 0, 0, 0, 0, 0, 0, 0, 0, 0, 0, 0, 0, 0xb}, {0, 1, 0, 0, 0, 0, 0, 0, 0, 0, 0, 0, 0, 0, 0, 1}}

func randomNames(rng *rand.Rand) (*hostNames, []byte, func(*pki.SAN)) {
	n := &hostNames{}
	var cn []byte
	var extra func(*pki.SAN)
	if rng.IntN(4) != 0 { // CN present
		n.CN = randomName(rng)
		cn = []byte(n.CN)
	}
	switch rng.IntN(8) {
	case 0, 1: // no SAN
	case 2: // SAN, IPs only
		n.HasSAN = true
	case 3: // SAN, empty or other name types only
		n.HasSAN = true
		if rng.IntN(2) == 0 {
			extra = func(s *pki.SAN) { s.URIs = []string{"a:b"} }
		}
		return n, cn, extra
	default:
		n.HasSAN = true
		for k := 1 + rng.IntN(3); k > 0; k-- {
			n.DNS = append(n.DNS, randomName(rng))
		}
	}
	if n.HasSAN && (len(n.DNS) == 0 || rng.IntN(3) == 0) {
		for k := 1 + rng.IntN(2); k > 0; k-- {
			n.IPs = append(n.IPs, randomIPs[rng.IntN(len(randomIPs))])
		}
	}
	return n, cn, extra
}

func swapCase(rng *rand.Rand, s string) string {
	b := []byte(s)
	for i, ch := range b {
		if rng.IntN(2) == 0 {
			switch {
			case 'a' <= ch && ch <= 'z':
				b[i] = ch - 32
			case 'A' <= ch && ch <= 'Z':
				b[i] = ch + 32
			}
		}
	}
	return string(b)
}

// randomHost derives a host from the certificate's names by a near-miss edit (or draws a fresh name).
func randomHost(rng *rand.Rand, n *hostNames) string {
	var pool []string
	pool = append(pool, n.DNS...)
	if n.CN != "" {
		pool = append(pool, n.CN)
	}
	for _, ip := range n.IPs {
		if len(ip) == 4 {
			pool = append(pool, fmt.Sprintf("%d.%d.%d.%d", ip[0], ip[1], ip[2], ip[3]), fmt.Sprintf("::ffff:%d.%d.%d.%d", ip[0], ip[1], ip[2], ip[3]))
		} else {
			a := fmt.Sprintf("%x:%x:%x:%x:%x:%x:%x:%x", int(ip[0])<<8|int(ip[1]), int(ip[2])<<8|int(ip[3]), int(ip[4])<<8|int(ip[5]), int(ip[6])<<8|int(ip[7]),
				int(ip[8])<<8|int(ip[9]), int(ip[10])<<8|int(ip[11]), int(ip[12])<<8|int(ip[13]), int(ip[14])<<8|int(ip[15]))
			pool = append(pool, a)
			if bytes.Equal(ip[:12], v4InV6Prefix) {
				pool = append(pool, fmt.Sprintf("%d.%d.%d.%d", ip[12], ip[13], ip[14], ip[15]))
			}
		}
	}
	if len(pool) == 0 || rng.IntN(8) == 0 {
		return randomName(rng)
	}
	h := pool[rng.IntN(len(pool))]
	for k := rng.IntN(3); k >= 0; k-- {
		ls := strings.Split(h, ".")
		switch rng.IntN(17) {
		case 0: // verbatim
		case 1:
			h = swapCase(rng, h)
		case 2:
			h += "."
		case 3:
			h = strings.TrimSuffix(h, ".")
		case 4: // instantiate a wildcard / replace a label
			ls[rng.IntN(len(ls))] = []string{"a", "b", "ab", "1", "*", "", "a.b"}[rng.IntN(7)]
			h = strings.Join(ls, ".")
		case 5: // replace every '*' label
			for i := range ls {
				if ls[i] == "*" {
					ls[i] = []string{"a", "B", "1"}[rng.IntN(3)]
				}
			}
			h = strings.Join(ls, ".")
		case 6: // drop a label
			i := rng.IntN(len(ls))
			h = strings.Join(append(append([]string{}, ls[:i]...), ls[i+1:]...), ".")
		case 7: // add a label
			h = []string{"a.", "*.", ".", "b."}[rng.IntN(4)] + h
		case 8:
			h = "[" + h + "]"
		case 9:
			h = strings.TrimSuffix(strings.TrimPrefix(h, "["), "]")
		case 10:
			h += "%a"
		case 11: // e-acute <-> E-acute
			if strings.Contains(h, "\xc3\xa9") {
				h = strings.Replace(h, "\xc3\xa9", "\xc3\x89", 1)
			} else {
				h = strings.Replace(h, "\xc3\x89", "\xc3\xa9", 1)
			}
		case 12: // partial label edit
			i := rng.IntN(len(ls))
			ls[i] = strings.Replace(ls[i], "*", []string{"a", "", "b*"}[rng.IntN(3)], 1)
			h = strings.Join(ls, ".")
		case 13: // replace one non-ASCII unit (or one stray byte) by a different one, everything else verbatim
			h = swapNonASCII(rng, h)
		case 14:
			h += ".."
		case 15:
			h = h + h[len(h)/2:]
		default:
			if len(h) > 0 {
				i := rng.IntN(len(h))
				h = h[:i] + c09Alphabet[rng.IntN(len(c09Alphabet))] + h[i+1:]
			}
		}
	}
	return h
}

// swapNonASCII replaces one non-ASCII unit of h (a known unit if one is found, else a single byte >= 0x80) by another unit.
func swapNonASCII(rng *rand.Rand, h string) string {
	type hit struct{ at, n int }
	var hits []hit
	for i := 0; i < len(h); i++ {
		if h[i] < 0x80 {
			continue
		}
		n := 1
		for _, u := range c09NonASCII {
			if len(u) > n && strings.HasPrefix(h[i:], u) {
				n = len(u)
			}
		}
		hits = append(hits, hit{i, n})
		if rng.IntN(2) == 0 { // also offer the single byte, so that a multi-byte rune can be broken up
			hits = append(hits, hit{i, 1})
		}
		i += n - 1
	}
	if len(hits) == 0 {
		if len(h) == 0 {
			return h
		}
		i := rng.IntN(len(h))
		return h[:i] + c09NonASCII[rng.IntN(len(c09NonASCII))] + h[i:]
	}
	x := hits[rng.IntN(len(hits))]
	repl := c09NonASCII[rng.IntN(len(c09NonASCII))]
	for repl == h[x.at:x.at+x.n] {
		repl = c09NonASCII[rng.IntN(len(c09NonASCII))]
	}
	return h[:x.at] + repl + h[x.at+x.n:]
}
