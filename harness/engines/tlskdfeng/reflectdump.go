package tlskdfeng

import (
	"encoding/hex"
	"encoding/json"
	"reflect"
	"sort"
)

// dumpMsg turns a message struct (pointer held in VerifMsg.V) into a canonical
// tree: field name → value, with the "raw" marshal cache left out, nil and
// empty slices identified, byte slices and strings as hex. Unexported fields
// are read through reflection's kind-specific getters (read-only access).
func dumpMsg(v any) map[string]any {
	rv := reflect.ValueOf(v)
	for rv.Kind() == reflect.Pointer && !rv.IsNil() {
		rv = rv.Elem()
	}
	if rv.Kind() != reflect.Struct {
		return map[string]any{}
	}
	return dumpStruct(rv)
}

func dumpStruct(rv reflect.Value) map[string]any {
	out := map[string]any{}
	t := rv.Type()
	for i := 0; i < rv.NumField(); i++ {
		name := t.Field(i).Name
		if name == "raw" {
			continue
		}
		out[name] = dumpValue(rv.Field(i))
	}
	return out
}

func dumpValue(v reflect.Value) any {
	switch v.Kind() {
	case reflect.Bool:
		return v.Bool()
	case reflect.Uint, reflect.Uint8, reflect.Uint16, reflect.Uint32, reflect.Uint64:
		return v.Uint()
	case reflect.Int, reflect.Int8, reflect.Int16, reflect.Int32, reflect.Int64:
		return v.Int()
	case reflect.String:
		return hex.EncodeToString([]byte(v.String()))
	case reflect.Slice, reflect.Array:
		if v.Type().Elem().Kind() == reflect.Uint8 {
			b := make([]byte, v.Len())
			for i := range b {
				b[i] = byte(v.Index(i).Uint())
			}
			return hex.EncodeToString(b)
		}
		list := make([]any, 0, v.Len())
		for i := 0; i < v.Len(); i++ {
			list = append(list, dumpValue(v.Index(i)))
		}
		return list
	case reflect.Struct:
		return dumpStruct(v)
	case reflect.Pointer, reflect.Interface:
		if v.IsNil() {
			return nil
		}
		return dumpValue(v.Elem())
	}
	return "?" + v.Kind().String()
}

func canon(v any) string {
	b, _ := json.Marshal(v) // maps are written with sorted keys
	return string(b)
}

// firstDiff names the first (alphabetically) top-level field whose canonical value differs.
func firstDiff(a, b map[string]any) (field string, av, bv any) {
	names := make([]string, 0, len(a))
	for k := range a {
		names = append(names, k)
	}
	sort.Strings(names)
	for _, k := range names {
		if canon(a[k]) != canon(b[k]) {
			return k, a[k], b[k]
		}
	}
	return "", nil, nil
}

// abbreviate shortens long hex strings inside a dump so it fits a violation record.
func abbreviate(v any) any {
	switch x := v.(type) {
	case string:
		if len(x) > 160 {
			return x[:96] + "…(" + itoa(len(x)/2) + " bytes)"
		}
		return x
	case []any:
		out := make([]any, 0, len(x))
		for i, e := range x {
			if i >= 12 {
				out = append(out, "…("+itoa(len(x))+" elements)")
				break
			}
			out = append(out, abbreviate(e))
		}
		return out
	case map[string]any:
		out := map[string]any{}
		for k, e := range x {
			out[k] = abbreviate(e)
		}
		return out
	}
	return v
}

func itoa(n int) string {
	b, _ := json.Marshal(n)
	return string(b)
}
