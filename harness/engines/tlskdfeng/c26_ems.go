package tlskdfeng

// Direct comparison of zcrypto's extended-master-secret derivation (RFC 7627 §4).
// The function exists in zcrypto only since /verif/fixes/C26-extended-master-secret.diff;
// this file and /repo/tls/zz_verif_kdf_ems.go can be dropped together to build
// against a tree without it (the end-to-end leg then still observes the defect).

import (
	"math/rand/v2"

	ztls "github.com/zmap/zcrypto/tls"
)

func init() {
	extraKDFCases = append(extraKDFCases, func(e *kdfEnv, r *rand.Rand) {
		s := e.pickSuite(r)
		version := kdfVersions[r.IntN(3)]
		p, tag, ok := e.params(s, version)
		if !ok {
			return
		}
		pms := rbytes(r, []int{48, 48, 32, 66, 0, 1, 47, 128}[r.IntN(8)])
		// the session hash as the handshake would compute it, or arbitrary bytes
		var sessionHash []byte
		if r.IntN(3) == 0 {
			sessionHash = rbytes(r, rlen(r, 0, 64))
		} else {
			sessionHash = p.SessionHash(rbytes(r, rlen(r, 0, 600)))
		}
		in := suiteIn(s, version)
		in["fn"], in["preMaster"], in["sessionHash"] = "extMasterFromPreMasterSecret", hx(pms), hx(sessionHash)
		var got []byte
		if e.guard("extMasterFromPreMasterSecret", in, func() { got = ztls.VerifExtMasterFromPreMasterSecret(version, s, pms, sessionHash) }) {
			e.cmp("extMasterFromPreMasterSecret:"+tag, got, p.ExtendedMasterSecret(pms, sessionHash), in)
		}
	})
}
