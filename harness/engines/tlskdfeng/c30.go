package tlskdfeng

// C30 — TLS handshake messages and session states round-trip and reject truncation.
//
// Values come from the seeded generator of the H-tls-msg hook (it must live in
// package tls because the fields are unexported). For each value:
//   - marshal, unmarshal into a fresh receiver: must succeed;
//   - the decoded value must equal the original: both are dumped by reflection
//     (marshal cache "raw" excluded, nil ≡ empty vector) and compared field by field;
//   - prefix rule: no strict prefix of the encoding is accepted. Every prefix is
//     tried for encodings up to 2 KiB, a sample (both ends, random cuts, structural
//     offsets) for longer ones. Excluded, as the statement says, are the message
//     types with an optional tail: for ClientHello / ServerHello the one prefix that
//     ends exactly where the optional extension block starts (offset computed by the
//     independent parser of internal/ref/tlswire); for ServerKeyExchange (opaque body,
//     no inner structure) only prefixes shorter than the 4-byte header are asserted,
//     longer accepted prefixes are counted, not asserted (interpretation, DESIGN §4 C30).

import (
	"fmt"
	"math/rand/v2"

	ztls "github.com/zmap/zcrypto/tls"

	"verifharness/internal/core"
	"verifharness/internal/ref/tlswire"
)

func init() {
	core.RegisterMeta("C30", core.Meta{
		Rule: "22 kinds (18 handshake message types, CertificateRequest/CertificateVerify in both the TLS 1.2 and the older format, sessionState, sessionStateTLS13); values from the seeded in-package generator: " +
			"minimal, all-optional-parts, each optional part alone, each absent, each vector at the exact maximum its container allows, boundary-biased lengths (min, min+1, 255, 256, 257, max) and typical random values; " +
			"non-trivial = a value whose encoding was produced, decoded and compared (distinct by hash of kind + encoding); every strict prefix (<= 2 KiB) or a sample of prefixes is then offered to unmarshal; " +
			"lifetime legs with the same round-trip oracle: batches of 2..8 values marshalled first (returned slices kept, not copied, hashed) and decoded afterwards, the same value marshalled twice, " +
			"and 6 goroutines doing marshal / Gosched / unmarshal / compare concurrently; " +
			"mutators of a marshalled message: clientHello with 1..4 PSK identities and binders of 32/48 bytes, marshal -> updateBinders (also after the HelloRetryRequest edit + cache reset) -> marshal/unmarshal/marshalWithoutBinders compared with a fresh value",
		MinNontrivial:         12000,
		MinNontrivialThorough: 150000,
		Assumptions: []string{
			"the generator stays inside the wire format's domain (vector bounds of RFC 5246/8446/5077/6066/6962/7301); fields never carried on the wire (clientHello.sctEnabled/unknownExtensions, serverKeyExchange.digest, sessionState.usedOldKey) are left zero",
			"equality is field-wise over the struct fields except the marshal cache, with nil and empty vectors identified",
			"ClientHello/ServerHello: the prefix ending at the start of the optional extension block is an expected acceptance; ServerKeyExchange: only prefixes shorter than the header are asserted",
		},
	}, runC30)
}

func runC30(c *core.Ctx) {
	kinds := ztls.VerifMsgKinds()
	randomPerKind := c.Pick(400, 20000)
	idx := 0
	mine := func() bool { idx++; return (idx-1)%c.NShards == c.Shard }
	for _, kind := range kinds {
		// structured cases, spread over the shards
		g := c.GlobalRng("structured/" + kind)
		type mc struct{ mode, arg int }
		cases := []mc{{ztls.VerifGenMinimal, 0}, {ztls.VerifGenAll, 0}, {ztls.VerifGenAll, 0}}
		for k := 0; k < ztls.VerifMsgOptions(kind); k++ {
			cases = append(cases, mc{ztls.VerifGenOnly, k}, mc{ztls.VerifGenAllBut, k})
		}
		for k := 0; k < ztls.VerifMsgMaximalFields(kind); k++ {
			cases = append(cases, mc{ztls.VerifGenMaximal, k})
		}
		for i, k := range cases {
			// every shard advances the shared stream identically, so the split is consistent
			sub := rand.New(rand.NewPCG(g.Uint64(), uint64(i)))
			if mine() {
				c30Value(c, kind, sub, k.mode, k.arg, fmt.Sprintf("%s/structured/%d", kind, i))
				c.Count("structured_values", 1)
			}
		}
		// random cases
		r := c.SubRng("random/" + kind)
		for i, n := 0, c.PerShard(randomPerKind); i < n; i++ {
			mode := ztls.VerifGenTypical
			if i%3 == 1 {
				mode = ztls.VerifGenBoundary
			}
			c30Value(c, kind, r, mode, 0, fmt.Sprintf("%s/random/%d/%d", kind, c.Shard, i))
		}
	}
	// encodings must stay valid while the caller holds them (c30_batch.go)
	c30Batches(c)
	c30Concurrent(c)
	// methods that edit or reuse the cached encoding (c30_mutators.go)
	c30Mutators(c)
}

func modeName(mode, arg int) string {
	names := []string{"typical", "minimal", "boundary", "maximal", "only", "allbut", "all"}
	if mode == ztls.VerifGenMaximal || mode == ztls.VerifGenOnly || mode == ztls.VerifGenAllBut {
		return fmt.Sprintf("%s(%d)", names[mode], arg)
	}
	return names[mode]
}

func c30Value(c *core.Ctx, kind string, r *rand.Rand, mode, arg int, caseID string) {
	c.Eval(1)
	var v *ztls.VerifMsg
	if pi := core.Guard(func() { v = ztls.VerifGenerateMsg(kind, r, mode, arg) }); pi != nil || v == nil {
		c.Violation("harness:c30-generator:"+kind, fmt.Sprintf("generator failed in mode %s: %v", modeName(mode, arg), pi), caseID, nil)
		return
	}
	orig := dumpMsg(v.V)
	input := map[string]any{"kind": kind, "mode": modeName(mode, arg), "value": abbreviate(orig)}
	var enc []byte
	if pi := core.Guard(func() { enc = v.Marshal() }); pi != nil {
		c.Violation("roundtrip:"+kind+":marshal-"+panicKey(pi), pi.Value+"\n"+pi.Stack, caseID, input)
		return
	}
	input["encoding"] = hx(enc)
	c.Max("encoding_bytes", len(enc))
	recv := ztls.VerifNewMsg(kind)
	var ok bool
	if pi := core.Guard(func() { ok = recv.Unmarshal(enc) }); pi != nil {
		c.Violation("roundtrip:"+kind+":unmarshal-"+panicKey(pi), pi.Value+"\n"+pi.Stack, caseID, input)
		return
	}
	if !ok {
		c.Violation("roundtrip:"+kind+":unmarshal-rejects-own-encoding", fmt.Sprintf("%s value (mode %s) marshals to %d bytes that unmarshal refuses", kind, modeName(mode, arg), len(enc)), caseID, input)
		return
	}
	got := dumpMsg(recv.V)
	if field, a, b := firstDiff(orig, got); field != "" {
		input["decoded"] = abbreviate(got)
		c.Violation("roundtrip:"+kind+":field:"+field, fmt.Sprintf("%s.%s: marshalled %s, decoded %s", kind, field, canon(abbreviate(a)), canon(abbreviate(b))), caseID, input)
	} else {
		c.Nontrivial(kind, enc)
		c.Count("roundtrips_ok:"+kind, 1)
		if c.WantSample() && len(enc) < 200 && len(enc) > 8 {
			c.Sample(map[string]any{"kind": kind, "mode": modeName(mode, arg), "encoding": hx(enc)})
		}
	}

	// ---- prefix rule
	excluded := -1
	assertFrom, assertTo := 0, len(enc) // prefixes p with assertFrom <= p < assertTo are asserted
	switch kind {
	case "clientHello":
		if ch, err := tlswire.ParseClientHello(enc); err == nil {
			excluded = ch.TailOffset
		} else {
			c.Count("reference_parser_rejected_encoding:clientHello", 1)
			return
		}
	case "serverHello":
		if sh, err := tlswire.ParseServerHello(enc); err == nil {
			excluded = sh.TailOffset
		} else {
			c.Count("reference_parser_rejected_encoding:serverHello", 1)
			return
		}
	case "serverKeyExchange":
		if assertTo > 4 {
			assertTo = 4
		}
	}
	try := func(p int) {
		if p < 0 || p >= len(enc) {
			return
		}
		rc := ztls.VerifNewMsg(kind)
		var acc bool
		if pi := core.Guard(func() { acc = rc.Unmarshal(enc[:p]) }); pi != nil {
			in := map[string]any{"kind": kind, "encoding": hx(enc), "prefix_len": p}
			c.Violation("prefix:"+kind+":"+panicKey(pi), fmt.Sprintf("unmarshal of the %d-byte prefix of a %d-byte %s panics: %s", p, len(enc), kind, pi.Value), caseID, in)
			return
		}
		c.Count("prefixes_tried", 1)
		if !acc {
			return
		}
		switch {
		case p == excluded:
			c.Count("expected_acceptance_at_optional_tail:"+kind, 1)
		case p < assertFrom || p >= assertTo:
			c.Count("accepted_prefix_not_asserted:"+kind, 1)
		default:
			in := map[string]any{"kind": kind, "encoding": hx(enc), "prefix_len": p, "value": abbreviate(orig)}
			c.Violation("prefix-accepted:"+kind, fmt.Sprintf("the %d-byte strict prefix of a valid %d-byte %s encoding is accepted", p, len(enc), kind), caseID, in)
		}
	}
	if len(enc) <= 2048 {
		for p := 0; p < len(enc); p++ {
			try(p)
		}
		return
	}
	for p := 0; p < 96; p++ {
		try(p)
		try(len(enc) - 1 - p)
	}
	if excluded >= 0 {
		for d := -3; d <= 3; d++ {
			try(excluded + d)
		}
	}
	// deterministic pseudo-random cuts derived from the encoding itself
	pr := rand.New(rand.NewPCG(uint64(len(enc)), uint64(enc[len(enc)/2])<<8|uint64(enc[len(enc)-1])))
	for i := 0; i < 200; i++ {
		try(pr.IntN(len(enc)))
	}
}
