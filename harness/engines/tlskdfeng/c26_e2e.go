package tlskdfeng

// End-to-end leg of C26: a zcrypto client (ClientHello built from a
// ClientFingerprintConfiguration, with or without the extended_master_secret
// extension) handshakes with Go's crypto/tls server over net.Pipe. The wire is
// tapped in both directions; the reference recomputes the master secret the
// RFCs define for what was negotiated and compares it with the one the zcrypto
// client wrote to its key log; for AES-GCM suites the client's Finished record
// must decrypt under the reference key block and carry the reference verify_data.

import (
	"bytes"
	"crypto/aes"
	"crypto/cipher"
	"crypto/rsa"
	gotls "crypto/tls"
	gox509 "crypto/x509"
	"crypto/x509/pkix"
	"encoding/binary"
	"encoding/hex"
	"fmt"
	"io"
	"math/big"
	"net"
	"strings"
	"sync"
	"time"

	ztls "github.com/zmap/zcrypto/tls"

	"verifharness/internal/core"
	"verifharness/internal/keys"
	"verifharness/internal/ref/tlskdf"
	"verifharness/internal/ref/tlswire"
)

type tapConn struct {
	net.Conn
	out lockedBuf
}

func (t *tapConn) Write(p []byte) (int, error) {
	t.out.Write(p)
	return t.Conn.Write(p)
}

var (
	e2eCertOnce sync.Once
	e2eCert     gotls.Certificate
	e2eKey      *rsa.PrivateKey
	e2eCertErr  error
)

var e2eTime = time.Unix(1750000000, 0)

func e2eServerCert() (gotls.Certificate, *rsa.PrivateKey, error) {
	e2eCertOnce.Do(func() {
		e2eKey = keys.Get().RSAByBits(2048, 2)[0].Std()
		tmpl := &gox509.Certificate{SerialNumber: big.NewInt(26), Subject: pkix.Name{CommonName: "c26.verif.test"},
			NotBefore: time.Unix(1700000000, 0), NotAfter: time.Unix(1900000000, 0), DNSNames: []string{"c26.verif.test"},
			KeyUsage: gox509.KeyUsageDigitalSignature | gox509.KeyUsageKeyEncipherment}
		// PKCS#1 v1.5 signing is deterministic; the reader is not consulted for the signature
		der, err := gox509.CreateCertificate(newDetRand(26, 1), tmpl, tmpl, &e2eKey.PublicKey, e2eKey)
		if err != nil {
			e2eCertErr = err
			return
		}
		e2eCert = gotls.Certificate{Certificate: [][]byte{der}, PrivateKey: e2eKey}
	})
	return e2eCert, e2eKey, e2eCertErr
}

type e2eCase struct {
	version uint16
	suite   uint16
	ems     bool
}

func (k e2eCase) String() string {
	return fmt.Sprintf("%s/0x%04x/ems=%v", versionName(k.version), k.suite, k.ems)
}

func keylogSecret(log []byte, label string) (random, secret []byte) {
	for _, line := range strings.Split(string(log), "\n") {
		f := strings.Fields(line)
		if len(f) == 3 && f[0] == label {
			random, _ = hex.DecodeString(f[1])
			secret, _ = hex.DecodeString(f[2])
			return
		}
	}
	return nil, nil
}

func (e *kdfEnv) endToEnd() {
	c := e.c
	var cases []e2eCase
	for _, ems := range []bool{true, false} {
		for _, v := range kdfVersions {
			cases = append(cases, e2eCase{v, 0x002f, ems}, e2eCase{v, 0x0035, ems}, e2eCase{v, 0xc013, ems}) // AES-CBC-SHA, RSA and ECDHE_RSA
		}
		for _, s := range []uint16{0x009c, 0x009d, 0xc02f, 0xc030, 0x003c} {
			cases = append(cases, e2eCase{tlskdf.VersionTLS12, s, ems})
		}
	}
	reps := c.Pick(1, 8)
	idx := 0
	for rep := 0; rep < reps; rep++ {
		for _, k := range cases {
			idx++
			if (idx-1)%c.NShards != c.Shard {
				continue
			}
			e.runE2E(k, rep)
		}
	}
}

func (e *kdfEnv) runE2E(k e2eCase, rep int) {
	c := e.c
	cert, rsaKey, err := e2eServerCert()
	if err != nil {
		c.Note("end-to-end leg: cannot build the server certificate: %v", err)
		return
	}
	caseID := fmt.Sprintf("e2e/%s/%d", k, rep)
	input := map[string]any{"fn": "end-to-end", "case": k.String(), "rep": rep}

	exts := []ztls.ClientExtension{
		&ztls.SupportedCurvesExtension{Curves: []ztls.CurveID{ztls.CurveP256, ztls.CurveP384}},
		&ztls.PointFormatExtension{Formats: []uint8{0}},
		&ztls.SignatureAlgorithmExtension{SignatureAndHashes: []uint16{0x0401, 0x0501, 0x0601}},
	}
	if k.ems {
		exts = append(exts, &ztls.ExtendedMasterSecretExtension{})
	}
	fp := &ztls.ClientFingerprintConfiguration{HandshakeVersion: k.version, CipherSuites: []uint16{k.suite}, CompressionMethods: []uint8{0}, Extensions: exts}
	ckl, skl := &lockedBuf{}, &lockedBuf{}
	ccfg := &ztls.Config{InsecureSkipVerify: true, ServerName: "c26.verif.test", Rand: newDetRand(uint64(c.Seed), uint64(rep)<<8|1),
		Time: func() time.Time { return e2eTime }, KeyLogWriter: ckl, ClientFingerprintConfiguration: fp, MinVersion: ztls.VersionTLS10}
	scfg := &gotls.Config{Certificates: []gotls.Certificate{cert}, MinVersion: gotls.VersionTLS10, MaxVersion: gotls.VersionTLS12,
		CipherSuites: []uint16{k.suite}, Rand: newDetRand(uint64(c.Seed), uint64(rep)<<8|2), Time: func() time.Time { return e2eTime },
		KeyLogWriter: skl, SessionTicketsDisabled: true}

	a, b := net.Pipe()
	ct, st := &tapConn{Conn: a}, &tapConn{Conn: b}
	client, server := ztls.Client(ct, ccfg), gotls.Server(st, scfg)
	var cerr, serr error
	var cpanic *core.PanicInfo
	var wg sync.WaitGroup
	wg.Add(2)
	go func() {
		defer wg.Done()
		cpanic = core.Guard(func() { cerr = client.Handshake() })
		if cerr != nil || cpanic != nil {
			a.Close()
		}
	}()
	go func() {
		defer wg.Done()
		serr = server.Handshake()
		if serr != nil {
			b.Close()
		}
	}()
	wg.Wait()
	// application data in both directions, then the zcrypto endpoint's exporter (the exporter object was
	// created during the handshake; it is used only now)
	type ekmOut struct {
		label string
		ctx   []byte
		out   []byte
	}
	var ekms []ekmOut
	if cerr == nil && serr == nil && cpanic == nil {
		if appDataRoundTrip(client, server) {
			cs := client.ConnectionState()
			for _, q := range []ekmOut{{label: "EXPORTER-c26-one", ctx: nil}, {label: "EXPORTER-c26-two", ctx: []byte("ctx")}} {
				if pi := core.Guard(func() { q.out, _ = cs.ExportKeyingMaterial(q.label, q.ctx, 40) }); pi == nil && q.out != nil {
					ekms = append(ekms, q)
				}
			}
		} else {
			c.Count("e2e_application_data_failed", 1)
		}
	}
	a.Close()
	b.Close()
	c.Eval(1)
	c.Count("e2e_handshakes", 1)
	if cpanic != nil {
		c.Violation("kdf:e2e:"+panicKey(cpanic), cpanic.Value+"\n"+cpanic.Stack, caseID, input)
		return
	}

	c2s, s2c := ct.out.Bytes(), st.out.Bytes()
	input["client_to_server"], input["server_to_client"] = hx(c2s), hx(s2c)
	input["client_error"], input["server_error"] = fmt.Sprint(cerr), fmt.Sprint(serr)
	crecs, _ := tlswire.ParseRecords(c2s)
	srecs, _ := tlswire.ParseRecords(s2c)
	cmsgs, _ := tlswire.LeadingHandshake(crecs)
	smsgs, _ := tlswire.LeadingHandshake(srecs)
	if len(cmsgs) == 0 || len(smsgs) == 0 {
		c.Count("e2e_no_server_hello", 1)
		return
	}
	ch, err1 := tlswire.ParseClientHello(cmsgs[0].Raw)
	sh, err2 := tlswire.ParseServerHello(smsgs[0].Raw)
	if err1 != nil || err2 != nil {
		c.Count("e2e_unparsable_hello", 1)
		return
	}
	if sh.CipherSuite != k.suite {
		c.Count("e2e_other_suite", 1)
		return
	}
	negotiated := tlswire.HasExtension(ch.Extensions, tlswire.ExtExtendedMasterSecret) && tlswire.HasExtension(sh.Extensions, tlswire.ExtExtendedMasterSecret)
	if k.ems != tlswire.HasExtension(ch.Extensions, tlswire.ExtExtendedMasterSecret) {
		c.Count("e2e_ems_extension_not_as_configured", 1) // C29's business
	}
	var cke *tlswire.Handshake
	var transcript []byte
	transcript = append(transcript, cmsgs[0].Raw...)
	for _, m := range smsgs {
		transcript = append(transcript, m.Raw...)
	}
	for i := 1; i < len(cmsgs); i++ {
		transcript = append(transcript, cmsgs[i].Raw...)
		if cmsgs[i].Type == tlswire.TypeClientKeyExchange {
			cke = &cmsgs[i]
			break
		}
	}
	if cke == nil {
		c.Count("e2e_no_client_key_exchange", 1)
		return
	}
	sp, ok := tlskdf.Suite(k.suite)
	if !ok {
		return
	}
	p := tlskdf.Params{Version: sh.Version, Hash: sp.PRFHash}
	if sh.Version < tlskdf.VersionTLS10 || sh.Version > tlskdf.VersionTLS12 {
		return
	}
	_, clientMaster := keylogSecret(ckl.Bytes(), "CLIENT_RANDOM")
	_, serverMaster := keylogSecret(skl.Bytes(), "CLIENT_RANDOM")
	if len(clientMaster) == 0 {
		c.Count("e2e_client_logged_no_master", 1)
		return
	}
	mode := "plain"
	if negotiated {
		mode = "ems-negotiated"
		c.Count("e2e_ems_negotiated", 1)
	}
	c.Nontrivial("e2e", k.String(), rep)
	input["client_keylog_master"] = hx(clientMaster)
	input["server_keylog_master"] = hx(serverMaster)
	input["extended_master_secret_negotiated"] = negotiated

	// expected master secret
	var want []byte
	how := ""
	if strings.HasPrefix(sp.Name, "TLS_RSA_") && len(cke.Body) > 2 {
		pms, err := rsa.DecryptPKCS1v15(nil, rsaKey, cke.Body[2:])
		if err == nil && len(pms) == 48 {
			plain := p.MasterSecret(pms, ch.Random, sh.Random)
			ext := p.ExtendedMasterSecret(pms, p.SessionHash(transcript))
			input["pre_master_secret"], input["reference_plain_master"], input["reference_extended_master"] = hx(pms), hx(plain), hx(ext)
			want, how = plain, "RFC 5246 §8.1 from the decrypted pre-master secret"
			if negotiated {
				want, how = ext, "RFC 7627 §4 from the decrypted pre-master secret and the session hash of the tapped handshake"
			}
		}
	}
	if want == nil && len(serverMaster) == 48 {
		want, how = serverMaster, "the master secret of the crypto/tls peer (its key log)"
	}
	if want == nil {
		c.Count("e2e_no_reference_master", 1)
		return
	}
	c.Count("e2e_master_compared:"+mode, 1)
	if !bytes.Equal(clientMaster, want) {
		key := "kdf:e2e:master-secret:" + mode
		detail := fmt.Sprintf("%s: zcrypto client master secret %s, expected %s (%s); client error: %v; server error: %v", k, hx(clientMaster), hx(want), how, cerr, serr)
		if negotiated {
			if pm, ok := input["reference_plain_master"].(string); ok && pm == hx(clientMaster) {
				key = "kdf:e2e:master-secret:extended-master-secret-negotiated-but-plain-derivation-used"
			}
		}
		c.Violation(key, detail, caseID, input)
		return
	}
	// ConnectionState.ExportKeyingMaterial of the zcrypto client, after application data, vs RFC 5705 over the logged master secret
	for _, q := range ekms {
		want, _ := p.Exporter(clientMaster, ch.Random, sh.Random, q.label, q.ctx, q.ctx != nil, 40)
		c.Eval(1)
		c.Count("e2e_exporter_compared", 1)
		if !bytes.Equal(q.out, want) {
			input["exporter_label"], input["exporter_zcrypto"], input["exporter_reference"] = q.label, hx(q.out), hx(want)
			c.Violation("kdf:e2e:exporter:"+versionName(sh.Version), fmt.Sprintf("%s: ConnectionState.ExportKeyingMaterial(%q) = %x, RFC 5705 over the logged master secret %x", k, q.label, q.out, want), caseID, input)
		}
	}
	// client Finished under the reference key block (AES-GCM suites)
	if sp.FixedIV != 4 {
		return
	}
	var fin []byte
	for i, r := range crecs {
		if r.Type == tlswire.RecordChangeCipherSpec && i+1 < len(crecs) {
			fin = crecs[i+1].Payload
		}
	}
	if len(fin) < 8+16 {
		c.Count("e2e_no_client_finished", 1)
		return
	}
	kb := p.KeyBlock(clientMaster, ch.Random, sh.Random, sp.MACLen, sp.KeyLen, 4)
	blk, _ := aes.NewCipher(kb.ClientKey)
	gcm, _ := cipher.NewGCM(blk)
	nonce := append(append([]byte{}, kb.ClientIV...), fin[:8]...)
	aad := make([]byte, 13)
	aad[8], aad[9], aad[10] = 22, byte(sh.Version>>8), byte(sh.Version)
	binary.BigEndian.PutUint16(aad[11:], uint16(len(fin)-8-16))
	c.Eval(1)
	pt, err := gcm.Open(nil, nonce, fin[8:], aad)
	if err != nil {
		c.Violation("kdf:e2e:client-finished-not-decryptable-with-rfc-key-block", fmt.Sprintf("%s: %v", k, err), caseID, input)
		return
	}
	c.Count("e2e_client_finished_decrypted", 1)
	if wantVD := p.Finished(clientMaster, true, transcript); len(pt) != 16 || pt[0] != tlswire.TypeFinished || !bytes.Equal(pt[4:], wantVD) {
		input["client_finished_plaintext"], input["reference_verify_data"] = hx(pt), hx(wantVD)
		c.Violation("kdf:e2e:client-verify-data", fmt.Sprintf("%s: Finished plaintext %s, reference verify_data %s", k, hx(pt), hx(wantVD)), caseID, input)
	}
}

// rw is the part of a TLS connection the application-data exchange needs.
type rw interface {
	Read([]byte) (int, error)
	Write([]byte) (int, error)
}

// appDataRoundTrip sends "ping" client→server and "pong" server→client over the (synchronous) pipe.
func appDataRoundTrip(client, server rw) bool {
	okc := make(chan bool, 1)
	go func() {
		buf := make([]byte, 4)
		if _, err := io.ReadFull(readerOf(server), buf); err != nil || string(buf) != "ping" {
			okc <- false
			return
		}
		_, err := server.Write([]byte("pong"))
		okc <- err == nil
	}()
	if _, err := client.Write([]byte("ping")); err != nil {
		return false
	}
	buf := make([]byte, 4)
	if _, err := io.ReadFull(readerOf(client), buf); err != nil || string(buf) != "pong" {
		return false
	}
	return <-okc
}

type readerFunc func([]byte) (int, error)

func (f readerFunc) Read(p []byte) (int, error) { return f(p) }

func readerOf(x rw) io.Reader { return readerFunc(x.Read) }
