// Package tlskdfeng holds the monitors of C26 (TLS key derivation), C29
// (fingerprinted ClientHellos) and C30 (handshake message codecs).
package tlskdfeng

// C26 — TLS key derivation matches the RFC definitions.
//
// Every derivation function of tls/prf.go and tls/key_schedule.go is called
// through the H-tls-kdf hook on generated inputs and compared byte for byte
// with internal/ref/tlskdf (written from the RFC text, cross-checked against
// crypto/tls and published vectors in its own test). The suite → PRF-hash and
// suite → key/MAC/IV-length mapping is taken from the reference's own IANA
// table, never from zcrypto's flags. An end-to-end leg runs zcrypto clients
// against Go's crypto/tls server and checks the master secret the client
// logged (and the Finished record it sent) against values the reference
// recomputes from the wire.

import (
	"bytes"
	"fmt"
	"math/rand/v2"

	ztls "github.com/zmap/zcrypto/tls"

	"verifharness/internal/core"
	"verifharness/internal/ref/tlskdf"
)

func init() {
	core.RegisterMeta("C26", core.Meta{
		Rule: "derivation calls on generated inputs (secrets 0-128 bytes, labels 0-64, seeds 0-256, contexts nil/empty/non-empty, output lengths 0..512: every value for fixed inputs per function, random elsewhere; " +
			"every entry of both TLS<=1.2 suite tables x versions 1.0/1.1/1.2, the three TLS 1.3 suites); non-trivial = a derivation whose zcrypto output (>0 bytes, or a refusal of a reserved exporter label) was compared with the reference; " +
			"distinct by hash of (function, parameters, inputs). Lifetime legs with the same oracle: batches of 2..6 derivations whose returned slices (incl. the six key-block sub-slices) are held uncopied, hashed, and compared only after the later calls; 6 goroutines doing derive / Gosched / compare. End-to-end: zcrypto client vs crypto/tls server over net.Pipe, master secret from the client's key log vs the reference recomputation from the tapped wire",
		MinNontrivial:         60000,
		MinNontrivialThorough: 2000000,
		Assumptions: []string{
			"internal/ref/tlskdf implements RFC 2246 §5, RFC 5246 §5/§6.3/§7.4.9/§8.1, RFC 7627 §4, RFC 5705 §4, RFC 5869, RFC 8446 §7 (cross-checked against crypto/tls, crypto/hkdf, GnuTLS and RFC 8448 vectors in its test)",
			"the TLS 1.2 PRF hash and the key/MAC/IV lengths of a suite are those of its IANA registration (reference table keyed by suite id)",
			"crypto/tls (Go toolchain) is a conforming RFC 7627 peer in the end-to-end leg",
		},
	}, runC26)
}

type kdfEnv struct {
	c        *core.Ctx
	suites   []ztls.VerifKDFSuite
	suites13 []ztls.VerifKDFSuite13
	// hold, when set, defers comparisons: outputs are kept exactly as returned
	// (not copied, hashed at once) and judged by flush() after later calls (c26_batch.go)
	hold *[]heldOut
}

var kdfVersions = []uint16{tlskdf.VersionTLS10, tlskdf.VersionTLS11, tlskdf.VersionTLS12}

func versionName(v uint16) string {
	switch v {
	case tlskdf.VersionTLS10:
		return "TLS10"
	case tlskdf.VersionTLS11:
		return "TLS11"
	case tlskdf.VersionTLS12:
		return "TLS12"
	}
	return fmt.Sprintf("0x%04x", v)
}

func hashHookName(h tlskdf.HashID) string {
	return map[tlskdf.HashID]string{tlskdf.MD5: "md5", tlskdf.SHA1: "sha1", tlskdf.SHA256: "sha256", tlskdf.SHA384: "sha384"}[h]
}

// cmp compares one derived value; it records the evaluation and reports a divergence.
func (e *kdfEnv) cmp(key string, got, want []byte, input map[string]any) bool {
	c := e.c
	if e.hold != nil {
		*e.hold = append(*e.hold, heldOut{key: key, got: got, n: len(got), sum: sum64(got), want: want, input: input})
		return true
	}
	c.Eval(1)
	if len(want) > 0 {
		c.Nontrivial(key, fmt.Sprint(input))
	}
	if bytes.Equal(got, want) {
		return true
	}
	input["zcrypto"] = hx(got)
	input["reference"] = hx(want)
	c.Violation("kdf:"+key, fmt.Sprintf("zcrypto returned %d bytes %s, RFC reference %d bytes %s", len(got), core.Hex(got), len(want), core.Hex(want)), "", input)
	return false
}

// guard runs a hook call; a panic inside a derivation on in-domain inputs is a divergence too.
func (e *kdfEnv) guard(key string, input map[string]any, f func()) bool {
	if pi := core.Guard(f); pi != nil {
		e.c.Eval(1)
		e.c.Violation("kdf:"+key+":"+panicKey(pi), pi.Value+"\n"+pi.Stack, "", input)
		return false
	}
	return true
}

func runC26(c *core.Ctx) {
	e := &kdfEnv{c: c, suites: ztls.VerifKDFSuites(), suites13: ztls.VerifKDFSuites13()}
	if c.Shard == 0 {
		e.suiteTables()
	}
	e.lengthSweeps()
	n := c.PerShard(c.Pick(160000, 6000000))
	rng := c.Rng
	for i := 0; i < n; i++ {
		e.randomCase(rng)
	}
	e.batches()
	e.concurrent()
	e.stateful()
	e.endToEnd()
	e.endToEnd13()
}

// refSuite maps a zcrypto suite entry to the reference parameters by suite id.
func (e *kdfEnv) refSuite(s ztls.VerifKDFSuite) (tlskdf.SuiteParams, bool) {
	sp, ok := tlskdf.Suite(s.ID)
	if !ok {
		e.c.Count("suite_unknown_to_reference", 1)
		e.c.Note("suite 0x%04x is not in the reference IANA table; its derivations were not compared", s.ID)
	}
	return sp, ok
}

// suiteTables compares the static length columns of the suite tables with the IANA parameters.
func (e *kdfEnv) suiteTables() {
	c := e.c
	for _, s := range e.suites {
		sp, ok := e.refSuite(s)
		if !ok {
			continue
		}
		c.Eval(1)
		c.Count("suite_table_entries_checked", 1)
		id := fmt.Sprintf("0x%04x", s.ID)
		in := map[string]any{"table": s.Table, "index": s.Index, "suite": id, "name": sp.Name, "keyLen": s.KeyLen, "macLen": s.MACLen, "ivLen": s.IVLen}
		if s.KeyLen != sp.KeyLen {
			c.Violation("kdf:suite-table:keyLen:"+id, fmt.Sprintf("%s: keyLen %d, enc_key_length is %d", sp.Name, s.KeyLen, sp.KeyLen), "", in)
		}
		if s.MACLen != sp.MACLen {
			c.Violation("kdf:suite-table:macLen:"+id, fmt.Sprintf("%s: macLen %d, mac_key_length is %d", sp.Name, s.MACLen, sp.MACLen), "", in)
		}
		wantIV := sp.BlockLen // CBC: IV from the key block in TLS 1.0 (RFC 2246 §6.3); stream: 0
		if sp.FixedIV >= 0 {
			wantIV = sp.FixedIV
		}
		if s.IVLen != wantIV {
			c.Violation("kdf:suite-table:ivLen:"+id, fmt.Sprintf("%s: ivLen %d, expected %d", sp.Name, s.IVLen, wantIV), "", in)
		}
	}
	for _, s := range e.suites13 {
		h, keyLen, ok := tlskdf.Suite13(s.ID)
		c.Eval(1)
		if !ok {
			c.Note("TLS 1.3 suite 0x%04x unknown to the reference", s.ID)
			continue
		}
		if s.KeyLen != keyLen || s.HashSize != h.Size() {
			c.Violation(fmt.Sprintf("kdf:suite-table:tls13:0x%04x", s.ID), fmt.Sprintf("keyLen %d hash size %d, RFC 8446 B.4: %d / %d", s.KeyLen, s.HashSize, keyLen, h.Size()), "", nil)
		}
	}
}

// ---------------------------------------------------------------------------
// individual comparisons (shared by the sweeps and the random cases)

func (e *kdfEnv) pHash(h tlskdf.HashID, secret, seed []byte, n int) {
	in := map[string]any{"fn": "pHash", "hash": h.String(), "secret": hx(secret), "seed": hx(seed), "n": n}
	var got []byte
	if e.guard("pHash", in, func() { got = ztls.VerifPHash(hashHookName(h), n, secret, seed) }) {
		e.cmp("pHash:"+h.String(), got, tlskdf.PHash(h, secret, seed, n), in)
	}
}

func (e *kdfEnv) prf10(secret, label, seed []byte, n int) {
	in := map[string]any{"fn": "prf10", "secret": hx(secret), "label": hx(label), "seed": hx(seed), "n": n}
	var got []byte
	if e.guard("prf10", in, func() { got = ztls.VerifPRF10(n, secret, label, seed) }) {
		e.cmp("prf10", got, tlskdf.PRF10(secret, label, seed, n), in)
	}
}

func (e *kdfEnv) prf12(h tlskdf.HashID, secret, label, seed []byte, n int) {
	in := map[string]any{"fn": "prf12", "hash": h.String(), "secret": hx(secret), "label": hx(label), "seed": hx(seed), "n": n}
	var got []byte
	if e.guard("prf12", in, func() { got = ztls.VerifPRF12(hashHookName(h), n, secret, label, seed) }) {
		e.cmp("prf12:"+h.String(), got, tlskdf.PRF12(h, secret, label, seed, n), in)
	}
}

func suiteIn(s ztls.VerifKDFSuite, version uint16) map[string]any {
	return map[string]any{"version": versionName(version), "suite": fmt.Sprintf("0x%04x", s.ID), "table": s.Table, "index": s.Index}
}

func (e *kdfEnv) params(s ztls.VerifKDFSuite, version uint16) (tlskdf.Params, string, bool) {
	sp, ok := e.refSuite(s)
	if !ok {
		return tlskdf.Params{}, "", false
	}
	tag := versionName(version)
	if version == tlskdf.VersionTLS12 {
		tag += ":" + sp.PRFHash.String()
	}
	return tlskdf.Params{Version: version, Hash: sp.PRFHash}, tag, true
}

func (e *kdfEnv) prfForVersion(s ztls.VerifKDFSuite, version uint16, secret, label, seed []byte, n int) {
	p, tag, ok := e.params(s, version)
	if !ok {
		return
	}
	in := suiteIn(s, version)
	in["fn"], in["secret"], in["label"], in["seed"], in["n"] = "prfForVersion", hx(secret), hx(label), hx(seed), n
	var got []byte
	if e.guard("prfForVersion", in, func() { got = ztls.VerifPRFForVersion(version, s, n, secret, label, seed) }) {
		e.cmp("prfForVersion:"+tag, got, p.PRF(secret, label, seed, n), in)
	}
}

func (e *kdfEnv) master(s ztls.VerifKDFSuite, version uint16, pms, cr, sr []byte) {
	p, tag, ok := e.params(s, version)
	if !ok {
		return
	}
	in := suiteIn(s, version)
	in["fn"], in["preMaster"], in["clientRandom"], in["serverRandom"] = "masterFromPreMasterSecret", hx(pms), hx(cr), hx(sr)
	var got []byte
	if e.guard("masterFromPreMasterSecret", in, func() { got = ztls.VerifMasterFromPreMasterSecret(version, s, pms, cr, sr) }) {
		e.cmp("masterFromPreMasterSecret:"+tag, got, p.MasterSecret(pms, cr, sr), in)
	}
}

func (e *kdfEnv) keys(s ztls.VerifKDFSuite, version uint16, master, cr, sr []byte, macLen, keyLen, ivLen int) {
	p, tag, ok := e.params(s, version)
	if !ok {
		return
	}
	in := suiteIn(s, version)
	in["fn"], in["master"], in["clientRandom"], in["serverRandom"] = "keysFromMasterSecret", hx(master), hx(cr), hx(sr)
	in["macLen"], in["keyLen"], in["ivLen"] = macLen, keyLen, ivLen
	var g [6][]byte
	if !e.guard("keysFromMasterSecret", in, func() {
		g[0], g[1], g[2], g[3], g[4], g[5] = ztls.VerifKeysFromMasterSecret(version, s, master, cr, sr, macLen, keyLen, ivLen)
	}) {
		return
	}
	kb := p.KeyBlock(master, cr, sr, macLen, keyLen, ivLen)
	want := [6][]byte{kb.ClientMAC, kb.ServerMAC, kb.ClientKey, kb.ServerKey, kb.ClientIV, kb.ServerIV}
	names := [6]string{"clientMAC", "serverMAC", "clientKey", "serverKey", "clientIV", "serverIV"}
	if e.hold != nil { // the six sub-slices of one key block, each held as returned
		for i := range g {
			pin := map[string]any{"part": names[i]}
			for k, v := range in {
				pin[k] = v
			}
			e.cmp("keysFromMasterSecret:"+tag+":"+names[i], g[i], want[i], pin)
		}
		return
	}
	// one evaluation; the first differing part names the violation
	e.c.Eval(1)
	if 2*(macLen+keyLen+ivLen) > 0 {
		e.c.Nontrivial("keys", fmt.Sprint(in))
	}
	for i := range g {
		if !bytes.Equal(g[i], want[i]) {
			in["part"], in["zcrypto"], in["reference"] = names[i], hx(g[i]), hx(want[i])
			e.c.Violation("kdf:keysFromMasterSecret:"+tag+":"+names[i], fmt.Sprintf("%s: zcrypto %s, RFC 5246 §6.3 partition %s", names[i], core.Hex(g[i]), core.Hex(want[i])), "", in)
			return
		}
	}
}

func (e *kdfEnv) finished(s ztls.VerifKDFSuite, version uint16, master []byte, msgs [][]byte) {
	p, tag, ok := e.params(s, version)
	if !ok {
		return
	}
	in := suiteIn(s, version)
	var hm []string
	for _, m := range msgs {
		hm = append(hm, hx(m))
	}
	in["fn"], in["master"], in["messages"] = "finishedHash", hx(master), hm
	var sum, cl, sv []byte
	if !e.guard("finishedHash", in, func() { sum, cl, sv = ztls.VerifFinishedSums(version, s, master, msgs) }) {
		return
	}
	all := bytes.Join(msgs, nil)
	e.cmp("finishedHash.Sum:"+tag, sum, p.SessionHash(all), in)
	e.cmp("finishedHash.clientSum:"+tag, cl, p.Finished(master, true, all), in)
	e.cmp("finishedHash.serverSum:"+tag, sv, p.Finished(master, false, all), in)
}

func (e *kdfEnv) ekm(s ztls.VerifKDFSuite, version uint16, master, cr, sr []byte, label string, context []byte, n int) {
	p, tag, ok := e.params(s, version)
	if !ok {
		return
	}
	in := suiteIn(s, version)
	in["fn"], in["master"], in["clientRandom"], in["serverRandom"] = "ekmFromMasterSecret", hx(master), hx(cr), hx(sr)
	in["label"], in["context"], in["contextNil"], in["n"] = hx([]byte(label)), hx(context), context == nil, n
	var got []byte
	var err error
	if !e.guard("ekmFromMasterSecret", in, func() { got, err = ztls.VerifEKMFromMasterSecret(version, s, master, cr, sr, label, context, n) }) {
		return
	}
	want, werr := p.Exporter(master, cr, sr, label, context, context != nil, n)
	if werr == tlskdf.ErrReservedLabel {
		e.c.Eval(1)
		e.c.Nontrivial("ekm-reserved", fmt.Sprint(in))
		e.c.Count("ekm_reserved_label_cases", 1)
		if err == nil {
			in["zcrypto"] = hx(got)
			e.c.Violation("kdf:ekmFromMasterSecret:reserved-label-accepted", fmt.Sprintf("label %q is reserved (RFC 5705 §4) but keying material was returned", label), "", in)
		}
		return
	}
	if err != nil {
		e.c.Eval(1)
		e.c.Violation("kdf:ekmFromMasterSecret:unexpected-error", err.Error(), "", in)
		return
	}
	e.cmp("ekmFromMasterSecret:"+tag, got, want, in)
}

func in13(id uint16, fn string) map[string]any {
	return map[string]any{"fn": fn, "suite": fmt.Sprintf("0x%04x", id)}
}

func hexAll(msgs [][]byte) []string {
	out := make([]string, len(msgs))
	for i, m := range msgs {
		out[i] = hx(m)
	}
	return out
}

func (e *kdfEnv) expandLabel(id uint16, secret []byte, label string, context []byte, n int) {
	h, _, ok := tlskdf.Suite13(id)
	if !ok {
		return
	}
	in := in13(id, "expandLabel")
	in["secret"], in["label"], in["context"], in["n"] = hx(secret), hx([]byte(label)), hx(context), n
	var got []byte
	if e.guard("tls13.expandLabel", in, func() { got = ztls.VerifTLS13ExpandLabel(id, secret, label, context, n) }) {
		e.cmp("tls13.expandLabel:"+h.String(), got, tlskdf.ExpandLabel(h, secret, label, context, n), in)
	}
}

func (e *kdfEnv) deriveSecret(id uint16, secret []byte, label string, transcript [][]byte, absent bool) {
	h, _, ok := tlskdf.Suite13(id)
	if !ok {
		return
	}
	in := in13(id, "deriveSecret")
	in["secret"], in["label"], in["transcript"], in["noTranscript"] = hx(secret), hx([]byte(label)), hexAll(transcript), absent
	var got []byte
	if e.guard("tls13.deriveSecret", in, func() { got = ztls.VerifTLS13DeriveSecret(id, secret, label, transcript, absent) }) {
		var msgs []byte
		if !absent {
			msgs = bytes.Join(transcript, nil)
		}
		e.cmp("tls13.deriveSecret:"+h.String(), got, tlskdf.DeriveSecret(h, secret, label, msgs), in)
	}
}

func (e *kdfEnv) extract(id uint16, newSecret, current []byte) {
	h, _, ok := tlskdf.Suite13(id)
	if !ok {
		return
	}
	in := in13(id, "extract")
	in["newSecret"], in["newSecretNil"], in["currentSecret"], in["currentNil"] = hx(newSecret), newSecret == nil, hx(current), current == nil
	var got []byte
	if e.guard("tls13.extract", in, func() { got = ztls.VerifTLS13Extract(id, newSecret, current) }) {
		e.cmp("tls13.extract:"+h.String(), got, tlskdf.Extract13(h, newSecret, current, newSecret == nil), in)
	}
}

func (e *kdfEnv) trafficKey(id uint16, secret []byte) {
	h, keyLen, ok := tlskdf.Suite13(id)
	if !ok {
		return
	}
	in := in13(id, "trafficKey")
	in["secret"] = hx(secret)
	var k, iv []byte
	if e.guard("tls13.trafficKey", in, func() { k, iv = ztls.VerifTLS13TrafficKey(id, secret) }) {
		wk, wiv := tlskdf.TrafficKeys(h, secret, keyLen)
		e.cmp(fmt.Sprintf("tls13.trafficKey:key:0x%04x", id), k, wk, in)
		e.cmp(fmt.Sprintf("tls13.trafficKey:iv:0x%04x", id), iv, wiv, in)
	}
}

func (e *kdfEnv) nextTrafficSecret(id uint16, secret []byte) {
	h, _, ok := tlskdf.Suite13(id)
	if !ok {
		return
	}
	in := in13(id, "nextTrafficSecret")
	in["secret"] = hx(secret)
	var got []byte
	if e.guard("tls13.nextTrafficSecret", in, func() { got = ztls.VerifTLS13NextTrafficSecret(id, secret) }) {
		e.cmp("tls13.nextTrafficSecret:"+h.String(), got, tlskdf.NextTrafficSecret(h, secret), in)
	}
}

func (e *kdfEnv) finished13(id uint16, baseKey []byte, transcript [][]byte) {
	h, _, ok := tlskdf.Suite13(id)
	if !ok {
		return
	}
	in := in13(id, "finishedHash")
	in["baseKey"], in["transcript"] = hx(baseKey), hexAll(transcript)
	var got []byte
	if e.guard("tls13.finishedHash", in, func() { got = ztls.VerifTLS13FinishedHash(id, baseKey, transcript) }) {
		e.cmp("tls13.finishedHash:"+h.String(), got, tlskdf.Finished13(h, baseKey, tlskdf.TranscriptHash(h, bytes.Join(transcript, nil))), in)
	}
}

func (e *kdfEnv) exporter13(id uint16, master []byte, transcript [][]byte, label string, context []byte, n int) {
	h, _, ok := tlskdf.Suite13(id)
	if !ok {
		return
	}
	in := in13(id, "exportKeyingMaterial")
	in["masterSecret"], in["transcript"], in["label"], in["context"], in["contextNil"], in["n"] = hx(master), hexAll(transcript), hx([]byte(label)), hx(context), context == nil, n
	var got []byte
	var err error
	if !e.guard("tls13.exportKeyingMaterial", in, func() {
		got, err = ztls.VerifTLS13ExportKeyingMaterial(id, master, transcript, label, context, n)
	}) {
		return
	}
	if err != nil {
		e.c.Eval(1)
		e.c.Violation("kdf:tls13.exportKeyingMaterial:unexpected-error", err.Error(), "", in)
		return
	}
	exp := tlskdf.ExporterMasterSecret(h, master, bytes.Join(transcript, nil))
	e.cmp("tls13.exportKeyingMaterial:"+h.String(), got, tlskdf.Exporter13(h, exp, label, context, n), in)
}

// ---------------------------------------------------------------------------
// generators

var reservedLabels = []string{"client finished", "server finished", "master secret", "key expansion"}

func genLabel(r *rand.Rand, maxLen int) string {
	switch r.IntN(6) {
	case 0:
		known := []string{"EXPORTER-Channel-Binding", "EXPERIMENTAL label", "derived", "c hs traffic", "s ap traffic", "exp master", "res master", "finished", "key", "iv", "traffic upd", "exporter",
			"master secret", "key expansion", "client finished", "server finished", "extended master secret", "master secret ", "Master Secret"}
		l := known[r.IntN(len(known))]
		if len(l) <= maxLen {
			return l
		}
	case 1: // arbitrary bytes
		return string(rbytes(r, rlen(r, 0, maxLen)))
	}
	n := rlen(r, 0, maxLen)
	b := make([]byte, n)
	for i := range b {
		b[i] = byte(0x20 + r.IntN(0x5f))
	}
	return string(b)
}

func genContext(r *rand.Rand, maxLen int) []byte {
	switch r.IntN(4) {
	case 0:
		return nil
	case 1:
		return []byte{}
	}
	return rbytes(r, rlen(r, 1, maxLen))
}

func genChunks(r *rand.Rand) [][]byte {
	n := r.IntN(6)
	out := make([][]byte, n)
	for i := range out {
		out[i] = rbytes(r, rlen(r, 0, 300))
	}
	return out
}

func (e *kdfEnv) pickSuite(r *rand.Rand) ztls.VerifKDFSuite { return e.suites[r.IntN(len(e.suites))] }

var phashHashes = []tlskdf.HashID{tlskdf.MD5, tlskdf.SHA1, tlskdf.SHA256, tlskdf.SHA384}

// extraKDFCases are comparisons registered by optional files (c26_ems.go).
var extraKDFCases []func(e *kdfEnv, r *rand.Rand)

// kdfCaseKinds is the number of case kinds randomCaseKind understands.
func kdfCaseKinds() int { return 17 + len(extraKDFCases) }

func (e *kdfEnv) randomCase(r *rand.Rand) { e.randomCaseKind(r, r.IntN(kdfCaseKinds())) }

func (e *kdfEnv) randomCaseKind(r *rand.Rand, k int) {
	secret := rbytes(r, rlen(r, 0, 128))
	n := rlen(r, 0, 512)
	version := kdfVersions[r.IntN(3)]
	id13 := e.suites13[r.IntN(len(e.suites13))].ID
	if k >= 17 {
		extraKDFCases[k-17](e, r)
		return
	}
	switch k {
	case 0:
		e.pHash(phashHashes[r.IntN(4)], secret, rbytes(r, rlen(r, 0, 256)), n)
	case 1:
		e.prf10(secret, []byte(genLabel(r, 64)), rbytes(r, rlen(r, 0, 256)), n)
	case 2:
		e.prf12([]tlskdf.HashID{tlskdf.SHA256, tlskdf.SHA384}[r.IntN(2)], secret, []byte(genLabel(r, 64)), rbytes(r, rlen(r, 0, 256)), n)
	case 3:
		e.prfForVersion(e.pickSuite(r), version, secret, []byte(genLabel(r, 64)), rbytes(r, rlen(r, 0, 256)), n)
	case 4:
		pms := secret
		if r.IntN(2) == 0 {
			pms = rbytes(r, []int{48, 32, 66, 128, 20, 21, 47}[r.IntN(7)])
		}
		e.master(e.pickSuite(r), version, pms, rbytes(r, 32), rbytes(r, 32))
	case 5, 6:
		s := e.pickSuite(r)
		mac, key, iv := s.MACLen, s.KeyLen, s.IVLen
		if r.IntN(3) == 0 {
			mac, key, iv = r.IntN(65), r.IntN(65), r.IntN(33)
		}
		e.keys(s, version, rbytes(r, []int{48, 48, 48, 0, 1, 47, 49, 128}[r.IntN(8)]), rbytes(r, 32), rbytes(r, 32), mac, key, iv)
	case 7:
		e.finished(e.pickSuite(r), version, rbytes(r, []int{48, 48, 0, 1, 47, 64}[r.IntN(6)]), genChunks(r))
	case 8, 9:
		label := genLabel(r, 64)
		if r.IntN(12) == 0 {
			label = reservedLabels[r.IntN(4)]
		}
		e.ekm(e.pickSuite(r), version, rbytes(r, 48), rbytes(r, 32), rbytes(r, 32), label, genContext(r, 300), n)
	case 10:
		e.expandLabel(id13, secret, genLabel(r, 64), rbytes(r, rlen(r, 0, 255)), n)
	case 11:
		e.deriveSecret(id13, secret, genLabel(r, 64), genChunks(r), r.IntN(4) == 0)
	case 12:
		var ns, cs []byte
		if r.IntN(3) != 0 {
			ns = rbytes(r, rlen(r, 0, 128))
		}
		if r.IntN(3) != 0 {
			cs = rbytes(r, rlen(r, 0, 128))
		}
		e.extract(id13, ns, cs)
	case 13:
		e.trafficKey(id13, secret)
	case 14:
		e.nextTrafficSecret(id13, secret)
	case 15:
		e.finished13(id13, secret, genChunks(r))
	case 16:
		e.exporter13(id13, secret, genChunks(r), genLabel(r, 64), genContext(r, 300), n)
	}
}

// lengthSweeps: for fixed inputs, every output length 0..512 of every function
// that takes one (straddles every hash-block boundary of MD5/SHA-1/SHA-256/SHA-384).
func (e *kdfEnv) lengthSweeps() {
	c := e.c
	inputs := c.Pick(2, 8)
	g := c.GlobalRng("sweep")
	idx := 0
	mine := func() bool { idx++; return (idx-1)%c.NShards == c.Shard }
	// one representative suite entry per (reference PRF hash)
	var s256, s384 *ztls.VerifKDFSuite
	for i := range e.suites {
		if sp, ok := tlskdf.Suite(e.suites[i].ID); ok {
			if sp.PRFHash == tlskdf.SHA384 && s384 == nil {
				s384 = &e.suites[i]
			}
			if sp.PRFHash == tlskdf.SHA256 && s256 == nil {
				s256 = &e.suites[i]
			}
		}
	}
	var swept int64
	for k := 0; k < inputs; k++ {
		secret := rbytes(g, []int{48, 13, 0, 128, 1, 32, 65, 20}[k%8])
		label := []byte(genLabel(g, 40))
		seed := rbytes(g, []int{64, 0, 77, 256, 1, 32, 100, 200}[k%8])
		cr, sr := rbytes(g, 32), rbytes(g, 32)
		ctx := [][]byte{nil, {}, rbytes(g, 17)}[k%3]
		chunks := genChunks(g)
		for n := 0; n <= 512; n++ {
			for _, h := range phashHashes {
				if mine() {
					e.pHash(h, secret, seed, n)
					swept++
				}
			}
			if mine() {
				e.prf10(secret, label, seed, n)
				swept++
			}
			if mine() {
				e.prf12(tlskdf.SHA256, secret, label, seed, n)
				swept++
			}
			if mine() {
				e.prf12(tlskdf.SHA384, secret, label, seed, n)
				swept++
			}
			for _, v := range kdfVersions {
				for _, s := range []*ztls.VerifKDFSuite{s256, s384} {
					if s == nil {
						continue
					}
					if mine() {
						e.ekm(*s, v, secret, cr, sr, "EXPORTER-sweep", ctx, n)
						swept++
					}
					// key block of total length n (n even): mac/key/iv split varies with n
					if n%2 == 0 && mine() {
						half := n / 2
						mac := half / 3
						key := (half - mac) / 2
						iv := half - mac - key
						e.keys(*s, v, secret, cr, sr, mac, key, iv)
						swept++
					}
				}
			}
			for _, s13 := range e.suites13 {
				if mine() {
					e.expandLabel(s13.ID, secret, string(label), seed[:len(seed)%256], n)
					swept++
				}
				if mine() {
					e.exporter13(s13.ID, secret, chunks, string(label), ctx, n)
					swept++
				}
			}
		}
	}
	c.Count("length_sweep_cases", int(swept))
	c.Exhaustive(fmt.Sprintf("output lengths 0..512 x %d fixed inputs x every length-taking function", inputs), swept)
}
