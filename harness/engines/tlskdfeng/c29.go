package tlskdfeng

// C29 — fingerprinted ClientHellos are sent exactly as configured.
//
// A zcrypto client with a generated ClientFingerprintConfiguration handshakes
// over net.Pipe with a recording stub that reads the first handshake message
// and closes. The tapped message is parsed by the independent strict parser
// (internal/ref/tlswire) and by zcrypto's own clientHelloMsg.unmarshal (hook
// H-tls-msg); both views must show the configured version, random, session id,
// suites, compression methods and extensions, in the configured order. The
// expected extension bytes are produced by an encoder written here from the
// RFCs, not by zcrypto's Marshal methods.

import (
	"bytes"
	"fmt"
	"io"
	"math/rand/v2"
	"net"
	"strings"
	"sync"
	"time"

	ztls "github.com/zmap/zcrypto/tls"

	"verifharness/internal/core"
	"verifharness/internal/ref/tlswire"
)

func init() {
	core.RegisterMeta("C29", core.Meta{
		Rule: "generated ClientFingerprintConfigurations: HandshakeVersion 0x0301..0x0303; ClientRandom 32 bytes / nil / other length (fresh), with and without InsertTimestamp; SessionID 0-32 bytes; 1-160 suites from the implemented table in random order " +
			"(repeats allowed, so that the vector length crosses 255 bytes); compression [0]; a random ordered subset of the built-in extension types with random contents (one host name, also Autopopulate from Config.ServerName; ALPN 1-4 protocols of 1-255 bytes; " +
			"curves from the default preference set; point format [0]; ticket empty/bytes; hash/signature pairs) interleaved with NullExtensions; non-trivial = the configuration was accepted and a ClientHello was captured and compared " +
			"(distinct by hash of the captured message with the fresh random bytes masked); rejected configurations (error before any write) are counted; " +
			"Marshal() outputs are held uncopied across the rest of the case and the whole next case before being compared; a second leg runs two clients with different fingerprints concurrently, each must send its own hello",
		MinNontrivial:         5000,
		MinNontrivialThorough: 150000,
		Assumptions: []string{
			"internal/ref/tlswire is a strict reader of RFC 5246 §7.4.1.2 and of the extension bodies of RFC 6066/7301/5746/8422/5077/5246/6962/7627 (cross-checked against crypto/tls in its test)",
			"a ClientRandom whose length is not 32 means 'fresh randomness' (doc comment of ClientFingerprintConfiguration); fresh bytes must come from Config.Rand",
			"with InsertTimestamp the 4-byte prefix is not compared with the clock; it must only be a plausible Unix time (>= 1.5e9, a constant)",
			"SNI with Autopopulate and explicit Domains at the same time is ambiguous: the server_name content is then not asserted",
		},
	}, runC29)
}

// fpExt is the harness's own description of one configured extension.
type fpExt struct {
	kind     string // null sni alpn reneg ems status sct curves points ticket sigalgs
	host     string
	autopop  bool
	protos   []string
	curves   []uint16
	points   []byte
	ticket   []byte
	sigalgs  []uint16
	noAssert bool // content ambiguous (autopopulate + explicit domain)
}

func (e fpExt) String() string {
	switch e.kind {
	case "sni":
		return fmt.Sprintf("sni(%q,auto=%v)", e.host, e.autopop)
	case "alpn":
		var l []string
		for _, p := range e.protos {
			l = append(l, hx([]byte(p)))
		}
		return "alpn(" + strings.Join(l, ",") + ")"
	case "curves":
		return fmt.Sprintf("curves%v", e.curves)
	case "points":
		return "points(" + hx(e.points) + ")"
	case "ticket":
		return fmt.Sprintf("ticket(%s,auto=%v)", hx(e.ticket), e.autopop)
	case "sigalgs":
		return fmt.Sprintf("sigalgs%04x", e.sigalgs)
	}
	return e.kind
}

func (e fpExt) build() ztls.ClientExtension {
	switch e.kind {
	case "null":
		return &ztls.NullExtension{}
	case "sni":
		x := &ztls.SNIExtension{Autopopulate: e.autopop}
		if e.host != "" {
			x.Domains = []string{e.host}
		}
		return x
	case "alpn":
		return &ztls.ALPNExtension{Protocols: append([]string(nil), e.protos...)}
	case "reneg":
		return &ztls.SecureRenegotiationExtension{}
	case "ems":
		return &ztls.ExtendedMasterSecretExtension{}
	case "status":
		return &ztls.StatusRequestExtension{}
	case "sct":
		return &ztls.SCTExtension{}
	case "curves":
		x := &ztls.SupportedCurvesExtension{}
		for _, c := range e.curves {
			x.Curves = append(x.Curves, ztls.CurveID(c))
		}
		return x
	case "points":
		return &ztls.PointFormatExtension{Formats: append([]byte(nil), e.points...)}
	case "ticket":
		return &ztls.SessionTicketExtension{Ticket: append([]byte(nil), e.ticket...), Autopopulate: e.autopop}
	case "sigalgs":
		return &ztls.SignatureAlgorithmExtension{SignatureAndHashes: append([]uint16(nil), e.sigalgs...)}
	}
	panic("unknown extension kind " + e.kind)
}

func u16(v int) []byte { return []byte{byte(v >> 8), byte(v)} }

func ext(t int, data []byte) []byte { return append(append(u16(t), u16(len(data))...), data...) }

// encode is the expected wire form, written from the RFCs (type, length, body).
// sniHost is the name the extension is expected to carry ("" = no extension at all).
func (e fpExt) encode(sniHost string) []byte {
	switch e.kind {
	case "null":
		return nil
	case "sni": // RFC 6066 §3
		if sniHost == "" {
			return nil
		}
		name := append([]byte{0}, append(u16(len(sniHost)), sniHost...)...)
		return ext(tlswire.ExtServerName, append(u16(len(name)), name...))
	case "alpn": // RFC 7301 §3.1
		var list []byte
		for _, p := range e.protos {
			list = append(list, byte(len(p)))
			list = append(list, p...)
		}
		return ext(tlswire.ExtALPN, append(u16(len(list)), list...))
	case "reneg": // RFC 5746 §3.2, initial handshake: empty renegotiated_connection
		return ext(tlswire.ExtRenegotiationInfo, []byte{0})
	case "ems": // RFC 7627 §5.1
		return ext(tlswire.ExtExtendedMasterSecret, nil)
	case "status": // RFC 6066 §8: ocsp, empty responder_id_list, empty request_extensions
		return ext(tlswire.ExtStatusRequest, []byte{1, 0, 0, 0, 0})
	case "sct": // RFC 6962 §3.3.1
		return ext(tlswire.ExtSCT, nil)
	case "curves": // RFC 8422 §5.1.1
		var l []byte
		for _, c := range e.curves {
			l = append(l, u16(int(c))...)
		}
		return ext(tlswire.ExtSupportedGroups, append(u16(len(l)), l...))
	case "points": // RFC 8422 §5.1.2
		return ext(tlswire.ExtECPointFormats, append([]byte{byte(len(e.points))}, e.points...))
	case "ticket": // RFC 5077 §3.2
		return ext(tlswire.ExtSessionTicket, e.ticket)
	case "sigalgs": // RFC 5246 §7.4.1.4.1
		var l []byte
		for _, s := range e.sigalgs {
			l = append(l, u16(int(s))...)
		}
		return ext(tlswire.ExtSignatureAlgorithms, append(u16(len(l)), l...))
	}
	return nil
}

type fpConfig struct {
	version      uint16
	clientRandom []byte
	timestamp    bool
	sessionID    []byte
	suites       []uint16
	exts         []fpExt
	serverName   string
	sessionCache bool
	// ClientFingerprintConfiguration.SessionCache / CacheKey / RandomSessionID
	fpCache         int // 0 none, 1 empty cache, 2 cache holding a session the client may resume, 3 holding one with a suite that is not offered
	cachedTicket    []byte
	cachedSuite     uint16
	randomSessionID int
}

var fpCacheNames = []string{"none", "empty", "resumable-session", "session-with-unoffered-suite"}

// constKey is the CacheKeyGenerator of the generated configurations.
type constKey struct{}

func (constKey) Key(net.Addr) string { return "c29-peer" }

func (f *fpConfig) describe() map[string]any {
	var es []string
	for _, e := range f.exts {
		es = append(es, e.String())
	}
	return map[string]any{"HandshakeVersion": fmt.Sprintf("0x%04x", f.version), "ClientRandom": hx(f.clientRandom), "ClientRandomNil": f.clientRandom == nil,
		"InsertTimestamp": f.timestamp, "SessionID": hx(f.sessionID), "CipherSuites": fmt.Sprintf("%04x", f.suites), "CompressionMethods": "00",
		"Extensions": es, "Config.ServerName": f.serverName, "Config.ClientSessionCache": f.sessionCache,
		"SessionCache": fpCacheNames[f.fpCache], "cached_ticket": hx(f.cachedTicket), "cached_suite": fmt.Sprintf("%04x", f.cachedSuite), "RandomSessionID": f.randomSessionID}
}

func genHost(r *rand.Rand) string {
	const al = "abcdefghijklmnopqrstuvwxyz0123456789-"
	n := 1 + r.IntN(3)
	if r.IntN(12) == 0 {
		n = 4 + r.IntN(3)
	}
	long := r.IntN(8) == 0 // names around and beyond 127 / 255 bytes of extension body
	if long {
		n = 2 + r.IntN(3)
	}
	var labels []string
	for i := 0; i < n; i++ {
		l := 1 + r.IntN(12)
		if r.IntN(10) == 0 || long {
			l = 63 - r.IntN(4)
		}
		b := make([]byte, l)
		for j := range b {
			b[j] = al[r.IntN(len(al)-1)] // no '-' (kept simple: letters and digits)
		}
		labels = append(labels, string(b))
	}
	return strings.Join(labels, ".")
}

func genFP(r *rand.Rand, suites []uint16, curves []uint16, pairs []uint16) *fpConfig {
	f := &fpConfig{version: uint16(0x0301 + r.IntN(3))}
	switch r.IntN(20) {
	case 0, 1, 2, 3, 4, 5, 6, 7, 8, 9:
		f.clientRandom = rbytes(r, 32)
	case 10, 11, 12, 13, 14, 15, 16:
		f.clientRandom = nil
	case 17:
		f.clientRandom = []byte{}
	default:
		f.clientRandom = rbytes(r, []int{1, 16, 31, 33, 64}[r.IntN(5)])
	}
	if len(f.clientRandom) != 32 {
		f.timestamp = r.IntN(2) == 0
	} else {
		f.timestamp = r.IntN(6) == 0 // must have no effect when the random is given
	}
	f.sessionID = rbytes(r, []int{0, 0, 32, 32, r.IntN(33), 1, 31, 16}[r.IntN(8)])
	ns := 1 + r.IntN(30)
	switch r.IntN(12) {
	case 0:
		ns = []int{127, 128, 129, 160}[r.IntN(4)]
	case 1:
		ns = 1
	}
	for i := 0; i < ns; i++ {
		f.suites = append(f.suites, suites[r.IntN(len(suites))])
	}
	if r.IntN(3) != 0 {
		f.serverName = genHost(r)
	}
	f.sessionCache = r.IntN(40) == 0
	if r.IntN(3) == 0 {
		f.fpCache = 1 + r.IntN(3)
		f.cachedTicket = rbytes(r, []int{1, 32, 100, 200}[r.IntN(4)])
		f.cachedSuite = f.suites[r.IntN(len(f.suites))]
		if f.fpCache == 3 {
			f.cachedSuite = 0x1301 // a TLS 1.3 suite id: never in the implemented TLS <= 1.2 table the list is drawn from
		}
		if r.IntN(2) == 0 {
			f.randomSessionID = 1 + r.IntN(32)
		}
	}
	// extension list: random subset, random order, NullExtensions interleaved
	kinds := []string{"sni", "alpn", "reneg", "ems", "status", "sct", "curves", "points", "ticket", "sigalgs"}
	r.Shuffle(len(kinds), func(i, j int) { kinds[i], kinds[j] = kinds[j], kinds[i] })
	keep := r.IntN(len(kinds) + 1)
	if r.IntN(10) == 0 {
		keep = len(kinds)
	}
	for _, k := range kinds[:keep] {
		for r.IntN(5) == 0 {
			f.exts = append(f.exts, fpExt{kind: "null"})
		}
		e := fpExt{kind: k}
		switch k {
		case "sni":
			switch r.IntN(6) {
			case 0, 1: // autopopulate from Config.ServerName
				e.autopop = true
			case 2: // both: ambiguous
				e.autopop, e.host, e.noAssert = true, genHost(r), true
			default:
				e.host = genHost(r)
			}
		case "alpn":
			for i, n := 0, 1+r.IntN(4); i < n; i++ {
				l := 1 + r.IntN(12)
				if r.IntN(8) == 0 {
					l = []int{255, 254, 128, 127}[r.IntN(4)]
				}
				e.protos = append(e.protos, string(rbytes(r, l)))
			}
		case "curves":
			p := r.Perm(len(curves))
			for _, i := range p[:1+r.IntN(len(curves))] {
				e.curves = append(e.curves, curves[i])
			}
		case "points":
			e.points = []byte{0}
		case "ticket":
			if r.IntN(2) == 0 {
				e.ticket = rbytes(r, []int{1, 16, 100, 255, 256, 300, 1000}[r.IntN(7)])
			}
			e.autopop = r.IntN(2) == 0
		case "sigalgs":
			n := 1 + r.IntN(8)
			if r.IntN(10) == 0 {
				n = 130 // the vector length crosses 255 bytes
			}
			for i := 0; i < n; i++ {
				e.sigalgs = append(e.sigalgs, pairs[r.IntN(len(pairs))])
			}
		}
		f.exts = append(f.exts, e)
	}
	for r.IntN(4) == 0 {
		f.exts = append(f.exts, fpExt{kind: "null"})
	}
	return f
}

var c29Time = time.Unix(1750000000, 0)

func runC29(c *core.Ctx) {
	suites := ztls.VerifFPImplementedSuiteIDs()
	var curves []uint16
	for _, cv := range ztls.VerifFPDefaultCurves() {
		curves = append(curves, uint16(cv))
	}
	// hash/signature pairs as they appear on the wire (RFC 5246 §7.4.1.4.1): hash 1..6, signature rsa(1) dsa(2) ecdsa(3).
	// The ones zcrypto's CheckImplemented refuses make the configuration "rejected", which is counted.
	var pairs []uint16
	for h := 1; h <= 6; h++ {
		for _, s := range []int{1, 1, 1, 2, 2} { // ECDSA pairs are added sparsely below
			pairs = append(pairs, uint16(h<<8|s))
		}
	}
	n := c.PerShard(c.Pick(16000, 400000))
	r := c.Rng
	gen := func(r *rand.Rand) *fpConfig {
		f := genFP(r, suites, curves, pairs)
		if r.IntN(25) == 0 { // occasionally an ECDSA pair (currently refused by CheckImplemented: counted as rejected)
			for j := range f.exts {
				if f.exts[j].kind == "sigalgs" {
					f.exts[j].sigalgs = append(f.exts[j].sigalgs, uint16((1+r.IntN(6))<<8|3))
				}
			}
		}
		return f
	}
	// sequential cases: Marshal() outputs are held (as returned, hashed) across the rest of the case and the
	// whole next case before they are compared with the reference encoder
	var held []heldExt
	for i := 0; i < n; i++ {
		c29Case(c, gen(r), fmt.Sprintf("fp/%d/%d", c.Shard, i), uint64(i), &held)
	}
	flushHeldExts(c, &held, 0)
	// two clients with different fingerprints at the same time: each must send its own hello
	pairsN := c.PerShard(c.Pick(3200, 80000))
	r1, r2 := c.SubRng("pair/a"), c.SubRng("pair/b")
	for i := 0; i < pairsN; i++ {
		fa, fb := gen(r1), gen(r2)
		var wg sync.WaitGroup
		wg.Add(2)
		go func() {
			defer wg.Done()
			c29Case(c, fa, fmt.Sprintf("fp-pair/%d/%d/a", c.Shard, i), uint64(i)<<1|1<<40, nil)
		}()
		go func() {
			defer wg.Done()
			c29Case(c, fb, fmt.Sprintf("fp-pair/%d/%d/b", c.Shard, i), uint64(i)<<1|1|1<<40, nil)
		}()
		wg.Wait()
	}
	c.Count("concurrent_client_pairs", pairsN)
}

// heldExt is one extension encoding kept exactly as Marshal() returned it.
type heldExt struct {
	ext    fpExt
	enc    []byte
	n      int
	sum    uint64
	want   []byte
	caseID string
	input  map[string]any
	gen    int // case counter at the time of the Marshal call
}

var heldGen int

// flushHeldExts compares the held encodings made before generation `before` (0 = all).
func flushHeldExts(c *core.Ctx, held *[]heldExt, before int) {
	keep := (*held)[:0]
	for _, h := range *held {
		if before != 0 && h.gen >= before {
			keep = append(keep, h)
			continue
		}
		c.Count("extension_marshal_checked", 1)
		in := map[string]any{"extension": h.ext.String(), "marshal_now": hx(h.enc), "expected": hx(h.want)}
		for k, v := range h.input {
			in[k] = v
		}
		if len(h.enc) != h.n || sum64(h.enc) != h.sum {
			c.Violation("fp:aliasing:extension:"+h.ext.kind+":marshal-output-modified-by-later-marshal", fmt.Sprintf("the slice %s.Marshal() returned changed while later extensions / configurations were marshalled; now %x, RFC encoding %x", h.ext, h.enc, h.want), h.caseID, in)
			continue
		}
		if !bytes.Equal(h.enc, h.want) {
			c.Violation("fp:extension:"+h.ext.kind+":marshal", fmt.Sprintf("%s.Marshal() = %x, RFC encoding %x", h.ext, h.enc, h.want), h.caseID, in)
		}
	}
	*held = keep
}

// flightConn is the client's end of the pipe. net.Pipe writes are synchronous, so
// when the client turns to reading, everything it wrote has been recorded: the
// first Read ends the exchange (the stub "closes"), whatever was sent. No parsing
// decides when to stop, so a malformed flight cannot make the stub wait.
type flightConn struct {
	net.Conn
	once sync.Once
}

func (f *flightConn) Read(p []byte) (int, error) {
	f.once.Do(func() { f.Conn.Close() })
	return 0, io.EOF
}

// firstFlight runs the client against the recording stub and returns the bytes it wrote.
func firstFlight(cfg *ztls.Config) (wire []byte, herr error, pi *core.PanicInfo) {
	a, b := net.Pipe()
	done := make(chan []byte, 1)
	go func() {
		var buf []byte
		tmp := make([]byte, 1<<16)
		for {
			n, err := b.Read(tmp)
			buf = append(buf, tmp[:n]...)
			if err != nil {
				break
			}
		}
		b.Close()
		done <- buf
	}()
	client := ztls.Client(&flightConn{Conn: a}, cfg)
	pi = core.Guard(func() { herr = client.Handshake() })
	a.Close()
	wire = <-done
	return
}

func c29Case(c *core.Ctx, f *fpConfig, caseID string, salt uint64, held *[]heldExt) {
	c.Eval(1)
	input := f.describe()
	fp := &ztls.ClientFingerprintConfiguration{HandshakeVersion: f.version, InsertTimestamp: f.timestamp, CipherSuites: append([]uint16(nil), f.suites...), CompressionMethods: []uint8{0}}
	if f.clientRandom != nil {
		fp.ClientRandom = append([]byte{}, f.clientRandom...)
	}
	fp.SessionID = append([]byte(nil), f.sessionID...)
	for _, e := range f.exts {
		fp.Extensions = append(fp.Extensions, e.build())
	}
	if f.fpCache > 0 {
		fp.SessionCache, fp.CacheKey, fp.RandomSessionID = ztls.NewLRUClientSessionCache(4), constKey{}, f.randomSessionID
		if f.fpCache >= 2 {
			fp.SessionCache.Put(constKey{}.Key(nil), ztls.VerifFPNewClientSessionState(append([]byte(nil), f.cachedTicket...), f.version, f.cachedSuite, make([]byte, 48)))
		}
		c.Count("fingerprint_session_cache:"+fpCacheNames[f.fpCache], 1)
	}
	snapshot := func() []string {
		out := []string{"SessionID=" + hx(fp.SessionID)}
		for _, x := range fp.Extensions {
			out = append(out, fmt.Sprintf("%T%+v", x, x))
		}
		return out
	}
	before := snapshot()
	rnd := newDetRand(uint64(c.Seed)<<20|uint64(c.Shard), salt)
	cfg := &ztls.Config{InsecureSkipVerify: true, ServerName: f.serverName, Rand: rnd, Time: func() time.Time { return c29Time }, ClientFingerprintConfiguration: fp}
	if f.sessionCache {
		cfg.ClientSessionCache = ztls.NewLRUClientSessionCache(4)
		c.Count("configs_with_client_session_cache", 1)
	}
	// the extension encoders on their own (exported Marshal methods), before the client may rewrite the list
	var mine []heldExt
	for i, e := range f.exts {
		host := e.host
		if e.kind == "sni" && host == "" {
			continue // autopopulate-only: nothing configured to encode yet
		}
		var enc []byte
		if mpi := core.Guard(func() { enc = fp.Extensions[i].Marshal() }); mpi != nil {
			c.Violation("fp:extension:"+e.kind+":marshal-"+panicKey(mpi), mpi.Value, caseID, input)
			continue
		}
		h := heldExt{ext: e, enc: enc, n: len(enc), sum: sum64(enc), want: e.encode(host), caseID: caseID, input: map[string]any{"Extensions": input["Extensions"]}}
		if held != nil {
			h.gen = heldGen + 1
			*held = append(*held, h)
		} else {
			mine = append(mine, h)
		}
	}
	if held != nil {
		heldGen++
		flushHeldExts(c, held, heldGen) // everything marshalled before this case, now that this case's extensions were marshalled too
	} else {
		defer func() { flushHeldExts(c, &mine, 0) }() // concurrent pair: judged after this client's whole handshake
	}
	wire, herr, pi := firstFlight(cfg)
	// the caller's configuration object after the handshake: rewriting is not promised either way, so it is counted
	if after := snapshot(); strings.Join(after, "|") != strings.Join(before, "|") {
		c.Count("caller_configuration_rewritten", 1)
		for i := range after {
			if i < len(before) && after[i] != before[i] {
				what := "SessionID"
				if i > 0 {
					what = f.exts[i-1].kind
				}
				c.Count("caller_configuration_rewritten:"+what, 1)
			}
		}
	}
	input["wire"] = hx(wire)
	input["handshake_error"] = fmt.Sprint(herr)
	if pi != nil {
		c.Violation("fp:"+panicKey(pi), "client panics with this configuration: "+pi.Value+"\n"+pi.Stack, caseID, input)
		return
	}
	if len(wire) == 0 {
		c.Count("rejected_configurations", 1)
		es := fmt.Sprint(herr)
		switch {
		case strings.Contains(es, "Unsupported Hash and Signature"):
			c.Count("rejected:signature-algorithm-not-implemented", 1)
		case strings.Contains(es, "incompatible ClientFingerprintConfiguration"):
			// the client parsed the hello it had just built and refused it: the configuration is inside the
			// documented domain, so either an encoder or the ClientHello parser is wrong
			c.Count("rejected:incompatible", 1)
			c.Violation("fp:in-domain-configuration-refused-as-incompatible", "clientHelloMsg.unmarshal refuses the ClientHello built from this configuration", caseID, input)
		default:
			c.Count("rejected:other", 1)
			c.Note("rejected: %s", es)
		}
		return
	}
	viol := func(key, detail string) { c.Violation("fp:"+key, detail, caseID, input) }

	recs, _ := tlswire.ParseRecords(wire)
	msgs, _ := tlswire.LeadingHandshake(recs)
	if len(recs) == 0 || recs[0].Type != tlswire.RecordHandshake || len(msgs) == 0 {
		viol("first-flight-not-a-handshake-message", fmt.Sprintf("%d bytes written, no complete handshake message at the start", len(wire)))
		return
	}
	msg := msgs[0].Raw
	ch, err := tlswire.ParseClientHello(msg)
	if err != nil {
		viol("malformed-client-hello", "reference parser: "+err.Error())
		return
	}
	ok := true
	fail := func(key, detail string) { ok = false; viol(key, detail) }

	if ch.Version != f.version {
		fail("handshake-version", fmt.Sprintf("wire 0x%04x, configured 0x%04x", ch.Version, f.version))
	}
	// random
	masked := append([]byte(nil), msg...)
	if len(f.clientRandom) == 32 {
		if !bytes.Equal(ch.Random, f.clientRandom) {
			fail("random:configured-value-not-sent", fmt.Sprintf("wire %x, configured %x", ch.Random, f.clientRandom))
		}
	} else {
		fresh := ch.Random
		if f.timestamp {
			fresh = ch.Random[4:]
			if ts := uint32(ch.Random[0])<<24 | uint32(ch.Random[1])<<16 | uint32(ch.Random[2])<<8 | uint32(ch.Random[3]); ts < 1500000000 {
				fail("random:timestamp-prefix-not-a-unix-time", fmt.Sprintf("InsertTimestamp is set but the first four bytes of the random are %x (%d)", ch.Random[:4], ts))
			}
			c.Count("timestamp_prefix_cases", 1)
		}
		if !bytes.Contains(rnd.handedOut(), fresh) {
			fail("random:not-from-config-rand", fmt.Sprintf("wire random %x is not among the %d bytes Config.Rand handed out", ch.Random, len(rnd.handedOut())))
		}
		c.Count("fresh_random_cases", 1)
		for i := 6; i < 38; i++ {
			masked[i] = 0
		}
	}
	// Autopopulate switches. Nothing documents SessionTicketExtension.Autopopulate beyond its name; the rules used:
	//   Autopopulate false                         -> the configured Ticket is sent            (asserted)
	//   Autopopulate true, no cache / empty cache  -> nothing to populate from: configured Ticket (asserted)
	//   Autopopulate true, cache holds a session   -> the cached ticket may replace the configured one: either is accepted, counted
	//   RandomSessionID > 0 and the cached ticket was sent ("a session resumption occurs", doc comment of RandomSessionID)
	//                                              -> SessionID is that many fresh bytes from Config.Rand (asserted); otherwise the configured SessionID
	exts := append([]fpExt(nil), f.exts...)
	resumed, ambiguous := false, false
	for i := range exts {
		if exts[i].kind != "ticket" {
			continue
		}
		combo := fmt.Sprintf("ticket:preset=%v,autopopulate=%v,cache=%s", len(exts[i].ticket) > 0, exts[i].autopop, fpCacheNames[f.fpCache])
		c.Count(combo, 1)
		if exts[i].autopop && f.fpCache >= 2 {
			for _, w := range ch.Extensions {
				if w.Type == tlswire.ExtSessionTicket && bytes.Equal(w.Data, f.cachedTicket) && !bytes.Equal(w.Data, exts[i].ticket) {
					exts[i].ticket = f.cachedTicket
					resumed = true
					c.Count(combo+":cached-ticket-sent", 1)
				} else if w.Type == tlswire.ExtSessionTicket && bytes.Equal(w.Data, f.cachedTicket) {
					// the cached ticket happens to equal the configured one: the wire cannot tell whether the cache was used
					ambiguous = true
					c.Count(combo+":cached-ticket-equals-configured", 1)
				}
			}
		}
	}
	if resumed && f.randomSessionID > 0 {
		c.Count("random_session_id_on_resumption", 1)
		if len(ch.SessionID) != f.randomSessionID || !bytes.Contains(rnd.handedOut(), ch.SessionID) {
			fail("session-id:random-session-id-on-resumption", fmt.Sprintf("RandomSessionID=%d and the cached ticket was sent, wire session id %x is not %d bytes from Config.Rand", f.randomSessionID, ch.SessionID, f.randomSessionID))
		}
		for i := 39; i < 39+len(ch.SessionID) && i < len(masked); i++ {
			masked[i] = 0
		}
	} else if ambiguous && f.randomSessionID > 0 && len(ch.SessionID) == f.randomSessionID && bytes.Contains(rnd.handedOut(), ch.SessionID) {
		// resumption from the cache with a ticket equal to the configured one: the random session id is the documented behaviour
		c.Count("random_session_id_on_ambiguous_resumption", 1)
		for i := 39; i < 39+len(ch.SessionID) && i < len(masked); i++ {
			masked[i] = 0
		}
	} else if !bytes.Equal(ch.SessionID, f.sessionID) {
		fail("session-id", fmt.Sprintf("wire %x, configured %x", ch.SessionID, f.sessionID))
	}
	if fmt.Sprint(ch.CipherSuites) != fmt.Sprint(f.suites) {
		fail("cipher-suites", fmt.Sprintf("wire %04x, configured %04x", ch.CipherSuites, f.suites))
	}
	if !bytes.Equal(ch.Compression, []byte{0}) {
		fail("compression-methods", fmt.Sprintf("wire %x, configured 00", ch.Compression))
	}

	// extensions: expected encodings in order
	var want [][]byte // per non-empty expected extension
	var wantExt []fpExt
	var sniWanted string
	for _, e := range exts {
		host := ""
		if e.kind == "sni" {
			c.Count(fmt.Sprintf("sni:autopopulate=%v,domains=%v,servername=%v", e.autopop, e.host != "", f.serverName != ""), 1)
			switch {
			case e.noAssert:
				// take whatever is on the wire for this slot, if it is a server_name extension
				for _, w := range ch.Extensions {
					if w.Type == tlswire.ExtServerName {
						if names, err := tlswire.DecodeServerNameList(w.Data); err == nil && len(names) == 1 {
							host = string(names[0].Name)
						}
					}
				}
				c.Count("sni_autopopulate_with_explicit_domain_not_asserted", 1)
			case e.autopop:
				host = f.serverName
			default:
				host = e.host
			}
			sniWanted = host
		}
		if enc := e.encode(host); enc != nil {
			want = append(want, enc)
			wantExt = append(wantExt, e)
		}
	}
	if len(want) != len(ch.Extensions) {
		var got []string
		for _, w := range ch.Extensions {
			got = append(got, fmt.Sprint(w.Type))
		}
		fail("extension-list", fmt.Sprintf("%d extensions on the wire (types %s), %d configured to be emitted", len(ch.Extensions), strings.Join(got, ","), len(want)))
	} else {
		for i, w := range ch.Extensions {
			if !bytes.Equal(w.Raw, want[i]) {
				fail("extension:"+wantExt[i].kind+":encoding", fmt.Sprintf("position %d: wire %x, expected %x (%s)", i, w.Raw, want[i], wantExt[i]))
				break
			}
		}
	}
	// decoded content through the reference decoders
	for _, w := range ch.Extensions {
		var derr error
		switch w.Type {
		case tlswire.ExtServerName:
			var names []tlswire.ServerName
			if names, derr = tlswire.DecodeServerNameList(w.Data); derr == nil && (len(names) != 1 || names[0].Type != 0 || string(names[0].Name) != sniWanted) {
				fail("extension:sni:decoded", fmt.Sprintf("decoded %v, configured %q", names, sniWanted))
			}
		case tlswire.ExtALPN:
			_, derr = tlswire.DecodeALPN(w.Data)
		case tlswire.ExtSupportedGroups, tlswire.ExtSignatureAlgorithms:
			_, derr = tlswire.DecodeUint16Vector(w.Data)
		case tlswire.ExtECPointFormats:
			_, derr = tlswire.DecodeUint8Vector(w.Data, 1)
		case tlswire.ExtRenegotiationInfo:
			_, derr = tlswire.DecodeUint8Vector(w.Data, 0)
		case tlswire.ExtStatusRequest:
			_, derr = tlswire.DecodeStatusRequest(w.Data)
		case tlswire.ExtSCT, tlswire.ExtExtendedMasterSecret:
			if len(w.Data) != 0 {
				derr = fmt.Errorf("%d bytes of extension_data, must be empty", len(w.Data))
			}
		}
		if derr != nil {
			fail(fmt.Sprintf("extension:type-%d:not-well-formed", w.Type), derr.Error())
		}
	}

	// zcrypto's own parser
	zm := ztls.VerifNewMsg("clientHello")
	var zok bool
	if zpi := core.Guard(func() { zok = zm.Unmarshal(msg) }); zpi != nil {
		fail("zcrypto-parser:"+panicKey(zpi), zpi.Value)
	} else if !zok {
		fail("zcrypto-parser:rejects-sent-hello", "clientHelloMsg.unmarshal refuses the ClientHello the client sent")
	} else {
		got := dumpMsg(zm.V)
		exp := map[string]any{
			"vers": uint64(f.version), "sessionId": hx(ch.SessionID), "compressionMethods": "00", // the session id rule is judged above
			"serverName": "", "alpnProtocols": []any{}, "secureRenegotiationSupported": false, "secureRenegotiation": "",
			"extendedMasterSecret": false, "ocspStapling": false, "scts": false, "supportedCurves": []any{}, "supportedPoints": "",
			"ticketSupported": false, "sessionTicket": "", "supportedSignatureAlgorithms": []any{},
		}
		var sl []any
		for _, s := range f.suites {
			sl = append(sl, uint64(s))
		}
		exp["cipherSuites"] = sl
		if len(f.clientRandom) == 32 {
			exp["random"] = hx(f.clientRandom)
		}
		for _, e := range exts {
			switch e.kind {
			case "sni":
				exp["serverName"] = hx([]byte(sniWanted))
			case "alpn":
				var l []any
				for _, p := range e.protos {
					l = append(l, hx([]byte(p)))
				}
				exp["alpnProtocols"] = l
			case "reneg":
				exp["secureRenegotiationSupported"] = true
			case "ems":
				exp["extendedMasterSecret"] = true
			case "status":
				exp["ocspStapling"] = true
			case "sct":
				exp["scts"] = true
			case "curves":
				var l []any
				for _, x := range e.curves {
					l = append(l, uint64(x))
				}
				exp["supportedCurves"] = l
			case "points":
				exp["supportedPoints"] = hx(e.points)
			case "ticket":
				exp["ticketSupported"] = true
				exp["sessionTicket"] = hx(e.ticket)
			case "sigalgs":
				var l []any
				for _, x := range e.sigalgs {
					l = append(l, uint64(x))
				}
				exp["supportedSignatureAlgorithms"] = l
			}
		}
		names := make([]string, 0, len(exp))
		for k := range exp {
			names = append(names, k)
		}
		sortStrings(names)
		for _, k := range names {
			if canon(got[k]) != canon(exp[k]) {
				fail("zcrypto-parser:"+k, fmt.Sprintf("clientHelloMsg.unmarshal reads %s = %s, configured %s", k, canon(abbreviate(got[k])), canon(abbreviate(exp[k]))))
				break
			}
		}
	}
	c.Nontrivial(masked)
	c.Count("client_hellos_compared", 1)
	c.Max("extensions_in_one_hello", len(ch.Extensions))
	if ok && c.WantSample() && len(msg) < 220 {
		c.Sample(map[string]any{"config": input["Extensions"], "client_hello": hx(msg)})
	}
}

func sortStrings(s []string) {
	for i := 1; i < len(s); i++ {
		for j := i; j > 0 && s[j] < s[j-1]; j-- {
			s[j], s[j-1] = s[j-1], s[j]
		}
	}
}
