package tlskdfeng

import (
	"strings"

	"encoding/hex"
	"math/rand/v2"
	"sync"
	"verifharness/internal/core"
)

// rbytes returns n pseudo-random bytes from the deterministic stream.
func rbytes(r *rand.Rand, n int) []byte {
	b := make([]byte, n)
	i := 0
	for ; i+8 <= n; i += 8 {
		v := r.Uint64()
		b[i], b[i+1], b[i+2], b[i+3], b[i+4], b[i+5], b[i+6], b[i+7] =
			byte(v), byte(v>>8), byte(v>>16), byte(v>>24), byte(v>>32), byte(v>>40), byte(v>>48), byte(v>>56)
	}
	if i < n {
		v := r.Uint64()
		for ; i < n; i++ {
			b[i] = byte(v)
			v >>= 8
		}
	}
	return b
}

// rlen draws a length in [lo, hi], biased to the ends and to hash-block boundaries.
func rlen(r *rand.Rand, lo, hi int) int {
	switch r.IntN(10) {
	case 0:
		return lo
	case 1:
		return hi
	case 2:
		edges := []int{1, 15, 16, 17, 19, 20, 21, 31, 32, 33, 47, 48, 49, 63, 64, 65, 127, 128, 129, 255, 256, 257}
		e := edges[r.IntN(len(edges))]
		if e >= lo && e <= hi {
			return e
		}
	}
	return lo + r.IntN(hi-lo+1)
}

func hx(b []byte) string { return hex.EncodeToString(b) }

// detRand is a deterministic io.Reader (Config.Rand) that remembers what it handed out.
type detRand struct {
	mu  sync.Mutex
	r   *rand.Rand
	out []byte
}

func newDetRand(seed1, seed2 uint64) *detRand {
	return &detRand{r: rand.New(rand.NewPCG(seed1, seed2))}
}

func (d *detRand) Read(p []byte) (int, error) {
	d.mu.Lock()
	defer d.mu.Unlock()
	b := rbytes(d.r, len(p))
	copy(p, b)
	d.out = append(d.out, b...)
	return len(p), nil
}

func (d *detRand) handedOut() []byte {
	d.mu.Lock()
	defer d.mu.Unlock()
	return append([]byte(nil), d.out...)
}

// lockedBuf is a concurrency-safe byte sink (key log, wire tap).
type lockedBuf struct {
	mu sync.Mutex
	b  []byte
}

func (l *lockedBuf) Write(p []byte) (int, error) {
	l.mu.Lock()
	l.b = append(l.b, p...)
	l.mu.Unlock()
	return len(p), nil
}

func (l *lockedBuf) Bytes() []byte {
	l.mu.Lock()
	defer l.mu.Unlock()
	return append([]byte(nil), l.b...)
}

// panicKey is core's witness key with the complete first zcrypto frame: core.Classify
// cuts method names at the receiver's parenthesis ("tls." instead of "tls.(*Conn).loadSession").
func panicKey(pi *core.PanicInfo) string {
	class := pi.Key
	if i := strings.LastIndex(class, "@"); i >= 0 {
		class = class[:i]
	}
	for _, line := range strings.Split(pi.Stack, "\n") {
		if strings.HasPrefix(line, "github.com/zmap/zcrypto/") && !strings.Contains(line, ".Verif") && !strings.Contains(line, ".verif") {
			f := strings.TrimPrefix(line, "github.com/zmap/zcrypto/")
			if i := strings.LastIndex(f, "("); i > 0 {
				f = f[:i]
			}
			return class + "@" + f
		}
	}
	return pi.Key
}
