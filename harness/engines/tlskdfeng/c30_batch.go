package tlskdfeng

// C30, lifetime of encodings: a value's encoding must keep decoding to that
// value for as long as the caller holds the returned slice. An immediate
// marshal → unmarshal loop cannot see an encoder that hands out a recycled
// buffer, so two more legs use the same round-trip oracle differently:
//
//   - batches: k = 2..8 different values of one kind are marshalled first, the
//     returned slices are kept as returned (no copy); only then is each one
//     unmarshalled and compared with its own original. A hash of every encoding is
//     taken right after its marshal call and re-checked after the later calls.
//     Marshalling the same value twice must give equal bytes and leave the first
//     slice untouched (returning the cached slice again is fine);
//   - concurrent: several goroutines do marshal → Gosched → unmarshal → compare
//     on their own values of the same kinds at the same time.

import (
	"bytes"
	"fmt"
	"hash/fnv"
	"math/rand/v2"
	"runtime"
	"sync"

	ztls "github.com/zmap/zcrypto/tls"

	"verifharness/internal/core"
)

func sum64(b []byte) uint64 {
	h := fnv.New64a()
	h.Write(b)
	return h.Sum64()
}

type heldEnc struct {
	orig map[string]any
	enc  []byte // exactly the slice marshal returned
	sum  uint64 // hash taken immediately after the marshal call
	n    int
	mode int
}

func c30GenMode(r *rand.Rand) int {
	if r.IntN(4) == 0 {
		return ztls.VerifGenBoundary
	}
	return ztls.VerifGenTypical
}

// c30Decode unmarshals a held encoding and compares it with the value it was made from.
func c30Decode(c *core.Ctx, leg, kind string, h heldEnc, caseID string, extra map[string]any) bool {
	input := map[string]any{"kind": kind, "leg": leg, "value": abbreviate(h.orig), "encoding_now": hx(h.enc)}
	for k, v := range extra {
		input[k] = v
	}
	recv := ztls.VerifNewMsg(kind)
	var ok bool
	if pi := core.Guard(func() { ok = recv.Unmarshal(h.enc) }); pi != nil {
		c.Violation("roundtrip-"+leg+":"+kind+":unmarshal-"+panicKey(pi), pi.Value+"\n"+pi.Stack, caseID, input)
		return false
	}
	if !ok {
		c.Violation("roundtrip-"+leg+":"+kind+":unmarshal-rejects-held-encoding", fmt.Sprintf("the encoding of a %s value, held by the caller while other values were marshalled, no longer unmarshals", kind), caseID, input)
		return false
	}
	got := dumpMsg(recv.V)
	if field, a, b := firstDiff(h.orig, got); field != "" {
		input["decoded"] = abbreviate(got)
		c.Violation("roundtrip-"+leg+":"+kind+":field:"+field, fmt.Sprintf("%s.%s: marshalled %s, the held encoding later decodes to %s", kind, field, canon(abbreviate(a)), canon(abbreviate(b))), caseID, input)
		return false
	}
	return true
}

func c30Batches(c *core.Ctx) {
	kinds := ztls.VerifMsgKinds()
	batches := c.PerShard(c.Pick(320, 16000))
	for _, kind := range kinds {
		r := c.SubRng("batch/" + kind)
		for bi := 0; bi < batches; bi++ {
			caseID := fmt.Sprintf("%s/batch/%d/%d", kind, c.Shard, bi)
			k := 2 + r.IntN(7)
			held := make([]heldEnc, 0, k)
			failed := false
			for i := 0; i < k; i++ {
				mode := c30GenMode(r)
				v := ztls.VerifGenerateMsg(kind, r, mode, 0)
				h := heldEnc{orig: dumpMsg(v.V), mode: mode}
				if pi := core.Guard(func() { h.enc = v.Marshal() }); pi != nil {
					c.Violation("roundtrip-batch:"+kind+":marshal-"+panicKey(pi), pi.Value, caseID, nil)
					failed = true
					break
				}
				h.sum, h.n = sum64(h.enc), len(h.enc)
				held = append(held, h)
			}
			if failed {
				continue
			}
			c.Eval(len(held))
			c.Count("batch_values", len(held))
			for i, h := range held {
				extra := map[string]any{"batch_size": k, "position": i}
				if len(h.enc) != h.n || sum64(h.enc) != h.sum {
					c.Violation("aliasing:"+kind+":earlier-encoding-modified-by-later-marshal",
						fmt.Sprintf("the slice returned by marshal for value %d of %d changed while values %d..%d were marshalled", i, k, i+1, k-1), caseID,
						map[string]any{"kind": kind, "batch_size": k, "position": i, "value": abbreviate(h.orig), "encoding_now": hx(h.enc)})
					// the decode below then shows what the held bytes mean now
				}
				if c30Decode(c, "batch", kind, h, caseID, extra) {
					c.Nontrivial(kind, h.enc)
				}
			}
			// same value twice
			v := ztls.VerifGenerateMsg(kind, r, c30GenMode(r), 0)
			orig := dumpMsg(v.V)
			var e1, e2 []byte
			if pi := core.Guard(func() { e1 = v.Marshal() }); pi != nil {
				continue
			}
			s1, c1 := sum64(e1), append([]byte(nil), e1...)
			if pi := core.Guard(func() { e2 = v.Marshal() }); pi != nil {
				continue
			}
			c.Eval(1)
			c.Count("double_marshal_cases", 1)
			in := map[string]any{"kind": kind, "value": abbreviate(orig), "first": hx(c1), "first_now": hx(e1), "second": hx(e2)}
			if sum64(e1) != s1 {
				c.Violation("aliasing:"+kind+":first-encoding-modified-by-second-marshal", "marshalling the same value again changed the bytes of the slice returned first", caseID, in)
			} else if !bytes.Equal(c1, e2) {
				c.Violation("roundtrip-batch:"+kind+":marshal-not-deterministic", "two marshal calls on an unmodified value return different bytes", caseID, in)
			}
		}
	}
}

func c30Concurrent(c *core.Ctx) {
	kinds := ztls.VerifMsgKinds()
	workers := 6
	iters := c.Pick(12, 300)
	var wg sync.WaitGroup
	var okCount [8]int64
	for w := 0; w < workers; w++ {
		wg.Add(1)
		r := c.SubRng(fmt.Sprintf("concurrent/%d", w))
		go func(w int, r *rand.Rand) {
			defer wg.Done()
			for it := 0; it < iters; it++ {
				for _, kind := range kinds {
					caseID := fmt.Sprintf("%s/concurrent/%d/%d/%d", kind, c.Shard, w, it)
					mode := c30GenMode(r)
					v := ztls.VerifGenerateMsg(kind, r, mode, 0)
					h := heldEnc{orig: dumpMsg(v.V), mode: mode}
					if pi := core.Guard(func() { h.enc = v.Marshal() }); pi != nil {
						c.Violation("roundtrip-concurrent:"+kind+":marshal-"+panicKey(pi), pi.Value, caseID, nil)
						continue
					}
					runtime.Gosched()
					if c30Decode(c, "concurrent", kind, h, caseID, map[string]any{"goroutines": workers}) {
						okCount[w]++
					}
				}
			}
		}(w, r)
	}
	wg.Wait()
	var total int64
	for _, n := range okCount {
		total += n
	}
	c.Eval(workers * iters * len(kinds))
	c.Count("concurrent_roundtrips_ok", int(total))
	c.Count("concurrent_goroutines", workers)
}
