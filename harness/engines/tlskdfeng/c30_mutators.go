package tlskdfeng

// C30, mutators of a marshalled message: methods that edit or reuse the cached
// encoding must leave the message encoding its field values.
//
//   - (*clientHelloMsg).updateBinders edits m.raw in place. For hellos with 1..4
//     PSK identities and binders of mixed lengths (32 / 48): marshal, updateBinders
//     with fresh binders of the same lengths, then
//       (a) marshal() equals the encoding of a fresh value with the same fields and the new binders,
//       (b) unmarshal of it succeeds and the decoded value equals that fresh value,
//       (c) marshalWithoutBinders() is unchanged, is a prefix of marshal(), and what follows
//           it is exactly the binders list (uint16 length, then uint8-prefixed binders);
//   - the HelloRetryRequest path: marshal, assign the fields the client changes between
//     ClientHello1 and ClientHello2 (cookie, key share), drop the cache (`raw = nil`),
//     marshal again, update the binders: same three checks against a fresh value;
//   - dropping the cache and marshalling again without an edit reproduces the encoding
//     (clientHello and serverHello).

import (
	"bytes"
	"fmt"
	"math/rand/v2"

	ztls "github.com/zmap/zcrypto/tls"

	"verifharness/internal/core"
)

func c30Mutators(c *core.Ctx) {
	n := c.PerShard(c.Pick(6400, 160000))
	r := c.SubRng("mutators")
	for i := 0; i < n; i++ {
		caseID := fmt.Sprintf("clientHello/mutators/%d/%d", c.Shard, i)
		c30Binders(c, r, caseID, i%3 == 2)
		if i%4 == 0 {
			c30RawReset(c, r, []string{"clientHello", "serverHello"}[i/4%2], caseID)
		}
	}
}

func bindersTail(binders [][]byte) []byte {
	var list []byte
	for _, b := range binders {
		list = append(list, byte(len(b)))
		list = append(list, b...)
	}
	return append([]byte{byte(len(list) >> 8), byte(len(list))}, list...)
}

func c30Binders(c *core.Ctx, r *rand.Rand, caseID string, hrr bool) {
	c.Eval(1)
	seed1, seed2 := r.Uint64(), r.Uint64()
	mode := ztls.VerifGenTypical
	if r.IntN(4) == 0 {
		mode = ztls.VerifGenMinimal
	}
	gen := func() *ztls.VerifMsg {
		return ztls.VerifGenerateMsg("clientHello", rand.New(rand.NewPCG(seed1, seed2)), mode, 0)
	}
	k := 1 + r.IntN(4)
	var labels, oldB, newB [][]byte
	var ages []uint32
	var lens []int
	for i := 0; i < k; i++ {
		labels = append(labels, rbytes(r, 1+r.IntN(80)))
		ages = append(ages, r.Uint32())
		l := []int{32, 48}[r.IntN(2)]
		lens = append(lens, l)
		oldB = append(oldB, make([]byte, l)) // the handshake marshals with zero binders of the right length first
		newB = append(newB, rbytes(r, l))
	}
	cookie, share := rbytes(r, 1+r.IntN(60)), rbytes(r, 32)
	v, fresh := gen(), gen()
	v.SetPSK(labels, ages, oldB)
	fresh.SetPSK(labels, ages, newB)
	if hrr {
		fresh.SetHRRFields(cookie, 29, share)
	}
	leg := "clientHello.updateBinders"
	if hrr {
		leg = "clientHello.hrr-edit-then-updateBinders"
	}
	input := map[string]any{"leg": leg, "identities": k, "binder_lengths": fmt.Sprint(lens), "new_binders": hexAll(newB)}
	var enc1, wb1, encU, wb2, encF []byte
	if pi := core.Guard(func() {
		enc1 = append([]byte(nil), v.Marshal()...)
		if hrr { // what processHelloRetryRequest does: edit fields, drop the cache, marshal again
			v.SetHRRFields(cookie, 29, share)
			v.ClearRaw()
			v.Marshal()
		}
		wb1 = append([]byte(nil), v.MarshalWithoutBinders()...)
		v.UpdateBinders(newB)
		encU = v.Marshal()
		wb2 = v.MarshalWithoutBinders()
		encF = fresh.Marshal()
	}); pi != nil {
		input["encoding_before"] = hx(enc1)
		c.Violation("mutator:"+leg+":"+panicKey(pi), pi.Value+"\n"+pi.Stack, caseID, input)
		return
	}
	input["encoding_before"], input["encoding_after_update"], input["encoding_of_fresh_value"] = hx(enc1), hx(encU), hx(encF)
	c.Count("mutator_cases:"+leg, 1)
	c.Count(fmt.Sprintf("mutator_identities:%d", k), 1)
	ok := true
	fail := func(key, detail string) {
		ok = false
		c.Violation("mutator:"+leg+":"+key, detail, caseID, input)
	}
	// (a)
	if !bytes.Equal(encU, encF) {
		fail("marshal-differs-from-fresh-value", fmt.Sprintf("after updateBinders marshal() is not the encoding of a value with the same fields and the new binders (%d identities, binder lengths %v)", k, lens))
	}
	// (b)
	recv := ztls.VerifNewMsg("clientHello")
	var acc bool
	if pi := core.Guard(func() { acc = recv.Unmarshal(encU) }); pi != nil {
		fail("unmarshal-"+panicKey(pi), pi.Value)
	} else if !acc {
		fail("unmarshal-rejects-updated-encoding", "unmarshal refuses marshal() of the hello whose binders were updated")
	} else if field, a, b := firstDiff(dumpMsg(fresh.V), dumpMsg(recv.V)); field != "" {
		fail("field:"+field, fmt.Sprintf("clientHello.%s: expected %s, the updated encoding decodes to %s", field, canon(abbreviate(a)), canon(abbreviate(b))))
	}
	// (c)
	tail := bindersTail(newB)
	switch {
	case !bytes.Equal(wb1, wb2):
		fail("marshalWithoutBinders-changed", "marshalWithoutBinders() differs before and after updateBinders")
	case len(wb2)+len(tail) != len(encU) || !bytes.HasPrefix(encU, wb2):
		fail("marshalWithoutBinders-not-a-prefix", fmt.Sprintf("marshalWithoutBinders() has %d bytes, marshal() %d, binders list %d", len(wb2), len(encU), len(tail)))
	case !bytes.Equal(encU[len(wb2):], tail):
		fail("binders-list-after-truncation-point", fmt.Sprintf("bytes after marshalWithoutBinders() are %x, the binders list is %x", encU[len(wb2):], tail))
	}
	if ok {
		c.Nontrivial("mutator", leg, encU)
	}
}

func c30RawReset(c *core.Ctx, r *rand.Rand, kind, caseID string) {
	c.Eval(1)
	v := ztls.VerifGenerateMsg(kind, r, c30GenMode(r), 0)
	var e1, e2 []byte
	if pi := core.Guard(func() {
		e1 = append([]byte(nil), v.Marshal()...)
		v.ClearRaw()
		e2 = v.Marshal()
	}); pi != nil {
		return
	}
	c.Count("mutator_cases:"+kind+".raw-reset", 1)
	if !bytes.Equal(e1, e2) {
		c.Violation("mutator:"+kind+".raw-reset:re-marshal-differs", "marshal, drop the cache, marshal again gives different bytes", caseID, map[string]any{"kind": kind, "first": hx(e1), "second": hx(e2)})
	} else {
		c.Nontrivial("mutator", kind+".raw-reset", e2)
	}
}
