package tlskdfeng

// C26, lifetime of derived values: what a derivation returned must stay what the
// RFC defines for ITS inputs while the caller holds it. Batches: k = 2..6 calls
// (the same function with different inputs, or a mix) are made first; every
// returned slice is kept as returned (no copy) and hashed at once; only then is
// each compared with the reference for its own inputs, and its hash re-checked.
// keysFromMasterSecret contributes its six sub-slices separately. A concurrent leg
// lets 6 goroutines do derive → Gosched → compare at the same time.

import (
	"bytes"
	"fmt"
	"runtime"
	"sync"

	"verifharness/internal/core"
)

type heldOut struct {
	key   string
	got   []byte // exactly the slice the derivation returned
	n     int
	sum   uint64
	want  []byte
	input map[string]any
}

// flush judges the held outputs and clears the list.
func (e *kdfEnv) flush(leg string, held *[]heldOut) {
	c := e.c
	for _, h := range *held {
		c.Eval(1)
		if len(h.want) > 0 {
			c.Nontrivial(leg, h.key, fmt.Sprint(h.input))
		}
		changed := len(h.got) != h.n || sum64(h.got) != h.sum
		if changed {
			h.input["held_output_now"] = hx(h.got)
			h.input["reference"] = hx(h.want)
			c.Violation("kdf:aliasing:"+h.key+":output-modified-by-later-call", fmt.Sprintf("the slice returned for these inputs changed while later derivations ran (%s leg); now %s, RFC value %s", leg, core.Hex(h.got), core.Hex(h.want)), "", h.input)
			continue
		}
		if !bytes.Equal(h.got, h.want) {
			h.input["zcrypto"], h.input["reference"] = hx(h.got), hx(h.want)
			c.Violation("kdf:"+h.key, fmt.Sprintf("zcrypto returned %d bytes %s, RFC reference %d bytes %s (%s leg)", len(h.got), core.Hex(h.got), len(h.want), core.Hex(h.want), leg), "", h.input)
		}
	}
	*held = (*held)[:0]
}

func (e *kdfEnv) batches() {
	c := e.c
	n := c.PerShard(c.Pick(24000, 600000))
	r := c.SubRng("batch")
	var held []heldOut
	e.hold = &held
	defer func() { e.hold = nil }()
	for b := 0; b < n; b++ {
		k := 2 + r.IntN(5)
		kind := -1
		if b%2 == 0 { // the same derivation k times with different inputs
			kind = r.IntN(kdfCaseKinds())
		}
		for i := 0; i < k; i++ {
			if kind >= 0 {
				e.randomCaseKind(r, kind)
			} else {
				e.randomCase(r)
			}
		}
		c.Count("batch_held_outputs", len(held))
		e.flush("batch", &held)
	}
	c.Count("batches", n)
}

func (e *kdfEnv) concurrent() {
	c := e.c
	workers := 6
	iters := c.Pick(400, 10000)
	var wg sync.WaitGroup
	for w := 0; w < workers; w++ {
		wg.Add(1)
		r := c.SubRng(fmt.Sprintf("concurrent/%d", w))
		we := &kdfEnv{c: c, suites: e.suites, suites13: e.suites13}
		go func() {
			defer wg.Done()
			var held []heldOut
			we.hold = &held
			for i := 0; i < iters; i++ {
				we.randomCase(r)
				runtime.Gosched()
				we.flush("concurrent", &held)
			}
		}()
	}
	wg.Wait()
	c.Count("concurrent_derivations", workers*iters)
	c.Count("concurrent_goroutines", workers)
}
