package tlskdfeng

// C26, stateful objects: "create, then disturb the inputs, then use". The KDF
// surface has three kinds of objects that outlive the call that makes them:
//
//   - the TLS 1.3 exporter closure (exportKeyingMaterial(masterSecret, transcript)):
//     RFC 8446 §7.5 defines exporter_master_secret over the transcript up to the
//     server Finished, i.e. the transcript AT CREATION; both handshake state
//     machines keep writing the client's second flight into the same hash.Hash
//     afterwards. So: create → write more to the transcript → mutate the caller's
//     master-secret slice → export (twice, different labels) must equal the
//     reference over transcript and master secret at creation; a second exporter
//     created later from the same hash must reflect the transcript at ITS creation;
//   - finishedHash objects (TLS <= 1.2): Sum/clientSum/serverSum after further
//     Write calls must reflect exactly the bytes written so far;
//   - ekmFromMasterSecret closures: two exports with different labels are asserted
//     against the creation inputs; what happens when the caller mutates the slices
//     it passed in afterwards is not stated anywhere (the closure captures them by
//     reference, as upstream does) and is counted, not asserted.

import (
	"bytes"
	"fmt"
	"math/rand/v2"

	ztls "github.com/zmap/zcrypto/tls"

	"verifharness/internal/ref/tlskdf"
)

func (e *kdfEnv) stateful() {
	c := e.c
	n := c.PerShard(c.Pick(12000, 300000))
	r := c.SubRng("stateful")
	for i := 0; i < n; i++ {
		switch i % 3 {
		case 0:
			e.statefulExporter13(r)
		case 1:
			e.statefulFinished(r)
		case 2:
			e.statefulEKM(r)
		}
	}
	c.Count("stateful_object_cases", n)
}

func flip(r *rand.Rand, b []byte) {
	for i := range b {
		b[i] ^= byte(1 + r.IntN(255))
	}
}

func (e *kdfEnv) statefulExporter13(r *rand.Rand) {
	id := e.suites13[r.IntN(len(e.suites13))].ID
	h, _, ok := tlskdf.Suite13(id)
	if !ok {
		return
	}
	tr := ztls.VerifTLS13NewTranscript(id)
	var written []byte
	write := func(n int) {
		b := rbytes(r, n)
		tr.Write(b)
		written = append(written, b...)
	}
	write(rlen(r, 0, 600))
	master := rbytes(r, []int{h.Size(), h.Size(), 0, 1, 64}[r.IntN(5)])
	type created struct {
		exp        func(string, []byte, int) ([]byte, error)
		master     []byte // value at creation
		transcript []byte // bytes written at creation
		name       string
	}
	var objs []created
	mk := func(name string) {
		o := created{master: append([]byte(nil), master...), transcript: append([]byte(nil), written...), name: name}
		in := map[string]any{"fn": "exportKeyingMaterial(create)", "suite": fmt.Sprintf("0x%04x", id)}
		if !e.guard("tls13.exporter-object:create", in, func() { o.exp = ztls.VerifTLS13NewExporter(id, master, tr) }) {
			return
		}
		objs = append(objs, o)
	}
	use := func(step string, disturbedTranscript, mutatedMaster bool) {
		for _, o := range objs {
			label, ctx, n := genLabel(r, 40), genContext(r, 100), rlen(r, 1, 128)
			in := map[string]any{"fn": "exportKeyingMaterial(closure)", "suite": fmt.Sprintf("0x%04x", id), "object": o.name, "step": step,
				"master_at_creation": hx(o.master), "transcript_at_creation": hx(o.transcript), "transcript_now": hx(written), "master_now": hx(master),
				"label": hx([]byte(label)), "context": hx(ctx), "contextNil": ctx == nil, "n": n}
			var got []byte
			var err error
			if !e.guard("tls13.exporter-object:use", in, func() { got, err = o.exp(label, ctx, n) }) {
				continue
			}
			e.c.Eval(1)
			if err != nil {
				e.c.Violation("kdf:tls13.exporter-object:unexpected-error", err.Error(), "", in)
				continue
			}
			want := tlskdf.Exporter13(h, tlskdf.ExporterMasterSecret(h, o.master, o.transcript), label, ctx, n)
			e.c.Nontrivial("exporter-object", fmt.Sprint(in))
			if bytes.Equal(got, want) {
				continue
			}
			in["zcrypto"], in["reference"] = hx(got), hx(want)
			key := "kdf:tls13.exporter-object:" + h.String()
			switch {
			case bytes.Equal(got, tlskdf.Exporter13(h, tlskdf.ExporterMasterSecret(h, o.master, written), label, ctx, n)):
				key += ":uses-transcript-written-after-creation"
			case bytes.Equal(got, tlskdf.Exporter13(h, tlskdf.ExporterMasterSecret(h, master, o.transcript), label, ctx, n)):
				key += ":uses-master-secret-mutated-after-creation"
			case disturbedTranscript || mutatedMaster:
				key += ":differs-after-inputs-were-disturbed"
			}
			e.c.Violation(key, fmt.Sprintf("exporter %s at step %q returns %x; RFC 8446 §7.5 over the transcript and master secret at its creation gives %x", o.name, step, got, want), "", in)
		}
	}
	mk("first")
	if len(objs) == 0 {
		return
	}
	if r.IntN(4) == 0 {
		use("immediately", false, false)
	}
	write(rlen(r, 1, 200)) // the client's second flight goes into the same hash
	mutated := false
	if r.IntN(2) == 0 && len(master) > 0 {
		flip(r, master) // the caller reuses its buffer
		mutated = true
	}
	use("after more transcript", true, mutated)
	mk("second") // created later from the same live hash (and the current master secret bytes)
	write(rlen(r, 1, 200))
	if r.IntN(2) == 0 && len(master) > 0 {
		flip(r, master)
		mutated = true
	}
	use("after a second exporter and more transcript", true, mutated)
}

func (e *kdfEnv) statefulFinished(r *rand.Rand) {
	s := e.pickSuite(r)
	version := kdfVersions[r.IntN(3)]
	p, tag, ok := e.params(s, version)
	if !ok {
		return
	}
	var fh *ztls.VerifFinishedHash
	in0 := suiteIn(s, version)
	if !e.guard("finishedHash-object:create", in0, func() { fh = ztls.VerifNewFinishedHash(version, s) }) {
		return
	}
	master := rbytes(r, 48)
	var written []byte
	for step, steps := 0, 1+r.IntN(4); step < steps; step++ {
		if step > 0 || r.IntN(4) != 0 { // sometimes take the sums of the empty transcript first
			b := rbytes(r, rlen(r, 0, 300))
			fh.Write(b)
			written = append(written, b...)
		}
		in := suiteIn(s, version)
		in["fn"], in["master"], in["written_so_far"], in["step"] = "finishedHash(object)", hx(master), hx(written), step
		var sum, cl, sv, cl2 []byte
		if !e.guard("finishedHash-object:use", in, func() {
			sum, cl, sv = fh.Sum(), fh.ClientSum(master), fh.ServerSum(master)
			cl2 = fh.ClientSum(master) // taking a sum must not disturb the object
		}) {
			return
		}
		e.cmp("finishedHash-object.Sum:"+tag, sum, p.SessionHash(written), in)
		e.cmp("finishedHash-object.clientSum:"+tag, cl, p.Finished(master, true, written), in)
		e.cmp("finishedHash-object.serverSum:"+tag, sv, p.Finished(master, false, written), in)
		e.cmp("finishedHash-object.clientSum-repeated:"+tag, cl2, p.Finished(master, true, written), in)
	}
}

func (e *kdfEnv) statefulEKM(r *rand.Rand) {
	s := e.pickSuite(r)
	version := kdfVersions[r.IntN(3)]
	p, tag, ok := e.params(s, version)
	if !ok {
		return
	}
	master, cr, sr := rbytes(r, 48), rbytes(r, 32), rbytes(r, 32)
	m0, c0, s0 := append([]byte(nil), master...), append([]byte(nil), cr...), append([]byte(nil), sr...)
	var ekm func(string, []byte, int) ([]byte, error)
	if !e.guard("ekm-closure:create", suiteIn(s, version), func() { ekm = ztls.VerifNewEKM(version, s, master, cr, sr) }) {
		return
	}
	call := func(label string, ctx []byte, n int) ([]byte, bool) {
		var got []byte
		var err error
		if !e.guard("ekm-closure:use", suiteIn(s, version), func() { got, err = ekm(label, ctx, n) }) || err != nil {
			return nil, false
		}
		return got, true
	}
	for k := 0; k < 2; k++ { // two exports, different labels, nothing disturbed
		label := "EXPORTER-stateful-" + string(rune('a'+k)) + genLabel(r, 20)
		ctx, n := genContext(r, 100), rlen(r, 1, 128)
		got, ok := call(label, ctx, n)
		if !ok {
			continue
		}
		want, _ := p.Exporter(m0, c0, s0, label, ctx, ctx != nil, n)
		in := suiteIn(s, version)
		in["fn"], in["master"], in["clientRandom"], in["serverRandom"], in["label"], in["context"], in["contextNil"], in["n"] = "ekmFromMasterSecret(closure)", hx(m0), hx(c0), hx(s0), hx([]byte(label)), hx(ctx), ctx == nil, n
		e.cmp("ekm-closure:"+tag, got, want, in)
	}
	// the caller mutates the slices it passed in: undocumented, counted
	flip(r, master)
	flip(r, cr)
	label, n := "EXPORTER-after-mutation", 32
	got, ok := call(label, nil, n)
	if !ok {
		return
	}
	e.c.Eval(1)
	atCreation, _ := p.Exporter(m0, c0, s0, label, nil, false, n)
	atCall, _ := p.Exporter(master, cr, sr, label, nil, false, n)
	switch {
	case bytes.Equal(got, atCreation):
		e.c.Count("ekm_closure_after_input_mutation:creation-time-inputs", 1)
	case bytes.Equal(got, atCall):
		e.c.Count("ekm_closure_after_input_mutation:call-time-inputs (captured by reference; not asserted)", 1)
	default:
		in := suiteIn(s, version)
		in["master_at_creation"], in["master_now"], in["zcrypto"] = hx(m0), hx(master), hx(got)
		e.c.Violation("kdf:ekm-closure:after-input-mutation-matches-neither-creation-nor-call-time-inputs:"+tag, "", "", in)
	}
}
