package tlskdfeng

// End-to-end leg of C26 for TLS 1.3: a zcrypto endpoint (client or server)
// handshakes with Go's crypto/tls peer over net.Pipe, application data goes both
// ways, and only then is the zcrypto endpoint's ConnectionState.ExportKeyingMaterial
// used. The reference recomputes the whole RFC 8446 §7.1 schedule from the wire:
// the zcrypto side's X25519 private key is found among the bytes its Config.Rand
// handed out (by matching the public share on the wire), the server's encrypted
// flight is opened with reference-derived keys to obtain the transcript, and the
// traffic secrets zcrypto logged, the server Finished and the exporter values are
// compared with what the RFC defines.

import (
	"bytes"
	"crypto/aes"
	"crypto/cipher"
	"crypto/ecdh"
	gotls "crypto/tls"
	"encoding/binary"
	"fmt"
	"net"
	"sync"
	"time"

	ztls "github.com/zmap/zcrypto/tls"
	"golang.org/x/crypto/chacha20poly1305"

	"verifharness/internal/core"
	"verifharness/internal/keys"
	"verifharness/internal/ref/tlskdf"
	"verifharness/internal/ref/tlswire"
)

func (e *kdfEnv) endToEnd13() {
	c := e.c
	reps := c.Pick(16, 160)
	idx := 0
	for rep := 0; rep < reps; rep++ {
		for _, role := range []string{"zcrypto-client", "zcrypto-server"} {
			idx++
			if (idx-1)%c.NShards == c.Shard {
				e.runE2E13(role, rep)
			}
		}
	}
}

func x25519Share(exts []tlswire.Extension, clientHello bool) []byte {
	for _, x := range exts {
		if x.Type != tlswire.ExtKeyShare {
			continue
		}
		d := x.Data
		if clientHello {
			if len(d) < 2 {
				return nil
			}
			d = d[2:]
		}
		for len(d) >= 4 {
			g, n := int(d[0])<<8|int(d[1]), int(d[2])<<8|int(d[3])
			if len(d) < 4+n {
				return nil
			}
			if g == 0x001d {
				return d[4 : 4+n]
			}
			d = d[4+n:]
		}
	}
	return nil
}

func aead13(suite uint16, key []byte) cipher.AEAD {
	if suite == 0x1303 {
		a, _ := chacha20poly1305.New(key)
		return a
	}
	blk, err := aes.NewCipher(key)
	if err != nil {
		return nil
	}
	a, _ := cipher.NewGCM(blk)
	return a
}

func (e *kdfEnv) runE2E13(role string, rep int) {
	c := e.c
	cert, _, err := e2eServerCert()
	if err != nil {
		return
	}
	caseID := fmt.Sprintf("e2e13/%s/%d", role, rep)
	input := map[string]any{"fn": "end-to-end TLS 1.3", "role": role, "rep": rep}
	zrand := newDetRand(uint64(c.Seed)<<8|13, uint64(rep)<<4|uint64(len(role)))
	zkl := &lockedBuf{}
	now := func() time.Time { return e2eTime }
	a, b := net.Pipe()
	ct, st := &tapConn{Conn: a}, &tapConn{Conn: b}
	var client, server interface {
		Handshake() error
		Read([]byte) (int, error)
		Write([]byte) (int, error)
	}
	var zclient, zserver *ztls.Conn
	if role == "zcrypto-client" {
		zclient = ztls.Client(ct, &ztls.Config{InsecureSkipVerify: true, ServerName: "c26.verif.test", Rand: zrand, Time: now, KeyLogWriter: zkl,
			MinVersion: ztls.VersionTLS13, MaxVersion: ztls.VersionTLS13, CurvePreferences: []ztls.CurveID{ztls.X25519}})
		client = zclient
		server = gotls.Server(st, &gotls.Config{Certificates: []gotls.Certificate{cert}, MinVersion: gotls.VersionTLS13, MaxVersion: gotls.VersionTLS13,
			CurvePreferences: []gotls.CurveID{gotls.X25519}, SessionTicketsDisabled: true, Time: now})
	} else {
		zserver = ztls.Server(st, &ztls.Config{Certificates: []ztls.Certificate{{Certificate: cert.Certificate, PrivateKey: keys.Get().RSAByBits(2048, 2)[0].Z()}}, Rand: zrand, Time: now, KeyLogWriter: zkl,
			MinVersion: ztls.VersionTLS13, MaxVersion: ztls.VersionTLS13, CurvePreferences: []ztls.CurveID{ztls.X25519}, SessionTicketsDisabled: true})
		server = zserver
		client = gotls.Client(ct, &gotls.Config{InsecureSkipVerify: true, ServerName: "c26.verif.test", MinVersion: gotls.VersionTLS13, MaxVersion: gotls.VersionTLS13,
			CurvePreferences: []gotls.CurveID{gotls.X25519}, Time: now})
	}
	var cerr, serr error
	var cp, sp *core.PanicInfo
	var wg sync.WaitGroup
	wg.Add(2)
	go func() {
		defer wg.Done()
		cp = core.Guard(func() { cerr = client.Handshake() })
		if cerr != nil || cp != nil {
			a.Close()
		}
	}()
	go func() {
		defer wg.Done()
		sp = core.Guard(func() { serr = server.Handshake() })
		if serr != nil || sp != nil {
			b.Close()
		}
	}()
	wg.Wait()
	c.Eval(1)
	c.Count("e2e13_handshakes:"+role, 1)
	type ekmOut struct {
		label string
		ctx   []byte
		out   []byte
	}
	var ekms []ekmOut
	if cerr == nil && serr == nil && cp == nil && sp == nil && appDataRoundTrip(client, server) {
		var cs ztls.ConnectionState
		if zclient != nil {
			cs = zclient.ConnectionState()
		} else {
			cs = zserver.ConnectionState()
		}
		for _, q := range []ekmOut{{label: "EXPORTER-c26-one"}, {label: "EXPORTER-c26-two", ctx: []byte("some context")}} {
			if pi := core.Guard(func() { q.out, _ = cs.ExportKeyingMaterial(q.label, q.ctx, 48) }); pi == nil && q.out != nil {
				ekms = append(ekms, q)
			}
		}
	}
	a.Close()
	b.Close()
	for _, pi := range []*core.PanicInfo{cp, sp} {
		if pi != nil {
			c.Violation("kdf:e2e13:"+panicKey(pi), pi.Value+"\n"+pi.Stack, caseID, input)
			return
		}
	}
	c2s, s2c := ct.out.Bytes(), st.out.Bytes()
	input["client_to_server"], input["server_to_client"] = hx(c2s), hx(s2c)
	input["client_error"], input["server_error"] = fmt.Sprint(cerr), fmt.Sprint(serr)
	if cerr != nil || serr != nil {
		c.Count("e2e13_handshake_failed:"+role, 1)
		c.Note("TLS 1.3 end-to-end handshake failed (%s): client %v, server %v", role, cerr, serr)
	}
	crecs, _ := tlswire.ParseRecords(c2s)
	srecs, _ := tlswire.ParseRecords(s2c)
	cmsgs, _ := tlswire.LeadingHandshake(crecs)
	smsgs, _ := tlswire.LeadingHandshake(srecs)
	if len(cmsgs) == 0 || len(smsgs) == 0 {
		return
	}
	ch, err1 := tlswire.ParseClientHello(cmsgs[0].Raw)
	sh, err2 := tlswire.ParseServerHello(smsgs[0].Raw)
	if err1 != nil || err2 != nil {
		c.Count("e2e13_unparsable_hello", 1)
		return
	}
	h, keyLen, ok := tlskdf.Suite13(sh.CipherSuite)
	if !ok {
		c.Count("e2e13_not_tls13", 1)
		return
	}
	cpub, spub := x25519Share(ch.Extensions, true), x25519Share(sh.Extensions, false)
	if cpub == nil || spub == nil {
		c.Count("e2e13_no_x25519_share", 1)
		return
	}
	mine, peer := cpub, spub
	if role == "zcrypto-server" {
		mine, peer = spub, cpub
	}
	var shared []byte
	stream := zrand.handedOut()
	for off := 0; off+32 <= len(stream); off++ {
		priv, err := ecdh.X25519().NewPrivateKey(stream[off : off+32])
		if err != nil || !bytes.Equal(priv.PublicKey().Bytes(), mine) {
			continue
		}
		if pk, err := ecdh.X25519().NewPublicKey(peer); err == nil {
			shared, _ = priv.ECDH(pk)
		}
		break
	}
	if shared == nil {
		c.Count("e2e13_private_key_not_found_in_rand_stream", 1)
		return
	}
	// RFC 8446 §7.1
	transcript := append(append([]byte{}, cmsgs[0].Raw...), smsgs[0].Raw...)
	early := tlskdf.Extract13(h, nil, nil, true)
	hsSecret := tlskdf.Extract13(h, shared, tlskdf.DeriveSecret(h, early, "derived", nil), false)
	chts := tlskdf.DeriveSecret(h, hsSecret, "c hs traffic", transcript)
	shts := tlskdf.DeriveSecret(h, hsSecret, "s hs traffic", transcript)
	check := func(what string, got, want []byte) bool {
		c.Eval(1)
		c.Count("e2e13_values_compared", 1)
		if bytes.Equal(got, want) {
			return true
		}
		input["what"], input["zcrypto"], input["reference"] = what, hx(got), hx(want)
		c.Violation("kdf:e2e13:"+what, fmt.Sprintf("%s (%s, suite 0x%04x): zcrypto %x, RFC 8446 from the wire %x", what, role, sh.CipherSuite, got, want), caseID, input)
		return false
	}
	kl := zkl.Bytes()
	if _, v := keylogSecret(kl, "CLIENT_HANDSHAKE_TRAFFIC_SECRET"); v != nil {
		check("client-handshake-traffic-secret", v, chts)
	}
	if _, v := keylogSecret(kl, "SERVER_HANDSHAKE_TRAFFIC_SECRET"); v != nil {
		check("server-handshake-traffic-secret", v, shts)
	}
	// open the server's encrypted handshake flight
	key, iv := tlskdf.TrafficKeys(h, shts, keyLen)
	aead := aead13(sh.CipherSuite, key)
	if aead == nil {
		return
	}
	var hstream []byte
	seq := uint64(0)
	for _, r := range srecs {
		if r.Type != tlswire.RecordApplicationData {
			continue
		}
		nonce := append([]byte{}, iv...)
		var s8 [8]byte
		binary.BigEndian.PutUint64(s8[:], seq)
		for i := range s8 {
			nonce[4+i] ^= s8[i]
		}
		pt, err := aead.Open(nil, nonce, r.Payload, []byte{23, 3, 3, byte(len(r.Payload) >> 8), byte(len(r.Payload))})
		if err != nil {
			break
		}
		seq++
		pt = bytes.TrimRight(pt, "\x00")
		if len(pt) == 0 || pt[len(pt)-1] != tlswire.RecordHandshake {
			break
		}
		hstream = append(hstream, pt[:len(pt)-1]...)
	}
	msgs, _ := tlswire.SplitHandshake(hstream)
	sawFinished := false
	for _, m := range msgs {
		if m.Type == tlswire.TypeFinished {
			sawFinished = true
			check("server-finished-verify-data", m.Body, tlskdf.Finished13(h, shts, tlskdf.TranscriptHash(h, transcript)))
			transcript = append(transcript, m.Raw...)
			break
		}
		transcript = append(transcript, m.Raw...)
	}
	if !sawFinished {
		c.Count("e2e13_server_flight_not_readable", 1)
		return
	}
	master := tlskdf.Extract13(h, nil, tlskdf.DeriveSecret(h, hsSecret, "derived", nil), true)
	if _, v := keylogSecret(kl, "CLIENT_TRAFFIC_SECRET_0"); v != nil {
		check("client-application-traffic-secret", v, tlskdf.DeriveSecret(h, master, "c ap traffic", transcript))
	}
	if _, v := keylogSecret(kl, "SERVER_TRAFFIC_SECRET_0"); v != nil {
		check("server-application-traffic-secret", v, tlskdf.DeriveSecret(h, master, "s ap traffic", transcript))
	}
	c.Nontrivial("e2e13", role, rep)
	exp := tlskdf.ExporterMasterSecret(h, master, transcript) // transcript through the server Finished
	for _, q := range ekms {
		c.Count("e2e13_exporter_compared", 1)
		check("exporter-after-application-data", q.out, tlskdf.Exporter13(h, exp, q.label, q.ctx, 48))
	}
}
