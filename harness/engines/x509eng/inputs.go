package x509eng

// Input generation for C01 / C20: seeds ⊕ stacked structure-aware mutations,
// plus format-aware mutators for the non-DER formats.

import (
	"crypto"
	"encoding/base64"
	"encoding/binary"
	"encoding/hex"
	"encoding/json"
	"encoding/pem"
	"fmt"
	"math/big"
	"math/rand/v2"
	"sort"
	"strings"

	"verifharness/internal/der"
)

type inputGen struct {
	r      *rand.Rand
	g      *gen
	co     *corpus
	z      *zObjects
	fams   map[string][][]byte // DER seeds per family
	donors []*der.Node
	allDER [][]byte
	oneCRL []map[string]any // a few real OneCRL entries
	small  [][]byte         // small certificates (for embedding in SST / chains / TLS)
}

var derFamilies = []string{"cert", "csr", "crl", "spki", "pkcs1priv", "pkcs1pub", "pkcs8", "ecpriv", "ocspreq", "ocspresp"}

func newInputGen(r *rand.Rand) *inputGen {
	ig := &inputGen{r: r, g: &gen{r: r}, co: loadCorpus(), z: zSeeds(), fams: map[string][][]byte{}}
	co, z := ig.co, ig.z
	capSize := func(in [][]byte, max int) [][]byte {
		var out [][]byte
		for _, b := range in {
			if len(b) <= max {
				out = append(out, b)
			}
		}
		return out
	}
	ig.fams["cert"] = append(append([][]byte{}, capSize(co.Certs, 6000)...), z.Certs...)
	ig.fams["csr"] = append(append([][]byte{}, co.CSRs...), z.CSRs...)
	ig.fams["crl"] = append(append([][]byte{}, capSize(co.CRLs, 20000)...), z.CRLs...)
	ig.fams["spki"] = append(append([][]byte{}, co.SPKIs...), z.SPKIs...)
	{ // SPKI of every pool key type (RSA, ECDSA P-224..P-521, Ed25519, DSA) and X25519
		seen := map[string]bool{}
		all, _ := signers()
		for _, sg := range all {
			k := sg.kind
			if sg.kind == "ec" {
				k += sg.ec.Curve.Params().Name
			}
			if sg.kind == "rsa" {
				k += itoa(sg.rsa.N.BitLen())
			}
			if sg.kind == "dsa" {
				k += itoa(sg.dsa.P.BitLen())
			}
			if !seen[k] {
				seen[k] = true
				ig.fams["spki"] = append(ig.fams["spki"], sg.spki().Encode())
			}
		}
		ig.fams["spki"] = append(ig.fams["spki"], der.Seq(der.Seq(der.OID(oidX25519...)), der.Bits(ig.g.bytes(32), 0)).Encode())
	}
	ig.fams["pkcs1priv"] = append(append([][]byte{}, co.PKCS1Priv...), z.PKCS1Priv...)
	ig.fams["pkcs1pub"] = append(append([][]byte{}, co.PKCS1Pub...), z.PKCS1Pub...)
	ig.fams["pkcs8"] = append(append([][]byte{}, co.PKCS8...), z.PKCS8...)
	ig.fams["ecpriv"] = append(append([][]byte{}, co.ECPriv...), z.ECPriv...)
	ig.fams["ocspreq"] = append([][]byte{}, z.OCSPReq...)
	ig.fams["ocspresp"] = append([][]byte{}, z.OCSPResp...)
	// unclassified DER from the repository: route by a shape guess, else keep as generic ASN.1
	for _, b := range capSize(co.OtherDER, 20000) {
		n, _, err := der.Parse(b)
		if err != nil {
			continue
		}
		switch {
		case len(n.Children) >= 1 && n.Children[0].IsUniversal(der.TagEnum):
			ig.fams["ocspresp"] = append(ig.fams["ocspresp"], b)
		case len(n.Children) == 3 && n.Children[2].IsUniversal(der.TagBitString) && len(n.Children[0].Children) >= 3 && n.Children[0].Children[0].IsUniversal(der.TagInteger) && n.Children[0].Children[1].IsUniversal(der.TagSequence) && len(n.Children[0].Children) <= 4:
			ig.fams["csr"] = append(ig.fams["csr"], b)
		case len(n.Children) == 3 && n.Children[2].IsUniversal(der.TagBitString):
			ig.fams["crl"] = append(ig.fams["crl"], b)
		case len(n.Children) >= 1 && len(n.Children) <= 2 && n.Children[0].IsUniversal(der.TagSequence) && len(n.Children[0].Children) >= 1 && (n.Children[0].Children[0].IsUniversal(der.TagSequence) || n.Children[0].Children[0].IsContext(0)):
			ig.fams["ocspreq"] = append(ig.fams["ocspreq"], b)
		}
		ig.allDER = append(ig.allDER, b)
	}
	for _, f := range derFamilies {
		ig.allDER = append(ig.allDER, ig.fams[f]...)
	}
	// donors for the splice mutation: a fixed sample
	step := len(ig.allDER)/60 + 1
	for i := 0; i < len(ig.allDER); i += step {
		if n, _, err := der.Parse(ig.allDER[i]); err == nil {
			ig.donors = append(ig.donors, n)
		}
	}
	for _, c := range ig.fams["cert"] {
		if len(c) < 900 {
			ig.small = append(ig.small, c)
		}
	}
	if len(ig.small) == 0 {
		ig.small = ig.fams["cert"][:1]
	}
	// a few real OneCRL entries
	for _, doc := range co.OneCRLs {
		var top struct {
			Data []map[string]any `json:"data"`
		}
		if json.Unmarshal(doc, &top) == nil {
			for i, e := range top.Data {
				if i%97 == 0 || e["subject"] != nil && len(ig.oneCRL) < 40 {
					ig.oneCRL = append(ig.oneCRL, e)
				}
				if len(ig.oneCRL) >= 40 {
					break
				}
			}
		}
	}
	return ig
}

// certFieldIndex returns the index of the serial number inside a TBSCertificate tree (0 or 1).
func certFieldBase(tbs *der.Node) int {
	if len(tbs.Children) > 0 && tbs.Children[0].IsContext(0) {
		return 1
	}
	return 0
}

// fieldAwareCert applies one of the certificate-specific mutators of DESIGN §3.2.
func (ig *inputGen) fieldAwareCert(root *der.Node) string {
	tbs := root.Child(0)
	if tbs == nil || !tbs.HasKids() {
		return ""
	}
	b := certFieldBase(tbs)
	if len(tbs.Children) < b+6 {
		return ""
	}
	r := ig.r
	switch r.IntN(7) {
	case 0: // issuer := subject (forces the self-signature path)
		tbs.Children[b+2] = tbs.Children[b+4].Clone()
		return "issuer:=subject"
	case 1: // subject := issuer
		tbs.Children[b+4] = tbs.Children[b+2].Clone()
		return "subject:=issuer"
	case 2: // SPKI variant
		if v := ig.g.spkiVariant(); v != nil {
			tbs.Children[b+5] = v
			return "spki-variant"
		}
	case 3: // SPKI of another pool key
		_, fast := signers()
		tbs.Children[b+5] = fast[r.IntN(len(fast))].spki()
		return "spki-swap"
	case 4: // key bits length edit
		spki := tbs.Children[b+5]
		if kb := spki.Child(1); kb != nil {
			body := kb.Body()
			l := []int{0, 1, 2, 17, 32, 33, 34, 31, 65, 66}[r.IntN(10)]
			nb := make([]byte, l)
			copy(nb, body)
			if l > 0 {
				nb[0] = 0
			}
			kb.Children, kb.Encap, kb.Prefix, kb.Content, kb.Constructed = nil, false, nil, nb, false
			return fmt.Sprintf("keybits-len(%d)", l)
		}
	case 5: // signature algorithm := something matching (or not) the key, inner and outer
		algs := []*der.Node{
			der.Seq(der.OID(oidEd25519...)), der.Seq(der.OID(oidSHA256RSA...), der.Null()), der.Seq(der.OID(oidECSHA256...)),
			der.Seq(der.OID(oidDSASHA1...)), der.Seq(der.OID(oidRSAPSS...), pssParams(crypto.SHA256)), der.Seq(der.OID(oidMD2RSA...), der.Null()),
			der.Seq(der.OID(oidRSAPSS...)), der.Seq(der.OID(oidSHA1RSA...)),
		}
		a := algs[r.IntN(len(algs))]
		tbs.Children[b+1] = a
		if len(root.Children) >= 2 && r.IntN(4) != 0 {
			root.Children[1] = a.Clone()
		}
		return "sigalg"
	case 6: // replace / append extensions with generated ones
		exts := ig.g.extensions()
		last := tbs.Children[len(tbs.Children)-1]
		if last.IsContext(3) && last.Child(0) != nil && last.Child(0).HasKids() {
			if r.IntN(2) == 0 {
				last.Children[0].Children = append(last.Children[0].Children, exts...)
			} else {
				last.Children[0].Children = exts
			}
		} else {
			tbs.Children = append(tbs.Children, der.Explicit(3, der.Seq(exts...)))
		}
		return "extensions"
	}
	return ""
}

var keyFamilies = map[string]bool{"spki": true, "pkcs1priv": true, "pkcs1pub": true, "pkcs8": true, "ecpriv": true}

// fieldAwareKey applies one of the key-format mutators: edits of the OCTET STRING / BIT STRING / INTEGER leaves
// (padding, growth, shrinking), curve and parameter swaps, optional fields, versions, PKCS#8 nesting. The tree
// reaches into encapsulating strings (the ECPrivateKey / RSAPrivateKey inside PKCS#8, the RSAPublicKey inside an
// SPKI), and re-encoding fixes every enclosing length.
func (ig *inputGen) fieldAwareKey(root *der.Node) string {
	r := ig.r
	type leafSlot struct{ n *der.Node }
	var leaves []*der.Node
	var oids, optionals []slotRef
	var versions []*der.Node
	root.Walk(func(n, p *der.Node, idx, depth int) {
		if n.Literal != nil {
			return
		}
		if !n.HasKids() && n.Class == der.ClassUniversal && !n.Constructed &&
			(n.Tag == der.TagInteger || n.Tag == der.TagOctetString || n.Tag == der.TagBitString) {
			leaves = append(leaves, n)
		}
		if p != nil && n.IsPrimitive(der.TagOID) {
			oids = append(oids, slotRef{p, idx})
		}
		if p != nil && (n.Class == der.ClassContext || n.IsUniversal(der.TagNull) || idx >= 2 && idx == len(p.Children)-1) {
			optionals = append(optionals, slotRef{p, idx})
		}
		if p != nil && idx == 0 && n.IsPrimitive(der.TagInteger) && len(n.Content) == 1 {
			versions = append(versions, n)
		}
	})
	_ = leafSlot{}
	switch op := r.IntN(12); {
	case op < 7 && len(leaves) > 0:
		n := leaves[r.IntN(len(leaves))]
		head := 0
		if n.Tag == der.TagBitString && len(n.Content) > 0 {
			head = 1 // keep the unused-bits octet in front
		}
		body := n.Content[head:]
		pre := append([]byte(nil), n.Content[:head]...)
		switch op {
		case 0, 1: // prepend 1..8 zero octets
			k := 1 + r.IntN(8)
			n.Content = append(append(pre, make([]byte, k)...), body...)
			return "key:prepend-zeros(" + itoa(k) + ")"
		case 2: // prepend 1..8 0xff octets
			k := 1 + r.IntN(8)
			pad := make([]byte, k)
			for i := range pad {
				pad[i] = 0xff
			}
			n.Content = append(append(pre, pad...), body...)
			return "key:prepend-ff(" + itoa(k) + ")"
		case 3: // append 1..8 octets
			k := 1 + r.IntN(8)
			n.Content = append(append(pre, body...), ig.g.bytes(k)...)
			return "key:append(" + itoa(k) + ")"
		case 4: // shrink to 0 / 1 / size-1 octets
			l := []int{0, 1, len(body) - 1}[r.IntN(3)]
			if l < 0 {
				l = 0
			}
			if l > len(body) {
				l = len(body)
			}
			n.Content = append(pre, body[:l]...)
			return "key:shrink(" + itoa(l) + ")"
		case 5: // drop leading octets (a stripped scalar)
			k := 1 + r.IntN(3)
			if k > len(body) {
				k = len(body)
			}
			n.Content = append(pre, body[k:]...)
			return "key:strip-leading(" + itoa(k) + ")"
		default: // zero the leading octets in place (value stays below the group order, length stays)
			k := 1 + r.IntN(4)
			nb := append([]byte(nil), body...)
			for i := 0; i < k && i < len(nb); i++ {
				nb[i] = 0
			}
			n.Content = append(pre, nb...)
			return "key:zero-leading(" + itoa(k) + ")"
		}
	case op == 7 && len(oids) > 0: // curve / algorithm OID swap, named curve -> explicit parameters
		s := oids[r.IntN(len(oids))]
		switch r.IntN(4) {
		case 0:
			s.p.Children[s.i] = der.OID([][]int{oidP224, oidP256, oidP384, oidP521, {1, 3, 132, 0, 10}, {1, 2, 3}}[r.IntN(6)]...)
			return "key:curve-oid"
		case 1:
			s.p.Children[s.i] = der.OID([][]int{oidRSA, oidEC, oidEd25519, oidX25519, oidDSA, oidRSAPSS, {1, 3, 101, 113}}[r.IntN(7)]...)
			return "key:alg-oid"
		case 2: // explicit ECParameters instead of a named curve
			s.p.Children[s.i] = der.Seq(der.Int(1), der.Seq(der.OID(1, 2, 840, 10045, 1, 1), der.BigInt(elliptic256P())), der.Seq(der.Octets(ig.g.bytes(32)), der.Octets(ig.g.bytes(32))),
				der.Octets(ig.g.bytes(65)), der.Int(int64(1+r.IntN(1000))), der.Int(1))
			return "key:explicit-curve-parameters"
		default:
			s.p.Children[s.i] = der.Null()
			return "key:oid->null"
		}
	case op == 8 && len(optionals) > 0: // drop an optional field
		s := optionals[r.IntN(len(optionals))]
		s.p.Children = append(s.p.Children[:s.i:s.i], s.p.Children[s.i+1:]...)
		return "key:drop-optional"
	case op == 9 && len(versions) > 0: // version 0 / 1 / 2 / 3
		n := versions[r.IntN(len(versions))]
		n.Content = []byte{byte(r.IntN(4))}
		return "key:version(" + itoa(int(n.Content[0])) + ")"
	case op == 10: // nest: the whole structure as the private key of a PKCS#8 wrapper (PKCS#8 in PKCS#8, SEC1 / PKCS#1 in PKCS#8)
		alg := der.Seq(der.OID([][]int{oidRSA, oidEC, oidEd25519}[r.IntN(3)]...))
		if r.IntN(2) == 0 {
			alg.Children = append(alg.Children, []*der.Node{der.Null(), der.OID(oidP256...), der.OID(oidP384...)}[r.IntN(3)])
		}
		inner := root.Clone()
		*root = *der.Seq(der.Int(0), alg, der.OctetsWrap(inner))
		return "key:wrap-in-pkcs8"
	case op == 11: // add an optional field: public key [1] / parameters [0] / attributes [0]
		if root.HasKids() {
			root.Children = append(root.Children, []*der.Node{der.Explicit(0, der.OID(oidP256...)), der.Explicit(1, der.Bits(ig.g.bytes(65), 0)),
				der.CtxCons(0, der.Seq(der.OID(1, 2, 3), der.Set(der.Int(1)))), der.Seq(der.Seq(der.BigInt(elliptic256P()), der.Int(3), der.Int(5)))}[r.IntN(4)])
			return "key:add-optional"
		}
	}
	return ""
}

type slotRef struct {
	p *der.Node
	i int
}

func elliptic256P() *big.Int {
	p, _ := new(big.Int).SetString("ffffffff00000001000000000000000000000000ffffffffffffffffffffffff", 16)
	return p
}

// mutateDER applies 1–4 stacked mutations to a DER seed.
func (ig *inputGen) mutateDER(seed []byte, fam string) ([]byte, string) {
	r := ig.r
	cur := seed
	var descs []string
	n := 1 + r.IntN(4)
	m := &der.Mutator{Rng: r, Donors: ig.donors}
	for i := 0; i < n; i++ {
		if r.IntN(4) == 0 {
			cur = der.MutateBytes(r, cur)
			descs = append(descs, "bytes")
			continue
		}
		root, rest, err := der.Parse(cur)
		if err != nil {
			cur = der.MutateBytes(r, cur)
			descs = append(descs, "bytes")
			continue
		}
		d := ""
		if fam == "cert" && r.IntN(5) == 0 {
			d = ig.fieldAwareCert(root)
		}
		if keyFamilies[fam] && r.IntN(2) == 0 {
			d = ig.fieldAwareKey(root)
		}
		for try := 0; d == "" && try < 6; try++ {
			d = m.Mutate(root)
		}
		if d == "" {
			continue
		}
		descs = append(descs, d)
		cur = append(root.Encode(), rest...)
		if len(cur) > 1<<20 {
			cur = cur[:1<<20]
		}
	}
	return cur, strings.Join(descs, "+")
}

// pickSeed returns a seed of the family (for certificates: often a freshly generated one).
func (ig *inputGen) pickSeed(fam string) []byte {
	if fam == "cert" {
		switch k := ig.r.IntN(10); {
		case k < 3:
			b, _, _ := ig.g.cert()
			return b
		case k < 4:
			return ig.g.edSelfSigned()
		}
	}
	s := ig.fams[fam]
	if len(s) == 0 {
		return []byte{0x30, 0}
	}
	return s[ig.r.IntN(len(s))]
}

// subtree returns the encoding of a random sub-element of a random DER seed.
func (ig *inputGen) subtree() []byte {
	seed := ig.allDER[ig.r.IntN(len(ig.allDER))]
	if ig.r.IntN(4) == 0 {
		b, _, _ := ig.g.cert()
		seed = b
	}
	root, _, err := der.Parse(seed)
	if err != nil {
		return seed
	}
	var nodes []*der.Node
	root.Walk(func(n, _ *der.Node, _, _ int) { nodes = append(nodes, n) })
	return nodes[ig.r.IntN(len(nodes))].Encode()
}

// ---- TLS presentation-language helpers ----------------------------------------

func u16(b []byte, v int) []byte  { return binary.BigEndian.AppendUint16(b, uint16(v)) }
func u24(b []byte, v int) []byte  { return append(b, byte(v>>16), byte(v>>8), byte(v)) }
func vec8(b, body []byte) []byte  { return append(append(b, byte(len(body))), body...) }
func vec16(b, body []byte) []byte { return append(u16(b, len(body)), body...) }
func vec24(b, body []byte) []byte { return append(u24(b, len(body)), body...) }

func hsMsg(typ byte, body []byte) []byte { return vec24([]byte{typ}, body) }

// lengthEdit overwrites a big-endian length-like field at a random position with an extreme value.
func (ig *inputGen) lengthEdit(in []byte) []byte {
	b := append([]byte(nil), in...)
	if len(b) == 0 {
		return b
	}
	w := 1 + ig.r.IntN(4)
	if w > len(b) {
		w = len(b)
	}
	pos := ig.r.IntN(len(b) - w + 1)
	if ig.r.IntN(3) == 0 && pos > 8 {
		pos = ig.r.IntN(8)
	}
	var v uint32
	switch ig.r.IntN(6) {
	case 0:
		v = 0
	case 1:
		v = 0xffffffff
	case 2:
		v = 1
	case 3:
		v = uint32(len(b))
	case 4:
		v = uint32(len(b) - pos - w + 1)
	default:
		v = 0x80000000
	}
	for i := 0; i < w; i++ {
		b[pos+w-1-i] = byte(v >> (8 * uint(i)))
	}
	return b
}

func (ig *inputGen) mutateBin(seed []byte) ([]byte, string) {
	cur := seed
	n := 1 + ig.r.IntN(3)
	var d []string
	for i := 0; i < n; i++ {
		if ig.r.IntN(3) == 0 {
			cur = ig.lengthEdit(cur)
			d = append(d, "len")
		} else {
			cur = der.MutateBytes(ig.r, cur)
			d = append(d, "bytes")
		}
	}
	return cur, strings.Join(d, "+")
}

// tlsSeeds returns recorded messages plus hand-built TLS 1.3 messages and session states.
func (ig *inputGen) tlsSeed() []byte {
	r := ig.r
	if len(ig.co.TLSMsgs) > 0 && r.IntN(10) < 6 {
		return ig.co.TLSMsgs[r.IntN(len(ig.co.TLSMsgs))].Data
	}
	cert := ig.small[r.IntN(len(ig.small))]
	ext := func(id int, body []byte) []byte { return vec16(u16(nil, id), body) }
	certEntry13 := func() []byte {
		var exts []byte
		if r.IntN(2) == 0 {
			exts = append(exts, ext(5, append([]byte{1}, vec24(nil, ig.g.bytes(20))...))...)
		}
		if r.IntN(2) == 0 {
			exts = append(exts, ext(18, vec16(nil, vec16(nil, ig.g.sct())))...)
		}
		return vec16(vec24(nil, cert), exts)
	}
	switch r.IntN(12) {
	case 0: // encryptedExtensions
		var exts []byte
		exts = append(exts, ext(16, vec16(nil, vec8(nil, []byte("h2"))))...)
		if r.IntN(2) == 0 {
			exts = append(exts, ext(0, nil)...)
		}
		return hsMsg(8, vec16(nil, exts))
	case 1: // certificate TLS 1.3
		list := certEntry13()
		if r.IntN(2) == 0 {
			list = append(list, vec16(vec24(nil, cert), nil)...)
		}
		return hsMsg(11, append(vec8(nil, nil), vec24(nil, list)...))
	case 2: // certificateRequest TLS 1.3
		var exts []byte
		exts = append(exts, ext(13, vec16(nil, []byte{4, 3, 8, 4, 4, 1}))...)
		if r.IntN(2) == 0 {
			exts = append(exts, ext(50, vec16(nil, []byte{4, 3}))...)
			exts = append(exts, ext(47, vec16(nil, vec16(nil, ig.g.name().Encode())))...)
			exts = append(exts, ext(5, nil)...)
			exts = append(exts, ext(18, nil)...)
		}
		return hsMsg(13, append(vec8(nil, nil), vec16(nil, exts)...))
	case 3: // newSessionTicket TLS 1.3
		body := binary.BigEndian.AppendUint32(nil, 3600)
		body = binary.BigEndian.AppendUint32(body, r.Uint32())
		body = vec8(body, ig.g.bytes(r.IntN(4)))
		body = vec16(body, ig.g.bytes(1+r.IntN(40)))
		var exts []byte
		if r.IntN(2) == 0 {
			exts = ext(42, binary.BigEndian.AppendUint32(nil, 0xffffffff))
		}
		return hsMsg(4, vec16(body, exts))
	case 4:
		return hsMsg(24, []byte{byte(r.IntN(2))})
	case 5:
		return hsMsg(5, nil)
	case 6: // sessionState (TLS <= 1.2)
		b := u16(nil, 0x0303)
		b = u16(b, 0xc02f)
		b = binary.BigEndian.AppendUint64(b, 1600000000)
		b = vec16(b, ig.g.bytes(48))
		return vec24(b, vec24(nil, cert))
	case 7: // sessionStateTLS13
		b := u16(nil, 0x0304)
		b = append(b, 0)
		b = u16(b, 0x1301)
		b = binary.BigEndian.AppendUint64(b, 1600000000)
		b = vec8(b, ig.g.bytes(32))
		return append(b, vec24(nil, certEntry13())...)
	case 8: // certificateStatus
		return hsMsg(22, append([]byte{1}, vec24(nil, ig.g.bytes(30))...))
	case 9: // certificateVerify with signature algorithm
		return hsMsg(15, vec16([]byte{8, 4}, ig.g.bytes(64)))
	case 10: // certificateRequest TLS 1.2
		b := vec8(nil, []byte{1, 64})
		b = vec16(b, []byte{4, 1, 4, 3})
		return hsMsg(13, vec16(b, vec16(nil, ig.g.name().Encode())))
	}
	// helloRequest / finished / serverHelloDone
	return [][]byte{hsMsg(0, nil), hsMsg(20, ig.g.bytes(12)), hsMsg(14, nil), hsMsg(16, vec16(nil, ig.g.bytes(32)))}[r.IntN(4)]
}

func (ig *inputGen) tlsInput() ([]byte, string) {
	seed := ig.tlsSeed()
	if ig.r.IntN(12) == 0 {
		return seed, "seed"
	}
	out, d := ig.mutateBin(seed)
	if len(out) >= 4 && ig.r.IntN(10) < 7 && !(len(seed) > 2 && seed[0] == 3 && seed[1] <= 4) { // keep the outer handshake length consistent most of the time
		l := len(out) - 4
		out[1], out[2], out[3] = byte(l>>16), byte(l>>8), byte(l)
		d += "+fixlen"
	}
	return out, d
}

// ---- CT binary structures -----------------------------------------------------

func (ig *inputGen) ctSeed(fam string) []byte {
	r := ig.r
	cert := ig.small[r.IntN(len(ig.small))]
	switch fam {
	case "sct":
		return ig.g.sct()
	case "leaf":
		b := []byte{0, 0}
		b = binary.BigEndian.AppendUint64(b, uint64(r.Int64N(1<<42)))
		if r.IntN(2) == 0 {
			b = u16(b, 0)
			b = vec24(b, cert)
		} else {
			b = u16(b, 1)
			b = append(b, ig.g.bytes(32)...)
			b = vec24(b, tbsOf(cert))
		}
		return vec16(b, ig.g.bytes([]int{0, 0, 5}[r.IntN(3)]))
	case "chain":
		var list []byte
		for i, k := 0, r.IntN(4); i < k; i++ {
			list = vec24(list, ig.small[r.IntN(len(ig.small))])
		}
		if r.IntN(2) == 0 {
			return vec24(nil, list)
		}
		return append(vec24(nil, cert), vec24(nil, list)...)
	}
	// digsig
	return vec16([]byte{byte([]int{4, 2, 5, 0, 9}[r.IntN(5)]), byte([]int{3, 1, 2, 0, 7}[r.IntN(5)])}, ig.g.bytes(r.IntN(80)))
}

// ---- CRLSet ---------------------------------------------------------------------

func (ig *inputGen) crlSetInput() ([]byte, string) {
	r := ig.r
	if len(ig.co.CRLSets) > 0 && r.IntN(40) == 0 {
		s := ig.co.CRLSets[r.IntN(len(ig.co.CRLSets))]
		if r.IntN(2) == 0 {
			return s, "real"
		}
		return s[:r.IntN(len(s))], "real-truncated"
	}
	hdr := map[string]any{"Version": 0, "ContentType": "CRLSet", "Sequence": 4619, "DeltaFrom": 0, "NumParents": 2,
		"BlockedSPKIs": []any{base64.StdEncoding.EncodeToString(ig.g.bytes(32))}, "KnownInterceptionSPKIs": []any{}, "BlockedInterceptionSPKIs": []any{}, "NotAfter": 1700000000}
	desc := []string{}
	if r.IntN(3) == 0 {
		keys := make([]string, 0, len(hdr))
		for k := range hdr {
			keys = append(keys, k)
		}
		sort.Strings(keys)
		k := keys[r.IntN(len(keys))]
		switch r.IntN(6) {
		case 0:
			delete(hdr, k)
		case 1:
			hdr[k] = nil
		case 2:
			hdr[k] = "string"
		case 3:
			hdr[k] = -1
		case 4:
			hdr[k] = []any{nil, 1, "x", map[string]any{}}
		default:
			hdr[k] = 1e300
		}
		desc = append(desc, "hdr-field:"+k)
	}
	hj, _ := json.Marshal(hdr)
	if r.IntN(10) == 0 {
		hj = der.MutateBytes(r, hj)
		desc = append(desc, "hdr-bytes")
	}
	hl := len(hj)
	if r.IntN(6) == 0 {
		hl = []int{0, 1, len(hj) - 1, len(hj) + 1, 0xffff, len(hj) + 40}[r.IntN(6)]
		if hl < 0 {
			hl = 0
		}
		desc = append(desc, "hdr-len")
	}
	out := binary.LittleEndian.AppendUint16(nil, uint16(hl))
	out = append(out, hj...)
	var cuts []int
	for i, n := 0, r.IntN(4); i < n; i++ {
		cuts = append(cuts, len(out))
		out = append(out, ig.g.bytes(32)...)
		cuts = append(cuts, len(out))
		ns := r.IntN(4)
		nsField := uint32(ns)
		if r.IntN(6) == 0 {
			nsField = []uint32{0, 1, 0xffffffff, uint32(ns + 1), 0x7fffffff, 1 << 24}[r.IntN(6)]
			desc = append(desc, "numserials")
		}
		out = binary.LittleEndian.AppendUint32(out, nsField)
		for j := 0; j < ns; j++ {
			cuts = append(cuts, len(out))
			sl := 1 + r.IntN(20)
			slField := byte(sl)
			if r.IntN(8) == 0 {
				slField = []byte{0, 255, byte(sl + 1), byte(sl - 1)}[r.IntN(4)]
				desc = append(desc, "seriallen")
			}
			out = append(out, slField)
			cuts = append(cuts, len(out))
			out = append(out, ig.g.bytes(sl)...)
		}
	}
	if r.IntN(4) == 0 && len(cuts) > 0 {
		out = out[:cuts[r.IntN(len(cuts))]]
		desc = append(desc, "truncate-at-field")
	}
	if r.IntN(8) == 0 {
		out = der.MutateBytes(r, out)
		desc = append(desc, "bytes")
	}
	return out, "crlset:" + strings.Join(desc, "+")
}

// ---- OneCRL ---------------------------------------------------------------------

func (ig *inputGen) oneCRLInput() ([]byte, string) {
	r := ig.r
	if len(ig.co.OneCRLs) > 0 && r.IntN(200) == 0 {
		return ig.co.OneCRLs[r.IntN(len(ig.co.OneCRLs))], "real"
	}
	var entries []any
	desc := []string{}
	mkEntry := func() map[string]any {
		if len(ig.oneCRL) > 0 && r.IntN(3) != 0 {
			src := ig.oneCRL[r.IntN(len(ig.oneCRL))]
			e := map[string]any{}
			for k, v := range src {
				e[k] = v
			}
			return e
		}
		e := map[string]any{"schema": 1527680137883, "enabled": true, "id": "c056f51e", "last_modified": 1527680138898,
			"details": map[string]any{"bug": "b", "who": "", "why": "", "name": "", "created": "2018-05-30T12:35:03Z"}}
		if r.IntN(2) == 0 {
			e["issuerName"] = base64.StdEncoding.EncodeToString(ig.g.name().Encode())
			e["serialNumber"] = base64.StdEncoding.EncodeToString(ig.g.bytes(1 + r.IntN(16)))
		} else {
			e["subject"] = base64.StdEncoding.EncodeToString(ig.g.name().Encode())
			e["pubKeyHash"] = base64.StdEncoding.EncodeToString(ig.g.bytes(32))
		}
		return e
	}
	for i, n := 0, r.IntN(4); i < n; i++ {
		e := mkEntry()
		if r.IntN(2) == 0 {
			keys := []string{"issuerName", "serialNumber", "subject", "pubKeyHash", "schema", "last_modified", "details", "enabled", "id"}
			k := keys[r.IntN(len(keys))]
			switch r.IntN(9) {
			case 0:
				delete(e, k)
			case 1:
				e[k] = nil
			case 2:
				e[k] = 12345
			case 3:
				e[k] = "!!!not base64!!!"
			case 4:
				e[k] = ""
			case 5:
				e[k] = []any{}
			case 6:
				e[k] = map[string]any{"created": 7, "who": nil}
			case 7: // valid base64 of broken DER
				m, _ := ig.mutateDER(ig.g.name().Encode(), "name")
				e[k] = base64.StdEncoding.EncodeToString(m)
			default:
				e[k] = true
			}
			desc = append(desc, "field:"+k)
		}
		entries = append(entries, e)
	}
	if r.IntN(5) == 0 {
		entries = append(entries, []any{nil, 1, "x", []any{}, true}[r.IntN(5)])
		desc = append(desc, "non-object-entry")
	}
	var doc any = map[string]any{"data": entries}
	switch r.IntN(25) {
	case 0:
		doc = map[string]any{"data": nil}
	case 1:
		doc = map[string]any{"data": "x"}
	case 2:
		doc = entries
	case 3:
		doc = map[string]any{}
	}
	out, _ := json.Marshal(doc)
	if r.IntN(10) == 0 {
		out = der.MutateBytes(r, out)
		desc = append(desc, "bytes")
	}
	return out, "onecrl:" + strings.Join(desc, "+")
}

// ---- Microsoft SST ----------------------------------------------------------------

func (ig *inputGen) sstInput() ([]byte, string) {
	r := ig.r
	if len(ig.co.SSTs) > 0 && r.IntN(150) == 0 {
		s := ig.co.SSTs[0]
		if r.IntN(2) == 0 {
			return s, "real"
		}
		return s[:r.IntN(len(s))], "real-truncated"
	}
	desc := []string{}
	le32 := func(b []byte, v uint32) []byte { return binary.LittleEndian.AppendUint32(b, v) }
	out := le32(nil, 0)
	out = append(out, "CERT"...)
	if r.IntN(15) == 0 {
		out = le32(nil, uint32(r.IntN(3)))
		out = append(out, []string{"CERT", "cert", "CER", "XXXX"}[r.IntN(4)]...)
		desc = append(desc, "magic")
	}
	oddLen := func(real int) uint32 {
		return []uint32{0, 1, uint32(real + 1), uint32(real - 1), 0xffffffff, 0x7fffffff, 0x80000000, 1 << 20, 1 << 28, 1 << 30, 3 << 30}[r.IntN(11)]
	}
	var cuts []int
	for i, n := 0, r.IntN(4); i < n; i++ {
		for j, m := 0, r.IntN(3); j < m; j++ { // property entries
			cuts = append(cuts, len(out))
			val := ig.g.bytes(r.IntN(24))
			out = le32(out, []uint32{3, 4, 20, 0xffff, 0x10000, 32}[r.IntN(5)])
			out = le32(out, 1)
			l := uint32(len(val))
			if r.IntN(8) == 0 {
				l = oddLen(len(val))
				desc = append(desc, "prop-len")
			}
			out = le32(out, l)
			out = append(out, val...)
		}
		cuts = append(cuts, len(out))
		cert := ig.small[r.IntN(len(ig.small))]
		switch r.IntN(6) {
		case 0:
			cert, _ = ig.mutateDER(cert, "cert")
			desc = append(desc, "cert-mutated")
		case 1:
			cert = ig.g.bytes(r.IntN(30))
			desc = append(desc, "cert-garbage")
		}
		out = le32(out, 32)
		enc := uint32(1)
		if r.IntN(12) == 0 {
			enc = uint32(r.IntN(4))
			desc = append(desc, "encoding")
		}
		out = le32(out, enc)
		l := uint32(len(cert))
		if r.IntN(6) == 0 {
			l = oddLen(len(cert))
			desc = append(desc, "cert-len")
		}
		out = le32(out, l)
		out = append(out, cert...)
	}
	if r.IntN(5) != 0 {
		out = le32(out, 0)
		out = append(out, make([]byte, 8)...)
	}
	if r.IntN(5) == 0 && len(cuts) > 0 {
		cut := cuts[r.IntN(len(cuts))] + r.IntN(12)
		if cut > len(out) {
			cut = len(out)
		}
		out = out[:cut]
		desc = append(desc, "truncate")
	}
	if r.IntN(10) == 0 {
		out = der.MutateBytes(r, out)
		desc = append(desc, "bytes")
	}
	return out, "sst:" + strings.Join(desc, "+")
}

// ---- PEM ----------------------------------------------------------------------------

func (ig *inputGen) pemInput() ([]byte, string) {
	r := ig.r
	var blocks []*pem.Block
	desc := []string{}
	enc := append([]*pem.Block{}, ig.z.EncPEM...)
	enc = append(enc, ig.co.EncPEM...)
	for i, n := 0, 1+r.IntN(3); i < n; i++ {
		switch r.IntN(4) {
		case 0:
			if len(enc) > 0 {
				src := enc[r.IntN(len(enc))]
				b := &pem.Block{Type: src.Type, Headers: map[string]string{}, Bytes: append([]byte(nil), src.Bytes...)}
				for k, v := range src.Headers {
					b.Headers[k] = v
				}
				switch r.IntN(8) {
				case 0:
					b.Headers["DEK-Info"] = []string{"AES-128-CBC", "AES-128-CBC,", "AES-128-CBC,zz", "DES-CBC,00", "UNKNOWN,0011223344556677",
						"AES-256-CBC,0011", ",", "DES-EDE3-CBC,00112233445566778899", "AES-128-CBC,00112233445566778899aabbccddeeff,extra"}[r.IntN(9)]
					desc = append(desc, "dek-info")
				case 1:
					b.Bytes = b.Bytes[:r.IntN(len(b.Bytes)+1)]
					desc = append(desc, "ct-truncate")
				case 2:
					b.Bytes = nil
					desc = append(desc, "ct-empty")
				case 3:
					b.Bytes = der.MutateBytes(r, b.Bytes)
					desc = append(desc, "ct-bytes")
				case 4:
					delete(b.Headers, "Proc-Type")
				case 5:
					n := len(b.Bytes)/16*16 - r.IntN(2)*16
					if n < 0 {
						n = 0
					}
					b.Bytes = b.Bytes[:n]
					desc = append(desc, "ct-blocks")
				}
				blocks = append(blocks, b)
				continue
			}
			fallthrough
		case 1:
			c := ig.pickSeed("cert")
			if r.IntN(3) == 0 {
				c, _ = ig.mutateDER(c, "cert")
			}
			typ := "CERTIFICATE"
			if r.IntN(8) == 0 {
				typ = []string{"X509 CRL", "TRUSTED CERTIFICATE", "", "CERTIFICATE REQUEST"}[r.IntN(4)]
			}
			b := &pem.Block{Type: typ, Bytes: c}
			if r.IntN(10) == 0 {
				b.Headers = map[string]string{"X-Header": "v"}
			}
			blocks = append(blocks, b)
		case 2:
			blocks = append(blocks, &pem.Block{Type: "X509 CRL", Bytes: ig.pickSeed("crl")})
		default:
			blocks = append(blocks, &pem.Block{Type: "CERTIFICATE", Bytes: ig.small[r.IntN(len(ig.small))]})
		}
	}
	var out []byte
	for _, b := range blocks {
		out = append(out, pem.EncodeToMemory(b)...)
		if r.IntN(6) == 0 {
			out = append(out, "garbage between blocks\n"...)
		}
	}
	if r.IntN(4) == 0 {
		out = der.MutateBytes(r, out)
		desc = append(desc, "text-bytes")
	}
	if r.IntN(30) == 0 && len(ig.co.PEMTexts) > 0 {
		return ig.co.PEMTexts[r.IntN(len(ig.co.PEMTexts))], "real-file"
	}
	return out, "pem:" + strings.Join(desc, "+")
}

func hexOf(b []byte) string { return hex.EncodeToString(b) }
