package x509eng

import (
	"testing"
	"verifharness/internal/core"
)

func TestProfC01(t *testing.T) {
	c01QuickN = 16 * 1500
	c, _ := core.NewCtx("C01", "quick", 1, 3, 16, "/tmp/c01prof.jsonl")
	runC01(c)
	c.Finish()
}
