package x509eng

// Entry points of C01: every public decoder of attacker-controlled bytes,
// grouped by input family. Each returns whether the decoder accepted the input.

import (
	"bytes"
	"encoding/pem"
	"math/big"
	"time"

	zcb "github.com/zmap/zcrypto/cryptobyte"
	zcbasn1 "github.com/zmap/zcrypto/cryptobyte/asn1"
	zct "github.com/zmap/zcrypto/ct"
	ctasn1 "github.com/zmap/zcrypto/ct/asn1"
	ctx509 "github.com/zmap/zcrypto/ct/x509"
	ctpkix "github.com/zmap/zcrypto/ct/x509/pkix"
	zasn1 "github.com/zmap/zcrypto/encoding/asn1"
	ztls "github.com/zmap/zcrypto/tls"
	"github.com/zmap/zcrypto/verifier"
	zx509 "github.com/zmap/zcrypto/x509"
	xct "github.com/zmap/zcrypto/x509/ct"
	"github.com/zmap/zcrypto/x509/pkix"
	"github.com/zmap/zcrypto/x509/revocation/google"
	"github.com/zmap/zcrypto/x509/revocation/microsoft"
	"github.com/zmap/zcrypto/x509/revocation/mozilla"
	"github.com/zmap/zcrypto/x509/revocation/ocsp"

	"verifharness/internal/der"
)

type entry struct {
	name string
	run  func(in []byte) bool
}

// ---- asn1 target menus -----------------------------------------------------

type zS1 struct {
	A int
	B string `asn1:"utf8"`
	C []byte `asn1:"optional"`
}
type zS2 struct {
	V int `asn1:"optional,explicit,default:0,tag:0"`
	O zasn1.ObjectIdentifier
	T time.Time
	G time.Time `asn1:"generalized,optional"`
}
type zS3 struct {
	Raw zasn1.RawContent
	A   zasn1.BitString
	E   zasn1.Enumerated
	F   zasn1.Flag     `asn1:"optional,tag:1"`
	S   []zS1          `asn1:"set"`
	X   zasn1.RawValue `asn1:"optional"`
}
type zS4 struct {
	I *big.Int
	J int64
	K int32 `asn1:"application,tag:3"`
	L bool
	P string `asn1:"printable"`
	Q string `asn1:"ia5"`
	N string `asn1:"numeric,optional"`
}
type zS5 struct {
	Inner zS2 `asn1:"explicit,tag:2"`
	List  [][]byte
	Any   []zasn1.RawValue `asn1:"optional,omitempty"`
}

var zasn1Targets = []struct {
	name   string
	mk     func() any
	params string
}{
	{"RawValue", func() any { return new(zasn1.RawValue) }, ""},
	{"int", func() any { return new(int) }, ""},
	{"int64", func() any { return new(int64) }, ""},
	{"bigInt", func() any { return new(*big.Int) }, ""},
	{"bool", func() any { return new(bool) }, ""},
	{"bytes", func() any { return new([]byte) }, ""},
	{"string", func() any { return new(string) }, ""},
	{"string-ia5", func() any { return new(string) }, "ia5"},
	{"string-utf8", func() any { return new(string) }, "utf8"},
	{"OID", func() any { return new(zasn1.ObjectIdentifier) }, ""},
	{"BitString", func() any { return new(zasn1.BitString) }, ""},
	{"Enumerated", func() any { return new(zasn1.Enumerated) }, ""},
	{"Time", func() any { return new(time.Time) }, ""},
	{"Time-generalized", func() any { return new(time.Time) }, "generalized"},
	{"[]RawValue", func() any { return new([]zasn1.RawValue) }, ""},
	{"[]RawValue-set", func() any { return new([]zasn1.RawValue) }, "set"},
	{"[]int", func() any { return new([]int) }, ""},
	{"[]string", func() any { return new([]string) }, ""},
	{"[]OID", func() any { return new([]zasn1.ObjectIdentifier) }, ""},
	{"int-tag0-explicit", func() any { return new(int) }, "explicit,tag:0"},
	{"bytes-tag1", func() any { return new([]byte) }, "tag:1"},
	{"pkix.RDNSequence", func() any { return new(pkix.RDNSequence) }, ""},
	{"pkix.AlgorithmIdentifier", func() any { return new(pkix.AlgorithmIdentifier) }, ""},
	{"pkix.Extension", func() any { return new(pkix.Extension) }, ""},
	{"[]pkix.Extension", func() any { return new([]pkix.Extension) }, ""},
	{"pkix.CertificateList", func() any { return new(pkix.CertificateList) }, ""},
	{"pkix.TBSCertificateList", func() any { return new(pkix.TBSCertificateList) }, ""},
	{"pkix.RevokedCertificate", func() any { return new(pkix.RevokedCertificate) }, ""},
	{"pkix.AttributeTypeAndValue", func() any { return new(pkix.AttributeTypeAndValue) }, ""},
	{"pkix.OtherName", func() any { return new(pkix.OtherName) }, ""},
	{"pkix.OtherName-tag0", func() any { return new(pkix.OtherName) }, "tag:0"},
	{"pkix.EDIPartyName-tag5", func() any { return new(pkix.EDIPartyName) }, "tag:5"},
	{"x509.CABFOrganizationIDASN", func() any { return new(zx509.CABFOrganizationIDASN) }, ""},
	{"x509.QCStatementsASN.list", func() any { return new([]zx509.QCStatementASN) }, ""},
	{"x509.QCStatementASN", func() any { return new(zx509.QCStatementASN) }, ""},
	{"[]x509.NoticeNumber", func() any { return new(zx509.NoticeNumber) }, ""},
	{"zS1", func() any { return new(zS1) }, ""},
	{"zS2", func() any { return new(zS2) }, ""},
	{"zS3", func() any { return new(zS3) }, ""},
	{"zS4", func() any { return new(zS4) }, ""},
	{"zS5", func() any { return new(zS5) }, ""},
	{"[]zS1-set", func() any { return new([]zS1) }, "set"},
}

type cS1 struct {
	A int
	B string `asn1:"utf8"`
	C []byte `asn1:"optional"`
}
type cS2 struct {
	V int `asn1:"optional,explicit,default:0,tag:0"`
	O ctasn1.ObjectIdentifier
	T time.Time
	R ctasn1.RawValue `asn1:"optional"`
}
type cS3 struct {
	Raw ctasn1.RawContent
	A   ctasn1.BitString
	E   ctasn1.Enumerated
	F   ctasn1.Flag `asn1:"optional,tag:1"`
	S   []cS1       `asn1:"set"`
	I   *big.Int
}

var ctasn1Targets = []struct {
	name   string
	mk     func() any
	params string
}{
	{"RawValue", func() any { return new(ctasn1.RawValue) }, ""},
	{"int", func() any { return new(int) }, ""},
	{"bigInt", func() any { return new(*big.Int) }, ""},
	{"bool", func() any { return new(bool) }, ""},
	{"bytes", func() any { return new([]byte) }, ""},
	{"string", func() any { return new(string) }, ""},
	{"OID", func() any { return new(ctasn1.ObjectIdentifier) }, ""},
	{"BitString", func() any { return new(ctasn1.BitString) }, ""},
	{"Time", func() any { return new(time.Time) }, ""},
	{"[]RawValue", func() any { return new([]ctasn1.RawValue) }, ""},
	{"[]int", func() any { return new([]int) }, ""},
	{"int-tag0-explicit", func() any { return new(int) }, "explicit,tag:0"},
	{"pkix.RDNSequence", func() any { return new(ctpkix.RDNSequence) }, ""},
	{"pkix.AlgorithmIdentifier", func() any { return new(ctpkix.AlgorithmIdentifier) }, ""},
	{"pkix.Extension", func() any { return new(ctpkix.Extension) }, ""},
	{"pkix.CertificateList", func() any { return new(ctpkix.CertificateList) }, ""},
	{"pkix.RevokedCertificate", func() any { return new(ctpkix.RevokedCertificate) }, ""},
	{"cS1", func() any { return new(cS1) }, ""},
	{"cS2", func() any { return new(cS2) }, ""},
	{"cS3", func() any { return new(cS3) }, ""},
}

// ---- cryptobyte read programs ----------------------------------------------

const cbOps = 40

// runCryptobyteProgram interprets prog (a list of small ints) as reads on a
// stack of cryptobyte.Strings rooted at in. Returns whether every read succeeded.
func runCryptobyteProgram(in []byte, prog []int) bool {
	stack := []zcb.String{zcb.String(in)}
	okAll := true
	tagOf := func(x int) zcbasn1.Tag {
		tags := []zcbasn1.Tag{zcbasn1.SEQUENCE, zcbasn1.SET, zcbasn1.INTEGER, zcbasn1.OCTET_STRING, zcbasn1.BIT_STRING, zcbasn1.OBJECT_IDENTIFIER,
			zcbasn1.BOOLEAN, zcbasn1.NULL, zcbasn1.UTF8String, zcbasn1.Tag(0).ContextSpecific().Constructed(), zcbasn1.Tag(1).ContextSpecific(),
			zcbasn1.Tag(3).ContextSpecific().Constructed(), zcbasn1.GeneralizedTime, zcbasn1.UTCTime, zcbasn1.ENUM, zcbasn1.Tag(0x1f)}
		return tags[x%len(tags)]
	}
	for pi := 0; pi+1 < len(prog); pi += 2 {
		op, arg := prog[pi]%cbOps, prog[pi+1]
		s := &stack[len(stack)-1]
		var child zcb.String
		pushed := false
		var ok bool
		switch op {
		case 0:
			var v uint8
			ok = s.ReadUint8(&v)
		case 1:
			var v uint16
			ok = s.ReadUint16(&v)
		case 2:
			var v uint32
			ok = s.ReadUint24(&v)
		case 3:
			var v uint32
			ok = s.ReadUint32(&v)
		case 4:
			ok = s.ReadUint8LengthPrefixed(&child)
			pushed = ok
		case 5:
			ok = s.ReadUint16LengthPrefixed(&child)
			pushed = ok
		case 6:
			ok = s.ReadUint24LengthPrefixed(&child)
			pushed = ok
		case 7:
			var b []byte
			n := []int{0, 1, 2, 32, 1 << 20, -1, 1<<31 - 1, arg % 70}[arg%8]
			ok = s.ReadBytes(&b, n)
		case 8:
			b := make([]byte, arg%40)
			ok = s.CopyBytes(b)
		case 9:
			n := []int{0, 1, 5, -1, -1 << 62, 1<<62 - 1, arg % 50, 1 << 31}[arg%8]
			ok = s.Skip(n)
		case 10:
			var v bool
			ok = s.ReadASN1Boolean(&v)
		case 11:
			var v int64
			ok = s.ReadASN1Integer(&v)
		case 12:
			var v uint64
			ok = s.ReadASN1Integer(&v)
		case 13:
			v := new(big.Int)
			ok = s.ReadASN1Integer(v)
		case 14:
			var v int16
			ok = s.ReadASN1Integer(&v)
		case 15:
			var v int
			ok = s.ReadASN1Integer(&v)
		case 16:
			var v int64
			ok = s.ReadASN1Int64WithTag(&v, tagOf(arg))
		case 17:
			var v int
			ok = s.ReadASN1Enum(&v)
		case 18:
			var v zasn1.ObjectIdentifier
			ok = s.ReadASN1ObjectIdentifier(&v)
		case 19:
			var v time.Time
			ok = s.ReadASN1GeneralizedTime(&v)
		case 20:
			var v time.Time
			ok = s.ReadASN1UTCTime(&v)
		case 21:
			var v zasn1.BitString
			ok = s.ReadASN1BitString(&v)
		case 22:
			var v []byte
			ok = s.ReadASN1BitStringAsBytes(&v)
		case 23:
			var v []byte
			ok = s.ReadASN1Bytes(&v, tagOf(arg))
		case 24:
			ok = s.ReadASN1(&child, tagOf(arg))
			pushed = ok
		case 25:
			ok = s.ReadASN1Element(&child, tagOf(arg))
			pushed = ok
		case 26:
			var t zcbasn1.Tag
			ok = s.ReadAnyASN1(&child, &t)
			pushed = ok
		case 27:
			var t zcbasn1.Tag
			ok = s.ReadAnyASN1Element(&child, &t)
			pushed = ok
		case 28:
			ok = s.SkipASN1(tagOf(arg))
		case 29:
			var present bool
			ok = s.ReadOptionalASN1(&child, &present, tagOf(arg))
			pushed = ok && present
		case 30:
			ok = s.SkipOptionalASN1(tagOf(arg))
		case 31:
			var v int64
			ok = s.ReadOptionalASN1Integer(&v, tagOf(arg), int64(7))
		case 32:
			v := new(big.Int)
			ok = s.ReadOptionalASN1Integer(v, tagOf(arg), big.NewInt(5))
		case 33:
			var v []byte
			var present bool
			ok = s.ReadOptionalASN1OctetString(&v, &present, tagOf(arg))
		case 34:
			var v bool
			ok = s.ReadOptionalASN1Boolean(&v, arg%2 == 0)
		case 35:
			ok = s.PeekASN1Tag(tagOf(arg))
		case 36:
			ok = s.Empty()
		case 37: // pop
			if len(stack) > 1 {
				stack = stack[:len(stack)-1]
			}
			ok = true
		case 38:
			var v uint
			ok = s.ReadASN1Integer(&v)
		case 39:
			var v int8
			ok = s.ReadASN1Integer(&v)
		}
		if !ok {
			okAll = false
		}
		if pushed && len(stack) < 16 {
			stack = append(stack, child)
		}
	}
	return okAll
}

// ---- helpers -----------------------------------------------------------------

func pemWrap(typ string, derBytes []byte) []byte {
	return pem.EncodeToMemory(&pem.Block{Type: typ, Bytes: derBytes})
}

// acceptedCertFollowUps uses a parsed certificate's key the way a caller would:
// "includes any signature checks a parser performs internally" plus the direct self checks.
func acceptedCertFollowUps(c *zx509.Certificate) {
	c.CheckSignatureFrom(c)
	c.CheckSignature(c.SignatureAlgorithm, c.RawTBSCertificate, c.Signature)
}

func tbsOf(in []byte) []byte {
	n, _, err := der.Parse(in)
	if err != nil || len(n.Children) == 0 {
		return in
	}
	k := n.Children[0]
	if k.End <= len(in) && k.Start < k.End {
		return in[k.Start:k.End]
	}
	return in
}

// entriesFor returns the decoders exercised for an input family.
func entriesFor(fam string, z *zObjects) []entry {
	switch fam {
	case "cert":
		return []entry{
			{"x509.ParseCertificate", func(in []byte) bool {
				c, err := zx509.ParseCertificate(in)
				if err == nil && c != nil {
					acceptedCertFollowUps(c)
				}
				return err == nil
			}},
			{"x509.ParseCertificates", func(in []byte) bool {
				cs, err := zx509.ParseCertificates(in)
				for _, c := range cs {
					if c != nil {
						acceptedCertFollowUps(c)
					}
				}
				return err == nil
			}},
			{"x509.ParseTBSCertificate", func(in []byte) bool {
				c, err := zx509.ParseTBSCertificate(tbsOf(in))
				if err == nil && c != nil {
					acceptedCertFollowUps(c)
				}
				return err == nil
			}},
			{"ctx509.ParseCertificate", func(in []byte) bool {
				c, err := ctx509.ParseCertificate(in)
				if err == nil && c != nil {
					c.CheckSignatureFrom(c)
					c.CheckSignature(c.SignatureAlgorithm, c.RawTBSCertificate, c.Signature)
				}
				return err == nil
			}},
			{"ctx509.ParseCertificates", func(in []byte) bool { _, err := ctx509.ParseCertificates(in); return err == nil }},
			{"ctx509.ParseTBSCertificate", func(in []byte) bool { _, err := ctx509.ParseTBSCertificate(tbsOf(in)); return err == nil }},
			{"x509.CertPool.AppendCertsFromPEM", func(in []byte) bool { return zx509.NewCertPool().AppendCertsFromPEM(pemWrap("CERTIFICATE", in)) }},
			{"ctx509.CertPool.AppendCertsFromPEM", func(in []byte) bool { return ctx509.NewCertPool().AppendCertsFromPEM(pemWrap("CERTIFICATE", in)) }},
			{"verifier.Graph.AppendFromPEMErr", func(in []byte) bool {
				n, _, _ := verifier.NewGraph().AppendFromPEMErr(bytes.NewReader(pemWrap("CERTIFICATE", in)), len(in)%2 == 0)
				return n > 0
			}},
		}
	case "csr":
		return []entry{
			{"x509.ParseCertificateRequest", func(in []byte) bool {
				r, err := zx509.ParseCertificateRequest(in)
				if err == nil && r != nil {
					r.CheckSignature()
				}
				return err == nil
			}},
		}
	case "crl":
		var issuer *zx509.Certificate
		if len(z.Issuers) > 0 {
			issuer = z.Issuers[0]
		}
		return []entry{
			{"x509.ParseCRL", func(in []byte) bool {
				l, err := zx509.ParseCRL(in)
				if err == nil && l != nil && issuer != nil {
					issuer.CheckCRLSignature(l)
				}
				return err == nil
			}},
			{"x509.ParseCRL(pem)", func(in []byte) bool { _, err := zx509.ParseCRL(pemWrap("X509 CRL", in)); return err == nil }},
			{"x509.ParseDERCRL", func(in []byte) bool { _, err := zx509.ParseDERCRL(in); return err == nil }},
			{"x509.ParseRevocationList", func(in []byte) bool {
				l, err := zx509.ParseRevocationList(in)
				if err == nil && l != nil && issuer != nil {
					l.CheckSignatureFrom(issuer)
				}
				return err == nil
			}},
			{"ctx509.ParseCRL", func(in []byte) bool { _, err := ctx509.ParseCRL(in); return err == nil }},
			{"ctx509.ParseDERCRL", func(in []byte) bool { _, err := ctx509.ParseDERCRL(in); return err == nil }},
		}
	case "spki":
		return []entry{
			{"x509.ParsePKIXPublicKey", func(in []byte) bool { _, err := zx509.ParsePKIXPublicKey(in); return err == nil }},
			{"ctx509.ParsePKIXPublicKey", func(in []byte) bool { _, err := ctx509.ParsePKIXPublicKey(in); return err == nil }},
		}
	case "pkcs1priv":
		return []entry{
			{"x509.ParsePKCS1PrivateKey", func(in []byte) bool { _, err := zx509.ParsePKCS1PrivateKey(in); return err == nil }},
			{"ctx509.ParsePKCS1PrivateKey", func(in []byte) bool { _, err := ctx509.ParsePKCS1PrivateKey(in); return err == nil }},
		}
	case "pkcs1pub":
		return []entry{
			{"x509.ParsePKCS1PublicKey", func(in []byte) bool { _, err := zx509.ParsePKCS1PublicKey(in); return err == nil }},
		}
	case "pkcs8":
		return []entry{
			{"x509.ParsePKCS8PrivateKey", func(in []byte) bool { _, err := zx509.ParsePKCS8PrivateKey(in); return err == nil }},
			{"ctx509.ParsePKCS8PrivateKey", func(in []byte) bool { _, err := ctx509.ParsePKCS8PrivateKey(in); return err == nil }},
		}
	case "ecpriv":
		return []entry{
			{"x509.ParseECPrivateKey", func(in []byte) bool { _, err := zx509.ParseECPrivateKey(in); return err == nil }},
			{"ctx509.ParseECPrivateKey", func(in []byte) bool { _, err := ctx509.ParseECPrivateKey(in); return err == nil }},
		}
	case "ocspreq":
		return []entry{{"ocsp.ParseRequest", func(in []byte) bool { _, err := ocsp.ParseRequest(in); return err == nil }}}
	case "ocspresp":
		var issuer, leaf *zx509.Certificate
		if len(z.Issuers) > 0 {
			issuer, leaf = z.Issuers[0], z.Leaves[0]
		}
		es := []entry{{"ocsp.ParseResponse(nil)", func(in []byte) bool { _, err := ocsp.ParseResponse(in, nil); return err == nil }}}
		if issuer != nil {
			es = append(es,
				entry{"ocsp.ParseResponse(issuer)", func(in []byte) bool { _, err := ocsp.ParseResponse(in, issuer); return err == nil }},
				entry{"ocsp.ParseResponseForCert(cert,issuer)", func(in []byte) bool { _, err := ocsp.ParseResponseForCert(in, leaf, issuer); return err == nil }},
				entry{"ocsp.ParseResponseForCert(cert,nil)", func(in []byte) bool { _, err := ocsp.ParseResponseForCert(in, leaf, nil); return err == nil }},
			)
			for i := 1; i < len(z.Issuers); i++ {
				is, lf := z.Issuers[i], z.Leaves[i]
				es = append(es, entry{"ocsp.ParseResponseForCert(cert,issuer)#" + itoa(i), func(in []byte) bool {
					_, err := ocsp.ParseResponseForCert(in, lf, is)
					return err == nil
				}})
			}
		}
		return es
	case "sct":
		return []entry{
			{"ct.DeserializeSCT", func(in []byte) bool { _, err := zct.DeserializeSCT(bytes.NewReader(in)); return err == nil }},
			{"x509/ct.DeserializeSCT", func(in []byte) bool { _, err := xct.DeserializeSCT(bytes.NewReader(in)); return err == nil }},
		}
	case "leaf":
		return []entry{{"ct.ReadMerkleTreeLeaf", func(in []byte) bool { _, err := zct.ReadMerkleTreeLeaf(bytes.NewReader(in)); return err == nil }}}
	case "chain":
		return []entry{
			{"ct.UnmarshalX509ChainArray", func(in []byte) bool { _, err := zct.UnmarshalX509ChainArray(in); return err == nil }},
			{"ct.UnmarshalPrecertChainArray", func(in []byte) bool { _, err := zct.UnmarshalPrecertChainArray(in); return err == nil }},
		}
	case "digsig":
		return []entry{
			{"ct.UnmarshalDigitallySigned", func(in []byte) bool { _, err := zct.UnmarshalDigitallySigned(bytes.NewReader(in)); return err == nil }},
			{"x509/ct.UnmarshalDigitallySigned", func(in []byte) bool { _, err := xct.UnmarshalDigitallySigned(bytes.NewReader(in)); return err == nil }},
		}
	case "crlset":
		return []entry{{"google.Parse", func(in []byte) bool { _, err := google.Parse(in, "v"); return err == nil }}}
	case "onecrl":
		return []entry{{"mozilla.Parse", func(in []byte) bool { _, err := mozilla.Parse(in); return err == nil }}}
	case "sst":
		return []entry{{"microsoft.Parse", func(in []byte) bool { _, err := microsoft.Parse(in); return err == nil }}}
	case "tlsmsg":
		var es []entry
		for k := 0; k < ztls.VerifParseKinds; k++ {
			k := k
			es = append(es, entry{"tls." + ztls.VerifParseKindName(k) + ".unmarshal", func(in []byte) bool { return ztls.VerifUnmarshalHandshakeMessage(k, in) }})
		}
		return es
	case "pem":
		return []entry{
			{"x509.CertPool.AppendCertsFromPEM", func(in []byte) bool { return zx509.NewCertPool().AppendCertsFromPEM(in) }},
			{"ctx509.CertPool.AppendCertsFromPEM", func(in []byte) bool { return ctx509.NewCertPool().AppendCertsFromPEM(in) }},
			{"verifier.Graph.AppendFromPEMErr", func(in []byte) bool {
				n, _, _ := verifier.NewGraph().AppendFromPEMErr(bytes.NewReader(in), true)
				return n > 0
			}},
			{"x509.ParseCRL", func(in []byte) bool { _, err := zx509.ParseCRL(in); return err == nil }},
			{"x509.DecryptPEMBlock", func(in []byte) bool {
				ok := false
				rest := in
				for i := 0; i < 8; i++ {
					var b *pem.Block
					b, rest = pem.Decode(rest)
					if b == nil {
						break
					}
					zx509.IsEncryptedPEMBlock(b)
					ctx509.IsEncryptedPEMBlock(b)
					if _, err := zx509.DecryptPEMBlock(b, []byte("password")); err == nil {
						ok = true
					}
					if _, err := ctx509.DecryptPEMBlock(b, []byte("password")); err == nil {
						ok = true
					}
				}
				return ok
			}},
		}
	}
	return nil
}

// asn1Entries: one Unmarshal per target type, zcrypto encoding/asn1 and ct/asn1.
func asn1Entries() []entry {
	var es []entry
	for _, t := range zasn1Targets {
		t := t
		es = append(es, entry{"asn1.Unmarshal(" + t.name + ")", func(in []byte) bool {
			var err error
			if t.params == "" {
				_, err = zasn1.Unmarshal(in, t.mk())
			} else {
				_, err = zasn1.UnmarshalWithParams(in, t.mk(), t.params)
			}
			return err == nil
		}})
	}
	for _, t := range ctasn1Targets {
		t := t
		es = append(es, entry{"ct/asn1.Unmarshal(" + t.name + ")", func(in []byte) bool {
			var err error
			if t.params == "" {
				_, err = ctasn1.Unmarshal(in, t.mk())
			} else {
				_, err = ctasn1.UnmarshalWithParams(in, t.mk(), t.params)
			}
			return err == nil
		}})
	}
	return es
}
