package x509eng

import (
	"bytes"
	"crypto"
	stdrsa "crypto/rsa"
	"crypto/sha256"
	"encoding/hex"
	"encoding/json"
	"fmt"
	"math/big"
	"reflect"
	"runtime"
	"sync"
	"time"

	zasn1 "github.com/zmap/zcrypto/encoding/asn1"
	"github.com/zmap/zcrypto/verifier"
	zx509 "github.com/zmap/zcrypto/x509"

	"verifharness/internal/core"
	"verifharness/internal/der"
	"verifharness/internal/keys"
)

func init() {
	core.RegisterMeta("C02", core.Meta{
		Rule: "certificates = (a) built by an independent DER writer with every extension zcrypto decodes in every shape its ASN.1 allows (policies with 0-4 qualifiers, user notices with/without " +
			"noticeRef/explicitText, all nine GeneralName arms, name constraints, QC statements, Tor descriptors, SCT lists, duplicate extensions, odd Ed25519/X25519/RSA/DSA/EC keys), signed with pool keys; " +
			"(b) real and zcrypto-created certificates with 1-4 stacked structure-aware mutations; each one accepted by ParseCertificate (strict, else permissive) gets: json.Marshal x2 (bytes compared), " +
			"JsonifyExtensions, CollectAllNames, VerifyHostname x6, GetParsedDNSNames, CertPool.AddCert/Contains, Graph.AddCert/AddRoot, and CheckSignatureFrom + CheckSignature against every certificate " +
			"of its batch of 16 as parent and as child; plus batches of PSS-labelled children under 512/768/1024-bit RSA parents too small for the declared hash, with signature values " +
			"crafted to pass the cheap EMSA-PSS checks; hold leg: every MarshalJSON result (certificate, names, algorithms, the marshalers inside JsonifyExtensions) of 2-6 certificates is " +
			"kept as returned, must be unchanged after the others were serialised and equal a fresh call; concurrent leg: 6 goroutines json.Marshal their own certificates, each result valid and " +
			"equal to the sequential encoding; non-trivial = accepted with >= 1 extension; distinct by hash of the DER bytes",
		MinNontrivial:         7500,
		MinNontrivialThorough: 250000,
		Shards:                16,
		GoMaxProcs:            2,
		Assumptions: []string{
			"encoding/json sorts map keys, so two differing encodings of one *Certificate come from zcrypto code",
			"Certificate.Verify is executed too but is outside the statement: a panic there is counted (outside_statement_panics), not reported",
		},
	}, runC02)
}

type c02Input struct {
	Mode  string   `json:"mode"` // strict | permissive
	Hex   string   `json:"hex"`
	Desc  string   `json:"desc,omitempty"`
	Other string   `json:"other_hex,omitempty"` // second certificate for pair operations
	Batch []string `json:"batch,omitempty"`
}

var c02Hosts = []string{"example.com", "www.example.com", "a.b.c.example.org", "*.example.com", "10.1.2.3", "[2001:db8::1]", "", "xn--bcher-kva.example", "EXAMPLE.COM."}

type c02Cert struct {
	c    *zx509.Certificate
	raw  []byte
	mode bool
	desc string
}

func modeName(m bool) string {
	if m {
		return "permissive"
	}
	return "strict"
}

// parseEither parses strict first, then permissive; panics are C01's subject and only counted here.
func parseEither(c *core.Ctx, raw []byte) (*zx509.Certificate, bool, bool) {
	for _, mode := range []bool{false, true} {
		zasn1.AllowPermissiveParsing = mode
		var cert *zx509.Certificate
		var err error
		if pi := core.Guard(func() { cert, err = zx509.ParseCertificate(raw) }); pi != nil {
			c.Count("parse_panics_(C01_subject)", 1)
			return nil, false, false
		}
		if err == nil && cert != nil {
			return cert, mode, true
		}
	}
	return nil, false, false
}

// c02Single runs the single-certificate operations.
func c02Single(c *core.Ctx, x c02Cert, id string) {
	in := c02Input{Mode: modeName(x.mode), Hex: hex.EncodeToString(x.raw), Desc: x.desc}
	zasn1.AllowPermissiveParsing = x.mode
	op := func(name string, f func()) {
		if pi := core.Guard(f); pi != nil {
			c.Violation(panicKey(pi), fmt.Sprintf("operation %s on a certificate accepted in %s mode (%s)\npanic: %s\n%s", name, in.Mode, x.desc, pi.Value, pi.Stack), id, in)
		}
		c.Count("op:"+name, 1)
	}
	var j1, j2 []byte
	var e1, e2 error
	op("json.Marshal", func() { j1, e1 = json.Marshal(x.c) })
	op("json.Marshal", func() { j2, e2 = json.Marshal(x.c) })
	if (e1 == nil) != (e2 == nil) || !bytes.Equal(j1, j2) {
		d := firstDiff(j1, j2)
		c.Violation("json-nondeterministic:Certificate", fmt.Sprintf("two json.Marshal calls on the same *Certificate differ (err1=%v err2=%v) at byte %d:\n…%s\n…%s", e1, e2, d, ctxAt(j1, d), ctxAt(j2, d)), id, in)
	}
	if e1 != nil {
		c.Count("json_marshal_errors", 1)
	}
	op("JsonifyExtensions", func() {
		ext, unk := x.c.JsonifyExtensions()
		// the extension view is what MarshalJSON embeds; serialise it on its own as well
		json.Marshal(ext)
		json.Marshal(unk)
	})
	var n1, n2 []string
	op("CollectAllNames", func() { n1 = x.c.CollectAllNames() })
	op("CollectAllNames", func() { n2 = x.c.CollectAllNames() })
	_ = n1
	_ = n2
	for _, h := range c02Hosts {
		h := h
		op("VerifyHostname", func() { x.c.VerifyHostname(h) })
	}
	op("GetParsedDNSNames", func() {
		x.c.GetParsedDNSNames(false)
		x.c.GetParsedDNSNames(true)
		x.c.GetParsedSubjectCommonName(true)
	})
	op("CertPool.AddCert", func() {
		p := zx509.NewCertPool()
		p.AddCert(x.c)
		p.AddCert(x.c)
		if !p.Contains(x.c) {
			c.Count("pool_contains_false_after_add", 1)
		}
		p.Subjects()
	})
}

func firstDiff(a, b []byte) int {
	n := min(len(a), len(b))
	for i := 0; i < n; i++ {
		if a[i] != b[i] {
			return i
		}
	}
	return n
}

func ctxAt(b []byte, i int) string {
	lo, hi := max(0, i-60), min(len(b), i+60)
	if lo > hi {
		return ""
	}
	return string(b[lo:hi])
}

// c02Batch runs the pair and collection operations over a batch.
func c02Batch(c *core.Ctx, batch []c02Cert, id string) {
	raws := make([]string, len(batch))
	for i, x := range batch {
		raws[i] = hex.EncodeToString(x.raw)
	}
	for i, child := range batch {
		for j, parent := range batch {
			zasn1.AllowPermissiveParsing = child.mode || parent.mode
			pid := fmt.Sprintf("%s-pair-%d-%d", id, i, j)
			in := c02Input{Mode: modeName(child.mode || parent.mode), Hex: raws[i], Other: raws[j], Desc: "child=" + child.desc + " parent=" + parent.desc}
			if pi := core.Guard(func() { child.c.CheckSignatureFrom(parent.c) }); pi != nil {
				c.Violation(panicKey(pi), fmt.Sprintf("child.CheckSignatureFrom(parent)\npanic: %s\n%s", pi.Value, pi.Stack), pid, in)
			}
			if pi := core.Guard(func() {
				parent.c.CheckSignature(child.c.SignatureAlgorithm, child.c.RawTBSCertificate, child.c.Signature)
			}); pi != nil {
				c.Violation(panicKey(pi), fmt.Sprintf("parent.CheckSignature(child.SignatureAlgorithm, child.RawTBSCertificate, child.Signature)\npanic: %s\n%s", pi.Value, pi.Stack), pid, in)
			}
		}
	}
	c.Count("op:CheckSignatureFrom+CheckSignature(pairs)", len(batch)*len(batch))
	anyPerm := false
	for _, x := range batch {
		anyPerm = anyPerm || x.mode
	}
	zasn1.AllowPermissiveParsing = anyPerm
	in := c02Input{Mode: modeName(anyPerm), Batch: raws}
	if pi := core.Guard(func() {
		p := zx509.NewCertPool()
		for _, x := range batch {
			p.AddCert(x.c)
		}
		for _, x := range batch {
			p.Contains(x.c)
		}
		p.Covers(p)
		p.Sum(p)
	}); pi != nil {
		c.Violation(panicKey(pi), fmt.Sprintf("CertPool.AddCert / Contains over a batch\npanic: %s\n%s", pi.Value, pi.Stack), id+"-pool", in)
	}
	c.Count("op:CertPool(batch)", 1)
	if pi := core.Guard(func() {
		g := verifier.NewGraph()
		for _, x := range batch {
			g.AddCert(x.c)
			if x.c.SelfSigned {
				g.AddRoot(x.c)
			}
		}
		for _, x := range batch { // re-insertion and late roots
			g.AddCert(x.c)
		}
		g.AddRoot(batch[0].c)
		g.Nodes()
		g.Edges()
	}); pi != nil {
		c.Violation(panicKey(pi), fmt.Sprintf("Graph.AddCert / AddRoot over a batch\npanic: %s\n%s", pi.Value, pi.Stack), id+"-graph", in)
	}
	c.Count("op:Graph(batch)", 1)
	c02Hold(c, batch, id, raws)
	c02Concurrent(c, batch, id, raws)
	// outside the statement: Verify with the batch as intermediates and roots (counted only)
	if pi := core.Guard(func() {
		inter, roots := zx509.NewCertPool(), zx509.NewCertPool()
		for _, x := range batch {
			if x.c.SelfSigned {
				roots.AddCert(x.c)
			} else {
				inter.AddCert(x.c)
			}
		}
		for _, x := range batch[:min(4, len(batch))] {
			x.c.Verify(zx509.VerifyOptions{Intermediates: inter, Roots: roots, CurrentTime: time.Date(2025, 1, 1, 0, 0, 0, 0, time.UTC), KeyUsages: []zx509.ExtKeyUsage{zx509.ExtKeyUsageAny}})
		}
	}); pi != nil {
		c.Count("outside_statement_panics:Verify", 1)
		c.Note("Certificate.Verify panicked (outside the C02 statement, not reported): %s", pi.Key)
	}
}

func runC02(c *core.Ctx) {
	startFlag := zasn1.AllowPermissiveParsing
	defer func() { zasn1.AllowPermissiveParsing = startFlag }()
	if len(c.Replay) > 0 {
		var in c02Input
		if json.Unmarshal(c.Replay, &in) == nil && (in.Hex != "" || len(in.Batch) > 0) {
			var batch []c02Cert
			add := func(h string) {
				raw, _ := hex.DecodeString(h)
				if cert, mode, ok := parseEither(c, raw); ok {
					batch = append(batch, c02Cert{cert, raw, mode || in.Mode == "permissive", "replay"})
				}
			}
			if in.Hex != "" {
				add(in.Hex)
			}
			if in.Other != "" {
				add(in.Other)
			}
			for _, h := range in.Batch {
				add(h)
			}
			for _, x := range batch {
				c02Single(c, x, c.OnlyCase)
			}
			if len(batch) > 0 {
				c02Batch(c, batch, c.OnlyCase)
			}
			c.Eval(len(batch))
			return
		}
	}
	ig := newInputGen(c.Rng)
	n := c.PerShard(c.Pick(40000, 1500000))
	var batch []c02Cert
	nb := 0
	flush := func() {
		if len(batch) == 0 {
			return
		}
		c02Batch(c, batch, fmt.Sprintf("s%d-b%d", c.Shard, nb))
		nb++
		batch = batch[:0]
	}
	seeds := ig.fams["cert"]
	for i := 0; i < n; i++ {
		var raw []byte
		desc := ""
		switch k := c.Rng.IntN(10); {
		case k < 5:
			var tr certTruth
			raw, _, tr = ig.g.cert()
			desc = tr.Desc
		case k < 9:
			raw, desc = ig.mutateDER(ig.pickSeed("cert"), "cert")
		default:
			raw, desc = seeds[(i*c.NShards+c.Shard)%len(seeds)], "seed"
		}
		c.Count("generated", 1)
		cert, mode, ok := parseEither(c, raw)
		if !ok {
			continue
		}
		c.Eval(1)
		c.Count("accepted_"+modeName(mode), 1)
		x := c02Cert{cert, raw, mode, desc}
		id := fmt.Sprintf("s%d-%d", c.Shard, i)
		c02Single(c, x, id)
		if len(cert.Extensions) > 0 {
			c.Nontrivial(raw)
		}
		if len(cert.PolicyIdentifiers) > 0 {
			c.Count("with_policies", 1)
		}
		if len(cert.UserNotices) > 0 {
			c.Count("with_user_notices", 1)
		}
		if cert.SelfSigned {
			c.Count("self_signed", 1)
		}
		if c.WantSample() && desc != "seed" && len(cert.Extensions) > 2 {
			c.Sample(map[string]string{"how": desc, "mode": modeName(mode), "der": core.Hex(raw)})
		}
		batch = append(batch, x)
		if len(batch) == 16 {
			flush()
		}
	}
	flush()
	// PSS-labelled children under small RSA parents (modulus too short for the declared hash and salt), with
	// signature values whose public-key operation yields an encoded message that passes the cheap PSS checks
	gsp := &gen{r: c.SubRng("small-rsa-pss")}
	for bi, nbatches := 0, c.PerShard(c.Pick(160, 4000)); bi < nbatches; bi++ {
		var b []c02Cert
		for _, it := range gsp.smallRSAPSSBatch() {
			c.Count("small_rsa_pss_generated", 1)
			cert, mode, ok := parseEither(c, it.raw)
			if !ok {
				c.Count("small_rsa_pss_rejected", 1)
				continue
			}
			c.Eval(1)
			x := c02Cert{cert, it.raw, mode, it.desc}
			c02Single(c, x, fmt.Sprintf("s%d-pss%d", c.Shard, bi))
			if len(cert.Extensions) > 0 {
				c.Nontrivial(it.raw)
			}
			b = append(b, x)
		}
		if len(b) > 0 {
			c02Batch(c, b, fmt.Sprintf("s%d-pssb%d", c.Shard, bi))
			c.Count("small_rsa_pss_batches", 1)
		}
	}
}

type rawCert struct {
	raw  []byte
	desc string
}

// smallRSAPSSBatch builds three CA certificates with the 512-, 768- and 1024-bit pool keys and, under each,
// children whose signatureAlgorithm is RSA-PSS with a hash for which the parent modulus is too short
// (emLen < 2*hLen+2) and whose signature value s satisfies: s^e mod N ends in 0xbc with the top bits clear.
func (g *gen) smallRSAPSSBatch() []rawCert {
	var out []rawCert
	_, fast := signers()
	t0, t1 := g.genTime(), g.genTime()
	if t1.Before(t0) {
		t0, t1 = t1, t0
	}
	for _, bits := range []int{512, 768, 1024} {
		ks := keys.Get().RSAByBits(bits, 2)
		if len(ks) == 0 {
			continue
		}
		k := ks[g.n(len(ks))]
		key := &stdrsa.PrivateKey{PublicKey: stdrsa.PublicKey{N: k.N, E: k.E}, D: k.D}
		spki := der.Seq(der.Seq(der.OID(oidRSA...), der.Null()), der.BitsWrap(der.Seq(der.BigInt(k.N), der.Int(int64(k.E)))))
		caName := der.Seq(der.Set(der.Seq(der.OID(2, 5, 4, 3), der.UTF8("Small RSA CA "+itoa(bits)+" "+itoa(g.n(1000))))))
		kbytes := (k.N.BitLen() + 7) / 8
		caExts := []*der.Node{extension([]int{2, 5, 29, 19}, true, der.Seq(der.Bool(true)))}
		if g.chance(50) {
			caExts = append(caExts, extension([]int{2, 5, 29, 15}, true, der.Bits([]byte{0x06}, 1))) // keyCertSign | cRLSign
		}
		ca := &certParts{Version: 2, Serial: big.NewInt(int64(1 + g.n(1<<30))), SigAlg: der.Seq(der.OID(oidSHA1RSA...), der.Null()), Issuer: caName, Subject: caName.Clone(),
			NotBefore: der.Time(t0), NotAfter: der.Time(t1), SPKI: spki, Exts: caExts,
			signFn: func(tbs []byte) []byte {
				return rsaPrivOp(key, emsaPKCS1v15(crypto.SHA1, hashOf(crypto.SHA1, tbs), kbytes))
			}}
		out = append(out, rawCert{ca.assemble(), "small-rsa-ca:" + itoa(bits)})
		emBits := k.N.BitLen() - 1
		emLen := (emBits + 7) / 8
		for _, h := range []crypto.Hash{crypto.SHA256, crypto.SHA384, crypto.SHA512} {
			if !(emLen >= h.Size()+1 && emLen < 2*h.Size()+2) {
				continue
			}
			for rep := 0; rep < 2; rep++ {
				// encoded message: top bits clear, trailer 0xbc, everything else random; signature = EM^d mod N
				em := g.bytes(emLen)
				em[0] &= 0xff >> uint(8*emLen-emBits)
				em[emLen-1] = 0xbc
				sig := rsaPrivOp(key, em)
				sub := fast[g.n(len(fast))]
				child := &certParts{Version: 2, Serial: big.NewInt(int64(1 + g.n(1<<30))), SigAlg: der.Seq(der.OID(oidRSAPSS...), pssParams(h)),
					Issuer: caName.Clone(), Subject: g.name(), NotBefore: der.Time(t0), NotAfter: der.Time(t1), SPKI: sub.spki(),
					signFn: func([]byte) []byte { return sig }}
				if g.chance(50) {
					child.Exts = g.extensions()
				}
				out = append(out, rawCert{child.assemble(), "pss-child:sha" + itoa(h.Size()*8) + "-under-rsa" + itoa(bits)})
			}
		}
	}
	return out
}

// marshalersOf lists the json.Marshaler values a certificate's JSON view is made of: the certificate itself,
// its names and algorithm identifiers, and every Marshaler inside the JsonifyExtensions output.
func marshalersOf(cert *zx509.Certificate) (names []string, ms []json.Marshaler) {
	add := func(name string, v any) {
		if m, ok := v.(json.Marshaler); ok && m != nil {
			rv := reflect.ValueOf(v)
			if rv.Kind() == reflect.Ptr && rv.IsNil() {
				return
			}
			names, ms = append(names, name), append(ms, m)
		}
	}
	add("Certificate", cert)
	add("Certificate.Subject", &cert.Subject)
	add("Certificate.Issuer", &cert.Issuer)
	add("Certificate.SignatureAlgorithm", &cert.SignatureAlgorithm)
	add("Certificate.PublicKeyAlgorithm", &cert.PublicKeyAlgorithm)
	add("Certificate.KeyUsage", &cert.KeyUsage)
	add("Certificate.FingerprintSHA256", &cert.FingerprintSHA256)
	var ext *zx509.CertificateExtensions
	if core.Guard(func() { ext, _ = cert.JsonifyExtensions() }) != nil || ext == nil {
		return
	}
	var walk func(path string, v reflect.Value, depth int)
	walk = func(path string, v reflect.Value, depth int) {
		if depth > 3 || len(ms) > 48 || !v.IsValid() {
			return
		}
		switch v.Kind() {
		case reflect.Ptr, reflect.Interface:
			if v.IsNil() {
				return
			}
			if v.Kind() == reflect.Ptr && v.CanInterface() {
				add(path, v.Interface())
			}
			walk(path, v.Elem(), depth+1)
		case reflect.Struct:
			if v.CanAddr() && v.Addr().CanInterface() {
				add(path, v.Addr().Interface())
			}
			for i := 0; i < v.NumField(); i++ {
				if f := v.Type().Field(i); f.PkgPath == "" {
					walk(path+"."+f.Name, v.Field(i), depth+1)
				}
			}
		case reflect.Slice:
			if v.Type().Elem().Kind() == reflect.Uint8 {
				if v.CanAddr() && v.Addr().CanInterface() {
					add(path, v.Addr().Interface())
				}
				return
			}
			for i := 0; i < v.Len() && i < 3; i++ {
				walk(path+"[]", v.Index(i), depth+1)
			}
		default:
			if v.CanAddr() && v.Addr().CanInterface() {
				add(path, v.Addr().Interface())
			}
		}
	}
	walk("CertificateExtensions", reflect.ValueOf(ext), 0)
	return
}

type heldJSON struct {
	cert  int
	name  string
	m     json.Marshaler
	out   []byte // the slice exactly as MarshalJSON returned it (never copied)
	err   error
	sum   [32]byte
	first []byte // private copy taken at once
}

// c02Hold checks the determinism clause across interleaved serialisations: every MarshalJSON result of 2..6
// certificates is kept as returned, then — after all the others have been serialised — must be unchanged and
// equal to a fresh serialisation of the same value ("serialise A, serialise B, serialise A again").
func c02Hold(c *core.Ctx, batch []c02Cert, id string, raws []string) {
	k := 2 + int(c.Rng.IntN(5))
	if k > len(batch) {
		k = len(batch)
	}
	if k < 2 {
		return
	}
	perm := c.Rng.Perm(len(batch))[:k]
	anyPerm := false
	for _, i := range perm {
		anyPerm = anyPerm || batch[i].mode
	}
	zasn1.AllowPermissiveParsing = anyPerm
	var sub []string
	for _, i := range perm {
		sub = append(sub, raws[i])
	}
	in := c02Input{Mode: modeName(anyPerm), Batch: sub, Desc: "hold leg"}
	var held []*heldJSON
	refs := map[int][]byte{}
	for _, i := range perm {
		cert := batch[i].c
		var ref []byte
		if core.Guard(func() { ref, _ = json.Marshal(cert) }) != nil {
			return // a panic here is reported by the single-certificate operations
		}
		refs[i] = ref
		names, ms := marshalersOf(cert)
		for j, m := range ms {
			h := &heldJSON{cert: i, name: names[j], m: m}
			if core.Guard(func() { h.out, h.err = m.MarshalJSON() }) != nil {
				continue
			}
			h.sum = sha256.Sum256(h.out)
			h.first = append([]byte(nil), h.out...)
			held = append(held, h)
		}
	}
	c.Count("op:MarshalJSON(held)", len(held))
	for _, h := range held {
		if sha256.Sum256(h.out) != h.sum {
			d := firstDiff(h.first, h.out)
			c.Violation("json-result-changed-after-other-serialisations:"+h.name,
				fmt.Sprintf("the slice returned by %s.MarshalJSON() of certificate #%d changed after other values were serialised (first difference at byte %d):\nwas …%s\nnow …%s",
					h.name, h.cert, d, ctxAt(h.first, d), ctxAt(h.out, d)), id+"-hold", in)
			continue
		}
		var again []byte
		var err error
		if core.Guard(func() { again, err = h.m.MarshalJSON() }) != nil {
			continue
		}
		if (err == nil) != (h.err == nil) || !bytes.Equal(again, h.first) {
			d := firstDiff(h.first, again)
			c.Violation("json-nondeterministic:"+h.name, fmt.Sprintf("%s.MarshalJSON() before and after serialising other certificates differ at byte %d (err %v / %v):\n…%s\n…%s",
				h.name, d, h.err, err, ctxAt(h.first, d), ctxAt(again, d)), id+"-hold", in)
		}
	}
	for _, i := range perm { // A, B, …, A again through json.Marshal
		var again []byte
		var err error
		cert := batch[i].c
		if core.Guard(func() { again, err = json.Marshal(cert) }) != nil {
			continue
		}
		if err != nil && refs[i] != nil || !bytes.Equal(again, refs[i]) {
			d := firstDiff(refs[i], again)
			c.Violation("json-nondeterministic:Certificate", fmt.Sprintf("json.Marshal of certificate #%d before and after serialising other certificates differ at byte %d:\n…%s\n…%s",
				i, d, ctxAt(refs[i], d), ctxAt(again, d)), id+"-hold", in)
		}
	}
}

// c02Concurrent: six goroutines serialise their own certificates repeatedly; every call must succeed when the
// reference call did, return valid JSON and equal that certificate's reference encoding.
func c02Concurrent(c *core.Ctx, batch []c02Cert, id string, raws []string) {
	if len(batch) < 6 {
		return
	}
	anyPerm := false
	for _, x := range batch {
		anyPerm = anyPerm || x.mode
	}
	zasn1.AllowPermissiveParsing = anyPerm
	refs := make([][]byte, len(batch))
	okRef := make([]bool, len(batch))
	for i, x := range batch {
		var err error
		if core.Guard(func() { refs[i], err = json.Marshal(x.c) }) == nil && err == nil {
			okRef[i] = true
		}
	}
	type bad struct {
		cert      int
		key, text string
	}
	const G = 6
	results := make([][]bad, G)
	var wg sync.WaitGroup
	for g := 0; g < G; g++ {
		wg.Add(1)
		go func(g int) {
			defer wg.Done()
			for round := 0; round < 4; round++ {
				for i := g; i < len(batch); i += G {
					if !okRef[i] {
						continue
					}
					var out []byte
					var err error
					if pi := core.Guard(func() { out, err = json.Marshal(batch[i].c) }); pi != nil {
						results[g] = append(results[g], bad{i, panicKey(pi), "json.Marshal panicked under concurrent use: " + pi.Value + "\n" + pi.Stack})
						continue
					}
					switch {
					case err != nil:
						results[g] = append(results[g], bad{i, "json-concurrent:error", "json.Marshal failed under concurrent use: " + err.Error()})
					case !json.Valid(out):
						results[g] = append(results[g], bad{i, "json-concurrent:invalid-json", "json.Marshal returned invalid JSON under concurrent use"})
					case !bytes.Equal(out, refs[i]):
						d := firstDiff(refs[i], out)
						results[g] = append(results[g], bad{i, "json-concurrent:differs-from-reference", fmt.Sprintf("differs from the sequential encoding at byte %d:\n…%s\n…%s", d, ctxAt(refs[i], d), ctxAt(out, d))})
					}
					runtime.Gosched()
				}
			}
		}(g)
	}
	wg.Wait()
	c.Count("op:json.Marshal(concurrent)", 1)
	for _, rs := range results {
		for _, b := range rs {
			c.Violation(b.key, b.text, id+"-concurrent", c02Input{Mode: modeName(anyPerm), Hex: raws[b.cert], Batch: raws, Desc: "concurrent leg, 6 goroutines"})
		}
	}
}
