package x509eng

import (
	"bytes"
	"crypto"
	"encoding/hex"
	"encoding/json"
	"fmt"
	"math/big"
	"net"
	"reflect"
	"regexp"
	"time"

	zasn1 "github.com/zmap/zcrypto/encoding/asn1"
	zx509 "github.com/zmap/zcrypto/x509"

	"verifharness/internal/core"
	"verifharness/internal/der"
)

func init() {
	core.RegisterMeta("C20", core.Meta{
		Rule: "inputs = C01's certificate / DER stream (seeds, generator-built certificates, 1-4 stacked structure-aware mutations, sub-elements of seeds) plus valid encodings built for each " +
			"asn1.Unmarshal target type and single mutations of them; every (input, target) is decoded strict then permissive in the same child; targets: x509.ParseCertificate (every exported field " +
			"compared by a reflective deep comparison treating *big.Int, time.Time, net.IP semantically, plus json.Marshal bytes) and asn1.Unmarshal[WithParams] into the menu of basic types, " +
			"pkix/x509 wire structs and tagged struct types (value and number of consumed bytes compared); ParseCertificateRequest / ParsePKIXPublicKey / ParseCRL are executed and their " +
			"disagreements counted; non-trivial = strict mode accepted the (input, target) pair; distinct by hash of (target, bytes)",
		MinNontrivial:         40000,
		MinNontrivialThorough: 1000000,
		Shards:                16,
		GoMaxProcs:            2,
		Assumptions: []string{
			"nil and empty slices / maps are treated as the same value by the deep comparison (the json.Marshal comparison still sees a visible difference)",
			"inputs on which strict mode fails are only counted, split by whether permissive mode accepted them",
		},
	}, runC20)
}

type c20Input struct {
	Target string `json:"target"`
	Hex    string `json:"hex"`
	Desc   string `json:"desc,omitempty"`
}

var (
	bigIntPtrType = reflect.TypeOf((*big.Int)(nil))
	timeType      = reflect.TypeOf(time.Time{})
	ipType        = reflect.TypeOf(net.IP{})
	reIndex       = regexp.MustCompile(`\[\d+\]`)
)

// deepDiff returns the path of the first difference between a and b ("" if none).
func deepDiff(a, b reflect.Value, path string, depth int) string {
	if depth > 40 {
		return ""
	}
	if a.IsValid() != b.IsValid() {
		return path + ":validity"
	}
	if !a.IsValid() {
		return ""
	}
	if a.Type() != b.Type() {
		return path + ":type(" + a.Type().String() + "|" + b.Type().String() + ")"
	}
	switch a.Type() {
	case bigIntPtrType:
		x, y := a.Interface().(*big.Int), b.Interface().(*big.Int)
		if (x == nil) != (y == nil) || x != nil && x.Cmp(y) != 0 {
			return path
		}
		return ""
	case timeType:
		x, y := a.Interface().(time.Time), b.Interface().(time.Time)
		if !x.Equal(y) {
			return path
		}
		_, ox := x.Zone()
		_, oy := y.Zone()
		if ox != oy {
			return path + ":zone"
		}
		return ""
	case ipType:
		x, y := a.Interface().(net.IP), b.Interface().(net.IP)
		if !bytes.Equal(x, y) {
			return path
		}
		return ""
	}
	switch a.Kind() {
	case reflect.Ptr:
		if a.IsNil() != b.IsNil() {
			return path + ":nil"
		}
		if a.IsNil() {
			return ""
		}
		return deepDiff(a.Elem(), b.Elem(), path, depth+1)
	case reflect.Interface:
		if a.IsNil() != b.IsNil() {
			return path + ":nil"
		}
		if a.IsNil() {
			return ""
		}
		return deepDiff(a.Elem(), b.Elem(), path, depth+1)
	case reflect.Struct:
		for i := 0; i < a.NumField(); i++ {
			f := a.Type().Field(i)
			if f.PkgPath != "" { // unexported
				continue
			}
			if d := deepDiff(a.Field(i), b.Field(i), path+"."+f.Name, depth+1); d != "" {
				return d
			}
		}
		return ""
	case reflect.Slice, reflect.Array:
		if a.Len() != b.Len() {
			return path + ":len"
		}
		if a.Kind() == reflect.Slice && a.Type().Elem().Kind() == reflect.Uint8 {
			if !bytes.Equal(a.Bytes(), b.Bytes()) {
				return path
			}
			return ""
		}
		for i := 0; i < a.Len(); i++ {
			if d := deepDiff(a.Index(i), b.Index(i), fmt.Sprintf("%s[%d]", path, i), depth+1); d != "" {
				return d
			}
		}
		return ""
	case reflect.Map:
		if a.Len() != b.Len() {
			return path + ":len"
		}
		for _, k := range a.MapKeys() {
			bv := b.MapIndex(k)
			if !bv.IsValid() {
				return path + ":key"
			}
			if d := deepDiff(a.MapIndex(k), bv, path+"[k]", depth+1); d != "" {
				return d
			}
		}
		return ""
	case reflect.Func, reflect.Chan, reflect.UnsafePointer:
		return ""
	}
	if a.CanInterface() && b.CanInterface() {
		if !reflect.DeepEqual(a.Interface(), b.Interface()) {
			return path
		}
		return ""
	}
	return ""
}

func diffKey(path string) string { return reIndex.ReplaceAllString(path, "[]") }

// causeSuffix classifies the input bytes with the independent lenient reader: ":non-der-input" when the input
// (including what it carries inside OCTET/BIT STRINGs) contains a non-minimal length, a non-minimal INTEGER or
// another non-DER form, "" when it is canonical DER as far as the reader can tell. The witness key carries the
// class so that a recorded finding about non-DER inputs cannot hide a disagreement on a canonical one.
func causeSuffix(raw []byte) (suffix, what string) {
	nodes, err := der.ParseAll(raw)
	if err != nil {
		return ":non-der-input", "not parseable as TLVs by the independent reader"
	}
	for _, n := range nodes {
		if d := n.NonDER(); d != "" {
			return ":non-der-input", d
		}
	}
	return "", ""
}

type c20Runner struct {
	c *core.Ctx
}

func errStr(e error) string {
	if e == nil {
		return "<nil>"
	}
	s := e.Error()
	if len(s) > 200 {
		s = s[:200]
	}
	return s
}

// outcome bookkeeping shared by all targets
func (r *c20Runner) account(target string, strictOK, permOK bool) {
	switch {
	case strictOK:
		r.c.Count("strict_accepted", 1)
	case permOK:
		r.c.Count("strict_rejected_permissive_rescued", 1)
		r.c.Count("rescued:"+target, 1)
	default:
		r.c.Count("both_rejected", 1)
	}
}

func (r *c20Runner) certificate(raw []byte, desc, id string) {
	c := r.c
	in := c20Input{Target: "x509.ParseCertificate", Hex: hex.EncodeToString(raw), Desc: desc}
	var cs, cp *zx509.Certificate
	var es, ep error
	zasn1.AllowPermissiveParsing = false
	if pi := core.Guard(func() { cs, es = zx509.ParseCertificate(raw) }); pi != nil {
		c.Count("panics_(C01_subject)", 1)
		return
	}
	zasn1.AllowPermissiveParsing = true
	if pi := core.Guard(func() { cp, ep = zx509.ParseCertificate(raw) }); pi != nil {
		c.Count("panics_(C01_subject)", 1)
		zasn1.AllowPermissiveParsing = false
		return
	}
	zasn1.AllowPermissiveParsing = false
	c.Eval(1)
	r.account("ParseCertificate", es == nil, ep == nil)
	if es != nil {
		return
	}
	c.Nontrivial("cert", raw)
	if ep != nil {
		sfx, what := causeSuffix(raw)
		c.Violation("permissive-rejects-strict-accepted:x509.ParseCertificate"+sfx, "strict mode accepts, permissive mode fails with: "+errStr(ep)+"\nhow: "+desc+"\ninput class: "+what, id, in)
		return
	}
	if d := deepDiff(reflect.ValueOf(cs), reflect.ValueOf(cp), "Certificate", 0); d != "" {
		sfx, what := causeSuffix(raw)
		c.Violation("permissive-differs:x509.ParseCertificate:"+diffKey(d)+sfx, "strict and permissive results differ at "+d+"\nhow: "+desc+"\ninput class: "+what, id, in)
		return
	}
	// JSON view, each marshalled in the mode that produced it
	var js, jp []byte
	var e1, e2 error
	if pi := core.Guard(func() { js, e1 = json.Marshal(cs) }); pi != nil {
		c.Count("panics_(C02_subject)", 1)
		return
	}
	zasn1.AllowPermissiveParsing = true
	pi := core.Guard(func() { jp, e2 = json.Marshal(cp) })
	zasn1.AllowPermissiveParsing = false
	if pi != nil {
		c.Count("panics_(C02_subject)", 1)
		return
	}
	if (e1 == nil) != (e2 == nil) || !bytes.Equal(js, jp) {
		d := firstDiff(js, jp)
		sfx, _ := causeSuffix(raw)
		c.Violation("permissive-differs:x509.ParseCertificate:json"+sfx, fmt.Sprintf("json.Marshal of the strict and permissive results differ at byte %d (err %v / %v):\n…%s\n…%s\nhow: %s", d, e1, e2, ctxAt(js, d), ctxAt(jp, d), desc), id, in)
	}
	c.Count("certificates_compared", 1)
}

func (r *c20Runner) unmarshalAll(raw []byte, desc, id string, only string) {
	c := r.c
	for _, t := range zasn1Targets {
		if only != "" && t.name != only {
			continue
		}
		vs, vp := t.mk(), t.mk()
		var rs, rp []byte
		var es, ep error
		run := func(v any, rest *[]byte, err *error) *core.PanicInfo {
			return core.Guard(func() {
				if t.params == "" {
					*rest, *err = zasn1.Unmarshal(raw, v)
				} else {
					*rest, *err = zasn1.UnmarshalWithParams(raw, v, t.params)
				}
			})
		}
		zasn1.AllowPermissiveParsing = false
		if run(vs, &rs, &es) != nil {
			c.Count("panics_(C01_subject)", 1)
			continue
		}
		zasn1.AllowPermissiveParsing = true
		p := run(vp, &rp, &ep)
		zasn1.AllowPermissiveParsing = false
		if p != nil {
			c.Count("panics_(C01_subject)", 1)
			continue
		}
		c.Eval(1)
		r.account("asn1:"+t.name, es == nil, ep == nil)
		if es != nil {
			continue
		}
		c.Nontrivial("asn1", t.name, raw)
		c.Count("strict_accepted_asn1:"+t.name, 1)
		in := c20Input{Target: "asn1.Unmarshal(" + t.name + ")", Hex: hex.EncodeToString(raw), Desc: desc}
		if ep != nil {
			sfx, _ := causeSuffix(raw)
			c.Violation("permissive-rejects-strict-accepted:asn1.Unmarshal("+t.name+")"+sfx, "strict mode accepts, permissive mode fails with: "+errStr(ep)+"\nhow: "+desc, id, in)
			continue
		}
		if len(rs) != len(rp) {
			sfx, _ := causeSuffix(raw)
			c.Violation("permissive-consumes-differently:asn1.Unmarshal("+t.name+")"+sfx, fmt.Sprintf("strict leaves %d bytes, permissive leaves %d bytes\nhow: %s", len(rs), len(rp), desc), id, in)
			continue
		}
		if d := deepDiff(reflect.ValueOf(vs), reflect.ValueOf(vp), t.name, 0); d != "" {
			sfx, _ := causeSuffix(raw)
			c.Violation("permissive-differs:asn1.Unmarshal("+t.name+"):"+diffKey(d)+sfx, "strict and permissive values differ at "+d+"\nhow: "+desc, id, in)
		}
	}
}

// others: executed and counted, not asserted (outside the statement's two entry points).
func (r *c20Runner) others(fam string, raw []byte) {
	c := r.c
	type res struct {
		v   any
		err error
	}
	run := func(f func() (any, error)) (s, p res, ok bool) {
		zasn1.AllowPermissiveParsing = false
		if core.Guard(func() { s.v, s.err = f() }) != nil {
			return s, p, false
		}
		zasn1.AllowPermissiveParsing = true
		pi := core.Guard(func() { p.v, p.err = f() })
		zasn1.AllowPermissiveParsing = false
		return s, p, pi == nil
	}
	var name string
	var f func() (any, error)
	switch fam {
	case "csr":
		name, f = "ParseCertificateRequest", func() (any, error) { return zx509.ParseCertificateRequest(raw) }
	case "spki":
		name, f = "ParsePKIXPublicKey", func() (any, error) { return zx509.ParsePKIXPublicKey(raw) }
	case "crl":
		name, f = "ParseCRL", func() (any, error) { return zx509.ParseCRL(raw) }
	default:
		return
	}
	s, p, ok := run(f)
	if !ok {
		return
	}
	c.Count("other:"+name+":executed", 1)
	if s.err != nil {
		return
	}
	c.Count("other:"+name+":strict_accepted", 1)
	if p.err != nil {
		c.Count("other:"+name+":permissive_rejects_(not_asserted)", 1)
		return
	}
	if d := deepDiff(reflect.ValueOf(s.v), reflect.ValueOf(p.v), name, 0); d != "" {
		c.Count("other:"+name+":differs_(not_asserted)", 1)
		c.Note("%s: strict and permissive results differ at %s (outside the statement, not asserted)", name, d)
	}
}

// validEncoding builds a valid DER encoding for an asn1 target (nil if the target has no builder).
func (g *gen) validEncoding(target string) []byte {
	str := func() *der.Node {
		return []*der.Node{der.UTF8(g.pickS(orgPool)), der.Printable("Example 123"), der.IA5(g.pickS(mailPool[:3])), der.Str(der.TagNumericString, "12 34"),
			der.Str(der.TagT61String, "t61\xe9"), der.BMP("bmp")}[g.n(6)]
	}
	tm := func() *der.Node {
		if g.chance(50) {
			return der.UTCTime(g.genTime())
		}
		return der.GenTime(g.genTime())
	}
	bigv := func() *der.Node { return der.BigInt(new(big.Int).SetBytes(g.bytes(1 + g.n(20)))) }
	s1 := func() *der.Node {
		k := []*der.Node{der.Int(int64(g.n(100000)) - 500), der.UTF8(g.pickS(orgPool))}
		if g.chance(50) {
			k = append(k, der.Octets(g.bytes(g.n(8))))
		}
		return der.Seq(k...)
	}
	s2 := func() *der.Node {
		k := []*der.Node{}
		if g.chance(50) {
			k = append(k, der.Explicit(0, der.Int(int64(1+g.n(5)))))
		}
		k = append(k, der.OID(1, 2, 840, g.n(100000)), der.UTCTime(g.genTime()))
		if g.chance(50) {
			k = append(k, der.GenTime(g.genTime()))
		}
		return der.Seq(k...)
	}
	switch target {
	case "RawValue":
		return ig0subtree(g)
	case "int", "int64":
		return der.Int(g.r.Int64N(1<<40) - 1<<39).Encode()
	case "bigInt":
		return bigv().Encode()
	case "bool":
		return der.Bool(g.chance(50)).Encode()
	case "bytes":
		return der.Octets(g.bytes(g.n(30))).Encode()
	case "string":
		return str().Encode()
	case "string-ia5":
		return der.IA5(g.pickS(hostPool[:6])).Encode()
	case "string-utf8":
		return der.UTF8(g.pickS(orgPool)).Encode()
	case "OID":
		return der.OID(der.KnownOIDs[g.n(len(der.KnownOIDs))]...).Encode()
	case "BitString":
		return der.Bits(g.bytes(1+g.n(8)), 0).Encode()
	case "Enumerated":
		return der.Enum(int64(g.n(10))).Encode()
	case "Time":
		return tm().Encode()
	case "Time-generalized":
		return der.GenTime(g.genTime()).Encode()
	case "[]RawValue", "[]int":
		var k []*der.Node
		for i, n := 0, g.n(5); i < n; i++ {
			k = append(k, der.Int(int64(g.n(1000))))
		}
		return der.Seq(k...).Encode()
	case "[]RawValue-set":
		return der.Set(der.Int(1), der.Int(2)).Encode()
	case "[]string":
		return der.Seq(der.UTF8("a"), der.UTF8(g.pickS(orgPool))).Encode()
	case "[]OID":
		return der.Seq(der.OID(1, 2, 3), der.OID(2, 5, 29, g.n(60))).Encode()
	case "int-tag0-explicit":
		return der.Explicit(0, der.Int(int64(g.n(500)))).Encode()
	case "bytes-tag1":
		return der.CtxPrim(1, g.bytes(g.n(12))).Encode()
	case "pkix.RDNSequence":
		return g.name().Encode()
	case "pkix.AlgorithmIdentifier":
		return [](*der.Node){der.Seq(der.OID(oidSHA256RSA...), der.Null()), der.Seq(der.OID(oidEd25519...)), der.Seq(der.OID(oidRSAPSS...), pssParams(crypto.SHA256))}[g.n(3)].Encode()
	case "pkix.Extension":
		e := g.extensions()
		if len(e) == 0 {
			return nil
		}
		return e[0].Encode()
	case "[]pkix.Extension":
		return der.Seq(g.extensions()...).Encode()
	case "pkix.AttributeTypeAndValue":
		return der.Seq(der.OID(2, 5, 4, 3), str()).Encode()
	case "pkix.OtherName":
		return der.Seq(der.OID(1, 3, 6, 1, 4, 1, 311, 20, 2, 3), der.Explicit(0, der.UTF8("upn@example.com"))).Encode()
	case "pkix.OtherName-tag0":
		return der.CtxCons(0, der.OID(1, 3, 6, 1, 4, 1, 311, 20, 2, 3), der.Explicit(0, der.UTF8("upn@example.com"))).Encode()
	case "pkix.EDIPartyName-tag5":
		return der.CtxCons(5, der.Explicit(0, der.UTF8("assigner")), der.Explicit(1, der.UTF8("party"))).Encode()
	case "x509.CABFOrganizationIDASN":
		return extGens[14].f(g).Encode()
	case "x509.QCStatementsASN.list":
		return extGens[15].f(g).Encode()
	case "x509.QCStatementASN":
		return der.Seq(der.OID(0, 4, 0, 1862, 1, 3), der.Int(int64(g.n(30)))).Encode()
	case "[]x509.NoticeNumber":
		return der.Seq(der.Int(1), der.Int(int64(g.n(50)))).Encode()
	case "zS1":
		return s1().Encode()
	case "zS2":
		return s2().Encode()
	case "zS3":
		k := []*der.Node{der.Bits(g.bytes(2), g.n(8)&^7), der.Enum(int64(g.n(4)))}
		if g.chance(50) {
			k = append(k, der.CtxPrim(1, nil))
		}
		k = append(k, der.Set(s1(), s1()))
		if g.chance(50) {
			k = append(k, str())
		}
		return der.Seq(k...).Encode()
	case "zS4":
		k := []*der.Node{bigv(), der.Int(g.r.Int64N(1 << 50)), der.Prim(der.ClassApplication, 3, der.IntBytes(big.NewInt(int64(g.n(70000))))), der.Bool(g.chance(50)),
			der.Printable("Printable 1"), der.IA5("ia5@example")}
		if g.chance(50) {
			k = append(k, der.Str(der.TagNumericString, "0123 4"))
		}
		return der.Seq(k...).Encode()
	case "zS5":
		k := []*der.Node{der.Explicit(2, s2()), der.Seq(der.Octets(g.bytes(3)), der.Octets(nil))}
		if g.chance(50) {
			k = append(k, der.Seq(der.Int(1), der.UTF8("x")))
		}
		return der.Seq(k...).Encode()
	case "[]zS1-set":
		return der.Set(s1(), s1(), s1()).Encode()
	}
	return nil
}

// ig0subtree: a random element of a generated certificate.
func ig0subtree(g *gen) []byte {
	b, _, _ := g.cert()
	root, _, err := der.Parse(b)
	if err != nil {
		return b
	}
	var nodes []*der.Node
	root.Walk(func(n, _ *der.Node, _, _ int) { nodes = append(nodes, n) })
	return nodes[g.n(len(nodes))].Encode()
}

func runC20(c *core.Ctx) {
	startFlag := zasn1.AllowPermissiveParsing
	defer func() {
		if zasn1.AllowPermissiveParsing != startFlag {
			zasn1.AllowPermissiveParsing = startFlag
		}
	}()
	r := &c20Runner{c: c}
	if len(c.Replay) > 0 {
		var in c20Input
		if json.Unmarshal(c.Replay, &in) == nil && in.Hex != "" {
			raw, _ := hex.DecodeString(in.Hex)
			if in.Target == "x509.ParseCertificate" {
				r.certificate(raw, "replay", c.OnlyCase)
			} else {
				only := ""
				if len(in.Target) > len("asn1.Unmarshal()") {
					only = in.Target[len("asn1.Unmarshal(") : len(in.Target)-1]
				}
				r.unmarshalAll(raw, "replay", c.OnlyCase, only)
			}
			return
		}
	}
	ig := newInputGen(c.Rng)
	g := ig.g
	n := c.PerShard(c.Pick(120000, 4000000))
	seeds := ig.fams["cert"]
	for i := 0; i < n; i++ {
		id := fmt.Sprintf("s%d-%d", c.Shard, i)
		switch k := c.Rng.IntN(100); {
		case k < 14: // generated certificates
			raw, _, tr := g.cert()
			r.certificate(raw, tr.Desc, id)
		case k < 34: // mutated certificates
			raw, desc := ig.mutateDER(ig.pickSeed("cert"), "cert")
			r.certificate(raw, desc, id)
		case k < 35:
			r.certificate(seeds[(i*c.NShards+c.Shard)%len(seeds)], "seed", id)
		case k < 36:
			raw, desc := g.directedNonCanonical()
			r.certificate(raw, desc, id)
		case k < 42: // other DER families: counted only, plus their wire structs through asn1.Unmarshal
			fam := []string{"csr", "spki", "crl"}[c.Rng.IntN(3)]
			raw := ig.pickSeed(fam)
			desc := "seed:" + fam
			if c.Rng.IntN(4) != 0 {
				raw, desc = ig.mutateDER(raw, fam)
			}
			r.others(fam, raw)
			if fam == "crl" {
				r.unmarshalAll(raw, desc, id, "pkix.CertificateList")
			} else {
				r.unmarshalAll(raw, desc, id, "RawValue")
			}
		case k < 60: // sub-elements of seeds against the whole menu
			raw := ig.subtree()
			desc := "subtree"
			if c.Rng.IntN(3) == 0 {
				raw, desc = ig.mutateDER(raw, "asn1")
			}
			r.unmarshalAll(raw, desc, id, "")
		default: // valid encodings per target, and single mutations of them
			t := zasn1Targets[c.Rng.IntN(len(zasn1Targets))]
			raw := g.validEncoding(t.name)
			if raw == nil {
				raw = ig.subtree()
			}
			desc := "valid:" + t.name
			if c.Rng.IntN(2) == 0 {
				root, rest, err := der.Parse(raw)
				if err == nil {
					m := &der.Mutator{Rng: c.Rng, Donors: ig.donors}
					d := ""
					for try := 0; d == "" && try < 6; try++ {
						d = m.Mutate(root)
					}
					raw = append(root.Encode(), rest...)
					desc += "+" + d
				}
			}
			if c.Rng.IntN(3) == 0 {
				r.unmarshalAll(raw, desc, id, "") // cross-type: the encoding of one type against every target
			} else {
				r.unmarshalAll(raw, desc, id, t.name)
			}
		}
	}
}

// directedNonCanonical builds a certificate with one non-minimal length inside a value that the
// certificate-level strict decode treats as opaque bytes (extension value, signature bits, algorithm
// parameters) and that a tolerant inner decode reads later: the places where strict mode can accept
// the certificate while ignoring a sub-structure that permissive mode decodes.
func (g *gen) directedNonCanonical() ([]byte, string) {
	_, fast := signers()
	pick := func(kind string) *signer {
		for {
			s := fast[g.n(len(fast))]
			if s.kind == kind && (kind != "rsa" || s.rsa.N.BitLen() >= 1024) {
				return s
			}
		}
	}
	name := g.name()
	p := &certParts{Version: 2, Serial: new(big.Int).SetBytes(append([]byte{1}, g.bytes(8)...)), Issuer: name, Subject: name.Clone(),
		NotBefore: der.Time(g.genTime()), NotAfter: der.Time(g.genTime())}
	kind := g.n(4)
	var sg *signer
	switch kind {
	case 2:
		sg = pick("rsa")
	case 3:
		sg = pick([]string{"ec", "dsa"}[g.n(2)])
	default:
		sg = fast[g.n(len(fast))]
	}
	p.SPKI = sg.spki()
	p.SigAlg, p.signFn = sg.sign(g.r)
	ku := extGens[0].f(g)
	bc := der.Seq(der.Bool(true), der.Int(int64(g.n(4))))
	desc := ""
	switch kind {
	case 0:
		ku.LenOctets = 1 + g.n(2)
		desc = "directed:keyUsage-bitstring-nonminimal-length"
	case 1:
		bc.LenOctets = 1 + g.n(2)
		desc = "directed:basicConstraints-sequence-nonminimal-length"
	case 2:
		h := []crypto.Hash{crypto.SHA256, crypto.SHA384, crypto.SHA512}[g.n(3)]
		params := pssParams(h)
		params.Children[g.n(3)].LenOctets = 1
		p.SigAlg = der.Seq(der.OID(oidRSAPSS...), params)
		salt := g.bytes(h.Size())
		key := sg.rsa
		p.signFn = func(tbs []byte) []byte { return rsaPrivOp(key, emsaPSS(h, hashOf(h, tbs), salt, key.N.BitLen()-1)) }
		desc = "directed:rsa-pss-parameters-inner-nonminimal-length"
	case 3:
		inner := p.signFn
		p.signFn = func(tbs []byte) []byte {
			sig := inner(tbs)
			n, _, err := der.Parse(sig)
			if err != nil {
				return sig
			}
			if g.n(2) == 0 || len(n.Children) == 0 {
				n.LenOctets = 1 + g.n(2)
			} else {
				n.Children[0].LenOctets = 1
			}
			return n.Encode()
		}
		desc = "directed:" + sg.kind + "-signature-nonminimal-length"
	}
	p.Exts = []*der.Node{extension([]int{2, 5, 29, 15}, true, ku), extension([]int{2, 5, 29, 19}, true, bc)}
	return p.assemble(), desc
}
