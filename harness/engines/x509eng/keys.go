package x509eng

import (
	"regexp"
	"strings"

	"verifharness/internal/core"
)

var (
	reFullFrame = regexp.MustCompile(`(?m)^github\.com/zmap/zcrypto/(\S+?)\((?:0x|\{|\)|\.\.\.|[a-z0-9"?])`)
	reNumber    = regexp.MustCompile(`\b(0x[0-9a-fA-F]+|\d+)\b`)
)

// panicKey is the stable witness key of a recovered panic: value class @ first
// zcrypto frame, with the method receiver kept (core.Classify cuts the frame at
// the first parenthesis, which loses "(*T).Method").
func panicKey(pi *core.PanicInfo) string {
	val := pi.Value
	if i := strings.IndexByte(val, '\n'); i >= 0 {
		val = val[:i]
	}
	val = reNumber.ReplaceAllString(val, "N")
	if i := strings.Index(val, "out of range"); i >= 0 {
		val = val[:i+len("out of range")]
	}
	val = strings.ReplaceAll(val, " [N] with length N", "")
	val = strings.ReplaceAll(val, " [N:N]", "")
	val = strings.ReplaceAll(val, " [:N] with capacity N", "")
	val = strings.ReplaceAll(val, " [:N] with length N", "")
	val = strings.ReplaceAll(val, " [N:]", "")
	if len(val) > 100 {
		val = val[:100]
	}
	frame := "?"
	if m := reFullFrame.FindStringSubmatch(pi.Stack); m != nil {
		frame = m[1]
	}
	return "panic:" + strings.TrimPrefix(val, "runtime error: ") + "@" + frame
}
