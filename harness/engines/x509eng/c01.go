// Package x509eng holds the monitors of C01 (parsers are total), C02
// (operations on parsed certificates are total, JSON deterministic), C06
// (certificate metadata is a faithful function of the DER bytes) and C20
// (permissive parsing is a conservative extension of strict parsing).
package x509eng

import (
	"encoding/hex"
	"encoding/json"
	"fmt"
	"math/rand/v2"
	"regexp"
	"runtime"
	"strings"
	"syscall"
	"time"

	zasn1 "github.com/zmap/zcrypto/encoding/asn1"

	"verifharness/internal/core"
	"verifharness/internal/der"
)

func init() {
	core.RegisterMeta("C01", core.Meta{
		Rule: "inputs = seeds (every PEM/DER/hex object in /repo sources and testdata, recorded TLS flights, CRLSet/OneCRL/SST samples, objects made with zcrypto's Create* APIs and " +
			"certificates built by an independent DER writer from the fixed key pool) with 1-4 stacked structure-aware DER mutations (length-consistent re-encoding, field-aware SPKI / issuer:=subject / " +
			"signature-algorithm / extension edits, non-canonical encodings) or format-aware mutations (CRLSet, OneCRL JSON, SST, TLS vectors, PEM headers), plus random strings; every input is run " +
			"strict then permissive through every decoder of its family under a panic / hang / allocation guard, with the parsed key used for the self checks; " +
			"non-trivial = some decoder accepted the input or the independent reader found a well-formed outer TLV / header; distinct by hash of (family, bytes)",
		MinNontrivial:         40000,
		MinNontrivialThorough: 800000,
		Shards:                16,
		GoMaxProcs:            1,
		Assumptions: []string{
			"allocation rule: delta TotalAlloc of one decoder call > 64 MiB + 4096 x len(input) (single worker per child, GOMAXPROCS=1)",
			"hang rule: the decoders of one input have used more than 20 s + 2 ms/byte of process CPU time (not wall clock) and the worker is still inside zcrypto frames",
			"children run under RLIMIT_AS 6 GiB so a runaway allocation kills the child (input already on disk), not the machine",
			"TLS message unmarshal reached through the accessor hook tls/zz_verif_parse.go",
		},
		ChildTimeoutQuick:    900,
		ChildTimeoutThorough: 3 * 3600,
	}, runC01)
}

type c01Input struct {
	Fam  string `json:"fam"`
	Hex  string `json:"hex"`
	Desc string `json:"desc,omitempty"`
	Prog []int  `json:"prog,omitempty"`
}

var reZFrame = regexp.MustCompile(`(?m)^(github\.com/zmap/zcrypto[^\s(]*)`)

type batchResult struct {
	Hang     bool
	Stalled  bool // no hang by CPU time, but the wall-clock cap was reached (machine stalled): inconclusive
	HangDump string
	Alloc    uint64
	CPU      time.Duration
	Wall     time.Duration
}

func processCPU() time.Duration {
	var ru syscall.Rusage
	if syscall.Getrusage(syscall.RUSAGE_SELF, &ru) != nil {
		return 0
	}
	return time.Duration(ru.Utime.Nano() + ru.Stime.Nano())
}

// guardBatch runs f on a worker goroutine, measuring allocation. The step
// budget is CPU time of this (single-threaded) process, not wall-clock time: a
// parser that does not terminate burns CPU, while a machine that is merely
// overloaded does not make the process consume more of it. A worker that has
// used more than the budget and is still going is a hang (it cannot be
// cancelled: the caller ends the child). A wall-clock cap (60 x budget) catches
// the theoretical blocked-without-CPU case and is reported as inconclusive.
func guardBatch(budget time.Duration, f func()) batchResult {
	var res batchResult
	var before, after runtime.MemStats
	runtime.ReadMemStats(&before)
	cpu0, t0 := processCPU(), time.Now()
	done := make(chan struct{})
	go func() { defer close(done); f() }()
	tick := time.NewTicker(200 * time.Millisecond)
	defer tick.Stop()
loop:
	for {
		select {
		case <-done:
			break loop
		case <-tick.C:
			res.CPU, res.Wall = processCPU()-cpu0, time.Since(t0)
			if res.CPU > budget || res.Wall > 60*budget {
				buf := make([]byte, 1<<20)
				n := runtime.Stack(buf, true)
				res.HangDump = string(buf[:n])
				if res.CPU > budget {
					res.Hang = true
				} else {
					res.Stalled = true
				}
				return res
			}
		}
	}
	res.CPU, res.Wall = processCPU()-cpu0, time.Since(t0)
	runtime.ReadMemStats(&after)
	res.Alloc = after.TotalAlloc - before.TotalAlloc
	return res
}

// hangFrame finds the worker goroutine in a full dump and returns its outermost zcrypto frame
// (the innermost one depends on where inside a loop the dump was taken and would not be a stable key).
func hangFrame(dump string) string {
	for _, g := range strings.Split(dump, "\n\n") {
		if !strings.Contains(g, "core.Guard") && !strings.Contains(g, "guardBatch") {
			continue
		}
		if m := reZFrame.FindAllStringSubmatch(g, -1); len(m) > 0 {
			f := strings.TrimPrefix(m[len(m)-1][1], "github.com/zmap/zcrypto/")
			return strings.TrimSuffix(f, ".")
		}
	}
	return ""
}

type c01Runner struct {
	c        *core.Ctx
	z        *zObjects
	ents     map[string][]entry
	asn1Ents []entry
	allFams  []string
	dead     bool // a hang was reported: the child must stop
	accepts  map[string]int
	calls    int
}

func newC01Runner(c *core.Ctx) *c01Runner {
	r := &c01Runner{c: c, z: zSeeds(), ents: map[string][]entry{}, accepts: map[string]int{}}
	r.allFams = []string{"cert", "csr", "crl", "spki", "pkcs1priv", "pkcs1pub", "pkcs8", "ecpriv", "ocspreq", "ocspresp",
		"sct", "leaf", "chain", "digsig", "crlset", "onecrl", "sst", "tlsmsg", "pem"}
	for _, f := range r.allFams {
		r.ents[f] = entriesFor(f, r.z)
	}
	r.asn1Ents = asn1Entries()
	return r
}

// entriesOf lists the decoders run for an input.
func (r *c01Runner) entriesOf(in c01Input) []entry {
	switch in.Fam {
	case "asn1":
		return r.asn1Ents
	case "cryptobyte":
		prog := in.Prog
		return []entry{{"cryptobyte.program", func(b []byte) bool { return runCryptobyteProgram(b, prog) }}}
	case "random":
		var es []entry
		for _, f := range r.allFams {
			if f == "chain" || f == "leaf" {
				continue // their 3-byte length prefixes make random bytes cost 8 MiB of zeroing on average; they get random inputs of their own
			}
			es = append(es, r.ents[f]...)
		}
		es = append(es, r.asn1Ents...)
		prog := in.Prog
		es = append(es, entry{"cryptobyte.program", func(b []byte) bool { return runCryptobyteProgram(b, prog) }})
		return es
	}
	if keyFamilies[in.Fam] { // a key of one format goes through every key parser of both packages
		var es []entry
		for _, f := range []string{"spki", "pkcs1priv", "pkcs1pub", "pkcs8", "ecpriv"} {
			es = append(es, r.ents[f]...)
		}
		return es
	}
	return r.ents[in.Fam]
}

// runCase executes one input strict then permissive. It returns whether any decoder accepted it.
func (r *c01Runner) runCase(id string, in c01Input, data []byte) (accepted bool) {
	c := r.c
	es := r.entriesOf(in)
	saved := zasn1.AllowPermissiveParsing
	defer func() { zasn1.AllowPermissiveParsing = saved }()
	budget := 20*time.Second + 2*time.Duration(len(data))*time.Millisecond
	for _, mode := range []bool{false, true} {
		modeName := "strict"
		if mode {
			modeName = "permissive"
		}
		zasn1.AllowPermissiveParsing = mode
		var panics []struct {
			name string
			pi   *core.PanicInfo
		}
		acc := make([]bool, len(es))
		cur := -1
		batch := func() {
			for i, e := range es {
				cur = i
				buf := append([]byte(nil), data...) // decoders must not see each other's writes
				if pi := core.Guard(func() { acc[i] = e.run(buf) }); pi != nil {
					panics = append(panics, struct {
						name string
						pi   *core.PanicInfo
					}{e.name, pi})
				}
			}
		}
		res := guardBatch(budget, batch)
		c.Max("batch_cpu_ms", int(res.CPU/time.Millisecond))
		c.Max("batch_wall_ms", int(res.Wall/time.Millisecond))
		if res.Stalled {
			c.Note("case %s: wall-clock cap reached with only %v of CPU used (machine stalled); shard stopped", id, res.CPU)
			c.Count("stalled_without_cpu", 1)
			r.dead = true
			return accepted
		}
		if res.Hang {
			name := "?"
			if cur >= 0 && cur < len(es) {
				name = es[cur].name
			}
			frame := hangFrame(res.HangDump)
			if frame != "" {
				c.Violation("hang:"+name+"@"+frame, fmt.Sprintf("decoder %s (%s mode) still running after %v of CPU time (wall %v)\n%s", name, modeName, res.CPU, res.Wall, res.HangDump), id, in)
			} else {
				c.Note("case %s: budget exceeded in %s but the worker was not inside zcrypto frames (inconclusive)", id, name)
				c.Count("hang_budget_exceeded_outside_zcrypto", 1)
			}
			r.dead = true
			return accepted
		}
		r.calls += len(es)
		for _, p := range panics {
			c.Violation(panicKey(p.pi), fmt.Sprintf("decoder %s, %s mode, input family %s (%s)\npanic: %s\n%s", p.name, modeName, in.Fam, in.Desc, p.pi.Value, p.pi.Stack), id, in)
		}
		if res.Alloc > core.AllocLimit(len(data)) {
			// attribute: re-run each decoder alone with measurement
			found := false
			for _, e := range es {
				buf := append([]byte(nil), data...)
				one := guardBatch(budget, func() { core.Guard(func() { e.run(buf) }) })
				if one.Hang || one.Stalled {
					r.dead = true
					return accepted
				}
				if one.Alloc > core.AllocLimit(len(data)) {
					found = true
					c.Violation("alloc:"+e.name, fmt.Sprintf("decoder %s (%s mode) allocated %d bytes for a %d-byte input (limit %d)", e.name, modeName, one.Alloc, len(data), core.AllocLimit(len(data))), id, in)
				}
			}
			if !found {
				c.Count("alloc_batch_over_limit_but_no_single_call", 1)
			}
		}
		for i, a := range acc {
			if a {
				accepted = true
				r.accepts[es[i].name+"/"+modeName]++
			}
		}
	}
	return accepted
}

// outerOK is the independent "got past the outer header" test of the non-triviality rule.
func outerOK(fam string, data []byte) bool {
	switch fam {
	case "crlset":
		if len(data) < 2 {
			return false
		}
		hl := int(data[0]) | int(data[1])<<8
		return len(data) >= 2+hl && hl > 0 && json.Valid(data[2:2+hl])
	case "onecrl":
		return json.Valid(data)
	case "sst":
		return len(data) >= 8 && string(data[4:8]) == "CERT"
	case "tlsmsg":
		return len(data) >= 4 && int(data[1])<<16|int(data[2])<<8|int(data[3]) == len(data)-4
	case "pem":
		return strings.Contains(string(data), "-----BEGIN ")
	case "sct", "leaf", "digsig":
		return len(data) >= 4
	case "chain":
		return len(data) >= 3 && int(data[0])<<16|int(data[1])<<8|int(data[2]) <= len(data)-3
	case "cryptobyte", "random":
		return false
	}
	n, rest, err := der.Parse(data)
	return err == nil && len(rest) == 0 && n.Constructed && n.Children != nil
}

func setAddressSpaceLimit(bytes uint64) {
	var lim syscall.Rlimit
	if syscall.Getrlimit(syscall.RLIMIT_AS, &lim) == nil {
		if lim.Max < bytes {
			bytes = lim.Max
		}
		lim.Cur = bytes
		syscall.Setrlimit(syscall.RLIMIT_AS, &lim)
	}
}

type famWeight struct {
	fam string
	w   int
}

// weights ∝ code size of the decoders behind the family.
var c01Weights = []famWeight{
	{"cert", 102}, {"csr", 12}, {"crl", 18}, {"spki", 12}, {"pkcs1priv", 6}, {"pkcs1pub", 3}, {"pkcs8", 9}, {"ecpriv", 6},
	{"ocspreq", 6}, {"ocspresp", 18}, {"asn1", 24}, {"cryptobyte", 12}, {"sct", 4}, {"digsig", 3},
	// ct chain / leaf readers allocate up to 16 MiB per 3-byte length prefix before reading (legitimate, below the
	// allocation rule, but ~4 ms of page zeroing per call): sampled thinly
	{"leaf", 1}, {"chain", 1},
	{"crlset", 9}, {"onecrl", 9}, {"sst", 9}, {"tlsmsg", 24}, {"pem", 6}, {"random", 2},
}

func pickFam(r *rand.Rand, ws []famWeight) string {
	t := 0
	for _, w := range ws {
		t += w.w
	}
	x := r.IntN(t)
	for _, w := range ws {
		if x < w.w {
			return w.fam
		}
		x -= w.w
	}
	return ws[0].fam
}

// nextInput produces the i-th input of the shard.
func c01NextInput(ig *inputGen) (c01Input, []byte) {
	r := ig.r
	fam := pickFam(r, c01Weights)
	var data []byte
	desc := ""
	var prog []int
	mkProg := func() []int {
		p := make([]int, 2*(1+r.IntN(12)))
		for i := range p {
			p[i] = r.IntN(1 << 16)
		}
		return p
	}
	switch fam {
	case "asn1":
		data = ig.subtree()
		if r.IntN(3) != 0 {
			data, desc = ig.mutateDER(data, "asn1")
		}
	case "cryptobyte":
		switch r.IntN(3) {
		case 0:
			data = ig.subtree()
		case 1:
			data = ig.tlsSeed()
		default:
			data = ig.g.bytes(r.IntN(48))
		}
		if r.IntN(2) == 0 {
			data = der.MutateBytes(r, data)
		}
		prog = mkProg()
	case "random":
		data = ig.g.bytes(r.IntN(65))
		if r.IntN(3) == 0 && len(data) >= 2 { // plausible DER/TLS header in front of the noise
			data[0] = []byte{0x30, 0x31, 0x16, 0x01, 0x02, 0x0b, 0xa0, 0x04}[r.IntN(8)]
			data[1] = byte(len(data) - 2)
		}
		prog = mkProg()
	case "sct", "leaf", "chain", "digsig":
		data = ig.ctSeed(fam)
		if r.IntN(10) != 0 {
			data, desc = ig.mutateBin(data)
		}
		if r.IntN(8) == 0 {
			data, desc = ig.g.bytes(r.IntN(65)), "random"
		}
		if (fam == "leaf" || fam == "chain") && r.IntN(10) != 0 {
			// keep most 24-bit length prefixes below 64 KiB: the readers allocate the announced size up front
			// (legitimate, 16 MiB at most) and zeroing it dominates the run otherwise
			off := 0
			if fam == "leaf" {
				off = 12
			}
			if len(data) > off && data[off] != 0 {
				data = append([]byte(nil), data...)
				data[off] = 0
				desc += "+len<64K"
			}
		}
	case "crlset":
		data, desc = ig.crlSetInput()
	case "onecrl":
		data, desc = ig.oneCRLInput()
	case "sst":
		data, desc = ig.sstInput()
	case "tlsmsg":
		data, desc = ig.tlsInput()
	case "pem":
		data, desc = ig.pemInput()
	default:
		seed := ig.pickSeed(fam)
		if r.IntN(25) == 0 {
			data, desc = seed, "seed"
		} else {
			data, desc = ig.mutateDER(seed, fam)
		}
	}
	return c01Input{Fam: fam, Hex: hex.EncodeToString(data), Desc: desc, Prog: prog}, data
}

func runC01(c *core.Ctx) {
	setAddressSpaceLimit(6 << 30)
	startFlag := zasn1.AllowPermissiveParsing
	runner := newC01Runner(c)
	defer func() {
		if zasn1.AllowPermissiveParsing != startFlag {
			c.Violation("harness:permissive-flag-not-restored", "", "", nil)
			zasn1.AllowPermissiveParsing = startFlag
		}
	}()
	if len(c.Replay) > 0 {
		var in c01Input
		if err := json.Unmarshal(c.Replay, &in); err == nil && in.Fam != "" {
			data, _ := hex.DecodeString(in.Hex)
			id := c.OnlyCase
			if id == "" {
				id = "replay"
			}
			c.Begin(id, in)
			runner.runCase(id, in, data)
			c.End(id)
			c.Eval(1)
			return
		}
	}
	ig := newInputGen(c.Rng)
	co := ig.co
	if c.Shard == 0 {
		c.Count("seeds_certificates", len(ig.fams["cert"]))
		c.Count("seeds_csr", len(ig.fams["csr"]))
		c.Count("seeds_crl", len(ig.fams["crl"]))
		c.Count("seeds_keys", len(ig.fams["spki"])+len(ig.fams["pkcs1priv"])+len(ig.fams["pkcs1pub"])+len(ig.fams["pkcs8"])+len(ig.fams["ecpriv"]))
		c.Count("seeds_ocsp", len(ig.fams["ocspreq"])+len(ig.fams["ocspresp"]))
		c.Count("seeds_tls_messages", len(co.TLSMsgs))
		c.Count("seeds_other_der", len(co.OtherDER))
	}
	// pass 1: every seed unmutated (split over shards)
	idx := 0
	runOne := func(id string, in c01Input, data []byte) bool {
		if len(data) > 4<<20 {
			return true
		}
		c.Begin(id, in)
		acc := runner.runCase(id, in, data)
		c.End(id)
		c.Eval(1)
		c.Count("inputs_"+in.Fam, 1)
		if acc {
			c.Count("accepted_by_some_decoder", 1)
		}
		if acc || outerOK(in.Fam, data) {
			c.Nontrivial(in.Fam, data)
		}
		if c.WantSample() && acc && in.Desc != "seed" && in.Desc != "" {
			c.Sample(map[string]string{"family": in.Fam, "mutations": in.Desc, "input": core.Hex(data)})
		}
		return !runner.dead
	}
	seedPass := func(fam string, seeds [][]byte) bool {
		for _, s := range seeds {
			idx++
			if idx%c.NShards != c.Shard {
				continue
			}
			if !runOne(fmt.Sprintf("seed-%s-%d", fam, idx), c01Input{Fam: fam, Hex: hex.EncodeToString(s), Desc: "seed"}, s) {
				return false
			}
		}
		return true
	}
	ok := true
	for _, f := range derFamilies {
		ok = ok && seedPass(f, ig.fams[f])
	}
	ok = ok && seedPass("crl", co.CRLs) && seedPass("crlset", co.CRLSets) && seedPass("onecrl", co.OneCRLs) && seedPass("sst", co.SSTs) && seedPass("pem", co.PEMTexts)
	for _, m := range co.TLSMsgs {
		idx++
		if ok && idx%c.NShards == c.Shard {
			ok = runOne(fmt.Sprintf("seed-tls-%d", idx), c01Input{Fam: "tlsmsg", Hex: hex.EncodeToString(m.Data), Desc: "seed"}, m.Data)
		}
	}
	// pass 2: mutated inputs
	n := c.PerShard(c.Pick(c01QuickN, 4000000))
	for i := 0; ok && i < n; i++ {
		in, data := c01NextInput(ig)
		id := fmt.Sprintf("s%d-%d", c.Shard, i)
		if c.OnlyCase != "" && c.OnlyCase != id {
			continue
		}
		ok = runOne(id, in, data)
	}
	c.Count("decoder_calls", runner.calls)
	for k, v := range runner.accepts {
		c.Count("accept:"+k, v)
	}
}

// c01QuickN is the number of mutated inputs of the quick tier (all shards together).
var c01QuickN = 120000
