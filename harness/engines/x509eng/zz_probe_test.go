package x509eng

import (
	"encoding/hex"
	"encoding/json"
	"os"
	"testing"
	"fmt"

	zx509 "github.com/zmap/zcrypto/x509"
	"verifharness/internal/der"
)

func dump(n *der.Node, ind string) {
	q := ""
	if n.LenOctets != 0 || n.Indef || n.HighTag { q = fmt.Sprintf(" NONCANON(lenoct=%d high=%v)", n.LenOctets, n.HighTag) }
	if n.HasKids() {
		fmt.Printf("%s[%d/%d c=%v encap=%v]%s\n", ind, n.Class, n.Tag, n.Constructed, n.Encap, q)
		for _, k := range n.Children { dump(k, ind+"  ") }
	} else {
		c := n.Content
		if len(c) > 40 { c = c[:40] }
		fmt.Printf("%s[%d/%d c=%v] %x%s\n", ind, n.Class, n.Tag, n.Constructed, c, q)
	}
}

func TestWitness(t *testing.T) {
	for _, f := range []string{"/tmp/h-x509dev/logs/w.json"} {
		b, _ := os.ReadFile(f)
		var r struct{ Input struct{ Hex string } }
		json.Unmarshal(b, &r)
		raw, _ := hex.DecodeString(r.Input.Hex)
		n, _, _ := der.Parse(raw)
		dump(n, "")
		cs, e1 := zx509.ParseCertificate(raw)
		fmt.Println(e1, cs.SelfSigned, cs.SignatureAlgorithm, cs.PublicKeyAlgorithm)
		fmt.Println(cs.CheckSignature(cs.SignatureAlgorithm, cs.RawTBSCertificate, cs.Signature))
	}
}
