package x509eng

import (
	"bytes"
	"math/rand/v2"
	"testing"

	zx509 "github.com/zmap/zcrypto/x509"
	"time"
	"verifharness/internal/core"
	"verifharness/internal/der"
)

func TestProbe(t *testing.T) {
	t0 := time.Now()
	co := loadCorpus()
	t.Logf("corpus %v", time.Since(t0))
	t.Logf("files=%d certs=%d csr=%d crl=%d spki=%d p1=%d p1pub=%d p8=%d ec=%d other=%d pem=%d enc=%d crlset=%d onecrl=%d sst=%d tls=%d",
		co.Files, len(co.Certs), len(co.CSRs), len(co.CRLs), len(co.SPKIs), len(co.PKCS1Priv), len(co.PKCS1Pub), len(co.PKCS8), len(co.ECPriv), len(co.OtherDER), len(co.PEMTexts), len(co.EncPEM), len(co.CRLSets), len(co.OneCRLs), len(co.SSTs), len(co.TLSMsgs))
	t0 = time.Now()
	z := zSeeds()
	t.Logf("zseeds %v", time.Since(t0))
	t.Logf("z: certs=%d csr=%d crl=%d ocspreq=%d ocspresp=%d issuers=%d enc=%d", len(z.Certs), len(z.CSRs), len(z.CRLs), len(z.OCSPReq), len(z.OCSPResp), len(z.Issuers), len(z.EncPEM))
	bad := 0
	all := append(append([][]byte{}, co.Certs...), co.OtherDER...)
	all = append(all, co.CRLs...)
	all = append(all, z.Certs...)
	for _, b := range all {
		n, rest, err := der.Parse(b)
		if err != nil {
			bad++
			t.Logf("parse err %v len=%d", err, len(b))
			continue
		}
		if !bytes.Equal(append(n.Encode(), rest...), b) {
			bad++
			t.Logf("roundtrip mismatch len=%d", len(b))
		}
	}
	t.Logf("roundtrip bad=%d of %d", bad, len(all))
	typ := map[byte]int{}
	for _, m := range co.TLSMsgs {
		typ[m.Typ]++
	}
	t.Logf("tls types %v", typ)
	g := &gen{r: rand.New(rand.NewPCG(1, 2))}
	acc, selfs := 0, 0
	errs := map[string]int{}
	for i := 0; i < 2000; i++ {
		b, _, tr := g.cert()
		var c *zx509.Certificate
		var err error
		if pi := core.Guard(func() { c, err = zx509.ParseCertificate(b) }); pi != nil {
			errs[pi.Key]++
			continue
		}
		if err == nil {
			acc++
			if c.SelfSigned {
				selfs++
			}
			if tr.IssuerEqSubject && tr.SignedByOwnKey && !tr.SigCorrupted && !c.SelfSigned {
				t.Logf("expected self-signed: %s alg=%v", tr.Desc, c.SignatureAlgorithm)
			}
		} else {
			e := err.Error()
			if len(e) > 60 {
				e = e[:60]
			}
			errs[e]++
		}
	}
	t.Logf("generated accepted %d/2000 selfsigned=%d errs=%v", acc, selfs, errs)
}
