package x509eng

import (
	"encoding/hex"
	"encoding/json"
	"os"
	"testing"
	"fmt"

	zx509 "github.com/zmap/zcrypto/x509"
	"verifharness/internal/der"
)

func dump(n *der.Node, ind string, depth int) {
	if depth > 3 { return }
	q := fmt.Sprintf(" @%d-%d", n.Start, n.End)
	if n.LenOctets != 0 || n.Indef || n.HighTag { q += fmt.Sprintf(" NONCANON(lenoct=%d high=%v indef=%v)", n.LenOctets, n.HighTag, n.Indef) }
	if n.HasKids() {
		fmt.Printf("%s[%d/%d c=%v encap=%v]%s\n", ind, n.Class, n.Tag, n.Constructed, n.Encap, q)
		for _, k := range n.Children { dump(k, ind+"  ", depth+1) }
	} else {
		c := n.Content
		if len(c) > 24 { c = c[:24] }
		fmt.Printf("%s[%d/%d c=%v] %x%s\n", ind, n.Class, n.Tag, n.Constructed, c, q)
	}
}

func TestWitness(t *testing.T) {
	b, _ := os.ReadFile("/tmp/h-x509dev/out/evidence/replay/C06-thorough-1.json")
	var r struct{ Input struct{ Hex string } }
	json.Unmarshal(b, &r)
	raw, _ := hex.DecodeString(r.Input.Hex)
	fmt.Printf("%x\n", raw[:40])
	n, _, _ := der.Parse(raw)
	dump(n, "", 0)
	cs, e1 := zx509.ParseCertificate(raw)
	fmt.Println(e1, cs.Version, cs.SerialNumber)
}
