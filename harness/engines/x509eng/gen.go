package x509eng

// Certificate generator built on the independent DER writer: "unusual but
// valid" certificates carrying every extension zcrypto decodes, in every shape
// its ASN.1 allows (DESIGN.md §4 C02), signed with pool keys through Go's
// standard library.

import (
	"crypto/ed25519"
	"encoding/binary"
	"math/big"
	"math/rand/v2"
	"sync"
	"time"

	"verifharness/internal/der"
	"verifharness/internal/keys"
)

var (
	signersOnce sync.Once
	allSigners  []*signer
	fastSigners []*signer // cheap to sign and verify with: RSA <= 2048, EC, Ed25519, DSA 1024
)

func signers() ([]*signer, []*signer) {
	signersOnce.Do(func() {
		p := keys.Get()
		for i, k := range p.RSA {
			if k.Bits < 1024 || len(k.Primes) != 2 {
				continue
			}
			s := &signer{kind: "rsa", rsa: k.Std(), name: "rsa" + itoa(k.Bits) + "#" + itoa(i)}
			allSigners = append(allSigners, s)
			if k.Bits <= 2048 {
				fastSigners = append(fastSigners, s)
			}
		}
		for i, k := range p.EC {
			s := &signer{kind: "ec", ec: k.Priv, name: "ec" + k.Curve + "#" + itoa(i)}
			allSigners = append(allSigners, s)
			fastSigners = append(fastSigners, s)
		}
		for i, k := range p.Ed {
			s := &signer{kind: "ed", ed: k, name: "ed#" + itoa(i)}
			allSigners = append(allSigners, s)
			fastSigners = append(fastSigners, s, s) // weight Ed25519 up: it is the shortest path to the key-length checks
		}
		for i, k := range p.DSA {
			s := &signer{kind: "dsa", dsa: k.Priv, name: "dsa" + itoa(k.L) + "#" + itoa(i)}
			allSigners = append(allSigners, s)
			if k.L <= 1024 {
				fastSigners = append(fastSigners, s)
			}
		}
	})
	return allSigners, fastSigners
}

func itoa(i int) string {
	if i == 0 {
		return "0"
	}
	neg := i < 0
	if neg {
		i = -i
	}
	var b [20]byte
	p := len(b)
	for i > 0 {
		p--
		b[p] = byte('0' + i%10)
		i /= 10
	}
	if neg {
		p--
		b[p] = '-'
	}
	return string(b[p:])
}

type gen struct {
	r *rand.Rand
}

func (g *gen) n(k int) int             { return g.r.IntN(k) }
func (g *gen) chance(p int) bool       { return g.r.IntN(100) < p }
func (g *gen) pickS(s []string) string { return s[g.r.IntN(len(s))] }
func (g *gen) bytes(n int) []byte {
	b := make([]byte, n)
	for i := range b {
		b[i] = byte(g.r.UintN(256))
	}
	return b
}

var (
	hostPool = []string{"example.com", "www.example.com", "*.example.com", "a.b.c.example.org", "xn--bcher-kva.example", "localhost",
		"EXAMPLE.com", "example.com.", "*.com", "foo.*.example.com", "1.2.3.4", "test.onion", "ex ample.com", "", "*", "a", "*.a.b",
		"very-long-label-aaaaaaaaaaaaaaaaaaaaaaaaaaaaaaaaaaaaaaaaaaaaaaaaaaaaaaaaaaaaaaaaaa.example.com", "münchen.example", ".example.com", "ex_ample.com"}
	orgPool  = []string{"Example Org", "Persona Not Validated", "ACME, Inc.", "Ünicode GmbH", "A&B", "Org*", "", "Domain Control Validated"}
	mailPool = []string{"a@example.com", "postmaster@example.org", "no-at-sign", "@", "a@b@c", "Ü@example.com"}
	uriPool  = []string{"http://crl.example.com/ca.crl", "https://example.com/", "ldap://ldap.example.com/cn=x", "http://ocsp.example.com", "urn:x", "", "http://[::1]/", "%%%"}
	attrOIDs = [][]int{{2, 5, 4, 3}, {2, 5, 4, 6}, {2, 5, 4, 7}, {2, 5, 4, 8}, {2, 5, 4, 10}, {2, 5, 4, 11}, {2, 5, 4, 5}, {2, 5, 4, 9}, {2, 5, 4, 17},
		{2, 5, 4, 97}, {1, 2, 840, 113549, 1, 9, 1}, {0, 9, 2342, 19200300, 100, 1, 25}, {1, 3, 6, 1, 4, 1, 311, 60, 2, 1, 3}, {2, 5, 4, 4}, {2, 5, 4, 42},
		{2, 5, 4, 12}, {2, 5, 4, 15}, {2, 5, 4, 46}, {1, 2, 3, 4}, {2, 5, 4, 65}}
)

// dirString builds a string value in a random (valid for the content) string type.
func (g *gen) dirString(s string) *der.Node {
	ascii, printable := true, true
	for _, c := range []byte(s) {
		if c >= 0x80 {
			ascii, printable = false, false
		}
		if !(c >= 'a' && c <= 'z' || c >= 'A' && c <= 'Z' || c >= '0' && c <= '9' || c == ' ' || c == '\'' || c == '(' || c == ')' ||
			c == '+' || c == ',' || c == '-' || c == '.' || c == '/' || c == ':' || c == '=' || c == '?') {
			printable = false
		}
	}
	switch k := g.n(10); {
	case k < 4:
		return der.UTF8(s)
	case k < 7 && printable:
		return der.Printable(s)
	case k < 8 && ascii:
		return der.IA5(s)
	case k < 9:
		return der.BMP(s)
	case ascii:
		return der.Str(der.TagT61String, s)
	}
	return der.UTF8(s)
}

func (g *gen) name() *der.Node {
	nr := g.n(6)
	if g.chance(5) {
		nr = 0
	}
	rdns := []*der.Node{}
	for i := 0; i < nr; i++ {
		na := 1
		if g.chance(10) {
			na = 2
		}
		atvs := []*der.Node{}
		for j := 0; j < na; j++ {
			oid := attrOIDs[g.n(len(attrOIDs))]
			var v string
			switch {
			case oidEq(oid, []int{2, 5, 4, 3}):
				v = g.pickS(hostPool)
				if g.chance(30) {
					v = g.pickS(orgPool)
				}
			case oidEq(oid, []int{2, 5, 4, 6}):
				v = g.pickS([]string{"US", "DE", "XX", "usa", ""})
			case oidEq(oid, []int{1, 2, 840, 113549, 1, 9, 1}):
				v = g.pickS(mailPool)
			default:
				v = g.pickS(orgPool)
			}
			atvs = append(atvs, der.Seq(der.OID(oid...), g.dirString(v)))
		}
		rdns = append(rdns, der.Set(atvs...))
	}
	return der.Seq(rdns...)
}

// generalName builds one GeneralName of a random CHOICE arm.
func (g *gen) generalName() *der.Node {
	switch g.n(12) {
	case 0: // otherName
		return der.CtxCons(0, der.OID(1, 3, 6, 1, 4, 1, 311, 20, 2, 3), der.Explicit(0, der.UTF8("upn@example.com")))
	case 1:
		return der.CtxPrim(1, []byte(g.pickS(mailPool)))
	case 2, 9, 10:
		return der.CtxPrim(2, []byte(g.pickS(hostPool)))
	case 3: // x400Address (opaque ORAddress)
		return der.CtxCons(3, der.Seq(), der.Seq())
	case 4: // directoryName: [4] EXPLICIT Name
		return der.CtxCons(4, g.name())
	case 5: // ediPartyName
		kids := []*der.Node{}
		if g.chance(50) {
			kids = append(kids, der.Explicit(0, g.dirString("assigner")))
		}
		kids = append(kids, der.Explicit(1, g.dirString("party")))
		return der.CtxCons(5, kids...)
	case 6:
		return der.CtxPrim(6, []byte(g.pickS(uriPool)))
	case 7:
		l := []int{4, 16, 4, 16, 0, 5, 8, 32}[g.n(8)]
		return der.CtxPrim(7, g.bytes(l))
	case 8:
		return der.CtxPrim(8, der.OIDBytes([]int{1, 2, 3, 4, g.n(1000)}))
	}
	return der.CtxPrim(2, []byte(g.pickS(hostPool)))
}

func (g *gen) generalNames(min int) *der.Node {
	k := min + g.n(5)
	var kids []*der.Node
	for i := 0; i < k; i++ {
		kids = append(kids, g.generalName())
	}
	return der.Seq(kids...)
}

func (g *gen) displayText(s string) *der.Node {
	switch g.n(4) {
	case 0:
		return der.UTF8(s)
	case 1:
		return der.IA5(s)
	case 2:
		return der.Str(der.TagVisibleString, s)
	}
	return der.BMP(s)
}

// sct builds one serialised v1 SCT.
func (g *gen) sct() []byte {
	b := []byte{0}
	b = append(b, g.bytes(32)...)
	b = binary.BigEndian.AppendUint64(b, uint64(g.r.Int64N(1<<42)))
	ext := g.bytes([]int{0, 0, 0, 3}[g.n(4)])
	b = binary.BigEndian.AppendUint16(b, uint16(len(ext)))
	b = append(b, ext...)
	b = append(b, byte([]int{4, 4, 2, 5, 6}[g.n(5)]), byte([]int{3, 1, 3, 2}[g.n(4)]))
	sig := g.bytes(8 + g.n(70))
	b = binary.BigEndian.AppendUint16(b, uint16(len(sig)))
	return append(b, sig...)
}

func (g *gen) sctList(n int) []byte {
	var list []byte
	for i := 0; i < n; i++ {
		s := g.sct()
		list = binary.BigEndian.AppendUint16(list, uint16(len(s)))
		list = append(list, s...)
	}
	return append(binary.BigEndian.AppendUint16(nil, uint16(len(list))), list...)
}

type extGen struct {
	name string
	oid  []int
	f    func(g *gen) *der.Node // returns the extnValue content (the node(s) inside the OCTET STRING)
}

var (
	oidExtSCT    = []int{1, 3, 6, 1, 4, 1, 11129, 2, 4, 2}
	oidExtPoison = []int{1, 3, 6, 1, 4, 1, 11129, 2, 4, 3}
)

var extGens = []extGen{
	{"keyUsage", []int{2, 5, 29, 15}, func(g *gen) *der.Node {
		bits := uint16(g.r.UintN(1 << 9))
		if bits == 0 {
			return der.Bits(nil, 0)
		}
		// DER named-bit-list: strip trailing zero bits
		b := []byte{reverse8(byte(bits)), reverse8(byte(bits>>8)) & 0x80}
		n := 2
		if b[1] == 0 {
			n = 1
		}
		unused := 0
		for unused < 8 && b[n-1]>>uint(unused)&1 == 0 {
			unused++
		}
		return der.Bits(b[:n], unused)
	}},
	{"basicConstraints", []int{2, 5, 29, 19}, func(g *gen) *der.Node {
		kids := []*der.Node{}
		if g.chance(60) {
			kids = append(kids, der.Bool(true))
			if g.chance(60) {
				kids = append(kids, der.Int([]int64{0, 0, 1, 2, 5, 100, 1 << 20, 128, 200, 255, 40000}[g.n(11)])) // incl. values whose DER needs a leading 0x00
			}
		}
		return der.Seq(kids...)
	}},
	{"subjectKeyId", []int{2, 5, 29, 14}, func(g *gen) *der.Node { return der.Octets(g.bytes([]int{20, 20, 0, 1, 32, 8}[g.n(6)])) }},
	{"authorityKeyId", []int{2, 5, 29, 35}, func(g *gen) *der.Node {
		kids := []*der.Node{}
		if g.chance(80) {
			kids = append(kids, der.CtxPrim(0, g.bytes([]int{20, 20, 0, 32}[g.n(4)])))
		}
		if g.chance(25) {
			gn := g.generalNames(1)
			kids = append(kids, der.CtxCons(1, gn.Children...), der.CtxPrim(2, der.IntBytes(big.NewInt(int64(g.n(1<<30))))))
		}
		return der.Seq(kids...)
	}},
	{"subjectAltName", []int{2, 5, 29, 17}, func(g *gen) *der.Node { return g.generalNames(0) }},
	{"issuerAltName", []int{2, 5, 29, 18}, func(g *gen) *der.Node { return g.generalNames(0) }},
	{"nameConstraints", []int{2, 5, 29, 30}, func(g *gen) *der.Node {
		subtrees := func(tag int) *der.Node {
			var st []*der.Node
			for i, k := 0, 1+g.n(4); i < k; i++ {
				var base *der.Node
				switch g.n(10) {
				case 0:
					base = der.CtxPrim(7, g.bytes([]int{8, 32, 8, 32}[g.n(4)]))
				case 1:
					base = der.CtxPrim(1, []byte(g.pickS([]string{"example.com", ".example.com", "a@example.com"})))
				case 2:
					base = der.CtxCons(4, g.name())
				case 3:
					base = der.CtxPrim(6, []byte(g.pickS([]string{".example.com", "example.com"})))
				case 4:
					base = der.CtxPrim(8, der.OIDBytes([]int{1, 2, 3, g.n(50)}))
				case 5:
					base = der.CtxCons(3, der.Seq())
				case 6:
					base = der.CtxCons(5, der.Explicit(1, der.UTF8("party")))
				default:
					base = der.CtxPrim(2, []byte(g.pickS([]string{"example.com", ".example.com", "", "com", "a.b.example.org"})))
				}
				kids := []*der.Node{base}
				if g.chance(15) {
					kids = append(kids, der.CtxPrim(0, der.IntBytes(big.NewInt(int64(1+g.n(5))))))
				}
				if g.chance(15) {
					kids = append(kids, der.CtxPrim(1, der.IntBytes(big.NewInt(int64(g.n(9))))))
				}
				st = append(st, der.Seq(kids...))
			}
			return der.CtxCons(tag, st...)
		}
		kids := []*der.Node{}
		if g.chance(70) {
			kids = append(kids, subtrees(0))
		}
		if g.chance(50) {
			kids = append(kids, subtrees(1))
		}
		return der.Seq(kids...)
	}},
	{"crlDistributionPoints", []int{2, 5, 29, 31}, func(g *gen) *der.Node {
		var dps []*der.Node
		for i, k := 0, 1+g.n(3); i < k; i++ {
			kids := []*der.Node{}
			switch g.n(5) {
			case 0: // no distributionPoint
			case 1: // nameRelativeToCRLIssuer
				kids = append(kids, der.CtxCons(0, der.CtxCons(1, der.Seq(der.OID(2, 5, 4, 3), der.UTF8("crl")))))
			default:
				var names []*der.Node
				for j, m := 0, 1+g.n(3); j < m; j++ {
					if g.chance(80) {
						names = append(names, der.CtxPrim(6, []byte(g.pickS(uriPool))))
					} else {
						names = append(names, g.generalName())
					}
				}
				kids = append(kids, der.CtxCons(0, der.CtxCons(0, names...)))
			}
			if g.chance(20) {
				kids = append(kids, der.CtxPrim(1, []byte{1, 0x7e}))
			}
			if g.chance(20) || len(kids) == 0 {
				kids = append(kids, der.CtxCons(2, der.CtxCons(4, g.name())))
			}
			dps = append(dps, der.Seq(kids...))
		}
		return der.Seq(dps...)
	}},
	{"extKeyUsage", []int{2, 5, 29, 37}, func(g *gen) *der.Node {
		var kids []*der.Node
		for i, k := 0, 1+g.n(5); i < k; i++ {
			switch g.n(4) {
			case 0:
				kids = append(kids, der.OID(1, 2, 3, 4, 5, g.n(100)))
			case 1:
				kids = append(kids, der.OID(2, 5, 29, 37, 0))
			default:
				kids = append(kids, der.OID(1, 3, 6, 1, 5, 5, 7, 3, 1+g.n(9)))
			}
		}
		return der.Seq(kids...)
	}},
	{"certificatePolicies", []int{2, 5, 29, 32}, func(g *gen) *der.Node {
		var pols []*der.Node
		for i, k := 0, g.n(5); i < k; i++ {
			var pol []int
			switch g.n(5) {
			case 0:
				pol = []int{2, 23, 140, 1, 2, 1}
			case 1:
				pol = []int{2, 23, 140, 1, 1}
			case 2:
				pol = []int{2, 5, 29, 32, 0}
			case 3:
				pol = []int{2, 23, 140, 1, 2, 2}
			default:
				pol = []int{1, 3, 6, 1, 4, 1, 99999, g.n(10)}
			}
			kids := []*der.Node{der.OID(pol...)}
			nq := g.n(5)
			if nq > 0 {
				var quals []*der.Node
				for j := 0; j < nq; j++ {
					switch g.n(5) {
					case 0, 1: // CPS
						quals = append(quals, der.Seq(der.OID(1, 3, 6, 1, 5, 5, 7, 2, 1), der.IA5(g.pickS(uriPool))))
					case 4: // unknown qualifier
						quals = append(quals, der.Seq(der.OID(1, 3, 6, 1, 5, 5, 7, 2, 3), der.UTF8("x")))
					default: // user notice: noticeRef / explicitText independently present
						un := []*der.Node{}
						if g.chance(50) {
							var nums []*der.Node
							for q, m := 0, g.n(4); q < m; q++ {
								nums = append(nums, der.Int(int64(g.n(100))))
							}
							un = append(un, der.Seq(g.displayText(g.pickS(orgPool)), der.Seq(nums...)))
						}
						if g.chance(60) {
							un = append(un, g.displayText(g.pickS([]string{"notice text", "", "Explicit Ünicode text", "x"})))
						}
						quals = append(quals, der.Seq(der.OID(1, 3, 6, 1, 5, 5, 7, 2, 2), der.Seq(un...)))
					}
				}
				kids = append(kids, der.Seq(quals...))
			}
			pols = append(pols, der.Seq(kids...))
		}
		return der.Seq(pols...)
	}},
	{"authorityInfoAccess", []int{1, 3, 6, 1, 5, 5, 7, 1, 1}, func(g *gen) *der.Node {
		var kids []*der.Node
		for i, k := 0, g.n(4); i < k; i++ {
			m := []int{1, 3, 6, 1, 5, 5, 7, 48, 1 + g.n(3)}
			var loc *der.Node
			if g.chance(80) {
				loc = der.CtxPrim(6, []byte(g.pickS(uriPool)))
			} else {
				loc = g.generalName()
			}
			kids = append(kids, der.Seq(der.OID(m...), loc))
		}
		return der.Seq(kids...)
	}},
	{"sctList", oidExtSCT, func(g *gen) *der.Node {
		list := g.sctList(g.n(4))
		if g.chance(25) { // malformed framing (strict mode rejects these, permissive mode skips the extension)
			switch g.n(7) {
			case 0:
				list = nil
			case 1:
				list = list[:1]
			case 2:
				list = append(list, 0)
			case 3:
				list = append(list, 0, 200, 1, 2, 3) // SCT length beyond the data
			case 4:
				list = append([]byte{0xff, 0xff}, list[2:]...) // list length field wrong
			case 5:
				list = append(list, 0, 0) // zero-length SCT
			default:
				list = list[:len(list)/2]
			}
		}
		return der.Octets(list)
	}},
	{"ctPoison", oidExtPoison, func(g *gen) *der.Node { return der.Null() }},
	{"torServiceDescriptor", []int{2, 23, 140, 1, 31}, func(g *gen) *der.Node {
		var kids []*der.Node
		for i, k := 0, g.n(3); i < k; i++ {
			h := [][]int{oidSHA256, oidSHA384, oidSHA512, oidSHA1}[g.n(4)]
			alg := der.Seq(der.OID(h...))
			if g.chance(50) {
				alg.Children = append(alg.Children, der.Null())
			}
			kids = append(kids, der.Seq(der.UTF8("https://"+g.pickS([]string{"abcdefghijklmnop", "", "x"})+".onion"), alg, der.Bits(g.bytes([]int{32, 48, 64, 0, 1}[g.n(5)]), g.n(2)*g.n(8))))
		}
		return der.Seq(kids...)
	}},
	{"cabfOrganizationId", []int{2, 23, 140, 3, 1}, func(g *gen) *der.Node {
		kids := []*der.Node{der.Printable(g.pickS([]string{"VAT", "NTR", "PSD", ""})), der.Printable(g.pickS([]string{"DE", "US", ""}))}
		if g.chance(40) {
			kids = append(kids, der.CtxPrim(0, []byte("CA")))
		}
		kids = append(kids, der.UTF8(g.pickS([]string{"123456789", "", "Ünï"})))
		return der.Seq(kids...)
	}},
	{"qcStatements", []int{1, 3, 6, 1, 5, 5, 7, 1, 3}, func(g *gen) *der.Node {
		var kids []*der.Node
		for i, k := 0, g.n(6); i < k; i++ {
			switch g.n(10) {
			case 0:
				kids = append(kids, der.Seq(der.OID(0, 4, 0, 1862, 1, 1)))
			case 1:
				if g.chance(50) {
					kids = append(kids, der.Seq(der.OID(0, 4, 0, 1862, 1, 2), der.Seq(der.Printable("EUR"), der.Int(int64(g.n(1000))), der.Int(int64(g.n(6))))))
				} else {
					kids = append(kids, der.Seq(der.OID(0, 4, 0, 1862, 1, 2), der.Seq(der.Int(978), der.Int(int64(g.n(1000))), der.Int(int64(g.n(6))))))
				}
			case 2:
				kids = append(kids, der.Seq(der.OID(0, 4, 0, 1862, 1, 3), der.Int(int64(g.n(30)))))
			case 3:
				kids = append(kids, der.Seq(der.OID(0, 4, 0, 1862, 1, 4)))
			case 4:
				var locs []*der.Node
				for j, m := 0, g.n(3); j < m; j++ {
					locs = append(locs, der.Seq(der.IA5(g.pickS(uriPool)), der.Printable(g.pickS([]string{"en", "de", ""}))))
				}
				kids = append(kids, der.Seq(der.OID(0, 4, 0, 1862, 1, 5), der.Seq(locs...)))
			case 5:
				var ids []*der.Node
				for j, m := 0, g.n(4); j < m; j++ {
					ids = append(ids, der.OID(0, 4, 0, 1862, 1, 6, 1+g.n(4)))
				}
				kids = append(kids, der.Seq(der.OID(0, 4, 0, 1862, 1, 6), der.Seq(ids...)))
			case 6:
				var cc []*der.Node
				for j, m := 0, g.n(3); j < m; j++ {
					cc = append(cc, der.Printable(g.pickS([]string{"DE", "FR", "X"})))
				}
				kids = append(kids, der.Seq(der.OID(0, 4, 0, 1862, 1, 7), der.Seq(cc...)))
			case 7:
				kids = append(kids, der.Seq(der.OID(0, 4, 0, 19495, 2), der.Seq(der.Seq(der.Seq(der.OID(0, 4, 0, 19495, 1, 1), der.UTF8("PSP_AS"))), der.UTF8("NCA"), der.UTF8("XX-NCA"))))
			case 8:
				kids = append(kids, der.Seq(der.OID(1, 3, 6, 1, 5, 5, 7, 11, 2), der.Seq(der.OID(1, 2, 3))))
			default:
				kids = append(kids, der.Seq(der.OID(1, 2, 3, 4, g.n(9)), der.UTF8("info")))
			}
		}
		return der.Seq(kids...)
	}},
	{"unknown", nil, func(g *gen) *der.Node { return der.Lit(g.bytes(g.n(20))) }},
	{"inhibitAnyPolicy", []int{2, 5, 29, 54}, func(g *gen) *der.Node { return der.Int(int64(g.n(5))) }},
	{"policyConstraints", []int{2, 5, 29, 36}, func(g *gen) *der.Node {
		return der.Seq(der.CtxPrim(0, []byte{byte(g.n(5))}), der.CtxPrim(1, []byte{byte(g.n(5))}))
	}},
	{"policyMappings", []int{2, 5, 29, 33}, func(g *gen) *der.Node {
		return der.Seq(der.Seq(der.OID(1, 2, 3, 4), der.OID(1, 2, 3, 5)))
	}},
	{"ocspNoCheck", []int{1, 3, 6, 1, 5, 5, 7, 48, 1, 5}, func(g *gen) *der.Node { return der.Null() }},
	{"tlsFeature", []int{1, 3, 6, 1, 5, 5, 7, 1, 24}, func(g *gen) *der.Node { return der.Seq(der.Int(5)) }},
	{"subjectDirAttrs", []int{2, 5, 29, 9}, func(g *gen) *der.Node {
		return der.Seq(der.Seq(der.OID(1, 3, 6, 1, 5, 5, 7, 9, 4), der.Set(der.Printable("DE"))))
	}},
	{"netscapeCertType", []int{2, 16, 840, 1, 113730, 1, 1}, func(g *gen) *der.Node { return der.Bits([]byte{0xc0}, 6) }},
	{"netscapeComment", []int{2, 16, 840, 1, 113730, 1, 13}, func(g *gen) *der.Node { return der.IA5("comment") }},
}

func reverse8(b byte) byte {
	var r byte
	for i := 0; i < 8; i++ {
		r = r<<1 | b>>uint(i)&1
	}
	return r
}

// extension wraps a value into Extension ::= SEQUENCE { extnID, critical DEFAULT FALSE, extnValue OCTET STRING }.
func extension(oid []int, critical bool, value *der.Node) *der.Node {
	kids := []*der.Node{der.OID(oid...)}
	if critical {
		kids = append(kids, der.Bool(true))
	}
	kids = append(kids, der.OctetsWrap(value))
	return der.Seq(kids...)
}

func (g *gen) extensions() []*der.Node {
	var out []*der.Node
	k := g.n(9)
	if g.chance(10) {
		k = 0
	}
	for i := 0; i < k; i++ {
		eg := extGens[g.n(len(extGens))]
		if g.chance(35) { // weight towards the extensions with the richest decoders
			eg = extGens[[]int{4, 5, 6, 9, 9, 9, 15, 13, 7}[g.n(9)]]
		}
		oid := eg.oid
		if oid == nil {
			oid = []int{1, 3, 6, 1, 4, 1, 99999, 1, g.n(20)}
		}
		e := extension(oid, g.chance(25), eg.f(g))
		out = append(out, e)
		if g.chance(4) { // duplicate extension
			out = append(out, e.Clone())
		}
	}
	return out
}

// spkiVariant builds a SubjectPublicKeyInfo that does not correspond to a pool
// key: odd Ed25519/X25519 lengths, degenerate RSA numbers, unknown algorithms,
// invalid curve points. Most are rejected by the strict parser; the accepted
// ones are the interesting certificates.
func (g *gen) spkiVariant() *der.Node {
	switch g.n(9) {
	case 0: // Ed25519 of length 0..33
		l := []int{32, 31, 33, 0, 1, 16, 30, 32}[g.n(8)]
		return der.Seq(der.Seq(der.OID(oidEd25519...)), der.Bits(g.bytes(l), 0))
	case 1: // X25519 of length 0..33
		l := []int{32, 31, 33, 0, 1, 16, 32, 32}[g.n(8)]
		return der.Seq(der.Seq(der.OID(oidX25519...)), der.Bits(g.bytes(l), 0))
	case 2: // RSA with unusual numbers
		_, fast := signers()
		var n *big.Int
		for _, s := range fast {
			if s.kind == "rsa" {
				n = new(big.Int).Set(s.rsa.N)
				break
			}
		}
		switch g.n(6) {
		case 0:
			n = big.NewInt(int64(3 + g.n(1000)))
		case 1:
			n.Lsh(n, 1) // even
		case 2:
			n = new(big.Int).Lsh(big.NewInt(1), 8192)
			n.Add(n, big.NewInt(1))
		case 3:
			n = big.NewInt(1)
		}
		e := []*big.Int{big.NewInt(1), big.NewInt(2), big.NewInt(3), big.NewInt(65537), new(big.Int).Lsh(big.NewInt(1), 64),
			new(big.Int).Add(new(big.Int).Lsh(big.NewInt(1), 300), big.NewInt(1)), big.NewInt(0), big.NewInt(-3), big.NewInt(1<<31 - 1)}[g.n(9)]
		if g.chance(10) {
			n.Neg(n)
		}
		alg := der.Seq(der.OID(oidRSA...), der.Null())
		if g.chance(15) {
			alg = der.Seq(der.OID(oidRSA...))
		}
		return der.Seq(alg, der.BitsWrap(der.Seq(der.BigInt(n), der.BigInt(e))))
	case 3: // unknown algorithm
		return der.Seq(der.Seq(der.OID(1, 2, 3, 4, 5, 6), der.Null()), der.Bits(g.bytes(g.n(40)), 0))
	case 4: // EC with a point not on the curve / wrong length / compressed / unknown curve
		curve := [][]int{oidP256, oidP384, oidP224, oidP521, {1, 3, 132, 0, 10}}[g.n(5)]
		pt := g.bytes([]int{65, 97, 57, 133, 33, 1, 0}[g.n(7)])
		if len(pt) > 0 {
			pt[0] = []byte{4, 2, 3, 0}[g.n(4)]
		}
		return der.Seq(der.Seq(der.OID(oidEC...), der.OID(curve...)), der.Bits(pt, 0))
	case 5: // EC with explicit/absent parameters
		_, fast := signers()
		for _, s := range fast {
			if s.kind == "ec" {
				sp := s.spki()
				if g.chance(50) {
					sp.Children[0].Children = sp.Children[0].Children[:1]
				} else {
					sp.Children[0].Children[1] = der.Seq(der.Int(1))
				}
				return sp
			}
		}
	case 6: // DSA with odd parameters
		p := keys.Get().DSA[0].Priv
		q := new(big.Int).Set(p.Q)
		gg := new(big.Int).Set(p.G)
		y := new(big.Int).Set(p.Y)
		switch g.n(4) {
		case 0:
			q = big.NewInt(1)
		case 1:
			gg = big.NewInt(1)
		case 2:
			y = big.NewInt(1)
		}
		return der.Seq(der.Seq(der.OID(oidDSA...), der.Seq(der.BigInt(p.P), der.BigInt(q), der.BigInt(gg))), der.BitsWrap(der.BigInt(y)))
	case 7: // RSA-PSS key OID, Ed448
		return der.Seq(der.Seq(der.OID([][]int{oidRSAPSS, {1, 3, 101, 113}, {1, 3, 101, 111}}[g.n(3)]...)), der.Bits(g.bytes(57), 0))
	}
	// key bits with unused-bit count
	return der.Seq(der.Seq(der.OID(oidEd25519...)), der.Bits(g.bytes(32), 1+g.n(7)))
}

// certTruth is the generator's ground truth about a certificate it built.
type certTruth struct {
	IssuerEqSubject bool
	SignedByOwnKey  bool // genuinely signed with the private key matching the SPKI in the certificate
	SigCorrupted    bool
	Signer          string
	Version         int // encoded version value (0 = v1 …), -1 = absent
	NotBefore       time.Time
	NotAfter        time.Time
	Desc            string
}

// certParts is a certificate before signing: lets callers (C06 CT leg) edit the extension list and re-sign.
type certParts struct {
	Version    int // -1 = field absent
	Serial     *big.Int
	SigAlg     *der.Node
	Issuer     *der.Node
	NotBefore  *der.Node
	NotAfter   *der.Node
	Subject    *der.Node
	SPKI       *der.Node
	IssuerUID  *der.Node
	SubjectUID *der.Node
	Exts       []*der.Node
	signFn     func(tbs []byte) []byte
}

func (p *certParts) tbs() *der.Node {
	kids := []*der.Node{}
	if p.Version >= 0 {
		kids = append(kids, der.Explicit(0, der.Int(int64(p.Version))))
	}
	kids = append(kids, der.BigInt(p.Serial), p.SigAlg, p.Issuer, der.Seq(p.NotBefore, p.NotAfter), p.Subject, p.SPKI)
	if p.IssuerUID != nil {
		kids = append(kids, p.IssuerUID)
	}
	if p.SubjectUID != nil {
		kids = append(kids, p.SubjectUID)
	}
	if p.Exts != nil {
		kids = append(kids, der.Explicit(3, der.Seq(p.Exts...)))
	}
	return der.Seq(kids...)
}

// assemble signs and encodes.
func (p *certParts) assemble() []byte {
	tbs := p.tbs()
	tbsBytes := tbs.Encode()
	sig := p.signFn(tbsBytes)
	return der.Seq(der.Lit(tbsBytes), p.SigAlg.Clone(), der.Bits(sig, 0)).Encode()
}

func (g *gen) genTime() time.Time {
	// 1950 … 2060, second precision
	lo := time.Date(1950, 1, 1, 0, 0, 0, 0, time.UTC).Unix()
	hi := time.Date(2060, 1, 1, 0, 0, 0, 0, time.UTC).Unix()
	if g.chance(70) {
		lo = time.Date(2000, 1, 1, 0, 0, 0, 0, time.UTC).Unix()
		hi = time.Date(2040, 1, 1, 0, 0, 0, 0, time.UTC).Unix()
	}
	return time.Unix(lo+g.r.Int64N(hi-lo), 0).UTC()
}

// cert builds one random certificate.
func (g *gen) cert() ([]byte, *certParts, certTruth) {
	_, fast := signers()
	all, _ := signers()
	pickSigner := func() *signer {
		if g.chance(6) {
			return all[g.n(len(all))]
		}
		return fast[g.n(len(fast))]
	}
	var tr certTruth
	p := &certParts{}
	// version
	switch v := g.n(20); {
	case v < 15:
		p.Version = 2
	case v < 17:
		p.Version = -1
	case v < 18:
		p.Version = 1
	case v < 19:
		p.Version = 0 // explicit default (non-DER but accepted by many parsers; strict DER forbids encoding defaults, asn1 does not check)
	default:
		p.Version = 3 + g.n(3)
	}
	tr.Version = p.Version
	// serial
	switch g.n(10) {
	case 0:
		p.Serial = big.NewInt(0)
	case 1:
		p.Serial = big.NewInt(-int64(1 + g.n(1000)))
	default:
		p.Serial = new(big.Int).SetBytes(g.bytes(1 + g.n(20)))
	}
	// subject key
	subjectSigner := pickSigner()
	variant := g.chance(18)
	if variant {
		p.SPKI = g.spkiVariant()
		if p.SPKI == nil {
			variant = false
		}
	}
	if !variant {
		p.SPKI = subjectSigner.spki()
	}
	p.Subject = g.name()
	// issuer relation
	relation := g.n(10)
	var sg *signer
	switch {
	case relation < 4: // genuine self-signed (when the key can sign)
		p.Issuer = p.Subject.Clone()
		tr.IssuerEqSubject = true
		sg = subjectSigner
		tr.SignedByOwnKey = !variant
	case relation < 5: // self-issued but signed by another key
		p.Issuer = p.Subject.Clone()
		tr.IssuerEqSubject = true
		for sg = pickSigner(); sg == subjectSigner; sg = pickSigner() {
		}
	case relation < 6: // different issuer name but signed by own key
		p.Issuer = g.name()
		sg = subjectSigner
		tr.SignedByOwnKey = !variant
	default:
		p.Issuer = g.name()
		for sg = pickSigner(); sg == subjectSigner; sg = pickSigner() {
		}
	}
	tr.IssuerEqSubject = string(p.Issuer.Encode()) == string(p.Subject.Encode())
	tr.Signer = sg.name
	alg, fn := sg.sign(g.r)
	p.SigAlg = alg
	p.signFn = fn
	if variant && tr.IssuerEqSubject && g.chance(60) {
		// self-issued certificate whose own (odd) key will be asked to verify: pick the signature algorithm matching the key OID
		if ka := p.SPKI.Path(0, 0); ka != nil {
			switch ko := der.ParseOID(ka.Content); {
			case oidEq(ko, oidEd25519):
				p.SigAlg = der.Seq(der.OID(oidEd25519...))
			case oidEq(ko, oidRSA):
				p.SigAlg = der.Seq(der.OID(oidSHA256RSA...), der.Null())
			case oidEq(ko, oidEC):
				p.SigAlg = der.Seq(der.OID(oidECSHA256...))
			case oidEq(ko, oidDSA):
				p.SigAlg = der.Seq(der.OID(oidDSASHA1...))
			}
		}
	}
	if g.chance(8) {
		tr.SigCorrupted = true
		inner := p.signFn
		mode := g.n(3)
		p.signFn = func(tbs []byte) []byte {
			s := append([]byte(nil), inner(tbs)...)
			switch {
			case len(s) == 0:
				return []byte{1}
			case mode == 0:
				s[len(s)-1] ^= 1
			case mode == 1:
				s = s[:len(s)-1]
			default:
				s[len(s)/2] ^= 0x40
			}
			return s
		}
	}
	// validity
	nb, na := g.genTime(), g.genTime()
	if na.Before(nb) && g.chance(85) {
		nb, na = na, nb
	}
	tr.NotBefore, tr.NotAfter = nb, na
	p.NotBefore, p.NotAfter = der.Time(nb), der.Time(na)
	if g.chance(5) { // GeneralizedTime for a date UTCTime could carry: allowed by X.509 generally, parsers accept it
		p.NotBefore = der.GenTime(nb)
	}
	if p.Version >= 1 && g.chance(8) {
		p.IssuerUID = der.CtxPrim(1, append([]byte{0}, g.bytes(g.n(9))...))
	}
	if p.Version >= 1 && g.chance(8) {
		p.SubjectUID = der.CtxPrim(2, append([]byte{0}, g.bytes(g.n(9))...))
	}
	if p.Version >= 2 || g.chance(10) {
		p.Exts = g.extensions()
		if len(p.Exts) == 0 && g.chance(70) {
			p.Exts = nil
		}
	}
	tr.Desc = "gen:" + sg.name
	if variant {
		tr.Desc += ":spki-variant"
	}
	return p.assemble(), p, tr
}

// edSelfSigned builds a minimal self-signed Ed25519 certificate (a short path to the key-length checks for the mutator).
func (g *gen) edSelfSigned() []byte {
	_, fast := signers()
	var sg *signer
	for _, s := range fast {
		if s.kind == "ed" {
			sg = s
			break
		}
	}
	_ = ed25519.PublicKeySize
	name := g.name()
	alg, fn := sg.sign(g.r)
	p := &certParts{Version: 2, Serial: big.NewInt(int64(1 + g.n(1<<30))), SigAlg: alg, Issuer: name, Subject: name.Clone(),
		NotBefore: der.Time(g.genTime()), NotAfter: der.Time(g.genTime()), SPKI: sg.spki(), signFn: fn}
	return p.assemble()
}
