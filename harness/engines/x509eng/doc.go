// Package x509eng holds property monitors (see /verif/DESIGN.md section 4).
package x509eng
