package x509eng

// Valid seed objects produced with zcrypto's own creation APIs and Go's
// standard library, from the fixed key pool. They are mutation seeds only; no
// oracle depends on them being correct.

import (
	"crypto"
	"crypto/ecdsa"
	"crypto/ed25519"
	stdrsa "crypto/rsa"
	stdx509 "crypto/x509"
	"encoding/pem"
	"io"
	"math/big"
	"math/rand/v2"
	"net"
	"sync"
	"time"

	zasn1 "github.com/zmap/zcrypto/encoding/asn1"
	zrsa "github.com/zmap/zcrypto/rsa"
	zx509 "github.com/zmap/zcrypto/x509"
	"github.com/zmap/zcrypto/x509/pkix"
	"github.com/zmap/zcrypto/x509/revocation/ocsp"

	"verifharness/internal/core"
	"verifharness/internal/keys"
)

// zRSASigner presents a standard-library RSA key to zcrypto: Public() returns zcrypto's rsa.PublicKey (big.Int exponent).
type zRSASigner struct{ k *stdrsa.PrivateKey }

func (s zRSASigner) Public() crypto.PublicKey {
	return &zrsa.PublicKey{N: s.k.N, E: big.NewInt(int64(s.k.E))}
}

func (s zRSASigner) Sign(r io.Reader, digest []byte, opts crypto.SignerOpts) ([]byte, error) {
	if p, ok := opts.(*zrsa.PSSOptions); ok {
		h := p.Hash
		salt := make([]byte, h.Size())
		io.ReadFull(r, salt)
		return rsaPrivOp(s.k, emsaPSS(h, digest, salt, s.k.N.BitLen()-1)), nil
	}
	return rsaPrivOp(s.k, emsaPKCS1v15(opts.HashFunc(), digest, (s.k.N.BitLen()+7)/8)), nil
}

// detECSigner signs with RFC 6979 (rand == nil) so that the seed objects are the same bytes in every run.
type detECSigner struct{ k *ecdsa.PrivateKey }

func (s detECSigner) Public() crypto.PublicKey { return &s.k.PublicKey }

func (s detECSigner) Sign(_ io.Reader, digest []byte, opts crypto.SignerOpts) ([]byte, error) {
	return s.k.Sign(nil, digest, opts)
}

// detReader is a deterministic byte stream.
type detReader struct{ r *rand.Rand }

func (d detReader) Read(p []byte) (int, error) {
	for i := range p {
		p[i] = byte(d.r.UintN(256))
	}
	return len(p), nil
}

type zObjects struct {
	Certs, CSRs, CRLs, SPKIs, PKCS1Priv, PKCS1Pub, PKCS8, ECPriv, OCSPReq, OCSPResp [][]byte
	EncPEM                                                                          []*pem.Block
	// parsed issuer/leaf pairs for the OCSP entry points
	Issuers []*zx509.Certificate
	Leaves  []*zx509.Certificate
}

var (
	zOnce sync.Once
	zObjs *zObjects
)

// zSeeds builds the objects once per process (fixed internal seed: the same in every shard and run).
func zSeeds() *zObjects {
	zOnce.Do(func() {
		o := &zObjects{}
		zObjs = o
		r := rand.New(rand.NewPCG(0x5eed, 0x2c0de))
		rd := detReader{r}
		p := keys.Get()
		type sk struct {
			signer crypto.Signer
			pub    any
			alg    []zx509.SignatureAlgorithm
		}
		var sks []sk
		for _, bits := range []int{1024, 2048} {
			k := p.RSAByBits(bits, 2)[0].Std()
			s := zRSASigner{k}
			sks = append(sks, sk{s, s.Public(), []zx509.SignatureAlgorithm{0, zx509.SHA1WithRSA, zx509.SHA256WithRSAPSS, zx509.SHA512WithRSA}})
			o.PKCS1Priv = append(o.PKCS1Priv, stdx509.MarshalPKCS1PrivateKey(k))
			o.PKCS1Pub = append(o.PKCS1Pub, stdx509.MarshalPKCS1PublicKey(&k.PublicKey))
			if b, err := stdx509.MarshalPKCS8PrivateKey(k); err == nil {
				o.PKCS8 = append(o.PKCS8, b)
			}
			if b, err := stdx509.MarshalPKIXPublicKey(&k.PublicKey); err == nil {
				o.SPKIs = append(o.SPKIs, b)
			}
		}
		if mp := p.RSAByBits(2048, 3); len(mp) > 0 {
			o.PKCS1Priv = append(o.PKCS1Priv, stdx509.MarshalPKCS1PrivateKey(mp[0].Std()))
		}
		for _, c := range []string{"P224", "P256", "P384", "P521"} {
			k := p.ECByCurve(c)[0]
			algs := []zx509.SignatureAlgorithm{0}
			if c == "P256" {
				algs = append(algs, zx509.ECDSAWithSHA1, zx509.ECDSAWithSHA384)
			}
			sks = append(sks, sk{detECSigner{k}, &k.PublicKey, algs})
			if b, err := stdx509.MarshalECPrivateKey(k); err == nil {
				o.ECPriv = append(o.ECPriv, b)
			}
			if b, err := stdx509.MarshalPKCS8PrivateKey(k); err == nil {
				o.PKCS8 = append(o.PKCS8, b)
			}
			if b, err := stdx509.MarshalPKIXPublicKey(&k.PublicKey); err == nil {
				o.SPKIs = append(o.SPKIs, b)
			}
		}
		ed := p.Ed[0]
		sks = append(sks, sk{ed, ed.Public().(ed25519.PublicKey), []zx509.SignatureAlgorithm{0}})
		if b, err := stdx509.MarshalPKCS8PrivateKey(ed); err == nil {
			o.PKCS8 = append(o.PKCS8, b)
		}
		if b, err := stdx509.MarshalPKIXPublicKey(ed.Public()); err == nil {
			o.SPKIs = append(o.SPKIs, b)
		}
		// encrypted PEM blocks (legacy RFC 1423), all ciphers
		for _, c := range []stdx509.PEMCipher{stdx509.PEMCipherDES, stdx509.PEMCipher3DES, stdx509.PEMCipherAES128, stdx509.PEMCipherAES192, stdx509.PEMCipherAES256} {
			//lint:ignore SA1019 legacy format is the thing under test
			if b, err := stdx509.EncryptPEMBlock(rd, "RSA PRIVATE KEY", o.PKCS1Priv[0], []byte("password"), c); err == nil {
				o.EncPEM = append(o.EncPEM, b)
			}
		}

		t0 := time.Date(2020, 1, 1, 0, 0, 0, 0, time.UTC)
		serial := int64(1000)
		mkTemplate := func(cn string, ca bool) *zx509.Certificate {
			serial++
			t := &zx509.Certificate{
				SerialNumber: big.NewInt(serial),
				Subject:      pkix.Name{CommonName: cn, Organization: []string{"Verif Org"}, Country: []string{"US"}},
				NotBefore:    t0, NotAfter: t0.AddDate(10, 0, 0),
				KeyUsage:              zx509.KeyUsageDigitalSignature | zx509.KeyUsageCertSign | zx509.KeyUsageCRLSign,
				BasicConstraintsValid: true, IsCA: ca,
				SubjectKeyId: []byte{1, 2, 3, 4, byte(serial)},
			}
			if ca {
				t.MaxPathLen = 2
				t.PermittedDNSNames = []zx509.GeneralSubtreeString{{Data: "example.com"}}
				t.ExcludedDNSNames = []zx509.GeneralSubtreeString{{Data: "bad.example.com"}}
				t.PermittedIPAddresses = []zx509.GeneralSubtreeIP{{Data: net.IPNet{IP: net.IPv4(10, 0, 0, 0).To4(), Mask: net.CIDRMask(8, 32)}}}
				t.PolicyIdentifiers = []zasn1.ObjectIdentifier{{2, 23, 140, 1, 2, 2}}
			} else {
				t.DNSNames = []string{"leaf.example.com", "*.leaf.example.com"}
				t.EmailAddresses = []string{"a@example.com"}
				t.IPAddresses = []net.IP{net.IPv4(10, 1, 2, 3).To4(), net.ParseIP("2001:db8::1")}
				t.ExtKeyUsage = []zx509.ExtKeyUsage{zx509.ExtKeyUsageServerAuth, zx509.ExtKeyUsageClientAuth}
				t.UnknownExtKeyUsage = []zasn1.ObjectIdentifier{{1, 2, 3, 4}}
				t.OCSPServer = []string{"http://ocsp.example.com"}
				t.IssuingCertificateURL = []string{"http://ca.example.com/ca.crt"}
				t.CRLDistributionPoints = []string{"http://crl.example.com/ca.crl"}
				t.PolicyIdentifiers = []zasn1.ObjectIdentifier{{2, 23, 140, 1, 2, 1}}
			}
			return t
		}
		for i, s := range sks {
			for _, alg := range s.alg {
				core.Guard(func() {
					caT := mkTemplate("Verif CA "+itoa(i), true)
					caT.SignatureAlgorithm = alg
					caDER, err := zx509.CreateCertificate(rd, caT, caT, s.pub, s.signer)
					if err != nil {
						return
					}
					o.Certs = append(o.Certs, caDER)
					ca, err := zx509.ParseCertificate(caDER)
					if err != nil {
						return
					}
					// a leaf of every other key type under this CA
					leafKey := sks[(i+1)%len(sks)]
					lt := mkTemplate("leaf.example.com", false)
					lt.SignatureAlgorithm = alg
					leafDER, err := zx509.CreateCertificate(rd, lt, ca, leafKey.pub, s.signer)
					if err != nil {
						return
					}
					o.Certs = append(o.Certs, leafDER)
					leaf, err := zx509.ParseCertificate(leafDER)
					if err != nil {
						return
					}
					if alg == 0 {
						o.Issuers = append(o.Issuers, ca)
						o.Leaves = append(o.Leaves, leaf)
					}
					// CSR
					csrT := &zx509.CertificateRequest{Subject: lt.Subject, DNSNames: lt.DNSNames, EmailAddresses: lt.EmailAddresses, IPAddresses: lt.IPAddresses,
						SignatureAlgorithm: alg}
					if b, err := zx509.CreateCertificateRequest(rd, csrT, s.signer); err == nil {
						o.CSRs = append(o.CSRs, b)
					}
					// CRLs, both APIs
					revoked := []pkix.RevokedCertificate{{SerialNumber: big.NewInt(5), RevocationTime: t0}, {SerialNumber: big.NewInt(77), RevocationTime: t0.AddDate(0, 1, 0)}}
					if b, err := ca.CreateCRL(rd, s.signer, revoked, t0, t0.AddDate(0, 0, 7)); err == nil {
						o.CRLs = append(o.CRLs, b)
					}
					reason := 1
					rl := &zx509.RevocationList{SignatureAlgorithm: alg, Number: big.NewInt(3), ThisUpdate: t0, NextUpdate: t0.AddDate(0, 0, 7),
						RevokedCertificates: []zx509.RevokedCertificate{{SerialNumber: big.NewInt(9), RevocationTime: t0, ReasonCode: &reason}}}
					if b, err := zx509.CreateRevocationList(rd, rl, ca, s.signer); err == nil {
						o.CRLs = append(o.CRLs, b)
					}
					// OCSP
					for _, h := range []crypto.Hash{crypto.SHA1, crypto.SHA256} {
						if b, err := ocsp.CreateRequest(leaf, ca, &ocsp.RequestOptions{Hash: h}); err == nil {
							o.OCSPReq = append(o.OCSPReq, b)
						}
					}
					for _, st := range []int{ocsp.Good, ocsp.Revoked, ocsp.Unknown} {
						tmpl := ocsp.Response{Status: st, SerialNumber: leaf.SerialNumber, ThisUpdate: t0, NextUpdate: t0.AddDate(0, 0, 1),
							RevokedAt: t0, RevocationReason: 1}
						if st == ocsp.Revoked {
							tmpl.Certificate = ca // embedded responder certificate: ParseResponse verifies through it
						}
						if b, err := ocsp.CreateResponse(ca, ca, tmpl, s.signer); err == nil {
							o.OCSPResp = append(o.OCSPResp, b)
						}
					}
				})
			}
		}
	})
	return zObjs
}
