package x509eng

// Independent signing and verification used to build inputs and as the C06
// self-signature oracle. Uses only Go's standard library and math/big; no
// zcrypto code.

import (
	"bytes"
	"crypto"
	stddsa "crypto/dsa"
	"crypto/ecdsa"
	"crypto/ed25519"
	"crypto/elliptic"
	_ "crypto/md5"
	stdrsa "crypto/rsa"
	_ "crypto/sha1"
	_ "crypto/sha256"
	_ "crypto/sha512"
	"math/big"
	"math/rand/v2"

	"verifharness/internal/der"
)

var (
	oidRSA     = []int{1, 2, 840, 113549, 1, 1, 1}
	oidDSA     = []int{1, 2, 840, 10040, 4, 1}
	oidEC      = []int{1, 2, 840, 10045, 2, 1}
	oidEd25519 = []int{1, 3, 101, 112}
	oidX25519  = []int{1, 3, 101, 110}

	oidMD2RSA    = []int{1, 2, 840, 113549, 1, 1, 2}
	oidMD5RSA    = []int{1, 2, 840, 113549, 1, 1, 4}
	oidSHA1RSA   = []int{1, 2, 840, 113549, 1, 1, 5}
	oidSHA256RSA = []int{1, 2, 840, 113549, 1, 1, 11}
	oidSHA384RSA = []int{1, 2, 840, 113549, 1, 1, 12}
	oidSHA512RSA = []int{1, 2, 840, 113549, 1, 1, 13}
	oidRSAPSS    = []int{1, 2, 840, 113549, 1, 1, 10}
	oidMGF1      = []int{1, 2, 840, 113549, 1, 1, 8}
	oidDSASHA1   = []int{1, 2, 840, 10040, 4, 3}
	oidDSASHA256 = []int{2, 16, 840, 1, 101, 3, 4, 3, 2}
	oidECSHA1    = []int{1, 2, 840, 10045, 4, 1}
	oidECSHA256  = []int{1, 2, 840, 10045, 4, 3, 2}
	oidECSHA384  = []int{1, 2, 840, 10045, 4, 3, 3}
	oidECSHA512  = []int{1, 2, 840, 10045, 4, 3, 4}

	oidSHA1   = []int{1, 3, 14, 3, 2, 26}
	oidSHA256 = []int{2, 16, 840, 1, 101, 3, 4, 2, 1}
	oidSHA384 = []int{2, 16, 840, 1, 101, 3, 4, 2, 2}
	oidSHA512 = []int{2, 16, 840, 1, 101, 3, 4, 2, 3}

	oidP224 = []int{1, 3, 132, 0, 33}
	oidP256 = []int{1, 2, 840, 10045, 3, 1, 7}
	oidP384 = []int{1, 3, 132, 0, 34}
	oidP521 = []int{1, 3, 132, 0, 35}
)

func oidEq(a, b []int) bool {
	if len(a) != len(b) {
		return false
	}
	for i := range a {
		if a[i] != b[i] {
			return false
		}
	}
	return true
}

func hashOf(h crypto.Hash, msg []byte) []byte {
	hh := h.New()
	hh.Write(msg)
	return hh.Sum(nil)
}

// DigestInfo prefixes of EMSA-PKCS1-v1_5 (RFC 8017 §9.2 note 1).
var digestInfoPrefix = map[crypto.Hash][]byte{
	crypto.MD5:    {0x30, 0x20, 0x30, 0x0c, 0x06, 0x08, 0x2a, 0x86, 0x48, 0x86, 0xf7, 0x0d, 0x02, 0x05, 0x05, 0x00, 0x04, 0x10},
	crypto.SHA1:   {0x30, 0x21, 0x30, 0x09, 0x06, 0x05, 0x2b, 0x0e, 0x03, 0x02, 0x1a, 0x05, 0x00, 0x04, 0x14},
	crypto.SHA256: {0x30, 0x31, 0x30, 0x0d, 0x06, 0x09, 0x60, 0x86, 0x48, 0x01, 0x65, 0x03, 0x04, 0x02, 0x01, 0x05, 0x00, 0x04, 0x20},
	crypto.SHA384: {0x30, 0x41, 0x30, 0x0d, 0x06, 0x09, 0x60, 0x86, 0x48, 0x01, 0x65, 0x03, 0x04, 0x02, 0x02, 0x05, 0x00, 0x04, 0x30},
	crypto.SHA512: {0x30, 0x51, 0x30, 0x0d, 0x06, 0x09, 0x60, 0x86, 0x48, 0x01, 0x65, 0x03, 0x04, 0x02, 0x03, 0x05, 0x00, 0x04, 0x40},
}

func emsaPKCS1v15(h crypto.Hash, digest []byte, k int) []byte {
	pre := digestInfoPrefix[h]
	tLen := len(pre) + len(digest)
	if k < tLen+11 {
		return nil
	}
	em := make([]byte, k)
	em[1] = 1
	for i := 2; i < k-tLen-1; i++ {
		em[i] = 0xff
	}
	copy(em[k-tLen:], pre)
	copy(em[k-len(digest):], digest)
	return em
}

func mgf1(h crypto.Hash, seed []byte, n int) []byte {
	var out []byte
	for c := uint32(0); len(out) < n; c++ {
		hh := h.New()
		hh.Write(seed)
		hh.Write([]byte{byte(c >> 24), byte(c >> 16), byte(c >> 8), byte(c)})
		out = hh.Sum(out)
	}
	return out[:n]
}

// emsaPSS encodes per RFC 8017 §9.1.1 with the given salt.
func emsaPSS(h crypto.Hash, mHash, salt []byte, emBits int) []byte {
	hLen := h.Size()
	emLen := (emBits + 7) / 8
	if emLen < hLen+len(salt)+2 {
		return nil
	}
	hh := h.New()
	hh.Write(make([]byte, 8))
	hh.Write(mHash)
	hh.Write(salt)
	H := hh.Sum(nil)
	db := make([]byte, emLen-hLen-1)
	db[len(db)-len(salt)-1] = 1
	copy(db[len(db)-len(salt):], salt)
	mask := mgf1(h, H, len(db))
	for i := range db {
		db[i] ^= mask[i]
	}
	db[0] &= 0xff >> uint(8*emLen-emBits)
	em := append(db, H...)
	return append(em, 0xbc)
}

func rsaPrivOp(k *stdrsa.PrivateKey, em []byte) []byte {
	m := new(big.Int).SetBytes(em)
	c := new(big.Int).Exp(m, k.D, k.N)
	out := make([]byte, (k.N.BitLen()+7)/8)
	c.FillBytes(out)
	return out
}

// ---------------------------------------------------------------------------
// signers

type signer struct {
	kind string // rsa | ec | ed | dsa | none
	rsa  *stdrsa.PrivateKey
	ec   *ecdsa.PrivateKey
	ed   ed25519.PrivateKey
	dsa  *stddsa.PrivateKey
	name string
}

func curveOID(c elliptic.Curve) []int {
	switch c {
	case elliptic.P224():
		return oidP224
	case elliptic.P256():
		return oidP256
	case elliptic.P384():
		return oidP384
	}
	return oidP521
}

// spki returns the canonical SubjectPublicKeyInfo of the signer's key.
func (s *signer) spki() *der.Node {
	switch s.kind {
	case "rsa":
		return der.Seq(der.Seq(der.OID(oidRSA...), der.Null()),
			der.BitsWrap(der.Seq(der.BigInt(s.rsa.N), der.Int(int64(s.rsa.E)))))
	case "ec":
		pt := elliptic.Marshal(s.ec.Curve, s.ec.X, s.ec.Y)
		return der.Seq(der.Seq(der.OID(oidEC...), der.OID(curveOID(s.ec.Curve)...)), der.Bits(pt, 0))
	case "ed":
		return der.Seq(der.Seq(der.OID(oidEd25519...)), der.Bits([]byte(s.ed.Public().(ed25519.PublicKey)), 0))
	case "dsa":
		return der.Seq(der.Seq(der.OID(oidDSA...), der.Seq(der.BigInt(s.dsa.P), der.BigInt(s.dsa.Q), der.BigInt(s.dsa.G))),
			der.BitsWrap(der.BigInt(s.dsa.Y)))
	}
	return nil
}

type sigChoice struct {
	oid  []int
	hash crypto.Hash
	pss  bool
}

var (
	rsaSigs = []sigChoice{{oidSHA256RSA, crypto.SHA256, false}, {oidSHA1RSA, crypto.SHA1, false}, {oidMD5RSA, crypto.MD5, false},
		{oidSHA384RSA, crypto.SHA384, false}, {oidSHA512RSA, crypto.SHA512, false},
		{oidRSAPSS, crypto.SHA256, true}, {oidRSAPSS, crypto.SHA384, true}, {oidRSAPSS, crypto.SHA512, true}}
	ecSigs = []sigChoice{{oidECSHA256, crypto.SHA256, false}, {oidECSHA1, crypto.SHA1, false}, {oidECSHA384, crypto.SHA384, false}, {oidECSHA512, crypto.SHA512, false}}
)

func hashOID(h crypto.Hash) []int {
	switch h {
	case crypto.SHA1:
		return oidSHA1
	case crypto.SHA256:
		return oidSHA256
	case crypto.SHA384:
		return oidSHA384
	}
	return oidSHA512
}

func pssParams(h crypto.Hash) *der.Node {
	ha := der.Seq(der.OID(hashOID(h)...), der.Null())
	return der.Seq(
		der.Explicit(0, ha),
		der.Explicit(1, der.Seq(der.OID(oidMGF1...), ha.Clone())),
		der.Explicit(2, der.Int(int64(h.Size()))),
	)
}

// sign picks a signature algorithm suitable for the key, returns the
// AlgorithmIdentifier node and a function producing the signature over tbs.
func (s *signer) sign(r *rand.Rand) (alg *der.Node, f func(tbs []byte) []byte) {
	switch s.kind {
	case "rsa":
		var c sigChoice
		for {
			c = rsaSigs[r.IntN(len(rsaSigs))]
			if r.IntN(3) == 0 {
				c = rsaSigs[0]
			}
			k := (s.rsa.N.BitLen() + 7) / 8
			need := len(digestInfoPrefix[c.hash]) + c.hash.Size() + 11
			if c.pss {
				need = 2*c.hash.Size() + 2
			}
			if k >= need {
				break
			}
		}
		if c.pss {
			salt := make([]byte, c.hash.Size())
			for i := range salt {
				salt[i] = byte(r.UintN(256))
			}
			return der.Seq(der.OID(c.oid...), pssParams(c.hash)), func(tbs []byte) []byte {
				em := emsaPSS(c.hash, hashOf(c.hash, tbs), salt, s.rsa.N.BitLen()-1)
				return rsaPrivOp(s.rsa, em)
			}
		}
		return der.Seq(der.OID(c.oid...), der.Null()), func(tbs []byte) []byte {
			em := emsaPKCS1v15(c.hash, hashOf(c.hash, tbs), (s.rsa.N.BitLen()+7)/8)
			return rsaPrivOp(s.rsa, em)
		}
	case "ec":
		c := ecSigs[r.IntN(len(ecSigs))]
		if r.IntN(2) == 0 {
			c = ecSigs[0]
		}
		return der.Seq(der.OID(c.oid...)), func(tbs []byte) []byte {
			sig, err := s.ec.Sign(nil, hashOf(c.hash, tbs), c.hash) // rand == nil: RFC 6979, deterministic
			if err != nil {
				return []byte{0x30, 0}
			}
			return sig
		}
	case "ed":
		return der.Seq(der.OID(oidEd25519...)), func(tbs []byte) []byte { return ed25519.Sign(s.ed, tbs) }
	case "dsa":
		h, oid := crypto.SHA1, oidDSASHA1
		if s.dsa.Q.BitLen() >= 256 {
			h, oid = crypto.SHA256, oidDSASHA256
		}
		kseed := new(big.Int).SetUint64(r.Uint64())
		return der.Seq(der.OID(oid...)), func(tbs []byte) []byte {
			d := s.dsa
			z := new(big.Int).SetBytes(hashOf(h, tbs))
			one := big.NewInt(1)
			k := new(big.Int).Add(new(big.Int).Mod(new(big.Int).Mul(kseed, z), new(big.Int).Sub(d.Q, one)), one)
			for {
				rr := new(big.Int).Exp(d.G, k, d.P)
				rr.Mod(rr, d.Q)
				kinv := new(big.Int).ModInverse(k, d.Q)
				ss := new(big.Int).Mul(d.X, rr)
				ss.Add(ss, z)
				ss.Mul(ss, kinv)
				ss.Mod(ss, d.Q)
				if rr.Sign() != 0 && ss.Sign() != 0 {
					return der.Seq(der.BigInt(rr), der.BigInt(ss)).Encode()
				}
				k.Add(k, one)
			}
		}
	}
	return nil, nil
}

// ---------------------------------------------------------------------------
// independent verification (C06 oracle)

type tri int

const (
	triUnknown tri = iota
	triYes
	triNo
)

// verifyWithSPKI decides whether sig is a valid signature over tbs under the
// key in spki for the AlgorithmIdentifier alg, using Go's standard library /
// math/big only. It answers triUnknown whenever the combination is outside
// what it can decide with certainty (unsupported algorithm, key shapes on
// which implementations legitimately differ).
func verifyWithSPKI(spki, alg *der.Node, tbs, sig []byte) tri {
	if spki == nil || alg == nil || len(spki.Children) != 2 || len(alg.Children) < 1 {
		return triUnknown
	}
	if !spki.Canonical() || !alg.Canonical() {
		return triUnknown
	}
	ka := spki.Children[0]
	if !ka.IsUniversal(der.TagSequence) || !ka.Constructed || len(ka.Children) < 1 || !ka.Children[0].IsPrimitive(der.TagOID) {
		return triUnknown
	}
	keyOID := der.ParseOID(ka.Children[0].Content)
	keyBits := spki.Children[1]
	if !keyBits.IsUniversal(der.TagBitString) || keyBits.Constructed {
		return triUnknown
	}
	kb := keyBits.Body()
	if len(kb) < 1 || kb[0] != 0 {
		return triUnknown
	}
	kb = kb[1:]
	if !alg.Children[0].IsPrimitive(der.TagOID) {
		return triUnknown
	}
	sigOID := der.ParseOID(alg.Children[0].Content)

	type rs struct {
		h   crypto.Hash
		pss bool
	}
	rsaAlgs := map[string]rs{"md5": {crypto.MD5, false}, "sha1": {crypto.SHA1, false}, "sha256": {crypto.SHA256, false},
		"sha384": {crypto.SHA384, false}, "sha512": {crypto.SHA512, false}}
	switch {
	case oidEq(keyOID, oidRSA):
		var c rs
		switch {
		case oidEq(sigOID, oidMD5RSA):
			c = rsaAlgs["md5"]
		case oidEq(sigOID, oidSHA1RSA):
			c = rsaAlgs["sha1"]
		case oidEq(sigOID, oidSHA256RSA):
			c = rsaAlgs["sha256"]
		case oidEq(sigOID, oidSHA384RSA):
			c = rsaAlgs["sha384"]
		case oidEq(sigOID, oidSHA512RSA):
			c = rsaAlgs["sha512"]
		case oidEq(sigOID, oidRSAPSS):
			// only the three parameter sets zcrypto maps to an algorithm, in their canonical encoding
			if len(alg.Children) != 2 {
				return triUnknown
			}
			found := false
			for _, h := range []crypto.Hash{crypto.SHA256, crypto.SHA384, crypto.SHA512} {
				if bytes.Equal(alg.Children[1].Encode(), pssParams(h).Encode()) {
					c = rs{h, true}
					found = true
				}
			}
			if !found {
				return triUnknown
			}
		default:
			return triUnknown
		}
		kn, err := der.ParseAll(kb)
		if err != nil || len(kn) != 1 || !kn[0].IsUniversal(der.TagSequence) || !kn[0].Constructed || len(kn[0].Children) != 2 || !kn[0].Canonical() {
			return triUnknown
		}
		nN, nE := kn[0].Children[0], kn[0].Children[1]
		if !nN.IsPrimitive(der.TagInteger) || !nE.IsPrimitive(der.TagInteger) || !minimalInt(nN.Content) || !minimalInt(nE.Content) {
			return triUnknown
		}
		N := new(big.Int).SetBytes(nN.Content)
		E := new(big.Int).SetBytes(nE.Content)
		if nN.Content[0]&0x80 != 0 || nE.Content[0]&0x80 != 0 { // negative
			return triUnknown
		}
		// sane keys only: implementations legitimately differ on degenerate ones
		if N.BitLen() < 512 || N.Bit(0) == 0 || E.Cmp(big.NewInt(3)) < 0 || E.Bit(0) == 0 || E.BitLen() > 31 {
			return triUnknown
		}
		k := (N.BitLen() + 7) / 8
		if len(sig) != k {
			if len(sig) > k {
				return triNo
			}
			return triUnknown // shorter signatures: left-padding behaviour differs between implementations
		}
		s := new(big.Int).SetBytes(sig)
		if s.Cmp(N) >= 0 {
			return triNo
		}
		em := make([]byte, k)
		new(big.Int).Exp(s, E, N).FillBytes(em)
		digest := hashOf(c.h, tbs)
		if c.pss {
			pub := &stdrsa.PublicKey{N: N, E: int(E.Int64())}
			if N.BitLen() < 1024 {
				return triUnknown
			}
			if stdrsa.VerifyPSS(pub, c.h, digest, sig, &stdrsa.PSSOptions{SaltLength: stdrsa.PSSSaltLengthEqualsHash}) == nil {
				return triYes
			}
			return triNo
		}
		want := emsaPKCS1v15(c.h, digest, k)
		if want == nil {
			return triNo
		}
		if bytes.Equal(want, em) {
			return triYes
		}
		return triNo
	case oidEq(keyOID, oidEC):
		var h crypto.Hash
		switch {
		case oidEq(sigOID, oidECSHA1):
			h = crypto.SHA1
		case oidEq(sigOID, oidECSHA256):
			h = crypto.SHA256
		case oidEq(sigOID, oidECSHA384):
			h = crypto.SHA384
		case oidEq(sigOID, oidECSHA512):
			h = crypto.SHA512
		default:
			return triUnknown
		}
		if len(ka.Children) != 2 || !ka.Children[1].IsPrimitive(der.TagOID) {
			return triUnknown
		}
		co := der.ParseOID(ka.Children[1].Content)
		var curve elliptic.Curve
		switch {
		case oidEq(co, oidP224):
			curve = elliptic.P224()
		case oidEq(co, oidP256):
			curve = elliptic.P256()
		case oidEq(co, oidP384):
			curve = elliptic.P384()
		case oidEq(co, oidP521):
			curve = elliptic.P521()
		default:
			return triUnknown
		}
		if len(kb) == 0 || kb[0] != 4 {
			return triUnknown
		}
		x, y := elliptic.Unmarshal(curve, kb)
		if x == nil {
			return triUnknown
		}
		// signature: strict DER SEQUENCE { r, s } with positive minimal integers, nothing after it
		sn, err := der.ParseAll(sig)
		if err != nil || len(sn) != 1 {
			return triUnknown
		}
		if !sn[0].IsUniversal(der.TagSequence) || !sn[0].Constructed || len(sn[0].Children) != 2 || !sn[0].Canonical() {
			return triUnknown
		}
		a, b := sn[0].Children[0], sn[0].Children[1]
		if !a.IsPrimitive(der.TagInteger) || !b.IsPrimitive(der.TagInteger) || !minimalInt(a.Content) || !minimalInt(b.Content) ||
			a.Content[0]&0x80 != 0 || b.Content[0]&0x80 != 0 {
			return triUnknown
		}
		R, S := new(big.Int).SetBytes(a.Content), new(big.Int).SetBytes(b.Content)
		if R.Sign() == 0 || S.Sign() == 0 {
			return triNo
		}
		if ecdsa.Verify(&ecdsa.PublicKey{Curve: curve, X: x, Y: y}, hashOf(h, tbs), R, S) {
			return triYes
		}
		return triNo
	case oidEq(keyOID, oidEd25519):
		if !oidEq(sigOID, oidEd25519) || len(kb) != ed25519.PublicKeySize {
			return triUnknown
		}
		if ed25519.Verify(ed25519.PublicKey(kb), tbs, sig) {
			return triYes
		}
		return triNo
	case oidEq(keyOID, oidDSA):
		var h crypto.Hash
		switch {
		case oidEq(sigOID, oidDSASHA1):
			h = crypto.SHA1
		case oidEq(sigOID, oidDSASHA256):
			h = crypto.SHA256
		default:
			return triUnknown
		}
		if len(ka.Children) != 2 || !ka.Children[1].IsUniversal(der.TagSequence) || !ka.Children[1].Constructed || len(ka.Children[1].Children) != 3 {
			return triUnknown
		}
		var pqg [3]*big.Int
		for i, n := range ka.Children[1].Children {
			if !n.IsPrimitive(der.TagInteger) || !minimalInt(n.Content) || n.Content[0]&0x80 != 0 {
				return triUnknown
			}
			pqg[i] = new(big.Int).SetBytes(n.Content)
		}
		yn, err := der.ParseAll(kb)
		if err != nil || len(yn) != 1 || !yn[0].IsPrimitive(der.TagInteger) || !minimalInt(yn[0].Content) || yn[0].Content[0]&0x80 != 0 {
			return triUnknown
		}
		Y := new(big.Int).SetBytes(yn[0].Content)
		P, Q, G := pqg[0], pqg[1], pqg[2]
		// sane parameters only; hash not longer than q (truncation rules differ between implementations)
		if P.BitLen() < 512 || Q.BitLen() < 160 || Q.BitLen()%8 != 0 || h.Size()*8 > Q.BitLen() || !P.ProbablyPrime(4) || !Q.ProbablyPrime(4) ||
			G.Cmp(big.NewInt(2)) < 0 || G.Cmp(P) >= 0 || Y.Sign() <= 0 || Y.Cmp(P) >= 0 {
			return triUnknown
		}
		sn, err := der.ParseAll(sig)
		if err != nil || len(sn) != 1 || !sn[0].IsUniversal(der.TagSequence) || !sn[0].Constructed || len(sn[0].Children) != 2 || !sn[0].Canonical() {
			return triUnknown
		}
		a, b := sn[0].Children[0], sn[0].Children[1]
		if !a.IsPrimitive(der.TagInteger) || !b.IsPrimitive(der.TagInteger) || !minimalInt(a.Content) || !minimalInt(b.Content) ||
			a.Content[0]&0x80 != 0 || b.Content[0]&0x80 != 0 {
			return triUnknown
		}
		R, S := new(big.Int).SetBytes(a.Content), new(big.Int).SetBytes(b.Content)
		if R.Sign() == 0 || S.Sign() == 0 {
			return triNo
		}
		pub := &stddsa.PublicKey{Parameters: stddsa.Parameters{P: P, Q: Q, G: G}, Y: Y}
		if stddsa.Verify(pub, hashOf(h, tbs), R, S) {
			return triYes
		}
		return triNo
	}
	return triUnknown
}

func minimalInt(b []byte) bool {
	if len(b) == 0 {
		return false
	}
	if len(b) == 1 {
		return true
	}
	if b[0] == 0 && b[1]&0x80 == 0 {
		return false
	}
	if b[0] == 0xff && b[1]&0x80 != 0 {
		return false
	}
	return true
}
