package x509eng

import (
	"bytes"
	"encoding/hex"
	"encoding/pem"
	"os"
	"path/filepath"
	"regexp"
	"sort"
	"strings"
	"sync"

	"verifharness/internal/der"
)

// repoRoot is where the seed corpus is read from (the zcrypto checkout).
func repoRoot() string {
	if r := os.Getenv("VERIF_REPO"); r != "" {
		return r
	}
	return "/repo"
}

type tlsSeed struct {
	Typ  byte
	Data []byte // complete handshake message (4-byte header + body)
}

// corpus is every seed object found in the repository, by kind. All byte slices are DER unless said otherwise.
type corpus struct {
	Certs     [][]byte
	CSRs      [][]byte
	CRLs      [][]byte
	SPKIs     [][]byte
	PKCS1Priv [][]byte
	PKCS1Pub  [][]byte
	PKCS8     [][]byte
	ECPriv    [][]byte
	OtherDER  [][]byte
	PEMTexts  [][]byte // complete PEM files / embedded PEM runs (text)
	EncPEM    []*pem.Block
	CRLSets   [][]byte
	OneCRLs   [][]byte
	SSTs      [][]byte
	TLSMsgs   []tlsSeed
	Files     int
}

var (
	corpusOnce sync.Once
	theCorpus  *corpus
)

var reHexLit = regexp.MustCompile(`"((?:30|a0|A0)[0-9a-fA-F]{80,})"`)

func dedup(in [][]byte) [][]byte {
	seen := map[string]bool{}
	var out [][]byte
	for _, b := range in {
		if !seen[string(b)] {
			seen[string(b)] = true
			out = append(out, b)
		}
	}
	return out
}

func isCertShape(n *der.Node) bool {
	return n.IsUniversal(der.TagSequence) && len(n.Children) == 3 && n.Children[0].IsUniversal(der.TagSequence) &&
		len(n.Children[0].Children) >= 6 && n.Children[1].IsUniversal(der.TagSequence) && n.Children[2].IsUniversal(der.TagBitString)
}

func (c *corpus) addPEMBlock(b *pem.Block) {
	if _, enc := b.Headers["DEK-Info"]; enc {
		c.EncPEM = append(c.EncPEM, b)
		return
	}
	switch b.Type {
	case "CERTIFICATE", "TRUSTED CERTIFICATE", "X509 CERTIFICATE":
		c.Certs = append(c.Certs, b.Bytes)
	case "CERTIFICATE REQUEST", "NEW CERTIFICATE REQUEST":
		c.CSRs = append(c.CSRs, b.Bytes)
	case "X509 CRL":
		c.CRLs = append(c.CRLs, b.Bytes)
	case "PUBLIC KEY":
		c.SPKIs = append(c.SPKIs, b.Bytes)
	case "RSA PRIVATE KEY":
		c.PKCS1Priv = append(c.PKCS1Priv, b.Bytes)
	case "RSA PUBLIC KEY":
		c.PKCS1Pub = append(c.PKCS1Pub, b.Bytes)
	case "PRIVATE KEY":
		c.PKCS8 = append(c.PKCS8, b.Bytes)
	case "EC PRIVATE KEY":
		c.ECPriv = append(c.ECPriv, b.Bytes)
	default:
		c.OtherDER = append(c.OtherDER, b.Bytes)
	}
}

func (c *corpus) addRawDER(b []byte) {
	if len(b) > 64<<10 {
		return
	}
	n, rest, err := der.Parse(b)
	if err != nil || len(rest) != 0 {
		return
	}
	if isCertShape(n) {
		c.Certs = append(c.Certs, b)
	} else {
		c.OtherDER = append(c.OtherDER, b)
	}
}

func (c *corpus) scanPEM(data []byte) int {
	n := 0
	rest := data
	for {
		var b *pem.Block
		b, rest = pem.Decode(rest)
		if b == nil {
			break
		}
		n++
		c.addPEMBlock(b)
	}
	return n
}

// loadCorpus walks the repository once per process.
func loadCorpus() *corpus {
	corpusOnce.Do(func() {
		c := &corpus{}
		root := repoRoot()
		var files []string
		filepath.Walk(root, func(p string, info os.FileInfo, err error) error {
			if err != nil {
				return nil
			}
			if info.IsDir() {
				if info.Name() == ".git" {
					return filepath.SkipDir
				}
				return nil
			}
			if info.Size() > 16<<20 || strings.HasPrefix(info.Name(), "zz_verif") {
				return nil
			}
			files = append(files, p)
			return nil
		})
		sort.Strings(files)
		for _, p := range files {
			rel, _ := filepath.Rel(root, p)
			inTestdata := strings.Contains(rel, "testdata/") || strings.HasPrefix(rel, "data/test/certificates/") ||
				strings.HasPrefix(rel, "x509/revocation/")
			isGo := strings.HasSuffix(p, ".go")
			if !inTestdata && !isGo {
				continue
			}
			data, err := os.ReadFile(p)
			if err != nil {
				continue
			}
			c.Files++
			base := filepath.Base(p)
			switch {
			case strings.HasPrefix(rel, "tls/testdata/"):
				c.TLSMsgs = append(c.TLSMsgs, parseTLSFlows(data)...)
				continue
			case strings.HasSuffix(base, ".crl") && len(data) > 2 && data[0] == 0x30:
				c.CRLs = append(c.CRLs, data)
				continue
			case strings.HasSuffix(base, ".sst"):
				c.SSTs = append(c.SSTs, data)
				continue
			case strings.Contains(rel, "google/testdata/") || strings.HasPrefix(base, "crl-set"):
				if !isGo {
					c.CRLSets = append(c.CRLSets, data)
					continue
				}
			case strings.Contains(base, "onecrl") || base == "records":
				if !isGo {
					c.OneCRLs = append(c.OneCRLs, data)
					continue
				}
			}
			if bytes.Contains(data, []byte("-----BEGIN ")) {
				if c.scanPEM(data) > 0 && !isGo && len(data) < 1<<20 {
					c.PEMTexts = append(c.PEMTexts, data)
				}
			} else if !isGo && len(data) > 2 && data[0] == 0x30 {
				c.addRawDER(data)
			}
			if isGo && (strings.HasSuffix(p, "_test.go") || inTestdata) && bytes.Contains(data, []byte(`"30`)) {
				for _, m := range reHexLit.FindAllSubmatch(data, -1) {
					if len(m[1])%2 != 0 {
						continue
					}
					if b, err := hex.DecodeString(string(m[1])); err == nil {
						c.addRawDER(b)
					}
				}
			}
		}
		c.Certs = dedup(c.Certs)
		c.CSRs = dedup(c.CSRs)
		c.CRLs = dedup(c.CRLs)
		c.SPKIs = dedup(c.SPKIs)
		c.PKCS1Priv = dedup(c.PKCS1Priv)
		c.PKCS1Pub = dedup(c.PKCS1Pub)
		c.PKCS8 = dedup(c.PKCS8)
		c.ECPriv = dedup(c.ECPriv)
		c.OtherDER = dedup(c.OtherDER)
		// TLS messages: dedup
		seen := map[string]bool{}
		var tm []tlsSeed
		for _, m := range c.TLSMsgs {
			if !seen[string(m.Data)] {
				seen[string(m.Data)] = true
				tm = append(tm, m)
			}
		}
		c.TLSMsgs = tm
		theCorpus = c
	})
	return theCorpus
}

// parseTLSFlows extracts the plaintext handshake messages from a crypto/tls
// style recorded-connection file (">>> Flow N (dir)" + hex dump lines).
func parseTLSFlows(data []byte) []tlsSeed {
	var out []tlsSeed
	streams := map[string][]byte{}
	var order []string
	dir := ""
	for _, line := range strings.Split(string(data), "\n") {
		if strings.HasPrefix(line, ">>> Flow") {
			if strings.Contains(line, "client to server") {
				dir = "c"
			} else {
				dir = "s"
			}
			if _, ok := streams[dir]; !ok {
				order = append(order, dir)
				streams[dir] = nil
			}
			continue
		}
		if dir == "" || len(line) < 10 {
			continue
		}
		// "00000000  16 03 01 00 f8 01 00 00  f4 03 03 ...  |....|"
		body := line[8:]
		if i := strings.IndexByte(body, '|'); i >= 0 {
			body = body[:i]
		}
		for _, f := range strings.Fields(body) {
			if len(f) != 2 {
				continue
			}
			if b, err := hex.DecodeString(f); err == nil {
				streams[dir] = append(streams[dir], b[0])
			}
		}
	}
	for _, d := range order {
		s := streams[d]
		var hs []byte
		for len(s) >= 5 {
			typ := s[0]
			l := int(s[3])<<8 | int(s[4])
			if 5+l > len(s) {
				break
			}
			if typ == 0x14 { // ChangeCipherSpec: the rest of this direction is encrypted
				break
			}
			if typ == 0x16 {
				hs = append(hs, s[5:5+l]...)
			}
			s = s[5+l:]
		}
		for len(hs) >= 4 {
			l := int(hs[1])<<16 | int(hs[2])<<8 | int(hs[3])
			if 4+l > len(hs) {
				break
			}
			out = append(out, tlsSeed{Typ: hs[0], Data: append([]byte(nil), hs[:4+l]...)})
			hs = hs[4+l:]
		}
	}
	return out
}
